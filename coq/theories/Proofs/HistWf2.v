(* C04: well-formedness is preserved by the remaining calls - relabelling
   (partial, swaps, cycles; array order and dict order), change_vartype (whole
   BQM, one QM variable), resize, QuadraticModel.update, QM variable creation
   and bound edits - hence by EVERY call and every history. *)
From Coq Require Import List ZArith QArith Qcanon Bool Arith Lia.
From Dimod Require Import Base.Util Model.Poly Model.View Model.Hist Proofs.PolyFacts Proofs.HistFacts Proofs.HistWf.
Import ListNotations.
Open Scope Qc_scope.

(* ---------- lookups in a list with distinct labels ---------- *)
Lemma find_unique (l : list vinfo) i :
  NoDup (map v_lab l) -> In i l -> find (fun j => (v_lab j =? v_lab i)%nat) l = Some i.
Proof.
  induction l as [|a l IH]; [intros _ []|]. cbn [map]. intros Hnd [->|Hin].
  - cbn [find]. rewrite Nat.eqb_refl. reflexivity.
  - inversion Hnd as [|? ? Hni Hnd']; subst. cbn [find].
    destruct (Nat.eqb_spec (v_lab a) (v_lab i)) as [E|E].
    + exfalso. apply Hni. rewrite E. apply in_map. assumption.
    + apply IH; assumption.
Qed.

Lemma find_none_notin (l : list vinfo) x :
  find (fun j => (v_lab j =? x)%nat) l = None -> ~ In x (map v_lab l).
Proof.
  induction l as [|a l IH]; [intros _ []|]. cbn [find map]. destruct (Nat.eqb_spec (v_lab a) x) as [E|E]; [discriminate|].
  intros H [H1|H1]; [contradiction|]. apply IH; assumption.
Qed.

Lemma find_some_in (l : list vinfo) x i :
  find (fun j => (v_lab j =? x)%nat) l = Some i -> In i l /\ v_lab i = x.
Proof.
  intros H. apply find_some in H. destruct H as [H1 H2]. apply Nat.eqb_eq in H2. auto.
Qed.

Lemma vt_of_in s i : NoDup (labels s) -> In i (st_vars s) -> vt_of s (v_lab i) = v_vt i.
Proof. intros Hnd Hi. unfold vt_of, find_var. rewrite (find_unique _ i Hnd Hi). reflexivity. Qed.

Lemma in_labels_vinfo s x : In x (labels s) -> exists i, In i (st_vars s) /\ v_lab i = x.
Proof. unfold labels. intros H. apply in_map_iff in H. destruct H as [i [E Hi]]. exists i. auto. Qed.

(* a generic way to re-establish wf after the variable list was rebuilt *)
Lemma wf_rebuild s (vs : list vinfo) p k :
  wf s ->
  NoDup (map v_lab vs) ->
  (forall t, In t (p_lin p) -> In (fst t) (map v_lab vs)) ->
  (forall t, In t (p_quad p) -> In (fst (fst t)) (map v_lab vs) /\ In (snd (fst t)) (map v_lab vs)
        /\ (fst (fst t) = snd (fst t) -> is_sb (vt_of (mkSt k vs p) (fst (fst t))) = false)) ->
  (forall vt, k = Some vt -> is_sb vt = true /\ forall i, In i vs -> v_vt i = vt) ->
  wf (mkSt k vs p).
Proof. intros _ H1 H2 H3 H4. split; [exact H1|]. split; [exact H2|]. split; [exact H3|exact H4]. Qed.

(* ---------- relabelling ---------- *)
Lemma lookup_found m x t : find (fun t => (fst t =? x)%nat) m = Some t -> lookup m x = snd t /\ In t m /\ fst t = x.
Proof.
  intros H. unfold lookup. rewrite H. split; [reflexivity|]. apply find_some in H. destruct H as [H1 H2].
  apply Nat.eqb_eq in H2. auto.
Qed.

Lemma lookup_notfound m x : find (fun t : label * label => (fst t =? x)%nat) m = None -> lookup m x = x /\ mem_label x (map fst m) = false.
Proof.
  intros H. unfold lookup. rewrite H. split; [reflexivity|].
  apply not_true_is_false. intros Hm. apply mem_label_In in Hm. apply in_map_iff in Hm. destruct Hm as [t [E Ht]].
  apply (find_none _ _ H) in Ht. apply Nat.eqb_neq in Ht. contradiction.
Qed.

Lemma NoDup_map_inj {A B : Type} (f : A -> B) (l : list A) a b :
  NoDup (map f l) -> In a l -> In b l -> f a = f b -> a = b.
Proof.
  induction l as [|x l IH]; [intros _ []|]. cbn [map]. intros Hnd Ha Hb E.
  inversion Hnd as [|? ? Hni Hnd']; subst. destruct Ha as [->|Ha]; destruct Hb as [->|Hb]; try reflexivity.
  - exfalso. apply Hni. rewrite E. apply in_map. assumption.
  - exfalso. apply Hni. rewrite <- E. apply in_map. assumption.
  - apply IH; assumption.
Qed.

Lemma In_mem_label x l : In x l -> mem_label x l = true.
Proof. intros H. unfold mem_label. apply existsb_exists. exists x. split; [assumption|apply Nat.eqb_refl]. Qed.

(* an accepted mapping is injective on the variables *)
Lemma lookup_inj m s x y :
  relabel_ok m s = true -> In x (labels s) -> In y (labels s) -> lookup m x = lookup m y -> x = y.
Proof.
  unfold relabel_ok. intros H Hx Hy E. apply andb_true_iff in H. destruct H as [Hnd Hall].
  apply nodupb_NoDup in Hnd.
  assert (Hclash : forall t z, In t m -> In z (labels s) -> snd t = z -> mem_label z (map fst m) = false -> False).
  { intros t z Ht Hz Ez Hk. eapply forallb_forall in Hall; [|exact Ht]. cbn beta in Hall.
    apply negb_true_iff in Hall. rewrite Ez, Hk in Hall. apply has_var_In in Hz. rewrite Hz in Hall. discriminate. }
  destruct (find (fun t => (fst t =? x)%nat) m) as [tx|] eqn:Fx; destruct (find (fun t => (fst t =? y)%nat) m) as [ty|] eqn:Fy.
  - destruct (lookup_found _ _ _ Fx) as (Lx & Ix & Kx). destruct (lookup_found _ _ _ Fy) as (Ly & Iy & Ky).
    rewrite Lx, Ly in E. assert (tx = ty) by (eapply NoDup_map_inj; eassumption). subst. congruence.
  - destruct (lookup_found _ _ _ Fx) as (Lx & Ix & Kx). destruct (lookup_notfound _ _ Fy) as (Ly & Ny).
    rewrite Lx, Ly in E. exfalso. exact (Hclash tx y Ix Hy E Ny).
  - destruct (lookup_notfound _ _ Fx) as (Lx & Nx). destruct (lookup_found _ _ _ Fy) as (Ly & Iy & Ky).
    rewrite Lx, Ly in E. exfalso. exact (Hclash ty x Iy Hx (eq_sym E) Nx).
  - destruct (lookup_notfound _ _ Fx) as (Lx & _). destruct (lookup_notfound _ _ Fy) as (Ly & _). congruence.
Qed.

Lemma NoDup_map_of_inj {A B : Type} (f : A -> B) (l : list A) :
  NoDup l -> (forall a b, In a l -> In b l -> f a = f b -> a = b) -> NoDup (map f l).
Proof.
  induction l as [|x l IH]; [constructor|]. intros Hnd Hinj. inversion Hnd as [|? ? Hni Hnd']; subst.
  cbn [map]. constructor.
  - intros H. apply in_map_iff in H. destruct H as [y [E Hy]]. apply Hni.
    rewrite <- (Hinj y x (or_intror Hy) (or_introl eq_refl) E). assumption.
  - apply IH; [assumption|]. intros a b Ha Hb. apply Hinj; right; assumption.
Qed.

Definition relab (f : label -> label) (i : vinfo) : vinfo := mkV (f (v_lab i)) (v_vt i) (v_lb i) (v_ub i).

Lemma find_relab f (l : list vinfo) x :
  (forall a b, In a (map v_lab l) -> In b (map v_lab l) -> f a = f b -> a = b) ->
  In x (map v_lab l) ->
  find (fun j => (v_lab j =? f x)%nat) (map (relab f) l) = option_map (relab f) (find (fun j => (v_lab j =? x)%nat) l).
Proof.
  intros Hinj Hx. induction l as [|a l IH]; [reflexivity|].
  cbn [map find]. cbn [relab v_lab].
  assert (Ea : (f (v_lab a) =? f x)%nat = (v_lab a =? x)%nat).
  { destruct (Nat.eqb_spec (v_lab a) x) as [E|E]; [rewrite E; apply Nat.eqb_refl|].
    apply Nat.eqb_neq. intros E2. apply E. apply Hinj; [left; reflexivity|assumption|assumption]. }
  rewrite Ea. destruct (Nat.eqb_spec (v_lab a) x) as [E|E]; [reflexivity|].
  apply IH.
  - intros p q Hp Hq. apply Hinj; right; assumption.
  - destruct Hx as [Hx|Hx]; [contradiction|assumption].
Qed.

Lemma wf_relabel_state f s :
  wf s -> (forall a b, In a (labels s) -> In b (labels s) -> f a = f b -> a = b) -> wf (relabel_state f s).
Proof.
  intros (Hnd & Hl & Hq & Hk) Hinj. unfold relabel_state. fold (relab f).
  assert (Hlab : map v_lab (map (relab f) (st_vars s)) = map f (labels s)).
  { unfold labels. rewrite !map_map. reflexivity. }
  split; [|split; [|split]]; unfold labels; cbn [st_vars st_poly st_kind].
  - rewrite Hlab. apply NoDup_map_of_inj; assumption.
  - intros t Ht. cbn [relabel p_lin] in Ht. apply in_map_iff in Ht. destruct Ht as [t0 [<- H0]]. cbn [fst].
    rewrite Hlab. apply in_map. apply Hl. assumption.
  - intros t Ht. cbn [relabel p_quad] in Ht. apply in_map_iff in Ht. destruct Ht as [t0 [<- H0]]. cbn [fst snd].
    destruct (Hq t0 H0) as (H1 & H2 & H3). rewrite Hlab. split; [apply in_map; assumption|]. split; [apply in_map; assumption|].
    intros E. apply Hinj in E; try assumption.
    unfold vt_of, find_var, bvt; cbn [st_vars st_kind].
    rewrite (find_relab f (st_vars s) (fst (fst t0)) Hinj H1).
    specialize (H3 E). unfold vt_of, find_var, bvt in H3.
    destruct (find (fun i => (v_lab i =? fst (fst t0))%nat) (st_vars s)); exact H3.
  - intros vt K. destruct (Hk vt K) as [Hsb Hall]. split; [assumption|]. intros i Hi.
    apply in_map_iff in Hi. destruct Hi as [j [<- Hj]]. cbn [relab v_vt]. apply Hall. assumption.
Qed.

Lemma pres_m_relabel m : pres (m_relabel m).
Proof.
  intros s Hs. unfold m_relabel. destruct (relabel_ok m s) eqn:E; [|exact Hs].
  cbn [ok fst]. apply wf_relabel_state; [assumption|]. intros a b. apply lookup_inj. assumption.
Qed.

Lemma pres_m_relabel_ints ints : pres (m_relabel_ints ints).
Proof. intros s Hs. unfold m_relabel_ints. apply pres_m_relabel. assumption. Qed.

(* ---------- dict-order relabelling: the variable list is permuted ---------- *)
Lemma NoDup_map_filter {A B : Type} (f : A -> B) (g : A -> bool) (l : list A) :
  NoDup (map f l) -> NoDup (map f (filter g l)).
Proof.
  induction l as [|a l IH]; [intros; constructor|]. cbn [map filter]. intros Hnd.
  inversion Hnd as [|? ? Hni Hnd']; subst. destruct (g a); [|apply IH; assumption].
  cbn [map]. constructor; [|apply IH; assumption].
  intros H. apply Hni. apply in_map_iff in H. destruct H as [x [E Hx]]. apply filter_In in Hx.
  apply in_map_iff. exists x. tauto.
Qed.

Lemma NoDup_app_intro {A : Type} (l1 l2 : list A) :
  NoDup l1 -> NoDup l2 -> (forall x, In x l1 -> ~ In x l2) -> NoDup (l1 ++ l2).
Proof.
  induction l1 as [|a l IH]; [intros; assumption|]. intros H1 H2 Hd. inversion H1 as [|? ? Hni Hnd']; subst.
  cbn [app]. constructor.
  - intros H. apply in_app_or in H. destruct H as [H|H]; [contradiction|]. apply (Hd a); [left; reflexivity|assumption].
  - apply IH; [assumption|assumption|]. intros x Hx. apply Hd. right. assumption.
Qed.

Definition moved (T : list label) (vs : list vinfo) : list vinfo :=
  filter (fun i => negb (mem_label (v_lab i) T)) vs
  ++ flat_map (fun v => filter (fun i => (v_lab i =? v)%nat) vs) T.

Lemma moved_in T vs i : In i (moved T vs) <-> In i vs.
Proof.
  unfold moved. rewrite in_app_iff, filter_In, in_flat_map. split.
  - intros [[H _]|[v [_ H]]]; [assumption|]. apply filter_In in H. tauto.
  - intros H. destruct (mem_label (v_lab i) T) eqn:E.
    + right. exists (v_lab i). split; [apply mem_label_In; assumption|]. apply filter_In. split; [assumption|apply Nat.eqb_refl].
    + left. split; [assumption|reflexivity].
Qed.

Lemma moved_tail_labels T vs x :
  In x (map v_lab (flat_map (fun v => filter (fun i => (v_lab i =? v)%nat) vs) T)) -> In x T.
Proof.
  intros H. apply in_map_iff in H. destruct H as [i [E Hi]]. apply in_flat_map in Hi. destruct Hi as [v [Hv Hi]].
  apply filter_In in Hi. destruct Hi as [_ Hi]. apply Nat.eqb_eq in Hi. congruence.
Qed.

Lemma moved_nodup T vs : NoDup (map v_lab vs) -> NoDup T -> NoDup (map v_lab (moved T vs)).
Proof.
  intros Hnd HT. unfold moved. rewrite map_app. apply NoDup_app_intro.
  - apply NoDup_map_filter. assumption.
  - induction T as [|v T IH]; [constructor|]. inversion HT as [|? ? Hni HT']; subst.
    cbn [flat_map]. rewrite map_app. apply NoDup_app_intro.
    + apply NoDup_map_filter. assumption.
    + apply IH. assumption.
    + intros x Hx Hx2. apply moved_tail_labels in Hx2. apply in_map_iff in Hx. destruct Hx as [i [E Hi]].
      apply filter_In in Hi. destruct Hi as [_ Hi]. apply Nat.eqb_eq in Hi. apply Hni. congruence.
  - intros x Hx Hx2. apply moved_tail_labels in Hx2. apply in_map_iff in Hx. destruct Hx as [i [E Hi]].
    apply filter_In in Hi. destruct Hi as [_ Hi]. apply negb_true_iff in Hi. subst.
    rewrite (In_mem_label _ _ Hx2) in Hi. discriminate.
Qed.

Lemma wf_permuted s vs :
  wf s -> NoDup (map v_lab vs) -> (forall i, In i vs <-> In i (st_vars s)) -> wf (with_vars s vs).
Proof.
  intros (Hnd & Hl & Hq & Hk) Hnd' Hiff.
  assert (Hlab : forall x, In x (labels s) -> In x (map v_lab vs)).
  { intros x Hx. destruct (in_labels_vinfo s x Hx) as [i [Hi <-]]. apply in_map. apply Hiff. assumption. }
  assert (Hvt : forall x, In x (labels s) -> vt_of (with_vars s vs) x = vt_of s x).
  { intros x Hx. destruct (in_labels_vinfo s x Hx) as [i [Hi <-]].
    rewrite (vt_of_in s i Hnd Hi). apply (vt_of_in (with_vars s vs) i); [exact Hnd'|]. apply Hiff. assumption. }
  split; [exact Hnd'|]. split; [|split].
  - intros t Ht. apply Hlab. apply Hl. assumption.
  - intros t Ht. destruct (Hq t Ht) as (H1 & H2 & H3). split; [apply Hlab; assumption|]. split; [apply Hlab; assumption|].
    intros E. rewrite Hvt by assumption. apply H3. assumption.
  - intros vt K. destruct (Hk vt K) as [Hsb Hall]. split; [assumption|]. intros i Hi. apply Hall. apply Hiff. assumption.
Qed.

Lemma wf_move_to_end T s : wf s -> NoDup T -> wf (move_to_end T s).
Proof.
  intros Hs HT. unfold move_to_end. fold (moved T (st_vars s)). apply wf_permuted; [assumption| |].
  - apply moved_nodup; [apply Hs|assumption].
  - intros i. apply moved_in.
Qed.

Lemma py_moved_nodup m s : NoDup (map snd m) -> NoDup (py_moved m s).
Proof.
  intros Hnd. unfold py_moved.
  set (mv := filter (fun t => negb (fst t =? snd t)%nat && has_var s (fst t)) m).
  assert (Hmv : NoDup (map snd mv)) by (apply NoDup_map_filter; assumption).
  destruct (existsb _ _); [|exact Hmv].
  apply NoDup_app_intro; try (apply NoDup_map_filter; assumption).
  intros x H1 H2. apply in_map_iff in H1. destruct H1 as [t1 [E1 I1]]. apply in_map_iff in H2. destruct H2 as [t2 [E2 I2]].
  apply filter_In in I1. destruct I1 as [I1 C1]. apply filter_In in I2. destruct I2 as [I2 C2].
  assert (t1 = t2) by (eapply (NoDup_map_inj snd mv); try eassumption; congruence). subst.
  rewrite C2 in C1. discriminate.
Qed.

Lemma pres_m_relabel_py m : pres (m_relabel_py m).
Proof.
  intros s Hs. unfold m_relabel_py. destruct (relabel_ok m s) eqn:E; [|exact Hs].
  cbn [ok fst]. apply wf_move_to_end.
  - apply wf_relabel_state; [assumption|]. intros a b. apply lookup_inj. assumption.
  - apply py_moved_nodup. unfold relabel_ok in E. apply andb_true_iff in E. apply nodupb_NoDup. apply E.
Qed.

Lemma pres_m_relabel_ints_py ints : pres (m_relabel_ints_py ints).
Proof. intros s Hs. unfold m_relabel_ints_py. apply pres_m_relabel_py. assumption. Qed.

(* ---------- affine substitution mentions no new label and creates no new self-loop ---------- *)
Definition mentioned (p : poly) (x : label) : Prop :=
  (exists t, In t (p_lin p) /\ fst t = x) \/
  (exists q, In q (p_quad p) /\ (fst (fst q) = x \/ snd (fst q) = x)).

Definition sub_terms (p' p : poly) : Prop :=
  (forall t, In t (p_lin p') -> mentioned p (fst t)) /\
  (forall t, In t (p_quad p') -> exists q, In q (p_quad p) /\ fst t = fst q).

Lemma sub_terms_refl p : sub_terms p p.
Proof.
  split.
  - intros t Ht. left. exists t. auto.
  - intros t Ht. exists t. auto.
Qed.

Lemma sub_terms_trans p2 p1 p : sub_terms p2 p1 -> sub_terms p1 p -> sub_terms p2 p.
Proof.
  intros [L2 Q2] [L1 Q1]. split.
  - intros t Ht. destruct (L2 t Ht) as [[t1 [I1 E1]]|[q1 [I1 E1]]].
    + rewrite <- E1. apply L1. assumption.
    + destruct (Q1 q1 I1) as [q [Iq Eq]]. right. exists q. split; [assumption|]. rewrite <- Eq. assumption.
  - intros t Ht. destruct (Q2 t Ht) as [q1 [I1 E1]]. destruct (Q1 q1 I1) as [q [Iq Eq]]. exists q. split; [assumption|congruence].
Qed.

Lemma sub_terms_substitute v m c p : sub_terms (substitute v m c p) p.
Proof.
  split.
  - intros t Ht. unfold substitute in Ht; cbn [padd p_lin app] in Ht. apply in_app_or in Ht. destruct Ht as [Ht|Ht].
    + apply psum_lin_in in Ht. destruct Ht as [q [Hq Ht]]. apply in_map_iff in Hq. destruct Hq as [t0 [<- H0]].
      left. exists t0. split; [assumption|]. unfold subst_lterm in Ht.
      destruct (Nat.eqb_spec (fst t0) v) as [E|E]; cbn in Ht; destruct Ht as [<-|[]]; cbn; congruence.
    + apply psum_lin_in in Ht. destruct Ht as [q [Hq Ht]]. apply in_map_iff in Hq. destruct Hq as [[[x y] b] [<- H0]].
      right. exists (x, y, b). split; [assumption|]. cbn [fst snd subst_qterm] in *.
      destruct (Nat.eqb_spec x v) as [Ex|Ex]; destruct (Nat.eqb_spec y v) as [Ey|Ey]; cbn in Ht;
        try destruct Ht as [<-|[]]; try contradiction; cbn; subst; auto.
  - intros t Ht. unfold substitute in Ht; cbn [padd p_quad app] in Ht. apply in_app_or in Ht. destruct Ht as [Ht|Ht].
    + apply psum_quad_in in Ht. destruct Ht as [q [Hq Ht]]. apply in_map_iff in Hq. destruct Hq as [t0 [<- H0]].
      unfold subst_lterm in Ht. destruct (fst t0 =? v)%nat; cbn in Ht; contradiction.
    + apply psum_quad_in in Ht. destruct Ht as [q [Hq Ht]]. apply in_map_iff in Hq. destruct Hq as [[[x y] b] [<- H0]].
      exists (x, y, b). split; [assumption|]. cbn [fst snd subst_qterm] in *.
      destruct (Nat.eqb_spec x v) as [Ex|Ex]; destruct (Nat.eqb_spec y v) as [Ey|Ey]; cbn in Ht;
        try destruct Ht as [<-|[]]; try contradiction; cbn; subst; reflexivity.
Qed.

Lemma sub_terms_conv_fold vt ls p : sub_terms (fold_left (fun p v => conv_var vt v p) ls p) p.
Proof.
  revert p. induction ls as [|v ls IH]; intros p; [apply sub_terms_refl|].
  cbn [fold_left]. eapply sub_terms_trans; [apply IH|].
  unfold conv_var, spin_to_binary, binary_to_spin. destruct vt; apply sub_terms_substitute.
Qed.

Lemma wf_mentioned s x : wf s -> mentioned (st_poly s) x -> In x (labels s).
Proof.
  intros (_ & Hl & Hq & _) [[t [Ht <-]]|[q [Hq' E]]]; [apply Hl; assumption|].
  destruct (Hq q Hq') as (H1 & H2 & _). destruct E as [<-|<-]; assumption.
Qed.

(* ---------- change_vartype of a whole BQM ---------- *)
Lemma wf_m_change_vartype_bqm vt s : is_bqm s = true -> wf s -> wf (fst (m_change_vartype_bqm vt s)).
Proof.
  intros Hb Hs. unfold m_change_vartype_bqm. destruct (is_sb vt) eqn:Esb; cbn [negb]; [|exact Hs].
  destruct (vartype_eqb vt (bvt s)); [exact Hs|]. cbn [ok fst].
  pose proof (sub_terms_conv_fold vt (labels s) (st_poly s)) as [SL SQ].
  pose proof Hs as (Hnd & Hl & Hq & Hk).
  unfold is_bqm in Hb. destruct (st_kind s) as [vt0|] eqn:K; [|discriminate].
  destruct (Hk vt0 eq_refl) as [Hsb0 Hall].
  assert (Hlab : map v_lab (map (fun i => mkvar vt (v_lab i)) (st_vars s)) = labels s).
  { unfold labels. rewrite map_map. reflexivity. }
  split; [|split; [|split]]; unfold labels; cbn [st_vars st_poly st_kind]; rewrite ?Hlab.
  - exact Hnd.
  - intros t Ht. apply (wf_mentioned s); [assumption|]. apply SL. assumption.
  - intros t Ht. destruct (SQ t Ht) as [q [Iq Eq]]. destruct (Hq q Iq) as (H1 & H2 & H3). rewrite Eq.
    split; [assumption|]. split; [assumption|]. intros E.
    (* a BQM has no self-loop term at all *)
    exfalso. specialize (H3 E). destruct (in_labels_vinfo s _ H1) as [j0 [Hj0 Ej0]].
    rewrite <- Ej0, (vt_of_in s j0 Hnd Hj0), (Hall j0 Hj0), Hsb0 in H3. discriminate.
  - intros vt1 K1. inversion K1; subst. split; [assumption|]. intros i Hi. apply in_map_iff in Hi. destruct Hi as [j [<- _]]. reflexivity.
Qed.

(* ---------- editing the record of one variable ---------- *)
Lemma labels_set_vinfo v g s : (forall i, v_lab i = v -> v_lab (g i) = v_lab i) -> labels (set_vinfo v g s) = labels s.
Proof.
  intros Hg. unfold set_vinfo, labels, with_vars; cbn [st_vars]. rewrite map_map. apply map_ext.
  intros i. destruct (Nat.eqb_spec (v_lab i) v); [apply Hg; assumption|reflexivity].
Qed.

Lemma vt_of_set_vinfo_other v g s u :
  (forall i, v_lab i = v -> v_lab (g i) = v_lab i) -> u <> v -> vt_of (set_vinfo v g s) u = vt_of s u.
Proof.
  intros Hg Hne. unfold vt_of, find_var, bvt, set_vinfo, with_vars; cbn [st_vars st_kind].
  induction (st_vars s) as [|a l IH]; [reflexivity|]. cbn [map find].
  destruct (Nat.eqb_spec (v_lab a) v) as [E|E].
  - rewrite Hg by assumption. destruct (Nat.eqb_spec (v_lab a) u); [congruence|exact IH].
  - destruct (v_lab a =? u)%nat; [reflexivity|exact IH].
Qed.

Lemma vt_of_set_vinfo_keep v g s u :
  (forall i, v_lab (g i) = v_lab i) -> (forall i, v_vt (g i) = v_vt i) -> vt_of (set_vinfo v g s) u = vt_of s u.
Proof.
  intros Hg Hv. unfold vt_of, find_var, bvt, set_vinfo, with_vars; cbn [st_vars st_kind].
  induction (st_vars s) as [|a l IH]; [reflexivity|]. cbn [map find].
  destruct (Nat.eqb_spec (v_lab a) v) as [E|E].
  - rewrite Hg. destruct (v_lab a =? u)%nat; [apply Hv|exact IH].
  - destruct (v_lab a =? u)%nat; [reflexivity|exact IH].
Qed.

(* bounds only: labels and vartypes untouched *)
Lemma wf_set_vinfo_keep v g s :
  (forall i, v_lab (g i) = v_lab i) -> (forall i, v_vt (g i) = v_vt i) -> wf s -> wf (set_vinfo v g s).
Proof.
  intros Hg Hv (Hnd & Hl & Hq & Hk). split; [|split; [|split]].
  - rewrite labels_set_vinfo by (intros; apply Hg). exact Hnd.
  - intros t Ht. rewrite labels_set_vinfo by (intros; apply Hg). apply Hl. exact Ht.
  - intros t Ht. rewrite labels_set_vinfo by (intros; apply Hg). destruct (Hq t Ht) as (H1 & H2 & H3).
    repeat split; try assumption. intros E. rewrite vt_of_set_vinfo_keep by assumption. apply H3. exact E.
  - intros vt K. destruct (Hk vt K) as [Hsb Hall]. split; [assumption|]. intros i Hi.
    unfold set_vinfo, with_vars in Hi; cbn [st_vars] in Hi. apply in_map_iff in Hi. destruct Hi as [j [<- Hj]].
    destruct (v_lab j =? v)%nat; [rewrite Hv|]; apply Hall; assumption.
Qed.

Lemma pres_q_set_lb v b : pres (q_set_lb v b).
Proof.
  intros s Hs. unfold q_set_lb. destruct (find_var s v); [|exact Hs].
  match goal with |- context [if ?c then _ else _] => destruct c end; [exact Hs|].
  cbn [ok fst]. apply wf_set_vinfo_keep; [reflexivity|reflexivity|assumption].
Qed.

Lemma pres_q_set_ub v b : pres (q_set_ub v b).
Proof.
  intros s Hs. unfold q_set_ub. destruct (find_var s v); [|exact Hs].
  match goal with |- context [if ?c then _ else _] => destruct c end; [exact Hs|].
  cbn [ok fst]. apply wf_set_vinfo_keep; [reflexivity|reflexivity|assumption].
Qed.

(* one QM variable changes its vartype: it was SPIN/BINARY, so it carried no
   self-loop, and substitution creates none *)
Lemma wf_qm_retype v g p' s :
  st_kind s = None -> wf s ->
  (forall i, v_lab i = v -> v_lab (g i) = v_lab i) ->
  is_sb (vt_of s v) = true ->
  sub_terms p' (st_poly s) ->
  wf (set_vinfo v g (with_poly s p')).
Proof.
  intros K Hs Hg Hsb [SL SQ]. pose proof Hs as (Hnd & Hl & Hq & Hk).
  assert (Hlab : labels (set_vinfo v g (with_poly s p')) = labels s) by (rewrite labels_set_vinfo by assumption; reflexivity).
  split; [|split; [|split]]; rewrite ?Hlab.
  - exact Hnd.
  - intros t Ht. apply (wf_mentioned s); [assumption|]. apply SL. exact Ht.
  - intros t Ht. destruct (SQ t Ht) as [q [Iq Eq]]. destruct (Hq q Iq) as (H1 & H2 & H3). rewrite Eq.
    split; [assumption|]. split; [assumption|]. intros E. specialize (H3 E).
    destruct (Nat.eq_dec (fst (fst q)) v) as [Ev|Ev].
    + rewrite Ev, Hsb in H3. discriminate.
    + rewrite vt_of_set_vinfo_other by assumption. exact H3.
  - intros vt K'. cbn [set_vinfo with_vars with_poly st_kind] in K'. congruence.
Qed.

Lemma wf_m_change_vartype_qm vt v s : st_kind s = None -> wf s -> wf (fst (m_change_vartype_qm vt v s)).
Proof.
  intros K Hs. unfold m_change_vartype_qm. destruct (has_var s v); cbn [negb]; [|exact Hs].
  assert (Hg : forall vt' lb ub i, v_lab i = v -> v_lab ((fun _ : vinfo => mkV v vt' lb ub) i) = v_lab i).
  { intros vt' lb ub i E. cbn [v_lab]. symmetry. exact E. }
  assert (Sb : sub_terms (binary_to_spin v (st_poly s)) (st_poly s)) by exact (sub_terms_substitute v half half (st_poly s)).
  assert (Ss : sub_terms (spin_to_binary v (st_poly s)) (st_poly s)) by exact (sub_terms_substitute v two (- (1)) (st_poly s)).
  destruct (vt_of s v) eqn:Ev; destruct vt; cbn [ok raise fst]; try (exact Hs).
  - refine (wf_qm_retype v (fun _ => mkvar SPIN v) (binary_to_spin v (st_poly s)) s K Hs _ _ Sb);
      [apply Hg|rewrite Ev; reflexivity].
  - change (wf (set_vinfo v (fun _ => mkV v INTEGER 0 1) (with_poly s (st_poly s)))).
    refine (wf_qm_retype v (fun _ => mkV v INTEGER 0 1) (st_poly s) s K Hs _ _ (sub_terms_refl _));
      [apply Hg|rewrite Ev; reflexivity].
  - refine (wf_qm_retype v (fun _ => mkvar BINARY v) (spin_to_binary v (st_poly s)) s K Hs _ _ Ss);
      [apply Hg|rewrite Ev; reflexivity].
  - refine (wf_qm_retype v (fun _ => mkV v INTEGER 0 1) (spin_to_binary v (st_poly s)) s K Hs _ _ Ss);
      [apply Hg|rewrite Ev; reflexivity].
Qed.

(* ---------- appending variables (QM.add_variable, update, resize growth) ---------- *)
Lemma find_app_notin (g : vinfo -> bool) l1 l2 : find g l1 = None -> find g (l1 ++ l2) = find g l2.
Proof. induction l1 as [|a l IH]; [reflexivity|]. cbn [find app]. destruct (g a); [discriminate|exact IH]. Qed.

(* appending records with fresh, distinct labels keeps wf (QM, or records of the BQM's vartype) *)
Lemma wf_append s (ex : list vinfo) :
  wf s -> NoDup (map v_lab ex) -> (forall i, In i ex -> ~ In (v_lab i) (labels s)) ->
  (forall vt, st_kind s = Some vt -> forall i, In i ex -> v_vt i = vt) ->
  wf (with_vars s (st_vars s ++ ex)).
Proof.
  intros (Hnd & Hl & Hq & Hk) Hex Hfresh Hvt.
  assert (Hlab : labels (with_vars s (st_vars s ++ ex)) = labels s ++ map v_lab ex).
  { unfold labels, with_vars; cbn [st_vars]. apply map_app. }
  split; [|split; [|split]]; rewrite ?Hlab.
  - apply NoDup_app_intro; [assumption|assumption|]. intros x Hx Hx2. apply in_map_iff in Hx2. destruct Hx2 as [i [<- Hi]].
    apply (Hfresh i Hi). assumption.
  - intros t Ht. apply in_or_app. left. apply Hl. exact Ht.
  - intros t Ht. destruct (Hq t Ht) as (H1 & H2 & H3). split; [apply in_or_app; left; assumption|].
    split; [apply in_or_app; left; assumption|]. intros E.
    destruct (find_var_some s _ H1) as [i Hi]. unfold vt_of, find_var, bvt, with_vars in *; cbn [st_vars st_kind].
    rewrite (find_app_l _ _ _ _ Hi). specialize (H3 E). rewrite Hi in H3. exact H3.
  - intros vt K. cbn [with_vars st_kind] in K. destruct (Hk vt K) as [Hsb Hall]. split; [assumption|].
    intros i Hi. cbn [with_vars st_vars] in Hi. apply in_app_or in Hi. destruct Hi as [Hi|Hi]; [apply Hall; assumption|].
    apply (Hvt vt K). assumption.
Qed.

Lemma find_var_none_notin s v : find_var s v = None -> ~ In v (labels s).
Proof. apply find_none_notin. Qed.

Lemma wf_q_add_variable vt v lb ub s : st_kind s = None -> wf s -> wf (fst (q_add_variable vt v lb ub s)).
Proof.
  intros K Hs. unfold q_add_variable. destruct (find_var s v) as [i|] eqn:F.
  - destruct (negb (vartype_eqb (v_vt i) vt)); [exact Hs|].
    match goal with |- context [if ?c then _ else _] => destruct c end; exact Hs.
  - destruct (bounds_for vt lb ub) as [l u]. destruct (bounds_bad vt l u); [exact Hs|]. cbn [ok fst].
    apply wf_append; [assumption| | |].
    + cbn. constructor; [intros []|constructor].
    + intros i [<-|[]]. cbn [v_lab]. apply find_var_none_notin. assumption.
    + intros vt0 K0. congruence.
Qed.

Lemma kind_q_add_variable vt v lb ub s : st_kind (fst (q_add_variable vt v lb ub s)) = st_kind s.
Proof.
  unfold q_add_variable. destruct (find_var s v).
  - destruct (negb _); [reflexivity|]. match goal with |- context [if ?c then _ else _] => destruct c end; reflexivity.
  - destruct (bounds_for vt lb ub). destruct (bounds_bad _ _ _); reflexivity.
Qed.

(* QuadraticModel.update with a well-formed operand *)
Lemma wf_m_update_qm o s : st_kind s = None -> wf s -> wf o -> wf (fst (m_update_qm o s)).
Proof.
  intros K Hs Ho. unfold m_update_qm. destruct (existsb (vinfo_conflict s) (st_vars o)) eqn:C; [exact Hs|].
  cbn [ok fst].
  set (ex := filter (fun i => negb (has_var s (v_lab i))) (st_vars o)).
  assert (Hs1 : wf (with_vars s (st_vars s ++ ex))).
  { apply wf_append; [assumption| | |].
    - apply NoDup_map_filter. apply Ho.
    - intros i Hi. apply filter_In in Hi. destruct Hi as [_ Hi]. apply negb_true_iff in Hi. intros H. apply has_var_In in H. congruence.
    - intros vt K0. congruence. }
  pose proof Hs1 as (Hnd1 & Hl1 & Hq1 & Hk1). pose proof Ho as (Hndo & Hlo & Hqo & Hko). pose proof Hs as (Hnd & Hl & Hq & Hk).
  (* every label of the operand is a label of the merged list, with the operand's vartype *)
  assert (Hin : forall x, In x (labels o) -> In x (labels (with_vars s (st_vars s ++ ex)))).
  { intros x Hx. unfold labels, with_vars; cbn [st_vars]. rewrite map_app. apply in_or_app.
    destruct (has_var s x) eqn:E; [left; apply has_var_In; assumption|right].
    destruct (in_labels_vinfo o x Hx) as [i [Hi <-]]. apply in_map. apply filter_In. split; [assumption|]. rewrite E. reflexivity. }
  assert (Hvt : forall x, In x (labels o) -> vt_of (with_vars s (st_vars s ++ ex)) x = vt_of o x).
  { intros x Hx. destruct (in_labels_vinfo o x Hx) as [i [Hi <-]]. rewrite (vt_of_in o i Hndo Hi).
    destruct (find_var s (v_lab i)) as [j|] eqn:F.
    - (* shared label: no conflict means equal vartypes *)
      assert (Cf : vinfo_conflict s i = false).
      { destruct (vinfo_conflict s i) eqn:Ci; [|reflexivity]. exfalso.
        assert (existsb (vinfo_conflict s) (st_vars o) = true) by (apply existsb_exists; exists i; auto). congruence. }
      unfold vinfo_conflict in Cf. rewrite F in Cf. apply negb_false_iff in Cf.
      apply andb_true_iff in Cf. destruct Cf as [Cf _]. apply andb_true_iff in Cf. destruct Cf as [Cf _].
      unfold vt_of, find_var, with_vars in *; cbn [st_vars st_kind]. rewrite (find_app_l _ _ _ _ F).
      destruct (v_vt i), (v_vt j); try discriminate; reflexivity.
    - assert (Hie : In i ex).
      { apply filter_In. split; [assumption|]. apply negb_true_iff. apply not_true_is_false. intros H.
        apply has_var_In in H. apply (find_var_none_notin s _ F). assumption. }
      apply (vt_of_in (with_vars s (st_vars s ++ ex)) i); [exact Hnd1|]. cbn [with_vars st_vars]. apply in_or_app. right. assumption. }
  apply wf_with_poly; [exact Hs1| |].
  - intros t Ht. cbn [padd p_lin] in Ht. apply in_app_or in Ht. destruct Ht as [Ht|Ht]; [apply Hl1; assumption|].
    apply Hin. apply Hlo. assumption.
  - intros t Ht. cbn [padd p_quad] in Ht. apply in_app_or in Ht. destruct Ht as [Ht|Ht]; [apply Hq1; assumption|].
    destruct (Hqo t Ht) as (H1 & H2 & H3). split; [apply Hin; assumption|]. split; [apply Hin; assumption|].
    intros E. rewrite Hvt by assumption. apply H3. assumption.
Qed.

(* ---------- resize ---------- *)
Lemma fold_remove_lin gone p t :
  In t (p_lin (fold_left (fun p v => remove_variable v p) gone p)) -> In t (p_lin p) /\ ~ In (fst t) gone.
Proof.
  revert p. induction gone as [|v gone IH]; intros p H; [split; [assumption|intros []]|].
  cbn [fold_left] in H. apply IH in H. destruct H as [H1 H2].
  pose proof (remove_variable_no_mention_lin v p t H1) as Hne.
  cbn [remove_variable p_lin] in H1. apply filter_In in H1. split; [apply H1|]. intros [E|E]; [congruence|contradiction].
Qed.

Lemma fold_remove_quad gone p t :
  In t (p_quad (fold_left (fun p v => remove_variable v p) gone p)) ->
  In t (p_quad p) /\ ~ In (fst (fst t)) gone /\ ~ In (snd (fst t)) gone.
Proof.
  revert p. induction gone as [|v gone IH]; intros p H; [split; [assumption|split; intros []]|].
  cbn [fold_left] in H. apply IH in H. destruct H as (H1 & H2 & H3).
  pose proof (remove_variable_no_mention_quad v p t H1) as [Hn1 Hn2].
  cbn [remove_variable p_quad] in H1. apply filter_In in H1. split; [apply H1|].
  split; intros [E|E]; congruence || contradiction.
Qed.

Lemma NoDup_app_l {A : Type} (l1 l2 : list A) : NoDup (l1 ++ l2) -> NoDup l1.
Proof.
  induction l1 as [|a l IH]; [constructor|]. cbn [app]. intros H. inversion H as [|? ? Hni Hnd]; subst.
  constructor; [|apply IH; assumption]. intros Hin. apply Hni. apply in_or_app. left. assumption.
Qed.

Lemma firstn_In {A : Type} k (l : list A) x : In x (firstn k l) -> In x l.
Proof.
  revert l. induction k as [|k IH]; intros l H; [destruct H|]. destruct l as [|a l]; [destruct H|].
  cbn [firstn] in H. destruct H as [->|H]; [left; reflexivity|right; apply IH; assumption].
Qed.

Lemma wf_firstn_vars k s : wf s -> wf (firstn_vars k s).
Proof.
  intros (Hnd & Hl & Hq & Hk). unfold firstn_vars.
  set (keep := firstn k (st_vars s)). set (gone := map v_lab (skipn k (st_vars s))).
  assert (Hsplit : labels s = map v_lab keep ++ gone).
  { unfold labels, keep, gone. rewrite <- map_app, firstn_skipn. reflexivity. }
  assert (Hkeep : forall x, In x (labels s) -> ~ In x gone -> In x (map v_lab keep)).
  { intros x Hx Hg. rewrite Hsplit in Hx. apply in_app_or in Hx. destruct Hx; [assumption|contradiction]. }
  assert (Hvt : forall x, In x (map v_lab keep) ->
                  vt_of (mkSt (st_kind s) keep (fold_left (fun p v => remove_variable v p) gone (st_poly s))) x = vt_of s x).
  { intros x Hx.
    destruct (find_var_some (mkSt (st_kind s) keep pzero) x Hx) as [i Hi].
    unfold vt_of, find_var, bvt in *; cbn [st_vars st_kind] in *. rewrite Hi.
    rewrite <- (firstn_skipn k (st_vars s)). fold keep. rewrite (find_app_l _ _ _ _ Hi). reflexivity. }
  split; [|split; [|split]]; unfold labels; cbn [st_vars st_poly st_kind].
  - rewrite Hsplit in Hnd. apply NoDup_app_l in Hnd. exact Hnd.
  - intros t Ht. apply fold_remove_lin in Ht. destruct Ht as [H1 H2]. apply Hkeep; [apply Hl; assumption|assumption].
  - intros t Ht. apply fold_remove_quad in Ht. destruct Ht as (H1 & H2 & H3). destruct (Hq t H1) as (Q1 & Q2 & Q3).
    split; [apply Hkeep; assumption|]. split; [apply Hkeep; assumption|].
    intros E. rewrite Hvt by (apply Hkeep; assumption). apply Q3. exact E.
  - intros vt K. destruct (Hk vt K) as [Hsb Hall]. split; [assumption|]. intros i Hi. apply Hall.
    unfold keep in Hi. apply (firstn_In k). exact Hi.
Qed.

Lemma wf_fold_ensure fresh s : wf s -> wf (fold_left (fun s v => ensure v s) fresh s).
Proof. revert s. induction fresh as [|v l IH]; intros s Hs; [exact Hs|]. cbn [fold_left]. apply IH, wf_ensure, Hs. Qed.

Lemma pres_m_resize n fresh : pres (m_resize n fresh).
Proof.
  intros s Hs. unfold m_resize. destruct (n <? 0)%Z; [exact Hs|].
  destruct (Z.to_nat n <=? num_variables s)%nat; cbn [ok fst]; [apply wf_firstn_vars|apply wf_fold_ensure]; assumption.
Qed.

(* ---------- every call, every history ---------- *)
Lemma is_bqm_false s : is_bqm s = false -> st_kind s = None.
Proof. unfold is_bqm. destruct (st_kind s); [discriminate|reflexivity]. Qed.

Lemma wf_seqm_q_add_variable vt l s :
  st_kind s = None -> wf s -> wf (fst (seqm (fun v => q_add_variable vt v None None) l s)).
Proof.
  revert s. induction l as [|v l IH]; intros s K Hs; [exact Hs|].
  cbn [seqm]. unfold bind. pose proof (wf_q_add_variable vt v None None s K Hs) as Hw.
  destruct (snd (q_add_variable vt v None None s)); [|exact Hw].
  apply IH; [rewrite kind_q_add_variable; exact K|exact Hw].
Qed.

Lemma wf_q_add_linear_dflt v b vt lb ub s : st_kind s = None -> wf s -> wf (fst (q_add_linear_dflt v b vt lb ub s)).
Proof.
  intros K Hs. unfold q_add_linear_dflt. destruct (has_var s v); [apply pres_d_add_linear; exact Hs|].
  apply wf_bind; [apply wf_q_add_variable; assumption|apply pres_d_add_linear].
Qed.

Lemma kind_d_add_linear v b s : st_kind (fst (d_add_linear v b s)) = st_kind s.
Proof.
  unfold d_add_linear, resolve, bind. destruct (st_kind s) eqn:K; cbn [ok snd fst].
  - cbn [with_poly st_kind]. rewrite kind_ensure. exact K.
  - destruct (has_var s v); cbn [ok raise snd fst with_poly st_kind]; exact K.
Qed.

Lemma kind_q_add_linear_dflt v b vt lb ub s : st_kind (fst (q_add_linear_dflt v b vt lb ub s)) = st_kind s.
Proof.
  unfold q_add_linear_dflt. destruct (has_var s v); [apply kind_d_add_linear|].
  unfold bind. destruct (snd (q_add_variable vt v lb ub s)); [|apply kind_q_add_variable].
  rewrite kind_d_add_linear. apply kind_q_add_variable.
Qed.

Lemma wf_seqm_q_add_linear_dflt vt lb ub l s :
  st_kind s = None -> wf s -> wf (fst (seqm (fun t => q_add_linear_dflt (fst t) (snd t) vt lb ub) l s)).
Proof.
  revert s. induction l as [|t l IH]; intros s K Hs; [exact Hs|].
  cbn [seqm]. unfold bind. pose proof (wf_q_add_linear_dflt (fst t) (snd t) vt lb ub s K Hs) as Hw.
  destruct (snd (q_add_linear_dflt (fst t) (snd t) vt lb ub s)); [|exact Hw].
  apply IH; [rewrite kind_q_add_linear_dflt; exact K|exact Hw].
Qed.

(* the only operand that is itself a model: update(other) *)
Definition op_wf (o : op) : Prop := match o with OUpdate other => wf other | _ => True end.

Theorem wf_step s h o : op_wf o -> wf s -> wf (fst (step s (h, o))).
Proof.
  intros Ho Hs.
  destruct (wf_covered o) eqn:Hc.
  - destruct o; try (apply wf_step_partial; [exact Hc|exact I|exact Hs]).
    cbn [step]. destruct (is_bqm s) eqn:B; [apply pres_m_update_bqm; exact Hs|].
    apply wf_m_update_qm; [apply is_bqm_false; exact B|exact Hs|exact Ho].
  - destruct o; cbn [wf_covered] in Hc; try discriminate; cbn [step].
    + apply pres_m_relabel; exact Hs.
    + apply pres_m_relabel_ints; exact Hs.
    + apply pres_m_relabel_py; exact Hs.
    + apply pres_m_relabel_ints_py; exact Hs.
    + destruct (is_bqm s); [apply pres_m_resize|]; exact Hs.
    + destruct (is_bqm s) eqn:B; [apply wf_m_change_vartype_bqm; assumption|exact Hs].
    + destruct (is_bqm s) eqn:B; [exact Hs|]. apply wf_q_add_variable; [apply is_bqm_false; exact B|exact Hs].
    + destruct (is_bqm s) eqn:B; [exact Hs|]. apply wf_q_add_linear_dflt; [apply is_bqm_false; exact B|exact Hs].
    + destruct (is_bqm s) eqn:B; [exact Hs|]. apply wf_seqm_q_add_linear_dflt; [apply is_bqm_false; exact B|exact Hs].
    + destruct (is_bqm s) eqn:B; [exact Hs|]. apply wf_seqm_q_add_variable; [apply is_bqm_false; exact B|exact Hs].
    + destruct (is_bqm s); [exact Hs|apply pres_q_set_lb; exact Hs].
    + destruct (is_bqm s); [exact Hs|apply pres_q_set_ub; exact Hs].
    + destruct (is_bqm s) eqn:B; [exact Hs|]. apply wf_m_change_vartype_qm; [apply is_bqm_false; exact B|exact Hs].
Qed.

Theorem wf_reachable s l :
  wf s -> Forall (fun ho => op_wf (snd ho)) l -> wf (run s l).
Proof.
  revert s. induction l as [|[h o] l IH]; intros s Hs Hl; [exact Hs|].
  inversion Hl as [|? ? Ho Hl']; subst. unfold run. cbn [fold_left]. apply IH; [|exact Hl'].
  apply wf_step; [exact Ho|exact Hs].
Qed.

(* histories starting from an empty model *)
Lemma wf_empty k : (forall vt, k = Some vt -> is_sb vt = true) -> wf (mkSt k [] pzero).
Proof. apply wf_clear. Qed.
