(* the read-only accessors SampleSet.data / samples and concatenate over different data vectors
   (Model/ChkC14.v: StepData, StepSamples, concat_d) *)
From Coq Require Import List ZArith QArith Qcanon Bool Arith Lia.
From Dimod Require Import Base.Util Model.Poly Model.Samples Model.SSet Model.Alias Model.ChkC14 Proofs.SSetSort.
Import ListNotations.
Local Open Scope nat_scope.

(* data(sorted_by=k, index=True): the rows in stable sorted order; reverse=True: exactly the reversed sequence *)
Theorem data_rows_sorted (key : row -> Qc) rows :
  select rows (argsort_stable (map key rows)) = rsort key rows.
Proof. apply argsort_stable_is_rsort. Qed.

Theorem data_reverse_rows (key : row -> Qc) rows :
  select rows (rev (argsort_stable (map key rows))) = rev (rsort key rows).
Proof. unfold select. rewrite map_rev. f_equal. apply argsort_stable_is_rsort. Qed.

(* concatenate with other data vectors moves whole rows: sample values, energy, num_occurrences and the row tag of
   every row of the first sample set are kept, in order, whatever the others and the defaults are *)
Lemma refield_keeps res defs fs r :
  vals (refield res defs fs r) = vals r /\ en (refield res defs fs r) = en r
  /\ oc (refield res defs fs r) = oc r /\ tag (refield res defs fs r) = tag r.
Proof. unfold refield. simpl. auto. Qed.

Theorem concat_d_first_rows_kept others defs s r :
  concat_d others defs s = Some r ->
  labels r = labels s /\ vt r = vt s
  /\ firstn (length (rws s)) (rws r) = map (refield (fields r) defs (fields s)) (rws s)
  /\ fields r = union_fields (fields s) (map fields others).
Proof.
  unfold concat_d. destruct (concat_rows_d _ defs s others) as [more|]; [|discriminate].
  intro H. inversion H; subst. simpl. repeat split; auto.
  rewrite <- (map_length (refield (union_fields (fields s) (map fields others)) defs (fields s)) (rws s)).
  rewrite firstn_app, Nat.sub_diag, firstn_all. simpl. rewrite app_nil_r. reflexivity.
Qed.

(* the number of rows is the sum *)
Lemma concat_rows_d_length res defs first : forall others more,
  concat_rows_d res defs first others = Some more ->
  length more = fold_right (fun o acc => length (rws o) + acc) 0 others.
Proof.
  induction others as [|o rest IH]; intros more H; simpl in H.
  - inversion H. reflexivity.
  - destruct (if vartype_eqb (vt o) (vt first) then Some o
              else match change_vartype_ss (vt first) 0 o with Ok x => Some x | Fail _ => None end) as [x|] eqn:Ex; [|discriminate].
    destruct (concat_rows_d res defs first rest) as [m|] eqn:Er; [|discriminate].
    destruct (same_set (labels x) (labels first)); [|discriminate].
    inversion H; subst. rewrite app_length, map_length. simpl. rewrite (IH m eq_refl). f_equal.
    destruct (vartype_eqb (vt o) (vt first)).
    + inversion Ex; subst. reflexivity.
    + unfold change_vartype_ss in Ex.
      destruct (Qc_eqb 0 0); destruct (vartype_eqb (vt first) (vt o)); try (inversion Ex; subst; reflexivity);
        destruct (vt first), (vt o); inversion Ex; subst; unfold map_vals; simpl; rewrite ?map_length; reflexivity.
Qed.

Theorem concat_d_row_count others defs s r :
  concat_d others defs s = Some r ->
  length (rws r) = length (rws s) + fold_right (fun o acc => length (rws o) + acc) 0 others.
Proof.
  unfold concat_d. destruct (concat_rows_d _ defs s others) as [more|] eqn:E; [|discriminate].
  intro H. inversion H; subst. simpl. rewrite app_length, map_length. f_equal.
  eapply concat_rows_d_length; eauto.
Qed.
