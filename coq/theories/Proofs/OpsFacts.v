(* C06: the operator methods as translated from the source, run through Python's operator protocol,
   compute what Model/Sym.v specifies (and Proofs/SymFacts.v proves to be arithmetic on energies). *)
From Coq Require Import List ZArith QArith Qcanon Bool Arith Lia.
From Dimod Require Import Base.Util Model.Poly Model.Sym Model.OpsLang Gen.Gen_Ops Model.Ops
  Proofs.PolyFacts Proofs.SymFacts.
Import ListNotations.
Open Scope Qc_scope.

(* ---------- the generated rejection rule of update() is the rule of the model ---------- *)
Lemma gen_upd_err_eq a b : gen_upd_err a b = upd_err a b.
Proof.
  unfold gen_upd_err, gen_update_checks, run_checks, ck_fails, upd_err, vinfo_eqb, err_of.
  destruct (vartype_eqb (vi_vt a) (vi_vt b)), (Qc_eqb (vi_lb a) (vi_lb b)), (Qc_eqb (vi_ub a) (vi_ub b)); reflexivity.
Qed.

Lemma merge_ext f g a b : (forall x y, f x y = g x y) -> merge f a b = merge g a b.
Proof.
  intros H. revert a. induction b as [|[l i] b IH]; intros a; cbn [merge]; [reflexivity|].
  destruct (lookup a l); [rewrite H; destruct (g v i); auto|apply IH].
Qed.

Lemma merge_gen a b : merge gen_upd_err a b = merge upd_err a b.
Proof. apply merge_ext. apply gen_upd_err_eq. Qed.

Lemma lookup_notin t l : ~ In l (map fst t) -> lookup t l = None.
Proof.
  induction t as [|[l' i] t IH]; cbn [map fst In lookup]; [reflexivity|]. intros H.
  destruct (Nat.eqb_spec l' l) as [->|]; [exfalso; apply H; left; reflexivity|]. apply IH. tauto.
Qed.

(* merging a duplicate-free table into an empty one reproduces it *)
Lemma merge_onto_prefix ek p t :
  NoDup (map fst (p ++ t)) -> merge ek p t = Ok (p ++ t).
Proof.
  revert p. induction t as [|[l i] t IH]; intros p H; cbn [merge]; [rewrite app_nil_r; reflexivity|].
  assert (E : lookup p l = None).
  { apply lookup_notin. rewrite map_app in H. cbn [map fst] in H. apply NoDup_remove_2 in H.
    intros Hin. apply H. apply in_or_app. left. exact Hin. }
  rewrite E. replace (p ++ (l, i) :: t) with ((p ++ [(l, i)]) ++ t) by (rewrite <- app_assoc; reflexivity).
  apply IH. rewrite <- app_assoc. exact H.
Qed.

Lemma merge_nil ek t : NoDup (map fst t) -> merge ek [] t = Ok t.
Proof. intros H. apply (merge_onto_prefix ek [] t). exact H. Qed.

(* ---------- the double loop with the generated tables ---------- *)
Definition qm_table (vt : vartype) : same_action :=
  match vt with BINARY => ToLinear | SPIN => ToOffset | INTEGER => ToQuadratic | REAL => ToQuadratic end.
Definition bqm_table (vt : vartype) : same_action :=
  match vt with BINARY => ToLinear | SPIN => ToOffset | INTEGER => ToOffset | REAL => ToOffset end.

Lemma psum_flat_map_ext_in (f g : lterm -> lterm -> poly) (la lb : list lterm) :
  (forall t1 t2, In t1 la -> In t2 lb -> f t1 t2 = g t1 t2) ->
  flat_map (fun t1 => map (f t1) lb) la = flat_map (fun t1 => map (g t1) lb) la.
Proof.
  intros H. induction la as [|t la IH]; [reflexivity|]. cbn [flat_map]. f_equal.
  - apply map_ext_in. intros t2 H2. apply H; [left; reflexivity|exact H2].
  - apply IH. intros t1 t2 H1 H2. apply H; [right; exact H1|exact H2].
Qed.

Lemma mul_lterms_qm_table vt t1 t2 : mul_lterms_tab qm_table vt t1 t2 = mul_lterms vt t1 t2.
Proof.
  unfold mul_lterms_tab, mul_lterms, add_quadratic, same_term, qm_table.
  destruct (Nat.eqb_spec (fst t1) (fst t2)) as [E|E]; [|reflexivity].
  destruct (vt (fst t1)); reflexivity.
Qed.

Lemma pmul_linear_qm_table vt a b : pmul_linear_tab qm_table vt a b = pmul_linear vt a b.
Proof.
  unfold pmul_linear_tab, pmul_linear. do 2 f_equal. apply psum_flat_map_ext_in.
  intros t1 t2 _ _. apply mul_lterms_qm_table.
Qed.

Lemma unexpected_none tbl vt a b : (forall v, is_unexpected (tbl v) = false) -> unexpected_pair tbl vt a b = false.
Proof.
  intros H. unfold unexpected_pair.
  assert (Inner : forall (t1 : lterm) lb, existsb (fun t2 : lterm => (fst t1 =? fst t2)%nat && is_unexpected (tbl (vt (fst t1)))) lb = false).
  { intros t1 lb. induction lb as [|t2 lb IH2]; [reflexivity|]. cbn [existsb]. rewrite IH2, H, andb_false_r. reflexivity. }
  induction (p_lin a) as [|t1 la IH]; [reflexivity|]. cbn [existsb]. rewrite IH, Inner. reflexivity.
Qed.

(* a BQM whose linear terms are over variables of its own vartype (BINARY or SPIN) *)
Definition bqm_terms_ok (vt : vartype) (t : tab) (p : poly) : Prop :=
  (vt = BINARY \/ vt = SPIN) /\
  forall x, In x (p_lin p) -> exists i, lookup t (fst x) = Some i /\ vi_vt i = vt.

Lemma pmul_linear_bqm_table v1 t ta a b :
  bqm_terms_ok v1 ta a -> sub_tab ta t ->
  pmul_linear_tab bqm_table (fun _ => v1) a b = pmul_linear (tvt t) a b.
Proof.
  intros [Hv Ha] Hs. unfold pmul_linear_tab, pmul_linear. do 2 f_equal. apply psum_flat_map_ext_in.
  intros t1 t2 H1 _. unfold mul_lterms_tab, mul_lterms, add_quadratic, same_term.
  destruct (Nat.eqb_spec (fst t1) (fst t2)) as [E|E]; [|reflexivity].
  destruct (Ha t1 H1) as [i [Hl Hi]]. unfold tvt. rewrite (Hs _ _ Hl), Hi.
  destruct Hv as [-> | ->]; reflexivity.
Qed.

(* ---------- the dispatch computes the specified operators ---------- *)
Definition peq (p q : poly) : Prop := (forall s, energy p s = energy q s) /\ (p_quad p = [] <-> p_quad q = []).

Definition veq (v w : val) : Prop :=
  match v, w with
  | VNum x, VNum y => x = y
  | VMdl m, VMdl n => m_cls m = m_cls n /\ m_tab m = m_tab n /\ peq (m_poly m) (m_poly n)
  | VView m, VView n => m = n
  | _, _ => False
  end.

Definition requiv (r r' : res val) : Prop :=
  match r, r' with
  | Ok v, Ok w => veq v w
  | Err e, Err e' => e = e'
  | _, _ => False
  end.

(* variable tables of real objects have distinct labels *)
Definition wfv (v : val) : Prop :=
  match v with VNum _ => True | VMdl m => NoDup (map fst (m_tab m)) | VView m => NoDup (map fst (m_tab m)) end.

Lemma peq_refl p : peq p p.
Proof. split; [reflexivity|tauto]. Qed.

Lemma qc_m1 : qc (-1) 1 = - (1).
Proof. apply Qc_is_canon. reflexivity. Qed.
Lemma qc_1 : qc 1 1 = 1.
Proof. apply Qc_is_canon. reflexivity. Qed.

Lemma pq_add_offset k p : p_quad (add_offset k p) = p_quad p.
Proof. reflexivity. Qed.
Lemma pq_padd a b : p_quad (padd a b) = p_quad a ++ p_quad b.
Proof. reflexivity. Qed.
Lemma pq_scale k p : p_quad (scale k p) = map (fun t => (fst t, k * snd t)) (p_quad p).
Proof. reflexivity. Qed.
Lemma pq_psub a b : p_quad (psub a b) = p_quad a ++ map (fun t => (fst t, - (1) * snd t)) (p_quad b).
Proof. reflexivity. Qed.
Lemma pq_pzero : p_quad pzero = [].
Proof. reflexivity. Qed.

Local Opaque merge padd psub pneg scale add_offset pmul_linear pmul_linear_tab unexpected_pair real_interaction
  Qcplus Qcmult Qcopp Qcinv Qcminus Qcdiv qc qpow qis0 pzero gen_upd_err upd_err mul_err gen_mul_err.

Ltac split_ifs :=
  repeat match goal with
         | |- context [match merge ?f ?a ?b with _ => _ end] => destruct (merge f a b) eqn:?; cbn
         | |- context [if ?c then _ else _] => destruct c eqn:?; cbn
         | |- context [match p_quad ?p with _ => _ end] => destruct (p_quad p) eqn:?; cbn
         end.

Ltac energy_norm :=
  intros; cbn [m_poly];
  repeat first [rewrite energy_padd | rewrite energy_psub | rewrite energy_scale | rewrite energy_add_offset | rewrite energy_pzero];
  rewrite ?qc_m1, ?qc_1; change (Q2Qc 0) with 0%Qc; change (Q2Qc 1) with 1%Qc;
  try ring.

Ltac quad_norm :=
  repeat first [rewrite pq_add_offset | rewrite pq_padd | rewrite pq_scale | rewrite pq_psub | rewrite pq_pzero];
  repeat match goal with |- context [p_quad ?p] => destruct (p_quad p) end;
  cbn [map app]; split; intros; try reflexivity; try discriminate; try congruence.

Ltac finish :=
  cbn [requiv veq m_cls m_tab m_poly to_qm qm_zero];
  first [ reflexivity
        | discriminate
        | contradiction
        | split; [reflexivity|split; [reflexivity|split; [energy_norm|quad_norm]]] ].

Ltac dest_val v :=
  let x := fresh "x" in let c := fresh "c" in let t := fresh "t" in let p := fresh "p" in let vt := fresh "vt" in
  destruct v as [x|[[vt|] t p]|[c t p]].

Ltac op_case Wa Wb :=
  cbn in Wa, Wb; cbn; rewrite ?merge_gen, ?(merge_nil upd_err) by assumption; cbn; rewrite ?merge_gen;
  split_ifs; finish.

Lemma disp_S f r : disp (S f) r =
  let d := disp f in
  match r with
  | RBin o a b => binop_with d o a b
  | RIBin o a b =>
      match call d (MIOp o) a b 0 with
      | Ret v => Ok v
      | Fail e => Err e
      | _ => binop_with d o a b
      end
  | RNeg a => match a with
              | VNum x => Ok (VNum (- x))
              | _ => match call d MNeg a a 0 with Ret v => Ok v | Fail e => Err e | _ => Err ETypeError end
              end
  | RPos a => match a with
              | VNum x => Ok (VNum x)
              | _ => match call d MPos a a 0 with Ret v => Ok v | Fail e => Err e | _ => Err ETypeError end
              end
  | RPow a n => match a with
                | VNum x => Ok (VNum (qpow x n))
                | _ => match call d MPow a (VNum (qc (Z.of_nat n) 1)) n with Ret v => Ok v | Fail e => Err e | _ => Err ETypeError end
                end
  end.
Proof. reflexivity. Qed.

Arguments disp : simpl never.

Ltac run := unfold g_op, g_iop, FUEL; repeat (first [rewrite disp_S | progress unfold on_slot, p_update, product_bqm, product_qm]; cbn).

Ltac go :=
  unfold g_op, g_iop, FUEL; cbn;
  repeat (first [ rewrite disp_S
                | progress unfold on_slot, p_update, product_bqm, product_qm
                | progress rewrite ?merge_gen
                | rewrite (merge_nil upd_err) by assumption
                | match goal with |- context [match merge ?f ?a ?b with _ => _ end] => destruct (merge f a b) eqn:? end
                | match goal with |- context [if ?c then _ else _] => destruct c eqn:? end ]; cbn).

Ltac dest_val2 v :=
  let x := fresh "x" in let c := fresh "c" in let t := fresh "t" in let p := fresh "p" in
  destruct v as [x|[[[| | |]|] t p]|[c t p]].

Ltac op_proof a b Wa Wb :=
  dest_val2 a; dest_val2 b; cbn in Wa, Wb;
  try (match goal with H : NoDup (map fst ?t) |- context [requiv (_ _ _ (VMdl {| m_cls := CBqm _; m_tab := ?t; m_poly := _ |})) _] => destruct t end);
  go;
  unfold lift, m_addsub, res_cls, needs_promo, v_div; cbn [to_qm m_tab m_poly m_cls tab_empty negb andb vartype_eqb m_scale m_addoff];
  repeat match goal with H : merge _ _ _ = _ |- _ => rewrite H; clear H end;
  repeat match goal with H : qis0 _ = _ |- _ => rewrite H end;
  finish.

Theorem g_add_correct a b : wfv a -> wfv b -> requiv (g_op OAdd a b) (v_add a b).
Proof. intros Wa Wb. op_proof a b Wa Wb. Qed.

Theorem g_iadd_correct a b : wfv a -> wfv b -> requiv (g_iop OAdd a b) (v_add a b).
Proof. intros Wa Wb. op_proof a b Wa Wb. Qed.

Theorem g_sub_correct a b : wfv a -> wfv b -> requiv (g_op OSub a b) (v_sub a b).
Proof. intros Wa Wb. op_proof a b Wa Wb. Qed.

Theorem g_isub_correct a b : wfv a -> wfv b -> requiv (g_iop OSub a b) (v_sub a b).
Proof. intros Wa Wb. op_proof a b Wa Wb. Qed.

(* consequence: whenever the translated methods produce a result for + or - (pure or in place), its
   energy is the sum / difference of the operands' energies and both operands' variables are kept *)
Lemma veq_spec a b v w f : veq v w -> op_spec a b w f -> op_spec a b v f.
Proof.
  unfold op_spec. destruct v as [x|m|m], w as [y|n|n]; cbn [veq]; try contradiction.
  - intros ->. auto.
  - intros [_ [Et [Ee _]]] [A [B C]]. cbn [val_tab val_energy] in *. rewrite Et.
    split; [exact A|]. split; [exact B|]. intros s Hr. rewrite Ee. apply C. exact Hr.
  - intros ->. auto.
Qed.

Theorem g_add_spec a b v : wfv a -> wfv b -> (g_op OAdd a b = Ok v \/ g_iop OAdd a b = Ok v) -> op_spec a b v Qcplus.
Proof.
  intros Wa Wb [H|H].
  - pose proof (g_add_correct a b Wa Wb) as R. rewrite H in R. destruct (v_add a b) as [w|] eqn:E; [|contradiction].
    eapply veq_spec; [exact R|apply v_add_ok; exact E].
  - pose proof (g_iadd_correct a b Wa Wb) as R. rewrite H in R. destruct (v_add a b) as [w|] eqn:E; [|contradiction].
    eapply veq_spec; [exact R|apply v_add_ok; exact E].
Qed.

Theorem g_sub_spec a b v : wfv a -> wfv b -> (g_op OSub a b = Ok v \/ g_iop OSub a b = Ok v) -> op_spec a b v Qcminus.
Proof.
  intros Wa Wb [H|H].
  - pose proof (g_sub_correct a b Wa Wb) as R. rewrite H in R. destruct (v_sub a b) as [w|] eqn:E; [|contradiction].
    eapply veq_spec; [exact R|apply v_sub_ok; exact E].
  - pose proof (g_isub_correct a b Wa Wb) as R. rewrite H in R. destruct (v_sub a b) as [w|] eqn:E; [|contradiction].
    eapply veq_spec; [exact R|apply v_sub_ok; exact E].
Qed.
