(* C17: satisfiability generators - from the literals TRANSLATED from the source (Gen/Gen_Sat.v):
   signs are +-1, terms are pairs of literals, and the planted all-(+1) assignment is a ground state *)
From Coq Require Import List ZArith Bool Arith Lia.
From Dimod Require Import Model.Sat Gen.Gen_Sat Proofs.SatFacts.
Import ListNotations.
Open Scope Z_scope.

Definition pm1 (x : Z) : Prop := x = 1 \/ x = -1.

Theorem sat_sign_pm1 b : sat_sign_low <= b <= sat_sign_high -> pm1 (sat_sign_scale * b - sat_sign_shift).
Proof. unfold sat_sign_low, sat_sign_high, sat_sign_scale, sat_sign_shift, pm1. lia. Qed.

Theorem sat_shape_constants : sat_term_size = 2%nat /\ sat_nae3_k = 3%nat /\ sat_2in4_k = 4%nat /\ sat_plant_bound = 1.
Proof. repeat split; reflexivity. Qed.

(* a sum of n values +-1 has the parity of n *)
Lemma zsum_parity l : Forall pm1 l -> exists q, zsum l = Z.of_nat (length l) - 2 * q.
Proof.
  induction 1 as [|x r Hx Hr [q IH]]; [exists 0; reflexivity|].
  cbn [zsum length]. rewrite Nat2Z.inj_succ. destruct Hx as [-> | ->]; [exists q|exists (q + 1)]; lia.
Qed.

Lemma Forall_pm1 l : Forall pm1 l <-> Forall (fun x => x = 1 \/ x = -1) l.
Proof. reflexivity. Qed.

(* a clause whose signs sum to at most the planting bound in absolute value has, at the all-(+1)
   assignment, the least energy any +-1 values of its literals can have *)
Theorem planted_clause_min signs l :
  Forall pm1 signs -> Z.abs (zsum signs) <= sat_plant_bound ->
  Forall pm1 l -> length l = length signs -> pair_sum signs <= pair_sum l.
Proof.
  intros Hs Hb Hl Hlen. unfold sat_plant_bound in Hb.
  pose proof (clause_energy_pm1 signs Hs) as E1. pose proof (clause_energy_pm1 l Hl) as E2.
  destruct (zsum_parity signs Hs) as [q1 P1]. destruct (zsum_parity l Hl) as [q2 P2].
  rewrite Hlen in *. nia.
Qed.

Lemma lits_pm1 c (s : nat -> Z) :
  Forall (fun t => pm1 (snd t)) c -> (forall v, pm1 (s v)) -> Forall pm1 (lits c s).
Proof.
  intros Hc Hs. unfold lits. induction Hc as [|t r Ht Hr IH]; cbn [map]; constructor; [|exact IH].
  destruct Ht as [-> | ->], (Hs (fst t)) as [-> | ->]; unfold pm1; lia.
Qed.

Lemma lits_ones c : lits c (fun _ => 1) = map snd c.
Proof. unfold lits. apply map_ext. intros t. lia. Qed.

(* planted instances: the all-(+1) assignment is a ground state *)
Theorem planted_ground_state cs (s : nat -> Z) :
  (forall c, In c cs -> Forall (fun t => pm1 (snd t)) c /\ Z.abs (zsum (map snd c)) <= sat_plant_bound) ->
  (forall v, pm1 (s v)) ->
  sat_energy cs (fun _ => 1) <= sat_energy cs s.
Proof.
  intros Hc Hs. unfold sat_energy. induction cs as [|c r IH]; cbn [map zsum]; [lia|].
  destruct (Hc c (or_introl eq_refl)) as [Hpm Hb].
  assert (IH' : zsum (map (fun c0 => pair_sum (lits c0 (fun _ => 1))) r) <= zsum (map (fun c0 => pair_sum (lits c0 s)) r))
    by (apply IH; intros c' Hc'; apply Hc; right; exact Hc').
  assert (H1 : pair_sum (lits c (fun _ => 1)) <= pair_sum (lits c s)).
  { rewrite lits_ones. apply planted_clause_min.
    - clear -Hpm. induction Hpm; cbn [map]; constructor; assumption.
    - exact Hb.
    - apply lits_pm1; assumption.
    - unfold lits. rewrite !map_length. reflexivity. }
  lia.
Qed.
