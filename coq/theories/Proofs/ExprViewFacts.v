(* Expression::remove_variable (through a view: only this expression forgets v). *)
From Coq Require Import List ZArith QArith Qcanon Bool Arith Lia.
From Dimod Require Import Base.Util Model.Poly Model.Expr Proofs.ExprFacts.
Import ListNotations.
Local Open Scope nat_scope.

Definition dflt (o : option nat) : nat := match o with Some x => x | None => 0 end.

Lemma fold_dec_find : forall l m k, NoDup l ->
  idx_find k (fold_left (fun m u => idx_dec u m) l m) =
  if existsb (Nat.eqb k) l then Some (pred (dflt (idx_find k m))) else idx_find k m.
Proof.
  induction l as [|u r IH]; intros m k ND; [reflexivity|].
  inversion ND as [|? ? Hn ND']; subst. cbn [fold_left existsb]. rewrite (IH _ k ND').
  unfold idx_dec at 1 2. rewrite !find_set. fold (dflt (idx_find u m)).
  destruct (Nat.eqb_spec k u) as [->|Hne]; cbn [orb].
  - assert (X : existsb (Nat.eqb u) r = false).
    { destruct (existsb (Nat.eqb u) r) eqn:X; [|reflexivity]. apply existsb_eqb_In in X. contradiction. }
    rewrite X. reflexivity.
  - reflexivity.
Qed.

Lemma existsb_skipn : forall l i k, NoDup l ->
  existsb (Nat.eqb k) (skipn i l) = match index_of k l with Some j => (i <=? j) | None => false end.
Proof.
  induction l as [|a r IH]; intros i k ND; [destruct i; reflexivity|].
  inversion ND as [|? ? Hn ND']; subst. destruct i as [|i']; cbn [skipn].
  - cbn [existsb index_of]. destruct (Nat.eqb_spec k a) as [->|Hne]; [reflexivity|]. cbn [orb].
    destruct (index_of k r) as [j|] eqn:F; cbn [option_map].
    + apply existsb_eqb_In. apply index_of_nth in F. eapply nth_error_In. exact F.
    + destruct (existsb (Nat.eqb k) r) eqn:X; [|reflexivity]. apply existsb_eqb_In in X.
      apply index_of_None in F. contradiction.
  - rewrite (IH i' k ND'). cbn [index_of]. destruct (Nat.eqb_spec k a) as [->|Hne].
    + assert (F : index_of a r = None) by (apply index_of_None; exact Hn). rewrite F. reflexivity.
    + destruct (index_of k r); reflexivity.
Qed.

Theorem remove_variable_inv : forall n e v, ExprInv n e -> ExprInv n (m_remove_variable v e).
Proof.
  intros n e v I. pose proof I as [ND LT LEN QD IDX]. unfold m_remove_variable. rewrite (IDX v).
  destruct (index_of v (e_vars e)) as [i|] eqn:F; [|exact I].
  pose proof (index_of_nth _ _ _ F) as Hi. pose proof (index_of_lt _ _ _ F) as Hlt.
  assert (ND1 : NoDup (remove_nth i (e_vars e))) by (apply NoDup_remove_nth; exact ND).
  constructor; cbn [e_vars e_idx e_lin e_quad].
  - exact ND1.
  - rewrite Forall_forall in *. intros x Hx. apply LT. eapply In_remove_nth. exact Hx.
  - unfold base_remove_lin. rewrite !remove_nth_length by lia. congruence.
  - unfold base_remove_quad. rewrite Forall_forall in *. intros t Ht.
    apply in_map_iff in Ht. destruct Ht as [[[a b] w] [<- Hin]]. apply filter_In in Hin.
    destruct Hin as [Hin Hm]. destruct (QD _ Hin) as [Ha Hb]. cbn [fst snd] in *.
    unfold lmentions in Hm. cbn [fst snd] in Hm. apply negb_true_iff in Hm. apply orb_false_iff in Hm.
    destruct Hm as [E1 E2]. apply Nat.eqb_neq in E1. apply Nat.eqb_neq in E2.
    rewrite remove_nth_length by lia. unfold shift.
    destruct (Nat.ltb_spec i a); destruct (Nat.ltb_spec i b); lia.
  - intros k. rewrite fold_dec_find.
    2:{ clear - ND1. revert ND1. generalize (remove_nth i (e_vars e)). intros l. revert i.
        induction l as [|a r IH]; intros i ND; [destruct i; constructor|].
        destruct i; cbn [skipn]; [exact ND|]. inversion ND; subst. apply IH. assumption. }
    rewrite (existsb_skipn _ i k ND1), find_erase, (IDX k).
    destruct (Nat.eqb_spec k v) as [->|Hkv].
    + assert (G : index_of v (remove_nth i (e_vars e)) = None).
      { apply index_of_None. apply remove_nth_notin; assumption. }
      rewrite G. reflexivity.
    + rewrite (index_of_remove_nth (e_vars e) i v k ND Hi Hkv).
      destruct (index_of k (e_vars e)) as [j0|] eqn:G; cbn [option_map]; [|reflexivity].
      assert (Hj : j0 <> i). { intros ->. apply index_of_nth in G. congruence. }
      unfold posfix. destruct (Nat.ltb_spec j0 i).
      * destruct (Nat.leb_spec i j0); [lia|reflexivity].
      * destruct (Nat.leb_spec i (pred j0)); [|lia]. cbn [dflt]. reflexivity.
Qed.

Lemma quad_remove_local : forall vars quad i v,
  NoDup vars -> nth_error vars i = Some v ->
  Forall (fun t : lqterm => fst (fst t) < length vars /\ snd (fst t) < length vars) quad ->
  map (to_model (remove_nth i vars)) (base_remove_quad i quad) =
  filter (fun t => negb (mentions v t)) (map (to_model vars) quad).
Proof.
  intros vars quad i v ND Hi. induction quad as [|t r IH]; intros QD; [reflexivity|].
  inversion QD as [|? ? [Ha Hb] QD']; subst.
  unfold base_remove_quad in *. cbn [map filter].
  rewrite (mentions_to_model vars i v t ND Hi Ha Hb).
  destruct (lmentions i t) eqn:E; cbn [negb].
  - apply IH. exact QD'.
  - cbn [map]. f_equal; [|apply IH; exact QD'].
    destruct t as [[a b] w]. unfold lmentions in E. cbn [fst snd] in *.
    apply orb_false_iff in E. destruct E as [E1 E2]. apply Nat.eqb_neq in E1. apply Nat.eqb_neq in E2.
    unfold to_model. cbn [fst snd]. rewrite !nth_remove_nth by assumption. reflexivity.
Qed.

(* exactly v's terms disappear from this expression; nothing is shifted *)
Theorem remove_variable_abs : forall n e v, ExprInv n e ->
  abs_expr (m_remove_variable v e) = remove_variable v (abs_expr e).
Proof.
  intros n e v [ND LT LEN QD IDX]. unfold m_remove_variable. rewrite (IDX v).
  destruct (index_of v (e_vars e)) as [i|] eqn:F.
  - apply index_of_nth in F. unfold abs_expr, remove_variable. cbn [e_vars e_lin e_quad e_off p_off p_lin p_quad]. f_equal.
    + symmetry. unfold base_remove_lin. apply filter_combine_remove_nth; assumption.
    + exact (quad_remove_local (e_vars e) (e_quad e) i v ND F QD).
  - apply index_of_None in F. unfold abs_expr, remove_variable. cbn [p_off p_lin p_quad]. f_equal.
    + symmetry. apply filter_combine_notin. exact F.
    + symmetry. rewrite <- (map_id (map _ (e_quad e))) at 2. rewrite <- map_id at 1.
      pose proof (quad_remove_absent (e_vars e) (e_quad e) v F QD) as H.
      clear H. induction (e_quad e) as [|t r IH]; [reflexivity|].
      inversion QD as [|? ? [Ha Hb] QD']; subst. cbn [map filter].
      assert (E : mentions v (nth (fst (fst t)) (e_vars e) 0, nth (snd (fst t)) (e_vars e) 0, snd t) = false).
      { unfold mentions. cbn [fst snd]. apply orb_false_iff. split; apply Nat.eqb_neq; intros E;
          apply F; rewrite <- E; apply nth_In; assumption. }
      rewrite E. cbn [negb map]. f_equal. apply IH. exact QD'.
Qed.
