(* C05 - substitute_self_loops and clear at the S level (Model/CQMSpec.v): replacing a stored self-loop u*u by u*new
   does not change the value of the expression wherever new = u, no substituted variable keeps a self-loop, the model
   grows by exactly one variable (same vartype and bounds) and one equality constraint per entry of the mapping. *)
From Coq Require Import List ZArith QArith Qcanon Bool Arith Lia.
From Dimod Require Import Base.Util Model.Poly Model.CQMSpec Proofs.PolyFacts Proofs.SpecEnergy.
Import ListNotations.
Open Scope Qc_scope.

Definition mp_ok (s : sample) (mp : list (label * label * nat)) : Prop :=
  forall t, In t mp -> snd (fst t) <> fst (fst t) /\ s (snd (fst t)) = s (fst (fst t)).

Definition subst_one (vt : label -> vartype) (p : poly) (t : label * label * nat) : poly :=
  let u := fst (fst t) in let nw := snd (fst t) in
  if has_pair (p_quad p) u u
  then remove_interaction u u (s_addq vt u nw (quad_coeff (p_quad p) u u) p)
  else p.

Lemma subst_loops_poly_fold vt mp p : subst_loops_poly vt mp p = fold_left (subst_one vt) mp p.
Proof. reflexivity. Qed.

Lemma p_quad_s_addq_ne vt u v b p : u <> v -> p_quad (s_addq vt u v b p) = (u, v, b) :: p_quad p.
Proof.
  intros N. unfold s_addq, add_quadratic. apply Nat.eqb_neq in N. rewrite N. reflexivity.
Qed.

Lemma same_pair_uu_ne u nw : nw <> u -> same_pair u u u nw = false.
Proof.
  intros N. unfold same_pair. rewrite Nat.eqb_refl. cbn [andb].
  assert (E : (u =? nw)%nat = false) by (apply Nat.eqb_neq; congruence). rewrite E. reflexivity.
Qed.

Lemma quad_coeff_cons_other u nw c (q : list qterm) : nw <> u -> quad_coeff ((u, nw, c) :: q) u u = quad_coeff q u u.
Proof.
  intros N. unfold quad_coeff. cbn [filter fst snd]. rewrite (same_pair_uu_ne u nw N). reflexivity.
Qed.

Lemma subst_one_energy vt p t s :
  snd (fst t) <> fst (fst t) -> s (snd (fst t)) = s (fst (fst t)) -> energy (subst_one vt p t) s = energy p s.
Proof.
  intros N E. unfold subst_one. destruct (has_pair (p_quad p) (fst (fst t)) (fst (fst t))); [|reflexivity].
  set (u := fst (fst t)) in *. set (nw := snd (fst t)) in *.
  rewrite view_remove_interaction_energy, view_add_quadratic_energy.
  assert (Hn : (u =? nw)%nat = false) by (apply Nat.eqb_neq; congruence). rewrite Hn.
  rewrite p_quad_s_addq_ne by congruence.
  rewrite (quad_coeff_cons_other u nw _ (p_quad p) N). rewrite E. ring.
Qed.

Theorem subst_loops_poly_energy vt mp p s :
  mp_ok s mp -> energy (subst_loops_poly vt mp p) s = energy p s.
Proof.
  rewrite subst_loops_poly_fold. revert p. induction mp as [|t r IH]; intros p H; [reflexivity|].
  cbn [fold_left]. rewrite IH.
  - apply subst_one_energy; apply (H t); left; reflexivity.
  - intros t' Ht'. apply H. right. exact Ht'.
Qed.

(* ---------- no substituted variable keeps a self-loop ---------- *)
Lemma has_pair_filter_self u (q : list qterm) :
  has_pair (filter (fun t => negb (same_pair u u (fst (fst t)) (snd (fst t)))) q) u u = false.
Proof.
  unfold has_pair. induction q as [|t r IH]; [reflexivity|]. cbn [filter].
  destruct (same_pair u u (fst (fst t)) (snd (fst t))) eqn:E; cbn [negb]; [exact IH|].
  cbn [existsb]. rewrite E. exact IH.
Qed.

Lemma same_pair_self_iff w a b : same_pair w w a b = true <-> a = w /\ b = w.
Proof.
  unfold same_pair. rewrite Bool.orb_true_iff, !Bool.andb_true_iff, !Nat.eqb_eq. split.
  - intros [[A B]|[A B]]; split; congruence.
  - intros [A B]. left. split; congruence.
Qed.

Lemma has_pair_filter_other u w (q : list qterm) : w <> u ->
  has_pair (filter (fun t => negb (same_pair u u (fst (fst t)) (snd (fst t)))) q) w w = has_pair q w w.
Proof.
  intros Nw. unfold has_pair. induction q as [|x r IH]; [reflexivity|]. cbn [filter].
  destruct (same_pair u u (fst (fst x)) (snd (fst x))) eqn:S; cbn [negb existsb].
  - apply same_pair_self_iff in S. destruct S as [S1 S2].
    assert (F2 : same_pair w w (fst (fst x)) (snd (fst x)) = false).
    { destruct (same_pair w w (fst (fst x)) (snd (fst x))) eqn:S'; [|reflexivity].
      apply same_pair_self_iff in S'. destruct S'; congruence. }
    rewrite F2. cbn [orb]. exact IH.
  - rewrite IH. reflexivity.
Qed.

(* a self pair (w,w) is present after one step iff it was present and w is not the substituted key *)
Lemma subst_one_self vt p t w :
  snd (fst t) <> fst (fst t) ->
  has_pair (p_quad (subst_one vt p t)) w w = has_pair (p_quad p) w w && negb ((w =? fst (fst t))%nat && has_pair (p_quad p) w w).
Proof.
  intros N. unfold subst_one. set (u := fst (fst t)) in *. set (nw := snd (fst t)) in *.
  destruct (has_pair (p_quad p) u u) eqn:H.
  - cbn [remove_interaction p_quad]. rewrite p_quad_s_addq_ne by congruence. cbn [filter fst snd].
    rewrite (same_pair_uu_ne u nw N). cbn [negb].
    destruct (Nat.eqb_spec w u) as [->|Nw].
    + rewrite H. cbn [andb negb]. unfold has_pair at 1. cbn [existsb fst snd]. rewrite (same_pair_uu_ne u nw N).
      cbn [orb]. apply has_pair_filter_self.
    + cbn [andb negb]. rewrite Bool.andb_true_r. unfold has_pair. cbn [existsb fst snd].
      assert (F : same_pair w w u nw = false).
      { destruct (same_pair w w u nw) eqn:S; [|reflexivity]. apply same_pair_self_iff in S. destruct S; congruence. }
      rewrite F. cbn [orb]. apply (has_pair_filter_other u w (p_quad p) Nw).
  - destruct (Nat.eqb_spec w u) as [->|Nw]; [rewrite H; reflexivity|]. cbn [andb negb]. rewrite Bool.andb_true_r. reflexivity.
Qed.

Lemma subst_one_self_false vt p t w :
  snd (fst t) <> fst (fst t) -> has_pair (p_quad p) w w = false -> has_pair (p_quad (subst_one vt p t)) w w = false.
Proof. intros N H. rewrite subst_one_self by exact N. rewrite H. reflexivity. Qed.

Theorem subst_loops_poly_no_self_loop vt mp p t :
  (forall t', In t' mp -> snd (fst t') <> fst (fst t')) -> In t mp ->
  has_pair (p_quad (subst_loops_poly vt mp p)) (fst (fst t)) (fst (fst t)) = false.
Proof.
  rewrite subst_loops_poly_fold. revert p. induction mp as [|x r IH]; intros p N Ht; [destruct Ht|].
  cbn [fold_left]. destruct Ht as [->|Ht].
  - assert (G : forall l q, (forall t', In t' l -> snd (fst t') <> fst (fst t')) ->
                has_pair (p_quad q) (fst (fst t)) (fst (fst t)) = false ->
                has_pair (p_quad (fold_left (subst_one vt) l q)) (fst (fst t)) (fst (fst t)) = false).
    { induction l as [|y l IHl]; intros q Nl Hq; [exact Hq|]. cbn [fold_left]. apply IHl.
      - intros t' Ht'. apply Nl. right. exact Ht'.
      - apply subst_one_self_false; [apply Nl; left; reflexivity|exact Hq]. }
    apply G; [intros t' Ht'; apply N; right; exact Ht'|].
    rewrite subst_one_self by (apply N; left; reflexivity). rewrite Nat.eqb_refl. cbn [andb].
    destruct (has_pair (p_quad p) (fst (fst t)) (fst (fst t))); reflexivity.
  - apply IH; [intros t' Ht'; apply N; right; exact Ht'|exact Ht].
Qed.

(* linear part and offset are only extended by zero entries: the value of the linear part is unchanged, the offset is the same *)
Lemma subst_one_off vt p t : snd (fst t) <> fst (fst t) -> p_off (subst_one vt p t) = p_off p.
Proof.
  intros N. unfold subst_one. destruct (has_pair _ _ _); [|reflexivity].
  cbn [remove_interaction p_off]. unfold s_addq, add_quadratic.
  assert (E : (fst (fst t) =? snd (fst t))%nat = false) by (apply Nat.eqb_neq; congruence). rewrite E. reflexivity.
Qed.

Theorem subst_loops_poly_offset vt mp p :
  (forall t, In t mp -> snd (fst t) <> fst (fst t)) -> p_off (subst_loops_poly vt mp p) = p_off p.
Proof.
  rewrite subst_loops_poly_fold. revert p. induction mp as [|x r IH]; intros p N; [reflexivity|]. cbn [fold_left].
  rewrite IH by (intros t Ht; apply N; right; exact Ht). apply subst_one_off. apply N. left. reflexivity.
Qed.

(* ---------- the whole operation ---------- *)
Theorem subst_self_loops_rejects mp q :
  let need := map v_lbl (filter (needs_subst q) (q_vars q)) in
  let keys := map (fun t => fst (fst t)) mp in
  (forallb (fun x => memb x keys) need && forallb (fun x => memb x need) keys) = false ->
  subst_self_loops mp q = (q, XOther).
Proof. intros need keys H. unfold subst_self_loops. fold need. fold keys. rewrite H. reflexivity. Qed.

Theorem subst_self_loops_shape mp q q' :
  subst_self_loops mp q = (q', XNone) ->
  length (q_cons q') = (length (q_cons q) + length mp)%nat
  /\ map k_lbl (q_cons q') = map k_lbl (q_cons q) ++ map snd mp
  /\ map k_sense (q_cons q') = map k_sense (q_cons q) ++ map (fun _ => EQ) mp
  /\ map k_rhs (q_cons q') = map k_rhs (q_cons q) ++ map (fun _ => 0) mp
  /\ map k_soft (q_cons q') = map k_soft (q_cons q) ++ map (fun _ => None) mp
  /\ map k_mark (q_cons q') = map k_mark (q_cons q) ++ map (fun _ => false) mp.
Proof.
  unfold subst_self_loops. intros H.
  destruct (negb _); [discriminate|]. destruct (negb _); [discriminate|]. destruct (_ || _); [discriminate|].
  injection H as <-. cbn [q_cons]. rewrite !map_app, !map_map, app_length, !map_length. cbn [k_lbl k_sense k_rhs k_soft k_mark con_set_p].
  repeat split; reflexivity.
Qed.

Lemma firstn_map_app {A B} (F : A -> B) (l : list A) (r : list B) : firstn (length l) (map F l ++ r) = map F l.
Proof. induction l as [|x l IH]; [destruct r; reflexivity|]. cbn [length map app firstn]. rewrite IH. reflexivity. Qed.
Lemma skipn_map_app {A B} (F : A -> B) (l : list A) (r : list B) : skipn (length l) (map F l ++ r) = r.
Proof. induction l as [|x l IH]; [reflexivity|]. cbn [length map app skipn]. exact IH. Qed.

(* every expression that was there keeps its value wherever each new variable equals its original; each new
   constraint u - new == 0 holds there *)
Theorem subst_self_loops_energies mp q q' s :
  subst_self_loops mp q = (q', XNone) -> mp_ok s mp ->
  energy (q_obj q') s = energy (q_obj q) s
  /\ map (fun k => energy (k_p k) s) (firstn (length (q_cons q)) (q_cons q')) = map (fun k => energy (k_p k) s) (q_cons q)
  /\ forall k, In k (skipn (length (q_cons q)) (q_cons q')) -> energy (k_p k) s = 0.
Proof.
  unfold subst_self_loops. intros H OK.
  destruct (negb _); [discriminate|]. destruct (negb _); [discriminate|]. destruct (_ || _); [discriminate|].
  injection H as <-. cbn [q_obj q_cons]. split; [apply subst_loops_poly_energy; exact OK|]. split.
  - rewrite firstn_map_app, map_map.
    apply map_ext. intros k. cbn [con_set_p k_p]. apply subst_loops_poly_energy. exact OK.
  - intros k Hk. rewrite skipn_map_app in Hk.
    apply in_map_iff in Hk. destruct Hk as [t [<- Ht]]. cbn [k_p].
    rewrite !energy_add_linear, energy_pzero. destruct (OK t Ht) as [_ E]. rewrite E. ring.
Qed.


(* the variables: one new variable per entry, appended in the order of the mapping, with the vartype and bounds of its original *)
Definition new_var (vs : list vinfo) (t : label * label * nat) : list vinfo :=
  match find_var (fst (fst t)) vs with
  | Some x => [mkV (snd (fst t)) (v_vt x) (v_lb x) (v_ub x)]
  | None => []
  end.

Lemma fold_new_vars vs0 mp vs :
  fold_left (fun vs t => match find_var (fst (fst t)) vs0 with
                         | Some x => vs ++ [mkV (snd (fst t)) (v_vt x) (v_lb x) (v_ub x)]
                         | None => vs
                         end) mp vs = vs ++ flat_map (new_var vs0) mp.
Proof.
  revert vs. induction mp as [|t r IH]; intros vs; cbn [fold_left flat_map]; [rewrite app_nil_r; reflexivity|].
  rewrite IH. unfold new_var at 2. destruct (find_var (fst (fst t)) vs0); [rewrite <- app_assoc|]; reflexivity.
Qed.

Theorem subst_self_loops_vars mp q q' :
  subst_self_loops mp q = (q', XNone) -> q_vars q' = q_vars q ++ flat_map (new_var (q_vars q)) mp.
Proof.
  unfold subst_self_loops. intros H.
  destruct (negb _); [discriminate|]. destruct (negb _); [discriminate|]. destruct (_ || _); [discriminate|].
  injection H as <-. cbn [q_vars]. apply fold_new_vars.
Qed.

(* under the first guard every key of the mapping is a variable of the model, so no entry is dropped *)
Theorem subst_self_loops_keys_are_variables mp q q' t :
  subst_self_loops mp q = (q', XNone) -> In t mp -> exists x, find_var (fst (fst t)) (q_vars q) = Some x.
Proof.
  unfold subst_self_loops. intros H Ht.
  destruct (forallb _ _ && forallb _ _) eqn:G; cbn [negb] in H; [|discriminate].
  apply Bool.andb_true_iff in G. destruct G as [_ G]. rewrite forallb_forall in G.
  specialize (G (fst (fst t)) (in_map (fun t => fst (fst t)) mp t Ht)).
  unfold memb in G. apply existsb_exists in G. destruct G as [y [Hy E]]. apply Nat.eqb_eq in E. subst y.
  apply in_map_iff in Hy. destruct Hy as [x [Hx Hin]]. apply filter_In in Hin. destruct Hin as [Hin _].
  unfold find_var. clear H.
  induction (q_vars q) as [|z r IH]; [destruct Hin|]. cbn [find].
  destruct (Nat.eqb_spec (v_lbl z) (fst (fst t))) as [Ez|Nz].
  - exists z. reflexivity.
  - destruct Hin as [->|Hin]; [congruence|]. apply IH. exact Hin.
Qed.

Theorem clear_is_empty q : step q Clear = (empty_cqm, XNone).
Proof. reflexivity. Qed.

Print Assumptions subst_loops_poly_energy.
Print Assumptions subst_loops_poly_no_self_loop.
Print Assumptions subst_loops_poly_offset.
Print Assumptions subst_self_loops_rejects.
Print Assumptions subst_self_loops_shape.
Print Assumptions subst_self_loops_energies.
Print Assumptions clear_is_empty.
Print Assumptions subst_self_loops_vars.
Print Assumptions subst_self_loops_keys_are_variables.
