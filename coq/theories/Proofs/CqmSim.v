(* Whole-history refinement at index level: for EVERY list of operations of the
   C++ ConstrainedQuadraticModel API (Model/ExprOps.v) the objective and all
   constraints satisfy ExprInv (variables_/indices_ consistent, all indices in
   range) and stand for polynomials with the same energy function - hence, by
   Proofs/CoeffSound.v, the same coefficients - as the same history run on a
   plain list of polynomials. *)
From Coq Require Import List ZArith QArith Qcanon Bool Arith Lia.
From Dimod Require Import Base.Util Model.Poly Model.Expr Model.ExprOps
  Proofs.PolyFacts Proofs.CoeffSound Proofs.ExprFacts Proofs.ExprViewFacts Proofs.ExprSim.
Import ListNotations.
Open Scope Qc_scope.

Definition peq (a b : poly) : Prop := forall s, energy a s = energy b s.

Lemma peq_refl : forall a, peq a a. Proof. intros a s. reflexivity. Qed.
Lemma peq_trans : forall a b c, peq a b -> peq b c -> peq a c.
Proof. intros a b c H1 H2 s. rewrite H1. apply H2. Qed.
Lemma peq_of_eq : forall a b, a = b -> peq a b. Proof. intros a b ->. apply peq_refl. Qed.

(* ---------- the plain-polynomial operations respect equality of energy functions ---------- *)
Lemma energy_add_quadratic_raw : forall vt u v b p s,
  energy (add_quadratic vt u v b p) s =
  energy p s + (if (u =? v)%nat then match vt u with BINARY => b * s u | SPIN => b | _ => b * s u * s u end
                else b * s u * s v).
Proof.
  intros vt u v b p s. unfold add_quadratic. destruct (Nat.eqb_spec u v) as [->|Hne].
  - destruct (vt v).
    + apply energy_add_linear.
    + apply energy_add_offset.
    + unfold energy. cbn [p_off p_lin p_quad]. rewrite quad_energy_cons. cbn [fst snd]. ring.
    + unfold energy. cbn [p_off p_lin p_quad]. rewrite quad_energy_cons. cbn [fst snd]. ring.
  - unfold energy. cbn [p_off p_lin p_quad]. rewrite quad_energy_cons. cbn [fst snd]. ring.
Qed.

Lemma quad_energy_filter_pair : forall u v (l : list qterm) s,
  quad_energy (filter (fun t => negb (same_pair u v (fst (fst t)) (snd (fst t)))) l) s
  = quad_energy l s - quad_coeff l u v * s u * s v.
Proof.
  intros u v l s. unfold quad_coeff. induction l as [|t r IH].
  - cbn. unfold quad_energy. cbn. ring.
  - cbn [filter]. destruct (same_pair u v (fst (fst t)) (snd (fst t))) eqn:E; cbn [negb].
    + rewrite IH, quad_energy_cons. cbn [map qsum].
      unfold same_pair in E. apply orb_true_iff in E.
      destruct E as [E|E]; apply andb_true_iff in E; destruct E as [E1 E2];
        apply Nat.eqb_eq in E1; apply Nat.eqb_eq in E2; rewrite <- E1, <- E2; ring.
    + rewrite !quad_energy_cons, IH. ring.
Qed.

Lemma energy_remove_interaction : forall u v p s,
  energy (remove_interaction u v p) s = energy p s - quad_coeff (p_quad p) u v * s u * s v.
Proof.
  intros u v p s. unfold energy, remove_interaction. cbn [p_off p_lin p_quad].
  rewrite quad_energy_filter_pair. ring.
Qed.

Lemma peq_spec_eop : forall vt o a b, peq a b -> peq (spec_eop vt o a) (spec_eop vt o b).
Proof.
  intros vt o a b H s. destruct o; cbn [spec_eop].
  - rewrite !energy_add_linear, H. reflexivity.
  - rewrite !energy_set_linear, H, (ce_lin a b H). reflexivity.
  - unfold spec_add_quadratic. rewrite !energy_add_quadratic_raw, !energy_add_linear, H. reflexivity.
  - rewrite !energy_remove_interaction, H, (ce_quad a b H). reflexivity.
  - rewrite !energy_remove_variable_zero. apply H.
  - rewrite !energy_add_offset, H. reflexivity.
  - pose proof (ce_off a b H) as Ho. pose proof (H s) as Hs. unfold energy in *. cbn [p_off p_lin p_quad].
    transitivity (b0 + ((p_off a + lin_energy (p_lin a) s + quad_energy (p_quad a) s) - p_off a)); [ring|].
    rewrite Hs, Ho. ring.
  - reflexivity.
Qed.

Lemma peq_reindex : forall v a b, peq a b ->
  peq (relabel (shift v) (remove_variable v a)) (relabel (shift v) (remove_variable v b)).
Proof. intros v a b H s. rewrite !energy_relabel, !energy_remove_variable_zero. apply H. Qed.

Lemma peq_fix : forall v x a b, peq a b ->
  peq (relabel (shift v) (fix_variable v x a)) (relabel (shift v) (fix_variable v x b)).
Proof. intros v x a b H s. rewrite !energy_relabel, !energy_fix_variable. apply H. Qed.

Lemma peq_substitute : forall v m c a b, peq a b -> peq (substitute v m c a) (substitute v m c b).
Proof. intros v m c a b H s. rewrite !energy_substitute. apply H. Qed.

(* ---------- one expression ---------- *)
Lemma eop_inv : forall n vt o e, ExprInv n e -> eop_ok n o = true -> ExprInv n (apply_eop vt o e).
Proof.
  intros n vt o e I G. destruct o; cbn [eop_ok apply_eop] in *.
  - apply add_linear_inv; [exact I|apply Nat.ltb_lt; exact G].
  - apply set_linear_inv; [exact I|apply Nat.ltb_lt; exact G].
  - apply andb_true_iff in G. destruct G as [G1 G2]. apply Nat.ltb_lt in G1. apply Nat.ltb_lt in G2.
    apply add_quadratic_inv; assumption.
  - apply remove_interaction_inv. exact I.
  - apply remove_variable_inv. exact I.
  - apply add_offset_inv. exact I.
  - destruct I as [ND LT LEN QD IDX]. constructor; assumption.
  - apply empty_inv.
Qed.

Lemma eop_sim : forall n vt o e, ExprInv n e -> eop_ok n o = true ->
  peq (abs_expr (apply_eop vt o e)) (spec_eop vt o (abs_expr e)).
Proof.
  intros n vt o e I G s. destruct o; cbn [eop_ok apply_eop spec_eop] in *.
  - apply (add_linear_sim n); [exact I|apply Nat.ltb_lt; exact G].
  - apply (set_linear_sim n); [exact I|apply Nat.ltb_lt; exact G].
  - apply andb_true_iff in G. destruct G as [G1 G2]. apply Nat.ltb_lt in G1. apply Nat.ltb_lt in G2.
    apply (add_quadratic_sim n); assumption.
  - rewrite (remove_interaction_abs n e u v I). reflexivity.
  - rewrite (remove_variable_abs n e v I). reflexivity.
  - reflexivity.
  - reflexivity.
  - reflexivity.
Qed.

Lemma eop_step : forall n vt o e p, ExprInv n e -> eop_ok n o = true -> peq (abs_expr e) p ->
  ExprInv n (apply_eop vt o e) /\ peq (abs_expr (apply_eop vt o e)) (spec_eop vt o p).
Proof.
  intros n vt o e p I G H. split; [apply eop_inv; assumption|].
  eapply peq_trans; [apply (eop_sim n); assumption|apply peq_spec_eop; exact H].
Qed.

Lemma ExprInv_mono : forall n m e, (n <= m)%nat -> ExprInv n e -> ExprInv m e.
Proof.
  intros n m e L [ND LT LEN QD IDX]. constructor; try assumption.
  eapply Forall_impl; [|exact LT]. intros u Hu. cbn in *. lia.
Qed.

(* ---------- the copy path of add_constraint is a fold of expression edits ---------- *)
Lemma fold_step : forall {X} n (f : mexpr -> X -> mexpr) (g : poly -> X -> poly) (xs : list X),
  (forall x e p, In x xs -> ExprInv n e -> peq (abs_expr e) p ->
                 ExprInv n (f e x) /\ peq (abs_expr (f e x)) (g p x)) ->
  forall e p, ExprInv n e -> peq (abs_expr e) p ->
  ExprInv n (fold_left f xs e) /\ peq (abs_expr (fold_left f xs e)) (fold_left g xs p).
Proof.
  intros X n f g xs. induction xs as [|x r IH]; intros H e p I S; [split; assumption|].
  cbn [fold_left]. destruct (H x e p (or_introl eq_refl) I S) as [I' S'].
  apply IH; [|exact I'|exact S']. intros y e' p' Hy. apply H. right. exact Hy.
Qed.

Lemma mapping_ok_spec : forall n lin quad mapping, mapping_ok n lin quad mapping = true ->
  NoDup mapping /\ Forall (fun u => (u < n)%nat) mapping /\ length lin = length mapping /\
  Forall (fun t : lqterm => (fst (fst t) < length mapping)%nat /\ (snd (fst t) < length mapping)%nat) quad.
Proof.
  intros n lin quad mapping H. unfold mapping_ok in H.
  apply andb_true_iff in H. destruct H as [H H4]. apply andb_true_iff in H. destruct H as [H H3].
  apply andb_true_iff in H. destruct H as [H1 H2].
  split; [|split; [|split]].
  - clear - H1. induction mapping as [|a r IH]; [constructor|]. cbn [nodupb] in H1.
    apply andb_true_iff in H1. destruct H1 as [Ha Hr]. constructor; [|apply IH; exact Hr].
    intros Hin. apply negb_true_iff in Ha. assert (existsb (Nat.eqb a) r = true) by (apply existsb_eqb_In; exact Hin). congruence.
  - apply Forall_forall. intros u Hu. rewrite forallb_forall in H2. apply Nat.ltb_lt. apply H2. exact Hu.
  - apply Nat.eqb_eq. exact H3.
  - apply Forall_forall. intros t Ht. rewrite forallb_forall in H4. specialize (H4 t Ht).
    apply andb_true_iff in H4. destruct H4 as [A B]. apply Nat.ltb_lt in A. apply Nat.ltb_lt in B. split; assumption.
Qed.

Lemma copy_step : forall n vt lin quad off mapping, mapping_ok n lin quad mapping = true ->
  ExprInv n (expr_from_copy vt lin quad off mapping)
  /\ peq (abs_expr (expr_from_copy vt lin quad off mapping)) (spec_from_copy vt lin quad off mapping).
Proof.
  intros n vt lin quad off mapping H. destruct (mapping_ok_spec _ _ _ _ H) as [ND [LT [LEN QD]]].
  assert (In_lt : forall i, (i < length mapping)%nat -> (nth i mapping 0 < n)%nat).
  { intros i Hi. rewrite Forall_forall in LT. apply LT. apply nth_In. exact Hi. }
  unfold expr_from_copy, spec_from_copy.
  set (f1 := fun (e : mexpr) (ib : nat * Qc) => m_add_linear (nth (fst ib) mapping 0%nat) (snd ib) e).
  set (g1 := fun (p : poly) (ib : nat * Qc) => add_linear (nth (fst ib) mapping 0%nat) (snd ib) p).
  set (f2 := fun (e : mexpr) (t : lqterm) => m_add_quadratic vt (nth (fst (fst t)) mapping 0%nat) (nth (snd (fst t)) mapping 0%nat) (snd t) e).
  set (g2 := fun (p : poly) (t : lqterm) => spec_add_quadratic vt (nth (fst (fst t)) mapping 0%nat) (nth (snd (fst t)) mapping 0%nat) (snd t) p).
  destruct (fold_step n f1 g1 (combine (seq 0 (length lin)) lin)) with (e := e_empty) (p := pzero) as [I1 S1].
  { intros [i b] e p Hin I S. apply in_combine_l in Hin. apply in_seq in Hin. cbn [fst snd].
    assert (G : eop_ok n (EAddLinear (nth i mapping 0%nat) b) = true).
    { cbn [eop_ok]. apply Nat.ltb_lt. apply In_lt. lia. }
    exact (eop_step n vt (EAddLinear (nth i mapping 0%nat) b) e p I G S). }
  { apply empty_inv. }
  { apply peq_refl. }
  destruct (fold_step n f2 g2 quad) with (e := fold_left f1 (combine (seq 0 (length lin)) lin) e_empty)
                                        (p := fold_left g1 (combine (seq 0 (length lin)) lin) pzero) as [I2 S2].
  { intros [[a b] w] e p Hin I S. rewrite Forall_forall in QD. destruct (QD _ Hin) as [Ha Hb]. cbn [fst snd] in *.
    assert (G : eop_ok n (EAddQuadratic (nth a mapping 0%nat) (nth b mapping 0%nat) w) = true).
    { cbn [eop_ok]. apply andb_true_iff. split; apply Nat.ltb_lt; apply In_lt; assumption. }
    exact (eop_step n vt (EAddQuadratic (nth a mapping 0%nat) (nth b mapping 0%nat) w) e p I G S). }
  { exact I1. }
  { exact S1. }
  split.
  - apply add_offset_inv. exact I2.
  - intros s. rewrite add_offset_abs, !energy_add_offset. f_equal. apply S2.
Qed.

Lemma move_step : forall n lin quad off mapping, mapping_ok n lin quad mapping = true ->
  ExprInv n (expr_from_move lin quad off mapping)
  /\ abs_expr (expr_from_move lin quad off mapping) = spec_from_move lin quad off mapping.
Proof.
  intros n lin quad off mapping H. destruct (mapping_ok_spec _ _ _ _ H) as [ND [LT [LEN QD]]].
  split; [apply move_inv; assumption|reflexivity].
Qed.

(* ---------- the whole model ---------- *)
Definition Sim (q : mcqm) (sq : sidx) : Prop :=
  m_info q = s_info sq /\ peq (abs_expr (m_obj q)) (s_obj sq)
  /\ Forall2 (fun k p => peq (abs_expr (mc_e k)) p) (m_cons q) (s_cons sq).

Lemma Forall2_upd_nth : forall {A B} (R : A -> B -> Prop) f g l1 l2 c,
  Forall2 R l1 l2 -> (forall a b, R a b -> R (f a) (g b)) -> Forall2 R (upd_nth c f l1) (upd_nth c g l2).
Proof.
  intros A B R f g l1 l2 c H. revert c. induction H as [|a b r1 r2 Hab Hr IH]; intros c Hf; [destruct c; constructor|].
  destruct c; cbn [upd_nth]; constructor; auto.
Qed.

Lemma Forall2_remove_nth : forall {A B} (R : A -> B -> Prop) l1 l2 c,
  Forall2 R l1 l2 -> Forall2 R (remove_nth c l1) (remove_nth c l2).
Proof.
  intros A B R l1 l2 c H. revert c. induction H as [|a b r1 r2 Hab Hr IH]; intros c; [destruct c; constructor|].
  destruct c; cbn [remove_nth]; [exact Hr|]. constructor; auto.
Qed.

Lemma Forall2_map_both : forall {A B} (R : A -> B -> Prop) f g l1 l2,
  Forall2 R l1 l2 -> (forall a b, R a b -> R (f a) (g b)) -> Forall2 R (map f l1) (map g l2).
Proof. intros A B R f g l1 l2 H Hf. induction H; cbn [map]; constructor; auto. Qed.

Lemma Forall_upd_nth : forall {A} (P : A -> Prop) f l c, Forall P l -> (forall a, P a -> P (f a)) -> Forall P (upd_nth c f l).
Proof.
  intros A P f l c H Hf. revert c. induction H as [|a r Ha Hr IH]; intros c; [destruct c; constructor|].
  destruct c; cbn [upd_nth]; constructor; auto.
Qed.

Lemma Forall_remove_nth : forall {A} (P : A -> Prop) l c, Forall P l -> Forall P (remove_nth c l).
Proof.
  intros A P l c H. revert c. induction H as [|a r Ha Hr IH]; intros c; [destruct c; constructor|].
  destruct c; cbn [remove_nth]; [exact Hr|]. constructor; auto.
Qed.

Lemma Forall2_len : forall {A B} (R : A -> B -> Prop) l1 l2, Forall2 R l1 l2 -> length l1 = length l2.
Proof. intros A B R l1 l2 H. induction H; cbn [length]; congruence. Qed.

Lemma guards_agree : forall q sq o, Sim q sq -> mop_ok q o = sop_ok sq o.
Proof.
  intros q sq o [Hi [_ Hc]]. pose proof (Forall2_len _ _ _ Hc) as L. unfold mop_ok, sop_ok. rewrite Hi, L. reflexivity.
Qed.

(* invariant and simulation, constraint by constraint *)
Definition RC (n : nat) (k : mcon) (p : poly) : Prop := ExprInv n (mc_e k) /\ peq (abs_expr (mc_e k)) p.

Lemma to_RC : forall n l1 l2, Forall (fun k => ExprInv n (mc_e k)) l1 ->
  Forall2 (fun k p => peq (abs_expr (mc_e k)) p) l1 l2 -> Forall2 (RC n) l1 l2.
Proof.
  intros n l1 l2 H1 H2. induction H2 as [|a b r1 r2 Hab Hr IH]; [constructor|].
  inversion H1; subst. constructor; [split; assumption|apply IH; assumption].
Qed.

Lemma from_RC : forall n l1 l2, Forall2 (RC n) l1 l2 ->
  Forall (fun k => ExprInv n (mc_e k)) l1 /\ Forall2 (fun k p => peq (abs_expr (mc_e k)) p) l1 l2.
Proof.
  intros n l1 l2 H. induction H as [|a b r1 r2 [Ha Hb] Hr [IH1 IH2]]; split; constructor; assumption.
Qed.

Lemma Forall2_weaken : forall {A B} (R R' : A -> B -> Prop) l1 l2,
  (forall a b, R a b -> R' a b) -> Forall2 R l1 l2 -> Forall2 R' l1 l2.
Proof. intros A B R R' l1 l2 Hf H. induction H; constructor; auto. Qed.

Lemma Forall2_map_rel : forall {A B} (R R' : A -> B -> Prop) f g l1 l2,
  Forall2 R l1 l2 -> (forall a b, R a b -> R' (f a) (g b)) -> Forall2 R' (map f l1) (map g l2).
Proof. intros A B R R' f g l1 l2 H Hf. induction H; cbn [map]; constructor; auto. Qed.

Lemma Forall2_upd_nth_l : forall {A B} (R : A -> B -> Prop) f l1 l2 c,
  Forall2 R l1 l2 -> (forall a b, R a b -> R (f a) b) -> Forall2 R (upd_nth c f l1) l2.
Proof.
  intros A B R f l1 l2 c H. revert c. induction H as [|a b r1 r2 Hab Hr IH]; intros c Hf; [destruct c; constructor|].
  destruct c; cbn [upd_nth]; constructor; auto.
Qed.

Definition State (q : mcqm) (sq : sidx) : Prop :=
  m_info q = s_info sq
  /\ (ExprInv (length (m_info q)) (m_obj q) /\ peq (abs_expr (m_obj q)) (s_obj sq))
  /\ Forall2 (RC (length (m_info q))) (m_cons q) (s_cons sq).

Lemma State_iff : forall q sq, State q sq <-> CqmInv q /\ Sim q sq.
Proof.
  intros q sq. unfold State, CqmInv, Sim. split.
  - intros [Hi [[Io So] Hc]]. destruct (from_RC _ _ _ Hc) as [Ic Sc].
    exact (conj (conj Io Ic) (conj Hi (conj So Sc))).
  - intros [[Io Ic] [Hi [So Sc]]]. exact (conj Hi (conj (conj Io So) (to_RC _ _ _ Ic Sc))).
Qed.

Lemma RC_mono : forall n m k p, (n <= m)%nat -> RC n k p -> RC m k p.
Proof. intros n m k p L [I S]. split; [eapply ExprInv_mono; eassumption|exact S]. Qed.

Theorem step_state : forall q sq o, State q sq -> State (mstep q o) (sstep sq o).
Proof.
  intros q sq o St. pose proof (proj1 (State_iff q sq) St) as [_ Sm]. pose proof (guards_agree q sq o Sm) as G.
  destruct St as [Hi [[Io So] Hc]]. unfold mstep, sstep. rewrite <- G.
  destruct (mop_ok q o) eqn:OK; cbn [negb]; [|split; [|split; [split|]]; assumption].
  rewrite <- Hi. cbv zeta. set (n := length (m_info q)) in *. set (vt := vt_info (m_info q)).
  destruct o; cbn [mop_ok] in OK.
  - (* add_variable *)
    unfold State. cbn [m_info m_obj m_cons s_info s_obj s_cons]. rewrite app_length. cbn [length]. fold n.
    split; [rewrite Hi; reflexivity|]. split; [split; [eapply ExprInv_mono; [|exact Io]; lia|exact So]|].
    eapply Forall2_weaken; [|exact Hc]. intros k p. apply RC_mono. lia.
  - (* vartype / bounds *)
    unfold State. cbn [m_info m_obj m_cons s_info s_obj s_cons]. rewrite upd_nth_length. fold n.
    split; [rewrite Hi; reflexivity|]. split; [split; assumption|exact Hc].
  - (* remove_variable *)
    apply Nat.ltb_lt in OK. unfold State, cqm_remove_variable. cbn [m_info m_obj m_cons s_info s_obj s_cons].
    rewrite (remove_nth_length (m_info q) v OK). fold n.
    split; [rewrite Hi; reflexivity|]. split.
    + split; [apply reindex_inv; assumption|]. rewrite (reindex_abs n _ v Io). apply peq_reindex. exact So.
    + eapply Forall2_map_rel; [exact Hc|]. intros k p [Ik Sk]. split; cbn [mc_e mc_set_e].
      * apply reindex_inv; assumption.
      * rewrite (reindex_abs n _ v Ik). apply peq_reindex. exact Sk.
  - (* fix_variable *)
    apply Nat.ltb_lt in OK. unfold State, cqm_fix_variable, cqm_remove_variable, cqm_substitute.
    cbn [m_info m_obj m_cons s_info s_obj s_cons].
    rewrite (remove_nth_length (m_info q) v OK). fold n. rewrite map_map.
    split; [rewrite Hi; reflexivity|]. split.
    + split; [apply (fix_inv n); assumption|]. intros s. fold (m_fix v a (m_obj q)).
      rewrite (fix_sim n _ v a s Io). apply peq_fix. exact So.
    + eapply Forall2_map_rel; [exact Hc|]. intros k p [Ik Sk]. split; cbn [mc_e mc_set_e].
      * apply (fix_inv n); assumption.
      * intros s. fold (m_fix v a (mc_e k)). rewrite (fix_sim n _ v a s Ik). apply peq_fix. exact Sk.
  - (* substitute_variable *)
    unfold State, cqm_substitute. cbn [m_info m_obj m_cons s_info s_obj s_cons]. fold n.
    split; [rewrite Hi; reflexivity|]. split.
    + split; [apply substitute_inv; exact Io|]. intros s. rewrite (substitute_sim n _ v m c s Io). apply peq_substitute. exact So.
    + eapply Forall2_map_rel; [exact Hc|]. intros k p [Ik Sk]. split; cbn [mc_e mc_set_e].
      * apply substitute_inv. exact Ik.
      * intros s. rewrite (substitute_sim n _ v m c s Ik). apply peq_substitute. exact Sk.
  - (* edit through a view *)
    destruct t as [|c].
    + unfold State, cqm_edit_obj. cbn [m_info m_obj m_cons s_info s_obj s_cons]. fold n.
      split; [rewrite Hi; reflexivity|]. split; [|exact Hc]. exact (eop_step n vt o _ _ Io OK So).
    + apply andb_true_iff in OK. destruct OK as [_ OK].
      unfold State, cqm_edit_con. cbn [m_info m_obj m_cons s_info s_obj s_cons]. fold n.
      split; [rewrite Hi; reflexivity|]. split; [split; assumption|].
      apply Forall2_upd_nth; [exact Hc|]. intros k p [Ik Sk]. unfold RC. cbn [mc_e mc_set_e].
      exact (eop_step n vt o _ _ Ik OK Sk).
  - (* add_constraint, copy *)
    unfold State. cbn [m_info m_obj m_cons s_info s_obj s_cons]. fold n.
    split; [rewrite Hi; reflexivity|]. split; [split; assumption|].
    apply Forall2_app; [exact Hc|]. constructor; [|constructor]. unfold RC, new_con. cbn [mc_e].
    exact (copy_step n vt lin quad off mapping OK).
  - (* add_constraint, move *)
    unfold State. cbn [m_info m_obj m_cons s_info s_obj s_cons]. fold n.
    split; [rewrite Hi; reflexivity|]. split; [split; assumption|].
    apply Forall2_app; [exact Hc|]. constructor; [|constructor]. unfold RC, new_con. cbn [mc_e].
    destruct (move_step n lin quad off mapping OK) as [Im Em]. split; [exact Im|]. rewrite Em. apply peq_refl.
  - (* remove_constraint *)
    unfold State. cbn [m_info m_obj m_cons s_info s_obj s_cons]. fold n.
    split; [rewrite Hi; reflexivity|]. split; [split; assumption|]. apply Forall2_remove_nth. exact Hc.
  - (* weight / penalty / mark *)
    unfold State. cbn [m_info m_obj m_cons s_info s_obj s_cons]. fold n.
    split; [exact Hi|]. split; [split; assumption|].
    apply Forall2_upd_nth_l; [exact Hc|]. intros k p Hk. exact Hk.
Qed.

(* for EVERY history: the invariant holds and the index-level model stands for what the plain
   list of polynomials holds *)
Theorem history_state : forall ops, State (mrun ops m_empty) (srun ops s_empty).
Proof.
  intros ops. unfold mrun, srun.
  assert (G : forall q sq, State q sq -> State (fold_left mstep ops q) (fold_left sstep ops sq)).
  { induction ops as [|o r IH]; intros q sq St; [exact St|]. cbn [fold_left]. apply IH. apply step_state. exact St. }
  apply G. unfold State, m_empty, s_empty. cbn [m_info m_obj m_cons s_info s_obj s_cons length].
  split; [reflexivity|]. split; [split; [apply empty_inv|apply peq_refl]|constructor].
Qed.

Theorem expr_inv_reachable : forall ops, CqmInv (mrun ops m_empty).
Proof. intros ops. exact (proj1 (proj1 (State_iff _ _) (history_state ops))). Qed.

Theorem cqm_refines_spec : forall ops, Sim (mrun ops m_empty) (srun ops s_empty).
Proof. intros ops. exact (proj2 (proj1 (State_iff _ _) (history_state ops))). Qed.

(* ... and therefore every coefficient agrees (labels range over [0, n) for any n) *)
Theorem cqm_refines_spec_coefficients : forall ops n,
  let q := mrun ops m_empty in let sq := srun ops s_empty in
  poly_coeff_eqb n (abs_expr (m_obj q)) (s_obj sq) = true
  /\ Forall2 (fun k p => poly_coeff_eqb n (abs_expr (mc_e k)) p = true) (m_cons q) (s_cons sq).
Proof.
  intros ops n q sq. destruct (cqm_refines_spec ops) as [_ [So Sc]]. fold q sq in So, Sc. split.
  - apply coeff_eq_complete. exact So.
  - eapply Forall2_weaken; [|exact Sc]. intros k p H. apply coeff_eq_complete. exact H.
Qed.
