(* C06: the evaluator of symbolic expressions is a homomorphism into ordinary
   arithmetic on energies; variable tables only grow and never change an entry. *)
From Coq Require Import List ZArith QArith Qcanon Bool Arith Lia.
From Dimod Require Import Base.Util Model.Poly Model.Sym Proofs.PolyFacts.
Import ListNotations.
Open Scope Qc_scope.

(* ---------- tables ---------- *)
Lemma lookup_app_some a b l i : lookup a l = Some i -> lookup (a ++ b) l = Some i.
Proof.
  induction a as [|[l' i'] a IH]; cbn [lookup app]; [discriminate|].
  destruct (l' =? l)%nat; auto.
Qed.

Lemma lookup_app_none a b l : lookup a l = None -> lookup (a ++ b) l = lookup b l.
Proof.
  induction a as [|[l' i'] a IH]; cbn [lookup app]; [reflexivity|].
  destruct (l' =? l)%nat; [discriminate|auto].
Qed.

Definition sub_tab (a t : tab) : Prop := forall l i, lookup a l = Some i -> lookup t l = Some i.
Definition sub_vt (a t : tab) : Prop :=
  forall l i, lookup a l = Some i -> exists i', lookup t l = Some i' /\ vi_vt i' = vi_vt i.

Lemma sub_tab_vt a t : sub_tab a t -> sub_vt a t.
Proof. intros H l i E. exists i. split; [apply H; exact E|reflexivity]. Qed.

Lemma sub_vt_refl a : sub_vt a a.
Proof. apply sub_tab_vt. intros l i E; exact E. Qed.

Lemma sub_vt_nil t : sub_vt [] t.
Proof. intros l i E. discriminate E. Qed.

Lemma sub_vt_trans a b c : sub_vt a b -> sub_vt b c -> sub_vt a c.
Proof.
  intros H1 H2 l i E. destruct (H1 l i E) as [i1 [E1 V1]]. destruct (H2 l i1 E1) as [i2 [E2 V2]].
  exists i2. split; [exact E2|congruence].
Qed.

Lemma respects_sub a t s : sub_vt a t -> respects (tvt t) s -> respects (tvt a) s.
Proof.
  intros H Hr v. unfold tvt. destruct (lookup a v) as [i|] eqn:E; [|exact I].
  destruct (H v i E) as [i' [E' Hv]]. specialize (Hr v). unfold tvt in Hr. rewrite E' in Hr.
  rewrite Hv in Hr. exact Hr.
Qed.

Lemma vartype_eqb_eq a b : vartype_eqb a b = true -> a = b.
Proof. destruct a, b; cbn; congruence. Qed.

Lemma Qc_eqb_eq a b : Qc_eqb a b = true -> a = b.
Proof. unfold Qc_eqb. intros H. apply Qc_is_canon. apply Qeq_bool_iff. exact H. Qed.

Lemma Qc_eqb_refl a : Qc_eqb a a = true.
Proof. unfold Qc_eqb. apply Qeq_bool_iff. reflexivity. Qed.

Lemma vinfo_eqb_eq a b : vinfo_eqb a b = true -> a = b.
Proof.
  unfold vinfo_eqb. intros H. apply andb_prop in H. destruct H as [H H3]. apply andb_prop in H.
  destruct H as [H1 H2]. destruct a, b; cbn in *. apply vartype_eqb_eq in H1. apply Qc_eqb_eq in H2, H3.
  congruence.
Qed.

Definition ek_vt (ek : vinfo -> vinfo -> option err) : Prop :=
  forall x y, ek x y = None -> vi_vt x = vi_vt y.

Lemma upd_err_none x y : upd_err x y = None -> x = y.
Proof. unfold upd_err. destruct (vinfo_eqb x y) eqn:E; [intros _; apply vinfo_eqb_eq; exact E|discriminate]. Qed.

Lemma upd_err_vt : ek_vt upd_err.
Proof. intros x y H. apply upd_err_none in H. congruence. Qed.

Lemma mul_err_vt : ek_vt mul_err.
Proof.
  intros x y. unfold mul_err. destruct (vartype_eqb (vi_vt x) (vi_vt y)) eqn:E; cbn [negb]; [|discriminate].
  intros _. apply vartype_eqb_eq. exact E.
Qed.

Lemma merge_left ek a b t : merge ek a b = Ok t -> sub_tab a t.
Proof.
  revert a. induction b as [|[l i] b IH]; intros a H; cbn [merge] in H.
  - inversion H; subst. intros l i E; exact E.
  - destruct (lookup a l) as [i'|] eqn:E.
    + destruct (ek i' i); [discriminate|]. apply IH. exact H.
    + intros l0 i0 E0. apply (IH _ H). apply lookup_app_some. exact E0.
Qed.

Lemma merge_right_rel ek (R : vinfo -> vinfo -> Prop) a b t :
  (forall x, R x x) -> (forall x y, ek x y = None -> R x y) ->
  merge ek a b = Ok t -> forall l i, lookup b l = Some i -> exists i', lookup t l = Some i' /\ R i' i.
Proof.
  intros Hrefl Hek. revert a. induction b as [|[l i] b IH]; intros a H; cbn [merge] in H.
  - intros l i E. discriminate E.
  - intros l0 i0 E0. cbn [lookup] in E0. destruct (lookup a l) as [i'|] eqn:E.
    + destruct (ek i' i) eqn:K; [discriminate|].
      destruct (Nat.eqb_spec l l0) as [->|Hne].
      * inversion E0; subst. exists i'. split; [apply (merge_left _ _ _ _ H); exact E|apply Hek; exact K].
      * apply (IH _ H). exact E0.
    + destruct (Nat.eqb_spec l l0) as [->|Hne].
      * inversion E0; subst. exists i0. split; [|apply Hrefl].
        apply (merge_left _ _ _ _ H). rewrite lookup_app_none by exact E. cbn [lookup]. rewrite Nat.eqb_refl. reflexivity.
      * apply (IH _ H). exact E0.
Qed.

Lemma merge_right ek a b t : ek_vt ek -> merge ek a b = Ok t -> sub_vt b t.
Proof.
  intros Hek H l i E.
  destruct (merge_right_rel ek (fun x y => vi_vt x = vi_vt y) a b t (fun _ => eq_refl) Hek H l i E) as [i' [E' V]].
  exists i'. split; assumption.
Qed.

(* with the `update` check an entry of the right operand is kept verbatim too *)
Lemma merge_right_upd a b t : merge upd_err a b = Ok t -> sub_tab b t.
Proof.
  revert a. induction b as [|[l i] b IH]; intros a H; cbn [merge] in H.
  - intros l0 i0 E0. discriminate E0.
  - intros l0 i0 E0. cbn [lookup] in E0. destruct (lookup a l) as [i'|] eqn:E.
    + destruct (upd_err i' i) eqn:K; [discriminate|]. apply upd_err_none in K. subst i'.
      destruct (Nat.eqb_spec l l0) as [->|Hne].
      * inversion E0; subst. apply (merge_left _ _ _ _ H). exact E.
      * apply (IH _ H). exact E0.
    + destruct (Nat.eqb_spec l l0) as [->|Hne].
      * inversion E0; subst. apply (merge_left _ _ _ _ H). rewrite lookup_app_none by exact E.
        cbn [lookup]. rewrite Nat.eqb_refl. reflexivity.
      * apply (IH _ H). exact E0.
Qed.

(* a clash is always reported *)
Lemma merge_conflict ek a b l i1 i2 e :
  lookup a l = Some i1 -> lookup b l = Some i2 -> ek i1 i2 = Some e -> exists e', merge ek a b = Err e'.
Proof.
  intros Ha. revert a Ha. induction b as [|[l0 i0] b IH]; intros a Ha Hb K; [discriminate Hb|].
  cbn [lookup] in Hb. cbn [merge]. destruct (Nat.eqb_spec l0 l) as [->|Hne].
  - inversion Hb; subst. rewrite Ha, K. eauto.
  - destruct (lookup a l0) as [i'|] eqn:E.
    + destruct (ek i' i0); [eauto|]. apply IH; assumption.
    + apply IH; [apply lookup_app_some; exact Ha|exact Hb|exact K].
Qed.

Lemma merge_err_kind ek (P : err -> Prop) a b e :
  (forall x y e, ek x y = Some e -> P e) -> merge ek a b = Err e -> P e.
Proof.
  intros HP. revert a. induction b as [|[l i] b IH]; intros a H; cbn [merge] in H; [discriminate|].
  destruct (lookup a l) as [i'|].
  - destruct (ek i' i) eqn:K; [inversion H; subst; eapply HP; exact K|eapply IH; exact H].
  - eapply IH; exact H.
Qed.

(* ---------- model level ---------- *)
Lemma m_addsub_ok f m1 m2 m :
  m_addsub f m1 m2 = Ok m ->
  sub_tab (m_tab m1) (m_tab m) /\ sub_tab (m_tab m2) (m_tab m) /\ m_poly m = f (m_poly m1) (m_poly m2).
Proof.
  unfold m_addsub. destruct (merge upd_err (m_tab m1) (m_tab m2)) as [t|e] eqn:E; [|discriminate].
  intros H; inversion H; subst; cbn [m_tab m_poly].
  split; [eapply merge_left; exact E|]. split; [eapply merge_right_upd; exact E|reflexivity].
Qed.

Lemma is_linear_quad m : is_linear m = true -> p_quad (m_poly m) = [].
Proof. unfold is_linear. destruct (p_quad (m_poly m)); [reflexivity|discriminate]. Qed.

(* what QM.__mul__'s add_variable compares: vartype always, bounds for INTEGER / REAL *)
Definition same_info (x y : vinfo) : Prop :=
  vi_vt x = vi_vt y /\
  match vi_vt y with BINARY | SPIN => True | _ => vi_lb x = vi_lb y /\ vi_ub x = vi_ub y end.

Lemma same_info_refl x : same_info x x.
Proof. split; [reflexivity|]. destruct (vi_vt x); auto. Qed.

Lemma mul_err_same x y : mul_err x y = None -> same_info x y.
Proof.
  unfold mul_err, same_info. destruct (vartype_eqb (vi_vt x) (vi_vt y)) eqn:E; cbn [negb]; [|discriminate].
  apply vartype_eqb_eq in E. intros H. split; [exact E|].
  destruct (vi_vt y); auto;
    (destruct (Qc_eqb (vi_lb x) (vi_lb y)) eqn:E1; cbn [andb] in H; [|discriminate];
     destruct (Qc_eqb (vi_ub x) (vi_ub y)) eqn:E2; [|discriminate];
     apply Qc_eqb_eq in E1, E2; auto).
Qed.

Lemma upd_err_same x y : upd_err x y = None -> same_info x y.
Proof. intros H. apply upd_err_none in H. subst. apply same_info_refl. Qed.

Definition keeps_info (a t : tab) : Prop :=
  forall l i, lookup a l = Some i -> exists i', lookup t l = Some i' /\ same_info i' i.

Lemma keeps_info_vt a t : keeps_info a t -> sub_vt a t.
Proof. intros H l i E. destruct (H l i E) as [i' [E' [V _]]]. exists i'. auto. Qed.

Lemma sub_tab_keeps a t : sub_tab a t -> keeps_info a t.
Proof. intros H l i E. exists i. split; [apply H; exact E|apply same_info_refl]. Qed.

Lemma mul_order_cases m1 m2 : mul_order m1 m2 = (m1, m2) \/ mul_order m1 m2 = (m2, m1).
Proof. unfold mul_order. destruct (m_cls m1), (m_cls m2); auto. Qed.

Lemma m_mul_ok m1 m2 m :
  m_mul m1 m2 = Ok m ->
  keeps_info (m_tab m1) (m_tab m) /\ keeps_info (m_tab m2) (m_tab m) /\
  forall s, respects (tvt (m_tab m)) s -> energy (m_poly m) s = energy (m_poly m1) s * energy (m_poly m2) s.
Proof.
  unfold m_mul. destruct (is_linear m1 && is_linear m2) eqn:L; cbn [negb]; [|discriminate].
  apply andb_prop in L. destruct L as [L1 L2]. apply is_linear_quad in L1, L2.
  destruct (needs_promo m1 m2).
  - assert (G : forall a b, p_quad (m_poly a) = [] -> p_quad (m_poly b) = [] ->
                 match merge mul_err (m_tab a) (m_tab b) with
                 | Ok t => if real_interaction t (m_poly a) (m_poly b) then Err EValueError
                           else Ok (mkM CQm t (pmul_linear (tvt t) (m_poly a) (m_poly b)))
                 | Err e => Err e
                 end = Ok m ->
                 keeps_info (m_tab a) (m_tab m) /\ keeps_info (m_tab b) (m_tab m) /\
                 forall s, respects (tvt (m_tab m)) s -> energy (m_poly m) s = energy (m_poly a) s * energy (m_poly b) s).
    { intros a b La Lb H. destruct (merge mul_err (m_tab a) (m_tab b)) as [t|e] eqn:E; [|discriminate].
      destruct (real_interaction t (m_poly a) (m_poly b)); [discriminate|]. inversion H; subst; cbn [m_tab m_poly].
      split; [apply sub_tab_keeps; eapply merge_left; exact E|].
      split; [exact (merge_right_rel _ same_info _ _ _ same_info_refl mul_err_same E)|].
      intros s Hr. apply pmul_linear_energy; assumption. }
    destruct (mul_order_cases m1 m2) as [O|O]; rewrite O; intros H.
    + apply G; assumption.
    + destruct (G m2 m1 L2 L1 H) as [A [B D]]. split; [exact B|]. split; [exact A|].
      intros s Hr. rewrite D by exact Hr. ring.
  - destruct (merge upd_err (m_tab m1) (m_tab m2)) as [t|e] eqn:E; [|discriminate].
    intros H; inversion H; subst; cbn [m_tab m_poly].
    split; [apply sub_tab_keeps; eapply merge_left; exact E|].
    split; [apply sub_tab_keeps; eapply merge_right_upd; exact E|].
    intros s Hr. apply pmul_linear_energy; assumption.
Qed.

(* ---------- value level ---------- *)
Definition op_spec (a b v : val) (f : Qc -> Qc -> Qc) : Prop :=
  sub_vt (val_tab a) (val_tab v) /\ sub_vt (val_tab b) (val_tab v) /\
  forall s, respects (tvt (val_tab v)) s -> val_energy v s = f (val_energy a s) (val_energy b s).

Ltac simple_case H :=
  inversion H; subst; clear H;
  cbn [val_tab val_energy m_addoff m_scale to_qm m_tab m_poly];
  split; [try apply sub_vt_nil; try apply sub_vt_refl|
  split; [try apply sub_vt_nil; try apply sub_vt_refl|
  intros s _; rewrite ?energy_add_offset, ?energy_scale; try ring]].

Ltac addsub_case H lem :=
  unfold lift in H;
  match type of H with context [m_addsub ?f ?x ?y] =>
    let E := fresh "E" in let m := fresh "m" in
    destruct (m_addsub f x y) as [m|] eqn:E; [|discriminate H];
    inversion H; subst; clear H; apply m_addsub_ok in E;
    let A := fresh in let B := fresh in let C := fresh in
    destruct E as [A [B C]]; cbn [to_qm m_tab m_poly] in A, B, C;
    cbn [val_tab val_energy];
    split; [apply sub_tab_vt; exact A|split; [apply sub_tab_vt; exact B|
    intros s _; rewrite C, lem; reflexivity]]
  end.

Lemma v_add_ok a b v : v_add a b = Ok v -> op_spec a b v Qcplus.
Proof.
  unfold op_spec. destruct a as [x|m1|m1], b as [y|m2|m2]; cbn [v_add as_model]; intros H;
    first [solve [simple_case H] | addsub_case H energy_padd].
Qed.

Lemma v_sub_ok a b v : v_sub a b = Ok v -> op_spec a b v Qcminus.
Proof.
  unfold op_spec. destruct a as [x|m1|m1], b as [y|m2|m2]; cbn [v_sub as_model]; intros H;
    first [solve [simple_case H] | addsub_case H energy_psub].
Qed.

Lemma v_mul_ok a b v : v_mul a b = Ok v -> op_spec a b v Qcmult.
Proof.
  unfold op_spec. destruct a as [x|m1|m1], b as [y|m2|m2]; cbn [v_mul]; intros H;
    try discriminate H; try (simple_case H; fail).
  unfold lift in H. destruct (m_mul m1 m2) as [m|] eqn:E; [|discriminate H].
  inversion H; subst; clear H. apply m_mul_ok in E. destruct E as [A [B C]].
  cbn [val_tab val_energy]. split; [apply keeps_info_vt; exact A|]. split; [apply keeps_info_vt; exact B|exact C].
Qed.

Lemma v_div_ok a b v : v_div a b = Ok v -> op_spec a b v Qcdiv.
Proof.
  unfold op_spec, v_div. destruct b as [y|m2|m2]; try discriminate.
  destruct a as [x|m1|m1]; try discriminate; destruct (qis0 y); try discriminate; intros H.
  - simple_case H.
  - simple_case H. unfold Qcdiv. apply Qcmult_comm.
Qed.

Lemma v_neg_ok a v : v_neg a = Ok v ->
  sub_vt (val_tab a) (val_tab v) /\ forall s, val_energy v s = - val_energy a s.
Proof.
  destruct a as [x|m|m]; cbn [v_neg]; intros H; inversion H; subst; cbn [val_tab val_energy m_scale m_tab m_poly].
  - split; [apply sub_vt_nil|reflexivity].
  - split; [apply sub_vt_refl|]. intros s. rewrite energy_scale. ring.
Qed.

Lemma v_pos_ok a v : v_pos a = Ok v ->
  sub_vt (val_tab a) (val_tab v) /\ forall s, val_energy v s = val_energy a s.
Proof.
  destruct a as [x|m|m]; cbn [v_pos]; intros H; try discriminate H.
  - inversion H; subst. split; [apply sub_vt_nil|reflexivity].
  - destruct (m_cls m); inversion H; subst. split; [apply sub_vt_refl|reflexivity].
Qed.

Lemma m_pow_ok m n m' :
  m_pow m n = Ok m' ->
  n = 2%nat /\ keeps_info (m_tab m) (m_tab m') /\
  forall s, respects (tvt (m_tab m')) s -> energy (m_poly m') s = energy (m_poly m) s * energy (m_poly m) s.
Proof.
  unfold m_pow. destruct (Nat.eqb_spec n 2) as [->|]; cbn [negb]; [|discriminate].
  destruct (is_linear m); cbn [negb]; [|discriminate]. intros H. apply m_mul_ok in H.
  destruct H as [A [_ C]]. auto.
Qed.

Lemma v_pow_ok a n v : v_pow a n = Ok v ->
  sub_vt (val_tab a) (val_tab v) /\
  forall s, respects (tvt (val_tab v)) s -> val_energy v s = qpow (val_energy a s) n.
Proof.
  destruct a as [x|m|m]; cbn [v_pow]; intros H; try discriminate H.
  - inversion H; subst. split; [apply sub_vt_nil|reflexivity].
  - unfold lift in H. destruct (m_pow m n) as [m'|] eqn:E; [|discriminate H]. inversion H; subst; clear H.
    apply m_pow_ok in E. destruct E as [-> [A C]]. cbn [val_tab val_energy].
    split; [apply keeps_info_vt; exact A|]. intros s Hr. rewrite C by exact Hr. cbn [qpow]. ring.
Qed.

Lemma fold_add_ok l : forall acc v,
  fold_add acc l = Ok v ->
  sub_vt (val_tab acc) (val_tab v) /\ Forall (fun x => sub_vt (val_tab x) (val_tab v)) l /\
  forall s, respects (tvt (val_tab v)) s ->
            val_energy v s = val_energy acc s + qsum (map (fun x => val_energy x s) l).
Proof.
  induction l as [|x xs IH]; intros acc v H; cbn [fold_add] in H.
  - inversion H; subst. split; [apply sub_vt_refl|]. split; [constructor|]. intros s _. cbn [map qsum]. ring.
  - unfold bind in H. destruct (v_add acc x) as [acc'|] eqn:E; [|discriminate H].
    apply v_add_ok in E. destruct E as [A [B C]]. destruct (IH _ _ H) as [A' [F' C']].
    split; [eapply sub_vt_trans; eassumption|]. split.
    + constructor; [eapply sub_vt_trans; eassumption|exact F'].
    + intros s Hr. rewrite C' by exact Hr. rewrite C by (eapply respects_sub; eassumption).
      cbn [map qsum]. ring.
Qed.

(* ---------- induction principle for the nested type ---------- *)
Section sx_induction.
  Variable P : sx -> Prop.
  Hypothesis HVar : forall k l lb ub, P (Var k l lb ub).
  Hypothesis HMdl : forall m, P (Mdl m).
  Hypothesis HView : forall m, P (View m).
  Hypothesis HNum : forall q, P (Num q).
  Hypothesis HAdd : forall a b, P a -> P b -> P (Add a b).
  Hypothesis HSub : forall a b, P a -> P b -> P (Sub a b).
  Hypothesis HMul : forall a b, P a -> P b -> P (Mul a b).
  Hypothesis HDiv : forall a b, P a -> P b -> P (Div a b).
  Hypothesis HNeg : forall a, P a -> P (Neg a).
  Hypothesis HPos : forall a, P a -> P (Pos a).
  Hypothesis HPow : forall a n, P a -> P (Pow a n).
  Hypothesis HQs : forall l, Forall P l -> P (Quicksum l).

  Fixpoint sx_ind' (e : sx) : P e :=
    match e with
    | Var k l lb ub => HVar k l lb ub
    | Mdl m => HMdl m
    | View m => HView m
    | Num q => HNum q
    | Add a b => HAdd a b (sx_ind' a) (sx_ind' b)
    | Sub a b => HSub a b (sx_ind' a) (sx_ind' b)
    | Mul a b => HMul a b (sx_ind' a) (sx_ind' b)
    | Div a b => HDiv a b (sx_ind' a) (sx_ind' b)
    | Neg a => HNeg a (sx_ind' a)
    | Pos a => HPos a (sx_ind' a)
    | Pow a n => HPow a n (sx_ind' a)
    | Quicksum l =>
        HQs l ((fix go (l : list sx) : Forall P l :=
                  match l with
                  | [] => Forall_nil P
                  | x :: xs => Forall_cons x (sx_ind' x) (go xs)
                  end) l)
    end.
End sx_induction.

(* ---------- the homomorphism theorem ---------- *)
Definition hom (e : sx) : Prop :=
  forall v, eval e = Ok v -> forall s, respects (tvt (val_tab v)) s -> val_energy v s = denote e s.

Ltac binop_case lem :=
  let a := fresh "a" in let b := fresh "b" in let IHa := fresh "IHa" in let IHb := fresh "IHb" in
  intros a b IHa IHb v H s Hr; cbn [eval] in H; unfold bind in H;
  let x := fresh "x" in let y := fresh "y" in let Ea := fresh "Ea" in let Eb := fresh "Eb" in
  destruct (eval a) as [x|] eqn:Ea; [|discriminate H];
  destruct (eval b) as [y|] eqn:Eb; [|discriminate H];
  apply lem in H; destruct H as [A [B C]];
  rewrite C by exact Hr; cbn [denote];
  rewrite (IHa x eq_refl s) by (eapply respects_sub; eassumption);
  rewrite (IHb y eq_refl s) by (eapply respects_sub; eassumption); reflexivity.

Lemma mapM_eval_ok l : Forall hom l -> forall vs, mapM eval l = Ok vs ->
  forall t s, Forall (fun x => sub_vt (val_tab x) t) vs -> respects (tvt t) s ->
  map (fun x => val_energy x s) vs = map (fun x => denote x s) l.
Proof.
  induction 1 as [|x xs Hx Hxs IH]; intros vs H t s F Hr; cbn [mapM] in H.
  - inversion H; subst. reflexivity.
  - unfold bind in H. destruct (eval x) as [v|] eqn:E; [|discriminate H].
    fold (mapM eval xs) in H. destruct (mapM eval xs) as [vs'|] eqn:E'; [|discriminate H].
    inversion H; subst; clear H. inversion F as [|? ? F1 F2]; subst. cbn [map]. f_equal.
    + apply (Hx v E s). eapply respects_sub; eassumption.
    + eapply IH; [reflexivity|exact F2|exact Hr].
Qed.

Theorem eval_energy : forall e, hom e.
Proof.
  apply sx_ind'; unfold hom.
  - intros k l lb ub v H s _. cbn [eval] in H. inversion H; subst. cbn [val_energy var_mdl m_poly denote].
    unfold energy, lin_energy, quad_energy, lterm_val; cbn [p_off p_lin p_quad map qsum fst snd]. ring.
  - intros m v H s _. cbn [eval] in H. inversion H; subst. reflexivity.
  - intros m v H s _. cbn [eval] in H. inversion H; subst. reflexivity.
  - intros q v H s _. cbn [eval] in H. inversion H; subst. reflexivity.
  - binop_case v_add_ok.
  - binop_case v_sub_ok.
  - binop_case v_mul_ok.
  - binop_case v_div_ok.
  - intros a IHa v H s Hr. cbn [eval] in H. unfold bind in H. destruct (eval a) as [x|] eqn:Ea; [|discriminate H].
    apply v_neg_ok in H. destruct H as [A C]. rewrite C. cbn [denote].
    rewrite (IHa x eq_refl s) by (eapply respects_sub; eassumption). reflexivity.
  - intros a IHa v H s Hr. cbn [eval] in H. unfold bind in H. destruct (eval a) as [x|] eqn:Ea; [|discriminate H].
    apply v_pos_ok in H. destruct H as [A C]. rewrite C. cbn [denote].
    rewrite (IHa x eq_refl s) by (eapply respects_sub; eassumption). reflexivity.
  - intros a n IHa v H s Hr. cbn [eval] in H. unfold bind in H. destruct (eval a) as [x|] eqn:Ea; [|discriminate H].
    apply v_pow_ok in H. destruct H as [A C]. rewrite C by exact Hr. cbn [denote].
    rewrite (IHa x eq_refl s) by (eapply respects_sub; eassumption). reflexivity.
  - intros l F v H s Hr. cbn [eval] in H. unfold bind in H.
    destruct (mapM eval l) as [vs|] eqn:E; [|discriminate H]. cbn [denote].
    destruct vs as [|a rest]; cbn [v_quicksum] in H.
    + inversion H; subst. destruct l as [|x xs]; [cbn [map qsum val_energy qm_zero m_poly]; apply energy_pzero|].
      cbn [mapM] in E. unfold bind in E. destruct (eval x); [|discriminate E].
      fold (mapM eval xs) in E. destruct (mapM eval xs); discriminate E.
    + destruct (fold_add_ok _ _ _ H) as [A [B C]]. rewrite C by exact Hr.
      rewrite <- (mapM_eval_ok l F (a :: rest) E (val_tab v) s (@Forall_cons val (fun x => sub_vt (val_tab x) (val_tab v)) a rest A B) Hr).
      cbn [map qsum]. reflexivity.
Qed.

(* ---------- promotion keeps variable information ---------- *)
Lemma to_qm_same m : m_tab (to_qm m) = m_tab m /\ m_poly (to_qm m) = m_poly m /\ m_cls (to_qm m) = CQm.
Proof. repeat split. Qed.

Lemma addsub_preserves_varinfo f m1 m2 m :
  m_addsub f m1 m2 = Ok m -> sub_tab (m_tab m1) (m_tab m) /\ sub_tab (m_tab m2) (m_tab m).
Proof. intros H. apply m_addsub_ok in H. destruct H as [A [B _]]. auto. Qed.

Lemma mul_preserves_varinfo m1 m2 m :
  m_mul m1 m2 = Ok m -> keeps_info (m_tab m1) (m_tab m) /\ keeps_info (m_tab m2) (m_tab m).
Proof. intros H. apply m_mul_ok in H. destruct H as [A [B _]]. auto. Qed.

(* the result has no variables beyond those of its operands *)
Lemma merge_only ek a b t l i :
  merge ek a b = Ok t -> lookup t l = Some i -> lookup a l = Some i \/ lookup b l = Some i.
Proof.
  revert a. induction b as [|[l0 i0] b IH]; intros a H E; cbn [merge] in H.
  - inversion H; subst. auto.
  - cbn [lookup]. destruct (lookup a l0) as [i'|] eqn:E0.
    + destruct (ek i' i0); [discriminate|]. destruct (IH _ H E) as [K|K]; [auto|].
      destruct (Nat.eqb_spec l0 l) as [->|]; [|auto].
      left. (* l is already in a: the merged table keeps a's entry *)
      pose proof (merge_left _ _ _ _ H l i' E0) as K'. congruence.
    + destruct (IH _ H E) as [K|K].
      * destruct (lookup a l) as [j|] eqn:Ea.
        -- rewrite (lookup_app_some _ _ _ _ Ea) in K. auto.
        -- rewrite lookup_app_none in K by exact Ea. cbn [lookup] in K.
           destruct (l0 =? l)%nat; [auto|discriminate].
      * destruct (Nat.eqb_spec l0 l) as [->|]; [|auto].
        pose proof (merge_left _ _ _ _ H l i0) as K'.
        rewrite lookup_app_none in K' by exact E0. cbn [lookup] in K'. rewrite Nat.eqb_refl in K'.
        specialize (K' eq_refl). right. congruence.
Qed.

(* ---------- clashes are rejected ---------- *)
Definition clash (x y : vinfo) : Prop :=
  vi_vt x <> vi_vt y \/
  (vi_vt x = vi_vt y /\ (vi_vt x = INTEGER \/ vi_vt x = REAL) /\ (vi_lb x <> vi_lb y \/ vi_ub x <> vi_ub y)).

Lemma clash_sym x y : clash x y -> clash y x.
Proof.
  intros [H|[H1 [H2 H3]]]; [left; congruence|]. right. rewrite <- H1.
  split; [auto|]. split; [exact H2|]. destruct H3; [left|right]; congruence.
Qed.

Lemma clash_neq x y : clash x y -> x <> y.
Proof. intros [H|[_ [_ [H|H]]]] E; subst; contradiction. Qed.

Lemma vartype_eqb_refl a : vartype_eqb a a = true.
Proof. destruct a; reflexivity. Qed.

Lemma upd_err_clash x y : x <> y -> upd_err x y = Some EValueError.
Proof.
  intros H. unfold upd_err. destruct (vinfo_eqb x y) eqn:E; [|reflexivity].
  apply vinfo_eqb_eq in E. contradiction.
Qed.

Lemma mul_err_clash x y : clash x y -> exists e, mul_err x y = Some e.
Proof.
  unfold mul_err. intros [H|[H1 [H2 H3]]].
  - destruct (vartype_eqb (vi_vt x) (vi_vt y)) eqn:E; [apply vartype_eqb_eq in E; contradiction|].
    cbn [negb]. eauto.
  - rewrite H1, vartype_eqb_refl. cbn [negb]. rewrite <- H1.
    assert (B : Qc_eqb (vi_lb x) (vi_lb y) && Qc_eqb (vi_ub x) (vi_ub y) = false).
    { destruct H3 as [H3|H3].
      - destruct (Qc_eqb (vi_lb x) (vi_lb y)) eqn:E; [apply Qc_eqb_eq in E; contradiction|reflexivity].
      - destruct (Qc_eqb (vi_ub x) (vi_ub y)) eqn:E; [apply Qc_eqb_eq in E; contradiction|apply andb_false_r]. }
    destruct H2 as [-> | ->]; rewrite B; eauto.
Qed.

Lemma addsub_err_kind f m1 m2 e : m_addsub f m1 m2 = Err e -> e = EValueError.
Proof.
  unfold m_addsub. destruct (merge upd_err (m_tab m1) (m_tab m2)) as [t|e'] eqn:E; [discriminate|].
  intros H; inversion H; subst. eapply (merge_err_kind upd_err (fun e => e = EValueError)); [|exact E].
  intros x y e0. unfold upd_err. destruct (vinfo_eqb x y); [discriminate|]. congruence.
Qed.

Lemma addsub_conflict_rejected f m1 m2 l i1 i2 :
  lookup (m_tab m1) l = Some i1 -> lookup (m_tab m2) l = Some i2 -> i1 <> i2 ->
  m_addsub f m1 m2 = Err EValueError.
Proof.
  intros H1 H2 Hne. destruct (merge_conflict upd_err _ _ l i1 i2 EValueError H1 H2 (upd_err_clash _ _ Hne)) as [e E].
  destruct (m_addsub f m1 m2) as [m|e'] eqn:K.
  - unfold m_addsub in K. rewrite E in K. discriminate K.
  - apply addsub_err_kind in K. congruence.
Qed.

Lemma mul_conflict_rejected m1 m2 l i1 i2 :
  lookup (m_tab m1) l = Some i1 -> lookup (m_tab m2) l = Some i2 -> clash i1 i2 ->
  exists e, m_mul m1 m2 = Err e.
Proof.
  intros H1 H2 Hc. unfold m_mul. destruct (negb (is_linear m1 && is_linear m2)); [eauto|].
  destruct (needs_promo m1 m2).
  - destruct (mul_order_cases m1 m2) as [O|O]; rewrite O.
    + destruct (mul_err_clash _ _ Hc) as [e K].
      destruct (merge_conflict mul_err _ _ l i1 i2 e H1 H2 K) as [e' E]. rewrite E. eauto.
    + destruct (mul_err_clash _ _ (clash_sym _ _ Hc)) as [e K].
      destruct (merge_conflict mul_err _ _ l i2 i1 e H2 H1 K) as [e' E]. rewrite E. eauto.
  - destruct (merge_conflict upd_err _ _ l i1 i2 EValueError H1 H2 (upd_err_clash _ _ (clash_neq _ _ Hc))) as [e E].
    rewrite E. eauto.
Qed.

(* ---------- x ** 2 of a linear model ---------- *)
Lemma pow2_linear_energy m m' s :
  m_pow m 2 = Ok m' -> respects (tvt (m_tab m')) s ->
  energy (m_poly m') s = energy (m_poly m) s * energy (m_poly m) s.
Proof. intros H Hr. apply m_pow_ok in H. destruct H as [_ [_ C]]. apply C. exact Hr. Qed.

Lemma pow_only_two m n m' : m_pow m n = Ok m' -> n = 2%nat /\ is_linear m = true.
Proof.
  unfold m_pow. destruct (Nat.eqb_spec n 2) as [->|]; cbn [negb]; [|discriminate].
  destruct (is_linear m); cbn [negb]; [auto|discriminate].
Qed.

(* products never exceed degree two: a non-linear factor is a TypeError *)
Lemma mul_nonlinear_rejected m1 m2 :
  is_linear m1 = false \/ is_linear m2 = false -> m_mul m1 m2 = Err ETypeError.
Proof.
  intros H. unfold m_mul. destruct H as [-> | ->]; [reflexivity|]. rewrite andb_false_r. reflexivity.
Qed.

(* division by a model is a TypeError, by zero a ZeroDivisionError *)
Lemma div_by_model_rejected a m : v_div a (VMdl m) = Err ETypeError /\ v_div a (VView m) = Err ETypeError.
Proof. split; reflexivity. Qed.

