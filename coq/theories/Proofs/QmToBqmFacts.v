(* C16: the code-shaped _qm_to_bqm and CQMToBQMInverter.__call__ *)
From Coq Require Import List ZArith QArith Qcanon Bool Arith Lia.
From Dimod Require Import Base.Util Model.Poly Model.Comb Model.Penalty Model.CqmBqm
  Proofs.PolyFacts Proofs.CombFacts Proofs.PenaltyEq Proofs.PenaltySlack Proofs.CqmBqmFacts.
Import ListNotations.
Local Open Scope Qc_scope.

Lemma energy_int_bqm bits s : energy (int_bqm bits) s = lin_energy bits s.
Proof. unfold int_bqm, energy. cbn [p_off p_lin p_quad]. unfold quad_energy. cbn [map qsum]. ring. Qed.

Lemma energy_enc_binary v s : energy (enc_binary v) s = s v.
Proof. unfold enc_binary, energy, lin_energy, quad_energy, lterm_val. cbn [p_off p_lin p_quad map qsum fst snd]. ring. Qed.

Lemma energy_enc_spin v s : energy (enc_spin v) s = two * s v + - (1).
Proof. unfold enc_spin, energy, lin_energy, quad_energy, lterm_val. cbn [p_off p_lin p_quad map qsum fst snd]. ring. Qed.

Lemma energy_qm_lin_step ints acc t s :
  energy (qm_lin_step ints acc t) s = energy acc s + snd t * dec_int ints s (fst t).
Proof.
  unfold qm_lin_step, dec_int. destruct (find_int ints (fst t)) as [bits|].
  - rewrite energy_padd, energy_scale, energy_int_bqm. reflexivity.
  - rewrite energy_add_linear. reflexivity.
Qed.

Lemma energy_fold_lin ints l : forall acc s,
  energy (fold_left (qm_lin_step ints) l acc) s = energy acc s + lin_energy l (dec_int ints s).
Proof.
  induction l as [|t r IH]; intros acc s; cbn [fold_left].
  - rewrite lin_energy_nil. ring.
  - rewrite IH, energy_qm_lin_step, lin_energy_cons. ring.
Qed.

Lemma energy_qm_quad_step ints acc t s :
  respects (cvt BINARY) s ->
  energy (qm_quad_step ints acc t) s
  = energy acc s + snd t * dec_int ints s (fst (fst t)) * dec_int ints s (snd (fst t)).
Proof.
  intros Hr. unfold qm_quad_step, dec_int.
  destruct (find_int ints (fst (fst t))) as [bu|]; destruct (find_int ints (snd (fst t))) as [bv|].
  - rewrite energy_padd, energy_scale, pmul_linear_energy by (try reflexivity; exact Hr).
    rewrite !energy_int_bqm. ring.
  - rewrite energy_padd, energy_scale, pmul_linear_energy by (try reflexivity; exact Hr).
    rewrite energy_int_bqm, energy_enc_binary. ring.
  - rewrite energy_padd, energy_scale, pmul_linear_energy by (try reflexivity; exact Hr).
    rewrite energy_int_bqm, energy_enc_binary. ring.
  - rewrite energy_add_quadratic by exact Hr. reflexivity.
Qed.

Lemma energy_fold_quad ints (l : list qterm) : forall acc s,
  respects (cvt BINARY) s ->
  energy (fold_left (qm_quad_step ints) l acc) s = energy acc s + quad_energy l (dec_int ints s).
Proof.
  induction l as [|t r IH]; intros acc s Hr; cbn [fold_left].
  - unfold quad_energy. cbn [map qsum]. ring.
  - rewrite IH by exact Hr. rewrite energy_qm_quad_step by exact Hr. rewrite quad_energy_cons. ring.
Qed.

(* the BQM _qm_to_bqm builds evaluates, on every 0/1 sample, to the QM at the decoded sample *)
Theorem qm_to_bqm_code_energy spins ints p s :
  respects (cvt BINARY) s -> NoDup spins ->
  energy (qm_to_bqm_code spins ints p) s = energy p (decode spins ints s).
Proof.
  intros Hr Hnd. unfold qm_to_bqm_code.
  rewrite energy_add_offset, energy_fold_quad, energy_fold_lin by exact Hr.
  rewrite energy_pzero.
  transitivity (energy (substitute_many spins two (- (1)) p) (dec_int ints s)).
  - unfold energy. ring.
  - rewrite substitute_many_energy by exact Hnd. reflexivity.
Qed.

(* decode is the inverter of the functional model built from the same tables *)
Lemma decode_is_invert spins ints s v :
  (forall w, existsb (Nat.eqb w) spins = true -> find_int ints w = None) ->
  decode spins ints s v = invert (enc_table spins ints) s v.
Proof.
  intros Hd. unfold decode, invert, enc_table, dec_int.
  destruct (find_int ints v) as [bits|] eqn:Ef.
  - destruct (existsb (Nat.eqb v) spins) eqn:Es; [rewrite (Hd v Es) in Ef; discriminate Ef|].
    unfold enc_integer. fold (int_bqm bits). rewrite energy_int_bqm. reflexivity.
  - destruct (existsb (Nat.eqb v) spins); [rewrite energy_enc_spin|rewrite energy_enc_binary]; reflexivity.
Qed.

Theorem qm_to_bqm_code_agrees spins ints p s :
  respects (cvt BINARY) s -> NoDup spins ->
  (forall w, existsb (Nat.eqb w) spins = true -> find_int ints w = None) ->
  energy (qm_to_bqm_code spins ints p) s = energy (encode_poly (enc_table spins ints) p) s.
Proof.
  intros Hr Hnd Hd. rewrite qm_to_bqm_code_energy by assumption.
  rewrite encode_poly_energy; [|exact Hr|].
  - apply energy_ext. intros w. apply decode_is_invert. exact Hd.
  - intros v. unfold enc_table. destruct (find_int ints v); [reflexivity|]. destruct (existsb (Nat.eqb v) spins); reflexivity.
Qed.

(* ---------- the inverter ---------- *)

Lemma inverter_accumulate s bits : forall acc,
  fold_left (fun a t => a + s (fst t) * snd t) bits acc = acc + lin_energy bits s.
Proof.
  induction bits as [|t r IH]; intros acc; cbn [fold_left].
  - rewrite lin_energy_nil. ring.
  - rewrite IH, lin_energy_cons. ring.
Qed.

Theorem inverter_call_entries binary ints s v x :
  In (v, x) (inverter_call binary ints s) ->
  (exists vt, In (v, vt) binary /\ x = match vt with SPIN => two * s v - 1 | _ => s v end) \/
  (exists bits, In (v, bits) ints /\ x = lin_energy bits s).
Proof.
  unfold inverter_call. intros H. apply in_app_or in H. destruct H as [H|H]; apply in_map_iff in H.
  - destruct H as [[w vt] [He Hin]]. cbn [fst snd] in He. inversion He; subst. left. exists vt. split; [exact Hin|reflexivity].
  - destruct H as [[w bits] [He Hin]]. cbn [fst snd] in He. inversion He; subst. right. exists bits. split; [exact Hin|].
    rewrite inverter_accumulate. ring.
Qed.

(* decode(encode-consistent sample) = original, per kind of variable *)
Theorem inverter_recovers_integer (ub x : Z) (bits : list lterm) (s : sample) :
  (2 <= ub)%Z -> (0 <= x <= ub)%Z -> binary01 s ->
  map snd bits = map zq (binary_encoding_coeffs ub) ->
  bits_of s (map fst bits) = slack_bits ub x ->
  fold_left (fun a t => a + s (fst t) * snd t) bits 0 = zq x.
Proof.
  intros Hub Hx Hb Hc Hs. rewrite inverter_accumulate.
  assert (Hbits : bits = map (fun t => (fst t, zq (snd t))) (combine (map fst bits) (binary_encoding_coeffs ub))).
  { clear Hs. revert Hc. generalize (binary_encoding_coeffs ub). induction bits as [|[l c] r IH]; intros cs Hc.
    - reflexivity.
    - destruct cs as [|z cs]; [discriminate Hc|]. cbn [map fst snd combine] in *. inversion Hc; subst.
      f_equal. apply IH. assumption. }
  rewrite Hbits. rewrite lin_energy_bits by exact Hb.
  assert (Hlen : length (map fst bits) = length (binary_encoding_coeffs ub)).
  { rewrite map_length. rewrite <- (map_length snd bits), Hc, map_length. reflexivity. }
  assert (H1 : map snd (combine (map fst bits) (binary_encoding_coeffs ub)) = binary_encoding_coeffs ub).
  { revert Hlen. generalize (map fst bits) (binary_encoding_coeffs ub). induction l as [|a l IH]; intros [|z cs] Hl; cbn in *; try reflexivity; try discriminate.
    f_equal. apply IH. lia. }
  assert (H2 : map fst (combine (map fst bits) (binary_encoding_coeffs ub)) = map fst bits).
  { revert Hlen. generalize (map fst bits) (binary_encoding_coeffs ub). induction l as [|a l IH]; intros [|z cs] Hl; cbn in *; try reflexivity; try discriminate.
    f_equal. apply IH. lia. }
  rewrite H1, H2, Hs. rewrite Z.add_0_l || idtac. rewrite Qcplus_0_l. f_equal.
  rewrite binary_encoding_coeffs_eq. apply slack_bits_dot; lia.
Qed.

Theorem inverter_recovers_spin (x : Qc) (s : sample) (v : label) :
  s v = (x + 1) * half -> two * s v - 1 = x.
Proof. intros H. rewrite H. unfold half. field. unfold two. intro X. apply (f_equal this) in X. vm_compute in X. discriminate X. Qed.
