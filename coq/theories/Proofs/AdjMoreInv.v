(* Invariant preservation for the operations of Model/AdjMore.v:
   substitute_variables, COO construction, change_vartype (BQM and QM),
   remove_interactions with a symmetric filter, bulk remove_variables
   (= iterated remove_variable), add_quadratic_from_dense (both branches). *)
From Coq Require Import List ZArith QArith Qcanon Bool Arith Lia Sorted.
From Dimod Require Import Base.Util Model.Poly Model.Adj Model.AdjMore Proofs.AdjFacts Proofs.AdjMoreFacts.
Import ListNotations.
Local Open Scope nat_scope.

(* ---------- shapes ---------- *)
Lemma nvars_add_quadratic u v b m : nvars (add_quadratic u v b m) = nvars m.
Proof.
  unfold add_quadratic, nvars. destruct (u =? v); [|reflexivity].
  destruct (vt_at m u); cbn [add_linear Adj.add_offset lin]; try reflexivity. apply upd_nth_length.
Qed.

Lemma vts_add_quadratic u v b m : vts (add_quadratic u v b m) = vts m.
Proof.
  unfold add_quadratic. destruct (u =? v); [|reflexivity]. destruct (vt_at m u); reflexivity.
Qed.

Lemma subst_shape v k c m :
  nvars (substitute_variable v k c m) = nvars m /\ vts (substitute_variable v k c m) = vts m.
Proof.
  unfold substitute_variable. set (m0 := mkQM _ _ _ _).
  assert (H0 : nvars m0 = nvars m /\ vts m0 = vts m).
  { split; [unfold nvars, m0; cbn [lin]; apply upd_nth_length|reflexivity]. }
  clearbody m0. revert m0 H0. generalize (nb m v) as l.
  induction l as [|[w b] l IH]; intros m0 H0; cbn [fold_left]; [exact H0|].
  apply IH. destruct H0 as [N0 V0]. destruct (w =? v); split; cbn [vts]; try exact V0;
    unfold nvars in *; cbn [lin]; rewrite upd_nth_length; exact N0.
Qed.

(* ---------- substitute_variables ---------- *)
Lemma subst_all_adj k (a : list nbh) :
  map (map (fun e : nat * Qc => (fst e, (snd e * k)%Qc))) a = map (nb_scale k) a.
Proof.
  apply map_ext. intros n. unfold nb_scale. apply map_ext. intros e. f_equal. apply Qcmult_comm.
Qed.

Lemma substitute_variables_shape k c m :
  length (adj m) = nvars m ->
  nvars (substitute_variables k c m) = nvars m /\ vts (substitute_variables k c m) = vts m
  /\ adj (substitute_variables k c m) = map (nb_scale (k * k)%Qc) (adj m).
Proof.
  intros Ha. unfold substitute_variables, nvars in *. cbn [lin vts adj]. split; [|split; [reflexivity|]].
  - rewrite map_length, combine_length, app_length, repeat_length. lia.
  - apply subst_all_adj.
Qed.

Theorem Inv_substitute_variables k c m : Inv m -> Inv (substitute_variables k c m).
Proof.
  rewrite !Inv_InvG. intros [Hv HA].
  destruct (substitute_variables_shape k c m) as [Hn [Hvt Had]]; [apply HA|].
  split.
  - rewrite Hvt, Hn. exact Hv.
  - rewrite Hn, Had. unfold vt_at. rewrite Hvt. apply AdjOK_scale. exact HA.
Qed.

(* ---------- COO construction ---------- *)
Definition coo_in_range (n : nat) (l : list (nat * nat * Qc)) : Prop :=
  Forall (fun t => fst (fst t) < n /\ snd (fst t) < n) l.

Lemma Inv_add_quadratic_coo l : forall m,
  Inv m -> coo_in_range (nvars m) l ->
  Inv (add_quadratic_coo l m) /\ nvars (add_quadratic_coo l m) = nvars m
  /\ vts (add_quadratic_coo l m) = vts m.
Proof.
  unfold add_quadratic_coo, coo_in_range.
  induction l as [|[[u v] b] l IH]; intros m HI Hr; cbn [fold_left]; [auto|].
  inversion Hr as [|? ? [Hu Hv] Hr']; subst. cbn [fst snd] in *.
  destruct (IH (add_quadratic u v b m)) as [I [N V]].
  - apply Inv_add_quadratic; assumption.
  - rewrite nvars_add_quadratic. exact Hr'.
  - split; [exact I|]. split; [rewrite N; apply nvars_add_quadratic|rewrite V; apply vts_add_quadratic].
Qed.

Theorem Inv_add_quadratic_coo_qm l m :
  Inv m -> coo_in_range (nvars m) l -> Inv (add_quadratic_coo l m).
Proof. intros HI Hr. apply Inv_add_quadratic_coo; assumption. Qed.

Lemma nvars_resize t k m : nvars (resize t k m) = k.
Proof.
  unfold resize, nvars. destruct (Nat.ltb_spec k (length (lin m))) as [L|L]; cbn [lin].
  - rewrite firstn_length. lia.
  - rewrite app_length, repeat_length. lia.
Qed.

Lemma coo_max_bound l : coo_in_range (S (coo_max l)) l.
Proof.
  unfold coo_in_range, coo_max. induction l as [|t l IH]; [constructor|].
  cbn [map fold_right]. constructor; [lia|].
  eapply Forall_impl; [|exact IH]. cbn beta. intros a [H1 H2]. lia.
Qed.

Lemma coo_in_range_mono n n' l : n <= n' -> coo_in_range n l -> coo_in_range n' l.
Proof. intros Hn. apply Forall_impl. intros a [H1 H2]. lia. Qed.

(* BinaryQuadraticModel::add_quadratic(row, col, bias, length): NO precondition on the indices *)
Theorem Inv_add_quadratic_coo_bqm t l m : Inv m -> Inv (add_quadratic_coo_bqm t l m).
Proof.
  intros HI. unfold add_quadratic_coo_bqm. destruct l as [|t0 l0]; [exact HI|].
  set (l := t0 :: l0). destruct (Nat.leb_spec (nvars m) (coo_max l)) as [L|L].
  - apply Inv_add_quadratic_coo; [apply Inv_resize, HI|]. rewrite nvars_resize. apply coo_max_bound.
  - apply Inv_add_quadratic_coo; [exact HI|].
    apply (coo_in_range_mono (S (coo_max l))); [lia|apply coo_max_bound].
Qed.

(* ---------- change_vartype ---------- *)
Definition all_binspin (m : qm) : Prop := forall u, is_binspin (vt_at m u) = true.

Lemma all_binspin_of_Forall m :
  Forall (fun t => is_binspin t = true) (vts m) -> all_binspin m.
Proof.
  intros H u. unfold vt_at. destruct (Nat.lt_ge_cases u (length (vts m))) as [L|L].
  - rewrite Forall_forall in H. apply H. apply nth_In. exact L.
  - rewrite nth_overflow by exact L. reflexivity.
Qed.

(* relabelling every variable of a model without self-loops *)
Lemma InvG_retype m (ts : list vartype) :
  InvG m -> all_binspin m -> length ts = length (vts m) ->
  InvG (mkQM (lin m) (adj m) (off m) ts).
Proof.
  intros [Hv [H1 [H2 [H3 [H4 H5]]]]] Hb Hl. split; [cbn [vts]; unfold nvars in *; cbn [lin]; lia|].
  unfold nvars. cbn [lin adj]. repeat split; try assumption.
  intros u _. apply H5, Hb.
Qed.

Theorem Inv_bqm_change_vartype cur target m :
  Inv m -> all_binspin m -> Inv (fst (fst (bqm_change_vartype cur target m))).
Proof.
  intros HI Hb. unfold bqm_change_vartype. destruct (vartype_eqb cur target); [exact HI|].
  assert (HS : InvG (substitute_variables half half m) /\ InvG (substitute_variables two (- (1))%Qc m)).
  { split; apply Inv_InvG, Inv_substitute_variables, HI. }
  assert (HB : forall k c, all_binspin (substitute_variables k c m)).
  { intros k c u. unfold vt_at. cbn [substitute_variables vts]. apply Hb. }
  destruct target; cbn [fst]; try exact HI; apply Inv_InvG.
  - apply (InvG_retype (substitute_variables two (- (1))%Qc m)); [apply HS|apply HB|apply map_length].
  - apply (InvG_retype (substitute_variables half half m)); [apply HS|apply HB|apply map_length].
Qed.

Lemma nth_const_binspin (T : vartype) (l : list vartype) u :
  is_binspin T = true -> is_binspin (nth u (map (fun _ => T) l) BINARY) = true.
Proof.
  intros HT. revert u. induction l as [|x l IH]; intros [|u]; cbn [map nth]; auto.
Qed.

Lemma bqm_change_vartype_binspin cur target m :
  all_binspin m -> all_binspin (fst (fst (bqm_change_vartype cur target m))).
Proof.
  intros Hb. unfold bqm_change_vartype. destruct (vartype_eqb cur target); [exact Hb|].
  destruct target; cbn [fst]; try exact Hb; intros u; unfold vt_at; cbn [vts];
    apply nth_const_binspin; reflexivity.
Qed.

Lemma InvG_set_vt v t m :
  InvG m -> (is_binspin t = true -> nb_get v (nth v (adj m) []) = None) -> InvG (set_vt v t m).
Proof.
  intros [Hv [H1 [H2 [H3 [H4 H5]]]]] Hself. unfold set_vt. split.
  - cbn [vts]. unfold nvars in *. cbn [lin]. rewrite upd_nth_length. exact Hv.
  - unfold nvars, vt_at. cbn [lin adj vts]. repeat split; try assumption.
    intros u Hb. destruct (Nat.eq_dec u v) as [->|Hne].
    + destruct (Nat.lt_ge_cases v (length (vts m))) as [L|L].
      * rewrite nth_upd_nth_same in Hb by exact L. apply Hself, Hb.
      * rewrite upd_nth_oob in Hb by exact L. apply H5. exact Hb.
    + rewrite nth_upd_nth_other in Hb by exact Hne. apply H5. exact Hb.
Qed.

Theorem Inv_qm_change_vartype t v m b :
  Inv m -> v < nvars m -> Inv (fst (fst (qm_change_vartype t v m b))).
Proof.
  intros HI Hv. unfold qm_change_vartype. destruct (vartype_eqb (vt_at m v) t); [exact HI|].
  assert (HS : forall k c, InvG (substitute_variable v k c m) /\
                           (is_binspin (vt_at m v) = true ->
                            nb_get v (nth v (adj (substitute_variable v k c m)) []) = None)).
  { intros k c. assert (I : InvG (substitute_variable v k c m)).
    { apply Inv_InvG, Inv_substitute_variable; assumption. }
    split; [exact I|]. intros Hb. destruct I as [_ [_ [_ [_ [_ H5]]]]]. apply H5.
    unfold vt_at. rewrite (proj2 (subst_shape v k c m)). exact Hb. }
  destruct (vt_at m v) eqn:Es; destruct t; cbn [fst]; try exact HI; apply Inv_InvG.
  - apply InvG_set_vt; [apply HS|]. intros _. apply HS. reflexivity.
  - apply InvG_set_vt; [apply Inv_InvG, HI|]. discriminate.
  - apply InvG_set_vt; [apply HS|]. intros _. apply HS. reflexivity.
  - apply InvG_set_vt; [apply HS|]. discriminate.
Qed.

(* ---------- remove_interactions(filter) ---------- *)
Definition nb_filter (p : nat -> Qc -> bool) (n : nbh) : nbh := filter (fun e => p (fst e) (snd e)) n.

Lemma nb_filter_sorted p n : ksorted n -> ksorted (nb_filter p n).
Proof.
  intros Hs. unfold nb_filter.
  replace (filter (fun e => p (fst e) (snd e)) n)
    with (map (fun e : nat * Qc => (id (fst e), snd e)) (filter (fun e => p (fst e) (snd e)) n)).
  - apply map_filter_sorted; [exact Hs|]. intros; assumption.
  - rewrite <- (map_id (filter _ n)) at 2. apply map_ext. intros [w b]. reflexivity.
Qed.

Lemma nb_get_filter p y n :
  ksorted n ->
  nb_get y (nb_filter p n) = match nb_get y n with Some b => if p y b then Some b else None | None => None end.
Proof.
  intros Hs. pose proof (nb_filter_sorted p n Hs) as Hf.
  destruct (nb_get y n) as [b|] eqn:E.
  - destruct (p y b) eqn:Ep.
    + apply nb_get_In_2; [exact Hf|]. apply filter_In. split; [apply nb_get_In_1, E|exact Ep].
    + destruct (nb_get y (nb_filter p n)) as [c|] eqn:E2; [|reflexivity].
      apply nb_get_In_1, filter_In in E2. destruct E2 as [Hin Hp]. cbn [fst snd] in Hp.
      apply nb_get_In_2 in Hin; [|exact Hs]. congruence.
  - destruct (nb_get y (nb_filter p n)) as [c|] eqn:E2; [|reflexivity].
    apply nb_get_In_1, filter_In in E2. destruct E2 as [Hin _].
    apply nb_get_In_2 in Hin; [|exact Hs]. congruence.
Qed.

Lemma nth_rows {B} (F : nat -> nbh -> B) (a : list nbh) (d : B) x :
  x < length a ->
  nth x (map (fun r => F (fst r) (snd r)) (combine (seq 0 (length a)) a)) d = F x (nth x a []).
Proof.
  intros Hx.
  assert (G : forall s (l : list nbh) y, y < length l ->
            nth y (map (fun r => F (fst r) (snd r)) (combine (seq s (length l)) l)) d = F (s + y) (nth y l [])).
  { intros s l. revert s. induction l as [|n l IH]; intros s y Hy; [cbn in Hy; lia|].
    cbn [length seq combine map]. destruct y as [|y]; cbn [nth fst snd].
    - rewrite Nat.add_0_r. reflexivity.
    - rewrite IH by (cbn in Hy; lia). f_equal. lia. }
  apply (G 0 a x Hx).
Qed.

Definition sym_filter (f : nat -> nat -> Qc -> bool) : Prop := forall u v b, f u v b = f v u b.

Lemma remove_interactions_adj f m x :
  nth x (adj (fst (remove_interactions f m))) []
  = nb_filter (fun w b => negb (f x w b)) (nth x (adj m) []).
Proof.
  unfold remove_interactions. cbn [fst adj].
  destruct (Nat.lt_ge_cases x (length (adj m))) as [L|L].
  - rewrite (nth_rows (fun u n => filter (fun e => negb (f u (fst e) (snd e))) n)) by exact L. reflexivity.
  - rewrite !nth_overflow; [reflexivity|exact L|].
    rewrite map_length, combine_length, seq_length. lia.
Qed.

Theorem Inv_remove_interactions f m :
  sym_filter f -> Inv m -> Inv (fst (remove_interactions f m)).
Proof.
  intros Hsym. rewrite !Inv_InvG. intros [Hv [H1 [H2 [H3 [H4 H5]]]]].
  split; [exact Hv|]. change (nvars (fst (remove_interactions f m))) with (nvars m).
  change (vt_at (fst (remove_interactions f m))) with (vt_at m).
  split; [|split; [|split; [|split]]].
  - unfold remove_interactions. cbn [fst adj]. rewrite map_length, combine_length, seq_length. lia.
  - intros u. rewrite remove_interactions_adj. apply nb_filter_sorted, H2.
  - intros u w b. rewrite remove_interactions_adj, nb_get_filter by apply H2.
    destruct (nb_get w (nth u (adj m) [])) as [c|] eqn:E; [|discriminate]. intros _. eapply H3, E.
  - intros u w b. rewrite !remove_interactions_adj, !nb_get_filter by apply H2.
    destruct (nb_get w (nth u (adj m) [])) as [c|] eqn:E; [|discriminate].
    rewrite (H4 _ _ _ E), (Hsym w u c). tauto.
  - intros u Hb. rewrite remove_interactions_adj, nb_get_filter by apply H2.
    rewrite (H5 u Hb). reflexivity.
Qed.

(* ---------- bulk remove_variables = iterated remove_variable ---------- *)
Definition rv_body (vs : list nat) (m : qm) : qm :=
  mkQM (remove_by_index 0 (lin m) vs)
       (map (nb_reindex (reindex_tbl 0 0 (length (adj m)) vs)) (remove_by_index 0 (adj m) vs))
       (off m)
       (remove_by_index 0 (vts m) vs).

Lemma tbl_nil_nth n : forall loc l k,
  nth k (reindex_tbl loc l n []) None = if k <? n then Some (l + k) else None.
Proof.
  induction n as [|n IH]; intros loc l k; cbn [reindex_tbl existsb].
  - destruct k; reflexivity.
  - destruct k as [|k]; cbn [nth].
    + change (0 <? S n) with true. cbn iota. f_equal. lia.
    + rewrite IH. change (S k <? S n) with (k <? n). destruct (k <? n); [f_equal; lia|reflexivity].
Qed.

Lemma nb_reindex_id N (n : nbh) :
  (forall e, In e n -> fst e < N) -> nb_reindex (reindex_tbl 0 0 N []) n = n.
Proof.
  unfold nb_reindex. induction n as [|[w b] r IH]; intros H; [reflexivity|].
  cbn [flat_map fst snd]. rewrite tbl_nil_nth.
  pose proof (H (w, b) (or_introl eq_refl)) as Hw. cbn [fst] in Hw.
  destruct (Nat.ltb_spec w N) as [L|L]; [|lia]. cbn [app]. f_equal. apply IH.
  intros e He. apply H. right. exact He.
Qed.

Lemma rv_body_nil m : InvG m -> rv_body [] m = m.
Proof.
  intros [_ [H1 [H2 [H3 _]]]]. unfold rv_body. rewrite !remove_by_index_nil.
  destruct m as [l a o t]. cbn [lin adj off vts] in *. f_equal.
  transitivity (map (fun x : nbh => x) a); [|apply map_id]. apply map_ext_in. intros n Hn.
  apply nb_reindex_id. intros [w b] He. cbn [fst].
  apply In_nth with (d := []) in Hn. destruct Hn as [u [Hu <-]].
  unfold nvars in H3. cbn [lin] in H3. rewrite H1. eapply (H3 u w b).
  apply nb_get_In_2; [apply H2|exact He].
Qed.

Lemma remove_variables_sorted_body vs m : InvG m -> remove_variables_sorted vs m = rv_body vs m.
Proof.
  intros HI. destruct vs as [|v vs]; [symmetry; apply rv_body_nil, HI|reflexivity].
Qed.

(* entry-wise relation between the table for v :: vs and the table for vs (v below all of vs) *)
Definition tbl_rel (v : nat) (a b : option nat) : Prop :=
  match b with
  | None => a = None
  | Some j => if j =? v then a = None else a = Some (shift_key v j)
  end.

Lemma existsb_cons_ne loc v vs :
  loc <> v -> existsb (Nat.eqb loc) (v :: vs) = existsb (Nat.eqb loc) vs.
Proof. intros H. cbn [existsb]. destruct (Nat.eqb_spec loc v); [contradiction|reflexivity]. Qed.

Lemma tbl_rel_after v vs n : forall loc l k,
  v < loc -> v <= l ->
  tbl_rel v (nth k (reindex_tbl loc l n (v :: vs)) None) (nth k (reindex_tbl loc (S l) n vs) None).
Proof.
  induction n as [|n IH]; intros loc l k Hloc Hl; cbn [reindex_tbl].
  - destruct k; exact eq_refl.
  - rewrite existsb_cons_ne by lia. destruct (existsb (Nat.eqb loc) vs).
    + destruct k as [|k]; cbn [nth]; [exact eq_refl|]. apply IH; lia.
    + destruct k as [|k]; cbn [nth].
      * unfold tbl_rel. destruct (Nat.eqb_spec (S l) v); [lia|]. unfold shift_key.
        destruct (Nat.ltb_spec v (S l)); [f_equal; lia|lia].
      * apply IH; lia.
Qed.

Lemma tbl_rel_before v vs n : forall loc k,
  Forall (fun w => v < w) vs -> loc <= v ->
  tbl_rel v (nth k (reindex_tbl loc loc n (v :: vs)) None) (nth k (reindex_tbl loc loc n vs) None).
Proof.
  intros loc k Hall. revert loc k. induction n as [|n IH]; intros loc k Hloc; cbn [reindex_tbl].
  - destruct k; exact eq_refl.
  - assert (Hno : existsb (Nat.eqb loc) vs = false).
    { destruct (existsb (Nat.eqb loc) vs) eqn:E; [|reflexivity].
      apply existsb_exists in E. destruct E as [w [Hw Ew]]. apply Nat.eqb_eq in Ew. subst w.
      rewrite Forall_forall in Hall. specialize (Hall loc Hw). lia. }
    destruct (Nat.eq_dec loc v) as [->|Hne].
    + cbn [existsb]. rewrite Nat.eqb_refl. cbn [orb]. rewrite Hno.
      destruct k as [|k]; cbn [nth].
      * unfold tbl_rel. rewrite Nat.eqb_refl. reflexivity.
      * apply tbl_rel_after; lia.
    + rewrite existsb_cons_ne by exact Hne. rewrite Hno.
      destruct k as [|k]; cbn [nth].
      * unfold tbl_rel. destruct (Nat.eqb_spec loc v); [contradiction|]. unfold shift_key.
        destruct (Nat.ltb_spec v loc); [lia|reflexivity].
      * apply IH. lia.
Qed.

Lemma nb_reindex_step v T1 T0 (n : nbh) :
  (forall k, tbl_rel v (nth k T1 None) (nth k T0 None)) ->
  nb_reindex T1 n = nb_remove_var_spec v (nb_reindex T0 n).
Proof.
  intros Hrel. unfold nb_reindex, nb_remove_var_spec.
  induction n as [|[w b] r IH]; [reflexivity|]. cbn [flat_map fst snd].
  rewrite filter_app, map_app, <- IH. f_equal.
  specialize (Hrel w). unfold tbl_rel in Hrel.
  destruct (nth w T0 None) as [j|].
  - cbn [filter fst]. destruct (Nat.eqb_spec j v) as [E|E]; rewrite Hrel; reflexivity.
  - rewrite Hrel. reflexivity.
Qed.

Lemma del_nth_map {A B} (f : A -> B) i l : del_nth i (map f l) = map f (del_nth i l).
Proof.
  revert i. induction l as [|x l IH]; intros [|i]; cbn [map del_nth]; try reflexivity. f_equal. apply IH.
Qed.

Lemma del_nth_In {A} i (l : list A) x : In x (del_nth i l) -> In x l.
Proof.
  revert i. induction l as [|y l IH]; intros [|i]; cbn [del_nth]; intros H; try contradiction.
  - right. exact H.
  - destruct H as [H|H]; [left; exact H|right; eapply IH, H].
Qed.

Lemma remove_by_index_In {A} (l : list A) : forall loc idx x, In x (remove_by_index loc l idx) -> In x l.
Proof.
  induction l as [|y l IH]; intros loc idx x H; [contradiction|]. cbn [remove_by_index] in H.
  destruct idx as [|i idx].
  - destruct H as [H|H]; [left; exact H|right; eapply IH, H].
  - destruct (i =? loc); [right; eapply IH, H|].
    destruct H as [H|H]; [left; exact H|right; eapply IH, H].
Qed.

(* the step: the smallest index commutes to the outside as a single remove_variable *)
Lemma rv_body_cons v vs m :
  Forall (fun w => v < w) vs ->
  (forall n, In n (adj (rv_body vs m)) -> ksorted n) ->
  rv_body (v :: vs) m = remove_variable v (rv_body vs m).
Proof.
  intros Hall Hsorted. unfold rv_body, remove_variable in *. cbn [lin adj off vts] in *.
  rewrite !(remove_by_index_cons 0 _ v vs) by (try lia; exact Hall). rewrite Nat.sub_0_r.
  f_equal. rewrite del_nth_map, map_map.
  apply map_ext_in. intros n Hn.
  rewrite (nb_reindex_step v _ (reindex_tbl 0 0 (length (adj m)) vs)).
  - symmetry. apply nb_remove_var_eq. apply Hsorted. apply in_map. eapply del_nth_In, Hn.
  - intros k. apply tbl_rel_before; [exact Hall|lia].
Qed.

Lemma InvG_rows_sorted m n : InvG m -> In n (adj m) -> ksorted n.
Proof.
  intros [_ [_ [H2 _]]] Hn. apply In_nth with (d := []) in Hn. destruct Hn as [u [_ <-]]. apply H2.
Qed.

Lemma nvars_remove_variable v m : v < nvars m -> nvars (remove_variable v m) = nvars m - 1.
Proof. intros H. unfold nvars, remove_variable in *. cbn [lin]. apply del_nth_length, H. Qed.

Theorem remove_variables_sorted_iterated vs : forall m,
  Inv m -> StronglySorted lt vs -> Forall (fun v => v < nvars m) vs ->
  remove_variables_sorted vs m = fold_right remove_variable m vs
  /\ Inv (remove_variables_sorted vs m)
  /\ nvars (remove_variables_sorted vs m) = nvars m - length vs.
Proof.
  intros m HI Hs Hr. rewrite remove_variables_sorted_body by (apply Inv_InvG, HI).
  induction Hs as [|v vs Hs IH Hall].
  - rewrite rv_body_nil by (apply Inv_InvG, HI). cbn [fold_right length]. repeat split; [exact HI|lia].
  - inversion Hr as [|? ? Hv Hr']; subst. destruct (IH Hr') as [E [I N]].
    assert (Hc : length vs <= nvars m - v - 1).
    { apply sorted_above_count; [exact Hs|]. apply Forall_forall. intros x Hx. split.
      - eapply Forall_forall in Hall; [exact Hall|exact Hx].
      - eapply Forall_forall in Hr'; [exact Hr'|exact Hx]. }
    rewrite rv_body_cons; [|exact Hall|intros n Hn; eapply InvG_rows_sorted; [apply Inv_InvG, I|exact Hn]].
    cbn [fold_right length]. rewrite <- E. split; [reflexivity|]. split.
    + apply Inv_remove_variable; [exact I|]. rewrite N. lia.
    + rewrite nvars_remove_variable by (rewrite N; lia). rewrite N. lia.
Qed.

(* the sort in front: insertion sort gives a sorted list with the same elements *)
Lemma insert_nat_In x l y : In y (insert_nat x l) <-> y = x \/ In y l.
Proof.
  induction l as [|z l IH]; cbn [insert_nat].
  - cbn. intuition.
  - destruct (x <=? z); cbn [In]; [intuition|]. rewrite IH. intuition.
Qed.

Lemma sort_nat_In l y : In y (sort_nat l) <-> In y l.
Proof.
  unfold sort_nat. induction l as [|x l IH]; cbn [fold_right]; [reflexivity|].
  rewrite insert_nat_In, IH. cbn [In]. intuition.
Qed.

Lemma insert_nat_sorted x l :
  StronglySorted lt l -> ~ In x l -> StronglySorted lt (insert_nat x l).
Proof.
  induction 1 as [|z l Hs IH Hall]; intros Hx; cbn [insert_nat]; [repeat constructor|].
  destruct (Nat.leb_spec x z) as [L|L].
  - assert (x < z) by (cbn [In] in Hx; lia).
    constructor; [constructor; assumption|]. constructor; [assumption|].
    eapply Forall_impl; [|exact Hall]. cbn beta. intros; lia.
  - constructor.
    + apply IH. intro. apply Hx. right. assumption.
    + apply Forall_forall. intros y Hy. apply insert_nat_In in Hy. destruct Hy as [->|Hy]; [lia|].
      rewrite Forall_forall in Hall. apply Hall, Hy.
Qed.

Lemma sort_nat_sorted l : NoDup l -> StronglySorted lt (sort_nat l).
Proof.
  unfold sort_nat. induction 1 as [|x l Hx Hnd IH]; cbn [fold_right]; [constructor|].
  apply insert_nat_sorted; [exact IH|]. intro H. apply Hx. apply (proj1 (sort_nat_In l x)). exact H.
Qed.

Lemma sorted_natb_sorted l : sorted_natb l = true -> NoDup l -> StronglySorted lt l.
Proof.
  induction l as [|x l IH]; intros Hb Hnd; [constructor|].
  inversion Hnd as [|? ? Hx Hnd']; subst.
  assert (Hl : sorted_natb l = true /\ (forall y, In y l -> x < y)).
  { destruct l as [|y l]; [split; [reflexivity|intros ? []]|].
    cbn [sorted_natb] in Hb. apply andb_true_iff in Hb. destruct Hb as [Hxy Hb].
    apply Nat.leb_le in Hxy. split; [exact Hb|].
    specialize (IH Hb Hnd'). inversion IH as [|? ? _ Hall]; subst.
    intros z [<-|Hz]; [cbn [In] in Hx; lia|].
    rewrite Forall_forall in Hall. specialize (Hall z Hz). lia. }
  destruct Hl as [Hb' Hlt]. constructor; [apply IH; assumption|]. apply Forall_forall. exact Hlt.
Qed.

(* remove_variables as called: distinct in-range indices in ANY order *)
Theorem Inv_remove_variables vars m :
  Inv m -> NoDup vars -> Forall (fun v => v < nvars m) vars ->
  Inv (remove_variables vars m) /\ nvars (remove_variables vars m) = nvars m - length vars.
Proof.
  intros HI Hnd Hr. unfold remove_variables. destruct (sorted_natb vars) eqn:Es.
  - apply remove_variables_sorted_iterated; [exact HI|apply sorted_natb_sorted; assumption|exact Hr].
  - destruct (remove_variables_sorted_iterated (sort_nat vars) m HI) as [_ [I N]].
    + apply sort_nat_sorted, Hnd.
    + apply Forall_forall. intros y Hy. apply (proj1 (sort_nat_In vars y)) in Hy. rewrite Forall_forall in Hr. apply Hr, Hy.
    + split; [exact I|]. rewrite N. f_equal.
      clear. unfold sort_nat. induction vars as [|x l IH]; [reflexivity|]. cbn [fold_right length].
      rewrite <- IH. generalize (fold_right insert_nat [] l) as s. intros s.
      induction s as [|z s IHs]; cbn [insert_nat length]; [reflexivity|].
      destruct (x <=? z); cbn [length]; [reflexivity|]. rewrite IHs. reflexivity.
Qed.

(* ---------- add_quadratic_from_dense ---------- *)
Definition pair_lt (a b : nat * nat) : Prop := fst a < fst b \/ (fst a = fst b /\ snd a < snd b).

(* every stored pair {x, k} comes before p in the row-major upper-triangle order *)
Definition stored_before (p : nat * nat) (m : qm) : Prop :=
  forall x k c, nb_get k (nb m x) = Some c -> pair_lt (Nat.min x k, Nat.max x k) p.

Lemma back_pre_of_before u v m :
  Inv m -> u <= v -> stored_before (u, v) m -> back_pre u v m.
Proof.
  intros HI Huv Hb.
  assert (G : forall x y, (forall k c, nb_get k (nb m x) = Some c -> k < y) -> back_ok (nb m x) y).
  { intros x y H. unfold back_ok. destruct (rev (nb m x)) as [|e r] eqn:E; [exact I|].
    assert (Hin : In e (nb m x)) by (apply in_rev; rewrite E; left; reflexivity).
    destruct e as [k c]. cbn [fst]. apply (H k c). apply nb_get_In_2; [apply Inv_sorted, HI|exact Hin]. }
  split; apply G; intros k c Hg; specialize (Hb _ _ _ Hg); unfold pair_lt in Hb; cbn [fst snd] in Hb; lia.
Qed.

Lemma same_pair_minmax x y u v :
  same_pair x y u v = true -> u <= v -> (Nat.min x y, Nat.max x y) = (u, v).
Proof.
  unfold same_pair. intros H Huv. apply orb_true_iff in H.
  destruct H as [H|H]; apply andb_true_iff in H; destruct H as [H1 H2];
    apply Nat.eqb_eq in H1, H2; subst; f_equal; lia.
Qed.

Lemma stored_before_step u v b m p :
  Inv m -> u < nvars m -> v < nvars m -> u <= v ->
  stored_before (u, v) m -> pair_lt (u, v) p -> stored_before p (add_quadratic u v b m).
Proof.
  intros HI Hu Hv Huv Hb Hp x k c. rewrite get_add_quadratic by (try assumption; apply Inv_len_adj, HI).
  destruct (aq_hit m u v x k) eqn:E.
  - intros _. unfold aq_hit in E. apply andb_true_iff in E. destruct E as [E _].
    rewrite (same_pair_minmax _ _ _ _ E Huv). exact Hp.
  - intros Hg. specialize (Hb _ _ _ Hg). unfold pair_lt in *. cbn [fst snd] in *. lia.
Qed.

Definition term_key (t : nat * nat * Qc) : nat * nat := fst t.

Definition terms_ok (N : nat) (l : list (nat * nat * Qc)) : Prop :=
  StronglySorted (fun s t => pair_lt (term_key s) (term_key t)) l
  /\ Forall (fun t => fst (term_key t) <= snd (term_key t) /\ snd (term_key t) < N) l.

Lemma fold_back_is_fold_add l : forall m,
  Inv m -> terms_ok (nvars m) l ->
  (forall t, In t l -> stored_before (term_key t) m) ->
  fold_left (fun acc t => add_quadratic_back (fst (fst t)) (snd (fst t)) (snd t) acc) l m
  = add_quadratic_coo l m.
Proof.
  unfold add_quadratic_coo.
  induction l as [|[[u v] b] l IH]; intros m HI [Hs Hr] Hb; cbn [fold_left]; [reflexivity|].
  cbn [fst snd]. inversion Hs as [|? ? Hs' Hall]; subst. inversion Hr as [|? ? [Huv Hv] Hr']; subst.
  unfold term_key in *. cbn [fst snd] in *.
  assert (Hpre : back_pre u v m).
  { apply back_pre_of_before; [exact HI|exact Huv|]. apply (Hb (u, v, b)). left. reflexivity. }
  rewrite (add_quadratic_back_eq_Inv u v b m HI Hpre).
  apply IH.
  - apply Inv_add_quadratic; [exact HI|lia|exact Hv].
  - rewrite nvars_add_quadratic. split; assumption.
  - intros t Ht. apply stored_before_step; try assumption; try lia.
    + apply (Hb (u, v, b)). left. reflexivity.
    + rewrite Forall_forall in Hall. apply (Hall t Ht).
Qed.

Lemma SS_app {A} (R : A -> A -> Prop) l1 l2 :
  StronglySorted R l1 -> StronglySorted R l2 -> (forall a b, In a l1 -> In b l2 -> R a b) ->
  StronglySorted R (l1 ++ l2).
Proof.
  induction 1 as [|x l1 Hs IH Hall]; intros H2 H12; cbn [app]; [exact H2|].
  constructor.
  - apply IH; [exact H2|]. intros a b Ha Hb. apply H12; [right; exact Ha|exact Hb].
  - apply Forall_forall. intros y Hy. apply in_app_or in Hy. destruct Hy as [Hy|Hy].
    + rewrite Forall_forall in Hall. apply Hall, Hy.
    + apply H12; [left; reflexivity|exact Hy].
Qed.

Definition RT (s t : nat * nat * Qc) : Prop := pair_lt (term_key s) (term_key t).

Section DenseRow.
  Variables (n : nat) (d : list Qc) (u : nat).
  Definition cell (v : nat) : list (nat * nat * Qc) :=
    let q := (dense_at d n u v + dense_at d n v u)%Qc in if Qc_eqb q 0 then [] else [(u, v, q)].

  Lemma row_tail_ok : forall k s,
    StronglySorted RT (flat_map cell (seq s k))
    /\ (forall t, In t (flat_map cell (seq s k)) -> fst (term_key t) = u /\ s <= snd (term_key t) < s + k).
  Proof.
    induction k as [|k IH]; intros s; cbn [seq flat_map]; [split; [constructor|intros ? []]|].
    destruct (IH (S s)) as [Hs Hin]. split.
    - apply SS_app; [|exact Hs|].
      + unfold cell. destruct (Qc_eqb _ 0); repeat constructor.
      + intros a b Ha Hb. destruct (Hin b Hb) as [Hb1 Hb2]. unfold cell in Ha.
        destruct (Qc_eqb _ 0); [contradiction|]. destruct Ha as [<-|[]].
        unfold RT, pair_lt, term_key in *. cbn [fst snd] in *. lia.
    - intros t Ht. apply in_app_or in Ht. destruct Ht as [Ht|Ht].
      + unfold cell in Ht. destruct (Qc_eqb _ 0); [contradiction|]. destruct Ht as [<-|[]].
        unfold term_key. cbn [fst snd]. lia.
      + destruct (Hin t Ht). lia.
  Qed.
End DenseRow.

Definition dense_row (n : nat) (d : list Qc) (u : nat) : list (nat * nat * Qc) :=
  (u, u, dense_at d n u u) :: flat_map (cell n d u) (seq (S u) (n - S u)).

Lemma dense_terms_rows n d : dense_terms n d = flat_map (dense_row n d) (seq 0 n).
Proof. reflexivity. Qed.

Lemma dense_row_ok n d u :
  u < n ->
  StronglySorted RT (dense_row n d u)
  /\ (forall t, In t (dense_row n d u) -> fst (term_key t) = u /\ u <= snd (term_key t) < n).
Proof.
  intros Hu. destruct (row_tail_ok n d u (n - S u) (S u)) as [Hs Hin]. unfold dense_row. split.
  - constructor; [exact Hs|]. apply Forall_forall. intros t Ht. destruct (Hin t Ht).
    unfold RT, pair_lt, term_key in *. cbn [fst snd] in *. lia.
  - intros t [<-|Ht]; [unfold term_key; cbn [fst snd]; lia|]. destruct (Hin t Ht). lia.
Qed.

Lemma dense_rows_ok n d : forall k s,
  s + k <= n ->
  StronglySorted RT (flat_map (dense_row n d) (seq s k))
  /\ (forall t, In t (flat_map (dense_row n d) (seq s k)) ->
                s <= fst (term_key t) < s + k /\ fst (term_key t) <= snd (term_key t) < n).
Proof.
  induction k as [|k IH]; intros s Hk; cbn [seq flat_map]; [split; [constructor|intros ? []]|].
  destruct (IH (S s)) as [Hs Hin]; [lia|]. destruct (dense_row_ok n d s) as [Rs Rin]; [lia|]. split.
  - apply SS_app; [exact Rs|exact Hs|]. intros a b Ha Hb.
    destruct (Rin a Ha), (Hin b Hb). unfold RT, pair_lt. lia.
  - intros t Ht. apply in_app_or in Ht. destruct Ht as [Ht|Ht].
    + destruct (Rin t Ht). lia.
    + destruct (Hin t Ht). lia.
Qed.

Lemma dense_terms_ok n d N : n <= N -> terms_ok N (dense_terms n d).
Proof.
  intros Hn. rewrite dense_terms_rows. destruct (dense_rows_ok n d n 0) as [Hs Hin]; [lia|].
  split; [exact Hs|]. apply Forall_forall. intros t Ht. destruct (Hin t Ht). lia.
Qed.

Lemma is_linear_nb m x : is_linear m = true -> nb m x = [].
Proof.
  unfold is_linear, nb. intros H. destruct (Nat.lt_ge_cases x (length (adj m))) as [L|L].
  - rewrite forallb_forall in H. specialize (H (nth x (adj m) []) (nth_In _ _ L)).
    destruct (nth x (adj m) []); [reflexivity|discriminate].
  - apply nth_overflow, L.
Qed.

(* both branches: on a linear model the add_quadratic_back branch performs exactly the
   add_quadratic calls (its ordering promise holds at every step) *)
Theorem add_quadratic_from_dense_is_coo n d m :
  Inv m -> n <= nvars m -> add_quadratic_from_dense n d m = add_quadratic_coo (dense_terms n d) m.
Proof.
  intros HI Hn. unfold add_quadratic_from_dense. destruct (is_linear m) eqn:El; [|reflexivity].
  apply fold_back_is_fold_add; [exact HI|apply dense_terms_ok, Hn|].
  intros t _ x k c. rewrite is_linear_nb by exact El. discriminate.
Qed.

Theorem Inv_add_quadratic_from_dense n d m :
  Inv m -> n <= nvars m ->
  Inv (add_quadratic_from_dense n d m) /\ nvars (add_quadratic_from_dense n d m) = nvars m
  /\ vts (add_quadratic_from_dense n d m) = vts m.
Proof.
  intros HI Hn. rewrite add_quadratic_from_dense_is_coo by assumption.
  apply Inv_add_quadratic_coo; [exact HI|].
  destruct (dense_terms_ok n d (nvars m) Hn) as [_ Hr]. unfold coo_in_range.
  eapply Forall_impl; [|exact Hr]. unfold term_key. cbn beta. intros t [H1 H2]. lia.
Qed.

(* ---------- the multi-object step of Model/ChkC20.v, every operation ---------- *)
From Dimod Require Import Model.ChkC20.
Local Open Scope nat_scope.

Lemma filter_of_sym kind pn pq : sym_filter (filter_of kind pn pq).
Proof.
  intros u v b. unfold filter_of. destruct kind as [|[|[|k]]]; try reflexivity.
  - rewrite (Nat.add_comm u v). reflexivity.
  - apply orb_comm.
Qed.

(* the documented precondition of each call, on the model state *)
Definition xpre (st : state) (o : xop) : Prop :=
  match o with
  | XRemVars s l => NoDup l /\ Forall (fun v => v < nvars (sm (get st s))) l
  | XDense s n _ => n <= nvars (sm (get st s))
  | XCoo s l => sq (get st s) = true -> coo_in_range (nvars (sm (get st s))) l
  | XChVt s _ v => if sq (get st s) then v < nvars (sm (get st s)) else all_binspin (sm (get st s))
  | XSetVt s v t => is_binspin t = true -> nb_get v (nth v (adj (sm (get st s))) []) = None
  | XQmOfBqm _ b => all_binspin (sm (get st b))
  | _ => True
  end.

Lemma Inv_add_variables t k m : Inv m -> Inv (fold_left (fun acc (_ : nat) => add_variable t acc) (seq 0 k) m).
Proof.
  generalize (seq 0 k) as l. intros l. revert m. induction l as [|x l IH]; intros m HI; [exact HI|].
  cbn [fold_left]. apply IH, Inv_add_variable, HI.
Qed.

Theorem xstep_preserves_inv st o : all_inv st -> xpre st o -> all_inv (fst (xstep st o)).
Proof.
  intros H Hp. destruct o; cbn [xpre] in Hp;
    try (apply value_ops_preserve_inv; [exact I|exact H]); cbn [xstep fst].
  - (* XAddVars *) apply all_inv_put; [exact H|]. cbn [sm]. apply Inv_add_variables, all_inv_get, H.
  - (* XResizeB *) apply all_inv_put; [exact H|]. cbn [sm]. apply Inv_resize, all_inv_get, H.
  - (* XRemVars *) apply all_inv_put; [exact H|]. cbn [sm]. destruct Hp as [Hnd Hr].
    apply Inv_remove_variables; [apply all_inv_get, H|exact Hnd|exact Hr].
  - (* XRemInts *) apply all_inv_put; [exact H|]. unfold with_m. cbn [sm].
    apply Inv_remove_interactions; [apply filter_of_sym|apply all_inv_get, H].
  - (* XDense *) apply all_inv_put; [exact H|]. unfold with_m. cbn [sm].
    apply Inv_add_quadratic_from_dense; [apply all_inv_get, H|exact Hp].
  - (* XCoo *) apply all_inv_put; [exact H|]. unfold with_m. cbn [sm].
    destruct (sq (get st s)).
    + apply Inv_add_quadratic_coo_qm; [apply all_inv_get, H|apply Hp; reflexivity].
    + apply Inv_add_quadratic_coo_bqm, all_inv_get, H.
  - (* XSubstAll *) apply all_inv_put; [exact H|]. unfold with_m. cbn [sm].
    apply Inv_substitute_variables, all_inv_get, H.
  - (* XChVt *) destruct (sq (get st s)); cbn [fst]; (apply all_inv_put; [exact H|]); cbn [sm].
    + apply Inv_qm_change_vartype; [apply all_inv_get, H|exact Hp].
    + apply Inv_bqm_change_vartype; [apply all_inv_get, H|exact Hp].
  - (* XSetVt *) apply all_inv_put; [exact H|]. unfold with_m. cbn [sm].
    apply Inv_InvG, InvG_set_vt; [apply Inv_InvG, all_inv_get, H|exact Hp].
  - (* XQmOfBqm *) apply all_inv_put; [exact H|]. cbn [sm]. apply Inv_InvG.
    apply (InvG_retype (sm (get st b))); [apply Inv_InvG, all_inv_get, H|exact Hp|].
    rewrite repeat_length. pose proof (all_inv_get st b H) as HI. apply Inv_InvG in HI.
    symmetry. apply HI.
  - (* XDenseCtor *) apply all_inv_put; [exact H|]. cbn [sm].
    apply Inv_add_quadratic_from_dense; [apply Inv_resize, Inv_empty|]. rewrite nvars_resize. lia.
  - (* XBqmCtor *) apply all_inv_put; [exact H|]. cbn [sm]. apply Inv_resize, Inv_empty.
Qed.

(* histories: every call within its precondition, evaluated on the state it meets *)
Fixpoint xrun_pre (st : state) (ops : list xop) : Prop :=
  match ops with
  | [] => True
  | o :: r => xpre st o /\ xrun_pre (fst (xstep st o)) r
  end.

Theorem xstep_reachable ops : forall st,
  all_inv st -> xrun_pre st ops -> all_inv (fold_left (fun st o => fst (xstep st o)) ops st).
Proof.
  induction ops as [|o r IH]; intros st H Hp; [exact H|]. destruct Hp as [Hp Hr].
  cbn [fold_left]. apply IH; [apply xstep_preserves_inv; assumption|exact Hr].
Qed.

Theorem xstep_reachable_init ops :
  xrun_pre init_state ops -> all_inv (fold_left (fun st o => fst (xstep st o)) ops init_state).
Proof. apply xstep_reachable, all_inv_init. Qed.

(* ---------- counts: degree, is_linear, num_interactions for the extended operations ---------- *)
Lemma is_linear_iff m : is_linear m = true <-> forall x, nb m x = [].
Proof.
  split; [intros H x; apply is_linear_nb, H|].
  intros H. unfold is_linear. apply forallb_forall. intros n Hn.
  apply In_nth with (d := []) in Hn. destruct Hn as [x [_ Hx]]. specialize (H x). unfold nb in H.
  assert (E : n = []) by (rewrite <- Hx; exact H). clear Hx. rewrite E. reflexivity.
Qed.

Theorem is_linear_degree m : is_linear m = true <-> forall v, degree m v = 0.
Proof.
  rewrite is_linear_iff. unfold degree. split; intros H x; [rewrite H; reflexivity|].
  apply length_zero_iff_nil, H.
Qed.

Theorem is_linear_num_interactions m : is_linear m = true -> num_interactions m = 0.
Proof.
  intros H. pose proof (proj1 (is_linear_iff m) H) as Hn. unfold num_interactions.
  assert (E1 : fold_right Nat.add 0 (map (@length _) (adj m)) = 0).
  { assert (G : forall l : list nbh, (forall n, In n l -> n = []) -> fold_right Nat.add 0 (map (@length _) l) = 0).
    { induction l as [|n l IH]; intros Hl; [reflexivity|]. cbn [map fold_right].
      rewrite (Hl n (or_introl eq_refl)), IH; [reflexivity|]. intros n' Hn'. apply Hl. right. exact Hn'. }
    apply G. intros n Hin. apply In_nth with (d := []) in Hin. destruct Hin as [x [_ <-]]. apply Hn. }
  assert (E2 : self_loops m = 0).
  { unfold self_loops. apply length_zero_iff_nil.
    assert (G : forall l, filter (fun u => has_interaction m u u) l = []).
    { induction l as [|u l IH]; [reflexivity|]. cbn [filter]. unfold has_interaction at 1. rewrite Hn. cbn [nb_get]. exact IH. }
    apply G. }
  rewrite E1, E2. reflexivity.
Qed.

(* substitute_variables (and with it BQM change_vartype) only rescales stored biases:
   every count is unchanged *)
Lemma nb_scale_length k n : length (nb_scale k n) = length n.
Proof. unfold nb_scale. apply map_length. Qed.

Theorem counts_substitute_variables k c m :
  length (adj m) = nvars m ->
  (forall v, degree (substitute_variables k c m) v = degree m v)
  /\ is_linear (substitute_variables k c m) = is_linear m
  /\ num_interactions (substitute_variables k c m) = num_interactions m.
Proof.
  intros Ha. destruct (substitute_variables_shape k c m Ha) as [Hn [_ Had]].
  assert (Hnb : forall x, nb (substitute_variables k c m) x = nb_scale (k * k)%Qc (nb m x)).
  { intros x. unfold nb. rewrite Had. apply nth_map_nil. reflexivity. }
  split; [|split].
  - intros v. unfold degree. rewrite Hnb. apply nb_scale_length.
  - apply Bool.eq_true_iff_eq. rewrite !is_linear_iff. split; intros H x; specialize (H x).
    + rewrite Hnb in H. destruct (nb m x); [reflexivity|discriminate].
    + rewrite Hnb, H. reflexivity.
  - unfold num_interactions, self_loops. rewrite Hn. f_equal. f_equal.
    + rewrite Had, map_map. f_equal. apply map_ext. intros n. apply nb_scale_length.
    + f_equal. apply filter_ext. intros u. unfold has_interaction. rewrite Hnb, nb_get_scale.
      destruct (nb_get u (nb m u)); reflexivity.
Qed.

(* remove_interactions never adds an entry *)
Theorem counts_remove_interactions f m :
  (forall v, degree (fst (remove_interactions f m)) v <= degree m v)
  /\ (is_linear m = true -> is_linear (fst (remove_interactions f m)) = true).
Proof.
  assert (Hnb : forall x, nb (fst (remove_interactions f m)) x
                          = nb_filter (fun w b => negb (f x w b)) (nb m x)).
  { intros x. apply remove_interactions_adj. }
  split.
  - intros v. unfold degree. rewrite Hnb. unfold nb_filter. generalize (nb m v) as n. intros n.
    induction n as [|e r IH]; [cbn; lia|]. cbn [filter]. destruct (negb _); cbn [length]; lia.
  - rewrite !is_linear_iff. intros H x. rewrite Hnb, H. reflexivity.
Qed.
