(* C13: Variables(range(a, b, s)) is the list of the range - on the constructor's fast path (condition and
   value generated from cyvariables.pyx into Gen/Gen_VarsCtor.v) and on the generic path alike.  If the source's
   fast path condition or value changes, these proofs stop compiling. *)
From Coq Require Import List ZArith Bool Arith Lia.
From Dimod Require Import Model.Vars Model.ChkC13 Proofs.VarsFacts Proofs.VarsSliceFacts.
Import ListNotations.
Local Open Scope Z_scope.

Lemma gen_ctor_fast_inv a b s : gen_ctor_fast a b s = true -> a = 0 /\ s = 1.
Proof.
  unfold gen_ctor_fast. intros H. apply andb_true_iff in H. destruct H as [H1 H2].
  apply Z.eqb_eq in H1. apply Z.eqb_eq in H2. auto.
Qed.

Lemma zrange_len_unit b : Z.to_nat (zrange_len 0 b 1) = Z.to_nat (gen_ctor_stop b).
Proof.
  unfold zrange_len, gen_ctor_stop. cbn [Z.ltb Z.compare].
  destruct (Z.ltb_spec 0 b) as [H|H].
  - rewrite Z.div_1_r. f_equal. lia.
  - rewrite Z.max_r by lia. reflexivity.
Qed.

Theorem ctor_of_range_spec a b s :
  s <> 0 -> wf (ctor_of_range a b s) /\ to_list (ctor_of_range a b s) = map LI (zrange a b s).
Proof.
  intros Hs. unfold ctor_of_range. destruct (gen_ctor_fast a b s) eqn:F.
  - destruct (gen_ctor_fast_inv a b s F) as [-> ->]. split; [apply ctor_range_wf|].
    rewrite ctor_range_list. unfold zrange. rewrite map_map, zrange_len_unit.
    apply map_ext. intros k. f_equal. lia.
  - assert (Hnd : NoDup (map LI (zrange a b s))).
    { apply FinFun.Injective_map_NoDup; [intros x y E; congruence|apply zrange_nodup; exact Hs]. }
    destruct (init_vars_list _ Hnd) as [Hl Hw]. split; assumption.
Qed.

Lemma ctor_generic_is_permissive : gen_ctor_generic_permissive = true.
Proof. reflexivity. Qed.

Lemma relabel_existing_is_self : gen_relabel_existing_is_self = true.
Proof. reflexivity. Qed.
