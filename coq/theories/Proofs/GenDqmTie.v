(* C20 - the definitions generated from cydiscrete_quadratic_model.pyx (Gen/Gen_DqmNative.v: which vector is searched with
   which key and what is inserted where in the "track in adjacency" blocks of set_quadratic / set_quadratic_case, the
   early-break condition of energies) are the hand-written ones of Model/DqmNative.v. *)
From Coq Require Import List Arith Bool.
From Dimod Require Import Model.Adj Model.DqmNative Gen.Gen_DqmNative.
Import ListNotations.

Lemma lb_has_at_same k l : lb_has_at k k l = lb_has k l.
Proof. induction l as [|y r IH]; [reflexivity|]. cbn [lb_has_at lb_has]. rewrite IH. reflexivity. Qed.

Lemma lb_ins_at_same k l : lb_ins_at k k l = lb_ins k l.
Proof. induction l as [|y r IH]; [reflexivity|]. cbn [lb_ins_at lb_ins]. rewrite IH. reflexivity. Qed.

Lemma upd_nth_ext {A} (f g : A -> A) i l : (forall x, f x = g x) -> upd_nth i f l = upd_nth i g l.
Proof.
  intros H. revert i. induction l as [|x r IH]; intros i; [destruct i; reflexivity|].
  destruct i; cbn [upd_nth]; [rewrite H|rewrite IH]; reflexivity.
Qed.

Theorem gen_track_set_quadratic_ok : forall u v a, gen_track_set_quadratic u v a = track u v a.
Proof.
  intros u v a. unfold gen_track_set_quadratic, track. rewrite lb_has_at_same.
  destruct (lb_has v (nth u a [])); [reflexivity|].
  rewrite (upd_nth_ext (lb_ins_at v v) (lb_ins v)) by apply lb_ins_at_same.
  apply upd_nth_ext. apply lb_ins_at_same.
Qed.

Theorem gen_track_set_quadratic_case_ok : forall u v a, gen_track_set_quadratic_case u v a = track u v a.
Proof.
  intros u v a. unfold gen_track_set_quadratic_case, track. rewrite lb_has_at_same.
  destruct (lb_has v (nth u a [])); [reflexivity|].
  rewrite (upd_nth_ext (lb_ins_at v v) (lb_ins v)) by apply lb_ins_at_same.
  apply upd_nth_ext. apply lb_ins_at_same.
Qed.

(* the walk over adj_[u] stops at the first neighbour for which the generated break condition holds *)
Fixpoint take_until (stop : nat -> bool) (l : list nat) : list nat :=
  match l with
  | [] => []
  | v :: r => if stop v then [] else v :: take_until stop r
  end.

Theorem gen_energy_break_ok : forall u l, below_or_eq u l = take_until (gen_energy_break u) l.
Proof.
  intros u l. induction l as [|v r IH]; [reflexivity|]. cbn [below_or_eq take_until]. unfold gen_energy_break at 1.
  rewrite IH. reflexivity.
Qed.

Theorem gen_shapes_recognised : gen_rebuild_resets_cursor_per_case = true /\ gen_fix_loop_is_five_branch_merge = true.
Proof. split; reflexivity. Qed.

Print Assumptions gen_track_set_quadratic_ok.
Print Assumptions gen_track_set_quadratic_case_ok.
Print Assumptions gen_energy_break_ok.
