(* C04: facts about the edit-history model (Model/Hist.v) and the primitive
   edits of Model/Poly.v it is built from. *)
From Coq Require Import List ZArith QArith Qcanon Bool Arith Lia.
From Dimod Require Import Base.Util Model.Poly Model.View Model.Hist Proofs.PolyFacts.
Import ListNotations.
Open Scope Qc_scope.

(* ================= read-after-write on the plain polynomial ================= *)

Lemma lin_coeff_cons t l w :
  lin_coeff (t :: l) w = (if (fst t =? w)%nat then snd t else 0) + lin_coeff l w.
Proof.
  unfold lin_coeff. cbn [filter]. destruct (fst t =? w)%nat; cbn [map qsum]; ring.
Qed.

Theorem lin_coeff_add_linear v b p w :
  lin_coeff (p_lin (add_linear v b p)) w = lin_coeff (p_lin p) w + (if (w =? v)%nat then b else 0).
Proof.
  unfold add_linear; cbn [p_lin]. rewrite lin_coeff_cons. cbn [fst snd].
  rewrite (Nat.eqb_sym v w). ring.
Qed.

Lemma lin_coeff_filter_same v l : lin_coeff (filter (fun t => negb (fst t =? v)%nat) l) v = 0.
Proof.
  unfold lin_coeff. induction l as [|t l IH]; [reflexivity|].
  cbn [filter]. destruct (Nat.eqb_spec (fst t) v) as [E|E]; cbn [negb]; [exact IH|].
  cbn [filter]. destruct (Nat.eqb_spec (fst t) v); [contradiction|exact IH].
Qed.

Theorem lin_coeff_set_linear v b p w :
  lin_coeff (p_lin (set_linear v b p)) w = if (w =? v)%nat then b else lin_coeff (p_lin p) w.
Proof.
  unfold set_linear; cbn [p_lin]. rewrite lin_coeff_cons. cbn [fst snd].
  rewrite (Nat.eqb_sym v w). destruct (Nat.eqb_spec w v) as [->|Hne].
  - rewrite lin_coeff_filter_same. ring.
  - rewrite lin_coeff_remove_other by assumption. ring.
Qed.

Ltac sp_tac :=
  unfold same_pair in *;
  repeat match goal with
         | H : context [(?p =? ?q)%nat] |- _ => destruct (Nat.eqb_spec p q); subst
         | |- context [(?p =? ?q)%nat] => destruct (Nat.eqb_spec p q); subst
         end; cbn in *; try reflexivity; try discriminate; try congruence.

Lemma same_pair_sym u v a b : same_pair u v a b = same_pair v u a b.
Proof. sp_tac. Qed.

Lemma same_pair_swap u v a b : same_pair u v a b = same_pair a b u v.
Proof. sp_tac. Qed.

Theorem quad_coeff_sym q u v : quad_coeff q u v = quad_coeff q v u.
Proof.
  unfold quad_coeff. f_equal. f_equal. apply filter_ext. intros t. apply same_pair_sym.
Qed.

Theorem has_pair_sym q u v : has_pair q u v = has_pair q v u.
Proof.
  unfold has_pair. induction q as [|t q IH]; [reflexivity|]. cbn [existsb]. rewrite IH, same_pair_sym. reflexivity.
Qed.

Lemma quad_coeff_cons (t : qterm) q x y :
  quad_coeff (t :: q) x y
  = (if same_pair x y (fst (fst t)) (snd (fst t)) then snd t else 0) + quad_coeff q x y.
Proof.
  unfold quad_coeff. cbn [filter]. destruct (same_pair x y _ _); cbn [map qsum]; ring.
Qed.

(* add_quadratic on two different variables (the only case a BQM accepts) *)
Theorem quad_coeff_push u v b p x y :
  quad_coeff (p_quad (push_quad u v b p)) x y
  = quad_coeff (p_quad p) x y + (if same_pair x y u v then b else 0).
Proof. unfold push_quad; cbn [p_quad]. rewrite quad_coeff_cons. cbn [fst snd]. ring. Qed.

Theorem has_pair_push u v b p x y :
  has_pair (p_quad (push_quad u v b p)) x y = same_pair x y u v || has_pair (p_quad p) x y.
Proof. reflexivity. Qed.

Theorem push_quad_is_add_quadratic vt u v b p :
  u <> v -> add_quadratic vt u v b p = push_quad u v b p.
Proof. intros H. unfold add_quadratic. destruct (Nat.eqb_spec u v); [contradiction|reflexivity]. Qed.

Lemma same_pair_trans_false u v x y a b :
  same_pair u v a b = true -> same_pair x y u v = false -> same_pair x y a b = false.
Proof.
  unfold same_pair. intros H1 H2.
  repeat match goal with
         | H : context [(?p =? ?q)%nat] |- _ => destruct (Nat.eqb_spec p q); subst
         | |- context [(?p =? ?q)%nat] => destruct (Nat.eqb_spec p q); subst
         end; cbn in *; try reflexivity; try discriminate; try congruence.
Qed.

Lemma same_pair_trans_true u v x y a b :
  same_pair u v a b = true -> same_pair x y u v = true -> same_pair x y a b = true.
Proof.
  unfold same_pair. intros H1 H2.
  repeat match goal with
         | H : context [(?p =? ?q)%nat] |- _ => destruct (Nat.eqb_spec p q); subst
         | |- context [(?p =? ?q)%nat] => destruct (Nat.eqb_spec p q); subst
         end; cbn in *; try reflexivity; try discriminate; try congruence.
Qed.

Lemma quad_coeff_removed u v (q : list qterm) x y :
  quad_coeff (filter (fun t => negb (same_pair u v (fst (fst t)) (snd (fst t)))) q) x y
  = if same_pair x y u v then 0 else quad_coeff q x y.
Proof.
  induction q as [|t q IH]; [destruct (same_pair x y u v); reflexivity|].
  cbn [filter]. destruct (same_pair u v (fst (fst t)) (snd (fst t))) eqn:E; cbn [negb].
  - rewrite IH, quad_coeff_cons. destruct (same_pair x y u v) eqn:E2; [reflexivity|].
    rewrite (same_pair_trans_false _ _ _ _ _ _ E E2). ring.
  - rewrite !quad_coeff_cons, IH. destruct (same_pair x y u v) eqn:E2; [|reflexivity].
    assert (same_pair x y (fst (fst t)) (snd (fst t)) = false) as ->; [|ring].
    destruct (same_pair x y (fst (fst t)) (snd (fst t))) eqn:E3; [|reflexivity].
    rewrite same_pair_swap in E2. rewrite (same_pair_trans_true _ _ _ _ _ _ E3 E2) in E. discriminate.
Qed.

Lemma has_pair_removed u v (q : list qterm) x y :
  has_pair (filter (fun t => negb (same_pair u v (fst (fst t)) (snd (fst t)))) q) x y
  = negb (same_pair x y u v) && has_pair q x y.
Proof.
  unfold has_pair. induction q as [|t q IH]; [rewrite andb_false_r; reflexivity|].
  cbn [filter existsb]. destruct (same_pair u v (fst (fst t)) (snd (fst t))) eqn:E; cbn [negb existsb].
  - rewrite IH. destruct (same_pair x y u v) eqn:E2; cbn [negb andb]; [reflexivity|].
    rewrite (same_pair_trans_false _ _ _ _ _ _ E E2). reflexivity.
  - rewrite IH. destruct (same_pair x y u v) eqn:E2; cbn [negb andb]; [|reflexivity].
    destruct (same_pair x y (fst (fst t)) (snd (fst t))) eqn:E3; [|reflexivity].
    rewrite same_pair_swap in E2. rewrite (same_pair_trans_true _ _ _ _ _ _ E3 E2) in E. discriminate.
Qed.

Theorem quad_coeff_remove_interaction u v p x y :
  quad_coeff (p_quad (remove_interaction u v p)) x y
  = if same_pair x y u v then 0 else quad_coeff (p_quad p) x y.
Proof. apply quad_coeff_removed. Qed.

Theorem has_pair_remove_interaction u v p x y :
  has_pair (p_quad (remove_interaction u v p)) x y = negb (same_pair x y u v) && has_pair (p_quad p) x y.
Proof. apply has_pair_removed. Qed.

Theorem quad_coeff_set_quadratic u v b p x y :
  quad_coeff (p_quad (set_quadratic u v b p)) x y
  = if same_pair x y u v then b else quad_coeff (p_quad p) x y.
Proof.
  unfold set_quadratic; cbn [p_quad]. rewrite quad_coeff_cons. cbn [fst snd].
  unfold remove_interaction; cbn [p_quad]. rewrite quad_coeff_removed.
  destruct (same_pair x y u v); ring.
Qed.

Theorem has_pair_set_quadratic u v b p x y :
  has_pair (p_quad (set_quadratic u v b p)) x y = same_pair x y u v || has_pair (p_quad p) x y.
Proof.
  unfold set_quadratic; cbn [p_quad has_pair existsb fst snd].
  fold (has_pair (p_quad (remove_interaction u v p)) x y). rewrite has_pair_remove_interaction.
  destruct (same_pair x y u v); reflexivity.
Qed.

Theorem lin_coeff_scale k p w : lin_coeff (p_lin (scale k p)) w = k * lin_coeff (p_lin p) w.
Proof.
  unfold scale; cbn [p_lin]. induction (p_lin p) as [|t l IH]; [unfold lin_coeff; cbn; ring|].
  cbn [map]. rewrite !lin_coeff_cons, IH. cbn [fst snd]. destruct (fst t =? w)%nat; ring.
Qed.

Theorem quad_coeff_scale k p x y : quad_coeff (p_quad (scale k p)) x y = k * quad_coeff (p_quad p) x y.
Proof.
  unfold scale; cbn [p_quad]. induction (p_quad p) as [|t l IH]; [unfold quad_coeff; cbn; ring|].
  cbn [map]. rewrite !quad_coeff_cons, IH. cbn [fst snd]. destruct (same_pair x y _ _); ring.
Qed.

Theorem has_pair_scale k p x y : has_pair (p_quad (scale k p)) x y = has_pair (p_quad p) x y.
Proof.
  unfold scale, has_pair; cbn [p_quad]. induction (p_quad p) as [|t l IH]; [reflexivity|].
  cbn [map existsb fst snd]. rewrite IH. reflexivity.
Qed.

(* relabelling with a map that is injective on the labels involved *)
Theorem lin_coeff_relabel f p w :
  (forall t, In t (p_lin p) -> f (fst t) = f w -> fst t = w) ->
  lin_coeff (p_lin (relabel f p)) (f w) = lin_coeff (p_lin p) w.
Proof.
  unfold relabel; cbn [p_lin]. induction (p_lin p) as [|t l IH]; intros Hinj; [reflexivity|].
  cbn [map]. rewrite !lin_coeff_cons, IH by (intros; apply Hinj; [right|]; assumption). cbn [fst snd].
  destruct (Nat.eqb_spec (f (fst t)) (f w)) as [E|E]; destruct (Nat.eqb_spec (fst t) w) as [E2|E2]; try reflexivity.
  - exfalso. apply E2, Hinj; [left; reflexivity|assumption].
  - exfalso. apply E. rewrite E2. reflexivity.
Qed.

Theorem energy_set_off b p s : energy (set_off b p) s = energy p s - p_off p + b.
Proof. unfold energy, set_off; cbn [p_off p_lin p_quad]. ring. Qed.

(* ================= read paths are functions of the polynomial ================= *)

Lemma filter_length_sym q (a : label) l :
  length (filter (fun v => has_pair q v a) l) = length (filter (has_pair q a) l).
Proof. f_equal. apply filter_ext. intros v. apply has_pair_sym. Qed.

Lemma sumdeg_cons_aux q (a : label) (big l : list label) :
  fold_right Nat.add 0%nat (map (deg_in q (a :: big)) l)
  = (length (filter (fun v => has_pair q v a) l) + fold_right Nat.add 0%nat (map (deg_in q big) l))%nat.
Proof.
  induction l as [|x l IH]; [reflexivity|].
  cbn [map fold_right filter]. rewrite IH.
  assert (E : deg_in q (a :: big) x = (b2n (has_pair q x a) + deg_in q big x)%nat).
  { unfold deg_in. cbn [filter]. destruct (has_pair q x a); reflexivity. }
  rewrite E. destruct (has_pair q x a); cbn [length b2n]; lia.
Qed.

(* every off-diagonal interaction is seen from both ends, a self-loop once *)
Theorem read_paths_consistent q vs :
  (sumdeg_in q vs + nself_in q vs = 2 * nint_in q vs)%nat.
Proof.
  unfold sumdeg_in, nself_in. induction vs as [|a l IH]; [reflexivity|].
  cbn [map fold_right nint_in filter].
  rewrite sumdeg_cons_aux, filter_length_sym.
  assert (E : deg_in q (a :: l) a = (b2n (has_pair q a a) + length (filter (has_pair q a) l))%nat).
  { unfold deg_in. cbn [filter]. destruct (has_pair q a a); reflexivity. }
  rewrite E. destruct (has_pair q a a); cbn [length b2n]; lia.
Qed.

Theorem is_linear_iff_no_interaction s : is_linear s = true <-> num_interactions s = 0%nat.
Proof. unfold is_linear. apply Nat.eqb_eq. Qed.

Lemma deg_in_le q vs v : (deg_in q vs v <= length vs)%nat.
Proof.
  unfold deg_in. induction vs as [|a l IH]; [apply le_n|].
  cbn [filter]. destruct (has_pair q v a); cbn [length]; lia.
Qed.

(* ================= the variable list behaves like a python list ================= *)

Lemma labels_ensure v s :
  labels (ensure v s) = if has_var s v then labels s else labels s ++ [v].
Proof.
  unfold ensure. destruct (has_var s v); [reflexivity|].
  unfold labels, with_vars; cbn [st_vars]. rewrite map_app. reflexivity.
Qed.

Lemma has_var_In s v : has_var s v = true <-> In v (labels s).
Proof.
  unfold has_var, labels. rewrite existsb_exists, in_map_iff. split.
  - intros [i [Hi E]]. apply Nat.eqb_eq in E. exists i; auto.
  - intros [i [E Hi]]. exists i; split; [assumption|]. apply Nat.eqb_eq. assumption.
Qed.

Theorem order_add_linear s v b :
  labels (fst (step s (Direct, OAddLinear v b)))
  = if has_var s v then labels s else if is_bqm s then labels s ++ [v] else labels s.
Proof.
  cbn [step]. unfold h_add_linear; cbn [vdir_of]. unfold d_add_linear, resolve, is_bqm.
  destruct (st_kind s) eqn:K; cbn [bind ok fst snd].
  - unfold with_poly, labels; cbn [st_vars]. fold (labels (ensure v s)). apply labels_ensure.
  - destruct (has_var s v); reflexivity.
Qed.

Theorem order_remove_variable s v :
  has_var s v = true ->
  labels (fst (step s (Direct, ORemoveVariable (Some v)))) = filter (fun w => negb (w =? v)%nat) (labels s).
Proof.
  intros H. cbn [step]. unfold h_remove_variable; cbn [vdir_of]. unfold d_remove_variable. rewrite H.
  cbn [ok fst]. unfold labels; cbn [st_vars].
  induction (st_vars s) as [|i l IH]; [reflexivity|].
  cbn [filter map]. destruct (v_lab i =? v)%nat; cbn [negb map]; rewrite IH; reflexivity.
Qed.

Theorem order_relabel s h m :
  relabel_ok m s = true ->
  labels (fst (step s (h, ORelabel m))) = map (lookup m) (labels s).
Proof.
  intros H. cbn [step]. unfold m_relabel. rewrite H. cbn [ok fst].
  unfold relabel_state, labels; cbn [st_vars]. rewrite !map_map. reflexivity.
Qed.

Theorem order_relabel_rejected s h m :
  relabel_ok m s = false -> step s (h, ORelabel m) = (s, Raised BValue).
Proof. intros H. cbn [step]. unfold m_relabel. rewrite H. reflexivity. Qed.

(* ================= a raising call changes nothing ================= *)

Lemma resolve_raise v s b : snd (resolve v s) = Raised b -> fst (resolve v s) = s.
Proof. unfold resolve. destruct (st_kind s); [discriminate|]. destruct (has_var s v); [discriminate|reflexivity]. Qed.

Lemma resolve_bqm_ok v s vt : st_kind s = Some vt -> resolve v s = ok (ensure v s).
Proof. intros K. unfold resolve. rewrite K. reflexivity. Qed.

Lemma resolve_qm v s : st_kind s = None -> resolve v s = if has_var s v then ok s else raise BValue s.
Proof. intros K. unfold resolve. rewrite K. reflexivity. Qed.

Lemma d_add_linear_raise v b s e : snd (d_add_linear v b s) = Raised e -> fst (d_add_linear v b s) = s.
Proof.
  unfold d_add_linear, bind. destruct (snd (resolve v s)) eqn:E; [discriminate|].
  intros _. eapply resolve_raise; eassumption.
Qed.

Lemma d_set_linear_raise v b s e : snd (d_set_linear v b s) = Raised e -> fst (d_set_linear v b s) = s.
Proof.
  unfold d_set_linear, bind. destruct (snd (resolve v s)) eqn:E; [discriminate|].
  intros _. eapply resolve_raise; eassumption.
Qed.

Lemma bind_ok s f : ok s >>= f = f s.
Proof. reflexivity. Qed.
Lemma bind_raise b s f : raise b s >>= f = raise b s.
Proof. reflexivity. Qed.

Lemma resolve2_raise u v s (f : state -> state) e :
  snd (resolve u s >>= resolve v >>= fun s => ok (f s)) = Raised e ->
  fst (resolve u s >>= resolve v >>= fun s => ok (f s)) = s.
Proof.
  destruct (st_kind s) as [vt|] eqn:K.
  - rewrite (resolve_bqm_ok u s vt K).
    assert (K2 : st_kind (ensure u s) = Some vt) by (unfold ensure; destruct (has_var s u); assumption).
    rewrite !bind_ok. rewrite (resolve_bqm_ok v _ vt K2). rewrite !bind_ok. discriminate.
  - rewrite (resolve_qm u s K). destruct (has_var s u).
    + rewrite !bind_ok. rewrite (resolve_qm v s K). destruct (has_var s v).
      * rewrite !bind_ok. discriminate.
      * rewrite !bind_raise. reflexivity.
    + rewrite !bind_raise. reflexivity.
Qed.

Lemma d_add_quadratic_raise u v b s e :
  snd (d_add_quadratic u v b s) = Raised e -> fst (d_add_quadratic u v b s) = s.
Proof. unfold d_add_quadratic. destruct (quad_guard u v s); [reflexivity|]. apply resolve2_raise. Qed.

Lemma d_set_quadratic_raise u v b s e :
  snd (d_set_quadratic u v b s) = Raised e -> fst (d_set_quadratic u v b s) = s.
Proof. unfold d_set_quadratic. destruct (quad_guard u v s); [reflexivity|]. apply resolve2_raise. Qed.

(* calls whose outcome is decided before anything is written *)
Definition simple_op (o : op) : bool :=
  match o with
  | OAddLinear _ _ | OSetLinear _ _ | OAddQuadratic _ _ _ | OSetQuadratic _ _ _
  | ORemoveVariable _ | ORemoveInteraction _ _ | ORelabel _ | ORelabelInts _ | ORelabelPy _ | ORelabelIntsPy _
  | OSetOffset _ | OResize _ _ | OClear | OChangeVartype _
  | OQAddVariable _ _ _ _ | OQSetLb _ _ | OQSetUb _ _ | OQChangeVartype _ _ => true
  | OScale _ [] [] false => true
  | _ => false
  end.

Theorem failed_op_is_noop_direct s o e :
  simple_op o = true -> snd (step s (Direct, o)) = Raised e -> fst (step s (Direct, o)) = s.
Proof.
  destruct o; cbn [simple_op]; try discriminate; intros Hs; cbn [step].
  - apply d_add_linear_raise.
  - apply d_set_linear_raise.
  - apply d_add_quadratic_raise.
  - apply d_set_quadratic_raise.
  - unfold h_remove_variable; cbn [vdir_of].
    destruct (match v with Some v0 => Some v0 | None => last_label s end) as [w|]; [|reflexivity].
    unfold d_remove_variable. destruct (has_var s w); [discriminate|reflexivity].
  - unfold h_remove_interaction; cbn [vdir_of]. unfold d_remove_interaction.
    destruct (has_var s u && has_var s v && hasq s u v); [discriminate|reflexivity].
  - unfold m_relabel. destruct (relabel_ok m s); [discriminate|reflexivity].
  - unfold m_relabel_ints, m_relabel. destruct (relabel_ok _ s); [discriminate|reflexivity].
  - unfold m_relabel_py. destruct (relabel_ok m s); [discriminate|reflexivity].
  - unfold m_relabel_ints_py, m_relabel_py. destruct (relabel_ok _ s); [discriminate|reflexivity].
  - destruct iv; [|discriminate]. destruct ii; [|discriminate]. destruct io; [discriminate|].
    cbn [m_scale]. discriminate.
  - destruct (is_bqm s); [|reflexivity]. unfold m_resize. destruct (n <? 0)%Z; [reflexivity|].
    destruct (Z.to_nat n <=? num_variables s)%nat; discriminate.
  - destruct (is_bqm s); [|reflexivity]. unfold m_change_vartype_bqm.
    destruct (negb (is_sb vt)); [reflexivity|]. destruct (vartype_eqb vt (bvt s)); discriminate.
  - destruct (is_bqm s); [reflexivity|]. unfold q_add_variable. destruct (find_var s v).
    + destruct (negb (vartype_eqb (v_vt v0) vt)); [reflexivity|].
      match goal with |- context [if ?c then _ else _] => destruct c end; [reflexivity|discriminate].
    + destruct (bounds_for vt lb ub). destruct (bounds_bad vt q q0); [reflexivity|discriminate].
  - destruct (is_bqm s); [reflexivity|]. unfold q_set_lb. destruct (find_var s v); [|reflexivity].
    match goal with |- context [if ?c then _ else _] => destruct c end; [reflexivity|discriminate].
  - destruct (is_bqm s); [reflexivity|]. unfold q_set_ub. destruct (find_var s v); [|reflexivity].
    match goal with |- context [if ?c then _ else _] => destruct c end; [reflexivity|discriminate].
  - destruct (is_bqm s); [reflexivity|]. unfold m_change_vartype_qm.
    destruct (negb (has_var s v)); [reflexivity|]. destruct (vt_of s v), vt; try discriminate; reflexivity.
Qed.
