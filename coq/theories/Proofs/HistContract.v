(* C04: contract_variables(u, v) - the public method is a loop over primitive
   writes (binary_quadratic_model.py).  `contract_poly` is that loop on the
   polynomial; the model's step computes it; and the energy of the result at y
   is the energy of the original at y with y[v] := y[u]  (self interaction of
   the merged variable reduced by the vartype's rule). *)
From Coq Require Import List ZArith QArith Qcanon Bool Arith Lia.
From Dimod Require Import Base.Util Model.Poly Model.View Model.Hist Proofs.PolyFacts Proofs.HistFacts Proofs.HistWf Proofs.HistWf2 Proofs.HistAtomic.
Import ListNotations.
Open Scope Qc_scope.

(* ---------- finite sums over the variable list ---------- *)
Definition wsum (f : label -> Qc) (l : list label) : Qc := qsum (map f l).

Lemma wsum_cons f a l : wsum f (a :: l) = f a + wsum f l.
Proof. reflexivity. Qed.

Lemma wsum_ext f g l : (forall w, In w l -> f w = g w) -> wsum f l = wsum g l.
Proof.
  induction l as [|a l IH]; intros H; [reflexivity|]. rewrite !wsum_cons, (H a (or_introl eq_refl)), IH; [reflexivity|].
  intros w Hw. apply H. right. exact Hw.
Qed.

Lemma wsum_add f g l : wsum (fun w => f w + g w) l = wsum f l + wsum g l.
Proof. induction l as [|a l IH]; [unfold wsum; cbn [map qsum]; ring|]. rewrite !wsum_cons, IH. ring. Qed.

Lemma wsum_scale k f l : wsum (fun w => k * f w) l = k * wsum f l.
Proof. induction l as [|a l IH]; [unfold wsum; cbn [map qsum]; ring|]. rewrite !wsum_cons, IH. ring. Qed.

Lemma wsum_zero l : wsum (fun _ => 0) l = 0.
Proof. induction l as [|a l IH]; [reflexivity|]. rewrite wsum_cons, IH. ring. Qed.

Lemma wsum_indicator (g : label -> Qc) w0 l :
  NoDup l -> In w0 l -> wsum (fun w => if (w =? w0)%nat then g w else 0) l = g w0.
Proof.
  induction l as [|a l IH]; intros Hnd Hin; [destruct Hin|]. inversion Hnd as [|? ? Hni Hnd']; subst.
  rewrite wsum_cons. destruct Hin as [->|Hin].
  - rewrite Nat.eqb_refl. rewrite (wsum_ext _ (fun _ => 0)); [rewrite wsum_zero; ring|].
    intros w Hw. destruct (Nat.eqb_spec w w0); [subst; contradiction|reflexivity].
  - destruct (Nat.eqb_spec a w0); [subst; contradiction|]. rewrite IH by assumption. ring.
Qed.

Lemma wsum_indicator_notin (g : label -> Qc) w0 l :
  ~ In w0 l -> wsum (fun w => if (w =? w0)%nat then g w else 0) l = 0.
Proof.
  intros H. rewrite (wsum_ext _ (fun _ => 0)); [apply wsum_zero|].
  intros w Hw. destruct (Nat.eqb_spec w w0); [subst; contradiction|reflexivity].
Qed.

(* ring does not accept atoms containing binders: name them first *)
Ltac gring :=
  unfold lterm, qterm; cbv beta;
  repeat match goal with
         | |- context [lin_energy ?a ?b] => let x := fresh "x" in generalize (lin_energy a b); intro x
         | |- context [quad_energy ?a ?b] => let x := fresh "x" in generalize (quad_energy a b); intro x
         | |- context [wsum ?a ?b] => let x := fresh "x" in generalize (wsum a b); intro x
         | |- context [qsum ?a] => let x := fresh "x" in generalize (qsum a); intro x
         end; ring.

(* ---------- splitting the energy at one variable ---------- *)
Lemma lin_energy_split (f : lterm -> bool) l y :
  lin_energy l y = lin_energy (filter f l) y + lin_energy (filter (fun t => negb (f t)) l) y.
Proof.
  induction l as [|t l IH]; [unfold lin_energy; cbn [filter map qsum]; gring|]. cbn [filter]. destruct (f t); cbn [negb];
    rewrite !lin_energy_cons, IH; gring.
Qed.

Lemma quad_energy_split (f : qterm -> bool) l y :
  quad_energy l y = quad_energy (filter f l) y + quad_energy (filter (fun t => negb (f t)) l) y.
Proof.
  induction l as [|t l IH]; [unfold quad_energy; cbn [filter map qsum]; gring|]. cbn [filter]. destruct (f t); cbn [negb];
    rewrite !quad_energy_cons, IH; gring.
Qed.

Definition linv (p : poly) (v : label) (y : sample) : Qc := lin_energy (filter (fun t => (fst t =? v)%nat) (p_lin p)) y.
Definition quadv (p : poly) (v : label) (y : sample) : Qc := quad_energy (filter (mentions v) (p_quad p)) y.

Lemma energy_split_var v p y : energy p y = energy (remove_variable v p) y + linv p v y + quadv p v y.
Proof.
  unfold energy, remove_variable, linv, quadv; cbn [p_off p_lin p_quad].
  rewrite (lin_energy_split (fun t => (fst t =? v)%nat) (p_lin p) y), (quad_energy_split (mentions v) (p_quad p) y). gring.
Qed.

Lemma linv_eq p v y : linv p v y = lin_coeff (p_lin p) v * y v.
Proof.
  unfold linv, lin_coeff. induction (p_lin p) as [|t l IH]; [unfold lin_energy; cbn [filter map qsum]; gring|].
  cbn [filter]. destruct (Nat.eqb_spec (fst t) v) as [E|E]; [|exact IH].
  rewrite lin_energy_cons, IH. cbn [map qsum]. rewrite E. gring.
Qed.

Lemma pair_energy u v (q : list qterm) y :
  quad_energy (filter (fun t => same_pair u v (fst (fst t)) (snd (fst t))) q) y = quad_coeff q u v * y u * y v.
Proof.
  unfold quad_coeff. induction q as [|t q IH]; [unfold quad_energy; cbn [filter map qsum]; gring|].
  cbn [filter]. destruct (same_pair u v (fst (fst t)) (snd (fst t))) eqn:E; [|exact IH].
  rewrite quad_energy_cons, IH. cbn [map qsum].
  assert (Hy : y (fst (fst t)) * y (snd (fst t)) = y u * y v).
  { unfold same_pair in E. apply orb_true_iff in E. destruct E as [E|E]; apply andb_true_iff in E; destruct E as [E1 E2];
      apply Nat.eqb_eq in E1, E2; rewrite <- E1, <- E2; gring. }
  transitivity (snd t * (y (fst (fst t)) * y (snd (fst t))) + qsum (map snd (filter (fun t0 : qterm => same_pair u v (fst (fst t0)) (snd (fst t0))) q)) * y u * y v); [gring|].
  rewrite Hy. gring.
Qed.

Lemma energy_remove_interaction u v p y :
  energy (remove_interaction u v p) y = energy p y - quad_coeff (p_quad p) u v * y u * y v.
Proof.
  unfold energy, remove_interaction; cbn [p_off p_lin p_quad].
  rewrite (quad_energy_split (fun t => same_pair u v (fst (fst t)) (snd (fst t))) (p_quad p) y), pair_energy. cbv beta. gring.
Qed.

Lemma quad_coeff_no_pair q u v : has_pair q u v = false -> quad_coeff q u v = 0.
Proof.
  unfold has_pair, quad_coeff. induction q as [|t q IH]; [reflexivity|]. cbn [existsb filter]. intros H.
  apply orb_false_elim in H. destruct H as [H1 H2]. rewrite H1. apply IH. exact H2.
Qed.

(* the terms mentioning v, summed along the variable list *)
Lemma indicator_sum v (a b : label) (c : Qc) L (y : sample) :
  NoDup L -> a <> b -> In a L -> In b L ->
  wsum (fun w => (if same_pair v w a b then c else 0) * y w) L
  = if (a =? v)%nat then c * y b else if (b =? v)%nat then c * y a else 0.
Proof.
  intros Hnd Hne Ha Hb.
  destruct (Nat.eqb_spec a v) as [E1|E1]; [|destruct (Nat.eqb_spec b v) as [E2|E2]].
  - rewrite (wsum_ext _ (fun w => if (w =? b)%nat then c * y w else 0)); [apply (wsum_indicator (fun w => c * y w)); assumption|].
    intros w _. unfold same_pair. subst a. rewrite Nat.eqb_refl. cbn [andb].
    destruct (Nat.eqb_spec w b) as [->|Hw]; cbn [orb andb]; [ring|].
    destruct (Nat.eqb_spec v b) as [Ev|Ev]; [congruence|]. cbn [andb orb]. ring.
  - rewrite (wsum_ext _ (fun w => if (w =? a)%nat then c * y w else 0)); [apply (wsum_indicator (fun w => c * y w)); assumption|].
    intros w _. unfold same_pair. subst b. rewrite Nat.eqb_refl.
    destruct (Nat.eqb_spec v a) as [Ev|Ev]; [congruence|]. cbn [andb orb]. rewrite ?andb_true_r.
    destruct (Nat.eqb_spec w a); cbn [andb orb]; ring.
  - rewrite (wsum_ext _ (fun _ => 0)); [apply wsum_zero|].
    intros w _. unfold same_pair.
    destruct (Nat.eqb_spec v a) as [Ev|Ev]; [congruence|]. destruct (Nat.eqb_spec v b) as [Ev2|Ev2]; [congruence|].
    cbn [andb orb]. ring.
Qed.

Lemma quadv_sum (q : list qterm) v L y :
  NoDup L ->
  (forall t, In t q -> fst (fst t) <> snd (fst t) /\ In (fst (fst t)) L /\ In (snd (fst t)) L) ->
  quad_energy (filter (mentions v) q) y = y v * wsum (fun w => quad_coeff q v w * y w) L.
Proof.
  intros Hnd. induction q as [|t q IH]; intros Hq.
  - unfold quad_energy; cbn [filter map qsum]. rewrite (wsum_ext _ (fun _ => 0)); [rewrite wsum_zero; ring|].
    intros; unfold quad_coeff; cbn [filter map qsum]; ring.
  - assert (IH' := IH (fun t' H' => Hq t' (or_intror H'))). destruct (Hq t (or_introl eq_refl)) as (Hne & Ha & Hb).
    assert (HS : wsum (fun w => quad_coeff (t :: q) v w * y w) L
                 = wsum (fun w => (if same_pair v w (fst (fst t)) (snd (fst t)) then snd t else 0) * y w) L
                   + wsum (fun w => quad_coeff q v w * y w) L).
    { rewrite <- wsum_add. apply wsum_ext. intros w _. rewrite quad_coeff_cons. ring. }
    rewrite HS, (indicator_sum v _ _ (snd t) L y Hnd Hne Ha Hb).
    cbn [filter]. unfold mentions at 1.
    destruct (Nat.eqb_spec (fst (fst t)) v) as [E1|E1]; [|destruct (Nat.eqb_spec (snd (fst t)) v) as [E2|E2]]; cbn [orb].
    + rewrite quad_energy_cons, IH'. rewrite <- E1. gring.
    + rewrite quad_energy_cons, IH'. rewrite <- E2. gring.
    + rewrite IH'. gring.
Qed.

(* a polynomial that does not mention v does not depend on the value given to v *)
Lemma energy_remove_variable_upd v p y a :
  energy (remove_variable v p) (upd y v a) = energy (remove_variable v p) y.
Proof.
  unfold energy, remove_variable; cbn [p_off p_lin p_quad]. f_equal; [f_equal|].
  - induction (p_lin p) as [|t l IH]; [reflexivity|]. cbn [filter].
    destruct (Nat.eqb_spec (fst t) v) as [E|E]; cbn [negb]; [exact IH|].
    rewrite !lin_energy_cons, IH. unfold upd. destruct (Nat.eqb_spec (fst t) v); [contradiction|reflexivity].
  - induction (p_quad p) as [|t l IH]; [reflexivity|]. cbn [filter].
    destruct (mentions v t) eqn:M; cbn [negb]; [exact IH|].
    unfold mentions in M. apply orb_false_elim in M. destruct M as [M1 M2]. apply Nat.eqb_neq in M1, M2.
    rewrite !quad_energy_cons, IH. unfold upd.
    destruct (Nat.eqb_spec (fst (fst t)) v); [contradiction|]. destruct (Nat.eqb_spec (snd (fst t)) v); [contradiction|]. reflexivity.
Qed.

(* ---------- contract_variables on the polynomial, as the method computes it ---------- *)
Definition contract_poly (vt : vartype) (L : list label) (u v : label) (p0 : poly) : poly :=
  let hp := has_pair (p_quad p0) u v in
  let q := if hp then quad_coeff (p_quad p0) u v else 0 in
  let p1 := add_linear u (lin_coeff (p_lin p0) v) p0 in
  let p2 := match vt with BINARY => add_linear u q p1 | _ => set_off (p_off p1 + q) p1 end in
  let p3 := if hp then remove_interaction u v p2 else p2 in
  let nb := map (fun w => (w, quad_coeff (p_quad p3) v w)) (filter (has_pair (p_quad p3) v) L) in
  remove_variable v (fold_left (fun p t => push_quad u (fst t) (snd t) p) nb p3).

Lemma remove_variable_push v u w b p :
  u <> v -> w <> v -> remove_variable v (push_quad u w b p) = push_quad u w b (remove_variable v p).
Proof.
  intros Hu Hw. unfold remove_variable, push_quad; cbn [p_off p_lin p_quad filter]. unfold mentions at 1. cbn [fst snd].
  destruct (Nat.eqb_spec u v); [contradiction|]. destruct (Nat.eqb_spec w v); [contradiction|]. reflexivity.
Qed.

Lemma remove_variable_fold v u (nb : list (label * Qc)) p :
  u <> v -> (forall t, In t nb -> fst t <> v) ->
  remove_variable v (fold_left (fun p t => push_quad u (fst t) (snd t) p) nb p)
  = fold_left (fun p t => push_quad u (fst t) (snd t) p) nb (remove_variable v p).
Proof.
  intros Hu. revert p. induction nb as [|t nb IH]; intros p Hnb; [reflexivity|].
  cbn [fold_left]. rewrite IH by (intros t' H'; apply Hnb; right; exact H').
  rewrite remove_variable_push; [reflexivity|exact Hu|apply Hnb; left; reflexivity].
Qed.

Lemma energy_push u w b p y : energy (push_quad u w b p) y = energy p y + b * y u * y w.
Proof. unfold energy, push_quad; cbn [p_off p_lin p_quad]. rewrite quad_energy_cons. cbn [fst snd]. ring. Qed.

Lemma energy_fold_push u (nb : list (label * Qc)) p y :
  energy (fold_left (fun p t => push_quad u (fst t) (snd t) p) nb p) y
  = energy p y + qsum (map (fun t => snd t * y u * y (fst t)) nb).
Proof.
  revert p. induction nb as [|t nb IH]; intros p; [cbn [fold_left map qsum]; ring|].
  cbn [fold_left map qsum]. rewrite IH, energy_push. gring.
Qed.

Lemma nb_sum (q : list qterm) v u L (y : sample) :
  qsum (map (fun t => snd t * y u * y (fst t)) (map (fun w => (w, quad_coeff q v w)) (filter (has_pair q v) L)))
  = y u * wsum (fun w => quad_coeff q v w * y w) L.
Proof.
  induction L as [|w L IH]; [unfold wsum; cbn [filter map qsum]; ring|].
  rewrite wsum_cons. cbn [filter]. destruct (has_pair q v w) eqn:H.
  - cbn [map qsum fst snd]. rewrite IH. gring.
  - rewrite IH, (quad_coeff_no_pair q v w H). gring.
Qed.

Lemma energy_set_off_add b p y : energy (set_off (p_off p + b) p) y = energy p y + b.
Proof. unfold energy, set_off; cbn [p_off p_lin p_quad]. ring. Qed.

Lemma same_pair_vwuv u v w : u <> v -> same_pair v w u v = (w =? u)%nat.
Proof.
  intros H. unfold same_pair. rewrite Nat.eqb_refl. destruct (Nat.eqb_spec v u); [congruence|]. cbn [andb orb]. reflexivity.
Qed.

Theorem contract_poly_energy vt L u v p0 y :
  NoDup L -> In u L -> u <> v ->
  (forall t, In t (p_quad p0) -> fst (fst t) <> snd (fst t) /\ In (fst (fst t)) L /\ In (snd (fst t)) L) ->
  (match vt with BINARY => y u * y u = y u | _ => y u * y u = 1 end) ->
  energy (contract_poly vt L u v p0) y = energy p0 (upd y v (y u)).
Proof.
  intros Hnd HuL Hne Hq Hresp. unfold contract_poly.
  set (hp := has_pair (p_quad p0) u v).
  set (q0 := quad_coeff (p_quad p0) u v).
  assert (Eq : (if hp then q0 else 0) = q0).
  { unfold hp, q0. destruct (has_pair (p_quad p0) u v) eqn:H; [reflexivity|]. symmetry. apply quad_coeff_no_pair. exact H. }
  rewrite Eq.
  set (lv := lin_coeff (p_lin p0) v).
  set (p1 := add_linear u lv p0).
  set (p2 := match vt with BINARY => add_linear u q0 p1 | _ => set_off (p_off p1 + q0) p1 end).
  set (p3 := if hp then remove_interaction u v p2 else p2).
  (* quadratic part of p2 is that of p0 *)
  assert (Q2 : p_quad p2 = p_quad p0) by (unfold p2, p1; destruct vt; reflexivity).
  assert (L2 : p_lin p2 = match vt with BINARY => (u, q0) :: (u, lv) :: p_lin p0 | _ => (u, lv) :: p_lin p0 end)
    by (unfold p2, p1; destruct vt; reflexivity).
  (* p3: coefficients at v *)
  assert (QC3 : forall w, quad_coeff (p_quad p3) v w = if (w =? u)%nat then 0 else quad_coeff (p_quad p0) v w).
  { intros w. unfold p3. destruct hp eqn:Hhp.
    - rewrite quad_coeff_remove_interaction, Q2, (same_pair_vwuv u v w Hne). reflexivity.
    - rewrite Q2. destruct (Nat.eqb_spec w u) as [->|]; [|reflexivity].
      rewrite quad_coeff_sym. apply quad_coeff_no_pair. exact Hhp. }
  assert (Hq3 : forall t, In t (p_quad p3) -> fst (fst t) <> snd (fst t) /\ In (fst (fst t)) L /\ In (snd (fst t)) L).
  { intros t Ht. apply Hq. unfold p3 in Ht. destruct hp; [|rewrite <- Q2; exact Ht].
    cbn [remove_interaction p_quad] in Ht. apply filter_In in Ht. rewrite <- Q2. apply Ht. }
  assert (HP3 : forall w, has_pair (p_quad p3) v w = true -> w <> v).
  { intros w H E. subst w. unfold has_pair in H. apply existsb_exists in H. destruct H as [t [Ht Et]].
    destruct (Hq3 t Ht) as (Hd & _). unfold same_pair in Et.
    repeat match goal with H : context [(?a =? ?b)%nat] |- _ => destruct (Nat.eqb_spec a b) end; cbn in Et; try discriminate; congruence. }
  (* the loop does not touch v's terms *)
  rewrite remove_variable_fold; [|exact Hne|].
  2:{ intros t Ht. apply in_map_iff in Ht. destruct Ht as [w [<- Hw]]. apply filter_In in Hw. cbn [fst]. apply HP3, Hw. }
  rewrite energy_fold_push, nb_sum.
  (* split p3 and p0 at v *)
  pose proof (energy_split_var v p3 y) as S3. pose proof (energy_split_var v p0 (upd y v (y u))) as S0.
  rewrite energy_remove_variable_upd in S0.
  pose proof (energy_split_var v p0 y) as S0y.
  unfold quadv in S3, S0, S0y. rewrite (quadv_sum (p_quad p3) v L y Hnd Hq3) in S3.
  rewrite (quadv_sum (p_quad p0) v L (upd y v (y u)) Hnd Hq) in S0. rewrite (quadv_sum (p_quad p0) v L y Hnd Hq) in S0y.
  rewrite !linv_eq in S3, S0, S0y.
  (* sums *)
  set (W0 := wsum (fun w => quad_coeff (p_quad p0) v w * y w) L) in *.
  assert (W0' : wsum (fun w => quad_coeff (p_quad p0) v w * upd y v (y u) w) L = W0).
  { unfold W0. apply wsum_ext. intros w _. unfold upd. destruct (Nat.eqb_spec w v) as [->|]; [|reflexivity].
    rewrite (quad_coeff_no_pair (p_quad p0) v v); [ring|].
    apply not_true_is_false. intros H. unfold has_pair in H. apply existsb_exists in H. destruct H as [t [Ht Et]].
    destruct (Hq t Ht) as (Hd & _). unfold same_pair in Et.
    repeat match goal with H : context [(?a =? ?b)%nat] |- _ => destruct (Nat.eqb_spec a b) end; cbn in Et; try discriminate; congruence. }
  assert (W3 : wsum (fun w => quad_coeff (p_quad p3) v w * y w) L = W0 - q0 * y u).
  { rewrite (wsum_ext _ (fun w => quad_coeff (p_quad p0) v w * y w + (if (w =? u)%nat then - (q0 * y w) else 0))).
    - rewrite wsum_add, (wsum_indicator (fun w => - (q0 * y w)) u L Hnd HuL). unfold W0. gring.
    - intros w _. rewrite QC3. destruct (Nat.eqb_spec w u) as [->|]; [|ring].
      unfold q0. rewrite (quad_coeff_sym (p_quad p0) v u). ring. }
  rewrite W0' in S0. rewrite W3 in S3 |- *.
  (* linear coefficient of v, and energies of p1..p3 *)
  assert (LV3 : lin_coeff (p_lin p3) v = lv).
  { assert (lin_coeff (p_lin p2) v = lv).
    { rewrite L2. destruct vt; rewrite ?lin_coeff_cons; cbn [fst snd]; destruct (Nat.eqb_spec u v); try congruence; fold lv; ring. }
    unfold p3. destruct hp; [cbn [remove_interaction p_lin]|]; assumption. }
  rewrite LV3 in S3. fold lv in S0, S0y.
  assert (E3 : energy p3 y = energy p0 y + lv * y u + (match vt with BINARY => q0 * y u | _ => q0 end) - q0 * y u * y v).
  { assert (E2 : energy p2 y = energy p0 y + lv * y u + (match vt with BINARY => q0 * y u | _ => q0 end)).
    { unfold p2, p1. destruct vt; rewrite ?energy_add_linear, ?energy_set_off_add, ?energy_add_linear; ring. }
    unfold p3. destruct hp eqn:Hhp.
    - rewrite energy_remove_interaction, Q2, E2. fold q0. ring.
    - rewrite E2. assert (q0 = 0) as -> by (unfold q0; apply quad_coeff_no_pair; exact Hhp). ring. }
  assert (U : upd y v (y u) v = y u) by (unfold upd; rewrite Nat.eqb_refl; reflexivity).
  rewrite U in S0.
  (* E(remove v p3) = E3 - lv y_v - y_v (W0 - q0 y_u) ;  target = E(remove v p0) + lv y_u + y_u W0 *)
  assert (R3 : energy (remove_variable v p3) y = energy p3 y - lv * y v - y v * (W0 - q0 * y u)) by (rewrite S3; ring).
  assert (R0 : energy (remove_variable v p0) y = energy p0 y - lv * y v - y v * W0) by (rewrite S0y; ring).
  rewrite R3, E3, S0, R0.
  destruct vt; try (transitivity (energy p0 y + lv * y u - lv * y v - y v * W0 + y u * W0 + q0 - q0 * (y u * y u)); [ring|rewrite Hresp; ring]).
  transitivity (energy p0 y + lv * y u - lv * y v - y v * W0 + y u * W0 + q0 * y u - q0 * (y u * y u)); [ring|rewrite Hresp; ring].
Qed.

(* ---------- the model's step computes contract_poly ---------- *)
Lemma ensure_has v s : has_var s v = true -> ensure v s = s.
Proof. intros H. unfold ensure. rewrite H. reflexivity. Qed.

Lemma d_add_linear_has v b s : B s -> has_var s v = true -> d_add_linear v b s = ok (with_poly s (add_linear v b (st_poly s))).
Proof.
  intros Hs H. destruct (B_kind s Hs) as [vt K]. unfold d_add_linear. rewrite (resolve_bqm_ok v s vt K), bind_ok, (ensure_has v s H). reflexivity.
Qed.

Lemma d_add_quadratic_has u w b s :
  B s -> u <> w -> has_var s u = true -> has_var s w = true ->
  d_add_quadratic u w b s = ok (with_poly s (push_quad u w b (st_poly s))).
Proof.
  intros Hs Hne Hu Hw. destruct (B_kind s Hs) as [vt K]. unfold d_add_quadratic. rewrite (bqm_guard u w s Hs).
  destruct (Nat.eqb_spec u w); [contradiction|]. rewrite (resolve2_bqm u w s vt K), bind_ok, (ensure_has u s Hu), (ensure_has w s Hw). reflexivity.
Qed.

Lemma seqm_add_quadratic_has u (l : list (label * Qc)) s :
  B s -> (forall t, In t l -> fst t <> u /\ has_var s (fst t) = true) -> has_var s u = true ->
  seqm (fun t => d_add_quadratic u (fst t) (snd t)) l s
  = ok (with_poly s (fold_left (fun p t => push_quad u (fst t) (snd t) p) l (st_poly s))).
Proof.
  revert s. induction l as [|t l IH]; intros s Hs Hl Hu; [destruct s; reflexivity|].
  cbn [seqm fold_left]. destruct (Hl t (or_introl eq_refl)) as [Hne Hw].
  rewrite d_add_quadratic_has; [|exact Hs|congruence|exact Hu|exact Hw]. rewrite bind_ok.
  rewrite IH; [reflexivity|exact Hs| |exact Hu]. intros t' H'. apply Hl. right. exact H'.
Qed.

Lemma h_nbh_direct v s : h_nbh Direct v s = nbh s v.
Proof.
  unfold h_nbh. rewrite <- (map_id (nbh s v)) at 2. apply map_ext. intros [w b]. reflexivity.
Qed.

Theorem contract_step_is_contract_poly u v s :
  B s -> wf s -> has_var s u = true -> has_var s v = true -> u <> v ->
  step s (Direct, OContract u v)
  = ok (mkSt (st_kind s) (filter (fun i => negb (v_lab i =? v)%nat) (st_vars s))
             (contract_poly (bvt s) (labels s) u v (st_poly s))).
Proof.
  intros Hs Hw Hu Hv Hne. cbn [step]. rewrite Hs. unfold m_contract. rewrite Hu, Hv. cbn [andb negb orb].
  destruct (Nat.eqb_spec u v); [contradiction|]. cbv zeta.
  unfold h_add_linear, h_get_linear, h_get_quadratic, h_add_offset, h_set_offset, h_get_offset, h_remove_interaction,
    h_add_quadratic, h_remove_variable, hvt, vscale. cbn [vdir_of]. rewrite Hu, Hv. cbn [andb opt0].
  fold (lin s v). unfold contract_poly.
  set (hp := has_pair (p_quad (st_poly s)) u v). fold (hasq s u v). fold hp.
  set (q := if hp then quad_coeff (p_quad (st_poly s)) u v else 0).
  assert (Eq : opt0 (if hasq s u v then Some (quad s u v) else None) = q).
  { unfold q, hp, hasq, quad. destruct (has_pair _ u v); reflexivity. }
  rewrite Eq.
  assert (Ehad : match (if hasq s u v then Some (quad s u v) else None) with Some _ => true | None => false end = hp).
  { unfold hp, hasq. destruct (has_pair _ u v); reflexivity. }
  rewrite Ehad.
  (* 1 *)
  rewrite (d_add_linear_has u _ s Hs Hu), bind_ok.
  set (p1 := add_linear u (lin s v) (st_poly s)).
  assert (B1 : B (with_poly s p1)) by exact Hs.
  (* 2 *)
  assert (E2 : (match bvt (with_poly s p1) with
                | BINARY => d_add_linear u q (with_poly s p1)
                | _ => d_set_offset (p_off (st_poly (with_poly s p1)) + q) (with_poly s p1)
                end) = ok (with_poly s (match bvt s with BINARY => add_linear u q p1 | _ => set_off (p_off p1 + q) p1 end))).
  { change (bvt (with_poly s p1)) with (bvt s). destruct (bvt s); try reflexivity.
    rewrite (d_add_linear_has u q (with_poly s p1) B1 Hu). reflexivity. }
  rewrite E2, bind_ok.
  set (p2 := match bvt s with BINARY => add_linear u q p1 | _ => set_off (p_off p1 + q) p1 end).
  assert (Q2 : p_quad p2 = p_quad (st_poly s)) by (unfold p2, p1; destruct (bvt s); reflexivity).
  (* 3 *)
  assert (E3 : (if hp then d_remove_interaction u v (with_poly s p2) else ok (with_poly s p2))
               = ok (with_poly s (if hp then remove_interaction u v p2 else p2))).
  { destruct hp eqn:Hhp; [|reflexivity]. unfold d_remove_interaction.
    change (has_var (with_poly s p2) u) with (has_var s u). change (has_var (with_poly s p2) v) with (has_var s v).
    rewrite Hu, Hv. unfold hasq. cbn [with_poly st_poly]. rewrite Q2. fold hp. rewrite Hhp. reflexivity. }
  rewrite E3, bind_ok.
  set (p3 := if hp then remove_interaction u v p2 else p2).
  (* 4 *)
  rewrite h_nbh_direct.
  assert (Hself : hasq (with_poly s p3) v u = false /\ hasq (with_poly s p3) v v = false).
  { unfold hasq. cbn [with_poly st_poly]. unfold p3. destruct hp eqn:Hhp.
    - rewrite !has_pair_remove_interaction, Q2, same_pair_vu. cbn [negb andb]. split; [reflexivity|].
      fold (hasq s v v). rewrite (bqm_no_self s v Hs Hw). apply andb_false_r.
    - rewrite Q2. split; [rewrite has_pair_sym; exact Hhp|apply (bqm_no_self s v Hs Hw)]. }
  destruct Hself as [Hvu Hvv].
  rewrite seqm_add_quadratic_has; [|exact Hs| |exact Hu].
  2:{ intros t Ht. apply nbh_in in Ht. destruct Ht as [H1 H2]. split; [|exact H2]. intros E. rewrite E, Hvu in H1. discriminate. }
  rewrite bind_ok. unfold d_remove_variable. change (has_var (with_poly _ _) v) with (has_var s v). rewrite Hv.
  reflexivity.
Qed.

(* the public statement: contracting v into u *)
Theorem contract_energy u v s y :
  B s -> wf s -> has_var s u = true -> has_var s v = true -> u <> v ->
  (match bvt s with BINARY => y u * y u = y u | _ => y u * y u = 1 end) ->
  snd (step s (Direct, OContract u v)) = Ok /\
  energy (st_poly (fst (step s (Direct, OContract u v)))) y = energy (st_poly s) (upd y v (y u)).
Proof.
  intros Hs Hw Hu Hv Hne Hresp. rewrite (contract_step_is_contract_poly u v s Hs Hw Hu Hv Hne). split; [reflexivity|].
  cbn [ok fst st_poly]. apply contract_poly_energy; try assumption.
  - apply Hw.
  - apply has_var_In. exact Hu.
  - intros t Ht. destruct Hw as (Hnd & Hl & Hq & Hk). destruct (Hq t Ht) as (H1 & H2 & H3). split; [|split; assumption].
    intros E. specialize (H3 E). destruct (B_kind s Hs) as [vt K]. destruct (Hk vt K) as [Hsb Hall].
    destruct (in_labels_vinfo s _ H1) as [j [Hj Ej]]. rewrite <- Ej, (vt_of_in s j Hnd Hj), (Hall j Hj), Hsb in H3. discriminate.
Qed.

(* ---------- contraction through a handle whose vartype coincides with the base's ---------- *)
(* (a .spin/.binary handle kept across change_vartype: the @view_method wrappers delegate) *)
Definition kp (f : state -> res) : Prop := forall a, st_kind (fst (f a)) = st_kind a.

Lemma kp_bind r g s : st_kind (fst r) = st_kind s -> kp g -> st_kind (fst (r >>= g)) = st_kind s.
Proof. intros H Hg. unfold bind. destruct (snd r); [rewrite Hg; exact H|exact H]. Qed.

Lemma kp_seqm {A : Type} (f : A -> state -> res) l : (forall x, kp (f x)) -> kp (seqm f l).
Proof.
  intros Hf. induction l as [|x l IH]; intros a; [reflexivity|]. cbn [seqm]. apply kp_bind; [apply Hf|exact IH].
Qed.

Lemma kp_d_add_linear v b : kp (d_add_linear v b).
Proof. intros a. apply kind_d_add_linear. Qed.

Lemma kp_d_set_offset b : kp (d_set_offset b).
Proof. intros a. reflexivity. Qed.

Lemma kp_d_remove_interaction u v : kp (d_remove_interaction u v).
Proof. intros a. unfold d_remove_interaction. destruct (_ && _ && _); reflexivity. Qed.

Lemma kp_resolve v : kp (resolve v).
Proof. intros a. unfold resolve. destruct (st_kind a) eqn:K; [cbn [ok fst]; rewrite kind_ensure; exact K|destruct (has_var a v); exact K]. Qed.

Lemma kp_d_add_quadratic u v b : kp (d_add_quadratic u v b).
Proof.
  intros a. unfold d_add_quadratic. destruct (quad_guard u v a); [reflexivity|].
  apply kp_bind; [apply kp_bind; [apply kp_resolve|apply kp_resolve]|]. intros a'. reflexivity.
Qed.

Lemma bind_cong (P : state -> Prop) (r r' : res) g g' :
  r = r' -> (snd r' = Ok -> P (fst r')) -> (forall a, P a -> g a = g' a) -> r >>= g = r' >>= g'.
Proof. intros -> HP Hg. unfold bind. destruct (snd r') eqn:E; [apply Hg, HP; reflexivity|reflexivity]. Qed.

Lemma seqm_cong {A : Type} (P : state -> Prop) (f f' : A -> state -> res) l a :
  (forall x b, P b -> f x b = f' x b) -> (forall x b, P b -> snd (f' x b) = Ok -> P (fst (f' x b))) -> P a ->
  seqm f l a = seqm f' l a.
Proof.
  intros Hf Hp. revert a. induction l as [|x l IH]; intros a Pa; [reflexivity|].
  cbn [seqm]. rewrite (Hf x a Pa). unfold bind. destruct (snd (f' x a)) eqn:E; [|reflexivity].
  apply IH. apply Hp; assumption.
Qed.

Lemma vdir_kind h s a : st_kind a = st_kind s -> vdir_of h a = vdir_of h s.
Proof. intros K. unfold vdir_of, bvt. rewrite K. reflexivity. Qed.

Lemma hvt_same h s : vdir_of h s = None -> hvt h s = bvt s.
Proof.
  destruct h as [|wv]; [reflexivity|]. cbn [vdir_of hvt]. destruct (vartype_eqb wv (bvt s)) eqn:E; [|discriminate].
  intros _. destruct wv, (bvt s); try discriminate; reflexivity.
Qed.

Theorem contract_same_vartype_handle h u v s :
  vdir_of h s = None -> m_contract h u v s = m_contract Direct u v s.
Proof.
  intros D. unfold m_contract. destruct (negb (has_var s u && has_var s v) || (u =? v)%nat); [reflexivity|]. cbv zeta.
  assert (Dk : forall a, st_kind a = st_kind s -> vdir_of h a = None) by (intros a K; rewrite (vdir_kind h s a K); exact D).
  assert (GQ : h_get_quadratic h u v s = h_get_quadratic Direct u v s) by (unfold h_get_quadratic, vscale; rewrite D; reflexivity).
  assert (GL : h_get_linear h v s = h_get_linear Direct v s) by (unfold h_get_linear; rewrite D; reflexivity).
  rewrite GQ, GL.
  set (K := fun a => st_kind a = st_kind s).
  assert (S1 : kp (fun a => match hvt Direct a with
                             | BINARY => h_add_linear Direct u (opt0 (h_get_quadratic Direct u v s)) a
                             | _ => h_add_offset Direct (opt0 (h_get_quadratic Direct u v s)) a
                             end)).
  { intros a. cbn [hvt]. unfold h_add_linear, h_add_offset, h_set_offset; cbn [vdir_of]. destruct (bvt a); try reflexivity; apply kind_d_add_linear. }
  assert (S2 : kp (fun a => if match h_get_quadratic Direct u v s with Some _ => true | None => false end
                            then h_remove_interaction Direct u v a else ok a)).
  { intros a. destruct (match h_get_quadratic Direct u v s with Some _ => true | None => false end); [|reflexivity].
    unfold h_remove_interaction; cbn [vdir_of]. apply kp_d_remove_interaction. }
  assert (S3 : kp (fun a => seqm (fun t => h_add_quadratic Direct u (fst t) (snd t)) (h_nbh Direct v a) a)).
  { intros a. apply kp_seqm. intros t. unfold h_add_quadratic; cbn [vdir_of]. apply kp_d_add_quadratic. }
  assert (S0 : st_kind (fst (h_add_linear Direct u (opt0 (h_get_linear Direct v s)) s)) = st_kind s)
    by (unfold h_add_linear; cbn [vdir_of]; apply kind_d_add_linear).
  apply (bind_cong K).
  - apply (bind_cong K).
    + apply (bind_cong K).
      * apply (bind_cong K).
        -- unfold h_add_linear. rewrite D. reflexivity.
        -- intros _. exact S0.
        -- intros a Ka. rewrite (hvt_same h a (Dk a Ka)). cbn [hvt].
           unfold h_add_linear, h_add_offset, h_set_offset, h_get_offset. rewrite (Dk a Ka). reflexivity.
      * intros _. unfold K. apply kp_bind; [exact S0|exact S1].
      * intros a Ka. unfold h_remove_interaction. rewrite (Dk a Ka). reflexivity.
    + intros _. unfold K. apply kp_bind; [apply kp_bind; [exact S0|exact S1]|exact S2].
    + intros a Ka. replace (h_nbh h v a) with (h_nbh Direct v a) by (unfold h_nbh, vscale; rewrite (Dk a Ka); reflexivity).
      apply (seqm_cong K); [| |exact Ka].
      * intros t b Kb. unfold h_add_quadratic. rewrite (Dk b Kb). reflexivity.
      * intros t b Kb _. unfold K in *. unfold h_add_quadratic; cbn [vdir_of]. rewrite kp_d_add_quadratic. exact Kb.
  - intros _. unfold K. apply kp_bind; [apply kp_bind; [apply kp_bind; [exact S0|exact S1]|exact S2]|exact S3].
  - intros a Ka. unfold h_remove_variable. rewrite (Dk a Ka). reflexivity.
Qed.

Theorem contract_energy_same_vartype_handle h u v s y :
  vdir_of h s = None ->
  B s -> wf s -> has_var s u = true -> has_var s v = true -> u <> v ->
  (match bvt s with BINARY => y u * y u = y u | _ => y u * y u = 1 end) ->
  snd (step s (h, OContract u v)) = Ok /\
  energy (st_poly (fst (step s (h, OContract u v)))) y = energy (st_poly s) (upd y v (y u)).
Proof.
  intros D Hs Hw Hu Hv Hne Hr. pose proof (contract_energy u v s y Hs Hw Hu Hv Hne Hr) as H.
  cbn [step] in *. rewrite Hs in *. rewrite (contract_same_vartype_handle h u v s D). exact H.
Qed.
