(* C20 - get_quadratic(u, v, array=True) (Model/DqmReadsChecked.get_quadratic_array): same presence test as the dict
   form, shape num_cases(u) x num_cases(v), and every cell is the stored bias between the two cases (0 when none). *)
From Coq Require Import List ZArith QArith Qcanon Bool Arith Lia Sorted.
From Dimod Require Import Base.Util Model.Poly Model.Adj Model.AdjMore Model.DqmNative Model.DqmReadsChecked
  Proofs.AdjNb Proofs.AdjInv Proofs.AdjRW Proofs.DqmNativeFacts Proofs.DqmRoundTrip Proofs.DqmReads Proofs.DqmReadsMore.
Import ListNotations.
Local Open Scope nat_scope.

Definition cell_step (key : nat) (acc : Qc) (e : nat * Qc) : Qc := if fst e =? key then snd e else acc.

Lemma cell_keep (sp : nbh) key x :
  (forall e, In e sp -> fst e = key -> snd e = x) -> fold_left (cell_step key) sp x = x.
Proof.
  induction sp as [|e r IH]; intros H; [reflexivity|]. cbn [fold_left]. unfold cell_step at 2.
  destruct (Nat.eqb_spec (fst e) key) as [E|_].
  - rewrite (H e (or_introl eq_refl) E). apply IH. intros e' He'. apply H. right. exact He'.
  - apply IH. intros e' He'. apply H. right. exact He'.
Qed.

Lemma cell_hit (sp : nbh) key x :
  (forall e, In e sp -> fst e = key -> snd e = x) -> (exists e, In e sp /\ fst e = key) ->
  forall acc, fold_left (cell_step key) sp acc = x.
Proof.
  induction sp as [|e r IH]; intros H [e0 [Hin E0]] acc; [destruct Hin|]. cbn [fold_left]. unfold cell_step at 2.
  destruct (Nat.eqb_spec (fst e) key) as [E|Ne].
  - rewrite (H e (or_introl eq_refl) E). apply cell_keep. intros e' He'. apply H. right. exact He'.
  - apply IH; [intros e' He'; apply H; right; exact He'|]. destruct Hin as [<-|Hin]; [contradiction|].
    exists e0. split; assumption.
Qed.

Lemma cell_miss (sp : nbh) key : (forall e, In e sp -> fst e <> key) ->
  forall acc, fold_left (cell_step key) sp acc = acc.
Proof.
  induction sp as [|e r IH]; intros H acc; [reflexivity|]. cbn [fold_left]. unfold cell_step at 2.
  destruct (Nat.eqb_spec (fst e) key) as [E|_]; [destruct (H e (or_introl eq_refl) E)|].
  apply IH. intros e' He'. apply H. right. exact He'.
Qed.

Lemma span_cell_quadratic n lo hi key :
  ksorted n -> lo <= key -> key < hi ->
  span_cell (span_from lo hi n) key = match nb_get key n with Some x => x | None => 0%Qc end.
Proof.
  intros KS Hlo Hhi. unfold span_cell. change (fun (acc : Qc) (e : nat * Qc) => if fst e =? key then snd e else acc) with (cell_step key).
  destruct (nb_get key n) as [x|] eqn:E.
  - apply cell_hit.
    + intros e He Ek. apply span_from_In in He; [|exact KS]. destruct He as [He _]. destruct e as [w y]. cbn [fst snd] in *. subst w.
      apply (nb_get_In_2 _ _ _ KS) in He. congruence.
    + exists (key, x). split; [|reflexivity]. apply span_from_In; [exact KS|]. split; [apply nb_get_In_1; exact E|]. cbn [fst]. lia.
  - apply cell_miss. intros e He Ek. apply span_from_In in He; [|exact KS]. destruct He as [He _]. destruct e as [w y]. cbn [fst] in Ek. subst w.
    apply (nb_get_In_2 _ _ _ KS) in He. congruence.
Qed.

Theorem get_quadratic_array_presence d u v :
  get_quadratic_array d u v = None <-> get_quadratic d u v = None.
Proof. unfold get_quadratic_array, get_quadratic. destruct (lb_has v (d_nb d u)); split; intros H; try discriminate; reflexivity. Qed.

Theorem get_quadratic_array_shape d u v a :
  get_quadratic_array d u v = Some a ->
  length a = d_ncases d u /\ forall row, In row a -> length row = d_ncases d v.
Proof.
  unfold get_quadratic_array. destruct (lb_has v (d_nb d u)); [|discriminate]. intros [= <-]. split.
  - rewrite map_length, seq_length. reflexivity.
  - intros row Hr. apply in_map_iff in Hr. destruct Hr as [cu [<- _]]. cbv zeta. rewrite map_length, seq_length. reflexivity.
Qed.

Theorem get_quadratic_array_cell d u v a cu cv :
  DInv d -> get_quadratic_array d u v = Some a -> cu < d_ncases d u -> cv < d_ncases d v ->
  nth cv (nth cu a []) 0%Qc = quadratic (d_b d) (cs d u cu) (cs d v cv).
Proof.
  intros HD HA Hcu Hcv. unfold get_quadratic_array in HA. destruct (lb_has v (d_nb d u)); [|discriminate].
  injection HA as <-. rewrite (nth_map_seq _ _ cu [] Hcu). cbv zeta. rewrite (nth_map_seq _ _ cv 0%Qc Hcv).
  apply DInv_iff in HD. destruct HD as [HI _].
  rewrite span_cell_quadratic; [reflexivity|apply Inv_sorted; exact HI|lia|unfold d_ncases in Hcv; lia].
Qed.

(* array form, dict form and get_quadratic_case agree *)
Theorem get_quadratic_array_vs_case d u v a cu cv :
  DInv d -> get_quadratic_array d u v = Some a -> cu < d_ncases d u -> cv < d_ncases d v ->
  get_quadratic_case d u cu v cv = Some (nth cv (nth cu a []) 0%Qc).
Proof.
  intros HD HA Hcu Hcv. rewrite (get_quadratic_array_cell d u v a cu cv HD HA Hcu Hcv). unfold get_quadratic_case.
  destruct (Nat.ltb_spec cu (d_ncases d u)); [|lia]. destruct (Nat.ltb_spec cv (d_ncases d v)); [|lia]. reflexivity.
Qed.

Print Assumptions get_quadratic_array_presence.
Print Assumptions get_quadratic_array_shape.
Print Assumptions get_quadratic_array_cell.
Print Assumptions get_quadratic_array_vs_case.
