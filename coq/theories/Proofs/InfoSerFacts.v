(* C11 - deserialize_ndarrays (serialize_ndarrays info) gives info back *)
From Coq Require Import List ZArith QArith Qcanon Bool String.
From Dimod Require Import Model.InfoSer.
Import ListNotations.

Section Facts.
  Variables (A D : Type) (ser_arr : A -> D) (de_arr : D -> A).
  Hypothesis Harr : forall a, de_arr (ser_arr a) = a.

  Notation tree := (tree A D).
  Notation serialize := (serialize A D ser_arr).
  Notation deserialize := (deserialize A D de_arr).
  Notation norm := (norm A D).
  Notation user_ok := (user_ok A D).
  Notation lookup := (lookup A D).
  Notation is_array_doc := (is_array_doc A D).

  Section Ind.
    Variable P : tree -> Prop.
    Hypothesis Ha : forall a, P (TArr A D a).
    Hypothesis Hd : forall d, P (TDoc A D d).
    Hypothesis Hi : forall z, P (TInt A D z).
    Hypothesis Hf : forall q, P (TFloat A D q).
    Hypothesis Hs : forall s, P (TStr A D s).
    Hypothesis Hn : P (TNone A D).
    Hypothesis Hb : forall b, P (TBool A D b).
    Hypothesis Hl : forall l, Forall P l -> P (TList A D l).
    Hypothesis Hk : forall kvs, Forall (fun kv => P (snd kv)) kvs -> P (TDict A D kvs).
    Fixpoint tree_nested_ind (t : tree) : P t :=
      match t with
      | TArr _ _ a => Ha a | TDoc _ _ d => Hd d | TInt _ _ z => Hi z | TFloat _ _ q => Hf q
      | TStr _ _ s => Hs s | TNone _ _ => Hn | TBool _ _ b => Hb b
      | TList _ _ l => Hl l ((fix go (l : list tree) : Forall P l :=
                                match l with
                                | [] => Forall_nil P
                                | x :: xs => Forall_cons x (tree_nested_ind x) (go xs)
                                end) l)
      | TDict _ _ kvs => Hk kvs ((fix go (l : list (string * tree)) : Forall (fun kv => P (snd kv)) l :=
                                   match l with
                                   | [] => Forall_nil _
                                   | x :: xs => Forall_cons x (tree_nested_ind (snd x)) (go xs)
                                   end) kvs)
      end.
  End Ind.

  Lemma serialize_str_inv v s : serialize v = TStr A D s -> v = TStr A D s.
  Proof. destruct v; cbn [InfoSer.serialize]; intros H; try discriminate; exact H. Qed.

  Lemma is_array_doc_serialize kvs :
    is_array_doc (map (fun kv => (fst kv, serialize (snd kv))) kvs) = is_array_doc kvs.
  Proof.
    unfold InfoSer.is_array_doc.
    induction kvs as [|[k v] kvs IH]; [reflexivity|].
    cbn [map fst snd InfoSer.lookup]. destruct (String.eqb (type_key) k); [|exact IH].
    destruct v; try reflexivity.
  Qed.

  Lemma all_some_map_some {X Y} (f : X -> option Y) (g : X -> Y) l :
    Forall (fun x => f x = Some (g x)) l -> all_some (map f l) = Some (map g l).
  Proof.
    induction 1 as [|x l Hx H IH]; [reflexivity|].
    cbn [map all_some]. rewrite Hx, IH. reflexivity.
  Qed.

  Theorem info_roundtrip : forall t, user_ok t = true -> deserialize (serialize t) = Some (norm t).
  Proof.
    induction t as [a|d|z|q|s| |b|l IH|kvs IH] using tree_nested_ind; intros Hu; try reflexivity.
    - (* array *) cbn [InfoSer.serialize InfoSer.deserialize]. unfold InfoSer.is_array_doc.
      cbn. rewrite Harr. reflexivity.
    - (* list *) cbn [InfoSer.serialize InfoSer.deserialize InfoSer.norm]. rewrite map_map.
      cbn [InfoSer.user_ok] in Hu.
      rewrite (all_some_map_some (fun x => deserialize (serialize x)) norm l); [reflexivity|].
      apply Forall_forall. intros x Hx. apply (proj1 (Forall_forall _ _) IH x Hx).
      exact (proj1 (forallb_forall _ _) Hu x Hx).
    - (* dict *) cbn [InfoSer.serialize InfoSer.deserialize InfoSer.norm].
      cbn [InfoSer.user_ok] in Hu. apply andb_true_iff in Hu. destruct Hu as [Hm Hu].
      rewrite is_array_doc_serialize. apply negb_true_iff in Hm. rewrite Hm.
      rewrite map_map. cbn [fst snd].
      rewrite (all_some_map_some _ (fun kv => (fst kv, norm (snd kv))) kvs); [reflexivity|].
      apply Forall_forall. intros kv Hkv.
      rewrite (proj1 (Forall_forall _ _) IH kv Hkv); [reflexivity|].
      exact (proj1 (forallb_forall _ _) Hu kv Hkv).
  Qed.

  (* without booleans nothing changes at all *)
  Fixpoint no_bool (t : tree) : bool :=
    match t with
    | TBool _ _ _ => false
    | TList _ _ l => forallb no_bool l
    | TDict _ _ kvs => forallb (fun kv => no_bool (snd kv)) kvs
    | _ => true
    end.

  Lemma map_id_Forall' {X} (f : X -> X) l : Forall (fun x => f x = x) l -> map f l = l.
  Proof. induction 1 as [|x l Hx H IH]; [reflexivity|]. cbn [map]. rewrite Hx, IH. reflexivity. Qed.

  Lemma norm_no_bool : forall t, no_bool t = true -> norm t = t.
  Proof.
    induction t as [a|d|z|q|s| |b|l IH|kvs IH] using tree_nested_ind; intros H; try reflexivity; try discriminate.
    - cbn [InfoSer.norm]. f_equal. apply map_id_Forall'. apply Forall_forall. intros x Hx.
      apply (proj1 (Forall_forall _ _) IH x Hx). exact (proj1 (forallb_forall _ _) H x Hx).
    - cbn [InfoSer.norm]. f_equal. apply map_id_Forall'. apply Forall_forall. intros [k v] Hkv.
      cbn [fst snd]. f_equal. apply (proj1 (Forall_forall _ _) IH (k, v) Hkv).
      exact (proj1 (forallb_forall _ _) H (k, v) Hkv).
  Qed.

  Theorem info_roundtrip_exact :
    forall t, user_ok t = true -> no_bool t = true -> deserialize (serialize t) = Some t.
  Proof. intros t Hu Hb. rewrite (info_roundtrip t Hu), (norm_no_bool t Hb). reflexivity. Qed.

  (* a user mapping that carries type = 'array' is taken for an array document: the call raises
     when the other entries are missing, and silently returns an array when they are present *)
  Theorem info_type_marker_refuted :
    (deserialize (serialize (TDict A D [(type_key, TStr A D array_tag)])) = None) /\
    (forall d, deserialize (serialize (TDict A D [(type_key, TStr A D array_tag); (payload_key, TDoc A D d)]))
               = Some (TArr A D (de_arr d))).
  Proof. split; [reflexivity | intros d; reflexivity]. Qed.

  Theorem info_bool_refuted :
    deserialize (serialize (TDict A D [("flag"%string, TBool A D true)])) = Some (TDict A D [("flag"%string, TInt A D 1)]).
  Proof. reflexivity. Qed.
End Facts.
