(* The JSON text layer for labels: decimal integers, strings, nested arrays.
   parse (print x ++ rest) = (x, rest), and every proper prefix of a printed array is rejected. *)
From Coq Require Import List NArith ZArith Arith Bool Lia Decimal DecimalN.
From Dimod Require Import Gen.Gen_Codec Model.Codec Proofs.CodecBase Proofs.CodecFrame.
Import ListNotations.
Open Scope nat_scope.

(* ------------------------------------------------------------ decimal digits *)

Definition nodigit_start (r : bytes) : Prop :=
  match r with [] => True | b :: _ => digit_of b = None end.

Lemma p_uint_cons : forall b r, p_uint (b :: r) =
  match digit_of b with Some mk => let (u, r') := p_uint r in (mk u, r') | None => (Nil, b :: r) end.
Proof. reflexivity. Qed.

Lemma p_uint_app : forall u r, nodigit_start r -> p_uint (uint_bytes u ++ r) = (u, r).
Proof.
  induction u as [|u IH|u IH|u IH|u IH|u IH|u IH|u IH|u IH|u IH|u IH]; intros r H;
    cbn [uint_bytes List.app]; try (rewrite p_uint_cons; cbn [digit_of]; rewrite (IH r H); reflexivity).
  destruct r as [|b r]; [reflexivity|]. change (digit_of b = None) in H.
  rewrite p_uint_cons. now rewrite H.
Qed.

Lemma p_uint_digits_rest : forall u k, snd (p_uint (firstn k (uint_bytes u))) = [].
Proof.
  induction u as [|u IH|u IH|u IH|u IH|u IH|u IH|u IH|u IH|u IH|u IH]; intros [|k];
    cbn [uint_bytes firstn p_uint digit_of]; try reflexivity;
    specialize (IH k); destruct (p_uint (firstn k (uint_bytes u))) as [u' r']; cbn in *; exact IH.
Qed.

Lemma to_uint_nonnil : forall n, N.to_uint n <> Nil.
Proof.
  intros n E. pose proof (DecimalN.Unsigned.of_to n) as V. rewrite E in V. cbn in V. subst n.
  cbn in E. discriminate.
Qed.

Lemma uint_bytes_head : forall u, u <> Nil -> exists b t, uint_bytes u = b :: t /\ digit_of b <> None.
Proof. intros u H. destruct u; [contradiction|..]; cbn [uint_bytes]; eexists; eexists; (split; [reflexivity|cbn; discriminate]). Qed.

Lemma uint_bytes_length : forall u, u <> Nil -> 0 < length (uint_bytes u).
Proof. intros u H. destruct (uint_bytes_head u H) as [b [t [E _]]]. rewrite E. cbn. lia. Qed.

Lemma digit_not : forall b c, digit_of b <> None -> digit_of c = None -> N.eqb b c = false.
Proof. intros b c H1 H2. apply N.eqb_neq. intros E. subst. contradiction. Qed.

Lemma firstn_uint_head : forall u k, firstn k (uint_bytes u) = [] \/
  exists b t, firstn k (uint_bytes u) = b :: t /\ digit_of b <> None.
Proof.
  intros u [|k]; [now left|]. destruct u; cbn [uint_bytes firstn]; [now left|..];
    right; eexists; eexists; (split; [reflexivity|cbn; discriminate]).
Qed.

(* ------------------------------------------------------------ numbers in the header dictionary *)

Definition strict {A} (d : parser A) (e : bytes) : Prop := forall k, k < length e -> d (firstn k e) = Err.

Lemma strict_bind : forall {A B} (d1 : parser A) (f : A -> parser B) e1 e2 a,
  rt d1 e1 a -> strict d1 e1 -> strict (f a) e2 -> strict (bind d1 f) (e1 ++ e2).
Proof.
  intros A B d1 f e1 e2 a R1 S1 S2 k Hk. rewrite app_length in Hk. unfold bind.
  destruct (firstn_app_cases k e1 e2) as [[Hl E]|[Hl E]]; rewrite E.
  - now rewrite (S1 k Hl).
  - rewrite R1. apply S2. lia.
Qed.

Lemma strict_nil : forall {A} (d : parser A), strict d [].
Proof. intros A d k Hk. cbn in Hk. lia. Qed.

Lemma p_N_until_rt : forall c n, digit_of c = None -> rt (p_N_until c) (dec_N n ++ [c]) n.
Proof.
  intros c n Hc rest. unfold p_N_until, dec_N. rewrite <- app_assoc. cbn [List.app].
  rewrite p_uint_app by exact Hc.
  pose proof (to_uint_nonnil n) as NN. pose proof (DecimalN.Unsigned.of_to n) as V.
  destruct (N.to_uint n); [contradiction|..]; rewrite N.eqb_refl, V; reflexivity.
Qed.

Lemma p_N_until_strict : forall c n, strict (p_N_until c) (dec_N n ++ [c]).
Proof.
  intros c n k Hk. rewrite app_length in Hk. cbn [length] in Hk. unfold p_N_until, dec_N in *.
  assert (E : firstn k (uint_bytes (N.to_uint n) ++ [c]) = firstn k (uint_bytes (N.to_uint n))).
  { rewrite firstn_app. replace (k - length (uint_bytes (N.to_uint n))) with 0 by lia. cbn. apply app_nil_r. }
  rewrite E. pose proof (p_uint_digits_rest (N.to_uint n) k) as R.
  destruct (p_uint (firstn k (uint_bytes (N.to_uint n)))) as [u' r']. cbn in R. subst r'.
  destruct u'; reflexivity.
Qed.

(* ------------------------------------------------------------ strings *)

Definition WFs (s : bytes) : Prop := Forall (fun c => (32 <= c)%N /\ (c < 127)%N) s.

Lemma p_str_rt : forall s acc rest, WFs s -> p_str (esc s ++ 34%N :: rest) acc = Ok (List.rev acc ++ s, rest).
Proof.
  induction s as [|c s IH]; intros acc rest W.
  - cbn. now rewrite app_nil_r.
  - inversion W as [|? ? [Hlo Hhi] W']; subst. cbn [esc].
    destruct (N.eqb c 34 || N.eqb c 92) eqn:Ec.
    + cbn [List.app p_str]. cbn [N.eqb Pos.eqb]. rewrite Ec. rewrite (IH (c :: acc) rest W'). cbn [List.rev].
      now rewrite <- app_assoc.
    + apply orb_false_iff in Ec as [E1 E2]. cbn [List.app p_str]. rewrite E1, E2.
      replace (c <? 32)%N with false by (symmetry; apply N.ltb_ge; lia).
      replace (127 <=? c)%N with false by (symmetry; apply N.leb_gt; lia). cbn [orb].
      rewrite (IH (c :: acc) rest W'). cbn [List.rev]. now rewrite <- app_assoc.
Qed.

Lemma p_str_prefix : forall s k acc, p_str (firstn k (esc s)) acc = Err.
Proof.
  induction s as [|c s IH]; intros k acc.
  - destruct k; reflexivity.
  - destruct k as [|k]; [reflexivity|]. cbn [esc].
    destruct (N.eqb c 34 || N.eqb c 92) eqn:Ec.
    + cbn [firstn p_str]. cbn [N.eqb Pos.eqb]. destruct k as [|k]; [reflexivity|]. cbn [firstn]. rewrite Ec. apply IH.
    + apply orb_false_iff in Ec as [E1 E2]. cbn [firstn p_str]. rewrite E1, E2.
      destruct ((c <? 32)%N || (127 <=? c)%N); [reflexivity|apply IH].
Qed.

(* ------------------------------------------------------------ integers *)

Lemma p_int_digits_rt : forall neg u rest, u <> Nil -> nodigit_start rest ->
  p_int_digits neg (uint_bytes u ++ rest)
  = Ok (LInt (if neg then Z.opp (Z.of_N (N.of_uint u)) else Z.of_N (N.of_uint u)), rest).
Proof.
  intros neg u rest Hu Hr. unfold p_int_digits. rewrite (p_uint_app u rest Hr).
  destruct u; [contradiction|..]; reflexivity.
Qed.

Lemma p_int_rt : forall z rest, nodigit_start rest -> p_int (pr_Z z ++ rest) = Ok (LInt z, rest).
Proof.
  intros z rest Hr. destruct z as [|p|p]; unfold pr_Z, dec_N.
  - change ([48%N] ++ rest) with (uint_bytes (D0 Nil) ++ rest). unfold p_int. cbn [uint_bytes List.app].
    cbn [N.eqb Pos.eqb]. change (48%N :: rest) with (uint_bytes (D0 Nil) ++ rest).
    rewrite p_int_digits_rt by (try discriminate; assumption). reflexivity.
  - pose proof (to_uint_nonnil (Npos p)) as NN. pose proof (DecimalN.Unsigned.of_to (Npos p)) as V.
    destruct (uint_bytes_head _ NN) as [b [t [E D]]]. unfold p_int.
    assert (E' : uint_bytes (N.to_uint (N.pos p)) ++ rest = b :: (t ++ rest)) by (now rewrite E).
    rewrite E'. rewrite (digit_not b 45 D eq_refl). rewrite <- E'.
    rewrite p_int_digits_rt by assumption. now rewrite V.
  - pose proof (to_uint_nonnil (Npos p)) as NN. pose proof (DecimalN.Unsigned.of_to (Npos p)) as V.
    unfold p_int. cbn [List.app]. cbn [N.eqb Pos.eqb].
    rewrite p_int_digits_rt by assumption. now rewrite V.
Qed.

Lemma p_int_digits_prefix : forall neg u k,
  p_int_digits neg (firstn k (uint_bytes u)) = Err \/ exists y, p_int_digits neg (firstn k (uint_bytes u)) = Ok (y, []).
Proof.
  intros neg u k. unfold p_int_digits. pose proof (p_uint_digits_rest u k) as R.
  destruct (p_uint (firstn k (uint_bytes u))) as [u' r']. cbn in R. subst r'.
  destruct u'; [now left|..]; right; eexists; reflexivity.
Qed.

Lemma p_int_prefix : forall z k, p_int (firstn k (pr_Z z)) = Err \/ exists y, p_int (firstn k (pr_Z z)) = Ok (y, []).
Proof.
  intros z k. destruct z as [|p|p]; unfold pr_Z, dec_N.
  - destruct k as [|k]; [now left|]. right. destruct k; eexists; reflexivity.
  - destruct (firstn_uint_head (N.to_uint (Npos p)) k) as [E|[b [t [E D]]]].
    + rewrite E. now left.
    + unfold p_int. rewrite E. rewrite (digit_not b 45 D eq_refl). rewrite <- E. apply p_int_digits_prefix.
  - destruct k as [|k]; [now left|]. cbn [firstn]. unfold p_int. cbn [N.eqb Pos.eqb]. apply p_int_digits_prefix.
Qed.

(* ------------------------------------------------------------ labels *)

Section LabelInd.
  Variable P : label -> Prop.
  Hypothesis HI : forall z, P (LInt z).
  Hypothesis HS : forall s, P (LStr s).
  Hypothesis HT : forall ls, Forall P ls -> P (LTup ls).
  Fixpoint label_ind2 (l : label) : P l :=
    match l with
    | LInt z => HI z
    | LStr s => HS s
    | LTup ls => HT ls ((fix go (ls : list label) : Forall P ls :=
                           match ls with
                           | [] => Forall_nil P
                           | x :: r => Forall_cons x (label_ind2 x) (go r)
                           end) ls)
    end.
End LabelInd.

Inductive WFl : label -> Prop :=
| WInt : forall z, WFl (LInt z)
| WStr : forall s, WFs s -> WFl (LStr s)
| WTup : forall ls, Forall WFl ls -> WFl (LTup ls).

Fixpoint depth (l : label) : nat :=
  match l with
  | LTup ls => S (list_max (map depth ls))
  | _ => 1
  end.

Lemma pr_label_tup : forall ls, pr_label (LTup ls) = 91%N :: pr_items pr_label ls ++ [93%N].
Proof. reflexivity. Qed.

Lemma pr_items_cons : forall x r, pr_items pr_label (x :: r) =
  match r with [] => pr_label x | _ => pr_label x ++ SEP ++ pr_items pr_label r end.
Proof. intros x [|y r]; reflexivity. Qed.

(* the first byte of a printed label: never a closing bracket; digits/minus for integers *)
Lemma pr_label_head : forall x, exists b t, pr_label x = b :: t /\ N.eqb b 93 = false.
Proof.
  intros [z|s|ls].
  - destruct z as [|p|p]; cbn [pr_label pr_Z].
    + eexists; eexists; split; reflexivity.
    + destruct (uint_bytes_head _ (to_uint_nonnil (Npos p))) as [b [t [E D]]]. unfold dec_N. rewrite E.
      exists b, t. split; [reflexivity|]. exact (digit_not b 93 D eq_refl).
    + eexists; eexists; split; reflexivity.
  - eexists; eexists; split; reflexivity.
  - eexists; eexists; split; reflexivity.
Qed.

Lemma pr_items_head : forall x r, exists b t, pr_items pr_label (x :: r) = b :: t /\ N.eqb b 93 = false.
Proof.
  intros x r. rewrite pr_items_cons. destruct (pr_label_head x) as [b [t [E D]]].
  destruct r; rewrite E; eexists; eexists; (split; [reflexivity|exact D]).
Qed.

Lemma pr_items_length : forall ls, length ls <= length (pr_items pr_label ls).
Proof.
  induction ls as [|x r IH]; [cbn; lia|]. rewrite pr_items_cons.
  destruct (pr_label_head x) as [b [t [E _]]].
  destruct r as [|y r']; [rewrite E; cbn; lia|]. rewrite !app_length, E. cbn [length] in *. lia.
Qed.

Lemma depth_le_length : forall x, depth x <= length (pr_label x).
Proof.
  induction x as [z|s|ls IH] using label_ind2.
  - cbn [depth]. destruct (pr_label_head (LInt z)) as [b [t [E _]]]. rewrite E. cbn. lia.
  - cbn. lia.
  - rewrite pr_label_tup. cbn [depth length]. rewrite app_length. cbn [length].
    assert (list_max (map depth ls) <= length (pr_items pr_label ls)); [|lia].
    induction IH as [|x r Hx Hr IHr]; [cbn; lia|]. rewrite pr_items_cons.
    change (list_max (map depth (x :: r))) with (Nat.max (depth x) (list_max (map depth r))).
    destruct r as [|y r']; [change (list_max (map depth [])) with 0; lia|]. rewrite !app_length. lia.
Qed.

(* dispatch of p_label on the first byte *)
Lemma p_label_int_dispatch : forall f b t, N.eqb b 34 = false -> N.eqb b 91 = false ->
  p_label (S f) (b :: t) = p_int (b :: t).
Proof. intros f b t H1 H2. cbn [p_label]. now rewrite H1, H2. Qed.

Lemma pr_Z_head : forall z, exists b t, pr_Z z = b :: t /\ N.eqb b 34 = false /\ N.eqb b 91 = false.
Proof.
  intros [|p|p]; unfold pr_Z.
  - eexists; eexists; repeat split; reflexivity.
  - destruct (uint_bytes_head _ (to_uint_nonnil (Npos p))) as [b [t [E D]]]. unfold dec_N. rewrite E.
    exists b, t. repeat split; [exact (digit_not b 34 D eq_refl)|exact (digit_not b 91 D eq_refl)].
  - eexists; eexists; repeat split; reflexivity.
Qed.

Definition spec_at (x : label) : Prop :=
  forall fuel more, WFl x -> nodigit_start more ->
    p_label fuel (pr_label x ++ more) = if depth x <=? fuel then Ok (x, more) else Err.

Lemma sep_nodigit : forall t, nodigit_start (SEP ++ t).
Proof. intros t. reflexivity. Qed.

Lemma items_spec : forall ls, Forall spec_at ls -> Forall WFl ls -> ls <> [] ->
  forall f g more acc, length ls <= g ->
    p_items (p_label f) g (pr_items pr_label ls ++ 93%N :: more) acc
    = if forallb (fun x => depth x <=? f) ls then Ok (LTup (List.rev acc ++ ls), more) else Err.
Proof.
  induction ls as [|x r IH]; intros HS HW Hne f g more acc Hg; [contradiction|].
  inversion HS as [|? ? Sx Sr]; subst. inversion HW as [|? ? Wx Wr]; subst.
  destruct g as [|g]; [cbn in Hg; lia|]. cbn [length] in Hg. rewrite pr_items_cons. cbn [p_items forallb].
  destruct r as [|y r'].
  - rewrite (Sx f (93%N :: more) Wx eq_refl).
    destruct (depth x <=? f); [|reflexivity]. cbn [andb List.rev]. reflexivity.
  - rewrite <- !app_assoc. rewrite (Sx f _ Wx (sep_nodigit _)).
    destruct (depth x <=? f); [|reflexivity]. cbn [SEP List.app andb].
    rewrite (IH Sr Wr ltac:(discriminate) f g more (x :: acc) ltac:(lia)).
    cbn [List.rev]. now rewrite <- app_assoc.
Qed.

Lemma forallb_depth : forall f ls, forallb (fun x => depth x <=? f) ls = (list_max (map depth ls) <=? f).
Proof.
  intros f. induction ls as [|x r IH]; [reflexivity|]. cbn [forallb]. rewrite IH.
  change (list_max (map depth (x :: r))) with (Nat.max (depth x) (list_max (map depth r))).
  destruct (depth x <=? f) eqn:E1; destruct (list_max (map depth r) <=? f) eqn:E2;
    destruct (Nat.max (depth x) (list_max (map depth r)) <=? f) eqn:E3; try reflexivity;
    repeat match goal with
           | H : (_ <=? _) = true |- _ => apply Nat.leb_le in H
           | H : (_ <=? _) = false |- _ => apply Nat.leb_gt in H
           end; lia.
Qed.

Theorem label_spec : forall x, spec_at x.
Proof.
  induction x as [z|s|ls IH] using label_ind2; intros fuel more W Hm.
  - cbn [depth pr_label]. destruct fuel as [|f]; [reflexivity|]. cbn [Nat.leb].
    destruct (pr_Z_head z) as [b [t [E [H1 H2]]]].
    assert (E' : pr_Z z ++ more = b :: (t ++ more)) by (now rewrite E).
    rewrite E', (p_label_int_dispatch f b _ H1 H2), <- E'. now apply p_int_rt.
  - cbn [depth pr_label]. destruct fuel as [|f]; [reflexivity|]. cbn [Nat.leb].
    inversion W as [|? Ws|]; subst. cbn [List.app p_label]. cbn [N.eqb Pos.eqb].
    rewrite <- app_assoc. cbn [List.app]. now rewrite (p_str_rt s [] more Ws).
  - inversion W as [| |? Wls]; subst. rewrite pr_label_tup. cbn [depth].
    destruct fuel as [|f]; [reflexivity|]. cbn [Nat.leb].
    destruct ls as [|x r].
    + reflexivity.
    + cbn [List.app]. rewrite <- app_assoc. cbn [p_label]. cbn [N.eqb Pos.eqb].
      destruct (pr_items_head x r) as [b [t [E D]]].
      assert (E' : pr_items pr_label (x :: r) ++ [93%N] ++ more = b :: (t ++ [93%N] ++ more)) by (now rewrite E).
      rewrite E'. rewrite D. rewrite <- E'. cbn [List.app].
      rewrite (items_spec (x :: r) IH Wls ltac:(discriminate) f _ more []).
      * rewrite forallb_depth. reflexivity.
      * rewrite app_length. pose proof (pr_items_length (x :: r)). lia.
Qed.

(* ------------------------------------------------------------ proper prefixes *)

Definition weak_at (x : label) : Prop :=
  forall fuel k, k < length (pr_label x) ->
    p_label fuel (firstn k (pr_label x)) = Err \/ exists y, p_label fuel (firstn k (pr_label x)) = Ok (y, []).

Lemma nodigit_firstn : forall k t, nodigit_start t -> nodigit_start (firstn k t).
Proof. intros [|k] [|b t] H; cbn; auto. Qed.

(* a proper prefix of "x1, x2, ..., xn]" never parses as the rest of an array *)
Lemma items_prefix : forall ls, Forall weak_at ls -> Forall WFl ls -> ls <> [] ->
  forall f g acc k, k < length (pr_items pr_label ls ++ [93%N]) ->
    p_items (p_label f) g (firstn k (pr_items pr_label ls ++ [93%N])) acc = Err.
Proof.
  induction ls as [|x r IH]; intros HP HW Hne f g acc k Hk; [contradiction|].
  inversion HP as [|? ? Px Pr]; subst. inversion HW as [|? ? Wx Wr]; subst.
  destruct g as [|g]; [reflexivity|]. cbn [p_items]. rewrite pr_items_cons in *.
  destruct r as [|y r'].
  - destruct (firstn_app_cases k (pr_label x) [93%N]) as [[Hl E]|[Hl E]]; rewrite E.
    + destruct (Px f k Hl) as [E1|[y E1]]; rewrite E1; reflexivity.
    + rewrite app_length in Hk. cbn [length] in Hk. replace (k - length (pr_label x)) with 0 by lia.
      cbn [firstn]. rewrite (label_spec x f [] Wx I). destruct (depth x <=? f); reflexivity.
  - rewrite <- !app_assoc in *.
    set (tl := SEP ++ pr_items pr_label (y :: r') ++ [93%N]) in *.
    destruct (firstn_app_cases k (pr_label x) tl) as [[Hl E]|[Hl E]]; rewrite E.
    + destruct (Px f k Hl) as [E1|[z E1]]; rewrite E1; reflexivity.
    + rewrite app_length in Hk.
      rewrite (label_spec x f _ Wx (nodigit_firstn _ tl (sep_nodigit _))).
      destruct (depth x <=? f); [|reflexivity].
      remember (k - length (pr_label x)) as k' eqn:Ek'.
      assert (Hk' : k' < length tl) by lia. unfold tl in *. cbn [SEP List.app] in *.
      destruct k' as [|[|k'']]; [reflexivity|reflexivity|]. cbn [firstn].
      apply (IH Pr Wr ltac:(discriminate) f g (x :: acc) k''). cbn [length] in Hk'. lia.
Qed.

Lemma tup_prefix : forall ls, Forall weak_at ls -> Forall WFl ls ->
  forall fuel k, k < length (pr_label (LTup ls)) -> p_label fuel (firstn k (pr_label (LTup ls))) = Err.
Proof.
  intros ls HP HW fuel k Hk. rewrite pr_label_tup in *. destruct fuel as [|f]; [reflexivity|].
  destruct k as [|k]; [reflexivity|]. cbn [firstn p_label]. cbn [N.eqb Pos.eqb]. cbn [length] in Hk.
  destruct ls as [|x r].
  - cbn in Hk. destruct k; [reflexivity|lia].
  - destruct (pr_items_head x r) as [b [t [E D]]].
    remember (firstn k (pr_items pr_label (x :: r) ++ [93%N])) as p eqn:Ep.
    destruct p as [|c p']; [reflexivity|].
    assert (c = b).
    { rewrite E in Ep. destruct k; cbn in Ep; [discriminate|]. now inversion Ep. }
    subst c. rewrite D. rewrite Ep. apply items_prefix; auto; [discriminate|lia].
Qed.

Theorem label_weak : forall x, WFl x -> weak_at x.
Proof.
  induction x as [z|s|ls IH] using label_ind2; intros W fuel k Hk.
  - cbn [pr_label] in *. destruct fuel as [|f]; [now left|].
    destruct (pr_Z_head z) as [b [t [E [H1 H2]]]].
    destruct k as [|k]; [now left|].
    assert (E' : firstn (S k) (pr_Z z) = b :: firstn k t) by (now rewrite E).
    rewrite E', (p_label_int_dispatch f b _ H1 H2), <- E'. apply p_int_prefix.
  - left. cbn [pr_label] in *. destruct fuel as [|f]; [reflexivity|].
    destruct k as [|k]; [reflexivity|]. cbn [firstn p_label]. cbn [N.eqb Pos.eqb].
    cbn [length] in Hk. rewrite app_length in Hk. cbn [length] in Hk.
    rewrite firstn_app. replace (k - length (esc s)) with 0 by lia. cbn [firstn]. rewrite app_nil_r.
    now rewrite p_str_prefix.
  - left. inversion W as [| |? Wls]; subst. apply tup_prefix; [|assumption|assumption].
    clear Hk W. induction IH as [|x r Hx Hr IHr]; constructor.
    + apply Hx. now inversion Wls.
    + apply IHr. now inversion Wls.
Qed.

(* ------------------------------------------------------------ label arrays (VARS payload, v1 header) *)

Definition LabelsWF (ls : list label) : Prop := Forall WFl ls.

Theorem labels_rt : forall ls rest, LabelsWF ls -> nodigit_start rest ->
  p_labels (pr_labels ls ++ rest) = Ok (ls, rest).
Proof.
  intros ls rest W Hr. unfold p_labels, pr_labels.
  rewrite (label_spec (LTup ls) _ rest (WTup ls W) Hr).
  replace (depth (LTup ls) <=? S (length (pr_label (LTup ls) ++ rest))) with true; [reflexivity|].
  symmetry. apply Nat.leb_le. pose proof (depth_le_length (LTup ls)). rewrite app_length. lia.
Qed.

Theorem labels_strict : forall ls, LabelsWF ls -> strict p_labels (pr_labels ls).
Proof.
  intros ls W k Hk. unfold p_labels, pr_labels in *.
  rewrite (tup_prefix ls); [reflexivity| |assumption|assumption].
  clear Hk. induction W; constructor; auto. now apply label_weak.
Qed.

Lemma spaces_nodigit : forall j, nodigit_start (spaces j).
Proof. intros [|j]; reflexivity. Qed.

Theorem label_roundtrip : forall ls j, LabelsWF ls -> labels_dec (pr_labels ls ++ spaces j) = Some ls.
Proof.
  intros ls j W. unfold labels_dec, json_doc. rewrite (labels_rt ls _ W (spaces_nodigit j)).
  now rewrite is_ws_spaces.
Qed.

Theorem label_prefix_rejected : forall ls k, LabelsWF ls -> k < length (pr_labels ls) ->
  labels_dec (firstn k (pr_labels ls)) = None.
Proof. intros ls k W Hk. unfold labels_dec, json_doc. now rewrite (labels_strict ls W k Hk). Qed.
