(* Facts about the sparse Variables model: a well-formed [vars] behaves like
   the duplicate-free list [to_list v]. *)
From Coq Require Import List ZArith Bool Arith Lia FinFun Permutation.
From Dimod Require Import Model.Vars Model.ChkC13.
Import ListNotations.

(* ---------- label equality ---------- *)
Lemma lab_eqb_eq x y : lab_eqb x y = true <-> x = y.
Proof.
  destruct x as [a|a], y as [b|b]; cbn [lab_eqb]; split; intro H; try discriminate.
  - apply Z.eqb_eq in H. now subst.
  - injection H as ->. apply Z.eqb_refl.
  - apply Nat.eqb_eq in H. now subst.
  - injection H as ->. apply Nat.eqb_refl.
Qed.

Lemma lab_eqb_refl x : lab_eqb x x = true.
Proof. now apply lab_eqb_eq. Qed.

Lemma lab_eqb_spec x y : reflect (x = y) (lab_eqb x y).
Proof.
  destruct (lab_eqb x y) eqn:E; constructor.
  - now apply lab_eqb_eq.
  - intro H. apply lab_eqb_eq in H. congruence.
Qed.

Lemma lab_eqb_neq x y : lab_eqb x y = false <-> x <> y.
Proof. destruct (lab_eqb_spec x y) as [->|Hne]; split; congruence. Qed.

Lemma lab_eqb_false x y : x <> y -> lab_eqb x y = false.
Proof. apply lab_eqb_neq. Qed.

Lemma lab_eq_dec (x y : lab) : {x = y} + {x <> y}.
Proof. destruct (lab_eqb_spec x y); [left|right]; assumption. Qed.

Lemma mem_lab_In l ls : mem_lab l ls = true <-> In l ls.
Proof.
  unfold mem_lab. rewrite existsb_exists. split.
  - intros [x [Hin Heq]]. apply lab_eqb_eq in Heq. now subst.
  - intro Hin. exists l. split; [assumption|apply lab_eqb_refl].
Qed.

Lemma mem_lab_false l ls : mem_lab l ls = false <-> ~ In l ls.
Proof.
  rewrite <- mem_lab_In. destruct (mem_lab l ls); split; congruence.
Qed.

Lemma nodup_labs_NoDup ls : nodup_labs ls = true <-> NoDup ls.
Proof.
  induction ls as [|x r IH]; cbn [nodup_labs].
  - split; [constructor|reflexivity].
  - rewrite andb_true_iff, negb_true_iff, mem_lab_false, IH. split.
    + intros [Hx Hr]. now constructor.
    + intro Hnd. inversion Hnd; subst. now split.
Qed.

(* ---------- association lists ---------- *)
Section NatMaps.
  Context {V : Type}.
  Implicit Types m : list (nat * V).

  Lemma nget_ndel_same k m : nget k (ndel k m) = None.
  Proof.
    induction m as [|[k' x] r IH]; cbn [ndel nget]; [reflexivity|].
    destruct (Nat.eqb k k') eqn:E; [assumption|].
    cbn [nget]. now rewrite E.
  Qed.

  Lemma nget_ndel_other k k' m : k <> k' -> nget k (ndel k' m) = nget k m.
  Proof.
    intro Hne. induction m as [|[k2 x] r IH]; cbn [ndel nget]; [reflexivity|].
    destruct (Nat.eqb_spec k' k2) as [->|Hk2].
    - rewrite IH. destruct (Nat.eqb_spec k k2); [contradiction|reflexivity].
    - cbn [nget]. now rewrite IH.
  Qed.

  Lemma nget_nset_same k x m : nget k (nset k x m) = Some x.
  Proof. unfold nset. cbn [nget]. now rewrite Nat.eqb_refl. Qed.

  Lemma nget_nset_other k k' x m : k <> k' -> nget k (nset k' x m) = nget k m.
  Proof.
    intro Hne. unfold nset. cbn [nget].
    destruct (Nat.eqb_spec k k'); [contradiction|]. now apply nget_ndel_other.
  Qed.
End NatMaps.

Section LabMaps.
  Context {V : Type}.
  Implicit Types m : list (lab * V).

  Lemma lget_ldel_same k m : lget k (ldel k m) = None.
  Proof.
    induction m as [|[k' x] r IH]; cbn [ldel lget]; [reflexivity|].
    destruct (lab_eqb k k') eqn:E; [assumption|].
    cbn [lget]. now rewrite E.
  Qed.

  Lemma lget_ldel_other k k' m : k <> k' -> lget k (ldel k' m) = lget k m.
  Proof.
    intro Hne. induction m as [|[k2 x] r IH]; cbn [ldel lget]; [reflexivity|].
    destruct (lab_eqb_spec k' k2) as [->|Hk2].
    - rewrite IH. destruct (lab_eqb_spec k k2); [contradiction|reflexivity].
    - cbn [lget]. now rewrite IH.
  Qed.

  Lemma lget_lset_same k x m : lget k (lset k x m) = Some x.
  Proof. unfold lset. cbn [lget]. now rewrite lab_eqb_refl. Qed.

  Lemma lget_lset_other k k' x m : k <> k' -> lget k (lset k' x m) = lget k m.
  Proof.
    intro Hne. unfold lset. cbn [lget].
    destruct (lab_eqb_spec k k'); [contradiction|]. now apply lget_ldel_other.
  Qed.

  Lemma lget_In_fst k x m : lget k m = Some x -> In k (map fst m).
  Proof.
    induction m as [|[k' y] r IH]; cbn [lget map fst]; [discriminate|].
    destruct (lab_eqb_spec k k') as [->|Hne]; intro H; [now left|right; auto].
  Qed.

  Lemma lget_None_notin k m : lget k m = None <-> ~ In k (map fst m).
  Proof.
    induction m as [|[k' y] r IH]; cbn [lget map fst In]; [tauto|].
    destruct (lab_eqb_spec k k') as [->|Hne].
    - split; [discriminate|]. intro H. exfalso. apply H. now left.
    - rewrite IH. split; [intros H [E|E]; [congruence|auto] | tauto].
  Qed.
End LabMaps.

(* ---------- reading a state ---------- *)
Lemma at_some v i l : nget i (i2l v) = Some l -> at_ v i = l.
Proof. unfold at_. now intros ->. Qed.

Lemma at_none v i : nget i (i2l v) = None -> at_ v i = LI (Z.of_nat i).
Proof. unfold at_. now intros ->. Qed.

Lemma to_list_length v : length (to_list v) = stop v.
Proof. unfold to_list. now rewrite map_length, seq_length. Qed.

Lemma In_to_list v l : In l (to_list v) <-> exists i, i < stop v /\ at_ v i = l.
Proof.
  unfold to_list. rewrite in_map_iff. split.
  - intros [i [Hat Hin]]. apply in_seq in Hin. exists i. split; [lia|assumption].
  - intros [i [Hlt Hat]]. exists i. split; [assumption|]. apply in_seq. lia.
Qed.

Lemma nth_to_list v i d : i < stop v -> nth i (to_list v) d = at_ v i.
Proof.
  intro Hlt. unfold to_list.
  rewrite nth_indep with (d' := at_ v 0) by (now rewrite map_length, seq_length).
  rewrite map_nth, seq_nth by assumption. reflexivity.
Qed.

Lemma to_list_ext v v' f :
  stop v' = stop v ->
  (forall i, i < stop v -> at_ v' i = f (at_ v i)) ->
  to_list v' = map f (to_list v).
Proof.
  intros Hs Hat. unfold to_list. rewrite Hs, map_map.
  apply map_ext_in. intros i Hin. apply in_seq in Hin. apply Hat. lia.
Qed.

Lemma wf_i2l v i l :
  wf v -> nget i (i2l v) = Some l ->
  i < stop v /\ l <> LI (Z.of_nat i) /\ lget l (l2i v) = Some i.
Proof. intros [H1 _]. apply H1. Qed.

Lemma wf_l2i v l i : wf v -> lget l (l2i v) = Some i -> nget i (i2l v) = Some l.
Proof. intros [_ [H2 _]]. apply H2. Qed.

Lemma wf_empty : wf empty.
Proof.
  unfold wf, empty. cbn [i2l l2i stop nget lget].
  repeat split; intros; discriminate.
Qed.

Lemma lget_at v l i : wf v -> lget l (l2i v) = Some i -> i < stop v /\ at_ v i = l.
Proof.
  intros Hwf Hl. pose proof (wf_l2i _ _ _ Hwf Hl) as Hn.
  destruct (wf_i2l _ _ _ Hwf Hn) as [Hlt _]. split; [assumption|now apply at_some].
Qed.

Lemma at_inj v i j : wf v -> i < stop v -> j < stop v -> at_ v i = at_ v j -> i = j.
Proof.
  intros Hwf Hi Hj Heq.
  destruct (nget i (i2l v)) as [a|] eqn:Ei, (nget j (i2l v)) as [b|] eqn:Ej.
  - rewrite (at_some _ _ _ Ei), (at_some _ _ _ Ej) in Heq. subst b.
    destruct (wf_i2l _ _ _ Hwf Ei) as [_ [_ Hgi]].
    destruct (wf_i2l _ _ _ Hwf Ej) as [_ [_ Hgj]]. congruence.
  - rewrite (at_some _ _ _ Ei), (at_none _ _ Ej) in Heq. subst a.
    destruct (wf_i2l _ _ _ Hwf Ei) as [_ [_ Hgi]].
    destruct Hwf as [_ [_ H3]]. specialize (H3 _ _ Hgi).
    rewrite Nat2Z.id in H3. unfold has_key in H3. rewrite Ej in H3.
    assert (Hr : in_range v (Z.of_nat j) = true).
    { unfold in_range. apply andb_true_iff. split; [apply Z.leb_le|apply Z.ltb_lt]; lia. }
    specialize (H3 Hr). discriminate.
  - rewrite (at_none _ _ Ei), (at_some _ _ _ Ej) in Heq. subst b.
    destruct (wf_i2l _ _ _ Hwf Ej) as [_ [_ Hgj]].
    destruct Hwf as [_ [_ H3]]. specialize (H3 _ _ Hgj).
    rewrite Nat2Z.id in H3. unfold has_key in H3. rewrite Ei in H3.
    assert (Hr : in_range v (Z.of_nat i) = true).
    { unfold in_range. apply andb_true_iff. split; [apply Z.leb_le|apply Z.ltb_lt]; lia. }
    specialize (H3 Hr). discriminate.
  - rewrite (at_none _ _ Ei), (at_none _ _ Ej) in Heq. injection Heq as Heq. lia.
Qed.

Lemma in_range_iff v z : in_range v z = true <-> (0 <= z < Z.of_nat (stop v))%Z.
Proof.
  unfold in_range. rewrite andb_true_iff, Z.leb_le, Z.ltb_lt. tauto.
Qed.

(* conditions 1, 2 and injectivity of [at_] give back the third condition *)
Lemma wf_intro v :
  (forall i l, nget i (i2l v) = Some l ->
               i < stop v /\ l <> LI (Z.of_nat i) /\ lget l (l2i v) = Some i) ->
  (forall l i, lget l (l2i v) = Some i -> nget i (i2l v) = Some l) ->
  (forall i j, i < stop v -> j < stop v -> at_ v i = at_ v j -> i = j) ->
  wf v.
Proof.
  intros H1 H2 Hinj. split; [assumption|split; [assumption|]].
  intros z i Hg Hr. apply in_range_iff in Hr.
  unfold has_key. destruct (nget (Z.to_nat z) (i2l v)) as [a|] eqn:Ez; [reflexivity|].
  exfalso. pose proof (H2 _ _ Hg) as Hn. destruct (H1 _ _ Hn) as [Hlt [Hne _]].
  assert (Hi : i = Z.to_nat z).
  { apply Hinj; [assumption|lia|].
    rewrite (at_some _ _ _ Hn), (at_none _ _ Ez). f_equal. lia. }
  subst i. congruence.
Qed.

Lemma wf_nodup v : wf v -> NoDup (to_list v).
Proof.
  intro Hwf. apply (NoDup_nth (to_list v) (LI 0)).
  intros i j Hi Hj. rewrite to_list_length in Hi, Hj.
  rewrite !nth_to_list by assumption. now apply at_inj.
Qed.

(* an empty label table means an empty index table *)
Lemma wf_range_i2l v i : wf v -> l2i v = [] -> nget i (i2l v) = None.
Proof.
  intros Hwf He. destruct (nget i (i2l v)) as [a|] eqn:E; [|reflexivity].
  destruct (wf_i2l _ _ _ Hwf E) as [_ [_ Hg]]. rewrite He in Hg. discriminate.
Qed.

(* ---------- count / index ---------- *)
Lemma count_int_eq v z :
  wf v ->
  count_int v z =
  (in_range v z && negb (has_key (Z.to_nat z) (i2l v))) || has_lkey (LI z) (l2i v).
Proof.
  intro Hwf. unfold count_int, is_range.
  destruct (l2i v) as [|p r] eqn:E; [|reflexivity].
  unfold has_key. rewrite (wf_range_i2l _ _ Hwf E).
  unfold has_lkey. cbn [lget negb]. now rewrite andb_true_r, orb_false_r.
Qed.

Lemma count_spec v l : wf v -> (count v l = true <-> In l (to_list v)).
Proof.
  intro Hwf. rewrite In_to_list. destruct l as [z|a]; cbn [count].
  - rewrite (count_int_eq _ _ Hwf), orb_true_iff, andb_true_iff, negb_true_iff.
    unfold has_key, has_lkey. split.
    + intros [[Hr Hk]|Hk].
      * apply in_range_iff in Hr. exists (Z.to_nat z). split; [lia|].
        destruct (nget (Z.to_nat z) (i2l v)) eqn:E; [discriminate|].
        rewrite (at_none _ _ E). f_equal. lia.
      * destruct (lget (LI z) (l2i v)) as [i|] eqn:E; [|discriminate].
        exists i. now apply lget_at.
    + intros [i [Hlt Hat]]. destruct (nget i (i2l v)) as [b|] eqn:E.
      * rewrite (at_some _ _ _ E) in Hat. subst b.
        destruct (wf_i2l _ _ _ Hwf E) as [_ [_ Hg]]. right. now rewrite Hg.
      * rewrite (at_none _ _ E) in Hat. injection Hat as <-. left.
        rewrite Nat2Z.id, E. split; [|reflexivity]. apply in_range_iff. lia.
  - unfold has_lkey. split.
    + destruct (lget (LA a) (l2i v)) as [i|] eqn:E; [|discriminate].
      intros _. exists i. now apply lget_at.
    + intros [i [Hlt Hat]]. destruct (nget i (i2l v)) as [b|] eqn:E.
      * rewrite (at_some _ _ _ E) in Hat. subst b.
        destruct (wf_i2l _ _ _ Hwf E) as [_ [_ Hg]]. now rewrite Hg.
      * rewrite (at_none _ _ E) in Hat. discriminate.
Qed.

Lemma count_false v l : wf v -> (count v l = false <-> ~ In l (to_list v)).
Proof.
  intro Hwf. rewrite <- (count_spec _ _ Hwf). destruct (count v l); split; congruence.
Qed.

Lemma count_false_lget v l : wf v -> count v l = false -> lget l (l2i v) = None.
Proof.
  intros Hwf Hc. destruct (lget l (l2i v)) as [i|] eqn:E; [|reflexivity].
  exfalso. apply (count_false _ _ Hwf) in Hc. apply Hc, In_to_list.
  exists i. now apply lget_at.
Qed.

(* where a present label sits *)
Definition pos (v : vars) (l : lab) : nat :=
  match lget l (l2i v) with
  | Some i => i
  | None => match l with LI z => Z.to_nat z | LA _ => 0 end
  end.

Lemma pos_spec v l : wf v -> count v l = true -> pos v l < stop v /\ at_ v (pos v l) = l.
Proof.
  intros Hwf Hc. unfold pos. destruct (lget l (l2i v)) as [i|] eqn:E.
  - now apply lget_at.
  - destruct l as [z|a]; cbn [count] in Hc.
    + rewrite (count_int_eq _ _ Hwf) in Hc. unfold has_lkey in Hc. rewrite E in Hc.
      rewrite orb_false_r, andb_true_iff, negb_true_iff in Hc. destruct Hc as [Hr Hk].
      apply in_range_iff in Hr. split; [lia|]. unfold has_key in Hk.
      destruct (nget (Z.to_nat z) (i2l v)) eqn:En; [discriminate|].
      rewrite (at_none _ _ En). f_equal. lia.
    + unfold has_lkey in Hc. rewrite E in Hc. discriminate.
Qed.

Lemma index_eq v l : index v l = if count v l then Some (pos v l) else None.
Proof.
  unfold index, pos. destruct (count v l) eqn:Hc; cbn [negb]; [|reflexivity].
  destruct (lget l (l2i v)) as [i|] eqn:E; [reflexivity|].
  destruct l as [z|a]; [reflexivity|].
  cbn [count] in Hc. unfold has_lkey in Hc. rewrite E in Hc. discriminate.
Qed.

Lemma list_index_notin l ls : ~ In l ls -> list_index l ls = None.
Proof.
  induction ls as [|x r IH]; cbn [list_index In]; [reflexivity|].
  intro H. destruct (lab_eqb_spec l x) as [->|Hne]; [exfalso; auto|].
  rewrite IH by tauto. reflexivity.
Qed.

Lemma list_index_nth ls i d :
  NoDup ls -> i < length ls -> list_index (nth i ls d) ls = Some i.
Proof.
  intro Hnd. revert i. induction Hnd as [|x r Hx Hnd IH]; intros i Hlt; cbn [length] in Hlt.
  - lia.
  - destruct i as [|i]; cbn [nth list_index].
    + now rewrite lab_eqb_refl.
    + destruct (lab_eqb_spec (nth i r d) x) as [E|Hne].
      * exfalso. apply Hx. rewrite <- E. apply nth_In. lia.
      * rewrite IH by lia. reflexivity.
Qed.

Lemma index_spec v l : wf v -> index v l = list_index l (to_list v).
Proof.
  intro Hwf. rewrite index_eq. destruct (count v l) eqn:Hc.
  - destruct (pos_spec _ _ Hwf Hc) as [Hlt Hat].
    rewrite <- Hat at 2. rewrite <- (nth_to_list v (pos v l) (LI 0) Hlt).
    symmetry. apply list_index_nth; [now apply wf_nodup|now rewrite to_list_length].
  - symmetry. apply list_index_notin. now apply count_false.
Qed.

(* ---------- store / append ---------- *)
Lemma stop_store v l : stop (store v l) = S (stop v).
Proof. unfold store. destruct (lab_eqb l (LI (Z.of_nat (stop v)))); reflexivity. Qed.

Lemma nget_stop_none v : wf v -> nget (stop v) (i2l v) = None.
Proof.
  intro Hwf. destruct (nget (stop v) (i2l v)) as [a|] eqn:E; [|reflexivity].
  destruct (wf_i2l _ _ _ Hwf E) as [Hlt _]. lia.
Qed.

Lemma at_store v l i : wf v -> at_ (store v l) i = if Nat.eqb i (stop v) then l else at_ v i.
Proof.
  intro Hwf. unfold store.
  destruct (lab_eqb_spec l (LI (Z.of_nat (stop v)))) as [->|Hne]; unfold at_; cbn [i2l].
  - destruct (Nat.eqb_spec i (stop v)) as [->|Hi]; [now rewrite nget_stop_none|reflexivity].
  - destruct (Nat.eqb_spec i (stop v)) as [->|Hi].
    + now rewrite nget_nset_same.
    + now rewrite nget_nset_other.
Qed.

Lemma to_list_store v l : wf v -> to_list (store v l) = to_list v ++ [l].
Proof.
  intro Hwf. unfold to_list. rewrite stop_store, seq_S, map_app. cbn [map Nat.add].
  f_equal.
  - apply map_ext_in. intros i Hin. apply in_seq in Hin. rewrite at_store by assumption.
    destruct (Nat.eqb_spec i (stop v)); [lia|reflexivity].
  - now rewrite at_store, Nat.eqb_refl.
Qed.

Lemma wf_store v l : wf v -> count v l = false -> wf (store v l).
Proof.
  intros Hwf Hc. pose proof (count_false_lget _ _ Hwf Hc) as Hg.
  apply (count_false _ _ Hwf) in Hc.
  apply wf_intro.
  - unfold store.
    destruct (lab_eqb_spec l (LI (Z.of_nat (stop v)))) as [->|Hne]; cbn [i2l l2i stop]; intros i a Hn.
    + destruct (wf_i2l _ _ _ Hwf Hn) as [Hlt [Hna Hl]]. repeat split; [lia|assumption|assumption].
    + destruct (Nat.eq_dec i (stop v)) as [->|Hi].
      * rewrite nget_nset_same in Hn. injection Hn as <-.
        repeat split; [lia|assumption|apply lget_lset_same].
      * rewrite nget_nset_other in Hn by assumption.
        destruct (wf_i2l _ _ _ Hwf Hn) as [Hlt [Hna Hl]]. repeat split; [lia|assumption|].
        rewrite lget_lset_other; [assumption|]. intros ->. congruence.
  - unfold store.
    destruct (lab_eqb_spec l (LI (Z.of_nat (stop v)))) as [->|Hne]; cbn [i2l l2i stop]; intros a i Hl.
    + now apply wf_l2i.
    + destruct (lab_eq_dec a l) as [->|Ha].
      * rewrite lget_lset_same in Hl. injection Hl as <-. apply nget_nset_same.
      * rewrite lget_lset_other in Hl by assumption.
        destruct (lget_at _ _ _ Hwf Hl) as [Hlt _].
        rewrite nget_nset_other by lia. now apply wf_l2i.
  - intros i j Hi Hj. rewrite stop_store in Hi, Hj. rewrite !at_store by assumption.
    destruct (Nat.eqb_spec i (stop v)) as [Ei|Ei], (Nat.eqb_spec j (stop v)) as [Ej|Ej]; intro Heq.
    + lia.
    + exfalso. apply Hc, In_to_list. exists j. split; [lia|auto].
    + exfalso. apply Hc, In_to_list. exists i. split; [lia|auto].
    + apply (at_inj v); [assumption|lia|lia|assumption].
Qed.

Lemma append_new v l p :
  wf v -> count v l = false ->
  append v (Some l) p = Ok (store v l, l) /\
  to_list (store v l) = to_list v ++ [l] /\ wf (store v l).
Proof.
  intros Hwf Hc. unfold append. rewrite Hc.
  split; [reflexivity|]. split; [now apply to_list_store|now apply wf_store].
Qed.

Lemma append_dup v l :
  count v l = true -> append v (Some l) true = Ok (v, l) /\ append v (Some l) false = Err.
Proof. intro Hc. unfold append. rewrite Hc. split; reflexivity. Qed.

(* ---------- automatic label ---------- *)
Lemma find_seq_least (f : nat -> bool) a n k :
  find f (seq a n) = Some k ->
  a <= k < a + n /\ f k = true /\ forall j, a <= j < k -> f j = false.
Proof.
  revert a. induction n as [|n IH]; intros a; cbn [seq find]; [discriminate|].
  destruct (f a) eqn:E.
  - intros [= <-]. split; [lia|]. split; [assumption|]. intros j Hj. lia.
  - intro H. destruct (IH _ H) as [Hr [Hf Hl]]. split; [lia|]. split; [assumption|].
    intros j Hj. destruct (Nat.eq_dec j a) as [->|Hne]; [assumption|]. apply Hl. lia.
Qed.

Lemma LI_nat_inj : FinFun.Injective (fun k : nat => LI (Z.of_nat k)).
Proof. intros x y H. injection H as H. lia. Qed.

Lemma first_free_spec v :
  wf v ->
  exists k, first_free v = Z.of_nat k /\ k <= stop v /\
            ~ In (LI (Z.of_nat k)) (to_list v) /\
            forall j, j < k -> In (LI (Z.of_nat j)) (to_list v).
Proof.
  intro Hwf. unfold first_free.
  destruct (find (fun k => negb (count v (LI (Z.of_nat k)))) (seq 0 (S (stop v)))) as [k|] eqn:E.
  - apply find_seq_least in E. destruct E as [Hr [Hf Hl]].
    exists k. split; [reflexivity|]. split; [lia|]. split.
    + apply negb_true_iff in Hf. now apply (count_false _ _ Hwf).
    + intros j Hj. apply (count_spec _ _ Hwf).
      specialize (Hl j ltac:(lia)). now apply negb_false_iff in Hl.
  - exfalso.
    assert (Hincl : incl (map (fun k : nat => LI (Z.of_nat k)) (seq 0 (S (stop v)))) (to_list v)).
    { intros x Hx. apply in_map_iff in Hx. destruct Hx as [k [<- Hk]].
      apply (count_spec _ _ Hwf).
      pose proof (find_none _ _ E _ Hk) as Hn. now apply negb_false_iff in Hn. }
    apply NoDup_incl_length in Hincl.
    + rewrite map_length, seq_length, to_list_length in Hincl. lia.
    + apply FinFun.Injective_map_NoDup; [apply LI_nat_inj|apply seq_NoDup].
Qed.

Lemma auto_label_eq v :
  auto_label v =
  if count v (LI (Z.of_nat (stop v))) then LI (first_free v) else LI (Z.of_nat (stop v)).
Proof.
  unfold auto_label. destruct (is_range v) eqn:Er; cbn [negb andb]; [|reflexivity].
  cbn [count]. unfold count_int. rewrite Er. unfold in_range.
  rewrite Z.ltb_irrefl, andb_false_r. reflexivity.
Qed.

Lemma auto_label_fresh v : wf v -> ~ In (auto_label v) (to_list v).
Proof.
  intro Hwf. rewrite auto_label_eq.
  destruct (count v (LI (Z.of_nat (stop v)))) eqn:Hc.
  - destruct (first_free_spec _ Hwf) as [k [-> [_ [Hk _]]]]. assumption.
  - now apply (count_false _ _ Hwf).
Qed.

Lemma append_auto v p :
  wf v ->
  let a := auto_label v in
  append v None p = Ok (store v a, a) /\
  ~ In a (to_list v) /\ to_list (store v a) = to_list v ++ [a] /\ wf (store v a).
Proof.
  intros Hwf a. pose proof (auto_label_fresh _ Hwf) as Hf. fold a in Hf.
  split; [reflexivity|]. split; [assumption|].
  split; [now apply to_list_store|]. apply wf_store; [assumption|].
  now apply (count_false _ _ Hwf).
Qed.

Lemma auto_label_choice v :
  wf v ->
  (~ In (LI (Z.of_nat (stop v))) (to_list v) -> auto_label v = LI (Z.of_nat (stop v))) /\
  (In (LI (Z.of_nat (stop v))) (to_list v) ->
   exists k, auto_label v = LI k /\ (0 <= k)%Z /\ ~ In (LI k) (to_list v) /\
             forall z, (0 <= z < k)%Z -> In (LI z) (to_list v)).
Proof.
  intro Hwf. rewrite auto_label_eq. split; intro H.
  - apply (count_false _ _ Hwf) in H. now rewrite H.
  - apply (count_spec _ _ Hwf) in H. rewrite H.
    destruct (first_free_spec _ Hwf) as [k [-> [_ [Hk Hl]]]].
    exists (Z.of_nat k). split; [reflexivity|]. split; [lia|]. split; [assumption|].
    intros z Hz. specialize (Hl (Z.to_nat z) ltac:(lia)).
    rewrite Z2Nat.id in Hl by lia. assumption.
Qed.

(* ---------- pop ---------- *)
Lemma pop_empty v : stop v = 0 -> pop v = Err.
Proof. unfold pop. now intros ->. Qed.

Definition pop_state (v : vars) (idx : nat) : vars :=
  mkVars (ndel idx (i2l v)) (ldel (at_ v idx) (l2i v)) idx.

Lemma pop_S v idx :
  wf v -> stop v = S idx ->
  pop v = Ok (pop_state v idx, at_ v idx) /\
  to_list v = to_list (pop_state v idx) ++ [at_ v idx] /\
  wf (pop_state v idx).
Proof.
  intros Hwf Hs.
  assert (Hat : forall i, i <> idx -> at_ (pop_state v idx) i = at_ v i).
  { intros i Hi. unfold at_, pop_state. cbn [i2l]. now rewrite nget_ndel_other. }
  split; [|split].
  - unfold pop. rewrite Hs. reflexivity.
  - unfold to_list at 1. rewrite Hs, seq_S, map_app. cbn [map Nat.add]. f_equal.
    unfold to_list. cbn [pop_state stop]. apply map_ext_in. intros i Hin.
    apply in_seq in Hin. symmetry. apply Hat. lia.
  - apply wf_intro.
    + cbn [pop_state i2l l2i stop]. intros i a Hn.
      destruct (Nat.eq_dec i idx) as [->|Hi]; [now rewrite nget_ndel_same in Hn|].
      rewrite nget_ndel_other in Hn by assumption.
      destruct (wf_i2l _ _ _ Hwf Hn) as [Hlt [Hna Hl]].
      repeat split; [lia|assumption|].
      rewrite lget_ldel_other; [assumption|]. intro Ha.
      apply Hi. apply (at_inj v); [assumption|lia|lia|].
      now rewrite (at_some _ _ _ Hn).
    + cbn [pop_state i2l l2i stop]. intros a i Hl.
      destruct (lab_eq_dec a (at_ v idx)) as [->|Ha]; [now rewrite lget_ldel_same in Hl|].
      rewrite lget_ldel_other in Hl by assumption.
      destruct (lget_at _ _ _ Hwf Hl) as [_ Hai].
      rewrite nget_ndel_other; [now apply wf_l2i|]. intros ->. congruence.
    + cbn [pop_state stop]. intros i j Hi Hj. rewrite !Hat by lia.
      apply (at_inj v); [assumption|lia|lia].
Qed.

Lemma pop_spec v :
  wf v -> stop v > 0 ->
  exists v' l, pop v = Ok (v', l) /\ to_list v = to_list v' ++ [l] /\ wf v'.
Proof.
  intros Hwf Hs. destruct (stop v) as [|idx] eqn:E; [lia|].
  exists (pop_state v idx), (at_ v idx). now apply pop_S.
Qed.

(* ---------- relabel_as_integers ---------- *)
Lemma relabel_as_integers_spec v :
  wf (fst (relabel_as_integers v)) /\
  to_list (fst (relabel_as_integers v)) = map (fun i => LI (Z.of_nat i)) (seq 0 (stop v)).
Proof.
  unfold relabel_as_integers. cbn [fst]. split.
  - unfold wf. cbn [i2l l2i stop nget lget]. repeat split; intros; discriminate.
  - unfold to_list. cbn [stop]. apply map_ext. intro i. reflexivity.
Qed.

(* ---------- single relabel ---------- *)
Definition swap1 (old new x : lab) : lab := if lab_eqb x old then new else x.

Lemma replace_at_shape v v' old new idx :
  wf v -> idx < stop v -> at_ v idx = old -> ~ In new (to_list v) ->
  stop v' = stop v ->
  (forall i, at_ v' i = if Nat.eqb i idx then new else at_ v i) ->
  (forall i j, i < stop v' -> j < stop v' -> at_ v' i = at_ v' j -> i = j) /\
  to_list v' = map (swap1 old new) (to_list v).
Proof.
  intros Hwf Hlt Hat Hnew Hs Hat'. split.
  - intros i j Hi Hj. rewrite Hs in Hi, Hj. rewrite !Hat'.
    destruct (Nat.eqb_spec i idx) as [Ei|Ei], (Nat.eqb_spec j idx) as [Ej|Ej]; intro Heq.
    + lia.
    + exfalso. apply Hnew, In_to_list. exists j. split; [lia|auto].
    + exfalso. apply Hnew, In_to_list. exists i. split; [lia|auto].
    + now apply (at_inj v).
  - apply to_list_ext; [assumption|]. intros i Hi. rewrite Hat'. unfold swap1.
    destruct (Nat.eqb_spec i idx) as [->|Ei].
    + now rewrite Hat, lab_eqb_refl.
    + destruct (lab_eqb_spec (at_ v i) old) as [E|E]; [|reflexivity].
      exfalso. apply Ei. apply (at_inj v); [assumption..|congruence].
Qed.

Lemma relabel1_spec v old new :
  wf v -> old = new \/ ~ In new (to_list v) ->
  wf (relabel1 v old new) /\
  to_list (relabel1 v old new) = map (swap1 old new) (to_list v).
Proof.
  intros Hwf Hnew. unfold relabel1.
  destruct (lab_eqb_spec old new) as [->|Hne].
  { split; [assumption|]. rewrite <- (map_id (to_list v)) at 1.
    apply map_ext. intro x. unfold swap1. destruct (lab_eqb_spec x new); congruence. }
  destruct Hnew as [Hnew|Hnew]; [contradiction|].
  destruct (count v old) eqn:Hc; cbn [negb].
  2:{ split; [assumption|]. rewrite <- (map_id (to_list v)) at 1.
      apply map_ext_in. intros x Hx. unfold swap1.
      destruct (lab_eqb_spec x old) as [->|E]; [|reflexivity].
      apply (count_false _ _ Hwf) in Hc. contradiction. }
  fold (pos v old). destruct (pos_spec _ _ Hwf Hc) as [Hlt Hat].
  set (idx := pos v old) in *.
  assert (Hother : forall i a, i <> idx -> nget i (i2l v) = Some a -> a <> old /\ a <> new).
  { intros i a Hi Hn. destruct (wf_i2l _ _ _ Hwf Hn) as [Hil _].
    pose proof (at_some _ _ _ Hn) as Hai. split.
    - intros ->. apply Hi. apply (at_inj v); [assumption..|congruence].
    - intros ->. apply Hnew, In_to_list. now exists i. }
  destruct (lab_eqb_spec new (LI (Z.of_nat idx))) as [En|En]; cbn [negb].
  - (* the new label is the position itself: both entries disappear *)
    set (v' := mkVars (ndel idx (i2l v)) (ldel old (l2i v)) (stop v)).
    assert (Hat' : forall i, at_ v' i = if Nat.eqb i idx then new else at_ v i).
    { intro i. unfold at_, v'. cbn [i2l]. destruct (Nat.eqb_spec i idx) as [->|Ei].
      - now rewrite nget_ndel_same.
      - now rewrite nget_ndel_other. }
    destruct (replace_at_shape v v' old new idx Hwf Hlt Hat Hnew eq_refl Hat') as [Hinj Hl].
    split; [|assumption]. apply wf_intro; [| |assumption].
    + unfold v'. cbn [i2l l2i stop]. intros i a Hn.
      destruct (Nat.eq_dec i idx) as [->|Hi]; [now rewrite nget_ndel_same in Hn|].
      rewrite nget_ndel_other in Hn by assumption.
      destruct (Hother _ _ Hi Hn) as [Hao _].
      destruct (wf_i2l _ _ _ Hwf Hn) as [Hil [Hna Hg]].
      repeat split; [assumption..|]. now rewrite lget_ldel_other.
    + unfold v'. cbn [i2l l2i stop]. intros a i Hg.
      destruct (lab_eq_dec a old) as [->|Ha]; [now rewrite lget_ldel_same in Hg|].
      rewrite lget_ldel_other in Hg by assumption.
      destruct (lget_at _ _ _ Hwf Hg) as [_ Hai].
      rewrite nget_ndel_other; [now apply wf_l2i|]. intros ->. congruence.
  - set (v' := mkVars (nset idx new (i2l v)) (lset new idx (ldel old (l2i v))) (stop v)).
    assert (Hat' : forall i, at_ v' i = if Nat.eqb i idx then new else at_ v i).
    { intro i. unfold at_, v'. cbn [i2l]. destruct (Nat.eqb_spec i idx) as [->|Ei].
      - now rewrite nget_nset_same.
      - now rewrite nget_nset_other. }
    destruct (replace_at_shape v v' old new idx Hwf Hlt Hat Hnew eq_refl Hat') as [Hinj Hl].
    split; [|assumption]. apply wf_intro; [| |assumption].
    + unfold v'. cbn [i2l l2i stop]. intros i a Hn.
      destruct (Nat.eq_dec i idx) as [->|Hi].
      * rewrite nget_nset_same in Hn. injection Hn as <-.
        repeat split; [assumption..|apply lget_lset_same].
      * rewrite nget_nset_other in Hn by assumption.
        destruct (Hother _ _ Hi Hn) as [Hao Han].
        destruct (wf_i2l _ _ _ Hwf Hn) as [Hil [Hna Hg]].
        repeat split; [assumption..|].
        rewrite lget_lset_other by assumption. now rewrite lget_ldel_other.
    + unfold v'. cbn [i2l l2i stop]. intros a i Hg.
      destruct (lab_eq_dec a new) as [->|Han].
      * rewrite lget_lset_same in Hg. injection Hg as <-. apply nget_nset_same.
      * rewrite lget_lset_other in Hg by assumption.
        destruct (lab_eq_dec a old) as [->|Ha]; [now rewrite lget_ldel_same in Hg|].
        rewrite lget_ldel_other in Hg by assumption.
        destruct (lget_at _ _ _ Hwf Hg) as [_ Hai].
        rewrite nget_nset_other; [now apply wf_l2i|]. intros ->. congruence.
Qed.

Lemma stop_relabel1 v old new : stop (relabel1 v old new) = stop v.
Proof.
  unfold relabel1. destruct (lab_eqb old new); [reflexivity|].
  destruct (negb (count v old)); [reflexivity|].
  match goal with |- context [negb ?b] => destruct (negb b) end; reflexivity.
Qed.

(* ---------- a sequence of single relabels ---------- *)
Lemma relabel_sub_cons v o n r : relabel_sub v ((o, n) :: r) = relabel_sub (relabel1 v o n) r.
Proof. reflexivity. Qed.

Lemma In_swap1 o n x ls : In x (map (swap1 o n) ls) -> x = n \/ (In x ls /\ x <> o).
Proof.
  intro H. apply in_map_iff in H. destruct H as [y [Hy Hin]]. unfold swap1 in Hy.
  destruct (lab_eqb_spec y o) as [E|E]; [left; congruence|right; split; congruence].
Qed.

Lemma subst_lab_nil x : subst_lab [] x = x.
Proof. reflexivity. Qed.

Lemma subst_notkey m x : ~ In x (map fst m) -> subst_lab m x = x.
Proof. intro H. unfold subst_lab. apply lget_None_notin in H. now rewrite H. Qed.

Lemma lget_In k (m : list (lab * lab)) n : lget k m = Some n -> In (k, n) m.
Proof.
  induction m as [|[k' y] r IH]; cbn [lget]; [discriminate|].
  destruct (lab_eqb_spec k k') as [->|Hne]; intro H.
  - injection H as ->. now left.
  - right. auto.
Qed.

Lemma subst_range m x : subst_lab m x = x \/ In (subst_lab m x) (map snd m).
Proof.
  unfold subst_lab. destruct (lget x m) as [n|] eqn:E; [right|now left].
  apply lget_In in E. apply in_map_iff. exists (x, n). now split.
Qed.

Lemma relabel_sub_wf m : forall v,
  wf v -> NoDup (map snd m) -> (forall n, In n (map snd m) -> ~ In n (to_list v)) ->
  wf (relabel_sub v m) /\
  forall x, In x (to_list (relabel_sub v m)) ->
            (In x (to_list v) /\ ~ In x (map fst m)) \/ In x (map snd m).
Proof.
  induction m as [|[o n] r IH]; intros v Hwf Hnd Hnew.
  - split; [assumption|]. intros x Hx. left. split; [assumption|intros []].
  - rewrite relabel_sub_cons. cbn [map fst snd] in *.
    inversion Hnd as [|n0 r0 Hn Hndr]; subst n0 r0.
    destruct (relabel1_spec v o n Hwf) as [Hwf1 Hl1]. { right. apply Hnew. now left. }
    destruct (IH (relabel1 v o n) Hwf1 Hndr) as [Hwf2 Hincl].
    { intros n' Hn' Hin. rewrite Hl1 in Hin. apply In_swap1 in Hin.
      destruct Hin as [->|[Hin _]]; [contradiction|]. apply (Hnew n'); [now right|assumption]. }
    split; [assumption|]. intros x Hx. destruct (Hincl x Hx) as [[Hx1 Hk]|Hx1].
    + rewrite Hl1 in Hx1. apply In_swap1 in Hx1. destruct Hx1 as [->|[Hin Hxo]].
      * right. now left.
      * left. split; [assumption|]. intros [E|E]; [congruence|contradiction].
    + right. now right.
Qed.

Lemma relabel_sub_spec m : forall v,
  wf v -> NoDup (map snd m) -> (forall n, In n (map snd m) -> ~ In n (to_list v)) ->
  (forall o, In o (map fst m) -> ~ In o (map snd m)) ->
  to_list (relabel_sub v m) = map (subst_lab m) (to_list v).
Proof.
  induction m as [|[o n] r IH]; intros v Hwf Hnd Hnew Hdisj.
  - cbn [relabel_sub fold_left]. rewrite <- (map_id (to_list v)) at 1. reflexivity.
  - rewrite relabel_sub_cons. cbn [map fst snd] in *.
    inversion Hnd as [|n0 r0 Hn Hndr]; subst n0 r0.
    destruct (relabel1_spec v o n Hwf) as [Hwf1 Hl1]. { right. apply Hnew. now left. }
    rewrite IH; [|assumption|assumption| |].
    + rewrite Hl1, map_map. apply map_ext. intro x. unfold swap1, subst_lab. cbn [lget].
      destruct (lab_eqb_spec x o) as [->|Hxo]; [|reflexivity].
      assert (Hg : lget n r = None).
      { apply lget_None_notin. intro Hin. apply (Hdisj n); [now right|now left]. }
      now rewrite Hg.
    + intros n' Hn' Hin. rewrite Hl1 in Hin. apply In_swap1 in Hin.
      destruct Hin as [->|[Hin _]]; [contradiction|]. apply (Hnew n'); [now right|assumption].
    + intros o' Ho' Hin. apply (Hdisj o'); [now right|now right].
Qed.

(* ---------- fresh intermediate labels ---------- *)
Lemma fresh_from_ge fuel : forall c avoid, (c <= fresh_from fuel c avoid)%Z.
Proof.
  induction fuel as [|f IH]; intros c avoid; cbn [fresh_from]; [lia|].
  destruct (avoid (LI c)); [|lia]. specialize (IH (c + 1)%Z avoid). lia.
Qed.

Lemma fresh_from_hit fuel : forall c avoid,
  avoid (LI (fresh_from fuel c avoid)) = true ->
  forall k, k < fuel -> avoid (LI (c + Z.of_nat k)) = true.
Proof.
  induction fuel as [|f IH]; intros c avoid H k Hk; [lia|].
  cbn [fresh_from] in H. destruct (avoid (LI c)) eqn:E; [|congruence].
  destruct k as [|k].
  - replace (c + Z.of_nat 0)%Z with c by lia. assumption.
  - specialize (IH (c + 1)%Z avoid H k ltac:(lia)).
    replace (c + Z.of_nat (S k))%Z with (c + 1 + Z.of_nat k)%Z by lia. assumption.
Qed.

Lemma NoDup_app_disj {A} (l1 l2 : list A) x : NoDup (l1 ++ l2) -> In x l1 -> In x l2 -> False.
Proof.
  induction l1 as [|a l1 IH]; cbn [app In]; [tauto|].
  intros Hnd [->|H1] H2; inversion Hnd as [|a0 l0 Ha Hr]; subst.
  - apply Ha, in_or_app. now right.
  - now apply IH.
Qed.

Lemma NoDup_snd_fst_eq (m : list (lab * lab)) a b n :
  NoDup (map snd m) -> In (a, n) m -> In (b, n) m -> a = b.
Proof.
  induction m as [|[o n'] r IH]; cbn [map snd In]; [tauto|].
  intros Hnd Ha Hb. inversion Hnd as [|n0 r0 Hn Hr]; subst n0 r0.
  assert (Hin : forall c, In (c, n) r -> In n (map snd r)).
  { intros c Hc. apply in_map_iff. exists (c, n). now split. }
  destruct Ha as [Ea|Ha], Hb as [Eb|Hb].
  - congruence.
  - injection Ea as -> ->. exfalso. apply Hn. eapply Hin; eassumption.
  - injection Eb as -> ->. exfalso. apply Hn. eapply Hin; eassumption.
  - now apply IH.
Qed.

Section Resolve.
  Variables (v : vars) (olds news : list lab).
  Hypothesis Hwf : wf v.

  Definition avoid (l : lab) : bool := mem_lab l news || mem_lab l olds || count v l.
  Definition fresh (c : Z) : Z := fresh_from (length olds + length news + stop v + 1) c avoid.
  Definition conflicted (o n : lab) : bool := mem_lab o news || mem_lab n olds.

  Lemma resolve_cons c o n r :
    resolve v olds news c ((o, n) :: r) =
    if lab_eqb o n then resolve v olds news c r
    else if conflicted o n then
      let '(a, b) := resolve v olds news (fresh c + 1)%Z r in
      ((o, LI (fresh c)) :: a, (LI (fresh c), n) :: b)
    else let '(a, b) := resolve v olds news c r in ((o, n) :: a, b).
  Proof. reflexivity. Qed.

  Lemma avoid_false l :
    avoid l = false -> ~ In l news /\ ~ In l olds /\ ~ In l (to_list v).
  Proof.
    unfold avoid. rewrite !orb_false_iff, !mem_lab_false, (count_false _ _ Hwf). tauto.
  Qed.

  Lemma fresh_ok c : (c <= fresh c)%Z /\ avoid (LI (fresh c)) = false.
  Proof.
    split; [apply fresh_from_ge|].
    destruct (avoid (LI (fresh c))) eqn:E; [|reflexivity]. exfalso.
    set (F := length olds + length news + stop v + 1).
    pose proof (fresh_from_hit F c avoid E) as Hall.
    assert (Hincl : incl (map (fun k => LI (c + Z.of_nat k)) (seq 0 F)) (news ++ olds ++ to_list v)).
    { intros x Hx. apply in_map_iff in Hx. destruct Hx as [k [<- Hk]]. apply in_seq in Hk.
      specialize (Hall k ltac:(lia)). unfold avoid in Hall.
      rewrite !orb_true_iff, !mem_lab_In, (count_spec _ _ Hwf) in Hall.
      rewrite !in_app_iff. tauto. }
    apply NoDup_incl_length in Hincl.
    - rewrite map_length, seq_length, !app_length, to_list_length in Hincl. unfold F in Hincl. lia.
    - apply Injective_map_NoDup; [|apply seq_NoDup]. intros x y Hxy. injection Hxy. lia.
  Qed.

  Definition isfresh (c : Z) (l : lab) : Prop :=
    exists z, l = LI z /\ (c <= z)%Z /\ avoid (LI z) = false.

  Lemma isfresh_mono c c' l : (c <= c')%Z -> isfresh c' l -> isfresh c l.
  Proof. intros Hc [z [-> [Hz Ha]]]. exists z. repeat split; [lia|assumption]. Qed.

  Lemma isfresh_fresh c : isfresh c (LI (fresh c)).
  Proof. destruct (fresh_ok c) as [Hge Ha]. exists (fresh c). now repeat split. Qed.

  Lemma isfresh_avoid c l : isfresh c l -> ~ In l news /\ ~ In l olds /\ ~ In l (to_list v).
  Proof. intros [z [-> [_ Ha]]]. now apply avoid_false. Qed.

  Inductive resolved : Z -> list (lab * lab) -> list (lab * lab) -> list (lab * lab) -> Prop :=
  | rs_nil c : resolved c [] [] []
  | rs_id c o r a b : resolved c r a b -> resolved c ((o, o) :: r) a b
  | rs_conf c o n r a b :
      o <> n -> conflicted o n = true -> resolved (fresh c + 1)%Z r a b ->
      resolved c ((o, n) :: r) ((o, LI (fresh c)) :: a) ((LI (fresh c), n) :: b)
  | rs_dir c o n r a b :
      o <> n -> conflicted o n = false -> resolved c r a b ->
      resolved c ((o, n) :: r) ((o, n) :: a) b.

  Lemma resolve_resolved r : forall c,
    resolved c r (fst (resolve v olds news c r)) (snd (resolve v olds news c r)).
  Proof.
    induction r as [|[o n] r IH]; intro c.
    - cbn [resolve fst snd]. constructor.
    - rewrite resolve_cons. destruct (lab_eqb_spec o n) as [->|Hne].
      + constructor. apply IH.
      + destruct (conflicted o n) eqn:Ec.
        * specialize (IH (fresh c + 1)%Z).
          destruct (resolve v olds news (fresh c + 1)%Z r) as [a b]. cbn [fst snd] in *.
          now constructor.
        * specialize (IH c). destruct (resolve v olds news c r) as [a b]. cbn [fst snd] in *.
          now constructor.
  Qed.

  (* keys of the first pass: the non-identity keys *)
  Lemma resolved_keys c r a b :
    resolved c r a b -> forall o, In o (map fst a) <-> exists n, In (o, n) r /\ o <> n.
  Proof.
    intro H. induction H as [c|c o r a b H IH|c o n r a b Hne Hc H IH|c o n r a b Hne Hc H IH]; intro x.
    - cbn [map In]. split; [tauto|]. intros [n [[] _]].
    - rewrite IH. split; intros [n [Hin Hn]]; exists n.
      + split; [now right|assumption].
      + destruct Hin as [E|Hin]; [injection E as -> ->; contradiction|now split].
    - cbn [map fst In]. rewrite IH. split.
      + intros [<-|[n' [Hin Hn]]]; [exists n; split; [now left|assumption]|].
        exists n'. split; [now right|assumption].
      + intros [n' [[E|Hin] Hn]]; [injection E as -> ->; now left|]. right. now exists n'.
    - cbn [map fst In]. rewrite IH. split.
      + intros [<-|[n' [Hin Hn]]]; [exists n; split; [now left|assumption]|].
        exists n'. split; [now right|assumption].
      + intros [n' [[E|Hin] Hn]]; [injection E as -> ->; now left|]. right. now exists n'.
  Qed.

  (* targets of the first pass *)
  Lemma resolved_targets_a c r a b :
    resolved c r a b ->
    forall n, In n (map snd a) -> isfresh c n \/ (In n (map snd r) /\ ~ In n olds).
  Proof.
    intro H. induction H as [c|c o r a b H IH|c o n r a b Hne Hc H IH|c o n r a b Hne Hc H IH]; intros x Hx.
    - destruct Hx.
    - destruct (IH x Hx) as [Hf|[Hin Ho]]; [now left|right]. split; [now right|assumption].
    - cbn [map snd In] in *. destruct Hx as [<-|Hx]; [left; apply isfresh_fresh|].
      destruct (IH x Hx) as [Hf|[Hin Ho]].
      + left. apply (isfresh_mono c _ x) in Hf; [assumption|]. destruct (fresh_ok c). lia.
      + right. split; [now right|assumption].
    - cbn [map snd In] in *. destruct Hx as [<-|Hx].
      + right. split; [now left|]. unfold conflicted in Hc. apply orb_false_iff in Hc.
        now apply mem_lab_false.
      + destruct (IH x Hx) as [Hf|[Hin Ho]]; [now left|right]. split; [now right|assumption].
  Qed.

  (* the second pass: fresh keys, conflicted targets *)
  Lemma resolved_b c r a b :
    resolved c r a b ->
    forall p, In p b -> isfresh c (fst p) /\ exists o, In (o, snd p) r /\ o <> snd p.
  Proof.
    intro H. induction H as [c|c o r a b H IH|c o n r a b Hne Hc H IH|c o n r a b Hne Hc H IH]; intros p Hp.
    - destruct Hp.
    - destruct (IH p Hp) as [Hf [o' [Hin Ho]]]. split; [assumption|]. exists o'. split; [now right|assumption].
    - destruct Hp as [<-|Hp]; cbn [fst snd].
      + split; [apply isfresh_fresh|]. exists o. split; [now left|assumption].
      + destruct (IH p Hp) as [Hf [o' [Hin Ho]]]. split.
        * apply (isfresh_mono c _ _) in Hf; [assumption|]. destruct (fresh_ok c). lia.
        * exists o'. split; [now right|assumption].
    - destruct (IH p Hp) as [Hf [o' [Hin Ho]]]. split; [assumption|]. exists o'. split; [now right|assumption].
  Qed.

  Lemma resolved_keys_b c r a b k :
    resolved c r a b -> In k (map fst b) -> isfresh c k.
  Proof.
    intros H Hk. apply in_map_iff in Hk. destruct Hk as [p [<- Hp]].
    now destruct (resolved_b _ _ _ _ H p Hp).
  Qed.

  Lemma resolved_targets_b c r a b n :
    resolved c r a b -> In n (map snd b) -> In n (map snd r) /\ exists o, In (o, n) r /\ o <> n.
  Proof.
    intros H Hn. apply in_map_iff in Hn. destruct Hn as [p [<- Hp]].
    destruct (resolved_b _ _ _ _ H p Hp) as [_ [o [Hin Ho]]]. split; [|now exists o].
    apply in_map_iff. exists (o, snd p). now split.
  Qed.

  (* all targets of both passes are pairwise distinct *)
  Lemma resolved_nodup c r a b :
    resolved c r a b -> NoDup (map snd r) -> incl (map snd r) news ->
    NoDup (map snd a ++ map snd b).
  Proof.
    intro H. induction H as [c|c o r a b H IH|c o n r a b Hne Hc H IH|c o n r a b Hne Hc H IH];
      intros Hnd Hincl.
    - constructor.
    - cbn [map snd] in *. inversion Hnd; subst. apply IH; [assumption|].
      intros x Hx. apply Hincl. now right.
    - cbn [map snd] in *. inversion Hnd as [|n0 r0 Hn Hndr]; subst n0 r0.
      assert (Hincl' : incl (map snd r) news) by (intros x Hx; apply Hincl; now right).
      specialize (IH Hndr Hincl').
      assert (Hall : forall x, In x (map snd a ++ map snd b) ->
                               isfresh (fresh c + 1) x \/ In x (map snd r)).
      { intros x Hx. apply in_app_or in Hx. destruct Hx as [Hx|Hx].
        - destruct (resolved_targets_a _ _ _ _ H x Hx) as [Hf|[Hin _]]; [now left|now right].
        - right. now destruct (resolved_targets_b _ _ _ _ _ H Hx). }
      assert (Hn' : ~ In n (map snd a ++ map snd b)).
      { intro Hx. destruct (Hall _ Hx) as [Hf|Hin]; [|contradiction].
        apply isfresh_avoid in Hf. destruct Hf as [Hf _]. apply Hf, Hincl. now left. }
      cbn [app]. constructor.
      + intro Hx. apply in_app_or in Hx. cbn [In] in Hx.
        assert (Hx' : LI (fresh c) = n \/ In (LI (fresh c)) (map snd a ++ map snd b)).
        { destruct Hx as [Hx|[Hx|Hx]]; [right; apply in_or_app; now left|now left|
                                         right; apply in_or_app; now right]. }
        destruct (fresh_ok c) as [_ Hav]. apply avoid_false in Hav. destruct Hav as [Hav _].
        destruct Hx' as [E|Hx'].
        * apply Hav. rewrite E. apply Hincl. now left.
        * destruct (Hall _ Hx') as [[z [E [Hz _]]]|Hin].
          -- injection E as E. lia.
          -- apply Hav, Hincl. now right.
      + apply NoDup_cons with (x := n) in IH; [|assumption].
        eapply Permutation_NoDup; [|exact IH]. apply Permutation_middle.
    - cbn [map snd] in *. inversion Hnd as [|n0 r0 Hn Hndr]; subst n0 r0.
      assert (Hincl' : incl (map snd r) news) by (intros x Hx; apply Hincl; now right).
      specialize (IH Hndr Hincl'). cbn [app]. constructor; [|assumption].
      intro Hx. apply in_app_or in Hx. destruct Hx as [Hx|Hx].
      + destruct (resolved_targets_a _ _ _ _ H n Hx) as [Hf|[Hin _]]; [|contradiction].
        apply isfresh_avoid in Hf. destruct Hf as [Hf _]. apply Hf, Hincl. now left.
      + now destruct (resolved_targets_b _ _ _ _ _ H Hx).
  Qed.

  (* the two passes compose to the requested mapping on every present label *)
  Lemma resolved_compose c r a b :
    resolved c r a b -> NoDup (map fst r) -> incl (map snd r) news ->
    forall x, In x (to_list v) -> subst_lab b (subst_lab a x) = subst_lab r x.
  Proof.
    intro H. induction H as [c|c o r a b H IH|c o n r a b Hne Hc H IH|c o n r a b Hne Hc H IH];
      intros Hnd Hincl x Hx.
    - reflexivity.
    - cbn [map fst snd] in *. inversion Hnd as [|o0 r0 Ho Hndr]; subst o0 r0.
      assert (Hincl' : incl (map snd r) news) by (intros y Hy; apply Hincl; now right).
      unfold subst_lab at 3. cbn [lget]. destruct (lab_eqb_spec x o) as [->|Hxo].
      + rewrite (subst_notkey a o).
        * apply subst_notkey. intro Hk. apply (resolved_keys_b _ _ _ _ _ H), isfresh_avoid in Hk. tauto.
        * intro Hk. apply (resolved_keys _ _ _ _ H) in Hk. destruct Hk as [n [Hin _]].
          apply Ho, in_map_iff. exists (o, n). now split.
      + now apply IH.
    - cbn [map fst snd] in *. inversion Hnd as [|o0 r0 Ho Hndr]; subst o0 r0.
      assert (Hincl' : incl (map snd r) news) by (intros y Hy; apply Hincl; now right).
      unfold subst_lab at 3. cbn [lget]. destruct (lab_eqb_spec x o) as [->|Hxo].
      + unfold subst_lab. cbn [lget]. now rewrite !lab_eqb_refl.
      + specialize (IH Hndr Hincl' x Hx). fold (subst_lab r x). rewrite <- IH.
        unfold subst_lab at 2. cbn [lget]. rewrite (lab_eqb_false _ _ Hxo). fold (subst_lab a x).
        unfold subst_lab at 1. cbn [lget].
        destruct (lab_eqb_spec (subst_lab a x) (LI (fresh c))) as [E|E]; [exfalso|reflexivity].
        destruct (fresh_ok c) as [Hge Hav]. apply avoid_false in Hav.
        destruct (subst_range a x) as [Es|Hin].
        * rewrite Es in E. subst x. tauto.
        * rewrite E in Hin. destruct (resolved_targets_a _ _ _ _ H _ Hin) as [[z [Ez [Hz _]]]|[Hin' _]].
          -- injection Ez as Ez. lia.
          -- destruct Hav as [Hav _]. apply Hav, Hincl. now right.
    - cbn [map fst snd] in *. inversion Hnd as [|o0 r0 Ho Hndr]; subst o0 r0.
      assert (Hincl' : incl (map snd r) news) by (intros y Hy; apply Hincl; now right).
      unfold subst_lab at 3. cbn [lget]. destruct (lab_eqb_spec x o) as [->|Hxo].
      + unfold subst_lab at 2. cbn [lget]. rewrite lab_eqb_refl.
        apply subst_notkey. intro Hk. apply (resolved_keys_b _ _ _ _ _ H), isfresh_avoid in Hk.
        destruct Hk as [Hk _]. apply Hk, Hincl. now left.
      + unfold subst_lab at 2. cbn [lget]. rewrite (lab_eqb_false _ _ Hxo). now apply IH.
  Qed.
End Resolve.

(* ---------- relabel with a whole mapping ---------- *)
Lemma NoDup_app_parts {A} (l1 l2 : list A) : NoDup (l1 ++ l2) -> NoDup l1 /\ NoDup l2.
Proof.
  induction l1 as [|a l1 IH]; cbn [app]; intro H; [split; [constructor|assumption]|].
  inversion H as [|a0 l0 Ha Hr]; subst. destruct (IH Hr) as [H1 H2]. split; [|assumption].
  constructor; [|assumption]. intro Hin. apply Ha, in_or_app. now left.
Qed.

Lemma existsb_false {A} (f : A -> bool) l : existsb f l = false <-> forall x, In x l -> f x = false.
Proof.
  induction l as [|a l IH]; cbn [existsb In]; [split; [tauto|reflexivity]|].
  rewrite orb_false_iff, IH. split.
  - intros [Ha Hl] x [<-|Hx]; auto.
  - intro H. split; [apply H; now left|]. intros x Hx. apply H. now right.
Qed.

Lemma In_fst {A B} (p : A * B) m : In p m -> In (fst p) (map fst m).
Proof. intro H. apply in_map_iff. now exists p. Qed.

Lemma In_snd {A B} (p : A * B) m : In p m -> In (snd p) (map snd m).
Proof. intro H. apply in_map_iff. now exists p. Qed.

Lemma relabel_err_iff v m :
  wf v ->
  (relabel v m = Err <->
   ~ NoDup (map snd m) \/
   exists n, In n (map snd m) /\ In n (to_list v) /\ ~ In n (map fst m)).
Proof.
  intro Hwf. unfold relabel.
  destruct (nodup_labs (map snd m)) eqn:E1; cbn [negb].
  2:{ split; [|reflexivity]. intros _. left. intro H. apply nodup_labs_NoDup in H. congruence. }
  destruct (existsb (fun n => count v n && negb (mem_lab n (map fst m))) (map snd m)) eqn:E2.
  { split; [|reflexivity]. intros _. right. apply existsb_exists in E2.
    destruct E2 as [n [Hn Hc]]. apply andb_true_iff in Hc. destruct Hc as [Hc Hm].
    exists n. split; [assumption|]. split; [now apply (count_spec _ _ Hwf)|].
    apply negb_true_iff in Hm. now apply mem_lab_false. }
  assert (Hok : forall r : res vars, (exists x, r = Ok x) ->
            (r = Err <-> ~ NoDup (map snd m) \/
             exists n, In n (map snd m) /\ In n (to_list v) /\ ~ In n (map fst m))).
  { intros r [x ->]. split; [discriminate|]. intros [H|[n [Hn [Hv Hk]]]]; exfalso.
    - apply H. now apply nodup_labs_NoDup.
    - pose proof (proj1 (existsb_false _ _) E2 n Hn) as Hf. cbv beta in Hf.
      apply (count_spec _ _ Hwf) in Hv. apply mem_lab_false in Hk.
      rewrite Hv, Hk in Hf. discriminate. }
  apply Hok. destruct (existsb (fun o => mem_lab o (map snd m)) (map fst m)).
  - destruct (resolve v (map fst m) (map snd m) (2 * Z.of_nat (length m)) m) as [a b].
    eexists. reflexivity.
  - eexists. reflexivity.
Qed.

Lemma relabel_ok v m v' :
  wf v -> relabel v m = Ok v' ->
  wf v' /\ (NoDup (map fst m) -> to_list v' = map (subst_lab m) (to_list v)).
Proof.
  intros Hwf H. unfold relabel in H.
  destruct (nodup_labs (map snd m)) eqn:E1; cbn [negb] in H; [|discriminate].
  apply nodup_labs_NoDup in E1.
  destruct (existsb (fun n => count v n && negb (mem_lab n (map fst m))) (map snd m)) eqn:E2;
    [discriminate|].
  assert (Hext : forall n, In n (map snd m) -> In n (to_list v) -> In n (map fst m)).
  { intros n Hn Hv. pose proof (proj1 (existsb_false _ _) E2 n Hn) as Hf. cbv beta in Hf.
    apply (count_spec _ _ Hwf) in Hv. rewrite Hv in Hf. cbn [andb] in Hf.
    apply negb_false_iff in Hf. now apply mem_lab_In. }
  clear E2.
  destruct (existsb (fun o => mem_lab o (map snd m)) (map fst m)) eqn:E3.
  - pose proof (resolve_resolved v (map fst m) (map snd m) m (2 * Z.of_nat (length m))) as HR.
    destruct (resolve v (map fst m) (map snd m) (2 * Z.of_nat (length m)) m) as [a b].
    cbn [fst snd] in HR. injection H as <-. clear E3.
    set (c0 := (2 * Z.of_nat (length m))%Z) in *.
    pose proof (resolved_nodup _ _ _ Hwf _ _ _ _ HR E1 (incl_refl _)) as Hnd.
    destruct (NoDup_app_parts _ _ Hnd) as [Hnda Hndb].
    assert (HA2 : forall n, In n (map snd a) -> ~ In n (to_list v)).
    { intros n Hn. destruct (resolved_targets_a _ _ _ Hwf _ _ _ _ HR n Hn) as [Hf|[Hin Ho]].
      - apply (isfresh_avoid _ _ _ Hwf) in Hf. tauto.
      - intro Hv. apply Ho. now apply Hext. }
    destruct (relabel_sub_wf a v Hwf Hnda HA2) as [Hwf1 Hincl1].
    assert (HB2 : forall n, In n (map snd b) -> ~ In n (to_list (relabel_sub v a))).
    { intros n Hn Hin. destruct (Hincl1 n Hin) as [[Hv Hk]|Hs].
      - destruct (resolved_targets_b _ _ _ Hwf _ _ _ _ _ HR Hn) as [Hnews [o [Hon Hne]]].
        pose proof (Hext n Hnews Hv) as Hold. apply in_map_iff in Hold.
        destruct Hold as [[n1 n2] [E Hp]]. cbn [fst] in E. subst n1.
        apply Hk. apply (resolved_keys _ _ _ _ _ _ _ HR). exists n2. split; [assumption|].
        intros <-. apply Hne. exact (NoDup_snd_fst_eq m o n n E1 Hon Hp).
      - eapply NoDup_app_disj; eassumption. }
    destruct (relabel_sub_wf b _ Hwf1 Hndb HB2) as [Hwf2 _].
    split; [assumption|]. intro Hkeys.
    rewrite relabel_sub_spec; [|assumption|assumption|assumption|].
    + rewrite relabel_sub_spec; [|assumption|assumption|assumption|].
      * rewrite map_map. apply map_ext_in. intros x Hx.
        apply (resolved_compose _ _ _ Hwf _ _ _ _ HR Hkeys (incl_refl _) x Hx).
      * intros o Ho Hin. apply (resolved_keys _ _ _ _ _ _ _ HR) in Ho. destruct Ho as [n [Hon _]].
        apply In_fst in Hon. cbn [fst] in Hon.
        destruct (resolved_targets_a _ _ _ Hwf _ _ _ _ HR o Hin) as [Hf|[_ Hno]]; [|contradiction].
        apply (isfresh_avoid _ _ _ Hwf) in Hf. tauto.
    + intros k Hk Hin. apply (resolved_keys_b _ _ _ Hwf _ _ _ _ _ HR) in Hk.
      apply (isfresh_avoid _ _ _ Hwf) in Hk. destruct Hk as [Hk _]. apply Hk.
      now destruct (resolved_targets_b _ _ _ Hwf _ _ _ _ _ HR Hin).
  - injection H as <-.
    assert (Hdisj : forall o, In o (map fst m) -> ~ In o (map snd m)).
    { intros o Ho. apply mem_lab_false. exact (proj1 (existsb_false _ _) E3 o Ho). }
    assert (Hnew : forall n, In n (map snd m) -> ~ In n (to_list v)).
    { intros n Hn Hv. apply (Hdisj n); [now apply Hext|assumption]. }
    destruct (relabel_sub_wf m v Hwf E1 Hnew) as [Hwf1 _]. split; [assumption|].
    intros _. now apply relabel_sub_spec.
Qed.

(* ---------- remove ---------- *)
Lemma at_pop_state v idx i : i <> idx -> at_ (pop_state v idx) i = at_ v i.
Proof. intro Hi. unfold at_, pop_state. cbn [i2l]. now rewrite nget_ndel_other. Qed.

Lemma to_list_pop_state v idx : to_list (pop_state v idx) = map (at_ v) (seq 0 idx).
Proof.
  unfold to_list. cbn [pop_state stop]. apply map_ext_in. intros i Hi. apply in_seq in Hi.
  apply at_pop_state. lia.
Qed.

Lemma NoDup_map_at v n : forall a, wf v -> a + n <= stop v -> NoDup (map (at_ v) (seq a n)).
Proof.
  induction n as [|n IH]; intros a Hwf Hle; cbn [seq map]; constructor.
  - intro Hin. apply in_map_iff in Hin. destruct Hin as [j [Hj Hin]]. apply in_seq in Hin.
    assert (j = a) by (apply (at_inj v); [assumption|lia|lia|assumption]). lia.
  - apply IH; [assumption|lia].
Qed.

Lemma lget_shift v n : forall a j,
  wf v -> a + n <= stop v -> j < stop v ->
  lget (at_ v j) (map (fun i => (at_ v i, at_ v (S i))) (seq a n)) =
  if (a <=? j) && (j <? a + n) then Some (at_ v (S j)) else None.
Proof.
  induction n as [|n IH]; intros a j Hwf Hle Hj; cbn [seq map lget].
  - destruct (Nat.leb_spec a j), (Nat.ltb_spec j (a + 0)); cbn [andb]; try reflexivity; lia.
  - destruct (lab_eqb_spec (at_ v j) (at_ v a)) as [E|E].
    + apply at_inj in E; [|assumption|assumption|lia]. subst j.
      destruct (Nat.leb_spec a a), (Nat.ltb_spec a (a + S n)); cbn [andb]; try reflexivity; lia.
    + assert (Hne : j <> a) by congruence. rewrite IH by (assumption || lia).
      destruct (Nat.leb_spec (S a) j), (Nat.leb_spec a j),
        (Nat.ltb_spec j (S a + n)), (Nat.ltb_spec j (a + S n)); cbn [andb]; try reflexivity; lia.
Qed.

Lemma list_remove_map_seq (f : nat -> lab) vi : forall n a,
  (forall i j, a <= i < a + n -> a <= j < a + n -> f i = f j -> i = j) ->
  a <= vi < a + n ->
  list_remove (f vi) (map f (seq a n)) =
  map (fun j => if j <? vi then f j else f (S j)) (seq a (n - 1)).
Proof.
  induction n as [|n IH]; intros a Hinj Hvi; [lia|].
  cbn [seq map list_remove]. replace (S n - 1) with n by lia.
  destruct (lab_eqb_spec (f vi) (f a)) as [E|E].
  - apply Hinj in E; [|lia|lia]. subst vi. rewrite <- seq_shift, map_map.
    apply map_ext_in. intros j Hj. apply in_seq in Hj.
    destruct (Nat.ltb_spec j a); [lia|reflexivity].
  - assert (Hne : vi <> a) by congruence. rewrite IH; [| |lia].
    + destruct n as [|n]; [lia|]. replace (S n - 1) with n by lia. cbn [seq map].
      destruct (Nat.ltb_spec a vi); [reflexivity|lia].
    + intros i j Hi Hj. apply Hinj; lia.
Qed.

Lemma remove_present v l :
  wf v -> count v l = true ->
  exists v', remove v l = Ok v' /\ wf v' /\ to_list v' = list_remove l (to_list v).
Proof.
  intros Hwf Hc. unfold remove. rewrite index_eq, Hc.
  destruct (pos_spec _ _ Hwf Hc) as [Hlt Hat]. set (vi := pos v l) in *.
  destruct (stop v) as [|idx] eqn:Hs; [lia|].
  destruct (pop_S v idx Hwf Hs) as [Hpop [_ Hwf']]. rewrite Hpop.
  replace (S idx - 1 - vi) with (idx - vi) by lia.
  set (mp := map (fun i => (at_ v i, at_ v (S i))) (seq vi (idx - vi))).
  assert (Hfst : map fst mp = map (at_ v) (seq vi (idx - vi))).
  { unfold mp. rewrite map_map. reflexivity. }
  assert (Hsnd : map snd mp = map (at_ v) (seq (S vi) (idx - vi))).
  { unfold mp. rewrite map_map, <- seq_shift, map_map. reflexivity. }
  assert (Hndf : NoDup (map fst mp)). { rewrite Hfst. apply NoDup_map_at; [assumption|lia]. }
  assert (Hnds : NoDup (map snd mp)). { rewrite Hsnd. apply NoDup_map_at; [assumption|lia]. }
  destruct (relabel (pop_state v idx) mp) as [v''|] eqn:Er.
  - exists v''. split; [reflexivity|].
    destruct (relabel_ok _ _ _ Hwf' Er) as [Hwf'' Hl]. split; [assumption|].
    rewrite (Hl Hndf), to_list_pop_state, map_map. unfold to_list. rewrite Hs, <- Hat.
    rewrite list_remove_map_seq.
    + replace (S idx - 1) with idx by lia. apply map_ext_in. intros j Hj. apply in_seq in Hj.
      unfold subst_lab, mp. rewrite lget_shift by (assumption || lia).
      destruct (Nat.leb_spec vi j), (Nat.ltb_spec j (vi + (idx - vi))), (Nat.ltb_spec j vi);
        cbn [andb]; try reflexivity; lia.
    + intros i j Hi Hj. apply (at_inj v); [assumption|lia|lia].
    + lia.
  - exfalso. apply (relabel_err_iff _ _ Hwf') in Er. destruct Er as [Hn|[n [Hn [Hv Hk]]]].
    + contradiction.
    + rewrite Hsnd in Hn. apply in_map_iff in Hn. destruct Hn as [i [<- Hi]]. apply in_seq in Hi.
      rewrite to_list_pop_state in Hv. apply in_map_iff in Hv. destruct Hv as [j [Hj Hjn]].
      apply in_seq in Hjn. apply at_inj in Hj; [|assumption|lia|lia]. subst j.
      apply Hk. rewrite Hfst. apply in_map. apply in_seq. lia.
Qed.

Lemma remove_ok v l v' :
  wf v -> remove v l = Ok v' -> wf v' /\ to_list v' = list_remove l (to_list v).
Proof.
  intros Hwf H. destruct (count v l) eqn:Hc.
  - destruct (remove_present _ _ Hwf Hc) as [v2 [E [Hw Hl]]]. rewrite E in H.
    injection H as <-. now split.
  - unfold remove in H. rewrite index_eq, Hc in H. discriminate.
Qed.

Lemma remove_err_iff v l : wf v -> (remove v l = Err <-> ~ In l (to_list v)).
Proof.
  intro Hwf. rewrite <- (count_false _ _ Hwf). destruct (count v l) eqn:Hc.
  - destruct (remove_present _ _ Hwf Hc) as [v2 [E _]]. rewrite E. split; discriminate.
  - unfold remove. rewrite index_eq, Hc. split; reflexivity.
Qed.

(* ---------- every operation keeps the invariant ---------- *)
Lemma append_wf v l p :
  wf v -> match append v l p with Ok (v', _) => wf v' | Err => True end.
Proof.
  intro Hwf. destruct l as [l|].
  - unfold append. destruct (count v l) eqn:Hc.
    + destruct p; [assumption|exact I].
    + now apply wf_store.
  - now destruct (append_auto v p Hwf) as [-> [_ [_ Hw]]].
Qed.

Lemma extend_wf ls : forall v p,
  wf v -> match extend v ls p with Ok v' => wf v' | Err => True end.
Proof.
  induction ls as [|l r IH]; intros v p Hwf; cbn [extend]; [assumption|].
  pose proof (append_wf v (Some l) p Hwf) as Ha.
  destruct (append v (Some l) p) as [[v1 x]|]; [|exact I]. now apply IH.
Qed.

Lemma extend_partial_wf ls : forall v p, wf v -> wf (extend_partial v ls p).
Proof.
  induction ls as [|l r IH]; intros v p Hwf; cbn [extend_partial]; [assumption|].
  pose proof (append_wf v (Some l) p Hwf) as Ha.
  destruct (append v (Some l) p) as [[v1 x]|]; [|assumption]. now apply IH.
Qed.

(* strict extension appends exactly the given labels *)
Lemma extend_strict ls : forall v v',
  wf v -> extend v ls false = Ok v' -> to_list v' = to_list v ++ ls.
Proof.
  induction ls as [|l r IH]; intros v v' Hwf H; cbn [extend] in H.
  - injection H as <-. now rewrite app_nil_r.
  - destruct (count v l) eqn:Hc.
    + destruct (append_dup v l Hc) as [_ E]. rewrite E in H. discriminate.
    + destruct (append_new v l false Hwf Hc) as [E [Hl Hw]]. rewrite E in H.
      rewrite (IH _ _ Hw H), Hl, <- app_assoc. reflexivity.
Qed.

(* the constructors: Variables(iterable), Variables(range(n)) *)
Lemma init_vars_wf ls : wf (init_vars ls).
Proof.
  unfold init_vars. pose proof (extend_wf ls empty true wf_empty) as H.
  destruct (extend empty ls true) as [v'|]; [assumption|apply wf_empty].
Qed.

Lemma ctor_range_wf z : wf (ctor_range z).
Proof. exact (proj1 (relabel_as_integers_spec (ctor_range z))). Qed.

Lemma ctor_range_list z :
  to_list (ctor_range z) = map (fun i => LI (Z.of_nat i)) (seq 0 (Z.to_nat z)).
Proof. exact (proj2 (relabel_as_integers_spec (ctor_range z))). Qed.

Lemma extend_permissive_new ls : forall v,
  wf v -> NoDup ls -> (forall l, In l ls -> ~ In l (to_list v)) ->
  exists v', extend v ls true = Ok v' /\ to_list v' = to_list v ++ ls /\ wf v'.
Proof.
  induction ls as [|l r IH]; intros v Hwf Hnd Hnew; cbn [extend].
  - exists v. rewrite app_nil_r. auto.
  - assert (Hc : count v l = false).
    { destruct (count v l) eqn:E; [|reflexivity]. apply (count_spec v l Hwf) in E.
      exfalso. apply (Hnew l); [left; reflexivity|assumption]. }
    destruct (append_new v l true Hwf Hc) as [E [Hl Hw]]. rewrite E.
    inversion Hnd as [|x xs Hx Hnd']; subst.
    destruct (IH (store v l) Hw Hnd') as [v' [E' [Hl' Hw']]].
    + intros l' Hin Hin'. rewrite Hl in Hin'. apply in_app_or in Hin'. destruct Hin' as [Hin'|Hin'].
      * apply (Hnew l'); [right; assumption|assumption].
      * destruct Hin' as [->|[]]. contradiction.
    + exists v'. rewrite E', Hl', Hl, <- app_assoc. auto.
Qed.

(* Variables(ls) for a duplicate-free ls is that list *)
Lemma init_vars_list ls : NoDup ls -> to_list (init_vars ls) = ls /\ wf (init_vars ls).
Proof.
  intro Hnd. unfold init_vars.
  destruct (extend_permissive_new ls empty wf_empty Hnd) as [v' [E [Hl Hw]]].
  - intros l _ H. exact H.
  - rewrite E. split; assumption.
Qed.

Lemma step_wf v o : wf v -> wf (fst (fst (step v o))).
Proof.
  intro Hwf. destruct o as [l p|ls p| |m| |l| | |ls|a b z]; cbn [step].
  - pose proof (append_wf v l p Hwf) as H.
    destruct (append v l p) as [[v' x]|]; cbn [fst]; assumption.
  - pose proof (extend_wf ls v p Hwf) as H.
    destruct (extend v ls p) as [v'|]; cbn [fst]; [assumption|now apply extend_partial_wf].
  - destruct (pop v) as [[v' x]|] eqn:E; cbn [fst]; [|assumption].
    destruct (stop v) as [|idx] eqn:Hs.
    + rewrite (pop_empty v Hs) in E. discriminate.
    + destruct (pop_S v idx Hwf Hs) as [E' [_ Hw]]. rewrite E' in E. injection E as <- _. assumption.
  - destruct (relabel v m) as [v'|] eqn:E; cbn [fst]; [|assumption].
    now destruct (relabel_ok _ _ _ Hwf E).
  - cbn [fst]. now destruct (relabel_as_integers_spec v).
  - destruct (remove v l) as [v'|] eqn:E; cbn [fst]; [|assumption].
    now destruct (remove_ok _ _ _ Hwf E).
  - cbn [fst]. apply wf_empty.
  - cbn [fst]. assumption.
  - cbn [fst]. apply init_vars_wf.
  - cbn [fst]. unfold ctor_of_range. destruct (gen_ctor_fast a b z); [apply ctor_range_wf|apply init_vars_wf].
Qed.

Definition run_ops (v : vars) (os : list op) : vars :=
  fold_left (fun s o => fst (fst (step s o))) os v.

Lemma run_ops_wf os : forall v, wf v -> wf (run_ops v os).
Proof.
  induction os as [|o r IH]; intros v Hwf; cbn [run_ops fold_left]; [assumption|].
  apply IH. now apply step_wf.
Qed.

Lemma reachable_wf os : wf (run_ops empty os).
Proof. apply run_ops_wf, wf_empty. Qed.

Lemma reachable_list os :
  let v := run_ops empty os in
  NoDup (to_list v) /\ length (to_list v) = stop v /\
  forall l, (count v l = true <-> In l (to_list v)) /\ index v l = list_index l (to_list v).
Proof.
  intro v. pose proof (reachable_wf os) as Hwf. fold v in Hwf.
  split; [now apply wf_nodup|]. split; [apply to_list_length|].
  intro l. split; [now apply count_spec|now apply index_spec].
Qed.

(* ---------- the statements in the shape quoted by Props/C13 ---------- *)
Lemma relabel1_fresh v old new :
  wf v -> ~ In new (to_list v) ->
  wf (relabel1 v old new) /\
  to_list (relabel1 v old new) = map (fun x => if lab_eqb x old then new else x) (to_list v).
Proof. intros Hwf Hn. apply relabel1_spec; [assumption|now right]. Qed.

Lemma relabel1_absent v old new : wf v -> ~ In old (to_list v) -> relabel1 v old new = v.
Proof.
  intros Hwf Ho. apply (count_false _ _ Hwf) in Ho. unfold relabel1.
  destruct (lab_eqb old new); [reflexivity|]. now rewrite Ho.
Qed.

Lemma relabel_ok_wf v m v' : wf v -> relabel v m = Ok v' -> wf v'.
Proof. intros Hwf H. now destruct (relabel_ok _ _ _ Hwf H). Qed.

Lemma relabel_ok_list v m v' :
  wf v -> NoDup (map fst m) -> relabel v m = Ok v' ->
  wf v' /\ to_list v' = map (subst_lab m) (to_list v).
Proof. intros Hwf Hk H. destruct (relabel_ok _ _ _ Hwf H) as [Hw Hl]. split; auto. Qed.
