(* C08: the raw-state evaluation of the left-hand sides (cyexpression._energies under
   iter_constraint_data and from_samples_cqm) gives the labelled definition, for every order
   of the sample columns and every order in which the model's variables were added. *)
From Coq Require Import List ZArith QArith Qcanon Bool Arith Lia.
From Dimod Require Import Base.Util Model.Poly Model.Samples Model.Feas Model.EnergyCy Model.FeasCy
  Proofs.PolyFacts Proofs.SamplesFacts Proofs.EnergyCyFacts Proofs.FeasFacts.
From Dimod Require Model.Adj.
Import ListNotations.
Open Scope Qc_scope.

Lemma xexpr_wfb_wf e : xexpr_wfb e = true -> xexpr_wf e.
Proof.
  unfold xexpr_wfb, xexpr_wf. intros H. apply andb_prop in H. destruct H as [H1 H2].
  split; [exact H1 | apply Nat.eqb_eq; exact H2].
Qed.

(* ---- one expression ---- *)
Theorem xexpr_energies_cy_covered e pvars ls rows :
  xexpr_wf e -> covers ls (xexpr_labels e pvars) = true ->
  xexpr_energies_cy e pvars ls rows
  = Some (map (fun row => energy (xexpr_poly_labels e pvars) (row_sample ls row)) rows).
Proof.
  intros Hwf Hc. rewrite xexpr_energies_cy_eq_spec by exact Hwf. unfold energies. rewrite Hc. reflexivity.
Qed.

Theorem xexpr_energies_cy_uncovered e pvars ls rows :
  xexpr_wf e -> covers ls (xexpr_labels e pvars) = false -> xexpr_energies_cy e pvars ls rows = None.
Proof.
  intros Hwf Hc. rewrite xexpr_energies_cy_eq_spec by exact Hwf. unfold energies. rewrite Hc. reflexivity.
Qed.

Lemma x_energy1_covered e pvars ls row :
  xexpr_wf e -> covers ls (xexpr_labels e pvars) = true ->
  x_energy1 e pvars ls row = Some (energy (xexpr_poly_labels e pvars) (row_sample ls row)).
Proof.
  intros Hwf Hc. unfold x_energy1. rewrite xexpr_energies_cy_covered by assumption. reflexivity.
Qed.

Lemma x_energy1_uncovered e pvars ls row :
  xexpr_wf e -> covers ls (xexpr_labels e pvars) = false -> x_energy1 e pvars ls row = None.
Proof.
  intros Hwf Hc. unfold x_energy1. rewrite xexpr_energies_cy_uncovered by assumption. reflexivity.
Qed.

Lemma constraint_datum_of_lhs k s :
  constraint_datum k s = datum_of_lhs (energy (c_lhs k) s) (c_sense k) (c_rhs k).
Proof. reflexivity. Qed.

(* the labelled polynomial of an expression mentions only the expression's own labels *)
Lemma xexpr_poly_labels_mentions e pvars :
  xexpr_wf e -> mentions_only (xexpr_poly_labels e pvars) (xexpr_labels e pvars).
Proof.
  intros [HI Hlen]. unfold xexpr_poly_labels, xexpr_poly, xexpr_labels.
  apply relabel_mentions.
  pose proof (relabel_mentions (fun i => nth i (x_vars e) 0%nat) _ _ (abs_mentions_below _ HI)) as H.
  rewrite <- Hlen, map_nth_seq in H. exact H.
Qed.

(* ---- the per-sample path ---- *)
Definition xcons_wf (cons : list xcon) : Prop := forall k, In k cons -> xexpr_wf (xc_lhs k).
Definition xcons_covered (pvars ls : list label) (cons : list xcon) : Prop :=
  forall k, In k cons -> xcon_covered pvars ls k = true.

Lemma x_iter_constraint_data_map pvars cons ls row :
  xcons_wf cons -> xcons_covered pvars ls cons ->
  x_iter_constraint_data pvars cons ls row
  = Some (map (fun k => constraint_datum (xcon_con pvars k) (row_sample ls row)) cons).
Proof.
  induction cons as [|k r IH]; intros Hwf Hc; [reflexivity|].
  cbn [x_iter_constraint_data map].
  rewrite x_energy1_covered by (first [apply Hwf; left; reflexivity | apply (Hc k); left; reflexivity]).
  rewrite IH by (first [intros k' Hk'; apply Hwf; right; exact Hk' | intros k' Hk'; apply Hc; right; exact Hk']).
  reflexivity.
Qed.

Theorem x_iter_constraint_data_eq xm ls row :
  xcons_wf (xm_cons xm) -> xcons_covered (xm_pvars xm) ls (xm_cons xm) ->
  x_iter_constraint_data (xm_pvars xm) (xm_cons xm) ls row
  = Some (iter_constraint_data (xcqm_cqm xm) (row_sample ls row)).
Proof.
  intros Hwf Hc. rewrite x_iter_constraint_data_map by assumption.
  unfold iter_constraint_data, xcqm_cqm. cbn [m_cons]. rewrite map_map. reflexivity.
Qed.

(* ... and therefore the definition, whatever the column order *)
Theorem x_iter_constraint_data_definition xm ls row :
  xcons_wf (xm_cons xm) -> xcons_covered (xm_pvars xm) ls (xm_cons xm) ->
  x_iter_constraint_data (xm_pvars xm) (xm_cons xm) ls row
  = Some (map (fun k => let s := row_sample ls row in
                        mkDatum (energy (c_lhs k) s) (c_rhs k) (c_sense k) (activity k s) (violation k s))
              (m_cons (xcqm_cqm xm))).
Proof.
  intros Hwf Hc. rewrite x_iter_constraint_data_eq by assumption. rewrite iter_constraint_data_spec. reflexivity.
Qed.

(* a label of some left-hand side missing from the sample: ValueError *)
Theorem x_iter_constraint_data_raises pvars cons ls row :
  xcons_wf cons -> (exists k, In k cons /\ xcon_covered pvars ls k = false) ->
  x_iter_constraint_data pvars cons ls row = None.
Proof.
  induction cons as [|k r IH]; intros Hwf [k0 [Hin Hk0]]; [destruct Hin|].
  cbn [x_iter_constraint_data].
  destruct (xcon_covered pvars ls k) eqn:Ek.
  - rewrite x_energy1_covered by (first [apply Hwf; left; reflexivity | exact Ek]).
    rewrite IH; [reflexivity | intros k' Hk'; apply Hwf; right; exact Hk' |].
    destruct Hin as [->|Hin]; [rewrite Ek in Hk0; discriminate|]. exists k0. split; assumption.
  - rewrite x_energy1_uncovered by (first [apply Hwf; left; reflexivity | exact Ek]). reflexivity.
Qed.

(* ---- the vectorised path: the objective column and the lhs columns ---- *)
Lemma x_lhs_columns_map pvars cons ls rows :
  xcons_wf cons -> xcons_covered pvars ls cons ->
  x_lhs_columns pvars cons ls rows
  = Some (map (fun k => map (fun row => energy (c_lhs (xcon_con pvars k)) (row_sample ls row)) rows) cons).
Proof.
  induction cons as [|k r IH]; intros Hwf Hc; [reflexivity|].
  cbn [x_lhs_columns map].
  rewrite xexpr_energies_cy_covered by (first [apply Hwf; left; reflexivity | apply (Hc k); left; reflexivity]).
  rewrite IH by (first [intros k' Hk'; apply Hwf; right; exact Hk' | intros k' Hk'; apply Hc; right; exact Hk']).
  reflexivity.
Qed.

Theorem x_vec_inputs_eq xm ls rows :
  xexpr_wf (xm_obj xm) -> covers ls (xexpr_labels (xm_obj xm) (xm_pvars xm)) = true ->
  xcons_wf (xm_cons xm) -> xcons_covered (xm_pvars xm) ls (xm_cons xm) ->
  x_vec_inputs xm ls rows
  = Some (map (fun row => energy (m_obj (xcqm_cqm xm)) (row_sample ls row)) rows,
          map (fun k => map (fun row => energy (c_lhs k) (row_sample ls row)) rows) (m_cons (xcqm_cqm xm))).
Proof.
  intros Ho Hoc Hwf Hc. unfold x_vec_inputs, x_objective_column.
  rewrite xexpr_energies_cy_covered by assumption.
  rewrite x_lhs_columns_map by assumption.
  unfold xcqm_cqm. cbn [m_obj m_cons]. rewrite map_map. reflexivity.
Qed.

Theorem x_vec_inputs_raises xm ls rows :
  xexpr_wf (xm_obj xm) -> covers ls (xexpr_labels (xm_obj xm) (xm_pvars xm)) = false ->
  x_vec_inputs xm ls rows = None.
Proof.
  intros Ho Hoc. unfold x_vec_inputs, x_objective_column.
  rewrite xexpr_energies_cy_uncovered by assumption. reflexivity.
Qed.

(* ---- the order of the columns, and columns the model does not know, are irrelevant ---- *)
Theorem x_iter_constraint_data_column_order xm ls row ls' row' :
  xcons_wf (xm_cons xm) ->
  xcons_covered (xm_pvars xm) ls (xm_cons xm) -> xcons_covered (xm_pvars xm) ls' (xm_cons xm) ->
  (forall k v, In k (xm_cons xm) -> In v (xexpr_labels (xc_lhs k) (xm_pvars xm)) ->
               row_sample ls row v = row_sample ls' row' v) ->
  x_iter_constraint_data (xm_pvars xm) (xm_cons xm) ls row
  = x_iter_constraint_data (xm_pvars xm) (xm_cons xm) ls' row'.
Proof.
  intros Hwf Hc Hc' Hs. rewrite !x_iter_constraint_data_map by assumption. f_equal.
  apply map_ext_in. intros k Hk. rewrite !constraint_datum_of_lhs. f_equal.
  unfold xcon_con. cbn [c_lhs].
  apply (energy_depends_on_vars _ (xexpr_labels (xc_lhs k) (xm_pvars xm))).
  - apply xexpr_poly_labels_mentions. apply Hwf. exact Hk.
  - intros v Hv. apply (Hs k v Hk Hv).
Qed.

(* ---- list / iterator of samples, each with its own label order: after the re-alignment to the first
        sample's order every row is still evaluated as the assignment it was given as ---- *)
Lemma energy_aligned e pvars first lr :
  xexpr_wf e -> covers first (xexpr_labels e pvars) = true ->
  energy (xexpr_poly_labels e pvars) (row_sample first (reindex_row first (fst lr) (snd lr)))
  = energy (xexpr_poly_labels e pvars) (row_sample (fst lr) (snd lr)).
Proof.
  intros Hwf Hc. apply (energy_depends_on_vars _ (xexpr_labels e pvars)).
  - apply xexpr_poly_labels_mentions. exact Hwf.
  - intros v Hv. unfold row_sample. apply reindex_row_value.
    apply (proj1 (covers_spec first (xexpr_labels e pvars)) Hc). exact Hv.
Qed.

Theorem x_vec_inputs_aligned xm first lrs :
  xexpr_wf (xm_obj xm) -> covers first (xexpr_labels (xm_obj xm) (xm_pvars xm)) = true ->
  xcons_wf (xm_cons xm) -> xcons_covered (xm_pvars xm) first (xm_cons xm) ->
  x_vec_inputs xm first (align_rows first lrs)
  = Some (map (fun lr => energy (m_obj (xcqm_cqm xm)) (row_sample (fst lr) (snd lr))) lrs,
          map (fun k => map (fun lr => energy (c_lhs k) (row_sample (fst lr) (snd lr))) lrs) (m_cons (xcqm_cqm xm))).
Proof.
  intros Ho Hoc Hwf Hc. rewrite x_vec_inputs_eq by assumption. unfold align_rows, xcqm_cqm. cbn [m_obj m_cons].
  f_equal. f_equal.
  - rewrite map_map. apply map_ext. intros lr. apply energy_aligned; assumption.
  - rewrite !map_map. apply map_ext_in. intros k Hk. rewrite map_map. apply map_ext. intros lr.
    unfold xcon_con. cbn [c_lhs]. apply energy_aligned; [apply Hwf; exact Hk | apply (Hc k Hk)].
Qed.

Print Assumptions x_vec_inputs_aligned.
Print Assumptions x_iter_constraint_data_definition.
Print Assumptions x_vec_inputs_eq.
Print Assumptions x_iter_constraint_data_column_order.
