(* Round-4 corner facts for C02 / C03. *)
From Coq Require Import List ZArith QArith Qcanon Bool Arith.
From Dimod Require Import Base.Util Model.Poly Model.Adj Model.Expr Model.VartypeOps Model.VartypeLoopsGen
  Model.VartypeLoopsSub Model.FixPy.
Import ListNotations.
Open Scope Qc_scope.

(* C02: why the conversion loop must range over ALL variables of the CQM.  A model with two spin variables, the
   objective s0 and the constraint s0 + s1 <= 1: looping over the objective's variables only ([0]) leaves variable 1
   SPIN, and the constraint's activity at the converted sample (x = (s+1)/2, i.e. s1 = -1 -> x1 = 0) differs from the
   original's: at x = (0, 0) the half-converted constraint gives -2, the original at s = (-1, -1) gives -3. *)
Definition ex_cqm : mcqm :=
  mkM [mkI SPIN (- (1)) 1; mkI SPIN (- (1)) 1]
      (mkE [0%nat] (rebuild_idx [0%nat]) [1] [] 0)
      [mkMC (mkE [0%nat; 1%nat] (rebuild_idx [0%nat; 1%nat]) [1; 1] [] 0) 0 1 None 0 false].

Theorem cqm_stb_over_objective_only_refuted :
  exists (q q' : mcqm) (k k' : mcon) (s : sample),
    cqm_stb_over (e_vars (m_obj q)) SPIN BINARY q = Some q' /\
    cq_vartype q' 1 = SPIN /\
    nth_error (m_cons q) 0 = Some k /\ nth_error (m_cons q') 0 = Some k' /\
    mc_activity k' s <> mc_activity k (fun v => two * s v - 1).
Proof.
  exists ex_cqm.
  destruct (cqm_stb_over (e_vars (m_obj ex_cqm)) SPIN BINARY ex_cqm) as [q'|] eqn:E; [|vm_compute in E; discriminate].
  exists q'.
  destruct (nth_error (m_cons ex_cqm) 0) as [k|] eqn:Ek; [|vm_compute in Ek; discriminate].
  destruct (nth_error (m_cons q') 0) as [k'|] eqn:Ek'.
  2:{ vm_compute in E. inversion E; subst. vm_compute in Ek'. discriminate. }
  exists k, k', (fun _ => 0).
  vm_compute in E. inversion E; subst. clear E.
  vm_compute in Ek. inversion Ek; subst. clear Ek.
  vm_compute in Ek'. inversion Ek'; subst. clear Ek'.
  repeat split; try reflexivity.
  intros H. vm_compute in H. discriminate H.
Qed.

(* C03: fixing nothing is the identity on both the specification and the python loop *)
Theorem fix_nothing_is_identity p : fix_variables [] p = p /\ py_fix_variables [] p = p.
Proof. split; reflexivity. Qed.

Print Assumptions cqm_stb_over_objective_only_refuted.
Print Assumptions fix_nothing_is_identity.
