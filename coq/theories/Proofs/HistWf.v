(* C04: well-formedness (no term mentions an absent variable, no self-loop term
   on a SPIN/BINARY variable, labels distinct, a BQM has one vartype) is
   preserved by every call built from the primitive writes - on the base object
   and through a view handle - and hence by any history of such calls. *)
From Coq Require Import List ZArith QArith Qcanon Bool Arith Lia.
From Dimod Require Import Base.Util Model.Poly Model.View Model.Hist Proofs.PolyFacts Proofs.HistFacts.
Import ListNotations.
Open Scope Qc_scope.

Definition pres (f : state -> res) : Prop := forall s, wf s -> wf (fst (f s)).

Lemma wf_bind r g : wf (fst r) -> pres g -> wf (fst (r >>= g)).
Proof. intros Hr Hg. unfold bind. destruct (snd r); [apply Hg|]; assumption. Qed.

Lemma pres_bind f g : pres f -> pres g -> pres (fun s => f s >>= g).
Proof. intros Hf Hg s Hs. apply wf_bind; [apply Hf; assumption|assumption]. Qed.

Lemma pres_ok : pres ok.
Proof. intros s Hs. exact Hs. Qed.

Lemma pres_raise b : pres (raise b).
Proof. intros s Hs. exact Hs. Qed.

Lemma pres_seqm {A : Type} (f : A -> state -> res) l : (forall x, pres (f x)) -> pres (seqm f l).
Proof.
  intros Hf. induction l as [|x l IH]; [apply pres_ok|].
  intros s Hs. cbn [seqm]. apply wf_bind; [apply Hf; assumption|exact IH].
Qed.

(* ---------- vt_of is stable ---------- *)
Lemma find_app_l (g : vinfo -> bool) l1 l2 x : find g l1 = Some x -> find g (l1 ++ l2) = Some x.
Proof.
  induction l1 as [|a l IH]; [discriminate|]. cbn [find app]. destruct (g a); [tauto|exact IH].
Qed.

Lemma find_var_some s v : In v (labels s) -> exists i, find_var s v = Some i.
Proof.
  unfold find_var, labels. induction (st_vars s) as [|a l IH]; [intros []|].
  cbn [map In find]. destruct (Nat.eqb_spec (v_lab a) v) as [E|E]; [eexists; reflexivity|].
  intros [H|H]; [contradiction|]. apply IH. exact H.
Qed.

Lemma vt_of_ensure v s x : In x (labels s) -> vt_of (ensure v s) x = vt_of s x.
Proof.
  intros H. unfold ensure. destruct (has_var s v); [reflexivity|].
  destruct (find_var_some s x H) as [i Hi]. unfold vt_of, bvt, find_var, with_vars in *; cbn [st_vars st_kind].
  rewrite (find_app_l _ _ _ _ Hi), Hi. reflexivity.
Qed.

Lemma In_labels_ensure v s x : In x (labels s) -> In x (labels (ensure v s)).
Proof. intros H. rewrite labels_ensure. destruct (has_var s v); [assumption|]. apply in_or_app. auto. Qed.

Lemma In_ensure_self v s : In v (labels (ensure v s)).
Proof.
  rewrite labels_ensure. destruct (has_var s v) eqn:E; [apply has_var_In; assumption|].
  apply in_or_app. right. left. reflexivity.
Qed.

Lemma kind_ensure v s : st_kind (ensure v s) = st_kind s.
Proof. unfold ensure. destruct (has_var s v); reflexivity. Qed.

Lemma NoDup_app_cons_end (l : list label) v : NoDup l -> ~ In v l -> NoDup (l ++ [v]).
Proof.
  intros Hnd Hni. induction l as [|a l IH]; [constructor; [intros []|constructor]|].
  inversion Hnd as [|? ? Ha Hl]; subst. cbn [app]. constructor.
  - intros H. apply in_app_or in H. destruct H as [H|[H|[]]]; [contradiction|]. subst. apply Hni. left. reflexivity.
  - apply IH; [assumption|]. intros H. apply Hni. right. assumption.
Qed.

Lemma wf_ensure v s : wf s -> wf (ensure v s).
Proof.
  intros (Hnd & Hl & Hq & Hk). split; [|split; [|split]].
  - rewrite labels_ensure. destruct (has_var s v) eqn:E; [assumption|].
    apply NoDup_app_cons_end; [assumption|]. intros H. apply has_var_In in H. congruence.
  - intros t Ht. apply In_labels_ensure. apply Hl.
    unfold ensure in Ht. destruct (has_var s v); exact Ht.
  - intros t Ht. assert (Ht' : In t (p_quad (st_poly s))) by (unfold ensure in Ht; destruct (has_var s v); exact Ht).
    destruct (Hq t Ht') as (H1 & H2 & H3). repeat split; try (apply In_labels_ensure; assumption).
    intros E. rewrite vt_of_ensure by assumption. apply H3. exact E.
  - intros vt K. rewrite kind_ensure in K. destruct (Hk vt K) as [Hsb Hall]. split; [assumption|].
    intros i Hi. unfold ensure in Hi. destruct (has_var s v); [apply Hall; assumption|].
    unfold with_vars in Hi; cbn [st_vars] in Hi. apply in_app_or in Hi. destruct Hi as [Hi|[<-|[]]]; [apply Hall; assumption|].
    unfold mkvar, bvt; cbn [v_vt]. rewrite K. reflexivity.
Qed.

Lemma wf_with_poly s p :
  wf s ->
  (forall t, In t (p_lin p) -> In (fst t) (labels s)) ->
  (forall t, In t (p_quad p) -> In (fst (fst t)) (labels s) /\ In (snd (fst t)) (labels s)
        /\ (fst (fst t) = snd (fst t) -> is_sb (vt_of s (fst (fst t))) = false)) ->
  wf (with_poly s p).
Proof.
  intros (Hnd & _ & _ & Hk) Hl Hq. split; [exact Hnd|]. split; [exact Hl|]. split; [exact Hq|exact Hk].
Qed.

(* ---------- base primitives ---------- *)
Lemma resolve_shape v s :
  (resolve v s = ok (ensure v s) /\ st_kind s <> None) \/ (resolve v s = ok s /\ In v (labels s)) \/ resolve v s = raise BValue s.
Proof.
  unfold resolve. destruct (st_kind s); [left; split; [reflexivity|discriminate]|].
  destruct (has_var s v) eqn:E; [right; left; split; [reflexivity|apply has_var_In; assumption]|right; right; reflexivity].
Qed.

Lemma pres_resolve v : pres (resolve v).
Proof.
  intros s Hs. destruct (resolve_shape v s) as [[-> _]|[[-> _]| ->]]; cbn [ok raise fst]; try assumption.
  apply wf_ensure. assumption.
Qed.

Lemma resolve_in v s : snd (resolve v s) = Ok -> In v (labels (fst (resolve v s))).
Proof.
  destruct (resolve_shape v s) as [[-> _]|[[-> H]| ->]]; cbn [ok raise fst snd]; intros E; try discriminate.
  - apply In_ensure_self.
  - exact H.
Qed.

Lemma pres_d_add_linear v b : pres (d_add_linear v b).
Proof.
  intros s Hs. unfold d_add_linear, bind. destruct (snd (resolve v s)) eqn:E; [|apply pres_resolve; assumption].
  cbn [ok fst]. pose proof (pres_resolve v s Hs) as Hw. pose proof (resolve_in v s E) as Hin.
  apply wf_with_poly; [assumption| |apply Hw].
  intros t [<-|Ht]; [exact Hin|]. apply Hw. exact Ht.
Qed.

Lemma pres_d_set_linear v b : pres (d_set_linear v b).
Proof.
  intros s Hs. unfold d_set_linear, bind. destruct (snd (resolve v s)) eqn:E; [|apply pres_resolve; assumption].
  cbn [ok fst]. pose proof (pres_resolve v s Hs) as Hw. pose proof (resolve_in v s E) as Hin.
  apply wf_with_poly; [assumption| |apply Hw].
  intros t [<-|Ht]; [exact Hin|]. apply filter_In in Ht. apply Hw. apply Ht.
Qed.

(* the state after resolving both ends of an accepted interaction *)
Lemma quad_resolved u v s :
  wf s -> quad_guard u v s = false ->
  exists s', resolve u s >>= resolve v = ok s' /\ wf s' /\ In u (labels s') /\ In v (labels s')
             /\ (u = v -> is_sb (vt_of s' u) = false).
Proof.
  intros Hs Hg. unfold quad_guard in Hg. destruct (st_kind s) as [vt|] eqn:K.
  - apply Nat.eqb_neq in Hg. exists (ensure v (ensure u s)).
    rewrite (resolve_bqm_ok u s vt K), bind_ok.
    assert (K2 : st_kind (ensure u s) = Some vt) by (rewrite kind_ensure; assumption).
    rewrite (resolve_bqm_ok v _ vt K2). split; [reflexivity|]. split; [apply wf_ensure, wf_ensure; assumption|].
    split; [apply In_labels_ensure, In_ensure_self|]. split; [apply In_ensure_self|]. intros E. contradiction.
  - apply orb_false_elim in Hg. destruct Hg as [Hg Hr2]. apply orb_false_elim in Hg. destruct Hg as [Hg Hr1].
    apply orb_false_elim in Hg. destruct Hg as [Hh Hself]. apply negb_false_iff, andb_true_iff in Hh. destruct Hh as [Hu Hv].
    exists s. rewrite (resolve_qm u s K), Hu, bind_ok, (resolve_qm v s K), Hv.
    split; [reflexivity|]. split; [assumption|]. split; [apply has_var_In; assumption|]. split; [apply has_var_In; assumption|].
    intros ->. rewrite Nat.eqb_refl in Hself. exact Hself.
Qed.

Lemma pres_d_add_quadratic u v b : pres (d_add_quadratic u v b).
Proof.
  intros s Hs. unfold d_add_quadratic. destruct (quad_guard u v s) eqn:G; [exact Hs|].
  destruct (quad_resolved u v s Hs G) as (s' & E & Hw & Hu & Hv & Hself). rewrite E, bind_ok. cbn [ok fst].
  apply wf_with_poly; [assumption|apply Hw|].
  intros t [<-|Ht]; [cbn [fst snd]; auto|]. apply Hw. exact Ht.
Qed.

Lemma pres_d_set_quadratic u v b : pres (d_set_quadratic u v b).
Proof.
  intros s Hs. unfold d_set_quadratic. destruct (quad_guard u v s) eqn:G; [exact Hs|].
  destruct (quad_resolved u v s Hs G) as (s' & E & Hw & Hu & Hv & Hself). rewrite E, bind_ok. cbn [ok fst].
  apply wf_with_poly; [assumption|apply Hw|].
  intros t [<-|Ht]; [cbn [fst snd]; auto|]. cbn [remove_interaction p_quad] in Ht. apply filter_In in Ht. apply Hw. apply Ht.
Qed.

Lemma pres_d_remove_interaction u v : pres (d_remove_interaction u v).
Proof.
  intros s Hs. unfold d_remove_interaction. destruct (has_var s u && has_var s v && hasq s u v); [|exact Hs].
  cbn [ok fst]. apply wf_with_poly; [assumption|apply Hs|].
  intros t Ht. cbn [remove_interaction p_quad] in Ht. apply filter_In in Ht. apply Hs. apply Ht.
Qed.

Lemma pres_d_add_offset b : pres (d_add_offset b).
Proof. intros s Hs. unfold d_add_offset. cbn [ok fst]. apply wf_with_poly; [assumption|apply Hs|apply Hs]. Qed.

Lemma pres_d_set_offset b : pres (d_set_offset b).
Proof. intros s Hs. unfold d_set_offset. cbn [ok fst]. apply wf_with_poly; [assumption|apply Hs|apply Hs]. Qed.

Lemma find_filter_other (l : list vinfo) v x :
  x <> v ->
  find (fun i => (v_lab i =? x)%nat) (filter (fun i => negb (v_lab i =? v)%nat) l)
  = find (fun i => (v_lab i =? x)%nat) l.
Proof.
  intros Hne. induction l as [|a l IH]; [reflexivity|].
  cbn [filter find]. destruct (Nat.eqb_spec (v_lab a) v) as [E|E]; cbn [negb].
  - destruct (Nat.eqb_spec (v_lab a) x); [congruence|exact IH].
  - cbn [find]. destruct (v_lab a =? x)%nat; [reflexivity|exact IH].
Qed.

Lemma pres_d_remove_variable v : pres (d_remove_variable v).
Proof.
  intros s Hs. unfold d_remove_variable. destruct (has_var s v); [|exact Hs].
  cbn [ok fst]. destruct Hs as (Hnd & Hl & Hq & Hk).
  assert (Hlab : forall x, x <> v -> In x (labels s) ->
                           In x (map v_lab (filter (fun i => negb (v_lab i =? v)%nat) (st_vars s)))).
  { intros x Hx Hin. unfold labels in Hin. apply in_map_iff in Hin. destruct Hin as [i [<- Hi]].
    apply in_map. apply filter_In. split; [assumption|]. apply negb_true_iff, Nat.eqb_neq. assumption. }
  split; [|split; [|split]]; unfold labels; cbn [st_vars st_poly st_kind].
  - clear -Hnd. unfold labels in Hnd. induction (st_vars s) as [|a l IH]; [constructor|].
    cbn [map] in Hnd. inversion Hnd as [|? ? Hni Hnd']; subst. cbn [filter].
    destruct (negb (v_lab a =? v)%nat); [|apply IH; assumption].
    cbn [map]. constructor; [|apply IH; assumption]. intros H. apply Hni.
    apply in_map_iff in H. destruct H as [i [E Hi]]. apply filter_In in Hi. apply in_map_iff. exists i. tauto.
  - intros t Ht. pose proof (remove_variable_no_mention_lin v _ t Ht) as Hne.
    cbn [remove_variable p_lin] in Ht. apply filter_In in Ht. apply Hlab; [assumption|]. apply Hl, Ht.
  - intros t Ht. pose proof (remove_variable_no_mention_quad v _ t Ht) as [Hn1 Hn2].
    cbn [remove_variable p_quad] in Ht. apply filter_In in Ht. destruct (Hq t (proj1 Ht)) as (H1 & H2 & H3).
    repeat split; try (apply Hlab; assumption).
    intros E. unfold vt_of, find_var, bvt; cbn [st_vars st_kind]. rewrite find_filter_other by assumption. apply H3. exact E.
  - intros vt K. destruct (Hk vt K) as [Hsb Hall]. split; [assumption|]. intros i Hi. apply filter_In in Hi. apply Hall, Hi.
Qed.

(* ---------- handle-level primitives ---------- *)
Ltac pres_step :=
  match goal with
  | |- wf (fst (_ >>= _)) => apply wf_bind
  | |- pres (fun s => _ s >>= _) => apply pres_bind
  | |- pres (d_add_linear _ _) => apply pres_d_add_linear
  | |- pres (d_set_linear _ _) => apply pres_d_set_linear
  | |- pres (d_add_quadratic _ _ _) => apply pres_d_add_quadratic
  | |- pres (d_set_quadratic _ _ _) => apply pres_d_set_quadratic
  | |- pres (d_remove_interaction _ _) => apply pres_d_remove_interaction
  | |- pres (d_remove_variable _) => apply pres_d_remove_variable
  | |- pres (d_add_offset _) => apply pres_d_add_offset
  | |- pres (d_set_offset _) => apply pres_d_set_offset
  | |- pres (resolve _) => apply pres_resolve
  | |- wf (fst (d_add_linear _ _ _)) => apply pres_d_add_linear
  | |- wf (fst (d_set_linear _ _ _)) => apply pres_d_set_linear
  | |- wf (fst (d_add_quadratic _ _ _ _)) => apply pres_d_add_quadratic
  | |- wf (fst (d_set_quadratic _ _ _ _)) => apply pres_d_set_quadratic
  | |- wf (fst (d_remove_interaction _ _ _)) => apply pres_d_remove_interaction
  | |- wf (fst (d_remove_variable _ _)) => apply pres_d_remove_variable
  | |- wf (fst (d_add_offset _ _)) => apply pres_d_add_offset
  | |- wf (fst (d_set_offset _ _)) => apply pres_d_set_offset
  | |- wf (fst (resolve _ _)) => apply pres_resolve
  | |- wf (fst (ok _)) => cbn [ok fst]
  | |- wf (fst (raise _ _)) => cbn [raise fst]
  | |- pres ok => apply pres_ok
  | |- pres (raise _) => apply pres_raise
  end.

Lemma pres_h_add_linear h v b : pres (h_add_linear h v b).
Proof. intros s Hs. unfold h_add_linear. destruct (vdir_of h s) as [[|]|]; repeat pres_step; assumption. Qed.

Lemma pres_h_add_quadratic h u v b : pres (h_add_quadratic h u v b).
Proof. intros s Hs. unfold h_add_quadratic. destruct (vdir_of h s) as [[|]|]; repeat pres_step; assumption. Qed.

Lemma pres_h_set_offset h b : pres (h_set_offset h b).
Proof. intros s Hs. unfold h_set_offset. destruct (vdir_of h s); repeat pres_step; assumption. Qed.

Lemma pres_h_add_offset h (g : state -> Qc) : pres (fun s => h_add_offset h (g s) s).
Proof. intros s Hs. unfold h_add_offset. apply pres_h_set_offset. assumption. Qed.

Lemma pres_h_set_linear h v b : pres (h_set_linear h v b).
Proof.
  intros s Hs. unfold h_set_linear. destruct (vdir_of h s); [|apply pres_d_set_linear; assumption].
  apply wf_bind; [apply pres_h_add_linear; assumption|]. intros s' Hs'. apply pres_h_add_linear. assumption.
Qed.

Lemma pres_h_add_variable h v b : pres (h_add_variable h v b).
Proof. intros s Hs. unfold h_add_variable. apply wf_bind; [apply pres_resolve; assumption|apply pres_h_add_linear]. Qed.

Lemma pres_h_set_quadratic h u v b : pres (h_set_quadratic h u v b).
Proof.
  intros s Hs. unfold h_set_quadratic. destruct h; [apply pres_d_set_quadratic; assumption|].
  destruct (quad_guard u v s); [exact Hs|].
  apply wf_bind; [|intros s' Hs'; apply pres_h_add_quadratic; assumption].
  apply wf_bind; [|apply pres_h_add_quadratic].
  apply wf_bind; [|apply pres_h_add_variable].
  apply pres_h_add_variable. assumption.
Qed.

Lemma pres_h_remove_interaction h u v : pres (h_remove_interaction h u v).
Proof.
  intros s Hs. unfold h_remove_interaction. destruct (vdir_of h s); [|apply pres_d_remove_interaction; assumption].
  destruct (h_get_quadratic h u v s); [|exact Hs].
  apply wf_bind; [apply pres_h_set_quadratic; assumption|apply pres_d_remove_interaction].
Qed.

Lemma pres_h_remove_variable h ov : pres (h_remove_variable h ov).
Proof.
  intros s Hs. unfold h_remove_variable.
  destruct (match ov with Some v => Some v | None => last_label s end) as [v|]; [|exact Hs].
  destruct (vdir_of h s); [|apply pres_d_remove_variable; assumption].
  destruct (has_var s v); [|exact Hs].
  apply wf_bind; [|apply pres_d_remove_variable].
  apply wf_bind; [|apply pres_h_set_linear].
  apply pres_seqm; [|assumption]. intros t. apply pres_h_set_quadratic.
Qed.

(* ---------- python-level methods ---------- *)
Lemma pres_m_contract h u v : pres (m_contract h u v).
Proof.
  intros s Hs. unfold m_contract.
  destruct (negb (has_var s u && has_var s v) || (u =? v)%nat); [exact Hs|].
  apply wf_bind; [|apply pres_h_remove_variable].
  apply wf_bind; [|intros s' Hs'; apply pres_seqm; [intros t; apply pres_h_add_quadratic|assumption]].
  apply wf_bind; [|intros s' Hs'; destruct (h_get_quadratic h u v s); [apply pres_h_remove_interaction|]; assumption].
  apply wf_bind; [|intros s' Hs'; destruct (hvt h s'); try (apply pres_h_add_linear; assumption);
                   apply (pres_h_add_offset h (fun _ => _)); assumption].
  apply pres_h_add_linear. assumption.
Qed.

Lemma pres_m_flip h v : pres (m_flip h v).
Proof.
  intros s Hs. unfold m_flip. destruct (negb (has_var s v)); [exact Hs|].
  destruct (match st_kind s with Some _ => hvt h s | None => vt_of s v end); try exact Hs.
  - apply wf_bind; [|intros s' Hs'; apply pres_h_set_linear; assumption].
    apply wf_bind; [|apply (pres_h_add_offset h (fun s => opt0 (h_get_linear h v s)))].
    apply pres_seqm; [|assumption]. intros t s' Hs'.
    apply wf_bind; [apply pres_h_set_quadratic; assumption|apply pres_h_add_linear].
  - apply wf_bind; [|intros s' Hs'; apply pres_h_set_linear; assumption].
    apply pres_seqm; [|assumption]. intros t. apply pres_h_set_quadratic.
Qed.

Lemma pres_m_fix h v a : pres (m_fix h v a).
Proof.
  intros s Hs. unfold m_fix. destruct (negb (has_var s v)); [exact Hs|].
  apply wf_bind; [|apply pres_h_remove_variable].
  apply wf_bind; [|apply (pres_h_add_offset h (fun s => a * opt0 (h_get_linear h v s)))].
  apply pres_seqm; [|assumption]. intros t. apply pres_h_add_linear.
Qed.

Lemma wf_scale k s : wf s -> wf (with_poly s (scale k (st_poly s))).
Proof.
  intros Hs. apply wf_with_poly; [assumption| |]; destruct Hs as (Hnd & Hl & Hq & Hk).
  - intros t Ht. cbn [scale p_lin] in Ht. apply in_map_iff in Ht. destruct Ht as [t0 [<- H0]]. exact (Hl t0 H0).
  - intros t Ht. cbn [scale p_quad] in Ht. apply in_map_iff in Ht. destruct Ht as [t0 [<- H0]]. exact (Hq t0 H0).
Qed.

Lemma pres_m_scale_loop h k iv ii (io : bool) :
  pres (fun s =>
      seqm (fun v s => if mem_label v iv then ok s
                       else h_set_linear h v (k * opt0 (h_get_linear h v s)) s) (labels s) s
      >>= (fun s => seqm (fun t s => if mem_pair (fst t) (snd t) ii then ok s
                                     else h_set_quadratic h (fst t) (snd t)
                                            (k * opt0 (h_get_quadratic h (fst t) (snd t) s)) s)
                         (pairs s) s)
      >>= fun s => if io then ok s else h_set_offset h (h_get_offset h s * k) s).
Proof.
  intros s Hs.
  apply wf_bind; [|intros s' Hs'; destruct io; [exact Hs'|apply pres_h_set_offset; assumption]].
  apply wf_bind.
  - apply pres_seqm; [|assumption]. intros x s' Hs'. destruct (mem_label x iv); [exact Hs'|apply pres_h_set_linear; assumption].
  - intros s' Hs'. apply pres_seqm; [|assumption]. intros t s'' Hs''.
    destruct (mem_pair (fst t) (snd t) ii); [exact Hs''|apply pres_h_set_quadratic; assumption].
Qed.

Lemma pres_m_scale h k iv ii io : pres (m_scale h k iv ii io).
Proof.
  intros s Hs. unfold m_scale.
  destruct h as [|wv].
  - destruct iv as [|x iv]; [destruct ii as [|y ii]; [destruct io|]|].
    + exact (pres_m_scale_loop Direct k [] [] true s Hs).
    + cbn [ok fst]. apply wf_scale. assumption.
    + exact (pres_m_scale_loop Direct k [] (y :: ii) io s Hs).
    + exact (pres_m_scale_loop Direct k (x :: iv) ii io s Hs).
  - exact (pres_m_scale_loop (Via wv) k iv ii io s Hs).
Qed.

Lemma pres_m_update_bqm h o : pres (m_update_bqm h o).
Proof.
  intros s Hs. unfold m_update_bqm.
  apply wf_bind; [|apply (pres_h_add_offset h (fun _ => _))].
  apply wf_bind; [|apply pres_seqm; intros t; apply pres_h_add_quadratic].
  apply pres_seqm; [|assumption]. intros x. apply pres_h_add_linear.
Qed.

(* ---------- steps and histories ---------- *)
(* calls covered here: everything expressed through the primitive writes.  Not
   covered (their well-formedness is evaluated on every generated history by
   `wfb` instead): relabelling, change_vartype, resize, QM.update, QM variable
   creation and bounds. *)
Definition wf_covered (o : op) : bool :=
  match o with
  | OAddVariable _ _ | OAddLinear _ _ | OSetLinear _ _ | OAddQuadratic _ _ _ | OSetQuadratic _ _ _
  | OAddLinearFrom _ | OAddQuadraticFrom _ | ORemoveVariable _ | ORemoveVariablesFrom _
  | ORemoveInteraction _ _ | ORemoveInteractionsFrom _ | OContract _ _ | OFlip _ | OFix _ _
  | OScale _ _ _ _ | OSetOffset _ | OClear => true
  | OUpdate _ => true
  | _ => false
  end.

Lemma wf_clear k : (forall vt, k = Some vt -> is_sb vt = true) -> wf (mkSt k [] pzero).
Proof.
  intros Hk. split; [constructor|]. split; [intros t []|]. split; [intros t []|].
  intros vt K. cbn [st_kind] in K. split; [apply Hk; assumption|intros i []].
Qed.

Theorem wf_step_partial s h o :
  wf_covered o = true -> (match o with OUpdate _ => is_bqm s = true | _ => True end) ->
  wf s -> wf (fst (step s (h, o))).
Proof.
  intros Hc Hu Hs. destruct o; cbn [wf_covered] in Hc; try discriminate; cbn [step].
  - destruct (is_bqm s); [apply pres_h_add_variable|]; assumption.
  - apply pres_h_add_linear; assumption.
  - apply pres_h_set_linear; assumption.
  - apply pres_h_add_quadratic; assumption.
  - apply pres_h_set_quadratic; assumption.
  - apply pres_seqm; [intros t; apply pres_h_add_linear|assumption].
  - apply pres_seqm; [intros t; apply pres_h_add_quadratic|assumption].
  - apply pres_h_remove_variable; assumption.
  - apply pres_seqm; [intros t; apply pres_h_remove_variable|assumption].
  - apply pres_h_remove_interaction; assumption.
  - apply pres_seqm; [intros t; apply pres_h_remove_interaction|assumption].
  - destruct (is_bqm s); [apply pres_m_contract|]; assumption.
  - apply pres_m_flip; assumption.
  - apply pres_m_scale; assumption.
  - rewrite Hu. apply pres_m_update_bqm; assumption.
  - apply pres_h_set_offset; assumption.
  - cbn [ok fst]. apply wf_clear. intros vt K. apply Hs. exact K.
  - apply pres_m_fix; assumption.
Qed.

Lemma is_bqm_step s ho : is_bqm (fst (step s ho)) = is_bqm s -> True.
Proof. trivial. Qed.

(* any history of covered calls (update excluded, it needs a BQM receiver at
   that point) keeps the model well formed: induction over the history *)
Definition hist_covered (o : op) : bool :=
  wf_covered o && match o with OUpdate _ => false | _ => true end.

Theorem wf_reachable_partial s l :
  wf s -> forallb (fun ho => hist_covered (snd ho)) l = true -> wf (run s l).
Proof.
  revert s. induction l as [|[h o] l IH]; intros s Hs Hl; [exact Hs|].
  cbn [forallb snd] in Hl. apply andb_true_iff in Hl. destruct Hl as [Ho Hl].
  unfold hist_covered in Ho. apply andb_true_iff in Ho. destruct Ho as [Ho1 Ho2].
  unfold run. cbn [fold_left]. apply IH; [|assumption].
  apply wf_step_partial; [assumption| |assumption]. destruct o; try exact I. discriminate.
Qed.

(* wfb decides wf's executable core: used by the correspondence on every step *)
Lemma nodupb_NoDup l : nodupb l = true -> NoDup l.
Proof.
  induction l as [|x l IH]; [constructor|]. cbn [nodupb]. intros H. apply andb_true_iff in H. destruct H as [H1 H2].
  constructor; [|apply IH; assumption]. intros Hin. apply negb_true_iff in H1.
  assert (mem_label x l = true); [|congruence]. unfold mem_label. apply existsb_exists. exists x. split; [assumption|apply Nat.eqb_refl].
Qed.

Lemma mem_label_In x l : mem_label x l = true -> In x l.
Proof. unfold mem_label. intros H. apply existsb_exists in H. destruct H as [y [Hy E]]. apply Nat.eqb_eq in E. subst. assumption. Qed.

Theorem wfb_sound s : wfb s = true -> wf s.
Proof.
  unfold wfb. intros H.
  apply andb_true_iff in H. destruct H as [H Hk]. apply andb_true_iff in H. destruct H as [H Hq].
  apply andb_true_iff in H. destruct H as [Hnd Hl].
  split; [apply nodupb_NoDup; assumption|]. split; [|split].
  - intros t Ht. apply mem_label_In. eapply forallb_forall in Hl; [exact Hl|exact Ht].
  - intros t Ht. eapply forallb_forall in Hq; [|exact Ht]. cbn beta in Hq.
    apply andb_true_iff in Hq. destruct Hq as [Hq H3]. apply andb_true_iff in Hq. destruct Hq as [H1 H2].
    repeat split; try (apply mem_label_In; assumption).
    intros E. apply negb_true_iff in H3. rewrite <- E, Nat.eqb_refl in H3. cbn [andb] in H3. exact H3.
  - intros vt K. rewrite K in Hk. apply andb_true_iff in Hk. destruct Hk as [Hsb Hall]. split; [assumption|].
    intros i Hi. eapply forallb_forall in Hall; [|exact Hi]. destruct (v_vt i), vt; try discriminate; reflexivity.
Qed.

(* QM.update without a conflict is polynomial addition; with one it changes nothing *)
Theorem update_qm_is_padd o s :
  existsb (vinfo_conflict s) (st_vars o) = false ->
  st_poly (fst (m_update_qm o s)) = padd (st_poly s) (st_poly o).
Proof. intros H. unfold m_update_qm. rewrite H. reflexivity. Qed.

Theorem update_qm_conflict_noop o s :
  existsb (vinfo_conflict s) (st_vars o) = true -> m_update_qm o s = (s, Raised BValue).
Proof. intros H. unfold m_update_qm. rewrite H. reflexivity. Qed.
