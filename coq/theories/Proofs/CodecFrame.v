(* Header and section framing: round trip and prefix safety. *)
From Coq Require Import List NArith ZArith Arith Bool Lia.
From Dimod Require Import Gen.Gen_Codec Model.Codec Proofs.CodecBase.
Import ListNotations.
Open Scope nat_scope.

Lemma is_ws_spaces : forall k, forallb is_ws (spaces k) = true.
Proof. induction k as [|k IH]; cbn; [reflexivity|]. exact IH. Qed.

Lemma forallb_firstn : forall {A} (f : A -> bool) j l, forallb f l = true -> forallb f (firstn j l) = true.
Proof.
  intros A f j. induction j as [|j IH]; intros [|x l] H; cbn in *; try reflexivity.
  apply andb_true_iff in H as [H1 H2]. now rewrite H1, IH.
Qed.

Lemma pow_bound : forall n x, (N.of_nat (x + ALIGN) < 256 ^ N.of_nat n)%N -> forall p, p < ALIGN ->
  (N.of_nat (x + p) < 256 ^ N.of_nat n)%N.
Proof. intros n x H p Hp. eapply N.le_lt_trans; [|exact H]. lia. Qed.

(* ------------------------------------------------------------ sections *)

Section TSection.
  Context {A : Type} (magic : bytes) (nlen : nat) (pd : bytes -> option A) (p : bytes) (a : A).
  Hypothesis fits : (N.of_nat (length p + ALIGN) < 256 ^ N.of_nat nlen)%N.
  Hypothesis pd_ok : forall j, pd (p ++ spaces j) = Some a.
  Hypothesis pd_strict : forall k, k < length p -> pd (firstn k p) = None.

  Let padn := pad_len (length magic + nlen + length p).

  Lemma section_eq : section magic nlen p = magic ++ pblob_enc nlen p (spaces padn).
  Proof. unfold section, pblob_enc. fold padn. now rewrite app_length, spaces_length. Qed.

  Lemma section_length : length (section magic nlen p) = length magic + nlen + length p + padn.
  Proof. unfold section. fold padn. rewrite !app_length, le_enc_length, spaces_length. lia. Qed.

  Lemma section_aligned : length (section magic nlen p) mod ALIGN = 0.
  Proof. rewrite section_length. apply pad_len_aligned. Qed.

  Let fits' : (N.of_nat (length (p ++ spaces padn)) < 256 ^ N.of_nat nlen)%N.
  Proof. rewrite app_length, spaces_length. apply pow_bound; [assumption|apply pad_len_lt]. Qed.

  Let ok' : forall j, j <= length (spaces padn) -> pd (p ++ firstn j (spaces padn)) = Some a.
  Proof. intros j _. rewrite firstn_spaces. apply pd_ok. Qed.

  Lemma tsection_rt : rt (dec_tsection magic nlen pd) (section magic nlen p) a.
  Proof.
    rewrite section_eq. unfold dec_tsection.
    apply (rt_bind (lit magic) (fun _ => dec_pblob nlen pd) magic _ tt a); [apply lit_rt|].
    apply pblob_rt; assumption.
  Qed.

  Lemma tsection_psafe :
    psafeT (dec_tsection magic nlen pd) (section magic nlen p) a (length magic + (nlen + length p)).
  Proof.
    rewrite section_eq. unfold dec_tsection.
    apply (psafeT_bind_strict (lit magic) (fun _ => dec_pblob nlen pd) magic _ tt a);
      [apply lit_rt|apply lit_strict|].
    apply pblob_psafe; assumption.
  Qed.
End TSection.

(* the untyped statement of the task: the framing layer returns payload + padding *)
Theorem section_roundtrip : forall magic nlen p rest,
  (N.of_nat (length p + ALIGN) < 256 ^ N.of_nat nlen)%N ->
  dec_tsection magic nlen (fun x => Some x) (section magic nlen p ++ rest)
  = Ok (p ++ spaces (pad_len (length magic + nlen + length p)), rest).
Proof.
  intros magic nlen p rest Hf.
  unfold section. set (padn := pad_len _).
  replace (length p + padn) with (length (p ++ spaces padn)) by (now rewrite app_length, spaces_length).
  unfold dec_tsection.
  assert (R2 : rt (dec_pblob nlen (fun x => Some x))
                  (le_enc nlen (N.of_nat (length (p ++ spaces padn))) ++ p ++ spaces padn) (p ++ spaces padn)).
  { pose proof (pblob_rt nlen (fun x => Some x) (p ++ spaces padn) [] (p ++ spaces padn)) as R2.
    unfold pblob_enc in R2. rewrite !app_nil_r in R2. apply R2.
    - rewrite app_length, spaces_length. apply pow_bound; [assumption|apply pad_len_lt].
    - intros j _. destruct j; cbn; now rewrite app_nil_r. }
  pose proof (rt_bind (lit magic) (fun _ => dec_pblob nlen (fun x => Some x)) magic _ tt _ (lit_rt magic) R2 rest) as R.
  rewrite <- !app_assoc in R. rewrite <- !app_assoc. exact R.
Qed.

(* ------------------------------------------------------------ headers *)

Section Header.
  Context {H : Type} (prefix : bytes) (jd : bytes -> option H) (json : bytes) (h : H) (v : N * N).
  Hypothesis fits : (N.of_nat (length json + 1 + ALIGN) < 256 ^ N.of_nat HEADER_LEN_BYTES)%N.
  Hypothesis jd_ok : forall ws, forallb is_ws ws = true -> jd (json ++ ws) = Some h.
  Hypothesis jd_strict : forall k, k < length json -> jd (firstn k json) = None.

  Let padn := pad_len (length prefix + HEADER_VERSION_BYTES + HEADER_LEN_BYTES + length json + 1).
  Let tail := HEADER_NEWLINE :: spaces padn.

  Lemma header_eq : header prefix v json = prefix ++ [fst v; snd v] ++ pblob_enc HEADER_LEN_BYTES json tail.
  Proof.
    unfold header, pblob_enc, tail. fold padn. rewrite app_length. cbn [length]. rewrite spaces_length.
    replace (length json + S padn) with (length json + 1 + padn) by lia. reflexivity.
  Qed.

  Lemma header_length : length (header prefix v json)
    = length prefix + HEADER_VERSION_BYTES + HEADER_LEN_BYTES + length json + 1 + padn.
  Proof.
    unfold header. fold padn. rewrite !app_length, le_enc_length, spaces_length.
    unfold HEADER_VERSION_BYTES, HEADER_LEN_BYTES. cbn [length]. lia.
  Qed.

  Lemma header_aligned : length (header prefix v json) mod ALIGN = 0.
  Proof. rewrite header_length. apply pad_len_aligned. Qed.

  Let fits' : (N.of_nat (length (json ++ tail)) < 256 ^ N.of_nat HEADER_LEN_BYTES)%N.
  Proof.
    unfold tail. rewrite app_length. cbn [length]. rewrite spaces_length.
    replace (length json + S padn) with (length json + 1 + padn) by lia.
    apply pow_bound; [assumption|apply pad_len_lt].
  Qed.

  Let ok' : forall j, j <= length tail -> jd (json ++ firstn j tail) = Some h.
  Proof.
    intros j _. apply jd_ok. apply forallb_firstn. unfold tail. cbn [forallb]. rewrite is_ws_spaces.
    reflexivity.
  Qed.

  Lemma header_rt : rt (dec_header prefix jd) (header prefix v json) (v, h).
  Proof.
    rewrite header_eq. unfold dec_header. destruct v as [a b]. cbn [fst snd].
    apply (rt_bind (lit prefix) _ prefix _ tt); [apply lit_rt|].
    apply (rt_bind p_version _ [a; b] _ (a, b)); [apply version_rt|].
    apply (rt_bind_ret (dec_pblob HEADER_LEN_BYTES jd) (fun x => ((a, b), x))).
    apply pblob_rt; assumption.
  Qed.

  Lemma header_psafe : psafeT (dec_header prefix jd) (header prefix v json) (v, h)
                         (length prefix + (2 + (HEADER_LEN_BYTES + length json))).
  Proof.
    rewrite header_eq. unfold dec_header. destruct v as [a b]. cbn [fst snd].
    apply (psafeT_bind_strict (lit prefix) _ prefix _ tt); [apply lit_rt|apply lit_strict|].
    apply (psafeT_bind_strict p_version _ [a; b] _ (a, b)); [apply version_rt|apply version_strict|].
    apply (psafeT_bind_ret (dec_pblob HEADER_LEN_BYTES jd) (fun x => ((a, b), x))).
    apply pblob_psafe; assumption.
  Qed.
End Header.
