(* .npy members: the decoder inverts the writer, whatever the amount of header padding. *)
From Coq Require Import List NArith ZArith Arith Bool Lia String.
From Dimod Require Import Base.Util Gen.Gen_Codec Model.Codec Model.CodecEq Model.CqmFile Model.Npy Proofs.CodecBase
  Proofs.CodecFrame Proofs.CodecLabel Proofs.CodecJson Proofs.CodecQm Proofs.CqmFileFacts Proofs.CqmArchive.
Import ListNotations.
Open Scope nat_scope.
Notation length := List.length (only parsing).

Record NpyWF (a : npy) : Prop := {
  nw_descr : Forall (fun c => N.eqb c 39 = false) (np_descr a);
  nw_width : exists w, descr_width (np_descr a) = Some w /\ Forall (fun b => length b = w) (np_items a);
  nw_count : length (np_items a) = match np_shape a with Some n => N.to_nat n | None => 1 end }.

Lemma p_squote_rt : forall d acc rest, Forall (fun c => N.eqb c 39 = false) d ->
  p_squote (d ++ 39%N :: rest) acc = Ok (List.rev acc ++ d, rest).
Proof.
  induction d as [|c d IH]; intros acc rest H.
  - cbn. now rewrite app_nil_r.
  - inversion H; subst. cbn [app p_squote]. rewrite H2. rewrite IH by assumption. cbn [List.rev]. now rewrite <- app_assoc.
Qed.

Lemma p_shape_rt : forall sh rest, p_shape (pr_shape sh ++ rest) = Ok (sh, rest).
Proof.
  intros [n|] rest; unfold pr_shape, p_shape; [|reflexivity].
  pose proof (p_N_until_rt 44 n eq_refl ([41%N] ++ rest)) as R.
  replace ((dec_N n ++ [44%N; 41%N]) ++ rest) with ((dec_N n ++ [44%N]) ++ [41%N] ++ rest) by (now rewrite <- !app_assoc).
  destruct ((dec_N n ++ [44%N]) ++ [41%N] ++ rest) as [|b t] eqn:E.
  - destruct (dec_N n); discriminate.
  - destruct (N.eqb b 41) eqn:B.
    + apply N.eqb_eq in B. subst b. unfold p_N_until in R. cbn in R. discriminate.
    + rewrite R. cbn [app]. now rewrite N.eqb_refl.
Qed.

Lemma header_ok_spaces : forall k, npy_header_ok (spaces k ++ [10%N]) = true.
Proof.
  intros k. unfold npy_header_ok. rewrite rev_app_distr. cbn [List.rev app].
  apply forallb_forall. intros x Hx. apply in_rev in Hx. unfold spaces in Hx. apply repeat_spec in Hx. subst x. reflexivity.
Qed.

Lemma p_npy_dict_rt : forall a rest, Forall (fun c => N.eqb c 39 = false) (np_descr a) ->
  p_npy_dict (npy_dict a ++ rest) = Ok ((np_descr a, np_shape a), rest).
Proof.
  intros a rest W. unfold npy_dict, p_npy_dict. rewrite <- !app_assoc.
  unfold bind at 1. rewrite (lit_rt (L "{'descr': '")).
  unfold bind at 1. cbn [app]. rewrite (p_squote_rt (np_descr a) [] _ W). cbn [List.rev app].
  unfold bind at 1. rewrite (lit_rt (L ", 'fortran_order': False, 'shape': (")).
  unfold bind at 1. rewrite p_shape_rt.
  unfold bind at 1. rewrite (lit_rt (L ", }")). reflexivity.
Qed.

Theorem npy_decode_encode : forall k a, NpyWF a ->
  (N.of_nat (length (npy_dict a) + k + 1) < 256 ^ 2)%N ->
  npy_decode (npy_encode k a) = Ok a.
Proof.
  intros k a [Wd [w [Ww Wi]] Wc] Hfit. unfold npy_encode, npy_decode.
  rewrite starts_with_app. cbn [negb]. change 6 with (length NPY_MAGIC). rewrite skipn_app_exact. cbn [app].
  set (h := npy_dict a ++ spaces k ++ [10%N]).
  assert (Hl : length h = length (npy_dict a) + k + 1).
  { unfold h. rewrite !app_length, spaces_length. cbn [length]. lia. }
  destruct (le_enc 2 (N.of_nat (length h))) as [|l0 [|l1 [|x y]]] eqn:E;
    try (apply (f_equal (@length N)) in E; rewrite le_enc_length in E; cbn in E; lia).
  cbn [app].
  assert (D : le_dec [l0; l1] = N.of_nat (length h)).
  { rewrite <- E. apply le_decode_encode. rewrite Hl. exact Hfit. }
  rewrite D, Nat2N.id.
  replace (length (h ++ List.concat (np_items a)) <? length h) with false
    by (symmetry; apply Nat.ltb_ge; rewrite app_length; lia).
  rewrite (firstn_app_len _ h _ eq_refl), (skipn_app_len _ h _ eq_refl).
  unfold h at 1. rewrite (p_npy_dict_rt a _ Wd). rewrite header_ok_spaces. cbn [negb]. rewrite Ww.
  assert (CL : length (List.concat (np_items a)) = length (np_items a) * w) by (apply concat_length_fixed; exact Wi).
  cbv zeta. rewrite <- !Wc. rewrite CL, Nat.eqb_refl. cbn [negb].
  pose proof (pd_chunks_ok w (np_items a) 0 Wi) as P. cbn [spaces repeat] in P. rewrite app_nil_r in P. match goal with |- context [pd_chunks ?n ?ww ?d] => replace (pd_chunks n ww d) with (Some (np_items a)) by (symmetry; exact P) end.
  destruct a; reflexivity.
Qed.
