(* Code-shaped sorted selections (record[argsort(key)[selector]], first) against the list-level
   specification, for ANY outcome of np.argsort and for the mirrored stable argsort; the deferred
   (future-backed) state machine. *)
From Coq Require Import List ZArith QArith Qcanon Bool Arith Lia Permutation Sorting.Sorted.
From Dimod Require Import Base.Util Model.Poly Model.Samples Model.SSet Model.ChkC14 Proofs.SamplesFacts Proofs.SSetFacts Proofs.SSetAgg.
Import ListNotations.
Open Scope Qc_scope.

(* what np.argsort promises, whatever `kind`: a permutation of the positions that lists the keys
   in non-decreasing order *)
Definition argsort_contract (keys : list Qc) (order : list nat) : Prop :=
  Permutation order (seq 0 (length keys)) /\ StronglySorted Qcle (map (fun i => nth i keys 0) order).

Lemma select_map_nth (rows : list row) (order idx : list nat) :
  Forall (fun j => (j < length order)%nat) idx ->
  select rows (map (fun j => nth j order 0%nat) idx) = select (select rows order) idx.
Proof.
  intros H. unfold select. rewrite map_map. apply map_ext_in. intros j Hj.
  rewrite Forall_forall in H. specialize (H j Hj).
  set (f := fun i => nth i rows rowz).
  rewrite (nth_indep (map f order) rowz (f 0%nat)) by (rewrite map_length; assumption).
  rewrite map_nth. reflexivity.
Qed.

Lemma select_perm (rows : list row) order :
  Permutation order (seq 0 (length rows)) -> Permutation (select rows order) rows.
Proof.
  intros P. rewrite <- (select_all rows) at 2. unfold select. apply Permutation_map. assumption.
Qed.

Lemma keys_of_select (key : row -> Qc) rows order :
  (forall i, In i order -> (i < length rows)%nat) ->
  map key (select rows order) = map (fun i => nth i (map key rows) 0) order.
Proof.
  intros H. unfold select. rewrite map_map. apply map_ext_in. intros i Hi.
  rewrite (nth_indep (map key rows) 0 (key rowz)) by (rewrite map_length; apply H; assumption).
  rewrite map_nth. reflexivity.
Qed.

(* slice: for EVERY admissible argsort outcome the code shape meets the relational specification *)
Theorem slice_sorted_code_spec (key : row -> Qc) rows order idx :
  argsort_contract (map key rows) order ->
  NoDup idx -> Forall (fun i => (i < length rows)%nat) idx ->
  map key (slice_sorted_code order idx rows) = map (fun i => nth i (qsort (map key rows)) 0) idx
  /\ exists rest, Permutation (slice_sorted_code order idx rows ++ rest) rows.
Proof.
  intros [P S] ND Hb. rewrite map_length in P.
  assert (length order = length rows) as HL by (rewrite (Permutation_length P); apply seq_length).
  assert (forall i, In i order -> (i < length rows)%nat) as Hin.
  { intros i Hi. apply (Permutation_in _ P), in_seq in Hi. lia. }
  unfold slice_sorted_code. rewrite select_map_nth by (rewrite HL; assumption).
  apply slice_sorted_spec; [apply select_perm; assumption| |assumption|assumption].
  rewrite keys_of_select by assumption. assumption.
Qed.

(* first: for every admissible argsort outcome, a row of the record of least energy *)
Theorem first_code_spec rows order :
  argsort_contract (map en rows) order -> rows <> [] ->
  exists r, first_code order rows = Some r /\ In r rows /\ forall r', In r' rows -> (en r <= en r')%Qc.
Proof.
  intros [P S] Hne. rewrite map_length in P.
  destruct order as [|i rest].
  - apply Permutation_length in P. rewrite seq_length in P. destruct rows; [congruence|discriminate].
  - exists (nth i rows rowz). split; [reflexivity|].
    assert (i < length rows)%nat as Hi by (assert (In i (seq 0 (length rows))) as X by (apply (Permutation_in _ P); left; reflexivity); apply in_seq in X; lia).
    split; [apply nth_In; assumption|].
    intros r' Hr'. destruct (In_nth _ _ rowz Hr') as [j [Hj Ej]]. subst r'.
    assert (In j (i :: rest)) as Hjo by (apply (Permutation_in _ (Permutation_sym P)), in_seq; lia).
    cbn [map] in S. inversion S as [|? ? _ HF]; subst. rewrite Forall_forall in HF.
    assert (forall k, (k < length rows)%nat -> nth k (map en rows) 0 = en (nth k rows rowz)) as Hk.
    { intros k Lk. rewrite (nth_indep _ 0 (en rowz)) by (rewrite map_length; assumption). apply map_nth. }
    destruct Hjo as [<-|Hjo]; [apply Qcle_refl|].
    rewrite <- (Hk i Hi), <- (Hk j Hj). apply HF. apply in_map_iff. exists j. split; [reflexivity|assumption].
Qed.

(* ---------- the mirrored stable argsort ---------- *)
Lemma pinsert_perm x l : Permutation (pinsert x l) (x :: l).
Proof.
  induction l as [|y r IH]; cbn [pinsert]; [apply Permutation_refl|].
  destruct (qle (snd x) (snd y)); [apply Permutation_refl|].
  apply Permutation_trans with (y :: x :: r); [apply perm_skip; assumption|apply perm_swap].
Qed.

Lemma psort_perm l : Permutation (psort l) l.
Proof.
  induction l as [|x r IH]; cbn [psort]; [apply Permutation_refl|].
  apply Permutation_trans with (x :: psort r); [apply pinsert_perm|apply perm_skip; assumption].
Qed.

Lemma pinsert_sorted x l :
  StronglySorted (fun a b => (snd a <= snd b)%Qc) l -> StronglySorted (fun a b => (snd a <= snd b)%Qc) (pinsert x l).
Proof.
  induction l as [|y r IH]; intros HS; cbn [pinsert]; [repeat constructor|].
  inversion HS as [|? ? HSr HF]; subst.
  destruct (qle (snd x) (snd y)) eqn:E.
  - apply qle_iff in E. constructor; [assumption|]. constructor; [assumption|].
    rewrite Forall_forall in *. intros z Hz. apply Qcle_trans with (snd y); auto.
  - apply qle_total in E. constructor; [apply IH; assumption|].
    rewrite Forall_forall in *. intros z Hz.
    apply (Permutation_in _ (pinsert_perm x r)) in Hz. destruct Hz as [<-|Hz]; auto.
Qed.

Lemma psort_sorted l : StronglySorted (fun a b => (snd a <= snd b)%Qc) (psort l).
Proof. induction l as [|x r IH]; cbn [psort]; [constructor|apply pinsert_sorted; assumption]. Qed.

Lemma combine_seq_nth_q (l : list Qc) : forall off p,
  In p (combine (seq off (length l)) l) -> (off <= fst p)%nat /\ nth (fst p - off) l 0 = snd p.
Proof.
  induction l as [|x r IH]; intros off p H; [destruct H|].
  cbn [length seq combine In] in H. destruct H as [<-|H].
  - cbn [fst snd]. rewrite Nat.sub_diag. split; [lia|reflexivity].
  - apply IH in H. destruct H as [H1 H2]. split; [lia|].
    replace (fst p - off)%nat with (S (fst p - S off)) by lia. exact H2.
Qed.

Theorem argsort_stable_contract keys : argsort_contract keys (argsort_stable keys).
Proof.
  unfold argsort_contract, argsort_stable.
  set (P := combine (seq 0 (length keys)) keys).
  assert (length (seq 0 (length keys)) = length keys) as HL by apply seq_length.
  split.
  - apply Permutation_trans with (map fst P); [apply Permutation_map, psort_perm|].
    unfold P. rewrite map_fst_combine by assumption. apply Permutation_refl.
  - assert (map (fun i => nth i keys 0) (map fst (psort P)) = map snd (psort P)) as ->.
    { rewrite map_map. apply map_ext_in. intros p Hp. apply (Permutation_in _ (psort_perm P)) in Hp.
      apply combine_seq_nth_q in Hp. destruct Hp as [_ Hp]. rewrite Nat.sub_0_r in Hp. exact Hp. }
    pose proof (psort_sorted P) as HS. clear -HS.
    induction HS as [|a l HS IH HF]; cbn [map]; constructor; [assumption|].
    rewrite Forall_forall in *. intros z Hz. apply in_map_iff in Hz. destruct Hz as [q [<- Hq]]. auto.
Qed.

(* sorting the (position, key) pairs and then reading the rows = the stable insertion sort of the rows *)
Lemma pinsert_in x l p : In p (pinsert x l) <-> p = x \/ In p l.
Proof.
  split; intros H.
  - apply (Permutation_in _ (pinsert_perm x l)) in H. destruct H as [<-|H]; auto.
  - apply (Permutation_in _ (Permutation_sym (pinsert_perm x l))). destruct H as [->|H]; [left; reflexivity|right; assumption].
Qed.

Lemma map_pinsert (key : row -> Qc) (f : nat * Qc -> row) x l :
  key (f x) = snd x -> (forall p, In p l -> key (f p) = snd p) ->
  map f (pinsert x l) = rinsert key (f x) (map f l).
Proof.
  intros Hx. induction l as [|y r IH]; intros H; cbn [pinsert map rinsert]; [reflexivity|].
  rewrite Hx, (H y (or_introl eq_refl)).
  destruct (qle (snd x) (snd y)); [reflexivity|]. cbn [map]. f_equal. apply IH. intros p Hp. apply H. right. assumption.
Qed.

Lemma map_psort (key : row -> Qc) (f : nat * Qc -> row) l :
  (forall p, In p l -> key (f p) = snd p) -> map f (psort l) = rsort key (map f l).
Proof.
  induction l as [|x r IH]; intros H; cbn [psort map rsort]; [reflexivity|].
  rewrite (map_pinsert key).
  - f_equal. apply IH. intros p Hp. apply H. right. assumption.
  - apply H. left. reflexivity.
  - intros p Hp. apply (Permutation_in _ (psort_perm r)) in Hp. apply H. right. assumption.
Qed.

Lemma rows_from_pairs (key : row -> Qc) rows : forall off,
  map (fun p : nat * Qc => nth (fst p - off) rows rowz) (combine (seq off (length rows)) (map key rows)) = rows.
Proof.
  induction rows as [|a r IH]; intros off; [reflexivity|].
  cbn [length seq map combine]. f_equal.
  - cbn [fst]. rewrite Nat.sub_diag. reflexivity.
  - transitivity (map (fun p : nat * Qc => nth (fst p - S off) r rowz) (combine (seq (S off) (length r)) (map key r)));
      [|apply IH].
    apply map_ext_in. intros p Hp.
    rewrite <- (map_length key r) in Hp. apply combine_seq_nth_q in Hp. destruct Hp as [Hp _].
    replace (fst p - off)%nat with (S (fst p - S off)) by lia. reflexivity.
Qed.

Theorem argsort_stable_is_rsort (key : row -> Qc) rows :
  select rows (argsort_stable (map key rows)) = rsort key rows.
Proof.
  unfold argsort_stable, select. rewrite map_length, map_map.
  set (f := fun p : nat * Qc => nth (fst p) rows rowz).
  rewrite (map_psort key f).
  - f_equal. unfold f. rewrite <- (rows_from_pairs key rows 0) at 3.
    apply map_ext. intros p. rewrite Nat.sub_0_r. reflexivity.
  - intros p Hp.
    assert (fst p < length rows)%nat as L.
    { destruct p as [i x]. apply in_combine_l in Hp. apply in_seq in Hp. cbn [fst]. lia. }
    rewrite <- (map_length key rows) in Hp. apply combine_seq_nth_q in Hp.
    destruct Hp as [_ Hp]. rewrite Nat.sub_0_r in Hp. unfold f. rewrite <- Hp.
    rewrite (nth_indep (map key rows) 0 (key rowz)) by (rewrite map_length; assumption). symmetry. apply map_nth.
Qed.

(* the deterministic model used for replay (slice_stable, an insertion sort of the rows) IS the code
   shape record[argsort(key, kind='stable')[selector]] *)
Theorem slice_stable_is_code_shape k a b c s :
  c <> Some 0%Z ->
  rws (slice_stable k a b c s)
  = slice_sorted_code (argsort_stable (map (key_of k) (rws s))) (slice_indices (length (rws s)) a b c) (rws s).
Proof.
  intros Hc. unfold slice_stable, with_rows. cbn [rws]. unfold slice_sorted_code.
  rewrite select_map_nth.
  - rewrite argsort_stable_is_rsort. reflexivity.
  - destruct (argsort_stable_contract (map (key_of k) (rws s))) as [P _].
    rewrite (Permutation_length P), seq_length, map_length. apply slice_indices_ok. assumption.
Qed.

(* ---------- future-backed sample sets ---------- *)
(* whatever the receiver is (resolved or pending), whichever call and flag: the RETURNED handle,
   once resolved, is the operation applied to the resolved receiver (and resolving it raises exactly
   when the operation raises) *)
Theorem dstep_returned_eq K base c d d1 ret s0 :
  dstep K base c d = Some (d1, ret) -> dresolve K base d = Some s0 ->
  dresolve K base ret = match apply K (dcall_op c) s0 with Ok s' => Some s' | Fail _ => None end.
Proof.
  destruct d as [s|hooks]; cbn [dstep dresolve].
  - intros H R. inversion R; subst s0; clear R.
    destruct (apply K (dcall_op c) s) as [s'|s'] eqn:E; [|discriminate].
    destruct (dcall_inplace c); inversion H; subst; reflexivity.
  - intros H R.
    assert (forall o, resolve K (hooks ++ [o]) base = match apply K o s0 with Ok s' => Some s' | Fail _ => None end) as HR.
    { intros o. rewrite resolve_app, R. cbn [resolve]. destruct (apply K o s0); reflexivity. }
    destruct c as [m [|]|v off [|]]; cbn [dcall_op]; try (inversion H; subst; cbn [dresolve]; apply HR).
    rewrite R in H. destruct (apply K (OChangeVt v off false) s0) as [s'|s'] eqn:E; [|discriminate].
    inversion H; subst. reflexivity.
Qed.

(* a call that is not in place leaves the receiver's content as it was *)
Theorem dstep_receiver_not_inplace K base c d d1 ret :
  dcall_inplace c = false -> dstep K base c d = Some (d1, ret) -> dresolve K base d1 = dresolve K base d.
Proof.
  intros Hi H. destruct d as [s|hooks]; cbn [dstep] in H.
  - destruct (apply K (dcall_op c) s); [|discriminate]. rewrite Hi in H. inversion H; subst. reflexivity.
  - destruct c as [m [|]|v off [|]]; cbn [dcall_inplace] in Hi; try discriminate.
    + inversion H; subst. reflexivity.
    + destruct (resolve K hooks base) as [s|] eqn:R; [|discriminate].
      destruct (apply K (OChangeVt v off false) s); [|discriminate]. inversion H; subst.
      cbn [dresolve]. symmetry. assumption.
Qed.

(* an in-place call makes the receiver show the result - except change_vartype on a pending receiver *)
Theorem dstep_receiver_inplace K base c d d1 ret :
  dcall_inplace c = true -> dstep K base c d = Some (d1, ret) ->
  (forall hooks v off, ~ (d = DPending hooks /\ c = DChangeVt v off true)) ->
  dresolve K base d1 = dresolve K base ret.
Proof.
  intros Hi H Hx. destruct d as [s|hooks]; cbn [dstep] in H.
  - destruct (apply K (dcall_op c) s); [|discriminate]. rewrite Hi in H. inversion H; subst. reflexivity.
  - destruct c as [m [|]|v off [|]]; cbn [dcall_inplace] in Hi; try discriminate.
    + inversion H; subst. reflexivity.
    + exfalso. apply (Hx hooks v off). split; reflexivity.
Qed.

(* OPEN FINDING C14-deferred-inplace, as the refuted instance: change_vartype(inplace=True) on a pending
   sample set returns a new wrapper; the receiver, resolved on its own, does not show the conversion *)
Theorem deferred_inplace_change_vartype_receiver_refuted :
  exists K base v off d1 ret,
    dstep K base (DChangeVt v off true) (DPending []) = Some (d1, ret)
    /\ dresolve K base d1 <> dresolve K base ret.
Proof.
  exists [], (mkSS [0%nat] BINARY [mkRow [0] 0 1%Z 0 []] 0 []), SPIN, 0, (DPending []),
         (DPending [OChangeVt SPIN 0 true]).
  split; [reflexivity|]. vm_compute. intros H. discriminate H.
Qed.

(* ---------- the check's acceptance test for an observed argsort is sound ---------- *)
Lemma nodupb_NoDup l : nodupb l = true -> NoDup l.
Proof.
  induction l as [|x r IH]; intros H; [constructor|]. cbn [nodupb] in H. apply andb_prop in H. destruct H as [H1 H2].
  constructor; [|apply IH; assumption]. intros Hin. apply negb_true_iff in H1.
  assert (existsb (Nat.eqb x) r = true) as Ht; [|congruence].
  apply existsb_exists. exists x. split; [assumption|apply Nat.eqb_refl].
Qed.

Lemma sortedb_sorted l : sortedb l = true -> StronglySorted Qcle l.
Proof.
  intros H. apply Sorted_StronglySorted; [intros a b c; apply Qcle_trans|].
  induction l as [|x r IH]; [constructor|]. destruct r as [|y r'].
  - repeat constructor.
  - cbn [sortedb] in H. apply andb_prop in H. destruct H as [H1 H2]. constructor; [apply IH; assumption|].
    constructor. apply qle_iff. assumption.
Qed.

Theorem argsort_ok_b_sound keys order : argsort_ok_b keys order = true -> argsort_contract keys order.
Proof.
  unfold argsort_ok_b. rewrite !andb_true_iff. intros [[[HL ND] HB] HS].
  apply Nat.eqb_eq in HL. apply nodupb_NoDup in ND. rewrite forallb_forall in HB. split.
  - apply NoDup_Permutation_bis; [assumption|rewrite seq_length; lia|].
    intros i Hi. apply in_seq. specialize (HB i Hi). apply Nat.ltb_lt in HB. lia.
  - apply sortedb_sorted. assumption.
Qed.
