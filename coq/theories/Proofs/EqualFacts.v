(* C18: totality, reflexivity, symmetry and sensitivity of the code-shaped is_equal. *)
From Coq Require Import List ZArith QArith Qcanon Bool Arith Lia.
From Dimod Require Import Base.Util Model.Poly Model.Equal.
Import ListNotations.
Open Scope Qc_scope.

(* ---------- all(...) with raising lookups ---------- *)
Lemma all_vt_raise f vs e : all_vt f vs = Raise e -> e = ValErr.
Proof.
  induction vs as [|v vs IH]; cbn [all_vt]; [discriminate|].
  destruct (f v) as [[|]|]; [exact IH|discriminate|intros H; inversion H; reflexivity].
Qed.

Lemma all_vt_total f vs : (forall v, In v vs -> f v <> None) -> exists b, all_vt f vs = Val b.
Proof.
  induction vs as [|v vs IH]; intros H; cbn [all_vt]; [eauto|].
  destruct (f v) as [[|]|] eqn:E.
  - apply IH. intros w Hw. apply H. right. exact Hw.
  - eauto.
  - exfalso. apply (H v (or_introl eq_refl)). exact E.
Qed.

Lemma assoc_in {A} (l : list (label * A)) k : In k (map fst l) -> assoc l k <> None.
Proof.
  induction l as [|[k' x] l IH]; cbn [map fst In assoc]; [tauto|].
  intros [->|H]; [rewrite Nat.eqb_refl; discriminate|].
  destruct (k' =? k)%nat; [discriminate|apply IH; exact H].
Qed.

Lemma assoc_none_notin {A} (l : list (label * A)) k : assoc l k = None -> ~ In k (map fst l).
Proof. intros H Hin. apply (assoc_in l k Hin). exact H. Qed.

Lemma assoc_notin {A} (l : list (label * A)) k : ~ In k (map fst l) -> assoc l k = None.
Proof.
  induction l as [|[k' x] l IH]; cbn [map fst In assoc]; [reflexivity|].
  intros H. destruct (Nat.eqb_spec k' k) as [->|]; [exfalso; apply H; left; reflexivity|].
  apply IH. intros Hin. apply H. right. exact Hin.
Qed.

Lemma labels_vt m : labels m = map fst (map (fun t => (fst (fst t), snd (fst t))) (e_vars m)).
Proof. unfold labels. rewrite map_map. reflexivity. Qed.

Lemma labels_lin m : labels m = map fst (lin_items m).
Proof. unfold labels, lin_items. rewrite map_map. reflexivity. Qed.

Lemma qm_vt_in m v : In v (labels m) -> qm_vt m v <> None.
Proof. rewrite labels_vt. apply assoc_in. Qed.

Lemma ask_vt_in m v : In v (labels m) -> ask_vt m v <> None.
Proof. unfold ask_vt. destruct (e_cls m); [discriminate|apply qm_vt_in]. Qed.

Lemma handle_total catches o :
  (forall e, o = Raise e -> existsb (exn_eqb e) catches = true) -> exists b, handle catches o = Val b.
Proof.
  destruct o as [b|e]; cbn [handle]; [eauto|]. intros H. rewrite (H e eq_refl). eauto.
Qed.

Lemma vartype_eq_raise a b e : vartype_eq a b = Raise e -> e = ValErr /\ e_cls a = EQ.
Proof.
  unfold vartype_eq. destruct (e_cls a) as [vt|] eqn:C.
  - intros H. exfalso.
    destruct (all_vt_total (fun v => match ask_vt b v with Some t => Some (vartype_eqb t vt) | None => None end) (labels b)) as [x Hx].
    + intros v Hv. pose proof (ask_vt_in b v Hv) as K. destruct (ask_vt b v); [discriminate|contradiction].
    + rewrite Hx in H. discriminate.
  - intros H. split; [eapply all_vt_raise; exact H|reflexivity].
Qed.

Lemma body_raise a b e : body a b = Raise e -> e = ValErr /\ e_cls a = EQ.
Proof.
  unfold body. destruct (vartype_eq a b) as [[|]|e'] eqn:V; try discriminate.
  intros H; inversion H; subst. eapply vartype_eq_raise; exact V.
Qed.

Lemma body_vs_cqm_raise a c e :
  body_vs_cqm a c = Raise e -> e = AttrErr \/ (e = ValErr /\ e_cls a = EQ).
Proof.
  unfold body_vs_cqm. destruct (e_cls a) as [vt|] eqn:C.
  - destruct (all_vt_total (fun v => match assoc (q_vars c) v with Some t => Some (vartype_eqb t vt) | None => None end)
                (map fst (q_vars c))) as [x Hx].
    + intros v Hv. pose proof (assoc_in (q_vars c) v Hv) as K. destruct (assoc (q_vars c) v); [discriminate|contradiction].
    + rewrite Hx. destruct x; [intros H; inversion H; auto|discriminate].
  - match goal with |- context [all_vt ?f ?l] => destruct (all_vt f l) as [[|]|e'] eqn:V end.
    + intros H; inversion H; auto.
    + discriminate.
    + intros H; inversion H; subst. right. split; [eapply all_vt_raise; exact V|reflexivity].
Qed.

(* totality: the repaired is_equal never raises, whatever it is handed *)
Theorem is_equal_total a o : exists b, is_equal_code a o = Val b.
Proof.
  unfold is_equal_code, is_equal_with. destruct o as [q|b|c|].
  - eauto.
  - apply handle_total. intros e H. apply body_raise in H. destruct H as [-> C].
    unfold catches_of. rewrite C. reflexivity.
  - apply handle_total. intros e H. apply body_vs_cqm_raise in H. unfold catches_of.
    destruct H as [->|[-> C]]; [destruct (e_cls a); reflexivity|rewrite C; reflexivity].
  - apply handle_total. intros e H. inversion H; subst. unfold catches_of. destruct (e_cls a); reflexivity.
Qed.

(* the un-repaired QuadraticModel.is_equal (except AttributeError only) raises for a model
   over a different label *)
Definition qm1 : emdl := mkE EQ [(0%nat, BINARY, 1)] 0 [].
Definition qm2 : emdl := mkE EQ [(1%nat, BINARY, 1)] 0 [].

Theorem qm_is_equal_orig_refuted :
  exists a b, is_equal_with catches_orig a (OModel b) = Raise ValErr.
Proof. exists qm1, qm2. vm_compute. reflexivity. Qed.

Lemma mem_in l ls : mem l ls = true <-> In l ls.
Proof.
  unfold mem. rewrite existsb_exists. split.
  - intros [x [Hx E]]. apply Nat.eqb_eq in E. subst. exact Hx.
  - intros H. exists l. split; [exact H|apply Nat.eqb_refl].
Qed.

Lemma all_out_vals l : (forall o, In o l -> exists b, o = Val b) -> exists b, all_out l = Val b.
Proof.
  induction l as [|o l IH]; intros H; cbn [all_out]; [eauto|].
  destruct (H o (or_introl eq_refl)) as [b ->]. destruct b; cbn [and_out]; [|eauto].
  apply IH. intros o' Ho'. apply H. right. exact Ho'.
Qed.

Lemma constraint_eq_total c0 c1 : exists b, constraint_eq c0 c1 = Val b.
Proof.
  unfold constraint_eq. destruct (sense_eqb (k_sense c0) (k_sense c1)); cbn [and_out]; [|eauto].
  destruct (is_equal_total (k_lhs c0) (OModel (k_lhs c1))) as [b ->]. destruct b; cbn [and_out]; eauto.
Qed.

(* between two CQMs it is total: the constraint lookup cannot fail after the key test *)
Theorem cqm_is_equal_total_on_cqm c d : exists b, cqm_is_equal_code c (OCqm d) = Val b.
Proof.
  unfold cqm_is_equal_code.
  destruct (is_equal_total (q_obj c) (OModel (q_obj d))) as [b ->]. destruct b; cbn [and_out]; [|eauto].
  destruct (keys_eqb (q_cons c) (q_cons d)) eqn:K; cbn [and_out]; [|eauto].
  apply all_out_vals. intros o Ho. apply in_map_iff in Ho. destruct Ho as [[l k] [<- Hin]]. cbn [fst snd].
  unfold keys_eqb in K. apply andb_prop in K. destruct K as [K _].
  rewrite forallb_forall in K. specialize (K l). rewrite mem_in in K.
  assert (Hl : In l (map fst (q_cons c))) by (apply in_map_iff; exists (l, k); auto).
  specialize (K Hl). pose proof (assoc_in (q_cons d) l K) as A.
  destruct (assoc (q_cons d) l) as [c1|]; [apply constraint_eq_total|contradiction].
Qed.

(* ConstrainedQuadraticModel.is_equal is total over everything it may be handed *)
Theorem cqm_is_equal_total c o : exists b, cqm_is_equal_code c o = Val b.
Proof.
  destruct o as [q|m|d|]; try (exists false; reflexivity). apply cqm_is_equal_total_on_cqm.
Qed.

(* ... and False against anything that is not a CQM *)
Theorem cqm_is_equal_non_cqm c o : (forall d, o <> OCqm d) -> cqm_is_equal_code c o = Val false.
Proof. intros H. destruct o as [q|m|d|]; try reflexivity. exfalso. apply (H d). reflexivity. Qed.

(* ---------- is_equal = true  <->  same_model ---------- *)
Lemma Qc_eqb_true_iff x y : Qc_eqb x y = true <-> x = y.
Proof.
  unfold Qc_eqb. split.
  - intros H. apply Qc_is_canon. apply Qeq_bool_iff. exact H.
  - intros ->. apply Qeq_bool_iff. reflexivity.
Qed.

Lemma assoc_some_in {A} (l : list (label * A)) k x : assoc l k = Some x -> In k (map fst l).
Proof.
  intros H. destruct (in_dec Nat.eq_dec k (map fst l)) as [Hin|Hn]; [exact Hin|].
  rewrite (assoc_notin l k Hn) in H. discriminate.
Qed.

Lemma incl_d_iff (a b : list (label * Qc)) :
  incl_d Qc_eqb a b = true <-> forall k, In k (map fst a) -> assoc a k = assoc b k.
Proof.
  unfold incl_d. rewrite forallb_forall. split.
  - intros H k Hk. specialize (H k Hk). destruct (assoc a k) as [x|]; [|discriminate].
    destruct (assoc b k) as [y|]; [|discriminate]. apply Qc_eqb_true_iff in H. congruence.
  - intros H k Hk. rewrite <- (H k Hk). pose proof (assoc_in a k Hk) as K.
    destruct (assoc a k) as [x|]; [apply Qc_eqb_true_iff; reflexivity|contradiction].
Qed.

Lemma dict_eqb_iff (a b : list (label * Qc)) :
  dict_eqb Qc_eqb a b = true <-> forall k, assoc a k = assoc b k.
Proof.
  unfold dict_eqb. rewrite andb_true_iff, !incl_d_iff. split.
  - intros [H1 H2] k. destruct (assoc a k) as [x|] eqn:Ea.
    + rewrite <- (H1 k (assoc_some_in _ _ _ Ea)). symmetry. exact Ea.
    + destruct (assoc b k) as [y|] eqn:Eb; [|reflexivity].
      rewrite (H2 k (assoc_some_in _ _ _ Eb)) in Eb. congruence.
  - intros H. split; intros k _; [apply H|symmetry; apply H].
Qed.

Lemma all_vt_true f vs : all_vt f vs = Val true <-> forall v, In v vs -> f v = Some true.
Proof.
  induction vs as [|v vs IH]; cbn [all_vt In]; [split; [tauto|reflexivity]|].
  destruct (f v) as [[|]|] eqn:E.
  - rewrite IH. split; [intros H w [<-|Hw]; auto|intros H w Hw; apply H; auto].
  - split; [discriminate|]. intros H. specialize (H v (or_introl eq_refl)). congruence.
  - split; [discriminate|]. intros H. specialize (H v (or_introl eq_refl)). congruence.
Qed.

Lemma vartype_eqb_true_iff x y : vartype_eqb x y = true <-> x = y.
Proof. destruct x, y; cbn; split; congruence. Qed.

Lemma ovt_eqb_some x t : ovt_eqb x (Some t) = true <-> x = Some t.
Proof.
  unfold ovt_eqb, option_eqb. destruct x as [y|]; [|split; discriminate].
  rewrite vartype_eqb_true_iff. split; congruence.
Qed.

Lemma in_labels_lin m l : In l (labels m) <-> lin_of m l <> None.
Proof.
  unfold lin_of. rewrite labels_lin. split; [apply assoc_in|].
  intros H. destruct (assoc (lin_items m) l) eqn:E; [eapply assoc_some_in; exact E|contradiction].
Qed.

Lemma same_labels a b : (forall l, lin_of a l = lin_of b l) -> forall l, In l (labels a) <-> In l (labels b).
Proof. intros H l. rewrite !in_labels_lin, H. tauto. Qed.

Lemma qm_vt_notin m l : ~ In l (labels m) -> qm_vt m l = None.
Proof. rewrite labels_vt. apply assoc_notin. Qed.

Lemma vt_of_bqm m vt l : e_cls m = EB vt -> vt_of m l = if mem l (labels m) then Some vt else None.
Proof. unfold vt_of. intros ->. reflexivity. Qed.

Lemma mem_false l ls : mem l ls = false <-> ~ In l ls.
Proof. rewrite <- mem_in. destruct (mem l ls); split; congruence. Qed.

(* under equal label sets the vartype test of the code is extensional equality of the
   label -> vartype maps *)
Lemma vartype_eq_iff a b :
  (forall l, In l (labels a) <-> In l (labels b)) ->
  (vartype_eq a b = Val true <-> forall l, vt_of a l = vt_of b l).
Proof.
  intros L. unfold vartype_eq, ask_vt, vt_of.
  destruct (e_cls a) as [vt|] eqn:Ca; destruct (e_cls b) as [vt'|] eqn:Cb; rewrite all_vt_true.
  - split.
    + intros H l. destruct (mem l (labels a)) eqn:Ma.
      * apply mem_in in Ma. pose proof (proj1 (L l) Ma) as Mb. specialize (H l Mb).
        apply mem_in in Mb. rewrite Mb. inversion H as [H']. apply vartype_eqb_true_iff in H'. congruence.
      * apply mem_false in Ma. assert (Mb : ~ In l (labels b)) by (rewrite <- L; exact Ma).
        apply mem_false in Mb. rewrite Mb. reflexivity.
    + intros H v Hv. specialize (H v). pose proof (proj2 (L v) Hv) as Ha.
      apply mem_in in Hv, Ha. rewrite Hv, Ha in H. f_equal. apply vartype_eqb_true_iff. congruence.
  - split.
    + intros H l. destruct (mem l (labels a)) eqn:Ma.
      * apply mem_in in Ma. pose proof (proj1 (L l) Ma) as Mb. specialize (H l Mb).
        destruct (qm_vt b l) as [t|]; [|discriminate]. inversion H as [H']. apply vartype_eqb_true_iff in H'. congruence.
      * apply mem_false in Ma. assert (Mb : ~ In l (labels b)) by (rewrite <- L; exact Ma).
        rewrite (qm_vt_notin b l Mb). reflexivity.
    + intros H v Hv. specialize (H v). pose proof (proj2 (L v) Hv) as Ha. apply mem_in in Ha. rewrite Ha in H.
      rewrite <- H. f_equal. apply vartype_eqb_true_iff. reflexivity.
  - split.
    + intros H l. destruct (mem l (labels b)) eqn:Mb.
      * apply mem_in in Mb. pose proof (proj2 (L l) Mb) as Ma. specialize (H l Ma).
        inversion H as [H']. apply ovt_eqb_some in H'. exact H'.
      * apply mem_false in Mb. assert (Ma : ~ In l (labels a)) by (rewrite L; exact Mb).
        apply qm_vt_notin. exact Ma.
    + intros H v Hv. specialize (H v). pose proof (proj1 (L v) Hv) as Hb. apply mem_in in Hb. rewrite Hb in H.
      f_equal. apply ovt_eqb_some. exact H.
  - split.
    + intros H l. destruct (in_dec Nat.eq_dec l (labels a)) as [Ma|Ma].
      * specialize (H l Ma). destruct (qm_vt b l) as [t|]; [|discriminate].
        inversion H as [H']. apply ovt_eqb_some in H'. exact H'.
      * assert (Mb : ~ In l (labels b)) by (rewrite <- L; exact Ma).
        rewrite (qm_vt_notin a l Ma), (qm_vt_notin b l Mb). reflexivity.
    + intros H v Hv. rewrite <- (H v). pose proof (qm_vt_in a v Hv) as K.
      destruct (qm_vt a v) as [t|]; [|contradiction]. f_equal. apply ovt_eqb_some. reflexivity.
Qed.

Lemma adj_eqb_iff a b :
  (forall l, In l (labels a) <-> In l (labels b)) ->
  (adj_eqb a b = true <-> forall v u, In v (labels a) -> adj_of a v u = adj_of b v u).
Proof.
  intros L. unfold adj_eqb, adj_of.
  assert (I1 : forallb (fun v => mem v (labels b)) (labels a) = true).
  { apply forallb_forall. intros v Hv. apply mem_in. apply L. exact Hv. }
  assert (I2 : forallb (fun v => mem v (labels a)) (labels b) = true).
  { apply forallb_forall. intros v Hv. apply mem_in. apply L. exact Hv. }
  rewrite I1, I2. cbn [andb]. rewrite forallb_forall. split.
  - intros H v u Hv. specialize (H v Hv). rewrite dict_eqb_iff in H. apply H.
  - intros H v Hv. apply dict_eqb_iff. intros u. apply H. exact Hv.
Qed.

Lemma shape_eqb_iff a b :
  shape_eqb a b = true <-> length (e_vars a) = length (e_vars b) /\ length (e_quad a) = length (e_quad b).
Proof. unfold shape_eqb. rewrite andb_true_iff, !Nat.eqb_eq. tauto. Qed.

Lemma handle_true catches o : handle catches o = Val true <-> o = Val true.
Proof.
  destruct o as [b|e]; cbn [handle]; [tauto|].
  destruct (existsb (exn_eqb e) catches); split; discriminate.
Qed.

Theorem is_equal_iff_same a b : is_equal_code a (OModel b) = Val true <-> same_model a b.
Proof.
  unfold is_equal_code, is_equal_with. rewrite handle_true. unfold body, same_model. split.
  - destruct (vartype_eq a b) as [[|]|e] eqn:V; try discriminate.
    intros H. inversion H as [H']. clear H. rewrite !andb_true_iff in H'.
    destruct H' as [[[S O] Ld] A]. apply shape_eqb_iff in S. apply Qc_eqb_true_iff in O.
    rewrite dict_eqb_iff in Ld. pose proof (same_labels a b Ld) as L.
    split; [apply (vartype_eq_iff a b L); exact V|].
    split; [apply S|]. split; [apply S|]. split; [exact O|]. split; [exact Ld|].
    apply (adj_eqb_iff a b L). exact A.
  - intros [Hv [S1 [S2 [O [Ld A]]]]]. pose proof (same_labels a b Ld) as L.
    rewrite (proj2 (vartype_eq_iff a b L) Hv). f_equal. rewrite !andb_true_iff.
    split; [split; [split|]|].
    + apply shape_eqb_iff. auto.
    + apply Qc_eqb_true_iff. exact O.
    + apply dict_eqb_iff. exact Ld.
    + apply (adj_eqb_iff a b L). exact A.
Qed.

Lemma same_model_refl a : same_model a a.
Proof. repeat split. Qed.

Lemma same_model_sym a b : same_model a b -> same_model b a.
Proof.
  intros [Hv [S1 [S2 [O [Ld A]]]]]. repeat split; auto.
  intros v u Hv'. symmetry. apply A. apply (same_labels a b Ld). exact Hv'.
Qed.

Theorem is_equal_refl a : is_equal_code a (OModel a) = Val true.
Proof. apply is_equal_iff_same. apply same_model_refl. Qed.

(* symmetric across classes: both directions return the same boolean *)
Theorem is_equal_sym a b : is_equal_code a (OModel b) = is_equal_code b (OModel a).
Proof.
  destruct (is_equal_total a (OModel b)) as [x Hx]. destruct (is_equal_total b (OModel a)) as [y Hy].
  rewrite Hx, Hy. destruct x, y; try reflexivity.
  - apply is_equal_iff_same, same_model_sym, is_equal_iff_same in Hx. congruence.
  - apply is_equal_iff_same, same_model_sym, is_equal_iff_same in Hy. congruence.
Qed.

(* any single difference (a vartype or label, the offset, a linear bias, a quadratic bias or
   the presence of an interaction) makes it False - never an exception *)
Theorem is_equal_sensitive a b :
  (exists l, vt_of a l <> vt_of b l) \/ e_off a <> e_off b \/
  (exists l, lin_of a l <> lin_of b l) \/
  (exists v u, In v (labels a) /\ adj_of a v u <> adj_of b v u) ->
  is_equal_code a (OModel b) = Val false.
Proof.
  intros H. destruct (is_equal_total a (OModel b)) as [x Hx]. rewrite Hx. destruct x; [|reflexivity].
  apply is_equal_iff_same in Hx. destruct Hx as [Hv [_ [_ [O [Ld A]]]]]. exfalso.
  destruct H as [[l H]|[H|[[l H]|[v [u [Hin H]]]]]]; [apply H, Hv|apply H, O|apply H, Ld|apply H, A, Hin].
Qed.

(* a model equals a number iff it has no variables and that offset *)
Theorem is_equal_number a q :
  is_equal_code a (ONumber q) = Val true <-> e_vars a = [] /\ e_off a = q.
Proof.
  unfold is_equal_code, is_equal_with. split.
  - intros H. inversion H as [H']. apply andb_prop in H'. destruct H' as [E O].
    apply Qc_eqb_true_iff in O. destruct (e_vars a); [auto|discriminate].
  - intros [-> ->]. f_equal. cbn [andb]. apply Qc_eqb_true_iff. reflexivity.
Qed.

(* ---------- constrained models: order-independent, sensitive to sense / rhs / label ---------- *)
Definition same_cqm (c d : cqm) : Prop :=
  same_model (q_obj c) (q_obj d) /\
  (forall l, In l (map fst (q_cons c)) <-> In l (map fst (q_cons d))) /\
  (forall l c0, In (l, c0) (q_cons c) ->
     exists c1, assoc (q_cons d) l = Some c1 /\ k_sense c0 = k_sense c1 /\
                same_model (k_lhs c0) (k_lhs c1) /\ k_rhs c0 = k_rhs c1).

Lemma and_out_true x y : and_out x y = Val true <-> x = Val true /\ y = Val true.
Proof. destruct x as [[|]|e]; cbn [and_out]; split; try tauto; try (intros [H _]; discriminate H); discriminate. Qed.

Lemma all_out_true l : all_out l = Val true <-> forall o, In o l -> o = Val true.
Proof.
  induction l as [|x l IH]; cbn [all_out In]; [split; [tauto|reflexivity]|].
  rewrite and_out_true, IH. split; [intros [H1 H2] o [<-|Ho]; auto|intros H; split; auto].
Qed.

Lemma sense_eqb_true_iff x y : sense_eqb x y = true <-> x = y.
Proof. destruct x, y; cbn; split; congruence. Qed.

Lemma constraint_eq_true c0 c1 :
  constraint_eq c0 c1 = Val true <->
  k_sense c0 = k_sense c1 /\ same_model (k_lhs c0) (k_lhs c1) /\ k_rhs c0 = k_rhs c1.
Proof.
  unfold constraint_eq. rewrite !and_out_true, is_equal_iff_same. split.
  - intros [H1 [H2 H3]]. inversion H1 as [H1']. inversion H3 as [H3'].
    apply sense_eqb_true_iff in H1'. apply Qc_eqb_true_iff in H3'. auto.
  - intros [H1 [H2 H3]]. split; [f_equal; apply sense_eqb_true_iff; exact H1|].
    split; [exact H2|f_equal; apply Qc_eqb_true_iff; exact H3].
Qed.

Lemma keys_eqb_iff a b :
  keys_eqb a b = true <-> forall l, In l (map fst a) <-> In l (map fst b).
Proof.
  unfold keys_eqb. rewrite andb_true_iff, !forallb_forall. split.
  - intros [H1 H2] l. split; intros H; [apply mem_in, H1, H|apply mem_in, H2, H].
  - intros H. split; intros l Hl; apply mem_in, H, Hl.
Qed.

Theorem cqm_is_equal_iff_same c d : cqm_is_equal_code c (OCqm d) = Val true <-> same_cqm c d.
Proof.
  unfold cqm_is_equal_code, same_cqm. rewrite !and_out_true, is_equal_iff_same, all_out_true. split.
  - intros [H1 [H2 H3]]. inversion H2 as [H2']. pose proof (proj1 (keys_eqb_iff _ _) H2') as H2''. clear H2'. rename H2'' into H2'.
    split; [exact H1|]. split; [exact H2'|]. intros l c0 Hin.
    specialize (H3 _ (in_map _ _ _ Hin)). cbn [fst snd] in H3.
    destruct (assoc (q_cons d) l) as [c1|]; [|discriminate]. exists c1. split; [reflexivity|].
    apply constraint_eq_true. exact H3.
  - intros [H1 [H2 H3]]. split; [exact H1|]. split; [f_equal; apply (proj2 (keys_eqb_iff _ _)); exact H2|].
    intros o Ho. apply in_map_iff in Ho. destruct Ho as [[l c0] [<- Hin]]. cbn [fst snd].
    destruct (H3 l c0 Hin) as [c1 [E K]]. rewrite E. apply constraint_eq_true. exact K.
Qed.

(* one changed sense or right-hand side of a (uniquely labelled) constraint makes it False *)
Theorem cqm_is_equal_sensitive c d l c0 c1 :
  In (l, c0) (q_cons c) -> assoc (q_cons d) l = Some c1 ->
  k_sense c0 <> k_sense c1 \/ k_rhs c0 <> k_rhs c1 \/ ~ same_model (k_lhs c0) (k_lhs c1) ->
  cqm_is_equal_code c (OCqm d) = Val false.
Proof.
  intros Hin E H. destruct (cqm_is_equal_total_on_cqm c d) as [x Hx]. rewrite Hx. destruct x; [|reflexivity].
  apply cqm_is_equal_iff_same in Hx. destruct Hx as [_ [_ K]]. destruct (K l c0 Hin) as [c1' [E' [A [B C]]]].
  rewrite E in E'. inversion E'; subst c1'. exfalso. destruct H as [H|[H|H]]; auto.
Qed.

(* a constraint label present on one side only makes it False *)
Theorem cqm_is_equal_label_sensitive c d l :
  In l (map fst (q_cons c)) -> ~ In l (map fst (q_cons d)) -> cqm_is_equal_code c (OCqm d) = Val false.
Proof.
  intros H1 H2. destruct (cqm_is_equal_total_on_cqm c d) as [x Hx]. rewrite Hx. destruct x; [|reflexivity].
  apply cqm_is_equal_iff_same in Hx. destruct Hx as [_ [K _]]. exfalso. apply H2, K, H1.
Qed.

(* ====================================================================== *)
(* is_almost_equal                                                        *)
(* ====================================================================== *)
Lemma rz_zero p : rz p 0 = true.
Proof.
  unfold rz. replace (0 * pow10 p) with 0 by ring. replace (- 0 * pow10 p) with 0 by ring. reflexivity.
Qed.

Lemma almost_eqb_refl p x : almost_eqb p x x = true.
Proof. unfold almost_eqb. replace (x - x) with 0 by ring. apply rz_zero. Qed.

Lemma almost_eqb_sym p x y : almost_eqb p x y = almost_eqb p y x.
Proof.
  unfold almost_eqb, rz. replace (y - x) with (- (x - y)) by ring.
  replace (- - (x - y)) with (x - y) by ring. apply andb_comm.
Qed.

Lemma and_out_raise x y e : and_out x y = Raise e -> x = Raise e \/ y = Raise e.
Proof. destruct x as [[|]|e']; cbn [and_out]; intros H; auto; discriminate. Qed.

Lemma all_out_raise l e : all_out l = Raise e -> In (Raise e) l.
Proof.
  induction l as [|x l IH]; cbn [all_out]; [discriminate|]. intros H.
  apply and_out_raise in H. destruct H as [->|H]; [left; reflexivity|right; auto].
Qed.

Lemma almost_body_raise p a b e : almost_body p a b = Raise e -> e = ValErr.
Proof.
  unfold almost_body. intros H.
  apply and_out_raise in H. destruct H as [H|H]; [apply vartype_eq_raise in H; tauto|].
  apply and_out_raise in H. destruct H as [H|H]; [discriminate|].
  apply and_out_raise in H. destruct H as [H|H]; [discriminate|].
  apply and_out_raise in H. destruct H as [H|H]; apply all_out_raise, in_map_iff in H; destruct H as [x [H _]].
  - destruct (lin_of b x); [destruct (lin_of a x)|]; inversion H; reflexivity.
  - destruct (adj_of b (fst (fst x)) (snd (fst x))); inversion H; reflexivity.
Qed.

Theorem is_almost_equal_total p a o : exists b, is_almost_equal_code p a o = Val b.
Proof.
  unfold is_almost_equal_code. destruct o as [q|b|c|].
  - eauto.
  - apply handle_total. intros e H. apply almost_body_raise in H. subst. reflexivity.
  - apply handle_total. intros e H. apply body_vs_cqm_raise in H. destruct H as [->|[-> _]]; reflexivity.
  - apply handle_total. intros e H. inversion H; subst. reflexivity.
Qed.

(* ---------- adjacency lookup as a search for the unordered pair ---------- *)
Definition sp (v u : label) (t : qterm) : bool := same_pair v u (fst (fst t)) (snd (fst t)).
Definition np (v u : label) : label * label := (Nat.min v u, Nat.max v u).

Lemma adj_find m v u : adj_of m v u = option_map snd (find (sp v u) (e_quad m)).
Proof.
  unfold adj_of. induction (e_quad m) as [|[[a b] x] q IH]; [reflexivity|].
  cbn [nbrs flat_map find]. unfold sp at 1, same_pair. cbn [fst snd].
  rewrite (Nat.eqb_sym v a), (Nat.eqb_sym v b), (Nat.eqb_sym u a), (Nat.eqb_sym u b).
  fold (nbrs q v).
  destruct (Nat.eqb_spec a v) as [E1|E1]; destruct (Nat.eqb_spec b v) as [E2|E2];
    destruct (Nat.eqb_spec b u) as [E3|E3]; destruct (Nat.eqb_spec a u) as [E4|E4];
    cbn [app assoc andb orb option_map snd];
    rewrite ?Nat.eqb_refl; subst;
    repeat match goal with
           | |- context [(?x =? ?y)%nat] => destruct (Nat.eqb_spec x y); try congruence
           end; cbn [option_map snd]; try reflexivity; try exact IH; try congruence.
Qed.

Lemma sp_np v u t : sp v u t = true <-> np v u = npair t.
Proof.
  unfold sp, same_pair, np, npair. destruct t as [[a b] x]. cbn [fst snd].
  rewrite orb_true_iff, !andb_true_iff, !Nat.eqb_eq. split.
  - intros [[-> ->]|[-> ->]]; [reflexivity|]. f_equal; [apply Nat.min_comm|apply Nat.max_comm].
  - intros H. inversion H. lia.
Qed.

Lemma sp_self t : sp (fst (fst t)) (snd (fst t)) t = true.
Proof. apply sp_np. reflexivity. Qed.

Lemma sp_trans v u t : sp v u t = true -> forall t', sp v u t' = sp (fst (fst t)) (snd (fst t)) t'.
Proof.
  intros H t'. apply sp_np in H.
  destruct (sp v u t') eqn:E1; destruct (sp (fst (fst t)) (snd (fst t)) t') eqn:E2; try reflexivity.
  - apply sp_np in E1. assert (K : sp (fst (fst t)) (snd (fst t)) t' = true) by (apply sp_np; unfold np; fold (npair t); congruence).
    congruence.
  - apply sp_np in E2. assert (K : sp v u t' = true) by (apply sp_np; unfold np in E2; fold (npair t) in E2; congruence).
    congruence.
Qed.

Lemma find_ext' {A} (f g : A -> bool) l : (forall x, f x = g x) -> find f l = find g l.
Proof. intros H. induction l as [|x l IH]; [reflexivity|]. cbn [find]. rewrite H, IH. reflexivity. Qed.

Lemma adj_of_sp m v u t : sp v u t = true -> adj_of m v u = adj_of m (fst (fst t)) (snd (fst t)).
Proof. intros H. rewrite !adj_find. f_equal. apply find_ext'. apply sp_trans. exact H. Qed.

Lemma nodup_find q t : NoDup (map npair q) -> In t q -> find (sp (fst (fst t)) (snd (fst t))) q = Some t.
Proof.
  induction q as [|t0 q IH]; intros Hnd Hin; [destruct Hin|].
  cbn [map] in Hnd. inversion Hnd as [|? ? Hni Hnd']; subst. cbn [find].
  destruct (sp (fst (fst t)) (snd (fst t)) t0) eqn:E.
  - destruct Hin as [->|Hin]; [reflexivity|]. exfalso. apply Hni. apply sp_np in E.
    unfold np in E. fold (npair t) in E. rewrite <- E. apply in_map. exact Hin.
  - destruct Hin as [->|Hin]; [rewrite sp_self in E; discriminate|]. apply IH; assumption.
Qed.

Lemma in_labels_len m : length (labels m) = length (e_vars m).
Proof. unfold labels. apply map_length. Qed.

Lemma rel_opt_none_iff R x y : rel_opt R x y -> (x = None <-> y = None).
Proof. destruct x, y; cbn; intros H; split; intros; try congruence; try contradiction. Qed.

Lemma same_labels_rel p a b :
  (forall l, rel_opt (almost_eqb p) (lin_of a l) (lin_of b l)) -> forall l, In l (labels a) <-> In l (labels b).
Proof.
  intros H l. rewrite !in_labels_lin. pose proof (rel_opt_none_iff _ _ _ (H l)) as K. tauto.
Qed.

Theorem is_almost_equal_iff_same p a b :
  wf a -> (is_almost_equal_code p a (OModel b) = Val true <-> almost_same_model p a b).
Proof.
  intros [Hnl [Hnq Hends]]. unfold is_almost_equal_code. rewrite handle_true. unfold almost_body, almost_same_model.
  rewrite !and_out_true, !all_out_true. split.
  - intros [V [S [O [Ls Qs]]]]. injection S as S'. apply shape_eqb_iff in S'. destruct S' as [S1 S2]. injection O as O'.
    assert (Lin : forall v, In v (labels a) -> exists x y, lin_of a v = Some x /\ lin_of b v = Some y /\ almost_eqb p x y = true).
    { intros v Hv. specialize (Ls _ (in_map _ _ _ Hv)). cbn beta in Ls.
      destruct (lin_of b v) as [y|]; [|discriminate]. destruct (lin_of a v) as [x|]; [|discriminate].
      inversion Ls. eauto. }
    assert (I1 : incl (labels a) (labels b)).
    { intros v Hv. destruct (Lin v Hv) as [x [y [_ [Hb _]]]]. apply in_labels_lin. congruence. }
    assert (I2 : incl (labels b) (labels a)).
    { apply NoDup_length_incl; [exact Hnl| |exact I1]. rewrite !in_labels_len. lia. }
    assert (L : forall l, In l (labels a) <-> In l (labels b)) by (intros l; split; [apply I1|apply I2]).
    assert (Qd : forall t, In t (e_quad a) -> exists y, adj_of b (fst (fst t)) (snd (fst t)) = Some y /\ almost_eqb p (snd t) y = true).
    { intros t Ht. specialize (Qs _ (in_map _ _ _ Ht)). cbn beta in Qs.
      destruct (adj_of b (fst (fst t)) (snd (fst t))) as [y|]; [|discriminate]. inversion Qs. eauto. }
    assert (J1 : incl (map npair (e_quad a)) (map npair (e_quad b))).
    { intros pr Hpr. apply in_map_iff in Hpr. destruct Hpr as [t [<- Ht]]. destruct (Qd t Ht) as [y [Hy _]].
      rewrite adj_find in Hy. destruct (find (sp (fst (fst t)) (snd (fst t))) (e_quad b)) as [t'|] eqn:F; [|discriminate].
      apply find_some in F. destruct F as [Hin Hsp]. apply sp_np in Hsp. unfold np in Hsp. fold (npair t) in Hsp.
      rewrite Hsp. apply in_map. exact Hin. }
    assert (J2 : incl (map npair (e_quad b)) (map npair (e_quad a))).
    { apply NoDup_length_incl; [exact Hnq| |exact J1]. rewrite !map_length. lia. }
    split; [apply (vartype_eq_iff a b L); exact V|]. split; [exact S1|]. split; [exact S2|]. split; [exact O'|]. split.
    + intros l. destruct (in_dec Nat.eq_dec l (labels a)) as [Hl|Hl].
      * destruct (Lin l Hl) as [x [y [-> [-> E]]]]. exact E.
      * assert (Hb : ~ In l (labels b)) by (rewrite <- L; exact Hl).
        rewrite in_labels_lin in Hl, Hb. destruct (lin_of a l); [exfalso; apply Hl; discriminate|].
        destruct (lin_of b l); [exfalso; apply Hb; discriminate|exact I].
    + intros v u _. destruct (find (sp v u) (e_quad a)) as [t|] eqn:F.
      * pose proof (find_some _ _ F) as [Hin Hsp]. destruct (Qd t Hin) as [y [Hy E]].
        rewrite (adj_of_sp b v u t Hsp), Hy. rewrite adj_find, F. exact E.
      * rewrite (adj_find a), F. cbn [option_map].
        destruct (adj_of b v u) as [y|] eqn:Hy; [|exact I]. exfalso.
        rewrite adj_find in Hy. destruct (find (sp v u) (e_quad b)) as [t'|] eqn:F'; [|discriminate].
        apply find_some in F'. destruct F' as [Hin' Hsp']. apply sp_np in Hsp'.
        assert (K : In (np v u) (map npair (e_quad a))) by (apply J2; rewrite Hsp'; apply in_map; exact Hin').
        apply in_map_iff in K. destruct K as [t [Ht Hin]].
        pose proof (find_none _ _ F t Hin) as K'. assert (K2 : sp v u t = true) by (apply sp_np; congruence). congruence.
  - intros [Hv [S1 [S2 [O [Ld A]]]]]. pose proof (same_labels_rel p a b Ld) as L.
    split; [apply (vartype_eq_iff a b L); exact Hv|].
    split; [f_equal; apply shape_eqb_iff; auto|]. split; [f_equal; exact O|]. split.
    + intros o Ho. apply in_map_iff in Ho. destruct Ho as [v [<- Hv']].
      specialize (Ld v). apply in_labels_lin in Hv'. destruct (lin_of a v) as [x|]; [|contradiction].
      destruct (lin_of b v) as [y|]; [|contradiction]. cbn in Ld. f_equal. exact Ld.
    + intros o Ho. apply in_map_iff in Ho. destruct Ho as [t [<- Ht]].
      destruct (Hends t Ht) as [Hu _]. specialize (A _ (snd (fst t)) Hu).
      rewrite (adj_find a), (nodup_find _ t Hnq Ht) in A. cbn [option_map] in A.
      destruct (adj_of b (fst (fst t)) (snd (fst t))) as [y|]; [|contradiction]. cbn in A. f_equal. exact A.
Qed.

Lemma rel_opt_sym p x y : rel_opt (almost_eqb p) x y -> rel_opt (almost_eqb p) y x.
Proof. destruct x, y; cbn; auto. rewrite almost_eqb_sym. auto. Qed.

Lemma almost_same_sym p a b : almost_same_model p a b -> almost_same_model p b a.
Proof.
  intros [Hv [S1 [S2 [O [Ld A]]]]]. pose proof (same_labels_rel p a b Ld) as L.
  split; [intros l; symmetry; apply Hv|]. split; [auto|]. split; [auto|].
  split; [rewrite almost_eqb_sym; exact O|]. split; [intros l; apply rel_opt_sym, Ld|].
  intros v u Hvb. apply rel_opt_sym, A, L, Hvb.
Qed.

Lemma same_is_almost p a b : same_model a b -> almost_same_model p a b.
Proof.
  intros [Hv [S1 [S2 [O [Ld A]]]]]. split; [exact Hv|]. split; [exact S1|]. split; [exact S2|].
  split; [rewrite O; apply almost_eqb_refl|]. split.
  - intros l. rewrite (Ld l). destruct (lin_of b l); cbn; [apply almost_eqb_refl|exact I].
  - intros v u Hin. rewrite (A v u Hin). destruct (adj_of b v u); cbn; [apply almost_eqb_refl|exact I].
Qed.

Theorem is_almost_equal_refl p a : wf a -> is_almost_equal_code p a (OModel a) = Val true.
Proof. intros W. apply (is_almost_equal_iff_same p a a W). apply same_is_almost, same_model_refl. Qed.

Theorem is_almost_equal_sym p a b :
  wf a -> wf b -> is_almost_equal_code p a (OModel b) = is_almost_equal_code p b (OModel a).
Proof.
  intros Wa Wb. destruct (is_almost_equal_total p a (OModel b)) as [x Hx].
  destruct (is_almost_equal_total p b (OModel a)) as [y Hy]. rewrite Hx, Hy. destruct x, y; try reflexivity.
  - apply (is_almost_equal_iff_same p a b Wa), almost_same_sym, (is_almost_equal_iff_same p b a Wb) in Hx. congruence.
  - apply (is_almost_equal_iff_same p b a Wb), almost_same_sym, (is_almost_equal_iff_same p a b Wa) in Hy. congruence.
Qed.

(* equal models are almost equal for every number of places *)
Theorem is_equal_implies_almost p a b :
  wf a -> is_equal_code a (OModel b) = Val true -> is_almost_equal_code p a (OModel b) = Val true.
Proof.
  intros W H. apply (is_almost_equal_iff_same p a b W). apply same_is_almost. apply is_equal_iff_same. exact H.
Qed.

Theorem is_almost_equal_number p a q :
  is_almost_equal_code p a (ONumber q) = Val true <-> e_vars a = [] /\ almost_eqb p (e_off a) q = true.
Proof.
  unfold is_almost_equal_code. split.
  - intros H. inversion H as [H']. apply andb_prop in H'. destruct H' as [E O]. destruct (e_vars a); [auto|discriminate].
  - intros [-> ->]. reflexivity.
Qed.

(* the boolean well-formedness test used on observations implies wf *)
Lemma nodup_b_sound {A} (eqb : A -> A -> bool) l :
  (forall x y, eqb x y = true <-> x = y) -> nodup_b eqb l = true -> NoDup l.
Proof.
  intros He. induction l as [|x l IH]; intros H; [constructor|]. cbn [nodup_b] in H.
  apply andb_prop in H. destruct H as [H1 H2]. constructor; [|apply IH; exact H2].
  intros Hin. apply negb_true_iff in H1. assert (K : existsb (eqb x) l = true).
  { apply existsb_exists. exists x. split; [exact Hin|apply He; reflexivity]. }
  congruence.
Qed.

Lemma wf_b_sound m : wf_b m = true -> wf m.
Proof.
  unfold wf_b, wf. rewrite !andb_true_iff. intros [[H1 H2] H3]. split; [|split].
  - apply (nodup_b_sound Nat.eqb); [intros x y; apply Nat.eqb_eq|exact H1].
  - eapply nodup_b_sound; [|exact H2]. intros [x1 x2] [y1 y2]. cbn [fst snd].
    rewrite andb_true_iff, !Nat.eqb_eq. split; [intros [-> ->]; reflexivity|intros H; inversion H; auto].
  - intros t Ht. rewrite forallb_forall in H3. specialize (H3 t Ht). apply andb_prop in H3.
    destruct H3 as [A B]. apply mem_in in A, B. auto.
Qed.

(* ---------- constrained models: is_almost_equal ---------- *)
Lemma constraint_almost_total p c0 c1 : exists b, constraint_almost p c0 c1 = Val b.
Proof.
  unfold constraint_almost. destruct (sense_eqb (k_sense c0) (k_sense c1)); cbn [and_out]; [|eauto].
  destruct (is_almost_equal_total p (k_lhs c0) (OModel (k_lhs c1))) as [b ->]. destruct b; cbn [and_out]; eauto.
Qed.

Theorem cqm_is_almost_equal_total p c o : exists b, cqm_is_almost_equal_code p c o = Val b.
Proof.
  destruct o as [q|m|d|]; try (exists false; reflexivity). unfold cqm_is_almost_equal_code.
  destruct (is_almost_equal_total p (q_obj c) (OModel (q_obj d))) as [b ->]. destruct b; cbn [and_out]; [|eauto].
  destruct (keys_eqb (q_cons c) (q_cons d)) eqn:K; cbn [and_out]; [|eauto].
  apply all_out_vals. intros o Ho. apply in_map_iff in Ho. destruct Ho as [[l k] [<- Hin]]. cbn [fst snd].
  unfold keys_eqb in K. apply andb_prop in K. destruct K as [K _].
  rewrite forallb_forall in K. specialize (K l). rewrite mem_in in K.
  assert (Hl : In l (map fst (q_cons c))) by (apply in_map_iff; exists (l, k); auto).
  specialize (K Hl). pose proof (assoc_in (q_cons d) l K) as A.
  destruct (assoc (q_cons d) l) as [c1|]; [apply constraint_almost_total|contradiction].
Qed.

Definition wf_cqm (c : cqm) : Prop :=
  wf (q_obj c) /\ forall l c0, In (l, c0) (q_cons c) -> wf (k_lhs c0).

Definition almost_same_cqm (p : nat) (c d : cqm) : Prop :=
  almost_same_model p (q_obj c) (q_obj d) /\
  (forall l, In l (map fst (q_cons c)) <-> In l (map fst (q_cons d))) /\
  (forall l c0, In (l, c0) (q_cons c) ->
     exists c1, assoc (q_cons d) l = Some c1 /\ k_sense c0 = k_sense c1 /\
                almost_same_model p (k_lhs c0) (k_lhs c1) /\ almost_eqb p (k_rhs c0) (k_rhs c1) = true).

Lemma constraint_almost_true p c0 c1 :
  wf (k_lhs c0) ->
  (constraint_almost p c0 c1 = Val true <->
   k_sense c0 = k_sense c1 /\ almost_same_model p (k_lhs c0) (k_lhs c1) /\ almost_eqb p (k_rhs c0) (k_rhs c1) = true).
Proof.
  intros W. unfold constraint_almost. rewrite !and_out_true, (is_almost_equal_iff_same p _ _ W). split.
  - intros [H1 [H2 H3]]. injection H1 as H1'. injection H3 as H3'. apply sense_eqb_true_iff in H1'. auto.
  - intros [H1 [H2 H3]]. split; [f_equal; apply sense_eqb_true_iff; exact H1|]. split; [exact H2|f_equal; exact H3].
Qed.

Theorem cqm_is_almost_equal_iff_same p c d :
  wf_cqm c -> (cqm_is_almost_equal_code p c (OCqm d) = Val true <-> almost_same_cqm p c d).
Proof.
  intros [Wo Wc]. unfold cqm_is_almost_equal_code, almost_same_cqm.
  rewrite !and_out_true, (is_almost_equal_iff_same p _ _ Wo), all_out_true. split.
  - intros [H1 [H2 H3]]. injection H2 as H2'. pose proof (proj1 (keys_eqb_iff _ _) H2') as K.
    split; [exact H1|]. split; [exact K|]. intros l c0 Hin.
    specialize (H3 _ (in_map _ _ _ Hin)). cbn [fst snd] in H3.
    destruct (assoc (q_cons d) l) as [c1|]; [|discriminate]. exists c1. split; [reflexivity|].
    apply (constraint_almost_true p c0 c1 (Wc l c0 Hin)). exact H3.
  - intros [H1 [H2 H3]]. split; [exact H1|]. split; [f_equal; apply (proj2 (keys_eqb_iff _ _)); exact H2|].
    intros o Ho. apply in_map_iff in Ho. destruct Ho as [[l c0] [<- Hin]]. cbn [fst snd].
    destruct (H3 l c0 Hin) as [c1 [E K]]. rewrite E. apply (constraint_almost_true p c0 c1 (Wc l c0 Hin)). exact K.
Qed.

Theorem cqm_is_equal_implies_almost p c d :
  wf_cqm c -> cqm_is_equal_code c (OCqm d) = Val true -> cqm_is_almost_equal_code p c (OCqm d) = Val true.
Proof.
  intros W H. apply (cqm_is_almost_equal_iff_same p c d W). apply cqm_is_equal_iff_same in H.
  destruct H as [H1 [H2 H3]]. split; [apply same_is_almost; exact H1|]. split; [exact H2|].
  intros l c0 Hin. destruct (H3 l c0 Hin) as [c1 [E [S [M R]]]]. exists c1. split; [exact E|]. split; [exact S|].
  split; [apply same_is_almost; exact M|rewrite R; apply almost_eqb_refl].
Qed.

(* ---------- the documented scope: what CQM equality does not look at ---------- *)
(* soft weights, penalty kinds, discrete marks and the CQM's own variable list (variables used
   by no expression, vartypes / bounds registered on the CQM) are invisible to is_equal and
   is_almost_equal: erasing them on both sides never changes the answer *)
Definition erase_constr (k : constr) : constr := mkC (k_sense k) (k_lhs k) (k_rhs k) None false false.
Definition erase_cqm (c : cqm) : cqm :=
  mkCqm (q_obj c) [] (map (fun lc => (fst lc, erase_constr (snd lc))) (q_cons c)).

Lemma assoc_map {A B} (f : A -> B) (l : list (label * A)) k :
  assoc (map (fun lc => (fst lc, f (snd lc))) l) k = option_map f (assoc l k).
Proof.
  induction l as [|[k' x] l IH]; [reflexivity|]. cbn [map assoc fst snd].
  destruct (k' =? k)%nat; [reflexivity|exact IH].
Qed.

Lemma map_fst_map {A B} (f : A -> B) (l : list (label * A)) :
  map fst (map (fun lc => (fst lc, f (snd lc))) l) = map fst l.
Proof. rewrite map_map. apply map_ext. reflexivity. Qed.

Lemma keys_eqb_erase c d : keys_eqb (q_cons (erase_cqm c)) (q_cons (erase_cqm d)) = keys_eqb (q_cons c) (q_cons d).
Proof. unfold keys_eqb, erase_cqm. cbn [q_cons]. rewrite !map_fst_map. reflexivity. Qed.

Theorem cqm_is_equal_scope c o :
  cqm_is_equal_code c o =
  cqm_is_equal_code (erase_cqm c) (match o with OCqm d => OCqm (erase_cqm d) | x => x end).
Proof.
  destruct o as [q|m|d|]; try reflexivity. unfold cqm_is_equal_code. rewrite keys_eqb_erase.
  cbn [erase_cqm q_obj q_cons]. rewrite map_map. do 3 f_equal. apply map_ext.
  intros [l k]. cbn [fst snd]. rewrite assoc_map.
  destruct (assoc (q_cons d) l); reflexivity.
Qed.

Theorem cqm_is_almost_equal_scope p c o :
  cqm_is_almost_equal_code p c o =
  cqm_is_almost_equal_code p (erase_cqm c) (match o with OCqm d => OCqm (erase_cqm d) | x => x end).
Proof.
  destruct o as [q|m|d|]; try reflexivity. unfold cqm_is_almost_equal_code. rewrite keys_eqb_erase.
  cbn [erase_cqm q_obj q_cons]. rewrite map_map. do 3 f_equal. apply map_ext.
  intros [l k]. cbn [fst snd]. rewrite assoc_map.
  destruct (assoc (q_cons d) l); reflexivity.
Qed.

Lemma same_cqm_refl c : NoDup (map fst (q_cons c)) -> same_cqm c c.
Proof.
  intros Hnd. split; [apply same_model_refl|]. split; [tauto|]. intros l c0 Hin. exists c0.
  split; [|split; [reflexivity|split; [apply same_model_refl|reflexivity]]].
  induction (q_cons c) as [|[l' k'] q IH]; [destruct Hin|]. cbn [map fst] in Hnd. inversion Hnd as [|? ? Hni Hnd']; subst.
  cbn [assoc]. destruct Hin as [E|Hin].
  - inversion E; subst. rewrite Nat.eqb_refl. reflexivity.
  - destruct (Nat.eqb_spec l' l) as [->|]; [|apply IH; assumption].
    exfalso. apply Hni. apply in_map_iff. exists (l, c0). auto.
Qed.

(* hence: two CQMs that differ ONLY in soft weights / penalties / discrete marks / the CQM-level
   variable list compare equal *)
Theorem cqm_is_equal_ignores c d :
  NoDup (map fst (q_cons c)) -> erase_cqm c = erase_cqm d -> cqm_is_equal_code c (OCqm d) = Val true.
Proof.
  intros Hnd E. rewrite (cqm_is_equal_scope c (OCqm d)), <- E. apply cqm_is_equal_iff_same.
  apply same_cqm_refl. unfold erase_cqm. cbn [q_cons]. rewrite map_fst_map. exact Hnd.
Qed.
