(* C18: totality, reflexivity, symmetry and sensitivity of the code-shaped is_equal. *)
From Coq Require Import List ZArith QArith Qcanon Bool Arith Lia.
From Dimod Require Import Base.Util Model.Poly Model.Equal.
Import ListNotations.
Open Scope Qc_scope.

(* ---------- all(...) with raising lookups ---------- *)
Lemma all_vt_raise f vs e : all_vt f vs = Raise e -> e = ValErr.
Proof.
  induction vs as [|v vs IH]; cbn [all_vt]; [discriminate|].
  destruct (f v) as [[|]|]; [exact IH|discriminate|intros H; inversion H; reflexivity].
Qed.

Lemma all_vt_total f vs : (forall v, In v vs -> f v <> None) -> exists b, all_vt f vs = Val b.
Proof.
  induction vs as [|v vs IH]; intros H; cbn [all_vt]; [eauto|].
  destruct (f v) as [[|]|] eqn:E.
  - apply IH. intros w Hw. apply H. right. exact Hw.
  - eauto.
  - exfalso. apply (H v (or_introl eq_refl)). exact E.
Qed.

Lemma assoc_in {A} (l : list (label * A)) k : In k (map fst l) -> assoc l k <> None.
Proof.
  induction l as [|[k' x] l IH]; cbn [map fst In assoc]; [tauto|].
  intros [->|H]; [rewrite Nat.eqb_refl; discriminate|].
  destruct (k' =? k)%nat; [discriminate|apply IH; exact H].
Qed.

Lemma assoc_none_notin {A} (l : list (label * A)) k : assoc l k = None -> ~ In k (map fst l).
Proof. intros H Hin. apply (assoc_in l k Hin). exact H. Qed.

Lemma assoc_notin {A} (l : list (label * A)) k : ~ In k (map fst l) -> assoc l k = None.
Proof.
  induction l as [|[k' x] l IH]; cbn [map fst In assoc]; [reflexivity|].
  intros H. destruct (Nat.eqb_spec k' k) as [->|]; [exfalso; apply H; left; reflexivity|].
  apply IH. intros Hin. apply H. right. exact Hin.
Qed.

Lemma labels_vt m : labels m = map fst (map (fun t => (fst (fst t), snd (fst t))) (e_vars m)).
Proof. unfold labels. rewrite map_map. reflexivity. Qed.

Lemma labels_lin m : labels m = map fst (lin_items m).
Proof. unfold labels, lin_items. rewrite map_map. reflexivity. Qed.

Lemma qm_vt_in m v : In v (labels m) -> qm_vt m v <> None.
Proof. rewrite labels_vt. apply assoc_in. Qed.

Lemma ask_vt_in m v : In v (labels m) -> ask_vt m v <> None.
Proof. unfold ask_vt. destruct (e_cls m); [discriminate|apply qm_vt_in]. Qed.

Lemma handle_total catches o :
  (forall e, o = Raise e -> existsb (exn_eqb e) catches = true) -> exists b, handle catches o = Val b.
Proof.
  destruct o as [b|e]; cbn [handle]; [eauto|]. intros H. rewrite (H e eq_refl). eauto.
Qed.

Lemma vartype_eq_raise a b e : vartype_eq a b = Raise e -> e = ValErr /\ e_cls a = EQ.
Proof.
  unfold vartype_eq. destruct (e_cls a) as [vt|] eqn:C.
  - intros H. exfalso.
    destruct (all_vt_total (fun v => match ask_vt b v with Some t => Some (vartype_eqb t vt) | None => None end) (labels b)) as [x Hx].
    + intros v Hv. pose proof (ask_vt_in b v Hv) as K. destruct (ask_vt b v); [discriminate|contradiction].
    + rewrite Hx in H. discriminate.
  - intros H. split; [eapply all_vt_raise; exact H|reflexivity].
Qed.

Lemma body_raise a b e : body a b = Raise e -> e = ValErr /\ e_cls a = EQ.
Proof.
  unfold body. destruct (vartype_eq a b) as [[|]|e'] eqn:V; try discriminate.
  intros H; inversion H; subst. eapply vartype_eq_raise; exact V.
Qed.

Lemma body_vs_cqm_raise a c e :
  body_vs_cqm a c = Raise e -> e = AttrErr \/ (e = ValErr /\ e_cls a = EQ).
Proof.
  unfold body_vs_cqm. destruct (e_cls a) as [vt|] eqn:C.
  - destruct (all_vt_total (fun v => match assoc (q_vars c) v with Some t => Some (vartype_eqb t vt) | None => None end)
                (map fst (q_vars c))) as [x Hx].
    + intros v Hv. pose proof (assoc_in (q_vars c) v Hv) as K. destruct (assoc (q_vars c) v); [discriminate|contradiction].
    + rewrite Hx. destruct x; [intros H; inversion H; auto|discriminate].
  - match goal with |- context [all_vt ?f ?l] => destruct (all_vt f l) as [[|]|e'] eqn:V end.
    + intros H; inversion H; auto.
    + discriminate.
    + intros H; inversion H; subst. right. split; [eapply all_vt_raise; exact V|reflexivity].
Qed.

(* totality: the repaired is_equal never raises, whatever it is handed *)
Theorem is_equal_total a o : exists b, is_equal_code a o = Val b.
Proof.
  unfold is_equal_code, is_equal_with. destruct o as [q|b|c|].
  - eauto.
  - apply handle_total. intros e H. apply body_raise in H. destruct H as [-> C].
    unfold catches_of. rewrite C. reflexivity.
  - apply handle_total. intros e H. apply body_vs_cqm_raise in H. unfold catches_of.
    destruct H as [->|[-> C]]; [destruct (e_cls a); reflexivity|rewrite C; reflexivity].
  - apply handle_total. intros e H. inversion H; subst. unfold catches_of. destruct (e_cls a); reflexivity.
Qed.

(* the un-repaired QuadraticModel.is_equal (except AttributeError only) raises for a model
   over a different label *)
Definition qm1 : emdl := mkE EQ [(0%nat, BINARY, 1)] 0 [].
Definition qm2 : emdl := mkE EQ [(1%nat, BINARY, 1)] 0 [].

Theorem qm_is_equal_orig_refuted :
  exists a b, is_equal_with catches_orig a (OModel b) = Raise ValErr.
Proof. exists qm1, qm2. vm_compute. reflexivity. Qed.

Lemma mem_in l ls : mem l ls = true <-> In l ls.
Proof.
  unfold mem. rewrite existsb_exists. split.
  - intros [x [Hx E]]. apply Nat.eqb_eq in E. subst. exact Hx.
  - intros H. exists l. split; [exact H|apply Nat.eqb_refl].
Qed.

Lemma all_out_vals l : (forall o, In o l -> exists b, o = Val b) -> exists b, all_out l = Val b.
Proof.
  induction l as [|o l IH]; intros H; cbn [all_out]; [eauto|].
  destruct (H o (or_introl eq_refl)) as [b ->]. destruct b; cbn [and_out]; [|eauto].
  apply IH. intros o' Ho'. apply H. right. exact Ho'.
Qed.

Lemma constraint_eq_total c0 c1 : exists b, constraint_eq c0 c1 = Val b.
Proof.
  unfold constraint_eq. destruct (sense_eqb (k_sense c0) (k_sense c1)); cbn [and_out]; [|eauto].
  destruct (is_equal_total (k_lhs c0) (OModel (k_lhs c1))) as [b ->]. destruct b; cbn [and_out]; eauto.
Qed.

(* between two CQMs it is total: the constraint lookup cannot fail after the key test *)
Theorem cqm_is_equal_total_on_cqm c d : exists b, cqm_is_equal_code c (OCqm d) = Val b.
Proof.
  unfold cqm_is_equal_code.
  destruct (is_equal_total (q_obj c) (OModel (q_obj d))) as [b ->]. destruct b; cbn [and_out]; [|eauto].
  destruct (keys_eqb (q_cons c) (q_cons d)) eqn:K; cbn [and_out]; [|eauto].
  apply all_out_vals. intros o Ho. apply in_map_iff in Ho. destruct Ho as [[l k] [<- Hin]]. cbn [fst snd].
  unfold keys_eqb in K. apply andb_prop in K. destruct K as [K _].
  rewrite forallb_forall in K. specialize (K l). rewrite mem_in in K.
  assert (Hl : In l (map fst (q_cons c))) by (apply in_map_iff; exists (l, k); auto).
  specialize (K Hl). pose proof (assoc_in (q_cons d) l K) as A.
  destruct (assoc (q_cons d) l) as [c1|]; [apply constraint_eq_total|contradiction].
Qed.

(* ConstrainedQuadraticModel.is_equal is total over everything it may be handed *)
Theorem cqm_is_equal_total c o : exists b, cqm_is_equal_code c o = Val b.
Proof.
  destruct o as [q|m|d|]; try (exists false; reflexivity). apply cqm_is_equal_total_on_cqm.
Qed.

(* ... and False against anything that is not a CQM *)
Theorem cqm_is_equal_non_cqm c o : (forall d, o <> OCqm d) -> cqm_is_equal_code c o = Val false.
Proof. intros H. destruct o as [q|m|d|]; try reflexivity. exfalso. apply (H d). reflexivity. Qed.

(* ---------- is_equal = true  <->  same_model ---------- *)
Lemma Qc_eqb_true_iff x y : Qc_eqb x y = true <-> x = y.
Proof.
  unfold Qc_eqb. split.
  - intros H. apply Qc_is_canon. apply Qeq_bool_iff. exact H.
  - intros ->. apply Qeq_bool_iff. reflexivity.
Qed.

Lemma assoc_some_in {A} (l : list (label * A)) k x : assoc l k = Some x -> In k (map fst l).
Proof.
  intros H. destruct (in_dec Nat.eq_dec k (map fst l)) as [Hin|Hn]; [exact Hin|].
  rewrite (assoc_notin l k Hn) in H. discriminate.
Qed.

Lemma incl_d_iff (a b : list (label * Qc)) :
  incl_d Qc_eqb a b = true <-> forall k, In k (map fst a) -> assoc a k = assoc b k.
Proof.
  unfold incl_d. rewrite forallb_forall. split.
  - intros H k Hk. specialize (H k Hk). destruct (assoc a k) as [x|]; [|discriminate].
    destruct (assoc b k) as [y|]; [|discriminate]. apply Qc_eqb_true_iff in H. congruence.
  - intros H k Hk. rewrite <- (H k Hk). pose proof (assoc_in a k Hk) as K.
    destruct (assoc a k) as [x|]; [apply Qc_eqb_true_iff; reflexivity|contradiction].
Qed.

Lemma dict_eqb_iff (a b : list (label * Qc)) :
  dict_eqb Qc_eqb a b = true <-> forall k, assoc a k = assoc b k.
Proof.
  unfold dict_eqb. rewrite andb_true_iff, !incl_d_iff. split.
  - intros [H1 H2] k. destruct (assoc a k) as [x|] eqn:Ea.
    + rewrite <- (H1 k (assoc_some_in _ _ _ Ea)). symmetry. exact Ea.
    + destruct (assoc b k) as [y|] eqn:Eb; [|reflexivity].
      rewrite (H2 k (assoc_some_in _ _ _ Eb)) in Eb. congruence.
  - intros H. split; intros k _; [apply H|symmetry; apply H].
Qed.

Lemma all_vt_true f vs : all_vt f vs = Val true <-> forall v, In v vs -> f v = Some true.
Proof.
  induction vs as [|v vs IH]; cbn [all_vt In]; [split; [tauto|reflexivity]|].
  destruct (f v) as [[|]|] eqn:E.
  - rewrite IH. split; [intros H w [<-|Hw]; auto|intros H w Hw; apply H; auto].
  - split; [discriminate|]. intros H. specialize (H v (or_introl eq_refl)). congruence.
  - split; [discriminate|]. intros H. specialize (H v (or_introl eq_refl)). congruence.
Qed.

Lemma vartype_eqb_true_iff x y : vartype_eqb x y = true <-> x = y.
Proof. destruct x, y; cbn; split; congruence. Qed.

Lemma ovt_eqb_some x t : ovt_eqb x (Some t) = true <-> x = Some t.
Proof.
  unfold ovt_eqb, option_eqb. destruct x as [y|]; [|split; discriminate].
  rewrite vartype_eqb_true_iff. split; congruence.
Qed.

Lemma in_labels_lin m l : In l (labels m) <-> lin_of m l <> None.
Proof.
  unfold lin_of. rewrite labels_lin. split; [apply assoc_in|].
  intros H. destruct (assoc (lin_items m) l) eqn:E; [eapply assoc_some_in; exact E|contradiction].
Qed.

Lemma same_labels a b : (forall l, lin_of a l = lin_of b l) -> forall l, In l (labels a) <-> In l (labels b).
Proof. intros H l. rewrite !in_labels_lin, H. tauto. Qed.

Lemma qm_vt_notin m l : ~ In l (labels m) -> qm_vt m l = None.
Proof. rewrite labels_vt. apply assoc_notin. Qed.

Lemma vt_of_bqm m vt l : e_cls m = EB vt -> vt_of m l = if mem l (labels m) then Some vt else None.
Proof. unfold vt_of. intros ->. reflexivity. Qed.

Lemma mem_false l ls : mem l ls = false <-> ~ In l ls.
Proof. rewrite <- mem_in. destruct (mem l ls); split; congruence. Qed.

(* under equal label sets the vartype test of the code is extensional equality of the
   label -> vartype maps *)
Lemma vartype_eq_iff a b :
  (forall l, In l (labels a) <-> In l (labels b)) ->
  (vartype_eq a b = Val true <-> forall l, vt_of a l = vt_of b l).
Proof.
  intros L. unfold vartype_eq, ask_vt, vt_of.
  destruct (e_cls a) as [vt|] eqn:Ca; destruct (e_cls b) as [vt'|] eqn:Cb; rewrite all_vt_true.
  - split.
    + intros H l. destruct (mem l (labels a)) eqn:Ma.
      * apply mem_in in Ma. pose proof (proj1 (L l) Ma) as Mb. specialize (H l Mb).
        apply mem_in in Mb. rewrite Mb. inversion H as [H']. apply vartype_eqb_true_iff in H'. congruence.
      * apply mem_false in Ma. assert (Mb : ~ In l (labels b)) by (rewrite <- L; exact Ma).
        apply mem_false in Mb. rewrite Mb. reflexivity.
    + intros H v Hv. specialize (H v). pose proof (proj2 (L v) Hv) as Ha.
      apply mem_in in Hv, Ha. rewrite Hv, Ha in H. f_equal. apply vartype_eqb_true_iff. congruence.
  - split.
    + intros H l. destruct (mem l (labels a)) eqn:Ma.
      * apply mem_in in Ma. pose proof (proj1 (L l) Ma) as Mb. specialize (H l Mb).
        destruct (qm_vt b l) as [t|]; [|discriminate]. inversion H as [H']. apply vartype_eqb_true_iff in H'. congruence.
      * apply mem_false in Ma. assert (Mb : ~ In l (labels b)) by (rewrite <- L; exact Ma).
        rewrite (qm_vt_notin b l Mb). reflexivity.
    + intros H v Hv. specialize (H v). pose proof (proj2 (L v) Hv) as Ha. apply mem_in in Ha. rewrite Ha in H.
      rewrite <- H. f_equal. apply vartype_eqb_true_iff. reflexivity.
  - split.
    + intros H l. destruct (mem l (labels b)) eqn:Mb.
      * apply mem_in in Mb. pose proof (proj2 (L l) Mb) as Ma. specialize (H l Ma).
        inversion H as [H']. apply ovt_eqb_some in H'. exact H'.
      * apply mem_false in Mb. assert (Ma : ~ In l (labels a)) by (rewrite L; exact Mb).
        apply qm_vt_notin. exact Ma.
    + intros H v Hv. specialize (H v). pose proof (proj1 (L v) Hv) as Hb. apply mem_in in Hb. rewrite Hb in H.
      f_equal. apply ovt_eqb_some. exact H.
  - split.
    + intros H l. destruct (in_dec Nat.eq_dec l (labels a)) as [Ma|Ma].
      * specialize (H l Ma). destruct (qm_vt b l) as [t|]; [|discriminate].
        inversion H as [H']. apply ovt_eqb_some in H'. exact H'.
      * assert (Mb : ~ In l (labels b)) by (rewrite <- L; exact Ma).
        rewrite (qm_vt_notin a l Ma), (qm_vt_notin b l Mb). reflexivity.
    + intros H v Hv. rewrite <- (H v). pose proof (qm_vt_in a v Hv) as K.
      destruct (qm_vt a v) as [t|]; [|contradiction]. f_equal. apply ovt_eqb_some. reflexivity.
Qed.

Lemma adj_eqb_iff a b :
  (forall l, In l (labels a) <-> In l (labels b)) ->
  (adj_eqb a b = true <-> forall v u, In v (labels a) -> adj_of a v u = adj_of b v u).
Proof.
  intros L. unfold adj_eqb, adj_of.
  assert (I1 : forallb (fun v => mem v (labels b)) (labels a) = true).
  { apply forallb_forall. intros v Hv. apply mem_in. apply L. exact Hv. }
  assert (I2 : forallb (fun v => mem v (labels a)) (labels b) = true).
  { apply forallb_forall. intros v Hv. apply mem_in. apply L. exact Hv. }
  rewrite I1, I2. cbn [andb]. rewrite forallb_forall. split.
  - intros H v u Hv. specialize (H v Hv). rewrite dict_eqb_iff in H. apply H.
  - intros H v Hv. apply dict_eqb_iff. intros u. apply H. exact Hv.
Qed.

Lemma shape_eqb_iff a b :
  shape_eqb a b = true <-> length (e_vars a) = length (e_vars b) /\ length (e_quad a) = length (e_quad b).
Proof. unfold shape_eqb. rewrite andb_true_iff, !Nat.eqb_eq. tauto. Qed.

Lemma handle_true catches o : handle catches o = Val true <-> o = Val true.
Proof.
  destruct o as [b|e]; cbn [handle]; [tauto|].
  destruct (existsb (exn_eqb e) catches); split; discriminate.
Qed.

Theorem is_equal_iff_same a b : is_equal_code a (OModel b) = Val true <-> same_model a b.
Proof.
  unfold is_equal_code, is_equal_with. rewrite handle_true. unfold body, same_model. split.
  - destruct (vartype_eq a b) as [[|]|e] eqn:V; try discriminate.
    intros H. inversion H as [H']. clear H. rewrite !andb_true_iff in H'.
    destruct H' as [[[S O] Ld] A]. apply shape_eqb_iff in S. apply Qc_eqb_true_iff in O.
    rewrite dict_eqb_iff in Ld. pose proof (same_labels a b Ld) as L.
    split; [apply (vartype_eq_iff a b L); exact V|].
    split; [apply S|]. split; [apply S|]. split; [exact O|]. split; [exact Ld|].
    apply (adj_eqb_iff a b L). exact A.
  - intros [Hv [S1 [S2 [O [Ld A]]]]]. pose proof (same_labels a b Ld) as L.
    rewrite (proj2 (vartype_eq_iff a b L) Hv). f_equal. rewrite !andb_true_iff.
    split; [split; [split|]|].
    + apply shape_eqb_iff. auto.
    + apply Qc_eqb_true_iff. exact O.
    + apply dict_eqb_iff. exact Ld.
    + apply (adj_eqb_iff a b L). exact A.
Qed.

Lemma same_model_refl a : same_model a a.
Proof. repeat split. Qed.

Lemma same_model_sym a b : same_model a b -> same_model b a.
Proof.
  intros [Hv [S1 [S2 [O [Ld A]]]]]. repeat split; auto.
  intros v u Hv'. symmetry. apply A. apply (same_labels a b Ld). exact Hv'.
Qed.

Theorem is_equal_refl a : is_equal_code a (OModel a) = Val true.
Proof. apply is_equal_iff_same. apply same_model_refl. Qed.

(* symmetric across classes: both directions return the same boolean *)
Theorem is_equal_sym a b : is_equal_code a (OModel b) = is_equal_code b (OModel a).
Proof.
  destruct (is_equal_total a (OModel b)) as [x Hx]. destruct (is_equal_total b (OModel a)) as [y Hy].
  rewrite Hx, Hy. destruct x, y; try reflexivity.
  - apply is_equal_iff_same, same_model_sym, is_equal_iff_same in Hx. congruence.
  - apply is_equal_iff_same, same_model_sym, is_equal_iff_same in Hy. congruence.
Qed.

(* any single difference (a vartype or label, the offset, a linear bias, a quadratic bias or
   the presence of an interaction) makes it False - never an exception *)
Theorem is_equal_sensitive a b :
  (exists l, vt_of a l <> vt_of b l) \/ e_off a <> e_off b \/
  (exists l, lin_of a l <> lin_of b l) \/
  (exists v u, In v (labels a) /\ adj_of a v u <> adj_of b v u) ->
  is_equal_code a (OModel b) = Val false.
Proof.
  intros H. destruct (is_equal_total a (OModel b)) as [x Hx]. rewrite Hx. destruct x; [|reflexivity].
  apply is_equal_iff_same in Hx. destruct Hx as [Hv [_ [_ [O [Ld A]]]]]. exfalso.
  destruct H as [[l H]|[H|[[l H]|[v [u [Hin H]]]]]]; [apply H, Hv|apply H, O|apply H, Ld|apply H, A, Hin].
Qed.

(* a model equals a number iff it has no variables and that offset *)
Theorem is_equal_number a q :
  is_equal_code a (ONumber q) = Val true <-> e_vars a = [] /\ e_off a = q.
Proof.
  unfold is_equal_code, is_equal_with. split.
  - intros H. inversion H as [H']. apply andb_prop in H'. destruct H' as [E O].
    apply Qc_eqb_true_iff in O. destruct (e_vars a); [auto|discriminate].
  - intros [-> ->]. f_equal. cbn [andb]. apply Qc_eqb_true_iff. reflexivity.
Qed.

(* ---------- constrained models: order-independent, sensitive to sense / rhs / label ---------- *)
Definition same_cqm (c d : cqm) : Prop :=
  same_model (q_obj c) (q_obj d) /\
  (forall l, In l (map fst (q_cons c)) <-> In l (map fst (q_cons d))) /\
  (forall l c0, In (l, c0) (q_cons c) ->
     exists c1, assoc (q_cons d) l = Some c1 /\ k_sense c0 = k_sense c1 /\
                same_model (k_lhs c0) (k_lhs c1) /\ k_rhs c0 = k_rhs c1).

Lemma and_out_true x y : and_out x y = Val true <-> x = Val true /\ y = Val true.
Proof. destruct x as [[|]|e]; cbn [and_out]; split; try tauto; try (intros [H _]; discriminate H); discriminate. Qed.

Lemma all_out_true l : all_out l = Val true <-> forall o, In o l -> o = Val true.
Proof.
  induction l as [|x l IH]; cbn [all_out In]; [split; [tauto|reflexivity]|].
  rewrite and_out_true, IH. split; [intros [H1 H2] o [<-|Ho]; auto|intros H; split; auto].
Qed.

Lemma sense_eqb_true_iff x y : sense_eqb x y = true <-> x = y.
Proof. destruct x, y; cbn; split; congruence. Qed.

Lemma constraint_eq_true c0 c1 :
  constraint_eq c0 c1 = Val true <->
  k_sense c0 = k_sense c1 /\ same_model (k_lhs c0) (k_lhs c1) /\ k_rhs c0 = k_rhs c1.
Proof.
  unfold constraint_eq. rewrite !and_out_true, is_equal_iff_same. split.
  - intros [H1 [H2 H3]]. inversion H1 as [H1']. inversion H3 as [H3'].
    apply sense_eqb_true_iff in H1'. apply Qc_eqb_true_iff in H3'. auto.
  - intros [H1 [H2 H3]]. split; [f_equal; apply sense_eqb_true_iff; exact H1|].
    split; [exact H2|f_equal; apply Qc_eqb_true_iff; exact H3].
Qed.

Lemma keys_eqb_iff a b :
  keys_eqb a b = true <-> forall l, In l (map fst a) <-> In l (map fst b).
Proof.
  unfold keys_eqb. rewrite andb_true_iff, !forallb_forall. split.
  - intros [H1 H2] l. split; intros H; [apply mem_in, H1, H|apply mem_in, H2, H].
  - intros H. split; intros l Hl; apply mem_in, H, Hl.
Qed.

Theorem cqm_is_equal_iff_same c d : cqm_is_equal_code c (OCqm d) = Val true <-> same_cqm c d.
Proof.
  unfold cqm_is_equal_code, same_cqm. rewrite !and_out_true, is_equal_iff_same, all_out_true. split.
  - intros [H1 [H2 H3]]. inversion H2 as [H2']. pose proof (proj1 (keys_eqb_iff _ _) H2') as H2''. clear H2'. rename H2'' into H2'.
    split; [exact H1|]. split; [exact H2'|]. intros l c0 Hin.
    specialize (H3 _ (in_map _ _ _ Hin)). cbn [fst snd] in H3.
    destruct (assoc (q_cons d) l) as [c1|]; [|discriminate]. exists c1. split; [reflexivity|].
    apply constraint_eq_true. exact H3.
  - intros [H1 [H2 H3]]. split; [exact H1|]. split; [f_equal; apply (proj2 (keys_eqb_iff _ _)); exact H2|].
    intros o Ho. apply in_map_iff in Ho. destruct Ho as [[l c0] [<- Hin]]. cbn [fst snd].
    destruct (H3 l c0 Hin) as [c1 [E K]]. rewrite E. apply constraint_eq_true. exact K.
Qed.

(* one changed sense or right-hand side of a (uniquely labelled) constraint makes it False *)
Theorem cqm_is_equal_sensitive c d l c0 c1 :
  In (l, c0) (q_cons c) -> assoc (q_cons d) l = Some c1 ->
  k_sense c0 <> k_sense c1 \/ k_rhs c0 <> k_rhs c1 \/ ~ same_model (k_lhs c0) (k_lhs c1) ->
  cqm_is_equal_code c (OCqm d) = Val false.
Proof.
  intros Hin E H. destruct (cqm_is_equal_total_on_cqm c d) as [x Hx]. rewrite Hx. destruct x; [|reflexivity].
  apply cqm_is_equal_iff_same in Hx. destruct Hx as [_ [_ K]]. destruct (K l c0 Hin) as [c1' [E' [A [B C]]]].
  rewrite E in E'. inversion E'; subst c1'. exfalso. destruct H as [H|[H|H]]; auto.
Qed.

(* a constraint label present on one side only makes it False *)
Theorem cqm_is_equal_label_sensitive c d l :
  In l (map fst (q_cons c)) -> ~ In l (map fst (q_cons d)) -> cqm_is_equal_code c (OCqm d) = Val false.
Proof.
  intros H1 H2. destruct (cqm_is_equal_total_on_cqm c d) as [x Hx]. rewrite Hx. destruct x; [|reflexivity].
  apply cqm_is_equal_iff_same in Hx. destruct Hx as [_ [K _]]. exfalso. apply H2, K, H1.
Qed.
