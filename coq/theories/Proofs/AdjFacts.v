(* Facts about the adjacency model (abc.h QuadraticModelBase): gathers
     AdjNb      one sorted neighbourhood, positional list editors
     AdjInv     Prop reading of inv_b and its preservation by every mutator
     AdjRW      read-after-write of the quadratic mutators
     AdjEnergy  energy_adj = energy of the abstraction (C01)
     AdjDense   energy as a dense double sum; energy of fix_variable / substitute_variable
     AdjCount   interaction counts
   and adds reachability: every model built from the empty one by any sequence
   of API calls satisfies the invariant. *)
From Coq Require Import List ZArith QArith Qcanon Bool Arith Lia Sorted.
From Dimod Require Import Base.Util Model.Poly Model.Adj.
From Dimod Require Export Proofs.AdjNb Proofs.AdjInv Proofs.AdjRW Proofs.AdjEnergy Proofs.AdjDense Proofs.AdjCount.
Import ListNotations.
Local Open Scope nat_scope.

Inductive cop :=
| CAddVar (t : vartype)
| CAddLin (v : nat) (b : Qc)
| CSetLin (v : nat) (b : Qc)
| CAddQuad (u v : nat) (b : Qc)
| CAddQuadBack (u v : nat) (b : Qc)
| CSetQuad (u v : nat) (b : Qc)
| CRemInt (u v : nat)
| CRemVar (v : nat)
| CResize (t : vartype) (k : nat)
| CScale (k : Qc)
| CFix (v : nat) (a : Qc)
| CSubst (v : nat) (k c : Qc)
| CAddOff (b : Qc)
| CSetOff (b : Qc).

(* executable form of add_quadratic_back's ordering promise *)
Definition back_okb (n : nbh) (v : nat) : bool :=
  match rev n with [] => true | e :: _ => fst e <? v end.

Lemma back_okb_ok n v : back_okb n v = true -> back_ok n v.
Proof.
  unfold back_okb, back_ok. destruct (rev n) as [|e r]; [trivial|]. apply Nat.ltb_lt.
Qed.

(* an API call with its documented precondition; a call outside the
   precondition (index out of range, domain_error of set_quadratic, broken
   promise of add_quadratic_back) leaves the model as it was *)
Definition cstep (m : qm) (o : cop) : qm :=
  match o with
  | CAddVar t => add_variable t m
  | CAddLin v b => if v <? nvars m then add_linear v b m else m
  | CSetLin v b => if v <? nvars m then set_linear v b m else m
  | CAddQuad u v b => if (u <? nvars m) && (v <? nvars m) then add_quadratic u v b m else m
  | CAddQuadBack u v b =>
      if (u <? nvars m) && (v <? nvars m) && back_okb (nb m u) v && back_okb (nb m v) u
      then add_quadratic_back u v b m else m
  | CSetQuad u v b =>
      if (u <? nvars m) && (v <? nvars m)
      then match set_quadratic u v b m with Some m' => m' | None => m end
      else m
  | CRemInt u v => if (u <? nvars m) && (v <? nvars m) then fst (remove_interaction u v m) else m
  | CRemVar v => if v <? nvars m then remove_variable v m else m
  | CResize t k => resize t k m
  | CScale k => Adj.scale k m
  | CFix v a => if v <? nvars m then fix_variable v a m else m
  | CSubst v k c => if v <? nvars m then substitute_variable v k c m else m
  | CAddOff b => Adj.add_offset b m
  | CSetOff b => set_offset b m
  end.

Lemma Inv_cstep m o : Inv m -> Inv (cstep m o).
Proof.
  intros HI. destruct o; cbn [cstep];
    repeat match goal with
           | |- context [if ?c then _ else _] => let E := fresh "E" in destruct c eqn:E; [|exact HI]
           end;
    repeat match goal with
           | H : _ && _ = true |- _ => apply andb_true_iff in H; destruct H
           end;
    repeat match goal with
           | H : (_ <? _) = true |- _ => apply Nat.ltb_lt in H
           end.
  - apply Inv_add_variable, HI.
  - apply Inv_add_linear, HI.
  - apply Inv_set_linear, HI.
  - apply Inv_add_quadratic; assumption.
  - apply Inv_add_quadratic_back; try assumption. split; apply back_okb_ok; assumption.
  - destruct (set_quadratic u v b m) as [m'|] eqn:Es; [|exact HI].
    eapply Inv_set_quadratic; [exact HI| | |exact Es]; assumption.
  - apply Inv_remove_interaction, HI.
  - apply Inv_remove_variable; assumption.
  - apply Inv_resize, HI.
  - apply Inv_scale, HI.
  - apply Inv_fix_variable; assumption.
  - apply Inv_substitute_variable; assumption.
  - apply Inv_add_offset, HI.
  - apply Inv_set_offset, HI.
Qed.

Lemma Inv_csteps ops m : Inv m -> Inv (fold_left cstep ops m).
Proof.
  revert m. induction ops as [|o ops IH]; intros m HI; [exact HI|].
  cbn [fold_left]. apply IH, Inv_cstep, HI.
Qed.

(* no operation is excluded *)
Theorem inv_reachable ops : Inv (fold_left cstep ops empty_qm).
Proof. apply Inv_csteps, Inv_empty. Qed.
