(* C17: multiplication circuit - energy 0 iff every gate is satisfied (all sizes, any wiring);
   a satisfying assignment is the forward simulation of its inputs (any topologically ordered
   wiring); arithmetic correctness by computation for widths 2..4 *)
From Coq Require Import List ZArith QArith Qcanon Bool Arith Lia.
From Dimod Require Import Base.Util Model.Poly Model.Comb Gen.Gen_Gates Model.Gates Model.MultCircuit
  Proofs.PolyFacts Proofs.CombGray Proofs.GatesFacts.
Import ListNotations.

(* ---------- part A: energy and satisfaction ---------- *)
Lemma inst_energy_facts (a : wassign) g :
  (inst_sat a g = true -> inst_energy a g = 0%Z) /\ (inst_sat a g = false -> (1 <= inst_energy a g)%Z).
Proof.
  destruct g as [x y o|x y s c|x y z s k]; cbn [inst_sat inst_energy].
  - apply and_gate_table_thm. reflexivity.
  - apply halfadder_table_thm. reflexivity.
  - apply fulladder_table_thm. reflexivity.
Qed.

Lemma inst_energy_nonneg (a : wassign) g : (0 <= inst_energy a g)%Z.
Proof.
  destruct (inst_energy_facts a g) as [H1 H2]. destruct (inst_sat a g).
  - rewrite H1 by reflexivity. lia.
  - specialize (H2 eq_refl). lia.
Qed.

Lemma circuit_energy_nonneg gs (a : wassign) : (0 <= circuit_energy gs a)%Z.
Proof.
  induction gs as [|g r IH]; cbn [circuit_energy fold_right]; [lia|].
  fold (circuit_energy r a). pose proof (inst_energy_nonneg a g). lia.
Qed.

Theorem circuit_energy_gap gs (a : wassign) :
  (0 <= circuit_energy gs a)%Z /\
  (circuit_energy gs a = 0%Z <-> all_sat gs a = true) /\
  (all_sat gs a = false -> (1 <= circuit_energy gs a)%Z).
Proof.
  split; [apply circuit_energy_nonneg|].
  induction gs as [|g r IH]; cbn [circuit_energy fold_right all_sat forallb].
  - split; [tauto|discriminate].
  - fold (circuit_energy r a). fold (all_sat r a).
    destruct IH as [IH1 IH2]. destruct (inst_energy_facts a g) as [H1 H2].
    pose proof (circuit_energy_nonneg r a) as Hr. pose proof (inst_energy_nonneg a g) as Hg.
    destruct (inst_sat a g) eqn:Es; cbn [andb].
    + rewrite (H1 eq_refl). split.
      * rewrite <- IH1. split; intros H; lia.
      * intros H. specialize (IH2 H). lia.
    + specialize (H2 eq_refl). split.
      * split; [intros H; lia|discriminate].
      * intros _. lia.
Qed.

(* ---------- part B: a satisfying assignment is the simulation of its inputs ---------- *)
Lemma wire_eqb_eq u v : wire_eqb u v = true <-> u = v.
Proof.
  destruct u, v; cbn [wire_eqb]; try (split; [discriminate|intros H; discriminate H]);
    rewrite ?andb_true_iff, ?Nat.eqb_eq; split; intros H;
    try (inversion H; subst; tauto); try (destruct H; subst; reflexivity); try (subst; reflexivity).
Qed.

Lemma wire_eqb_refl u : wire_eqb u u = true.
Proof. apply wire_eqb_eq. reflexivity. Qed.

Lemma wmem_In w l : wmem w l = true <-> In w l.
Proof.
  unfold wmem. rewrite existsb_exists. split.
  - intros [v [Hin He]]. apply wire_eqb_eq in He. subst. exact Hin.
  - intros Hin. exists w. split; [exact Hin|apply wire_eqb_refl].
Qed.

Lemma wupd_same (a : wassign) w b : wupd a w b w = b.
Proof. unfold wupd. rewrite wire_eqb_refl. reflexivity. Qed.

Lemma wupd_cases (env a : wassign) w b v :
  a w = b -> env v = a v \/ v = w -> wupd env w b v = a v.
Proof.
  intros Hb H. unfold wupd. destruct (wire_eqb v w) eqn:E.
  - apply wire_eqb_eq in E. rewrite E. symmetry. exact Hb.
  - destruct H as [H|H]; [exact H|]. subst. rewrite wire_eqb_refl in E. discriminate E.
Qed.

Lemma fulladder_ok_spec a b c s k :
  fulladder_ok [a; b; c; s; k] = true ->
  s = Nat.odd (b2n a + b2n b + b2n c) /\ k = (2 <=? b2n a + b2n b + b2n c)%nat.
Proof. destruct a, b, c, s, k; cbn; intros H; try discriminate H; split; reflexivity. Qed.

Lemma sim_step_agree (env a : wassign) known g :
  inst_sat a g = true ->
  (forall w, In w known -> env w = a w) ->
  (forall w, In w (inst_inputs g) -> In w known) ->
  forall w, In w (inst_outputs g ++ known) -> sim_step env g w = a w.
Proof.
  intros Hs Hk Hin w Hw.
  destruct g as [x y o|x y s c|x y z s k]; cbn [inst_sat inst_inputs inst_outputs sim_step] in *.
  - assert (Ex : env x = a x) by (apply Hk, Hin; left; reflexivity).
    assert (Ey : env y = a y) by (apply Hk, Hin; right; left; reflexivity).
    unfold and_ok in Hs. apply eqb_prop in Hs. rewrite Ex, Ey.
    apply wupd_cases; [exact Hs|]. destruct Hw as [<-|Hw]; [right; reflexivity|left; apply Hk; exact Hw].
  - assert (Ex : env x = a x) by (apply Hk, Hin; left; reflexivity).
    assert (Ey : env y = a y) by (apply Hk, Hin; right; left; reflexivity).
    unfold halfadder_ok in Hs. apply andb_true_iff in Hs. destruct Hs as [H1 H2].
    apply eqb_prop in H1. apply eqb_prop in H2. rewrite Ex, Ey.
    apply wupd_cases; [exact H2|].
    destruct Hw as [<-|[<-|Hw]].
    + left. apply wupd_cases; [exact H1|right; reflexivity].
    + right. reflexivity.
    + left. apply wupd_cases; [exact H1|left; apply Hk; exact Hw].
  - assert (Ex : env x = a x) by (apply Hk, Hin; left; reflexivity).
    assert (Ey : env y = a y) by (apply Hk, Hin; right; left; reflexivity).
    assert (Ez : env z = a z) by (apply Hk, Hin; right; right; left; reflexivity).
    apply fulladder_ok_spec in Hs. destruct Hs as [H1 H2]. rewrite Ex, Ey, Ez.
    apply wupd_cases; [exact H2|].
    destruct Hw as [<-|[<-|Hw]].
    + left. apply wupd_cases; [exact H1|right; reflexivity].
    + right. reflexivity.
    + left. apply wupd_cases; [exact H1|left; apply Hk; exact Hw].
Qed.

Theorem sim_agree gs : forall (env a : wassign) known,
  all_sat gs a = true -> topo_ok known gs = true ->
  (forall w, In w known -> env w = a w) ->
  forall w, In w (flat_map inst_outputs gs ++ known) -> sim gs env w = a w.
Proof.
  induction gs as [|g r IH]; intros env a known Hs Ht Hk w Hw.
  - cbn in Hw |- *. apply Hk. exact Hw.
  - cbn [all_sat forallb] in Hs. apply andb_true_iff in Hs. destruct Hs as [Hg Hr].
    cbn [topo_ok] in Ht. apply andb_true_iff in Ht. destruct Ht as [Hi Ht].
    rewrite forallb_forall in Hi.
    unfold sim. cbn [fold_left]. fold (sim r (sim_step env g)).
    apply (IH (sim_step env g) a (inst_outputs g ++ known) Hr Ht).
    + apply (sim_step_agree env a known g Hg Hk). intros v Hv. apply wmem_In. apply Hi. exact Hv.
    + cbn [flat_map] in Hw. rewrite <- app_assoc in Hw. apply in_app_or in Hw.
      apply in_or_app. destruct Hw as [Hw|Hw].
      * right. apply in_or_app. left. exact Hw.
      * apply in_app_or in Hw. destruct Hw as [Hw|Hw]; [left; exact Hw|right; apply in_or_app; right; exact Hw].
Qed.

(* ---------- part C: arithmetic, for any size whose computed check succeeds ---------- *)
Lemma nth_map_seq (f : nat -> bool) n i : (i < n)%nat -> nth i (map f (seq 0 n)) false = f i.
Proof.
  intros H. rewrite (nth_indep _ false (f 0%nat)) by (rewrite map_length, seq_length; exact H).
  rewrite map_nth, seq_nth by exact H. reflexivity.
Qed.

Theorem mult_arith n m :
  mult_ok_size n m = true ->
  forall a : wassign, all_sat (circuit n m) a = true ->
    bits_val (prod_bits n m a) = (bits_val (a_bits n a) * bits_val (b_bits m a))%Z.
Proof.
  unfold mult_ok_size. intros H a Hs.
  apply andb_true_iff in H. destruct H as [H Hall]. apply andb_true_iff in H. destruct H as [Ht Hp].
  rewrite forallb_forall in Hall, Hp.
  set (ab := a_bits n a ++ b_bits m a).
  assert (Hlen : length ab = (n + m)%nat).
  { unfold ab, a_bits, b_bits. rewrite app_length, !map_length, !seq_length. reflexivity. }
  assert (Hla : length (a_bits n a) = n) by (unfold a_bits; rewrite map_length, seq_length; reflexivity).
  specialize (Hall ab (proj2 (all_bitvectors_In (n + m) ab) Hlen)). cbn beta zeta in Hall.
  assert (Ef : firstn n ab = a_bits n a).
  { unfold ab. rewrite <- Hla at 1. rewrite firstn_app, Nat.sub_diag, firstn_all. cbn [firstn]. apply app_nil_r. }
  assert (Esk : skipn n ab = b_bits m a).
  { unfold ab. rewrite <- Hla at 1. rewrite skipn_app, Nat.sub_diag, skipn_all. reflexivity. }
  rewrite Ef, Esk in Hall. apply Z.eqb_eq in Hall. rewrite <- Hall. f_equal.
  unfold prod_bits. apply map_ext_in. intros k Hk. symmetry.
  apply (sim_agree (circuit n m) _ a (inputs_of n m) Hs Ht).
  - intros w Hw. unfold inputs_of in Hw. apply in_app_or in Hw. destruct Hw as [Hw|Hw];
      apply in_map_iff in Hw; destruct Hw as [i [<- Hi]]; apply in_seq in Hi; cbn [env_of].
    + unfold a_bits. apply nth_map_seq. lia.
    + unfold b_bits. apply nth_map_seq. lia.
  - apply in_or_app. left. apply wmem_In. apply Hp. exact Hk.
Qed.

Lemma bits_eqb_eq l1 l2 : bits_eqb l1 l2 = true -> l1 = l2.
Proof.
  revert l2. induction l1 as [|x xs IH]; intros [|y ys]; cbn; intros H; try discriminate H; [reflexivity|].
  apply andb_true_iff in H. destruct H as [H1 H2]. apply eqb_prop in H1. subst. f_equal. apply IH. exact H2.
Qed.

Theorem mult_attained n m :
  mult_attained_size n m = true ->
  forall abits bbits, length abits = n -> length bbits = m ->
    exists a : wassign, a_bits n a = abits /\ b_bits m a = bbits /\ circuit_energy (circuit n m) a = 0%Z.
Proof.
  unfold mult_attained_size. intros H abits bbits Ha Hb. rewrite forallb_forall in H.
  assert (Hlen : length (abits ++ bbits) = (n + m)%nat) by (rewrite app_length; lia).
  specialize (H _ (proj2 (all_bitvectors_In (n + m) _) Hlen)). cbn beta in H.
  assert (Ef : firstn n (abits ++ bbits) = abits).
  { rewrite <- Ha at 1. rewrite firstn_app, Nat.sub_diag, firstn_all. cbn [firstn]. apply app_nil_r. }
  assert (Esk : skipn n (abits ++ bbits) = bbits).
  { rewrite <- Ha at 1. rewrite skipn_app, Nat.sub_diag, skipn_all. reflexivity. }
  rewrite Ef, Esk in H.
  apply andb_true_iff in H. destruct H as [H Eb]. apply andb_true_iff in H. destruct H as [H Ea].
  exists (sim (circuit n m) (env_of abits bbits)). split; [|split].
  - apply bits_eqb_eq. exact Ea.
  - apply bits_eqb_eq. exact Eb.
  - apply (circuit_energy_gap (circuit n m)). exact H.
Qed.

(* the generator as it is, with a 1-bit second argument: an unconstrained carry gives a
   zero-energy assignment whose product bits are not a*b (open finding of C17) *)
Definition witness_3x1 : wassign :=
  fun w => match w with WCarry 1 0 => true | WP 2 => true | _ => false end.

Theorem multiplication_circuit_one_bit_refuted :
  circuit_energy (circuit 3 1) witness_3x1 = 0%Z /\
  bits_val (a_bits 3 witness_3x1) = 0%Z /\ bits_val (b_bits 1 witness_3x1) = 0%Z /\
  bits_val (prod_bits 3 1 witness_3x1) = 4%Z.
Proof. vm_compute. repeat split; reflexivity. Qed.

(* ---------- the BQM the generator returns: sum of the gate polynomials ---------- *)
Open Scope Qc_scope.

Lemma energy_gate_poly_ext lin quad s (s1 s2 : sample) :
  (forall t, In t lin -> s1 (fst t) = s2 (fst t)) ->
  (forall t, In t quad -> s1 (fst (fst t)) = s2 (fst (fst t)) /\ s1 (snd (fst t)) = s2 (snd (fst t))) ->
  energy (gate_poly lin quad s) s1 = energy (gate_poly lin quad s) s2.
Proof.
  intros Hl Hq. unfold energy, gate_poly. cbn [p_off p_lin p_quad]. f_equal; [f_equal|].
  - unfold lin_energy. rewrite !map_map. f_equal. apply map_ext_in. intros t Ht.
    unfold lterm_val. cbn [fst snd]. rewrite (Hl t Ht). reflexivity.
  - unfold quad_energy. rewrite !map_map. f_equal. apply map_ext_in. intros t Ht.
    unfold qterm_val. cbn [fst snd]. destruct (Hq t Ht) as [-> ->]. reflexivity.
Qed.

Definition positions_ok (n : nat) (lin : list (nat * Z)) (quad : list (nat * nat * Z)) : bool :=
  forallb (fun t => (fst t <? n)%nat) lin
  && forallb (fun t => (fst (fst t) <? n)%nat && (snd (fst t) <? n)%nat) quad.

Lemma gate_instance_energy lin quad (idx : wire -> nat) (ws : list wire) (a : wassign) (smp : sample) :
  positions_ok (length ws) lin quad = true ->
  (forall w, smp (idx w) = b2qc (a w)) ->
  energy (relabel (fun p => nth p (map idx ws) 0%nat) (gate_poly lin quad 1)) smp
  = z2q (gate_energy lin quad (map a ws)).
Proof.
  intros Hp Hs. rewrite energy_relabel.
  assert (Hpos : forall p, (p < length ws)%nat ->
            smp (nth p (map idx ws) 0%nat) = sample_of_bits (map a ws) p).
  { intros p Hlt. unfold sample_of_bits.
    destruct ws as [|w0 ws']; [cbn in Hlt; lia|].
    rewrite (nth_indep (map idx (w0 :: ws')) 0%nat (idx w0)) by (rewrite map_length; exact Hlt).
    rewrite (nth_indep (map a (w0 :: ws')) false (a w0)) by (rewrite map_length; exact Hlt).
    rewrite !map_nth, Hs. reflexivity. }
  unfold positions_ok in Hp. apply andb_true_iff in Hp. destruct Hp as [Hl Hq].
  rewrite forallb_forall in Hl, Hq.
  rewrite (energy_gate_poly_ext lin quad 1 _ (sample_of_bits (map a ws))).
  - rewrite gate_poly_energy. ring.
  - intros t Ht. apply Hpos. apply Nat.ltb_lt. apply Hl. exact Ht.
  - intros t Ht. specialize (Hq t Ht). apply andb_true_iff in Hq. destruct Hq as [H1 H2].
    split; apply Hpos; apply Nat.ltb_lt; assumption.
Qed.

Lemma tables_positions_ok :
  positions_ok 3 and_gate_lin and_gate_quad = true /\
  positions_ok 4 halfadder_gate_lin halfadder_gate_quad = true /\
  positions_ok 5 fulladder_gate_lin fulladder_gate_quad = true.
Proof. vm_compute. repeat split; reflexivity. Qed.

(* at every 0/1 assignment of the (numbered) wires the BQM's energy is the sum of the gate energies *)
Theorem circuit_poly_energy (idx : wire -> nat) gs (a : wassign) (smp : sample) :
  (forall w, smp (idx w) = b2qc (a w)) ->
  energy (circuit_poly idx gs) smp = z2q (circuit_energy gs a).
Proof.
  intros Hs. unfold circuit_poly. rewrite energy_psum, map_map.
  destruct tables_positions_ok as [Ha [Hh Hf]].
  induction gs as [|g r IH]; cbn [map qsum circuit_energy fold_right]; [rewrite z2q_0; reflexivity|].
  fold (circuit_energy r a). rewrite IH, z2q_add. f_equal.
  destruct g as [x y o|x y s c|x y z s k]; cbn [inst_poly inst_energy].
  - apply (gate_instance_energy and_gate_lin and_gate_quad idx [x; y; o] a smp Ha Hs).
  - apply (gate_instance_energy halfadder_gate_lin halfadder_gate_quad idx [x; y; s; c] a smp Hh Hs).
  - apply (gate_instance_energy fulladder_gate_lin fulladder_gate_quad idx [x; y; z; s; k] a smp Hf Hs).
Qed.
