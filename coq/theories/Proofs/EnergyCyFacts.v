(* C01: the code-shaped evaluation loops of cyQMBase._energies / abc.h energy and of
   cyexpression._energies / Expression::energy compute the polynomial-level definition. *)
From Coq Require Import List ZArith QArith Qcanon Bool Arith Lia.
From Dimod Require Import Base.Util Model.Poly Model.Samples Model.EnergyCy
  Proofs.PolyFacts Proofs.SamplesFacts.
From Dimod Require Model.Adj Model.Expr Proofs.AdjRW Proofs.AdjEnergy Proofs.AdjDense.
Import ListNotations.
Open Scope Qc_scope.

(* ---------- the accumulator loop is the sum ---------- *)
Lemma walk_loop_sum val u n acc : walk_loop val u n acc = acc + Adj.walk_energy val u n.
Proof.
  revert acc. induction n as [|[w b] r IH]; intros acc; cbn [walk_loop Adj.walk_energy]; [ring|].
  destruct (Nat.leb_spec w u) as [L|L]; destruct (Nat.ltb_spec u w) as [L'|L']; try lia.
  - rewrite IH. ring.
  - ring.
Qed.

Lemma fold_loop_sum (g : nat -> Qc) (f : Qc -> nat -> Qc) l a :
  (forall acc u, f acc u = acc + g u) -> fold_left f l a = a + qsum (map g l).
Proof.
  intros H. revert a. induction l as [|x l IH]; intros a; cbn [fold_left map qsum]; [ring|].
  rewrite IH, H. ring.
Qed.

Theorem energy_loop_eq_adj m val : energy_loop m val = Adj.energy_adj m val.
Proof.
  unfold energy_loop, Adj.energy_adj.
  apply (fold_loop_sum (fun u => nth u (Adj.lin m) 0 * val u + Adj.walk_energy val u (Adj.nb m u))).
  intros acc u. rewrite walk_loop_sum. unfold Adj.linear. ring.
Qed.

(* the walk only reads the sample at indices below nvars *)
Lemma energy_adj_ext m s s' :
  Adj.Inv m -> (forall u, (u < Adj.nvars m)%nat -> s u = s' u) -> Adj.energy_adj m s = Adj.energy_adj m s'.
Proof.
  intros HI Hs. rewrite !(AdjDense.energy_dense m) by exact HI.
  apply AdjDense.dense_ext; auto.
Qed.

Theorem energy_loop_abs m val : Adj.Inv m -> energy_loop m val = energy (Adj.abs m) val.
Proof. intros HI. rewrite energy_loop_eq_adj. apply AdjEnergy.energy_adj_abs, HI. Qed.

(* ---------- labels.index ---------- *)
Lemma index_opt_spec v ls :
  index_opt v ls = if existsb (Nat.eqb v) ls then Some (idx_of v ls) else None.
Proof.
  induction ls as [|x r IH]; [reflexivity|]. cbn [index_opt existsb idx_of].
  rewrite (Nat.eqb_sym v x). destruct (x =? v)%nat; [reflexivity|]. cbn [orb]. rewrite IH.
  destruct (existsb (Nat.eqb v) r); reflexivity.
Qed.

Lemma index_all_spec vs ls :
  index_all vs ls = if covers ls vs then Some (map (fun v => idx_of v ls) vs) else None.
Proof.
  unfold covers. induction vs as [|v r IH]; [reflexivity|]. cbn [index_all forallb map].
  rewrite index_opt_spec. destruct (existsb (Nat.eqb v) ls); [|reflexivity]. cbn [andb].
  rewrite IH. destruct (forallb _ r); reflexivity.
Qed.

Lemma nth_map_d {A B} (f : A -> B) (l : list A) i d d' : (i < length l)%nat -> nth i (map f l) d' = f (nth i l d).
Proof.
  revert i. induction l as [|x l IH]; intros i H; cbn [length] in H; [lia|].
  destruct i as [|i]; cbn [map nth]; [reflexivity|]. apply IH. lia.
Qed.

Lemma nth_map_idx (f : nat -> nat) (l : list nat) i : (i < length l)%nat -> nth i (map f l) 0%nat = f (nth i l 0%nat).
Proof. apply nth_map_d. Qed.

(* ---------- (1) cyQMBase._energies ---------- *)
Theorem energies_cy_eq_spec m vars ls rows :
  Adj.Inv m -> length vars = Adj.nvars m ->
  energies_cy m vars ls rows = energies (qm_poly_labels m vars) vars ls rows.
Proof.
  intros HI Hlen. unfold energies_cy, energies. rewrite index_all_spec.
  destruct (covers ls vars); [|reflexivity]. f_equal. apply map_ext. intros row.
  unfold qm_poly_labels. rewrite energy_relabel, energy_loop_eq_adj.
  rewrite <- (AdjEnergy.energy_adj_abs m) by exact HI.
  apply energy_adj_ext; [exact HI|]. intros u Hu.
  rewrite nth_map_idx by lia. reflexivity.
Qed.

(* for any label list containing every model label (any order, extra labels allowed) the result
   is energy (abs m) at the row read through the labels *)
Corollary energies_cy_value m vars ls rows :
  Adj.Inv m -> length vars = Adj.nvars m -> (forall v, In v vars -> In v ls) ->
  energies_cy m vars ls rows =
  Some (map (fun row => energy (Adj.abs m) (fun i => row_value ls row (nth i vars 0%nat))) rows).
Proof.
  intros HI Hlen Hc. rewrite energies_cy_eq_spec by assumption. unfold energies.
  apply covers_spec in Hc. rewrite Hc. f_equal. apply map_ext. intros row.
  unfold qm_poly_labels. rewrite energy_relabel. reflexivity.
Qed.

Corollary energies_cy_rejects_iff m vars ls rows :
  Adj.Inv m -> length vars = Adj.nvars m ->
  (energies_cy m vars ls rows = None <-> exists v, In v vars /\ ~ In v ls).
Proof. intros HI Hlen. rewrite energies_cy_eq_spec by assumption. apply energies_rejects_iff. Qed.

(* the polynomial over labels mentions only the model's labels, so (C01_energy_depends_on_model_variables_only)
   extra columns and the column order are irrelevant *)
Lemma abs_mentions_below m : Adj.Inv m ->
  mentions_only (Adj.abs m) (seq 0 (Adj.nvars m)).
Proof.
  intros HI. split.
  - intros [v b] Ht. unfold Adj.abs in Ht. cbn [p_lin] in Ht. apply in_combine_l in Ht. exact Ht.
  - intros t Ht. unfold Adj.abs in Ht. cbn [p_quad] in Ht. apply in_flat_map in Ht.
    destruct Ht as [u [Hu Ht]]. unfold Adj.lower_terms in Ht. apply in_map_iff in Ht.
    destruct Ht as [[w b] [Et Hw]]. subst t. cbn [fst snd]. apply filter_In in Hw. destruct Hw as [Hw _].
    split; [exact Hu|]. apply in_seq. split; [lia|]. cbn [plus].
    apply (AdjNb.nb_get_In_2 w _ b (AdjRW.Inv_sorted m u HI)) in Hw.
    apply (AdjRW.Inv_bound m u w b HI Hw).
Qed.

Lemma relabel_mentions f p vars :
  mentions_only p vars -> mentions_only (relabel f p) (map f vars).
Proof.
  intros [HL HQ]. split.
  - intros t Ht. cbn [relabel p_lin] in Ht. apply in_map_iff in Ht. destruct Ht as [t0 [<- Ht0]]. cbn [fst].
    apply in_map, HL, Ht0.
  - intros t Ht. cbn [relabel p_quad] in Ht. apply in_map_iff in Ht. destruct Ht as [t0 [<- Ht0]]. cbn [fst snd].
    destruct (HQ _ Ht0). split; apply in_map; assumption.
Qed.

Lemma map_nth_seq (vars : list nat) : map (fun i => nth i vars 0%nat) (seq 0 (length vars)) = vars.
Proof.
  apply (nth_ext _ _ 0%nat 0%nat); [rewrite map_length, seq_length; reflexivity|].
  intros i Hi. rewrite map_length, seq_length in Hi.
  rewrite (nth_map_d _ _ _ 0%nat) by (rewrite seq_length; exact Hi).
  rewrite seq_nth by exact Hi. reflexivity.
Qed.

Theorem qm_poly_labels_mentions m vars :
  Adj.Inv m -> length vars = Adj.nvars m -> mentions_only (qm_poly_labels m vars) vars.
Proof.
  intros HI Hlen. unfold qm_poly_labels.
  pose proof (relabel_mentions (fun i => nth i vars 0%nat) _ _ (abs_mentions_below m HI)) as H.
  rewrite <- Hlen, map_nth_seq in H. exact H.
Qed.

(* ---------- (2) expressions ---------- *)
Definition xexpr_wf (e : xexpr) : Prop :=
  Adj.Inv (x_base e) /\ length (x_vars e) = Adj.nvars (x_base e).

Theorem xexpr_energy_eq e s : xexpr_wf e -> xexpr_energy e s = energy (xexpr_poly e) s.
Proof.
  intros [HI Hlen]. unfold xexpr_energy, xexpr_poly. rewrite energy_relabel, energy_loop_eq_adj.
  rewrite <- (AdjEnergy.energy_adj_abs _ _ HI). apply energy_adj_ext; [exact HI|].
  intros u Hu. apply nth_map_d. lia.
Qed.

(* zero variables: both branches of the code give the offset *)
Lemma energy_loop_no_vars m val : Adj.nvars m = 0%nat -> energy_loop m val = Adj.off m.
Proof. intros H. unfold energy_loop. rewrite H. reflexivity. Qed.

Theorem xexpr_energies_cy_eq_spec e pvars ls rows :
  xexpr_wf e ->
  xexpr_energies_cy e pvars ls rows =
  energies (xexpr_poly_labels e pvars) (xexpr_labels e pvars) ls rows.
Proof.
  intros [HI Hlen]. unfold xexpr_energies_cy, energies. rewrite index_all_spec.
  destruct (covers ls (xexpr_labels e pvars)); [|reflexivity]. f_equal. apply map_ext. intros row.
  unfold xexpr_poly_labels, xexpr_poly. rewrite !energy_relabel.
  rewrite <- (AdjEnergy.energy_adj_abs _ _ HI).
  assert (E : energy_loop (x_base e)
                (fun i => nth i (map (fun j => nth j row 0) (map (fun v => idx_of v ls) (xexpr_labels e pvars))) 0)
              = Adj.energy_adj (x_base e)
                  (fun i => row_sample ls row (nth (nth i (x_vars e) 0%nat) pvars 0%nat))).
  { rewrite energy_loop_eq_adj. apply energy_adj_ext; [exact HI|]. intros u Hu.
    unfold xexpr_labels. rewrite !map_map.
    rewrite (nth_map_d _ _ _ 0%nat) by lia. reflexivity. }
  destruct (Nat.eqb_spec (length (map (fun v => idx_of v ls) (xexpr_labels e pvars))) 0) as [Z|NZ].
  - rewrite <- E. symmetry. apply energy_loop_no_vars.
    unfold xexpr_labels in Z. rewrite !map_length in Z. lia.
  - exact E.
Qed.

(* a constant-only (variable-free) expression evaluates to its offset on every row *)
Corollary xexpr_energies_cy_constant e pvars ls rows :
  xexpr_wf e -> x_vars e = [] ->
  xexpr_energies_cy e pvars ls rows = Some (map (fun _ => Adj.off (x_base e)) rows).
Proof.
  intros _ Hv. unfold xexpr_energies_cy, xexpr_labels. rewrite Hv. reflexivity.
Qed.

(* ---------- tie to the bag representation of Model/Expr.v ---------- *)
Lemma combine_map_l {A B C} (f : A -> C) (l : list A) (l' : list B) :
  combine (map f l) l' = map (fun p => (f (fst p), snd p)) (combine l l').
Proof.
  revert l'. induction l as [|x l IH]; intros [|y l']; try reflexivity. cbn [map combine fst snd]. rewrite IH. reflexivity.
Qed.

Theorem abs_expr_local e :
  length (Expr.e_lin e) = length (Expr.e_vars e) ->
  Expr.abs_expr e = relabel (fun i => nth i (Expr.e_vars e) 0%nat) (local_poly e).
Proof.
  intros Hlen. unfold Expr.abs_expr, local_poly, relabel. cbn [p_off p_lin p_quad]. f_equal.
  pose proof (combine_map_l (fun i => nth i (Expr.e_vars e) 0%nat) (seq 0 (length (Expr.e_lin e))) (Expr.e_lin e)) as H.
  cbv beta in H. rewrite <- H. rewrite Hlen, map_nth_seq. reflexivity.
Qed.

(* if the adjacency structure of the base holds the same polynomial as the bag, the code's
   evaluation is the energy of the expression's polynomial over model indices *)
Theorem xexpr_energy_eq_abs_expr x e s :
  xexpr_wf x -> x_vars x = Expr.e_vars e -> length (Expr.e_lin e) = length (Expr.e_vars e) ->
  (forall t, energy (Adj.abs (x_base x)) t = energy (local_poly e) t) ->
  xexpr_energy x s = energy (Expr.abs_expr e) s.
Proof.
  intros Hwf Hv Hlen Hp. rewrite xexpr_energy_eq by exact Hwf. unfold xexpr_poly.
  rewrite abs_expr_local by exact Hlen. rewrite !energy_relabel, Hv. apply Hp.
Qed.

Print Assumptions energies_cy_eq_spec.
Print Assumptions energies_cy_value.
Print Assumptions xexpr_energy_eq.
Print Assumptions xexpr_energies_cy_eq_spec.
Print Assumptions xexpr_energy_eq_abs_expr.
