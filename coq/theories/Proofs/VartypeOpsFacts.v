(* C02, per-variable conversion paths: facts about Model/VartypeOps.v
   (QuadraticModel::change_vartype, QuadraticModel.spin_to_binary,
    ConstrainedQuadraticModel::change_vartype / spin_to_binary / flip_variable). *)
From Coq Require Import List ZArith QArith Qcanon Bool Arith Lia.
From Dimod Require Import Base.Util Model.Poly Model.Adj Model.Expr Model.VartypeOps
  Proofs.PolyFacts Proofs.AdjNb Proofs.AdjInv Proofs.AdjDense Proofs.ExprFacts Proofs.ExprSim.
Import ListNotations.
Open Scope Qc_scope.

(* ================================================================== *)
(*  small arithmetic                                                   *)
(* ================================================================== *)
Lemma vo_half_two : half * two = 1.
Proof. rewrite Qcmult_comm. apply two_half. Qed.

Lemma vt_eqb_refl t : vartype_eqb t t = true.
Proof. destruct t; reflexivity. Qed.

Lemma vt_eqb_eq a b : vartype_eqb a b = true <-> a = b.
Proof. destruct a, b; cbn [vartype_eqb]; split; intros H; try reflexivity; discriminate H. Qed.

Lemma old_value_same t x : old_value t t x = x.
Proof. destruct t; reflexivity. Qed.

(* ================================================================== *)
(*  QM level                                                           *)
(* ================================================================== *)

(* the two readings of the vartype agree *)
Definition QInv (q : qmi) : Prop :=
  Inv (q_m q) /\ map i_vt (q_info q) = vts (q_m q).

Lemma QInv_len q : QInv q -> length (q_info q) = nvars (q_m q).
Proof.
  intros [HI HS]. apply Inv_InvG in HI. destruct HI as [HL _].
  rewrite <- HL, <- HS, map_length. reflexivity.
Qed.

Lemma QInv_vt q v : QInv q -> vt_at (q_m q) v = qi_vartype q v.
Proof.
  intros [_ HS]. unfold vt_at, qi_vartype. rewrite <- HS.
  destruct (nth_error (q_info q) v) as [i|] eqn:E.
  - rewrite (nth_indep _ BINARY (i_vt (mkI BINARY 0 0))).
    + rewrite map_nth. f_equal. apply nth_error_nth with (d := mkI BINARY 0 0) in E. exact E.
    + rewrite map_length. apply nth_error_Some. congruence.
  - apply nth_overflow. rewrite map_length. apply nth_error_None. exact E.
Qed.

(* --- shape of substitute_variable --- *)
Lemma substitute_variable_shape v k c m :
  vts (Adj.substitute_variable v k c m) = vts m /\
  nvars (Adj.substitute_variable v k c m) = nvars m.
Proof.
  unfold Adj.substitute_variable.
  set (m0 := mkQM _ _ _ _).
  assert (H0 : vts m0 = vts m /\ nvars m0 = nvars m).
  { split; [reflexivity|]. unfold nvars, m0. cbn [lin]. apply upd_nth_length. }
  clearbody m0. revert m0 H0. generalize (nb m v) as l.
  induction l as [|[w b] l IH]; intros m0 H0; cbn [fold_left]; [exact H0|].
  apply IH. destruct H0 as [V0 N0]. destruct (w =? v)%nat; cbn [vts]; (split; [exact V0|]);
    unfold nvars in *; cbn [lin]; rewrite upd_nth_length; exact N0.
Qed.

(* --- positional facts --- *)
Lemma nth_error_upd_same {A} i (f : A -> A) l x :
  nth_error l i = Some x -> nth_error (Adj.upd_nth i f l) i = Some (f x).
Proof.
  revert i. induction l as [|a r IH]; intros [|j] H; cbn [Adj.upd_nth nth_error] in *; try discriminate.
  - congruence.
  - apply IH. exact H.
Qed.

Lemma nth_error_upd_other {A} i j (f : A -> A) l :
  j <> i -> nth_error (Adj.upd_nth i f l) j = nth_error l j.
Proof.
  revert i j. induction l as [|a r IH]; intros [|i] [|j] H; cbn [Adj.upd_nth nth_error]; try reflexivity; try lia.
  apply IH. lia.
Qed.

Lemma nth_error_upd_none {A} i j (f : A -> A) l :
  nth_error l j = None -> nth_error (Adj.upd_nth i f l) j = None.
Proof. intros H. apply nth_error_None. rewrite upd_nth_length. apply nth_error_None. exact H. Qed.

Lemma map_upd_nth {A B} (g : A -> B) i (f : A -> A) (b : B) l :
  (forall x, nth_error l i = Some x -> g (f x) = b) ->
  map g (Adj.upd_nth i f l) = Adj.upd_nth i (fun _ => b) (map g l).
Proof.
  revert i. induction l as [|a r IH]; intros [|j] H; cbn [Adj.upd_nth map]; try reflexivity.
  - f_equal. apply H. reflexivity.
  - f_equal. apply IH. exact H.
Qed.

Lemma adj_expr_upd_nth {A} i (f : A -> A) l : Expr.upd_nth i f l = Adj.upd_nth i f l.
Proof. reflexivity. Qed.

(* --- the vartype reading after qi_upd_info --- *)
Lemma qi_vartype_upd_same v t f q i0 :
  nth_error (q_info q) v = Some i0 -> i_vt (f i0) = t -> qi_vartype (qi_upd_info v t f q) v = t.
Proof.
  intros E Hf. unfold qi_vartype, qi_upd_info. cbn [q_info]. rewrite (nth_error_upd_same _ _ _ _ E). exact Hf.
Qed.

Lemma qi_vartype_upd_other v t f q u : u <> v -> qi_vartype (qi_upd_info v t f q) u = qi_vartype q u.
Proof. intros H. unfold qi_vartype, qi_upd_info. cbn [q_info]. rewrite nth_error_upd_other by exact H. reflexivity. Qed.

Lemma qi_vartype_SPIN_in q v : qi_vartype q v = SPIN -> exists i0, nth_error (q_info q) v = Some i0 /\ i_vt i0 = SPIN.
Proof. unfold qi_vartype. destruct (nth_error (q_info q) v) as [i0|]; [intros H; exists i0; auto|discriminate]. Qed.

(* --- closed form of change_vartype --- *)
Definition qm_cv_spec (src target : vartype) (v : nat) (q : qmi) : option qmi :=
  if vartype_eqb src target then Some q
  else match src, target with
       | SPIN, BINARY => Some (qm_spin_to_binary_at v q)
       | BINARY, SPIN => Some (qm_binary_to_spin_at v q)
       | SPIN, INTEGER => Some (qm_binary_to_integer_at v (qm_spin_to_binary_at v q))
       | BINARY, INTEGER => Some (qm_binary_to_integer_at v q)
       | _, _ => None
       end.

Lemma qm_change_vartype_spec t v q :
  qm_change_vartype t v q = qm_cv_spec (qi_vartype q v) t v q.
Proof.
  unfold qm_change_vartype, qm_cv_spec.
  destruct (qi_vartype q v) eqn:ES; destruct t; cbn [qm_change_vartype_rec vartype_eqb]; rewrite ?ES;
    cbn [vartype_eqb]; try reflexivity.
  (* SPIN -> INTEGER *)
  destruct (qi_vartype_SPIN_in q v ES) as [i0 [E0 _]].
  assert (EB : qi_vartype (qm_spin_to_binary_at v q) v = BINARY).
  { unfold qm_spin_to_binary_at. apply (qi_vartype_upd_same v BINARY _ _ i0); [exact E0|reflexivity]. }
  rewrite EB. cbn [vartype_eqb]. reflexivity.
Qed.

(* --- energy --- *)
Lemma energy_adj_vts l a o t t' s : energy_adj (mkQM l a o t) s = energy_adj (mkQM l a o t') s.
Proof. reflexivity. Qed.

Lemma energy_adj_ext' m s s' :
  Inv m -> (forall i, (i < nvars m)%nat -> s i = s' i) -> energy_adj m s = energy_adj m s'.
Proof.
  intros HI H. rewrite !(energy_dense m _ HI). apply dense_ext; [reflexivity|reflexivity|exact H].
Qed.

Lemma energy_qi_upd_info v t f q s : energy_adj (q_m (qi_upd_info v t f q)) s = energy_adj (q_m q) s.
Proof. reflexivity. Qed.

Lemma energy_spin_to_binary_at v q s :
  Inv (q_m q) -> (v < nvars (q_m q))%nat ->
  energy_adj (q_m (qm_spin_to_binary_at v q)) s =
  energy_adj (q_m q) (fun i => if (i =? v)%nat then two * s i - 1 else s i).
Proof.
  intros HI Hv. unfold qm_spin_to_binary_at. rewrite energy_qi_upd_info. cbn [qi_with_m q_m].
  rewrite (energy_substitute_variable_adj _ _ _ _ _ HI Hv).
  apply (energy_adj_ext' _ _ _ HI). intros i _. unfold aff_sample. destruct (i =? v)%nat; [ring|reflexivity].
Qed.

Lemma energy_binary_to_spin_at v q s :
  Inv (q_m q) -> (v < nvars (q_m q))%nat ->
  energy_adj (q_m (qm_binary_to_spin_at v q)) s =
  energy_adj (q_m q) (fun i => if (i =? v)%nat then (s i + 1) * half else s i).
Proof.
  intros HI Hv. unfold qm_binary_to_spin_at. rewrite energy_qi_upd_info. cbn [qi_with_m q_m].
  rewrite (energy_substitute_variable_adj _ _ _ _ _ HI Hv).
  apply (energy_adj_ext' _ _ _ HI). intros i _. unfold aff_sample. destruct (i =? v)%nat; [ring|reflexivity].
Qed.

Lemma energy_adj_if_id m v s :
  Inv m -> energy_adj m (fun i => if (i =? v)%nat then s i else s i) = energy_adj m s.
Proof. intros HI. apply (energy_adj_ext' _ _ _ HI). intros i _. destruct (i =? v)%nat; reflexivity. Qed.

Theorem qm_change_vartype_energy t v q q' s :
  QInv q -> (v < nvars (q_m q))%nat -> qm_change_vartype t v q = Some q' ->
  energy_adj (q_m q') s =
  energy_adj (q_m q) (fun i => if (i =? v)%nat then old_value (qi_vartype q v) t (s i) else s i).
Proof.
  intros [HI _] Hv. rewrite qm_change_vartype_spec. unfold qm_cv_spec.
  destruct (vartype_eqb (qi_vartype q v) t) eqn:EQ.
  - intros H. injection H as <-. apply vt_eqb_eq in EQ. rewrite EQ.
    apply (energy_adj_ext' _ _ _ HI). intros i _. destruct (i =? v)%nat; [symmetry; apply old_value_same|reflexivity].
  - destruct (qi_vartype q v); destruct t; try discriminate; intros H; injection H as <-; cbn [old_value].
    + (* BINARY -> SPIN *) apply energy_binary_to_spin_at; assumption.
    + (* BINARY -> INTEGER *) unfold qm_binary_to_integer_at. rewrite energy_qi_upd_info.
      symmetry. apply energy_adj_if_id. exact HI.
    + (* SPIN -> BINARY *) apply energy_spin_to_binary_at; assumption.
    + (* SPIN -> INTEGER *) unfold qm_binary_to_integer_at. rewrite energy_qi_upd_info.
      apply energy_spin_to_binary_at; assumption.
Qed.

(* --- invariant --- *)
Lemma InvG_set_vt v t m :
  InvG m -> (is_binspin t = true -> is_binspin (vt_at m v) = true) ->
  InvG (mkQM (lin m) (adj m) (off m) (Adj.upd_nth v (fun _ => t) (vts m))).
Proof.
  intros [HL [H1 [H2 [H3 [H4 H5]]]]] Ht. split.
  - cbn [vts]. rewrite upd_nth_length. exact HL.
  - unfold nvars. cbn [lin adj]. repeat split; try assumption.
    intros u Hb. apply H5. unfold vt_at in *. cbn [vts] in Hb.
    destruct (Nat.eq_dec u v) as [->|Hne].
    + destruct (Nat.lt_ge_cases v (length (vts m))) as [L|L].
      * rewrite nth_upd_nth_same in Hb by exact L. apply Ht. exact Hb.
      * rewrite upd_nth_oob in Hb by exact L. exact Hb.
    + rewrite nth_upd_nth_other in Hb by exact Hne. exact Hb.
Qed.

Lemma QInv_upd_info v t f q :
  QInv q -> (is_binspin t = true -> is_binspin (qi_vartype q v) = true) ->
  (forall x, nth_error (q_info q) v = Some x -> i_vt (f x) = t) ->
  QInv (qi_upd_info v t f q).
Proof.
  intros HQ Ht Hf. pose proof HQ as [HI HS]. split.
  - unfold qi_upd_info. cbn [q_m]. apply Inv_InvG. apply InvG_set_vt; [apply Inv_InvG; exact HI|].
    rewrite (QInv_vt q v HQ). exact Ht.
  - unfold qi_upd_info. cbn [q_m q_info vts]. rewrite <- HS. apply map_upd_nth. exact Hf.
Qed.

Lemma QInv_with_subst v k c q :
  QInv q -> (v < nvars (q_m q))%nat -> QInv (qi_with_m q (Adj.substitute_variable v k c (q_m q))).
Proof.
  intros [HI HS] Hv. split; cbn [qi_with_m q_m q_info].
  - apply Inv_substitute_variable; assumption.
  - rewrite (proj1 (substitute_variable_shape v k c (q_m q))). exact HS.
Qed.

Lemma qi_vartype_with_m q m v : qi_vartype (qi_with_m q m) v = qi_vartype q v.
Proof. reflexivity. Qed.

Theorem qm_change_vartype_Inv t v q q' :
  QInv q -> (v < nvars (q_m q))%nat -> qm_change_vartype t v q = Some q' -> QInv q'.
Proof.
  intros HQ Hv. rewrite qm_change_vartype_spec. unfold qm_cv_spec.
  destruct (vartype_eqb (qi_vartype q v) t) eqn:EQ; [intros H; injection H as <-; exact HQ|].
  destruct (qi_vartype q v) eqn:ES; destruct t; try discriminate; intros H; injection H as <-.
  - (* BINARY -> SPIN *) unfold qm_binary_to_spin_at. apply QInv_upd_info.
    + apply QInv_with_subst; assumption.
    + intros _. rewrite qi_vartype_with_m, ES. reflexivity.
    + intros x _. reflexivity.
  - (* BINARY -> INTEGER *) unfold qm_binary_to_integer_at. apply QInv_upd_info; [exact HQ|discriminate|reflexivity].
  - (* SPIN -> BINARY *) unfold qm_spin_to_binary_at. apply QInv_upd_info.
    + apply QInv_with_subst; assumption.
    + intros _. rewrite qi_vartype_with_m, ES. reflexivity.
    + intros x _. reflexivity.
  - (* SPIN -> INTEGER *) unfold qm_binary_to_integer_at. apply QInv_upd_info; [|discriminate|reflexivity].
    unfold qm_spin_to_binary_at. apply QInv_upd_info.
    + apply QInv_with_subst; assumption.
    + intros _. rewrite qi_vartype_with_m, ES. reflexivity.
    + intros x _. reflexivity.
Qed.

Corollary qm_change_vartype_Inv_adj t v q q' :
  QInv q -> (v < nvars (q_m q))%nat -> qm_change_vartype t v q = Some q' ->
  Inv (q_m q') /\ nvars (q_m q') = nvars (q_m q).
Proof.
  intros HQ Hv H. split; [exact (proj1 (qm_change_vartype_Inv t v q q' HQ Hv H))|].
  revert H. rewrite qm_change_vartype_spec. unfold qm_cv_spec.
  destruct (vartype_eqb (qi_vartype q v) t); [intros H; injection H as <-; reflexivity|].
  destruct (qi_vartype q v); destruct t; try discriminate; intros H; injection H as <-;
    unfold qm_binary_to_integer_at, qm_spin_to_binary_at, qm_binary_to_spin_at, qi_upd_info, nvars;
    cbn [q_m lin qi_with_m]; try reflexivity;
    apply (proj2 (substitute_variable_shape v _ _ (q_m q))).
Qed.

(* --- what happens to the varinfo --- *)
Definition new_info (src t : vartype) (i : minfo) : minfo :=
  if vartype_eqb src t then i
  else match src, t with
       | SPIN, BINARY => mkI BINARY 0 1
       | BINARY, SPIN => mkI SPIN (- (1)) 1
       | SPIN, INTEGER => mkI INTEGER 0 1         (* the bounds the SPIN->BINARY step left *)
       | BINARY, INTEGER => mkI INTEGER (i_lb i) (i_ub i)
       | _, _ => i
       end.

Lemma upd_nth_upd_nth {A} i (f g : A -> A) l :
  Adj.upd_nth i g (Adj.upd_nth i f l) = Adj.upd_nth i (fun x => g (f x)) l.
Proof. revert i. induction l as [|a r IH]; intros [|j]; cbn [Adj.upd_nth]; try reflexivity. f_equal. apply IH. Qed.

Lemma upd_nth_id_at {A} i (f : A -> A) l :
  (forall x, nth_error l i = Some x -> f x = x) -> Adj.upd_nth i f l = l.
Proof.
  revert i. induction l as [|a r IH]; intros [|j] H; cbn [Adj.upd_nth]; try reflexivity.
  - f_equal. apply H. reflexivity.
  - f_equal. apply IH. exact H.
Qed.

Theorem qm_change_vartype_info t v q q' :
  qm_change_vartype t v q = Some q' ->
  q_info q' = Adj.upd_nth v (new_info (qi_vartype q v) t) (q_info q) /\
  vts (q_m q') = Adj.upd_nth v (fun x => if vartype_eqb (qi_vartype q v) t then x else t) (vts (q_m q)).
Proof.
  rewrite qm_change_vartype_spec. unfold qm_cv_spec, new_info.
  destruct (vartype_eqb (qi_vartype q v) t) eqn:EQ.
  - intros H. injection H as <-. split; symmetry; apply upd_nth_id_at; reflexivity.
  - destruct (qi_vartype q v); destruct t; try discriminate; intros H; injection H as <-;
      unfold qm_binary_to_integer_at, qm_spin_to_binary_at, qm_binary_to_spin_at, qi_upd_info;
      cbn [q_m q_info vts qi_with_m]; rewrite ?upd_nth_upd_nth;
      rewrite ?(proj1 (substitute_variable_shape v _ _ (q_m q))); split; reflexivity.
Qed.

(* readable consequences: entry v, the other entries, the length *)
Corollary qm_change_vartype_info_at t v q q' i0 :
  qm_change_vartype t v q = Some q' -> nth_error (q_info q) v = Some i0 ->
  nth_error (q_info q') v = Some (new_info (i_vt i0) t i0) /\
  (forall u, u <> v -> nth_error (q_info q') u = nth_error (q_info q) u) /\
  (forall u, u <> v -> qi_vartype q' u = qi_vartype q u) /\
  length (q_info q') = length (q_info q).
Proof.
  intros H E. destruct (qm_change_vartype_info t v q q' H) as [HI _]. rewrite HI.
  assert (ES : qi_vartype q v = i_vt i0) by (unfold qi_vartype; rewrite E; reflexivity).
  rewrite ES. repeat split.
  - apply nth_error_upd_same. exact E.
  - intros u Hu. apply nth_error_upd_other. exact Hu.
  - intros u Hu. unfold qi_vartype. rewrite HI, ES. rewrite nth_error_upd_other by exact Hu. reflexivity.
  - apply upd_nth_length.
Qed.

(* the vartype of v afterwards is the target *)
Corollary qm_change_vartype_vartype t v q q' :
  (v < length (q_info q))%nat -> qm_change_vartype t v q = Some q' -> qi_vartype q' v = t.
Proof.
  intros Hv H. destruct (nth_error (q_info q) v) as [i0|] eqn:E; [|apply nth_error_None in E; lia].
  destruct (qm_change_vartype_info_at t v q q' i0 H E) as [H1 _].
  unfold qi_vartype at 1. rewrite H1.
  assert (HS : cv_supported (i_vt i0) t = true).
  { revert H. rewrite qm_change_vartype_spec. unfold qm_cv_spec, cv_supported, qi_vartype. rewrite E.
    destruct (vartype_eqb (i_vt i0) t); [reflexivity|]. destruct (i_vt i0); destruct t; try discriminate; reflexivity. }
  unfold new_info. destruct (vartype_eqb (i_vt i0) t) eqn:EQ; [apply vt_eqb_eq; exact EQ|].
  unfold cv_supported in HS. rewrite EQ in HS. destruct (i_vt i0); destruct t; try discriminate; reflexivity.
Qed.

Theorem qm_change_vartype_none_iff t v q :
  qm_change_vartype t v q = None <-> cv_supported (qi_vartype q v) t = false.
Proof.
  rewrite qm_change_vartype_spec. unfold qm_cv_spec, cv_supported.
  destruct (qi_vartype q v); destruct t; cbn [vartype_eqb orb]; split; intros H; try reflexivity; discriminate H.
Qed.

(* --- the spin_to_binary loop --- *)
Definition stb_vt (t : vartype) : vartype := match t with SPIN => BINARY | x => x end.

Lemma seq_S_app k : seq 0 (S k) = seq 0 k ++ [k].
Proof. rewrite seq_S. reflexivity. Qed.

Lemma qm_stb_prefix q k :
  QInv q -> (k <= nvars (q_m q))%nat ->
  exists qk, fold_left qm_stb_step (seq 0 k) (Some q) = Some qk /\
    QInv qk /\ nvars (q_m qk) = nvars (q_m q) /\
    (forall i, qi_vartype qk i = if (i <? k)%nat then stb_vt (qi_vartype q i) else qi_vartype q i) /\
    (forall x, energy_adj (q_m qk) x =
               energy_adj (q_m q) (fun i => if (i <? k)%nat && is_spin (qi_vartype q i) then two * x i - 1 else x i)).
Proof.
  intros HQ. induction k as [|k IH]; intros Hk.
  - exists q. split; [reflexivity|]. split; [exact HQ|]. split; [reflexivity|]. split; [intros i; reflexivity|].
    intros x. reflexivity.
  - destruct IH as [qk [HF [HQk [HN [HV HE]]]]]; [lia|].
    rewrite seq_S_app, fold_left_app, HF. cbn [fold_left qm_stb_step].
    assert (HVk : qi_vartype qk k = qi_vartype q k).
    { rewrite HV. rewrite Nat.ltb_irrefl. reflexivity. }
    destruct (is_spin (qi_vartype qk k)) eqn:ESP.
    + assert (ES : qi_vartype qk k = SPIN) by (destruct (qi_vartype qk k); try discriminate; reflexivity).
      assert (Hkk : (k < nvars (q_m qk))%nat) by lia.
      pose proof (qm_change_vartype_spec BINARY k qk) as HS. rewrite ES in HS. unfold qm_cv_spec in HS.
      cbn [vartype_eqb] in HS.
      exists (qm_spin_to_binary_at k qk). split; [exact HS|].
      destruct (qm_change_vartype_Inv_adj BINARY k qk _ HQk Hkk HS) as [_ HN'].
      split; [exact (qm_change_vartype_Inv BINARY k qk _ HQk Hkk HS)|].
      split; [lia|]. split.
      * intros i. destruct (Nat.eq_dec i k) as [->|Hne].
        -- destruct (qi_vartype_SPIN_in qk k ES) as [i0 [E0 _]].
           assert (EB : qi_vartype (qm_spin_to_binary_at k qk) k = BINARY).
           { unfold qm_spin_to_binary_at. apply (qi_vartype_upd_same k BINARY _ _ i0); [exact E0|reflexivity]. }
           rewrite EB.
           replace (k <? S k)%nat with true by (symmetry; apply Nat.ltb_lt; lia).
           rewrite <- HVk, ES. reflexivity.
        -- unfold qm_spin_to_binary_at. rewrite qi_vartype_upd_other by exact Hne.
           rewrite qi_vartype_with_m, HV.
           destruct (Nat.ltb_spec i k), (Nat.ltb_spec i (S k)); try reflexivity; lia.
      * intros x. rewrite (energy_spin_to_binary_at k qk x (proj1 HQk) Hkk). rewrite HE.
        apply (energy_adj_ext' _ _ _ (proj1 HQ)). intros i _.
        destruct (Nat.eqb_spec i k) as [->|Hne].
        -- rewrite Nat.ltb_irrefl. cbn [andb].
           replace (k <? S k)%nat with true by (symmetry; apply Nat.ltb_lt; lia).
           rewrite <- HVk, ESP. reflexivity.
        -- destruct (Nat.ltb_spec i k), (Nat.ltb_spec i (S k)); try lia; reflexivity.
    + exists qk. split; [reflexivity|]. split; [exact HQk|]. split; [exact HN|]. split.
      * intros i. rewrite HV. destruct (Nat.eq_dec i k) as [->|Hne].
        -- rewrite Nat.ltb_irrefl. replace (k <? S k)%nat with true by (symmetry; apply Nat.ltb_lt; lia).
           rewrite <- HVk. destruct (qi_vartype qk k); try reflexivity; discriminate ESP.
        -- destruct (Nat.ltb_spec i k), (Nat.ltb_spec i (S k)); try reflexivity; lia.
      * intros x. rewrite HE. apply (energy_adj_ext' _ _ _ (proj1 HQ)). intros i _.
        destruct (Nat.eq_dec i k) as [->|Hne].
        -- rewrite Nat.ltb_irrefl. rewrite <- HVk, ESP, !andb_false_r. reflexivity.
        -- destruct (Nat.ltb_spec i k), (Nat.ltb_spec i (S k)); try lia; reflexivity.
Qed.

Theorem qm_spin_to_binary_energy q :
  QInv q ->
  exists q', qm_spin_to_binary q = Some q' /\
    QInv q' /\ nvars (q_m q') = nvars (q_m q) /\
    (forall i, qi_vartype q' i = stb_vt (qi_vartype q i)) /\
    (forall i, qi_vartype q' i <> SPIN) /\
    (forall x, energy_adj (q_m q') x =
               energy_adj (q_m q) (fun i => if is_spin (vt_at (q_m q) i) then two * x i - 1 else x i)).
Proof.
  intros HQ. destruct (qm_stb_prefix q (nvars (q_m q)) HQ (le_n _)) as [q' [HF [HQ' [HN [HV HE]]]]].
  exists q'. split; [exact HF|]. split; [exact HQ'|]. split; [exact HN|].
  assert (HV' : forall i, qi_vartype q' i = stb_vt (qi_vartype q i)).
  { intros i. rewrite HV. destruct (Nat.ltb_spec i (nvars (q_m q))) as [L|L]; [reflexivity|].
    unfold qi_vartype. replace (nth_error (q_info q) i) with (@None minfo); [reflexivity|].
    symmetry. apply nth_error_None. rewrite (QInv_len q HQ). exact L. }
  split; [exact HV'|]. split.
  - intros i. rewrite HV'. destruct (qi_vartype q i); discriminate.
  - intros x. rewrite HE. apply (energy_adj_ext' _ _ _ (proj1 HQ)). intros i Hi.
    rewrite (QInv_vt q i HQ). replace (i <? nvars (q_m q))%nat with true by (symmetry; apply Nat.ltb_lt; exact Hi).
    reflexivity.
Qed.

(* ================================================================== *)
(*  CQM level                                                          *)
(* ================================================================== *)

(* lhs energies related through a map F on samples (new sample |-> old sample) *)
Definition ExprRel (F : sample -> sample) (e e' : mexpr) : Prop :=
  forall s, energy (abs_expr e') s = energy (abs_expr e) (F s).
(* ... and nothing else of the constraint touched *)
Definition ConRel (F : sample -> sample) (k k' : mcon) : Prop :=
  ExprRel F (mc_e k) (mc_e k') /\ mc_sense k' = mc_sense k /\ mc_rhs k' = mc_rhs k /\
  mc_weight k' = mc_weight k /\ mc_pen k' = mc_pen k /\ mc_mark k' = mc_mark k.
Definition CqmRel (F : sample -> sample) (q q' : mcqm) : Prop :=
  ExprRel F (m_obj q) (m_obj q') /\ Forall2 (ConRel F) (m_cons q) (m_cons q').

Lemma Forall2_weaken' {A B} (R R' : A -> B -> Prop) l1 l2 :
  (forall a b, R a b -> R' a b) -> Forall2 R l1 l2 -> Forall2 R' l1 l2.
Proof. intros H F. induction F; constructor; auto. Qed.

Lemma Forall2_refl' {A} (R : A -> A -> Prop) l : (forall a, R a a) -> Forall2 R l l.
Proof. intros H. induction l; constructor; auto. Qed.

Lemma Forall2_trans' {A} (R1 R2 R3 : A -> A -> Prop) l1 l2 l3 :
  (forall a b c, R1 a b -> R2 b c -> R3 a c) -> Forall2 R1 l1 l2 -> Forall2 R2 l2 l3 -> Forall2 R3 l1 l3.
Proof.
  intros H F. revert l3. induction F as [|a b l1 l2 Hab F IH]; intros l3 G; inversion G; subst; constructor.
  - eapply H; eassumption.
  - apply IH. assumption.
Qed.

Lemma Forall2_map_r {A B} (R : A -> B -> Prop) (g : A -> B) (P : A -> Prop) l :
  Forall P l -> (forall a, P a -> R a (g a)) -> Forall2 R l (map g l).
Proof. intros F H. induction F; cbn [map]; constructor; auto. Qed.

Lemma ExprRel_ext F G e e' : (forall s w, F s w = G s w) -> ExprRel F e e' -> ExprRel G e e'.
Proof. intros H R s. rewrite (R s). apply energy_ext. apply H. Qed.

Lemma ConRel_ext F G k k' : (forall s w, F s w = G s w) -> ConRel F k k' -> ConRel G k k'.
Proof. intros H [R rest]. split; [exact (ExprRel_ext F G _ _ H R)|exact rest]. Qed.

Lemma CqmRel_ext F G q q' : (forall s w, F s w = G s w) -> CqmRel F q q' -> CqmRel G q q'.
Proof.
  intros H [R C]. split; [exact (ExprRel_ext F G _ _ H R)|].
  revert C. apply Forall2_weaken'. intros a b. apply ConRel_ext. exact H.
Qed.

Lemma CqmRel_refl q : CqmRel (fun s => s) q q.
Proof.
  split; [intros s; reflexivity|]. apply Forall2_refl'. intros k.
  split; [intros s; reflexivity|]. repeat split; reflexivity.
Qed.

Lemma CqmRel_trans F G q q1 q2 :
  CqmRel F q q1 -> CqmRel G q1 q2 -> CqmRel (fun s => F (G s)) q q2.
Proof.
  intros [R1 C1] [R2 C2]. split.
  - intros s. rewrite (R2 s), (R1 (G s)). reflexivity.
  - revert C1 C2. apply Forall2_trans'.
    intros a b c [Ra [A1 [A2 [A3 [A4 A5]]]]] [Rb [B1 [B2 [B3 [B4 B5]]]]]. split.
    + intros s. rewrite (Rb s), (Ra (G s)). reflexivity.
    + repeat split; congruence.
Qed.

Lemma CqmRel_upd_info F q q' v f : CqmRel F q q' -> CqmRel F q (cq_upd_info v f q').
Proof. intros H. exact H. Qed.

Lemma ExprRel_substitute n e v m c :
  ExprInv n e -> ExprRel (fun s => aff s v m c) e (m_substitute v m c e).
Proof. intros I s. rewrite (substitute_sim n e v m c s I). apply energy_substitute. Qed.

Lemma CqmRel_substitute q v m c :
  CqmInv q -> CqmRel (fun s => aff s v m c) q (cqm_substitute v m c q).
Proof.
  intros [IO IC]. split; cbn [cqm_substitute m_obj m_cons].
  - apply (ExprRel_substitute _ _ _ _ _ IO).
  - apply (Forall2_map_r _ _ _ _ IC). intros k Ik. split; [|repeat split; reflexivity].
    cbn [mc_set_e mc_e]. apply (ExprRel_substitute _ _ _ _ _ Ik).
Qed.

Lemma CqmInv_substitute q v m c : CqmInv q -> CqmInv (cqm_substitute v m c q).
Proof.
  intros [IO IC]. split; cbn [cqm_substitute m_info m_obj m_cons].
  - apply substitute_inv. exact IO.
  - apply Forall_forall. intros k' Hk'. apply in_map_iff in Hk'. destruct Hk' as [k [<- Hk]].
    cbn [mc_set_e mc_e]. apply substitute_inv. rewrite Forall_forall in IC. apply IC. exact Hk.
Qed.

Lemma expr_upd_nth_length {A} i (f : A -> A) l : length (Expr.upd_nth i f l) = length l.
Proof. rewrite adj_expr_upd_nth. apply upd_nth_length. Qed.

Lemma CqmInv_upd_info v f q : CqmInv q -> CqmInv (cq_upd_info v f q).
Proof.
  intros [IO IC]. unfold CqmInv, cq_upd_info. cbn [m_info m_obj m_cons].
  rewrite expr_upd_nth_length. split; assumption.
Qed.

(* --- the vartype reading after cq_upd_info --- *)
Lemma cq_vartype_upd_same v f q i0 :
  nth_error (m_info q) v = Some i0 -> cq_vartype (cq_upd_info v f q) v = i_vt (f i0).
Proof.
  intros E. unfold cq_vartype, cq_upd_info. cbn [m_info]. rewrite adj_expr_upd_nth.
  rewrite (nth_error_upd_same _ _ _ _ E). reflexivity.
Qed.

Lemma cq_vartype_upd_other v f q u : u <> v -> cq_vartype (cq_upd_info v f q) u = cq_vartype q u.
Proof.
  intros H. unfold cq_vartype, cq_upd_info. cbn [m_info]. rewrite adj_expr_upd_nth.
  rewrite nth_error_upd_other by exact H. reflexivity.
Qed.

Lemma cq_vartype_substitute v m c q u : cq_vartype (cqm_substitute v m c q) u = cq_vartype q u.
Proof. reflexivity. Qed.

Lemma cq_vartype_SPIN_in q v : cq_vartype q v = SPIN -> exists i0, nth_error (m_info q) v = Some i0.
Proof. unfold cq_vartype. destruct (nth_error (m_info q) v) as [i0|]; [intros _; exists i0; reflexivity|discriminate]. Qed.

Definition cqm_cv_spec (src target : vartype) (v : nat) (q : mcqm) : option mcqm :=
  if vartype_eqb src target then Some q
  else match src, target with
       | SPIN, BINARY => Some (cqm_spin_to_binary_at v q)
       | BINARY, SPIN => Some (cqm_binary_to_spin_at v q)
       | SPIN, INTEGER => Some (cqm_binary_to_integer_at v (cqm_spin_to_binary_at v q))
       | BINARY, INTEGER => Some (cqm_binary_to_integer_at v q)
       | _, _ => None
       end.

Lemma cqm_change_vartype_spec t v q :
  cqm_change_vartype t v q = cqm_cv_spec (cq_vartype q v) t v q.
Proof.
  unfold cqm_change_vartype, cqm_cv_spec.
  destruct (cq_vartype q v) eqn:ES; destruct t; cbn [cqm_change_vartype_rec vartype_eqb]; rewrite ?ES;
    cbn [vartype_eqb]; try reflexivity.
  destruct (cq_vartype_SPIN_in q v ES) as [i0 E0].
  assert (EB : cq_vartype (cqm_spin_to_binary_at v q) v = BINARY).
  { unfold cqm_spin_to_binary_at. rewrite (cq_vartype_upd_same v _ _ i0); [reflexivity|exact E0]. }
  rewrite EB. cbn [vartype_eqb]. reflexivity.
Qed.

Lemma CqmRel_spin_to_binary_at v q :
  CqmInv q -> CqmRel (fun s => upd s v (two * s v - 1)) q (cqm_spin_to_binary_at v q).
Proof.
  intros I. unfold cqm_spin_to_binary_at. apply CqmRel_upd_info.
  apply (CqmRel_ext (fun s => aff s v two (- (1)))); [|apply CqmRel_substitute; exact I].
  intros s w. unfold aff, upd. destruct (w =? v)%nat; [ring|reflexivity].
Qed.

Lemma CqmRel_binary_to_spin_at v q :
  CqmInv q -> CqmRel (fun s => upd s v ((s v + 1) * half)) q (cqm_binary_to_spin_at v q).
Proof.
  intros I. unfold cqm_binary_to_spin_at. apply CqmRel_upd_info.
  apply (CqmRel_ext (fun s => aff s v half half)); [|apply CqmRel_substitute; exact I].
  intros s w. unfold aff, upd. destruct (w =? v)%nat; [ring|reflexivity].
Qed.

Lemma upd_self s v w : upd s v (s v) w = s w.
Proof. unfold upd. destruct (Nat.eqb_spec w v) as [->|]; reflexivity. Qed.

Theorem cqm_change_vartype_energy t v q q' :
  CqmInv q -> cqm_change_vartype t v q = Some q' ->
  CqmInv q' /\ CqmRel (fun s => upd s v (old_value (cq_vartype q v) t (s v))) q q'.
Proof.
  intros I. rewrite cqm_change_vartype_spec. unfold cqm_cv_spec.
  destruct (vartype_eqb (cq_vartype q v) t) eqn:EQ.
  - intros H. injection H as <-. split; [exact I|]. apply vt_eqb_eq in EQ. rewrite EQ.
    apply (CqmRel_ext (fun s => s)); [|apply CqmRel_refl].
    intros s w. rewrite old_value_same. symmetry. apply upd_self.
  - destruct (cq_vartype q v); destruct t; try discriminate; intros H; injection H as <-; cbn [old_value].
    + split; [apply CqmInv_upd_info, CqmInv_substitute, I|apply CqmRel_binary_to_spin_at, I].
    + split; [apply CqmInv_upd_info, I|]. unfold cqm_binary_to_integer_at. apply CqmRel_upd_info.
      apply (CqmRel_ext (fun s => s)); [|apply CqmRel_refl]. intros s w. symmetry. apply upd_self.
    + split; [apply CqmInv_upd_info, CqmInv_substitute, I|apply CqmRel_spin_to_binary_at, I].
    + split; [apply CqmInv_upd_info, CqmInv_upd_info, CqmInv_substitute, I|].
      unfold cqm_binary_to_integer_at. apply CqmRel_upd_info. apply CqmRel_spin_to_binary_at, I.
Qed.

Theorem cqm_change_vartype_info t v q q' :
  cqm_change_vartype t v q = Some q' ->
  m_info q' = Adj.upd_nth v (new_info (cq_vartype q v) t) (m_info q).
Proof.
  rewrite cqm_change_vartype_spec. unfold cqm_cv_spec, new_info.
  destruct (vartype_eqb (cq_vartype q v) t) eqn:EQ.
  - intros H. injection H as <-. symmetry; apply upd_nth_id_at; reflexivity.
  - destruct (cq_vartype q v); destruct t; try discriminate; intros H; injection H as <-;
      unfold cqm_binary_to_integer_at, cqm_spin_to_binary_at, cqm_binary_to_spin_at, cq_upd_info;
      cbn [m_info cqm_substitute]; rewrite ?adj_expr_upd_nth, ?upd_nth_upd_nth; reflexivity.
Qed.

Corollary cqm_change_vartype_info_at t v q q' i0 :
  cqm_change_vartype t v q = Some q' -> nth_error (m_info q) v = Some i0 ->
  nth_error (m_info q') v = Some (new_info (i_vt i0) t i0) /\
  (forall u, u <> v -> nth_error (m_info q') u = nth_error (m_info q) u) /\
  (forall u, u <> v -> cq_vartype q' u = cq_vartype q u) /\
  length (m_info q') = length (m_info q).
Proof.
  intros H E. pose proof (cqm_change_vartype_info t v q q' H) as HI. rewrite HI.
  assert (ES : cq_vartype q v = i_vt i0) by (unfold cq_vartype; rewrite E; reflexivity).
  rewrite ES. repeat split.
  - apply nth_error_upd_same. exact E.
  - intros u Hu. apply nth_error_upd_other. exact Hu.
  - intros u Hu. unfold cq_vartype. rewrite HI, ES. rewrite nth_error_upd_other by exact Hu. reflexivity.
  - apply upd_nth_length.
Qed.

Theorem cqm_change_vartype_none_iff t v q :
  cqm_change_vartype t v q = None <-> cv_supported (cq_vartype q v) t = false.
Proof.
  rewrite cqm_change_vartype_spec. unfold cqm_cv_spec, cv_supported.
  destruct (cq_vartype q v); destruct t; cbn [vartype_eqb orb]; split; intros H; try reflexivity; discriminate H.
Qed.

(* "the same activity on every constraint": same sense and rhs, lhs - rhs equal at corresponding samples *)
Lemma CqmRel_activity F q q' :
  CqmRel F q q' ->
  Forall2 (fun k k' => mc_sense k' = mc_sense k /\ mc_rhs k' = mc_rhs k /\
                       forall s, mc_activity k' s = mc_activity k (F s)) (m_cons q) (m_cons q').
Proof.
  intros [_ C]. revert C. apply Forall2_weaken'. intros k k' [R [A1 [A2 _]]].
  split; [exact A1|]. split; [exact A2|]. intros s. unfold mc_activity. rewrite (R s), A2. reflexivity.
Qed.

Corollary cqm_change_vartype_same_activity t v q q' :
  CqmInv q -> cqm_change_vartype t v q = Some q' ->
  (forall s, energy (abs_expr (m_obj q')) s =
             energy (abs_expr (m_obj q)) (upd s v (old_value (cq_vartype q v) t (s v)))) /\
  Forall2 (fun k k' => mc_sense k' = mc_sense k /\ mc_rhs k' = mc_rhs k /\
                       forall s, mc_activity k' s =
                                 mc_activity k (upd s v (old_value (cq_vartype q v) t (s v))))
          (m_cons q) (m_cons q').
Proof.
  intros I H. destruct (cqm_change_vartype_energy t v q q' I H) as [_ R].
  split; [exact (proj1 R)|]. apply (CqmRel_activity _ _ _ R).
Qed.

(* --- the spin_to_binary loop --- *)
Lemma cqm_stb_prefix q k :
  CqmInv q -> (k <= length (m_info q))%nat ->
  exists qk, fold_left cqm_stb_step (seq 0 k) (Some q) = Some qk /\
    CqmInv qk /\ length (m_info qk) = length (m_info q) /\
    (forall i, cq_vartype qk i = if (i <? k)%nat then stb_vt (cq_vartype q i) else cq_vartype q i) /\
    CqmRel (fun s i => if (i <? k)%nat && is_spin (cq_vartype q i) then two * s i - 1 else s i) q qk.
Proof.
  intros HQ. induction k as [|k IH]; intros Hk.
  - exists q. split; [reflexivity|]. split; [exact HQ|]. split; [reflexivity|]. split; [intros i; reflexivity|].
    apply CqmRel_refl.
  - destruct IH as [qk [HF [HQk [HN [HV HE]]]]]; [lia|].
    rewrite seq_S_app, fold_left_app, HF. cbn [fold_left cqm_stb_step].
    assert (HVk : cq_vartype qk k = cq_vartype q k).
    { rewrite HV. rewrite Nat.ltb_irrefl. reflexivity. }
    destruct (is_spin (cq_vartype qk k)) eqn:ESP.
    + assert (ES : cq_vartype qk k = SPIN) by (destruct (cq_vartype qk k); try discriminate; reflexivity).
      pose proof (cqm_change_vartype_spec BINARY k qk) as HS. rewrite ES in HS. unfold cqm_cv_spec in HS.
      cbn [vartype_eqb] in HS.
      exists (cqm_spin_to_binary_at k qk). split; [exact HS|].
      split; [apply CqmInv_upd_info, CqmInv_substitute, HQk|].
      split. { unfold cqm_spin_to_binary_at, cq_upd_info. cbn [m_info cqm_substitute]. rewrite expr_upd_nth_length. exact HN. }
      split.
      * intros i. destruct (Nat.eq_dec i k) as [->|Hne].
        -- destruct (cq_vartype_SPIN_in qk k ES) as [i0 E0].
           unfold cqm_spin_to_binary_at. rewrite (cq_vartype_upd_same k _ _ i0) by exact E0. cbn [i_vt].
           replace (k <? S k)%nat with true by (symmetry; apply Nat.ltb_lt; lia).
           rewrite <- HVk, ES. reflexivity.
        -- unfold cqm_spin_to_binary_at. rewrite cq_vartype_upd_other by exact Hne.
           rewrite cq_vartype_substitute, HV.
           destruct (Nat.ltb_spec i k), (Nat.ltb_spec i (S k)); try reflexivity; lia.
      * pose proof (CqmRel_trans _ _ _ _ _ HE (CqmRel_spin_to_binary_at k qk HQk)) as HT.
        revert HT. apply CqmRel_ext. intros s i. unfold upd.
        destruct (Nat.eqb_spec i k) as [->|Hne].
        -- rewrite Nat.ltb_irrefl. cbn [andb].
           replace (k <? S k)%nat with true by (symmetry; apply Nat.ltb_lt; lia).
           rewrite <- HVk, ESP. reflexivity.
        -- destruct (Nat.ltb_spec i k), (Nat.ltb_spec i (S k)); try lia; reflexivity.
    + exists qk. split; [reflexivity|]. split; [exact HQk|]. split; [exact HN|]. split.
      * intros i. rewrite HV. destruct (Nat.eq_dec i k) as [->|Hne].
        -- rewrite Nat.ltb_irrefl. replace (k <? S k)%nat with true by (symmetry; apply Nat.ltb_lt; lia).
           rewrite <- HVk. destruct (cq_vartype qk k); try reflexivity; discriminate ESP.
        -- destruct (Nat.ltb_spec i k), (Nat.ltb_spec i (S k)); try reflexivity; lia.
      * revert HE. apply CqmRel_ext. intros s i.
        destruct (Nat.eq_dec i k) as [->|Hne].
        -- rewrite Nat.ltb_irrefl. rewrite <- HVk, ESP, !andb_false_r. reflexivity.
        -- destruct (Nat.ltb_spec i k), (Nat.ltb_spec i (S k)); try lia; reflexivity.
Qed.

Theorem cqm_spin_to_binary_energy q :
  CqmInv q ->
  exists q', cqm_spin_to_binary q = Some q' /\
    CqmInv q' /\ length (m_info q') = length (m_info q) /\
    (forall i, cq_vartype q' i = stb_vt (cq_vartype q i)) /\
    (forall i, cq_vartype q' i <> SPIN) /\
    CqmRel (fun s i => if is_spin (cq_vartype q i) then two * s i - 1 else s i) q q'.
Proof.
  intros HQ. destruct (cqm_stb_prefix q (length (m_info q)) HQ (le_n _)) as [q' [HF [HQ' [HN [HV HE]]]]].
  exists q'. split; [exact HF|]. split; [exact HQ'|]. split; [exact HN|].
  assert (HD : forall i, (length (m_info q) <= i)%nat -> cq_vartype q i = BINARY).
  { intros i L. unfold cq_vartype. replace (nth_error (m_info q) i) with (@None minfo); [reflexivity|].
    symmetry. apply nth_error_None. exact L. }
  assert (HV' : forall i, cq_vartype q' i = stb_vt (cq_vartype q i)).
  { intros i. rewrite HV. destruct (Nat.ltb_spec i (length (m_info q))) as [L|L]; [reflexivity|].
    rewrite (HD i L). reflexivity. }
  split; [exact HV'|]. split.
  - intros i. rewrite HV'. destruct (cq_vartype q i); discriminate.
  - revert HE. apply CqmRel_ext. intros s i.
    destruct (Nat.ltb_spec i (length (m_info q))) as [L|L]; [reflexivity|].
    rewrite (HD i L). reflexivity.
Qed.

Corollary cqm_spin_to_binary_same_activity q :
  CqmInv q ->
  exists q', cqm_spin_to_binary q = Some q' /\
    (forall s, energy (abs_expr (m_obj q')) s =
               energy (abs_expr (m_obj q)) (fun i => if is_spin (cq_vartype q i) then two * s i - 1 else s i)) /\
    Forall2 (fun k k' => mc_sense k' = mc_sense k /\ mc_rhs k' = mc_rhs k /\
                         forall s, mc_activity k' s =
                                   mc_activity k (fun i => if is_spin (cq_vartype q i) then two * s i - 1 else s i))
            (m_cons q) (m_cons q').
Proof.
  intros I. destruct (cqm_spin_to_binary_energy q I) as [q' [H [_ [_ [_ [_ R]]]]]].
  exists q'. split; [exact H|]. split; [exact (proj1 R)|]. apply (CqmRel_activity _ _ _ R).
Qed.

(* --- flip_variable --- *)
Theorem cqm_flip_variable_energy v q q' :
  CqmInv q -> cqm_flip_variable v q = Some q' ->
  CqmInv q' /\ m_info q' = m_info q /\
  CqmRel (fun s => upd s v (flip_value (cq_vartype q v) (s v))) q q'.
Proof.
  intros I. unfold cqm_flip_variable.
  destruct (cq_vartype q v); try discriminate; intros H; injection H as <-;
    (split; [apply CqmInv_substitute, I|]); (split; [reflexivity|]); cbn [flip_value].
  - apply (CqmRel_ext (fun s => aff s v (- (1)) 1)); [|apply CqmRel_substitute; exact I].
    intros s w. unfold aff, upd. destruct (w =? v)%nat; [ring|reflexivity].
  - apply (CqmRel_ext (fun s => aff s v (- (1)) 0)); [|apply CqmRel_substitute; exact I].
    intros s w. unfold aff, upd. destruct (w =? v)%nat; [ring|reflexivity].
Qed.

Theorem cqm_flip_variable_none_iff v q :
  cqm_flip_variable v q = None <-> is_binspin (cq_vartype q v) = false.
Proof.
  unfold cqm_flip_variable. destruct (cq_vartype q v); cbn [is_binspin]; split; intros H; try reflexivity; discriminate H.
Qed.

(* the Python wrapper: same expressions; marks are only ever cleared, and only on marked one-hot
   constraints that mention v *)
Definition ConRelM (F : sample -> sample) (k k' : mcon) : Prop :=
  ExprRel F (mc_e k) (mc_e k') /\ mc_sense k' = mc_sense k /\ mc_rhs k' = mc_rhs k /\
  mc_weight k' = mc_weight k /\ mc_pen k' = mc_pen k.

Lemma Forall2_combine_r {A B} (R R' : A -> A -> Prop) (G : A -> B -> A) (h : A -> B) l1 l2 :
  (forall k k', R k k' -> R' k (G k' (h k))) -> Forall2 R l1 l2 ->
  Forall2 R' l1 (map (fun kb => G (fst kb) (snd kb)) (combine l2 (map h l1))).
Proof.
  intros H F. induction F as [|a b l1 l2 Hab F IH]; cbn [map combine]; constructor.
  - cbn [fst snd]. apply H. exact Hab.
  - exact IH.
Qed.

Theorem py_cqm_flip_variable_energy v q q' :
  CqmInv q -> py_cqm_flip_variable v q = Some q' ->
  CqmInv q' /\ m_info q' = m_info q /\
  ExprRel (fun s => upd s v (flip_value (cq_vartype q v) (s v))) (m_obj q) (m_obj q') /\
  Forall2 (fun k k' =>
             ConRelM (fun s => upd s v (flip_value (cq_vartype q v) (s v))) k k' /\
             mc_mark k' = mc_mark k && negb (mc_mark k && vo_is_onehot (cq_vartype q) k
                                             && existsb (Nat.eqb v) (e_vars (mc_e k))))
          (m_cons q) (m_cons q').
Proof.
  intros I. unfold py_cqm_flip_variable.
  destruct (cqm_flip_variable v q) as [q1|] eqn:EF; [|discriminate].
  intros H. injection H as <-.
  destruct (cqm_flip_variable_energy v q q1 I EF) as [I1 [HI [RO RC]]].
  cbn [m_info m_obj m_cons]. split; [|split; [exact HI|split; [exact RO|]]].
  - destruct I1 as [IO IC]. split; cbn [m_info m_obj m_cons]; [exact IO|].
    apply Forall_forall. intros k' Hk'. apply in_map_iff in Hk'. destruct Hk' as [[k b] [<- Hin]].
    cbn [fst snd mc_e]. apply in_combine_l in Hin. rewrite Forall_forall in IC. apply IC. exact Hin.
  - apply (Forall2_combine_r _ _
             (fun k b => mkMC (mc_e k) (mc_sense k) (mc_rhs k) (mc_weight k) (mc_pen k) (mc_mark k && negb b))
             (fun k => mc_mark k && vo_is_onehot (cq_vartype q) k && existsb (Nat.eqb v) (e_vars (mc_e k)))
             _ _ ) with (2 := RC).
    intros k k1 [R [A1 [A2 [A3 [A4 A5]]]]]. cbn [mc_e mc_sense mc_rhs mc_weight mc_pen mc_mark].
    split; [repeat split; assumption|]. rewrite A5. reflexivity.
Qed.

Corollary py_cqm_flip_variable_none_iff v q :
  py_cqm_flip_variable v q = None <-> is_binspin (cq_vartype q v) = false.
Proof.
  rewrite <- cqm_flip_variable_none_iff. unfold py_cqm_flip_variable.
  destruct (cqm_flip_variable v q); split; intros H; try reflexivity; discriminate H.
Qed.

(* ================================================================== *)
(*  the hypotheses are satisfiable on non-trivial data; values cross-checked with the real code *)
(* ================================================================== *)
(* qm = 3 s0 + 2 s0 s1 - s1 x2 + x2 + 1/2 with s0,s1 SPIN, x2 BINARY.
   The expected states below are what the real code shows (scratch build, get_linear / iter_neighborhood /
   offset / vartype / lower_bound / upper_bound) after the same calls. *)
Definition four : Qc := two * two.
Definition ex_qm : qmi :=
  mkQI (mkQM [qc 3 1; 0; 1] [[(1%nat, two)]; [(0%nat, two); (2%nat, - (1))]; [(1%nat, - (1))]] half [SPIN; SPIN; BINARY])
       [mkI SPIN (- (1)) 1; mkI SPIN (- (1)) 1; mkI BINARY 0 1].

Example ex_qm_inv : inv_b (q_m ex_qm) = true /\ map i_vt (q_info ex_qm) = vts (q_m ex_qm).
Proof. split; vm_compute; reflexivity. Qed.

(* qm.change_vartype('BINARY', 1) *)
Example ex_qm_cv_binary :
  option_eqb qmi_eqb (qm_change_vartype BINARY 1 ex_qm)
    (Some (mkQI (mkQM [1; 0; two] [[(1%nat, four)]; [(0%nat, four); (2%nat, - two)]; [(1%nat, - two)]] half
                      [SPIN; BINARY; BINARY])
                [mkI SPIN (- (1)) 1; mkI BINARY 0 1; mkI BINARY 0 1])) = true.
Proof. vm_compute. reflexivity. Qed.

(* qm.change_vartype('INTEGER', 1): through BINARY, bounds stay [0, 1] *)
Example ex_qm_cv_integer :
  option_eqb qmi_eqb (qm_change_vartype INTEGER 1 ex_qm)
    (Some (mkQI (mkQM [1; 0; two] [[(1%nat, four)]; [(0%nat, four); (2%nat, - two)]; [(1%nat, - two)]] half
                      [SPIN; INTEGER; BINARY])
                [mkI SPIN (- (1)) 1; mkI INTEGER 0 1; mkI BINARY 0 1])) = true.
Proof. vm_compute. reflexivity. Qed.

(* qm.change_vartype('SPIN', 2) *)
Example ex_qm_cv_spin :
  option_eqb qmi_eqb (qm_change_vartype SPIN 2 ex_qm)
    (Some (mkQI (mkQM [qc 3 1; - half; half] [[(1%nat, two)]; [(0%nat, two); (2%nat, - half)]; [(1%nat, - half)]] 1
                      [SPIN; SPIN; SPIN])
                [mkI SPIN (- (1)) 1; mkI SPIN (- (1)) 1; mkI SPIN (- (1)) 1])) = true.
Proof. vm_compute. reflexivity. Qed.

(* qm.spin_to_binary(inplace=True) *)
Example ex_qm_stb :
  option_eqb qmi_eqb (qm_spin_to_binary ex_qm)
    (Some (mkQI (mkQM [two; - four; two] [[(1%nat, qc 8 1)]; [(0%nat, qc 8 1); (2%nat, - two)]; [(1%nat, - two)]] (- half)
                      [BINARY; BINARY; BINARY])
                [mkI BINARY 0 1; mkI BINARY 0 1; mkI BINARY 0 1])) = true.
Proof. vm_compute. reflexivity. Qed.

(* TypeError: SPIN -> REAL, and INTEGER -> BINARY *)
Example ex_qm_cv_none :
  qm_change_vartype REAL 0 ex_qm = None /\
  match qm_change_vartype INTEGER 2 ex_qm with Some q => qm_change_vartype BINARY 2 q | None => Some ex_qm end = None.
Proof. split; vm_compute; reflexivity. Qed.

(* cqm over s (SPIN), x (BINARY), i (INTEGER in [-2,5]):
     objective 3 s + 2 s x - x + 1/2 ;  c0: x s + 2 i s - s <= 2 ;  c1: i + x == 1
   raw expressions as the real code shows them (_iindices / _ilinear / _iquadratic / offset) *)
Definition ex_cqm : mcqm :=
  mkM [mkI SPIN (- (1)) 1; mkI BINARY 0 1; mkI INTEGER (- two) (qc 5 1)]
      (mkE [0; 1]%nat [(0, 0); (1, 1)]%nat [qc 3 1; - (1)] [(1%nat, 0%nat, two)] half)
      [mkMC (mkE [0; 1; 2]%nat [(0, 0); (1, 1); (2, 2)]%nat [- (1); 0; 0] [(1%nat, 0%nat, 1); (2%nat, 0%nat, two)] 0)
            0 two None 0 false;
       mkMC (mkE [2; 1]%nat [(2, 0); (1, 1)]%nat [1; 1] [] 0) 2 1 None 0 false].

Example ex_cqm_inv :
  expr_ok 3 (m_obj ex_cqm) = true /\ forallb (fun k => expr_ok 3 (mc_e k)) (m_cons ex_cqm) = true.
Proof. split; vm_compute; reflexivity. Qed.

Definition ex_cqm_binary (t : vartype) : mcqm :=
  mkM [mkI t 0 1; mkI BINARY 0 1; mkI INTEGER (- two) (qc 5 1)]
      (mkE [0; 1]%nat [(0, 0); (1, 1)]%nat [qc 6 1; - qc 3 1] [(1%nat, 0%nat, four)] (- qc 5 2))
      [mkMC (mkE [0; 1; 2]%nat [(0, 0); (1, 1); (2, 2)]%nat [- two; - (1); - two] [(1%nat, 0%nat, two); (2%nat, 0%nat, four)] 1)
            0 two None 0 false;
       mkMC (mkE [2; 1]%nat [(2, 0); (1, 1)]%nat [1; 1] [] 0) 2 1 None 0 false].

(* cqm.change_vartype('BINARY','s'), cqm.change_vartype('INTEGER','s'), cqm.spin_to_binary(inplace=True) *)
Example ex_cqm_cv :
  option_eqb vo_cqm_eqb (cqm_change_vartype BINARY 0 ex_cqm) (Some (ex_cqm_binary BINARY)) = true /\
  option_eqb vo_cqm_eqb (cqm_change_vartype INTEGER 0 ex_cqm) (Some (ex_cqm_binary INTEGER)) = true /\
  option_eqb vo_cqm_eqb (cqm_spin_to_binary ex_cqm) (Some (ex_cqm_binary BINARY)) = true /\
  cqm_change_vartype SPIN 2 ex_cqm = None.
Proof. repeat split; vm_compute; reflexivity. Qed.

(* cqm.flip_variable('x') ; cqm.flip_variable('i') raises ValueError *)
Example ex_cqm_flip :
  option_eqb vo_cqm_eqb (py_cqm_flip_variable 1 ex_cqm)
    (Some (mkM (m_info ex_cqm)
      (mkE [0; 1]%nat [(0, 0); (1, 1)]%nat [qc 5 1; 1] [(1%nat, 0%nat, - two)] (- half))
      [mkMC (mkE [0; 1; 2]%nat [(0, 0); (1, 1); (2, 2)]%nat [0; 0; 0] [(1%nat, 0%nat, - (1)); (2%nat, 0%nat, two)] 0)
            0 two None 0 false;
       mkMC (mkE [2; 1]%nat [(2, 0); (1, 1)]%nat [1; - (1)] [] 1) 2 1 None 0 false])) = true /\
  py_cqm_flip_variable 2 ex_cqm = None.
Proof. split; vm_compute; reflexivity. Qed.

(* r+b+g == 1 (discrete), y+z == 1 (discrete); flip_variable('r') twice: the real code reports
   is_discrete() = [False, True] after each flip, and after the second one d0 is one-hot again *)
Definition ex_disc : mcqm :=
  mkM (repeat (mkI BINARY 0 1) 5) e_empty
      [mkMC (mkE [0; 1; 2]%nat [(0, 0); (1, 1); (2, 2)]%nat [1; 1; 1] [] 0) 2 1 None 0 true;
       mkMC (mkE [3; 4]%nat [(3, 0); (4, 1)]%nat [1; 1] [] 0) 2 1 None 0 true].
Example ex_disc_flip :
  match py_cqm_flip_variable 0 ex_disc with
  | Some q1 =>
      list_eqb Bool.eqb (map mc_mark (m_cons q1)) [false; true] &&
      match py_cqm_flip_variable 0 q1 with
      | Some q2 => list_eqb Bool.eqb (map mc_mark (m_cons q2)) [false; true] &&
                   forallb (vo_is_onehot (cq_vartype q2)) (m_cons q2)
      | None => false
      end
  | None => false
  end = true.
Proof. vm_compute. reflexivity. Qed.

Print Assumptions qm_change_vartype_energy.
Print Assumptions qm_change_vartype_Inv.
Print Assumptions qm_change_vartype_info.
Print Assumptions qm_change_vartype_none_iff.
Print Assumptions qm_spin_to_binary_energy.
Print Assumptions cqm_change_vartype_energy.
Print Assumptions cqm_change_vartype_info.
Print Assumptions cqm_change_vartype_none_iff.
Print Assumptions cqm_change_vartype_same_activity.
Print Assumptions cqm_spin_to_binary_energy.
Print Assumptions cqm_spin_to_binary_same_activity.
Print Assumptions cqm_flip_variable_energy.
Print Assumptions cqm_flip_variable_none_iff.
Print Assumptions py_cqm_flip_variable_energy.
