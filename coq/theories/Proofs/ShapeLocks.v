(* C17: the functions mirrored by hand in Model/Qap.v, Model/Magic.v and Model/MultCircuit.v (and the
   anti-crossing generators monitored by the worker) still have the statement shapes (checked by
   translators/shape_locks.py) and the integer literals (below) they had when the mirrors were written
   and tied; a change of either breaks the build of Props/C17.v *)
From Coq Require Import List ZArith.
From Dimod Require Import Gen.Gen_Shapes.
Import ListNotations.

Theorem shape_literals_unchanged :
  quadratic_assignment_literals = [(0)%Z; (1)%Z; (2)%Z; (0)%Z; (4)%Z; (1)%Z; (1)%Z] /\
  magic_square_literals = [(1)%Z; (2)%Z; (1)%Z; (1)%Z; (1)%Z; (0)%Z; (0)%Z; (0)%Z; (0)%Z; (1)%Z; (0)%Z; (1)%Z; (0)%Z; (0)%Z; (1)%Z; (0)%Z; (2)%Z; (2)%Z; (2)%Z; (4)%Z; (4)%Z; (2)%Z; (2)%Z] /\
  multiplication_circuit_literals = [(1)%Z; (1)%Z; (0)%Z; (1)%Z; (2)%Z; (1)%Z; (0)%Z; (0)%Z; (1)%Z; (1)%Z; (1)%Z; (1)%Z; (0)%Z; (1)%Z; (1)%Z; (1)%Z; (0)%Z; (1)%Z; (1)%Z; (2)%Z] /\
  anti_crossing_clique_literals = [(2)%Z; (6)%Z; (2)%Z; (1)%Z; (1)%Z; (1)%Z; (1)%Z; (1)%Z; (1)%Z; (0)%Z] /\
  anti_crossing_loops_literals = [(2)%Z; (8)%Z; (4)%Z; (2)%Z; (1)%Z; (1)%Z; (1)%Z; (1)%Z; (1)%Z; (1)%Z; (2)%Z; (1)%Z; (3)%Z; (1)%Z; (1)%Z; (1)%Z; (2)%Z; (1)%Z; (3)%Z; (1)%Z; (0)%Z; (0)%Z; (0)%Z].
Proof. repeat split; reflexivity. Qed.
