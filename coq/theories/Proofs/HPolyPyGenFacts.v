(* Model/HPolyPy.v uses exactly the constants translators/poly_loops.py extracts from polynomial.py and
   higherordercomposites.py (Gen/Gen_HPolyPy.v); the translator also pins the statement shape of
   BinaryPolynomial.energies / to_binary / to_spin, powerset and fix_variables.  Unfolding only. *)
From Coq Require Import List ZArith QArith Qcanon Bool Arith.
From Dimod Require Import Base.Util Model.Poly Model.HPoly Model.HPolyPy Gen.Gen_HPolyPy.
Import ListNotations.
Open Scope Qc_scope.

Theorem to_binary_newbias_uses_source_constants term bias t :
  to_binary_newbias term bias t =
  bias * Qcpower gen_to_binary_base_pos (length t) * Qcpower gen_to_binary_base_neg (length term - length t).
Proof. reflexivity. Qed.

Theorem to_spin_newbias_uses_source_constants term bias :
  to_spin_newbias term bias = bias / Qcpower gen_to_spin_base (length term).
Proof. reflexivity. Qed.

Theorem fix_loop_py_uses_source_constants fixed p :
  fix_loop_py fixed p = fold_left (fix_step_py fixed) p ([], gen_fix_offset_init).
Proof. reflexivity. Qed.

Print Assumptions to_binary_newbias_uses_source_constants.
Print Assumptions to_spin_newbias_uses_source_constants.
Print Assumptions fix_loop_py_uses_source_constants.
