(* Frame theorems for append_variables / append_data_vectors, as_samples form agreement,
   from_samples label sorting. *)
From Coq Require Import List ZArith QArith Qcanon Bool Arith Lia Permutation Sorting.Sorted.
From Dimod Require Import Base.Util Model.Poly Model.Samples Model.SSet Proofs.SamplesFacts Proofs.SSetFacts Proofs.SSetAgg.
Import ListNotations.
Open Scope Qc_scope.

(* ---------- row_value over appended columns ---------- *)
Lemma idx_of_app_in v a b : In v a -> idx_of v (a ++ b) = idx_of v a.
Proof.
  induction a as [|x r IH]; intros H; [destruct H|]. cbn [app idx_of].
  destruct (Nat.eqb_spec x v) as [_|Hne]; [reflexivity|]. destruct H as [H|H]; [contradiction|].
  rewrite IH by assumption. reflexivity.
Qed.

Lemma idx_of_app_notin v a b : ~ In v a -> idx_of v (a ++ b) = (length a + idx_of v b)%nat.
Proof.
  induction a as [|x r IH]; intros H; cbn [app idx_of length]; [reflexivity|].
  destruct (Nat.eqb_spec x v) as [->|_]; [exfalso; apply H; left; reflexivity|].
  rewrite IH; [reflexivity|]. intros Hin. apply H. right. assumption.
Qed.

Lemma row_value_app_old L N vals a v :
  In v L -> length vals = length L -> row_value (L ++ N) (vals ++ a) v = row_value L vals v.
Proof.
  intros Hin HL. unfold row_value. rewrite idx_of_app_in by assumption.
  apply app_nth1. rewrite HL. apply idx_of_lt. assumption.
Qed.

Lemma row_value_app_new L N vals a v :
  ~ In v L -> length vals = length L -> row_value (L ++ N) (vals ++ a) v = row_value N a v.
Proof.
  intros Hin HL. unfold row_value. rewrite idx_of_app_notin by assumption.
  rewrite app_nth2 by lia. f_equal. lia.
Qed.

Lemma Forall2_map_zip_app (P : row -> row * list Qc -> Prop) (f : row -> row) rows : forall ad,
  (forall r a, In r rows -> P (f (set_vals r (vals r ++ a))) (r, a)) ->
  Forall2 P (map f (zip_app rows ad)) (combine rows ad).
Proof.
  induction rows as [|r rest IH]; intros ad H; [constructor|].
  destruct ad as [|a ad']; [constructor|]. cbn [zip_app map combine]. constructor.
  - apply H. left. reflexivity.
  - apply IH. intros r0 a0 Hr0. apply H. right. assumption.
Qed.

Definition appended_row (Ls nls Ls' : list label) (r' : row) (ra : row * list Qc) : Prop :=
  let (r, a) := ra in
  en r' = en r /\ oc r' = oc r /\ tag r' = tag r /\ extra r' = extra r
  /\ (forall v, In v Ls -> row_value Ls' (vals r') v = row_value Ls (vals r) v)
  /\ (forall v, In v nls -> row_value Ls' (vals r') v = row_value nls a v).

(* append_variables: every old label keeps its column, every new label gets the appended
   value (one sample broadcast to all rows, or one per row), nothing else changes *)
Theorem append_frame K nls add sortl s s' :
  append_ss K nls add sortl s = Ok s' ->
  (forall r, In r (rws s) -> length (vals r) = length (labels s)) ->
  vt s' = vt s /\ info s' = info s /\ fields s' = fields s
  /\ (forall v, In v (labels s') <-> In v (labels s) \/ In v nls)
  /\ exists ad, (ad = add \/ exists a, add = [a] /\ ad = repeat a (length (rws s)))
                /\ length ad = length (rws s)
                /\ Forall2 (appended_row (labels s) nls (labels s')) (rws s') (combine (rws s) ad).
Proof.
  unfold append_ss. intros H WF.
  set (n := length (rws s)) in *.
  destruct (if (length add =? n)%nat then Some add
            else match add with [a] => if (0 <? n)%nat then Some (repeat a n) else None | _ => None end) as [ad|] eqn:Ead;
    [|discriminate].
  assert ((ad = add \/ exists a, add = [a] /\ ad = repeat a n) /\ length ad = n) as [Hadd Hlen].
  { destruct (Nat.eqb_spec (length add) n) as [El|_].
    - inversion Ead; subst ad. split; [left; reflexivity|assumption].
    - destruct add as [|a [|b rest]]; try discriminate. destruct (0 <? n)%nat; [|discriminate].
      inversion Ead; subst ad. split; [right; exists a; split; reflexivity|apply repeat_length]. }
  destruct (existsb (fun v => memb v (labels s)) nls || negb (nodupb nls)) eqn:Eov; [discriminate|].
  apply orb_false_iff in Eov. destruct Eov as [Eov _].
  assert (forall v, In v nls -> ~ In v (labels s)) as Hdisj.
  { intros v Hv Hin. assert (existsb (fun v0 => memb v0 (labels s)) nls = true) as Ht; [|congruence].
    apply existsb_exists. exists v. split; [assumption|apply memb_In; assumption]. }
  inversion H; subst s'; clear H.
  set (M := mkSS (labels s ++ nls) (vt s) (zip_app (rws s) ad) (info s) (fields s)).
  pose proof (sort_labels_permutes_columns K sortl M) as SP. cbn zeta in SP.
  destruct SP as (S1 & S2 & S3 & S4 & S5).
  split; [exact S1|]. split; [exact S2|]. split; [exact S3|]. split.
  - intros v. rewrite S4. unfold M. cbn [labels]. apply in_app_iff.
  - exists ad. split; [exact Hadd|]. split; [exact Hlen|].
    rewrite S5. unfold M at 2 3. cbn [rws labels].
    apply Forall2_map_zip_app. intros r a Hr.
    destruct (recolumn_frame (labels (sort_columns K sortl M)) (labels s ++ nls) (set_vals r (vals r ++ a)))
      as (F1 & F2 & F3 & F4 & F5).
    unfold appended_row. split; [exact F1|]. split; [exact F2|]. split; [exact F3|]. split; [exact F4|]. split.
    + intros v Hv. rewrite F5 by (apply S4; unfold M; cbn [labels]; apply in_app_iff; left; assumption).
      cbn [vals set_vals]. apply row_value_app_old; [assumption|apply WF; assumption].
    + intros v Hv. rewrite F5 by (apply S4; unfold M; cbn [labels]; apply in_app_iff; right; assumption).
      cbn [vals set_vals]. apply row_value_app_new; [apply Hdisj; assumption|apply WF; assumption].
Qed.

Theorem append_fail_unchanged K nls add sortl s s' : append_ss K nls add sortl s = Fail s' -> s' = s.
Proof.
  unfold append_ss. destruct (if (length add =? length (rws s))%nat then _ else _).
  - destruct (_ || _); [|discriminate]. intros H; inversion H; reflexivity.
  - intros H; inversion H; reflexivity.
Qed.

(* append_data_vectors: one more field, every row gets its entry, nothing else changes *)
Lemma zip_extra_spec rows : forall vec,
  Forall2 (fun r' (rx : row * Qc) => vals r' = vals (fst rx) /\ en r' = en (fst rx) /\ oc r' = oc (fst rx)
                                     /\ tag r' = tag (fst rx) /\ extra r' = extra (fst rx) ++ [snd rx])
          (zip_extra rows vec) (combine rows vec).
Proof.
  induction rows as [|r rest IH]; intros vec; [constructor|].
  destruct vec as [|x vec']; [constructor|]. cbn [zip_extra combine]. constructor; [|apply IH].
  cbn [fst snd vals en oc tag extra]. repeat split.
Qed.

Theorem append_vec_frame name vec s s' :
  append_vec_ss name vec s = Ok s' ->
  labels s' = labels s /\ vt s' = vt s /\ info s' = info s /\ fields s' = fields s ++ [name]
  /\ length vec = length (rws s) /\ ~ In name (fields s)
  /\ Forall2 (fun r' (rx : row * Qc) => vals r' = vals (fst rx) /\ en r' = en (fst rx) /\ oc r' = oc (fst rx)
                                        /\ tag r' = tag (fst rx) /\ extra r' = extra (fst rx) ++ [snd rx])
             (rws s') (combine (rws s) vec).
Proof.
  unfold append_vec_ss.
  destruct ((length vec =? length (rws s))%nat && negb (memb name (fields s))) eqn:E; [|discriminate].
  apply andb_prop in E. destruct E as [E1 E2]. apply Nat.eqb_eq in E1. apply negb_true_iff in E2.
  intros H; inversion H; subst s'; clear H. cbn [labels vt info fields rws].
  repeat split; try assumption; [|apply zip_extra_spec].
  intros Hin. apply memb_In in Hin. congruence.
Qed.

(* ---------- as_samples: the accepted forms agree ---------- *)
(* a dict {label: value}: keys in iteration order *)
Definition as_samples_dict (d : list (label * Qc)) : list label * list (list Qc) := (map fst d, [map snd d]).
Fixpoint assoc (d : list (label * Qc)) (v : label) : Qc :=
  match d with [] => 0 | (k, x) :: r => if (k =? v)%nat then x else assoc r v end.
(* a SampleSet *)
Definition as_samples_sset (s : sset) : list label * list (list Qc) := (labels s, map vals (rws s)).

Theorem dict_row_value d v : row_value (map fst d) (map snd d) v = assoc d v.
Proof.
  unfold row_value. induction d as [|[k x] r IH]; cbn [map fst snd idx_of assoc]; [destruct (idx_of v []); reflexivity|].
  destruct (k =? v)%nat; [reflexivity|]. cbn [nth]. exact IH.
Qed.

Lemma same_label_set_spec a b : same_label_set a b = true -> forall v, In v a <-> In v b.
Proof.
  unfold same_label_set. rewrite andb_true_iff, !forallb_forall. intros [H1 H2] v. split; intros Hv.
  - specialize (H1 v Hv). apply existsb_exists in H1. destruct H1 as [x [Hx E]]. apply Nat.eqb_eq in E. subst. assumption.
  - specialize (H2 v Hv). apply existsb_exists in H2. destruct H2 as [x [Hx E]]. apply Nat.eqb_eq in E. subst. assumption.
Qed.

(* list of dicts in differing key orders: every row of the stacked array gives every label of the
   first dict the value its own dict gave it; the label sets coincide *)
Theorem stack_rows_values first : forall rest rows,
  stack_rows first rest = Some rows ->
  Forall2 (fun row' (lr : list label * list Qc) =>
             (forall v, In v (fst lr) <-> In v first)
             /\ forall v, In v first -> row_value first row' v = row_value (fst lr) (snd lr) v) rows rest.
Proof.
  induction rest as [|[ls row] r IH]; intros rows H; cbn [stack_rows] in H.
  - inversion H. constructor.
  - destruct (same_label_set ls first) eqn:E; [|discriminate].
    destruct (stack_rows first r) as [rows'|]; [|discriminate]. inversion H; subst rows; clear H.
    constructor; [|apply IH; reflexivity]. cbn [fst snd]. split; [apply same_label_set_spec; assumption|].
    intros v Hv. apply reindex_row_value. assumption.
Qed.

Theorem as_samples_dicts_values l0 r0 rest first rows :
  as_samples_dicts ((l0, r0) :: rest) = Some (first, rows) ->
  first = l0 /\ exists rows', rows = r0 :: rows'
  /\ Forall2 (fun row' (lr : list label * list Qc) =>
                (forall v, In v (fst lr) <-> In v first)
                /\ forall v, In v first -> row_value first row' v = row_value (fst lr) (snd lr) v) rows' rest.
Proof.
  cbn [as_samples_dicts]. destruct (stack_rows l0 rest) as [rows'|] eqn:E; [|discriminate].
  intros H; inversion H; subst. split; [reflexivity|]. exists rows'. split; [reflexivity|].
  apply stack_rows_values. assumption.
Qed.

(* a row is determined by the values it gives its labels *)
Lemma row_as_values ls : forall row, NoDup ls -> length row = length ls -> map (row_value ls row) ls = row.
Proof.
  induction ls as [|x r IH]; intros row ND HL; [destruct row; [reflexivity|discriminate]|].
  destruct row as [|a row']; [discriminate|]. inversion ND as [|? ? Hx Hr]; subst.
  cbn [map]. f_equal.
  - unfold row_value. cbn [idx_of]. rewrite Nat.eqb_refl. reflexivity.
  - rewrite <- (IH row' Hr) at 2 by (cbn in HL; lia). apply map_ext_in. intros v Hv.
    unfold row_value. cbn [idx_of]. destruct (Nat.eqb_spec x v) as [->|_]; [contradiction|]. reflexivity.
Qed.

(* two encodings that give every label the same value normalise to the same row up to the column
   permutation between their label orders *)
Theorem forms_agree ls1 row1 ls2 row2 :
  NoDup ls1 -> length row1 = length ls1 ->
  (forall v, In v ls1 -> row_value ls1 row1 v = row_value ls2 row2 v) ->
  reindex_row ls1 ls2 row2 = row1.
Proof.
  intros ND HL H. transitivity (map (row_value ls1 row1) ls1); [|apply row_as_values; assumption].
  unfold reindex_row. apply map_ext_in. intros v Hv. symmetry. apply H. assumption.
Qed.

Corollary dict_and_labelled_array_agree d ls row :
  NoDup ls -> length row = length ls ->
  (forall v, In v ls -> assoc d v = row_value ls row v) ->
  reindex_row ls (map fst d) (map snd d) = row.
Proof.
  intros ND HL H. apply forms_agree; [assumption|assumption|].
  intros v Hv. rewrite dict_row_value. symmetry. apply H. assumption.
Qed.

Corollary reindex_row_id ls row : NoDup ls -> length row = length ls -> reindex_row ls ls row = row.
Proof. intros ND HL. apply forms_agree; auto. Qed.

(* a SampleSet built from a labelled array (with or without label sorting) encodes the same assignment *)
Theorem sset_form_values K sortl s i v :
  In v (labels s) ->
  row_value (fst (as_samples_sset (sort_columns K sortl s))) (nth i (snd (as_samples_sset (sort_columns K sortl s))) []) v
  = row_value (labels s) (nth i (map vals (rws s)) []) v.
Proof.
  intros Hv. unfold as_samples_sset. cbn [fst snd].
  destruct (sort_labels_permutes_columns K sortl s) as (_ & _ & _ & S4 & S5). cbn zeta in S4, S5.
  rewrite S5, map_map.
  destruct (Nat.lt_ge_cases i (length (rws s))) as [Hi|Hi].
  - rewrite (nth_indep _ [] ((fun r => vals (recolumn (labels (sort_columns K sortl s)) (labels s) r)) rowz))
      by (rewrite map_length; assumption).
    rewrite (map_nth (fun r => vals (recolumn (labels (sort_columns K sortl s)) (labels s) r))).
    rewrite (nth_indep (map vals (rws s)) [] (vals rowz)) by (rewrite map_length; assumption).
    rewrite map_nth.
    apply recolumn_frame. apply S4. assumption.
  - rewrite !nth_overflow by (rewrite map_length; assumption).
    unfold row_value. destruct (idx_of v (labels (sort_columns K sortl s))), (idx_of v (labels s)); reflexivity.
Qed.

(* ---------- from_samples(sort_labels) ---------- *)
Theorem sorted_labels_unsortable K sortl ls : sortable K ls = false -> sorted_labels K sortl ls = ls.
Proof. intros H. unfold sorted_labels. rewrite H, andb_false_r. reflexivity. Qed.

Theorem sorted_labels_off K ls : sorted_labels K false ls = ls.
Proof. reflexivity. Qed.

Theorem sorted_labels_sorted K ls :
  sortable K ls = true ->
  Permutation (sorted_labels K true ls) ls
  /\ StronglySorted (fun a b => (snd (lkey K a) <= snd (lkey K b))%nat) (sorted_labels K true ls).
Proof.
  intros H. unfold sorted_labels. rewrite H. cbn [andb]. split; [apply sort_by_perm|apply sort_by_sorted].
Qed.

(* mixed-type (unsortable) labels: from_samples keeps the given order and the rows as they are *)
Theorem sort_columns_unsortable_id K sortl s :
  sortable K (labels s) = false -> NoDup (labels s) ->
  (forall r, In r (rws s) -> length (vals r) = length (labels s)) ->
  sort_columns K sortl s = s.
Proof.
  intros H ND WF. unfold sort_columns. rewrite sorted_labels_unsortable by assumption.
  destruct s as [ls v rows i f]. cbn [labels vt rws info fields] in *. f_equal.
  rewrite <- (map_id rows) at 2. apply map_ext_in. intros r Hr. unfold recolumn.
  rewrite reindex_row_id by (auto using WF). destruct r; reflexivity.
Qed.
