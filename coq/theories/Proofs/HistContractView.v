(* C04: contract_variables through a translating view - energy theorem *)
From Coq Require Import List ZArith QArith Qcanon Bool Arith Lia.
From Dimod Require Import Base.Util Model.Poly Model.View Model.Hist Proofs.PolyFacts Proofs.ViewFacts Proofs.HistFacts
  Proofs.HistWf Proofs.HistWf2 Proofs.HistAtomic Proofs.HistContract Proofs.HistViewStep Proofs.HistViewStep2
  Proofs.HistViewStep3 Proofs.CoeffSound Proofs.HistAtomicQM Proofs.HistQmAtomic.
Import ListNotations.
Open Scope Qc_scope.

(* ---------- a polynomial of a well-formed BQM is affine in each variable ---------- *)
Definition vsum (s : state) (v : label) (g : label -> Qc) : Qc := wsum (fun w => quad s v w * g w) (labels s).

Lemma quad_self_zero s v : B s -> wf s -> quad s v v = 0.
Proof. intros Hs Hw. unfold quad. apply quad_coeff_no_pair. apply (bqm_no_self s v Hs Hw). Qed.

Lemma wsum_upd_self s v (g : label -> Qc) a L : B s -> wf s ->
  wsum (fun w => quad s v w * upd g v a w) L = wsum (fun w => quad s v w * g w) L.
Proof.
  intros Hs Hw. apply wsum_ext. intros w _. unfold upd. destruct (Nat.eqb_spec w v) as [->|_]; [|reflexivity].
  rewrite (quad_self_zero s v Hs Hw). ring.
Qed.

Lemma energy_affine s v y a : B s -> wf s ->
  energy (st_poly s) (upd y v a) = energy (remove_variable v (st_poly s)) y + a * (lin s v + vsum s v y).
Proof.
  intros Hs Hw. rewrite (energy_split_var v (st_poly s) (upd y v a)), energy_remove_variable_upd, linv_eq.
  unfold quadv. rewrite (quadv_sum (p_quad (st_poly s)) v (labels s) (upd y v a)); [|apply Hw|apply bqm_terms_ok; assumption].
  fold (lin s v). change (quad_coeff (p_quad (st_poly s)) v) with (quad s v).
  rewrite (wsum_upd_self s v y a (labels s) Hs Hw). unfold vsum, upd. rewrite Nat.eqb_refl. ring.
Qed.

(* the sum over a neighbourhood does not depend on the (duplicate-free, large enough) label list it is taken over *)
Lemma vsum_any_list s v (g : label -> Qc) L : B s -> wf s -> NoDup L -> (forall x, In x (labels s) -> In x L) ->
  wsum (fun w => quad s v w * g w) L = vsum s v g.
Proof.
  intros Hs Hw Hnd Hsub.
  assert (T : forall t, In t (p_quad (st_poly s)) -> fst (fst t) <> snd (fst t) /\ In (fst (fst t)) (labels s) /\ In (snd (fst t)) (labels s))
    by (apply bqm_terms_ok; assumption).
  assert (T' : forall t, In t (p_quad (st_poly s)) -> fst (fst t) <> snd (fst t) /\ In (fst (fst t)) L /\ In (snd (fst t)) L)
    by (intros t Ht; destruct (T t Ht) as (A & B1 & C); auto).
  pose proof (quadv_sum (p_quad (st_poly s)) v L (upd g v 1) Hnd T') as H1.
  pose proof (quadv_sum (p_quad (st_poly s)) v (labels s) (upd g v 1) (proj1 Hw) T) as H2.
  rewrite H2 in H1.
  change (quad_coeff (p_quad (st_poly s)) v) with (quad s v) in H1.
  rewrite !(wsum_upd_self s v g 1 _ Hs Hw) in H1. unfold upd in H1. rewrite Nat.eqb_refl in H1.
  unfold vsum. transitivity (1 * wsum (fun w => quad s v w * g w) L); [ring|]. rewrite <- H1. ring.
Qed.

(* ---------- the loop that re-attaches v's neighbours to u ---------- *)
Lemma add_quadratic_loop h d u (X : label -> Qc) (l : list (label * Qc)) :
  forall s, B s -> vdir_of h s = Some d -> (forall t, In t l -> fst t <> u) ->
    let r := seqm (fun t => h_add_quadratic h u (fst t) (snd t)) l s in
    snd r = Ok /\ B (fst r) /\ vdir_of h (fst r) = Some d /\ ge s (fst r).
Proof.
  induction l as [|t l IH]; intros s Hs D Hl r.
  - unfold r. cbn [seqm ok fst snd]. split; [reflexivity|]. split; [exact Hs|]. split; [exact D|apply ge_refl].
  - assert (Ht : u <> fst t) by (intros E; apply (Hl t (or_introl eq_refl)); symmetry; exact E).
    destruct (good_h_add_quadratic h u (fst t) (snd t) s Hs Ht) as (G1 & G2 & G3).
    assert (D1 : vdir_of h (fst (h_add_quadratic h u (fst t) (snd t) s)) = Some d)
      by (rewrite <- D; apply vdir_kind; apply kind_h_add_quadratic).
    destruct (IH _ G2 D1 (fun t' H' => Hl t' (or_intror H'))) as (R1 & R2 & R3 & R4).
    unfold r. cbn [seqm]. rewrite (bind_ok_eq _ _ G1). split; [exact R1|]. split; [exact R2|]. split; [exact R3|].
    eapply ge_trans; eassumption.
Qed.

Lemma add_quadratic_loop_energy h d u y (l : list (label * Qc)) :
  forall s, B s -> vdir_of h s = Some d -> (forall t, In t l -> fst t <> u) ->
    energy (st_poly (fst (seqm (fun t => h_add_quadratic h u (fst t) (snd t)) l s))) y
    = energy (st_poly s) y + qsum (map (fun t => snd t * view_value d (y u) * view_value d (y (fst t))) l).
Proof.
  induction l as [|t l IH]; intros s Hs D Hl.
  - cbn [seqm ok fst map qsum]. ring.
  - assert (Ht : u <> fst t) by (intros E; apply (Hl t (or_introl eq_refl)); symmetry; exact E).
    destruct (good_h_add_quadratic h u (fst t) (snd t) s Hs Ht) as (G1 & G2 & G3).
    assert (D1 : vdir_of h (fst (h_add_quadratic h u (fst t) (snd t) s)) = Some d)
      by (rewrite <- D; apply vdir_kind; apply kind_h_add_quadratic).
    cbn [seqm]. rewrite (bind_ok_eq _ _ G1), (IH _ G2 D1 (fun t' H' => Hl t' (or_intror H'))).
    rewrite (energy_h_add_quadratic_view h d u (fst t) (snd t) s y Hs D Ht). cbn [map qsum]. ring.
Qed.

(* ---------- reading a neighbourhood through the view ---------- *)
Definition vk (d : vdir) : Qc := match d with BinOverSpin => four | SpinOverBin => quarter end.

Lemma vscale_vk h d s b : vdir_of h s = Some d -> vscale h s b = vk d * b.
Proof. intros D. unfold vscale, vk. rewrite D. destruct d; ring. Qed.

Lemma qsum_map_scale {A : Type} (k : Qc) (f : A -> Qc) l : qsum (map (fun x => k * f x) l) = k * qsum (map f l).
Proof. induction l as [|a l IH]; [cbn [map qsum]; ring|]. cbn [map qsum]. rewrite IH. ring. Qed.

Lemma h_nbh_sum h d v t (Y : label -> Qc) u :
  vdir_of h t = Some d ->
  qsum (map (fun p => snd p * Y u * Y (fst p)) (h_nbh h v t)) = vk d * (Y u * vsum t v Y).
Proof.
  intros D. unfold h_nbh. rewrite map_map. cbn [fst snd].
  rewrite (map_ext _ (fun p => vk d * (snd p * Y u * Y (fst p)))); [|intros p; rewrite (vscale_vk h d t _ D); ring].
  rewrite qsum_map_scale. f_equal. unfold nbh, vsum, quad, hasq. apply nb_sum.
Qed.

(* ---------- remove_interaction through a translating view: what it leaves behind ---------- *)
Lemma view_remove_interaction_frame h d u v s :
  B s -> wf s -> vdir_of h s = Some d -> u <> v ->
  has_var s u = true -> has_var s v = true -> hasq s u v = true ->
  let s' := fst (h_remove_interaction h u v s) in
  snd (h_remove_interaction h u v s) = Ok /\ B s' /\ wf s' /\ vdir_of h s' = Some d /\ ge s s'
  /\ (forall y, energy (st_poly s') y
               = energy (st_poly s) y - vscale h s (quad s u v) * view_value d (y u) * view_value d (y v))
  /\ (forall x y, quad s' x y = if same_pair x y u v then 0 else quad s x y)
  /\ hasq s' u v = false.
Proof.
  intros Hs Hw D E Hu Hv Hq s'.
  destruct (view_set_quadratic_frame h d u v 0 s Hs Hw D E) as (S1 & S2 & S3 & S4 & S5 & S6 & S7 & S8 & S9).
  assert (Hg : h_get_quadratic h u v s = Some (vscale h s (quad s u v))).
  { unfold h_get_quadratic. rewrite Hu, Hv, Hq. reflexivity. }
  assert (Hform : h_remove_interaction h u v s
                  = ok (with_poly (fst (h_set_quadratic h u v 0 s))
                          (remove_interaction u v (st_poly (fst (h_set_quadratic h u v 0 s)))))).
  { unfold h_remove_interaction. rewrite D, Hg, (bind_ok_eq _ _ S1). unfold d_remove_interaction.
    rewrite (S5 u Hu), (S5 v Hv), S9, same_pair_refl. reflexivity. }
  unfold s'. rewrite Hform. cbn [ok fst snd].
  set (s1 := fst (h_set_quadratic h u v 0 s)) in *.
  split; [reflexivity|]. split; [exact S2|].
  split; [pose proof (pres_h_remove_interaction h u v s Hw) as P; rewrite Hform in P; exact P|].
  split; [rewrite <- S4; apply vdir_kind; reflexivity|]. split; [exact S5|]. split; [|split].
  - intros y. cbn [with_poly st_poly]. rewrite energy_remove_interaction. fold (quad s1 u v). rewrite S7, (S6 y), kqm_zero. ring.
  - intros x y. unfold quad at 1. cbn [with_poly st_poly]. rewrite quad_coeff_remove_interaction.
    destruct (same_pair x y u v) eqn:P; [reflexivity|]. fold (quad s1 x y). apply S8. exact P.
  - unfold hasq. cbn [with_poly st_poly]. rewrite has_pair_remove_interaction, same_pair_refl. reflexivity.
Qed.

Lemma nbh_sum_vsum s v : nbh_sum s v = vsum s v (fun _ => 1).
Proof.
  unfold nbh_sum, nbh, vsum, quad, hasq. induction (labels s) as [|w L IH]; [reflexivity|].
  rewrite wsum_cons. cbn [filter]. destruct (has_pair (p_quad (st_poly s)) v w) eqn:H.
  - cbn [map qsum snd]. rewrite IH. ring.
  - rewrite IH, (quad_coeff_no_pair _ v w H). ring.
Qed.

Lemma same_pair_quad s x y u v : same_pair x y u v = true -> quad s x y = quad s u v.
Proof.
  intros H. apply same_pair_cases in H. destruct H as [[-> ->]|[-> ->]]; [reflexivity|]. unfold quad. apply quad_coeff_sym.
Qed.

Lemma energy_h_add_offset_view h d b s y :
  vdir_of h s = Some d -> energy (st_poly (fst (h_add_offset h b s))) y = energy (st_poly s) y + b.
Proof.
  intros D. unfold h_add_offset.
  destruct (view_step_set_offset h d (h_get_offset h s + b) s y D) as (_ & _ & E & _). cbn [step] in E. rewrite E. ring.
Qed.

Lemma kind_h_add_offset h b s : st_kind (fst (h_add_offset h b s)) = st_kind s.
Proof. unfold h_add_offset, h_set_offset. destruct (vdir_of h s); reflexivity. Qed.

(* stages 1-3 of contract_variables through a translating view *)
Section Contract.
Variables (h : handle) (d : vdir) (u v : label) (s : state).
Hypotheses (Hs : B s) (Hw : wf s) (D : vdir_of h s = Some d) (Hu : has_var s u = true) (Hv : has_var s v = true) (Huv : u <> v).

Definition Lv : Qc := opt0 (h_get_linear h v s).
Definition qv : Qc := vk d * quad s u v.
Definition c2 (y : sample) : Qc := match d with BinOverSpin => view_value d (y u) | SpinOverBin => 1 end.

Definition stage2 : res :=
  h_add_linear h u Lv s >>= (fun s => match d with BinOverSpin => h_add_linear h u qv s | SpinOverBin => h_add_offset h qv s end).

Lemma stage2_facts :
  let s2 := fst stage2 in
  snd stage2 = Ok /\ B s2 /\ wf s2 /\ vdir_of h s2 = Some d /\ ge s s2 /\ sameq s s2
  /\ forall y, energy (st_poly s2) y = energy (st_poly s) y + Lv * view_value d (y u) + qv * c2 y.
Proof.
  unfold stage2.
  destruct (good_h_add_linear h u Lv s Hs) as (G1 & G2 & G3). rewrite (bind_ok_eq _ _ G1).
  set (s1 := fst (h_add_linear h u Lv s)) in *.
  assert (W1 : wf s1) by (apply pres_h_add_linear; exact Hw).
  assert (D1 : vdir_of h s1 = Some d) by (rewrite <- D; apply vdir_kind; apply kind_h_add_linear).
  assert (Q1 : sameq s s1) by (apply sameq_h_add_linear; exact Hs).
  assert (E1 : forall y, energy (st_poly s1) y = energy (st_poly s) y + Lv * view_value d (y u))
    by (intros y; apply energy_h_add_linear_view; assumption).
  unfold c2. destruct d.
  - destruct (good_h_add_linear h u qv s1 G2) as (A1 & A2 & A3).
    split; [exact A1|]. split; [exact A2|]. split; [apply pres_h_add_linear; exact W1|].
    split; [rewrite <- D1; apply vdir_kind; apply kind_h_add_linear|]. split; [eapply ge_trans; eassumption|].
    split; [eapply sameq_trans; [exact Q1|apply sameq_h_add_linear; exact G2]|].
    intros y. rewrite (energy_h_add_linear_view h BinOverSpin u qv s1 y G2 D1), E1. ring.
  - destruct (good_h_add_offset h (fun _ => qv) s1 G2) as (A1 & A2 & A3).
    split; [exact A1|]. split; [exact A2|]. split; [apply (pres_h_add_offset h (fun _ => qv)); exact W1|].
    split; [rewrite <- D1; apply vdir_kind; apply kind_h_add_offset|]. split; [eapply ge_trans; eassumption|].
    split; [eapply sameq_trans; [exact Q1|unfold h_add_offset; apply sameq_h_set_offset]|].
    intros y. rewrite (energy_h_add_offset_view h SpinOverBin qv s1 y D1), E1. ring.
Qed.

End Contract.

Section Contract3.
Variables (h : handle) (d : vdir) (u v : label) (s : state).
Hypotheses (Hs : B s) (Hw : wf s) (D : vdir_of h s = Some d) (Hu : has_var s u = true) (Hv : has_var s v = true) (Huv : u <> v).

Definition stage3 : res :=
  stage2 h d u v s >>= (fun s2 => if hasq s u v then h_remove_interaction h u v s2 else ok s2).

Lemma stage3_facts :
  let s3 := fst stage3 in
  snd stage3 = Ok /\ B s3 /\ wf s3 /\ vdir_of h s3 = Some d /\ ge s s3 /\ hasq s3 u v = false
  /\ (forall x y, quad s3 x y = if same_pair x y u v then 0 else quad s x y)
  /\ forall y, energy (st_poly s3) y
              = energy (st_poly s) y + Lv h v s * view_value d (y u) + qv d u v s * c2 d u y
                - qv d u v s * view_value d (y u) * view_value d (y v).
Proof.
  destruct (stage2_facts h d u v s Hs Hw D) as (A1 & A2 & A3 & A4 & A5 & A6 & A7).
  unfold stage3. rewrite (bind_ok_eq _ _ A1). set (s2 := fst (stage2 h d u v s)) in *.
  assert (Hq2 : forall x y, quad s2 x y = quad s x y) by (intros x y; unfold quad; rewrite A6; reflexivity).
  destruct (hasq s u v) eqn:Hq.
  - assert (Hq' : hasq s2 u v = true) by (rewrite (hasq_sameq s s2 u v A6); exact Hq).
    destruct (view_remove_interaction_frame h d u v s2 A2 A3 A4 Huv (A5 u Hu) (A5 v Hv) Hq')
      as (R1 & R2 & R3 & R4 & R5 & R6 & R7 & R8).
    split; [exact R1|]. split; [exact R2|]. split; [exact R3|]. split; [exact R4|]. split; [eapply ge_trans; eassumption|].
    split; [exact R8|]. split.
    + intros x y. rewrite R7, Hq2. reflexivity.
    + intros y. rewrite (R6 y), (A7 y), (vscale_vk h d s2 _ A4), Hq2. unfold qv. ring.
  - cbn [ok fst snd]. split; [reflexivity|]. split; [exact A2|]. split; [exact A3|]. split; [exact A4|]. split; [exact A5|].
    assert (Z : quad s u v = 0) by (unfold quad; apply quad_coeff_no_pair; exact Hq).
    split; [rewrite (hasq_sameq s s2 u v A6); exact Hq|]. split.
    + intros x y. rewrite Hq2. destruct (same_pair x y u v) eqn:P; [|reflexivity]. rewrite (same_pair_quad s x y u v P). exact Z.
    + intros y. rewrite (A7 y). unfold qv. rewrite Z. ring.
Qed.

End Contract3.

Lemma vsum_lin s v (f g : label -> Qc) a b :
  vsum s v (fun w => a * f w + b * g w) = a * vsum s v f + b * vsum s v g.
Proof.
  unfold vsum. rewrite <- !wsum_scale, <- wsum_add. apply wsum_ext. intros w _. ring.
Qed.

Theorem contract_energy_view h d u v s y :
  B s -> wf s -> vdir_of h s = Some d -> has_var s u = true -> has_var s v = true -> u <> v ->
  (match d with BinOverSpin => hvt h s = BINARY | SpinOverBin => hvt h s <> BINARY end) ->
  (match d with BinOverSpin => y u * y u = 1 | SpinOverBin => y u * y u = y u end) ->
  snd (step s (h, OContract u v)) = Ok /\
  energy (st_poly (fst (step s (h, OContract u v)))) y = energy (st_poly s) (upd y v (y u)).
Proof.
  intros Hs Hw D Hu Hv Huv Hhv Hrule.
  assert (Hb : is_bqm s = true) by exact Hs.
  cbn [step]. rewrite Hb.
  (* the call is the five stages *)
  assert (Hq_eq : opt0 (h_get_quadratic h u v s) = qv d u v s).
  { unfold h_get_quadratic, qv. rewrite Hu, Hv. cbn [andb]. destruct (hasq s u v) eqn:Hq; cbn [opt0].
    - apply vscale_vk. exact D.
    - unfold quad. rewrite (quad_coeff_no_pair _ u v Hq). ring. }
  assert (Hhad : match h_get_quadratic h u v s with Some _ => true | None => false end = hasq s u v).
  { unfold h_get_quadratic. rewrite Hu, Hv. cbn [andb]. destruct (hasq s u v); reflexivity. }
  assert (Hform : m_contract h u v s
                  = stage3 h d u v s >>= (fun s3 => seqm (fun t => h_add_quadratic h u (fst t) (snd t)) (h_nbh h v s3) s3)
                    >>= h_remove_variable h (Some v)).
  { unfold m_contract, stage3, stage2, Lv. rewrite Hu, Hv. cbn [andb negb orb].
    destruct (Nat.eqb_spec u v) as [E|_]; [contradiction|]. rewrite Hq_eq, Hhad.
    destruct h as [|wv]; [discriminate|]. cbn [hvt] in *.
    destruct d; [rewrite Hhv; reflexivity|]. destruct wv; try reflexivity. exfalso. apply Hhv. reflexivity. }
  rewrite Hform.
  destruct (stage3_facts h d u v s Hs Hw D Hu Hv Huv) as (A1 & A2 & A3 & A4 & A5 & A6 & A7 & A8).
  rewrite (bind_ok_eq _ _ A1). set (s3 := fst (stage3 h d u v s)) in *.
  assert (Hl : forall t, In t (h_nbh h v s3) -> fst t <> u).
  { intros t Ht E. apply h_nbh_in in Ht. destruct Ht as [Ht _]. rewrite E in Ht.
    unfold hasq in Ht, A6. rewrite has_pair_sym in Ht. congruence. }
  destruct (add_quadratic_loop h d u (fun _ => 0) (h_nbh h v s3) s3 A2 A4 Hl) as (L1 & L2 & L3 & L4).
  rewrite (bind_ok_eq _ _ L1).
  set (s4 := fst (seqm (fun t => h_add_quadratic h u (fst t) (snd t)) (h_nbh h v s3) s3)) in *.
  assert (W4 : wf s4) by (apply pres_seqm; [intros x; apply pres_h_add_quadratic|exact A3]).
  assert (Hv4 : has_var s4 v = true) by (apply L4; apply A5; exact Hv).
  destruct (view_step_remove_variable h d v s4 y L2 W4 L3 Hv4) as (R1 & R2). cbn [step] in R1, R2.
  split; [exact R1|]. rewrite R2.
  set (y' := upd y v (zp d)).
  assert (Xv : view_value d (y' v) = 0).
  { unfold y', upd. rewrite Nat.eqb_refl. pose proof two_half as TH0. destruct d; unfold view_value, zp; [ring|ring [TH0]]. }
  assert (Xo : forall w, w <> v -> y' w = y w) by (intros w Hne; unfold y', upd; destruct (Nat.eqb_spec w v); [contradiction|reflexivity]).
  unfold s4. rewrite (add_quadratic_loop_energy h d u y' (h_nbh h v s3) s3 A2 A4 Hl).
  rewrite (h_nbh_sum h d v s3 (fun w => view_value d (y' w)) u A4), (A8 y'), Xv, (Xo u Huv).
  (* the neighbourhood read at stage 3, in terms of the original model *)
  set (X := fun w => view_value d (y w)).
  assert (V3 : vsum s3 v (fun w => view_value d (y' w)) = vsum s v X - quad s u v * X u).
  { unfold vsum at 1.
    rewrite (wsum_ext _ (fun w => quad s v w * X w - (if (w =? u)%nat then quad s u v * X w else 0))).
    - rewrite (wsum_ext (fun w => quad s v w * X w - _) (fun w => quad s v w * X w + (- (1)) * (if (w =? u)%nat then quad s u v * X w else 0)))
        by (intros; ring).
      rewrite wsum_add, wsum_scale, (wsum_indicator (fun w => quad s u v * X w) u (labels s3) (proj1 A3));
        [|apply has_var_In; apply A5; exact Hu].
      rewrite (vsum_any_list s v X (labels s3) Hs Hw (proj1 A3)); [ring|].
      intros x Hx. apply has_var_In. apply A5. apply has_var_In. exact Hx.
    - intros w _. rewrite A7. unfold same_pair. rewrite Nat.eqb_refl.
      destruct (Nat.eqb_spec v u) as [E|_]; [exfalso; apply Huv; symmetry; exact E|]. cbn [andb orb].
      destruct (Nat.eqb_spec w u) as [->|Hne].
      + assert (Sy : quad s v u = quad s u v) by (unfold quad; apply quad_coeff_sym). rewrite Sy. ring.
      + destruct (Nat.eqb_spec w v) as [->|Hnv].
        * rewrite (quad_self_zero s v Hs Hw). ring.
        * unfold X. rewrite (Xo w Hnv). ring. }
  rewrite V3.
  (* the target, by affinity in the variable v *)
  rewrite (energy_affine s v y (y u) Hs Hw). unfold y'. rewrite (energy_affine s v y (zp d) Hs Hw).
  set (S := vsum s v y). set (N := vsum s v (fun _ => 1)). set (l := lin s v). set (q := quad s u v).
  assert (HL : Lv h v s = match d with BinOverSpin => two * l - two * N | SpinOverBin => l * half + N * quarter end).
  { unfold Lv, h_get_linear. rewrite Hv, D, nbh_sum_vsum. cbn [opt0]. destruct d; reflexivity. }
  assert (HX : vsum s v X = match d with BinOverSpin => half * S + half * N | SpinOverBin => two * S + (- (1)) * N end).
  { unfold X, S, N. destruct d; unfold view_value.
    - rewrite <- (vsum_lin s v y (fun _ => 1) half half). unfold vsum. apply wsum_ext. intros w _. ring.
    - rewrite <- (vsum_lin s v y (fun _ => 1) two (- (1))). unfold vsum. apply wsum_ext. intros w _. ring. }
  rewrite HL, HX. unfold qv, c2, X, vk. fold q.
  pose proof two_half as TH.
  assert (H2 : half * half * two * two = 1) by (transitivity ((two * half) * (two * half)); [ring|rewrite TH; ring]).
  generalize (energy (remove_variable v (st_poly s)) y). intros R.
  assert (Yu : upd y v (zp d) u = y u) by (exact (Xo u Huv)).
  clearbody l S N q. clear - TH H2 Hrule Yu.
  destruct d; unfold view_value, zp, four, quarter in *; cbv beta iota in Hrule |- *.
  - rewrite ?Yu. revert Hrule. generalize (y u). intros a Hrule.
    transitivity (R + a * (l + S) + q * (1 - a * a)); [unfold two in *; ring [TH]|rewrite Hrule; ring].
  - revert Hrule. generalize (y u). intros a Hrule.
    transitivity (R + a * (l + S) + q * (a - a * a)); [unfold two in *; ring [TH]|rewrite Hrule; ring].
Qed.

Print Assumptions contract_energy_view.

(* every .spin / .binary handle (translating or not) and the base object *)
Theorem contract_energy_any_handle h u v s y :
  (match h with Direct => True | Via wv => is_sb wv = true end) ->
  B s -> wf s -> has_var s u = true -> has_var s v = true -> u <> v ->
  (match bvt s with BINARY => y u * y u = y u | _ => y u * y u = 1 end) ->
  snd (step s (h, OContract u v)) = Ok /\
  energy (st_poly (fst (step s (h, OContract u v)))) y = energy (st_poly s) (upd y v (y u)).
Proof.
  intros Hh Hs Hw Hu Hv Huv Hrule.
  destruct (vdir_of h s) as [d|] eqn:D.
  - destruct h as [|wv]; [discriminate|]. cbn [vdir_of] in D.
    destruct (B_kind s Hs) as [vt K]. pose proof Hw as (W1 & W2 & W3 & W4). destruct (W4 vt K) as [Hsb _].
    assert (Hbvt : bvt s = vt) by (unfold bvt; rewrite K; reflexivity).
    apply (contract_energy_view (Via wv) d u v s y); try assumption.
    + cbn [hvt]. rewrite Hbvt in D. destruct wv; try discriminate; destruct vt; try discriminate; cbn in D;
        injection D as <-; try reflexivity; discriminate.
    + rewrite Hbvt in D, Hrule. destruct wv; try discriminate; destruct vt; try discriminate; cbn in D;
        injection D as <-; exact Hrule.
  - apply contract_energy_same_vartype_handle; assumption.
Qed.

Print Assumptions contract_energy_any_handle.
