(* Read-after-write characterisations of the quadratic mutators. *)
From Coq Require Import List ZArith QArith Qcanon Bool Arith Lia Sorted.
From Dimod Require Import Base.Util Model.Poly Model.Adj Proofs.AdjNb Proofs.AdjInv.
Import ListNotations.
Local Open Scope nat_scope.

Lemma Inv_len_adj m : Inv m -> length (adj m) = nvars m.
Proof. intros H. apply Inv_InvG in H. apply H. Qed.

Lemma Inv_sorted m u : Inv m -> ksorted (nb m u).
Proof. intros H. apply Inv_InvG in H. apply H. Qed.

Lemma Inv_sym m u v : Inv m -> nb_get v (nb m u) = nb_get u (nb m v).
Proof. intros H. apply Inv_InvG in H. destruct H as [_ HA]. apply (AdjOK_sym_eq _ _ _ u v HA). Qed.

Lemma Inv_bound m u w b : Inv m -> nb_get w (nb m u) = Some b -> u < nvars m /\ w < nvars m.
Proof.
  intros H Hg. apply Inv_InvG in H. destruct H as [_ [H1 [_ [H3 _]]]]. split.
  - rewrite <- H1. eapply get_lt_len, Hg.
  - eapply H3, Hg.
Qed.

Lemma quadratic_sym m u v : Inv m -> quadratic m u v = quadratic m v u.
Proof. intros H. unfold quadratic. rewrite (Inv_sym m u v H). reflexivity. Qed.

Lemma has_interaction_sym m u v : Inv m -> has_interaction m u v = has_interaction m v u.
Proof. intros H. unfold has_interaction. rewrite (Inv_sym m u v H). reflexivity. Qed.

Ltac eqb_all :=
  repeat match goal with
         | |- context [?a =? ?b] =>
             destruct (Nat.eqb_spec a b); [first [subst a|subst b|idtac]|]; cbn [andb orb negb]
         end; try congruence; try reflexivity.

(* which stored entries add_quadratic u v touches *)
Definition aq_hit (m : qm) (u v x y : nat) : bool :=
  same_pair x y u v && negb ((u =? v) && is_binspin (vt_at m u)).

Lemma get_add_quadratic m u v b x y :
  length (adj m) = nvars m -> u < nvars m -> v < nvars m ->
  nb_get y (nb (add_quadratic u v b m) x) =
  if aq_hit m u v x y then Some (odef (nb_get y (nb m x)) + b)%Qc else nb_get y (nb m x).
Proof.
  intros Hl Hu Hv. rewrite <- Hl in Hu, Hv. unfold aq_hit, same_pair, add_quadratic, nb.
  destruct (Nat.eqb_spec u v) as [->|Hne].
  - cbn [andb]. destruct (vt_at m v) eqn:Et; cbn [is_binspin negb Adj.add_linear Adj.add_offset adj].
    + rewrite andb_false_r. reflexivity.
    + rewrite andb_false_r. reflexivity.
    + rewrite get_upsert_self by exact Hv. rewrite andb_true_r, orb_diag. destruct (_ && _) eqn:E; [|reflexivity].
      apply andb_true_iff in E. destruct E as [E1 E2]. apply Nat.eqb_eq in E1, E2. subst. reflexivity.
    + rewrite get_upsert_self by exact Hv. rewrite andb_true_r, orb_diag. destruct (_ && _) eqn:E; [|reflexivity].
      apply andb_true_iff in E. destruct E as [E1 E2]. apply Nat.eqb_eq in E1, E2. subst. reflexivity.
  - cbn [adj andb negb]. rewrite andb_true_r. rewrite get_upsert_both by assumption.
    eqb_all.
Qed.

Theorem quadratic_add_quadratic m u v b x y :
  length (adj m) = nvars m -> u < nvars m -> v < nvars m ->
  quadratic (add_quadratic u v b m) x y =
  (quadratic m x y + (if aq_hit m u v x y then b else 0))%Qc.
Proof.
  intros Hl Hu Hv. unfold quadratic. rewrite get_add_quadratic by assumption.
  destruct (aq_hit m u v x y); [reflexivity|]. fold (odef (nb_get y (nb m x))). ring.
Qed.

Theorem has_interaction_add_quadratic m u v b x y :
  length (adj m) = nvars m -> u < nvars m -> v < nvars m ->
  has_interaction (add_quadratic u v b m) x y = aq_hit m u v x y || has_interaction m x y.
Proof.
  intros Hl Hu Hv. unfold has_interaction. rewrite get_add_quadratic by assumption.
  destruct (aq_hit m u v x y); reflexivity.
Qed.

(* a self interaction on a BINARY / SPIN variable goes to the linear bias / the offset *)
Lemma add_quadratic_self_binary u b m :
  vt_at m u = BINARY -> add_quadratic u u b m = add_linear u b m.
Proof. intros E. unfold add_quadratic. rewrite Nat.eqb_refl, E. reflexivity. Qed.

Lemma add_quadratic_self_spin u b m :
  vt_at m u = SPIN -> add_quadratic u u b m = Adj.add_offset b m.
Proof. intros E. unfold add_quadratic. rewrite Nat.eqb_refl, E. reflexivity. Qed.

Lemma linear_add_linear v b m x :
  v < nvars m -> linear (add_linear v b m) x = (linear m x + (if x =? v then b else 0))%Qc.
Proof.
  intros Hv. unfold linear, add_linear. cbn [lin]. destruct (Nat.eqb_spec x v) as [->|Nx].
  - rewrite nth_upd_nth_same by exact Hv. reflexivity.
  - rewrite nth_upd_nth_other by exact Nx. ring.
Qed.

(* ---------- set_quadratic ---------- *)
Lemma set_quadratic_None_iff u v b m :
  set_quadratic u v b m = None <-> u = v /\ is_binspin (vt_at m u) = true.
Proof.
  unfold set_quadratic. destruct (Nat.eqb_spec u v) as [->|Hne].
  - destruct (is_binspin (vt_at m v)); split; try discriminate; auto. intros [_ E]; discriminate.
  - split; [discriminate|]. intros [E _]. contradiction.
Qed.

Lemma get_set_quadratic m m' u v b x y :
  length (adj m) = nvars m -> u < nvars m -> v < nvars m ->
  set_quadratic u v b m = Some m' ->
  nb_get y (nb m' x) = if same_pair x y u v then Some b else nb_get y (nb m x).
Proof.
  intros Hl Hu Hv. rewrite <- Hl in Hu, Hv. unfold same_pair, set_quadratic, nb.
  destruct (Nat.eqb_spec u v) as [->|Hne].
  - destruct (is_binspin (vt_at m v)); [discriminate|]. intros [= <-]. cbn [adj].
    rewrite get_upsert_self by exact Hv. rewrite orb_diag. reflexivity.
  - intros [= <-]. cbn [adj]. rewrite get_upsert_both by assumption.
    eqb_all.
Qed.

Theorem quadratic_set_quadratic m m' u v b x y :
  length (adj m) = nvars m -> u < nvars m -> v < nvars m ->
  set_quadratic u v b m = Some m' ->
  quadratic m' x y = if same_pair x y u v then b else quadratic m x y.
Proof.
  intros Hl Hu Hv E. unfold quadratic. rewrite (get_set_quadratic m m' u v b) by assumption.
  destruct (same_pair x y u v); reflexivity.
Qed.

Theorem has_interaction_set_quadratic m m' u v b x y :
  length (adj m) = nvars m -> u < nvars m -> v < nvars m ->
  set_quadratic u v b m = Some m' ->
  has_interaction m' x y = same_pair x y u v || has_interaction m x y.
Proof.
  intros Hl Hu Hv E. unfold has_interaction. rewrite (get_set_quadratic m m' u v b) by assumption.
  destruct (same_pair x y u v); reflexivity.
Qed.

Lemma set_quadratic_keeps u v b m m' :
  set_quadratic u v b m = Some m' -> lin m' = lin m /\ off m' = off m /\ vts m' = vts m.
Proof.
  unfold set_quadratic. destruct (u =? v); [destruct (is_binspin _); [discriminate|]|];
    intros [= <-]; auto.
Qed.

(* ---------- remove_interaction ---------- *)
Lemma get_remove_interaction m u v x y :
  Inv m ->
  nb_get y (nb (fst (remove_interaction u v m)) x) =
  if same_pair x y u v then None else nb_get y (nb m x).
Proof.
  intros HI. rewrite remove_interaction_fst. unfold same_pair.
  destruct (nb_get v (nb m u)) as [c|] eqn:E.
  - unfold nb. cbn [adj]. apply get_erase_both. intros k. apply (Inv_sorted m k HI).
  - destruct (_ || _) eqn:Eh; [|reflexivity]. apply orb_true_iff in Eh.
    destruct Eh as [Eh|Eh]; apply andb_true_iff in Eh; destruct Eh as [E1 E2];
      apply Nat.eqb_eq in E1, E2; subst; [exact E|]. rewrite (Inv_sym m v u HI). exact E.
Qed.

Theorem quadratic_remove_interaction m u v x y :
  Inv m ->
  quadratic (fst (remove_interaction u v m)) x y =
  if same_pair x y u v then 0%Qc else quadratic m x y.
Proof.
  intros HI. unfold quadratic. rewrite get_remove_interaction by exact HI.
  destruct (same_pair x y u v); reflexivity.
Qed.

Theorem has_interaction_remove_interaction m u v x y :
  Inv m ->
  has_interaction (fst (remove_interaction u v m)) x y =
  negb (same_pair x y u v) && has_interaction m x y.
Proof.
  intros HI. unfold has_interaction. rewrite get_remove_interaction by exact HI.
  destruct (same_pair x y u v); reflexivity.
Qed.

Lemma remove_interaction_snd u v m : snd (remove_interaction u v m) = has_interaction m u v.
Proof. unfold remove_interaction, has_interaction. destruct (nb_get v (nb m u)); reflexivity. Qed.
