(* The label layer of the whole-history refinement: a history of labelled operations run on the
   index-level model with Variables as the list of labels (Model/ExprLab.v lstep) stands, read
   through the labels, for the same history run on a plain list of polynomials over labels
   (lsstep) - for EVERY history. *)
From Coq Require Import List ZArith QArith Qcanon Bool Arith Lia.
From Dimod Require Import Base.Util Model.Poly Model.Expr Model.ExprOps Model.CQMSpec Model.ExprLab
  Proofs.PolyFacts Proofs.CoeffSound Proofs.ExprFacts Proofs.ExprViewFacts Proofs.RefineFacts Proofs.ExprSim Proofs.CqmSim Proofs.LabVars.
Import ListNotations.
Open Scope Qc_scope.

Definition Lfun (labels : list nat) (i : nat) : nat := nth i labels 0%nat.
Definition Rel (labels : list nat) (e : mexpr) (P : poly) : Prop := peq (relabel (Lfun labels) (abs_expr e)) P.

Lemma peq_sym : forall a b, peq a b -> peq b a. Proof. intros a b H s. symmetry. apply H. Qed.
Lemma peq_relabel : forall f a b, peq a b -> peq (relabel f a) (relabel f b).
Proof. intros f a b H s. rewrite !energy_relabel. apply H. Qed.

(* ---------- labels are injective on the index range ---------- *)
Lemma L_eqb : forall labels i j, NoDup labels -> (i < length labels)%nat -> (j < length labels)%nat ->
  (Lfun labels i =? Lfun labels j)%nat = (i =? j)%nat.
Proof. intros labels i j ND Hi Hj. unfold Lfun. apply label_eqb; assumption. Qed.

Lemma resolve_L : forall labels l v, resolve labels l = Some v -> Lfun labels v = l /\ (v < length labels)%nat.
Proof.
  intros labels l v H. unfold resolve in H. split.
  - unfold Lfun. apply nth_error_nth. apply index_of_nth. exact H.
  - eapply index_of_lt. exact H.
Qed.

Lemma resolve_memb : forall labels l, memb l labels = match resolve labels l with Some _ => true | None => false end.
Proof.
  intros labels l. unfold resolve. destruct (index_of l labels) as [i|] eqn:F.
  - apply index_of_nth in F. apply nth_error_In in F. unfold memb. apply existsb_exists. exists l. split; [exact F|apply Nat.eqb_refl].
  - apply index_of_None in F. unfold memb. destruct (existsb (Nat.eqb l) labels) eqn:E; [|reflexivity].
    apply existsb_eqb_In in E. contradiction.
Qed.

(* samples that agree on the variables of the expression give the same energy *)
Lemma Rel_energy : forall labels e P s, Rel labels e P -> energy P s = energy (abs_expr e) (fun i => s (Lfun labels i)).
Proof. intros labels e P s H. rewrite <- (H s), energy_relabel. reflexivity. Qed.

(* ---------- operations on every expression ---------- *)
Lemma lab_substitute : forall n labels e P v m c, ExprInv n e -> NoDup labels -> length labels = n -> (v < n)%nat ->
  Rel labels e P -> Rel labels (m_substitute v m c e) (substitute (Lfun labels v) m c P).
Proof.
  intros n labels e P v m c I ND Hlen Hv R s. rewrite energy_relabel, (substitute_sim n e v m c _ I), !energy_substitute.
  rewrite (Rel_energy labels e P _ R). apply (energy_abs_ext n e _ _ I). intros u Hu.
  assert (Hun : (u < length labels)%nat). { rewrite Hlen. pose proof (inv_lt _ _ I) as LT. rewrite Forall_forall in LT. apply LT. exact Hu. }
  unfold aff, upd. rewrite (L_eqb labels u v ND Hun) by lia. reflexivity.
Qed.

Lemma Lfun_remove : forall labels v u, u <> v -> Lfun (remove_nth v labels) (shift v u) = Lfun labels u.
Proof. intros labels v u H. unfold Lfun. apply nth_remove_nth. exact H. Qed.

Lemma lab_fix : forall n labels e P v a, ExprInv n e -> NoDup labels -> length labels = n -> (v < n)%nat ->
  Rel labels e P -> Rel (remove_nth v labels) (m_fix v a e) (fix_variable (Lfun labels v) a P).
Proof.
  intros n labels e P v a I ND Hlen Hv R s. rewrite energy_relabel, (fix_energy n e v a _ I), energy_fix_variable.
  rewrite (Rel_energy labels e P _ R). apply (energy_abs_ext n e _ _ I). intros u Hu.
  assert (Hun : (u < length labels)%nat). { rewrite Hlen. pose proof (inv_lt _ _ I) as LT. rewrite Forall_forall in LT. apply LT. exact Hu. }
  unfold upd. rewrite (L_eqb labels u v ND Hun) by lia. destruct (Nat.eqb_spec u v) as [->|Hne]; [reflexivity|].
  rewrite Lfun_remove by exact Hne. reflexivity.
Qed.

Lemma lab_reindex : forall n labels e P v, ExprInv n e -> NoDup labels -> length labels = n -> (v < n)%nat ->
  Rel labels e P -> Rel (remove_nth v labels) (m_reindex v e) (remove_variable (Lfun labels v) P).
Proof.
  intros n labels e P v I ND Hlen Hv R s.
  rewrite energy_relabel, (reindex_abs n e v I), energy_relabel, !energy_remove_variable_zero.
  rewrite (Rel_energy labels e P _ R). apply (energy_abs_ext n e _ _ I). intros u Hu.
  assert (Hun : (u < length labels)%nat). { rewrite Hlen. pose proof (inv_lt _ _ I) as LT. rewrite Forall_forall in LT. apply LT. exact Hu. }
  unfold upd. rewrite (L_eqb labels u v ND Hun) by lia. destruct (Nat.eqb_spec u v) as [->|Hne]; [reflexivity|].
  rewrite Lfun_remove by exact Hne. reflexivity.
Qed.

Lemma lab_add_variable : forall n labels e P l, ExprInv n e -> length labels = n -> Rel labels e P -> Rel (labels ++ [l]) e P.
Proof.
  intros n labels e P l I Hlen R s. rewrite energy_relabel, (Rel_energy labels e P _ R).
  apply (energy_abs_ext n e _ _ I). intros u Hu.
  assert (Hun : (u < length labels)%nat). { rewrite Hlen. pose proof (inv_lt _ _ I) as LT. rewrite Forall_forall in LT. apply LT. exact Hu. }
  unfold Lfun. rewrite app_nth1 by exact Hun. reflexivity.
Qed.

Lemma lab_relabel : forall n labels e P f, ExprInv n e -> length labels = n ->
  Rel labels e P -> Rel (map f labels) e (relabel f P).
Proof.
  intros n labels e P f I Hlen R s. rewrite !energy_relabel, (Rel_energy labels e P _ R).
  apply (energy_abs_ext n e _ _ I). intros u Hu.
  assert (Hun : (u < length labels)%nat). { rewrite Hlen. pose proof (inv_lt _ _ I) as LT. rewrite Forall_forall in LT. apply LT. exact Hu. }
  unfold Lfun. rewrite (nth_indep (map f labels) 0%nat (f 0%nat)) by (rewrite map_length; exact Hun).
  rewrite map_nth. reflexivity.
Qed.

(* ---------- edits of one expression: the index-level polynomial operation commutes with the labels ---------- *)
Definition map_eop (f : nat -> nat) (o : eop) : eop :=
  match o with
  | EAddLinear v b => EAddLinear (f v) b
  | ESetLinear v b => ESetLinear (f v) b
  | EAddQuadratic u v b => EAddQuadratic (f u) (f v) b
  | ERemoveInteraction u v => ERemoveInteraction (f u) (f v)
  | ERemoveVariable v => ERemoveVariable (f v)
  | EAddOffset b => EAddOffset b
  | ESetOffset b => ESetOffset b
  | EClear => EClear
  end.

Lemma map_filter_comm : forall {A B} (g : A -> B) (P : A -> bool) (Q : B -> bool) l,
  (forall t, In t l -> P t = Q (g t)) -> map g (filter P l) = filter Q (map g l).
Proof.
  intros A B g P Q l H. rewrite filter_map_comm. f_equal. apply filter_ext_in. exact H.
Qed.

Lemma relabel_spec_eop : forall n labels vt vtl o p, NoDup labels -> length labels = n -> labels_below n p ->
  eop_ok n o = true -> (forall v, (v < n)%nat -> vtl (Lfun labels v) = vt v) ->
  relabel (Lfun labels) (spec_eop vt o p) = spec_eop vtl (map_eop (Lfun labels) o) (relabel (Lfun labels) p).
Proof.
  intros n labels vt vtl o p ND Hlen [Bl Bq] OK Hvt.
  assert (E : forall i j, (i < n)%nat -> (j < n)%nat -> (Lfun labels i =? Lfun labels j)%nat = (i =? j)%nat).
  { intros i j Hi Hj. apply L_eqb; [exact ND| |]; rewrite Hlen; assumption. }
  destruct o; cbn [eop_ok spec_eop map_eop] in *.
  - reflexivity.
  - apply Nat.ltb_lt in OK. unfold set_linear, relabel. cbn [p_off p_lin p_quad map]. f_equal. f_equal.
    apply map_filter_comm. intros t Ht. cbn [fst]. rewrite E; [reflexivity|apply Bl; exact Ht|exact OK].
  - apply andb_true_iff in OK. destruct OK as [Hu Hv]. apply Nat.ltb_lt in Hu. apply Nat.ltb_lt in Hv.
    unfold spec_add_quadratic, add_quadratic. rewrite (E u v Hu Hv), (Hvt u Hu).
    destruct (u =? v)%nat; [destruct (vt u)|]; reflexivity.
  - apply andb_true_iff in OK. destruct OK as [Hu Hv]. apply Nat.ltb_lt in Hu. apply Nat.ltb_lt in Hv.
    unfold remove_interaction, relabel. cbn [p_off p_lin p_quad]. f_equal.
    apply map_filter_comm. intros t Ht. destruct (Bq t Ht) as [Ha Hb]. cbn [fst snd]. unfold same_pair.
    rewrite !E by assumption. reflexivity.
  - apply Nat.ltb_lt in OK. unfold remove_variable, relabel. cbn [p_off p_lin p_quad]. f_equal.
    + apply map_filter_comm. intros t Ht. cbn [fst]. rewrite E; [reflexivity|apply Bl; exact Ht|exact OK].
    + apply map_filter_comm. intros t Ht. destruct (Bq t Ht) as [Ha Hb]. unfold mentions. cbn [fst snd].
      rewrite !E by assumption. reflexivity.
  - reflexivity.
  - reflexivity.
  - reflexivity.
Qed.

Lemma abs_below : forall n e, ExprInv n e -> labels_below n (abs_expr e).
Proof.
  intros n e [ND LT LEN QD IDX]. rewrite Forall_forall in LT, QD. split; cbn [abs_expr p_lin p_quad].
  - intros [u b] Ht. apply in_combine_l in Ht. cbn [fst]. apply LT. exact Ht.
  - intros t Ht. apply in_map_iff in Ht. destruct Ht as [[[a b] w] [<- Hin]]. destruct (QD _ Hin) as [Ha Hb]. cbn [fst snd] in *.
    split; apply LT; apply nth_In; assumption.
Qed.

Lemma resolve_eop_spec : forall labels o o', resolve_eop labels o = Some o' ->
  map_eop (Lfun labels) o' = o /\ eop_ok (length labels) o' = true.
Proof.
  intros labels o o' H. destruct o; cbn [resolve_eop] in H.
  - destruct (resolve labels v) as [i|] eqn:F; [|discriminate]. injection H as <-. destruct (resolve_L _ _ _ F) as [A B].
    cbn [map_eop eop_ok]. rewrite A. split; [reflexivity|apply Nat.ltb_lt; exact B].
  - destruct (resolve labels v) as [i|] eqn:F; [|discriminate]. injection H as <-. destruct (resolve_L _ _ _ F) as [A B].
    cbn [map_eop eop_ok]. rewrite A. split; [reflexivity|apply Nat.ltb_lt; exact B].
  - destruct (resolve labels u) as [i|] eqn:F1; [|discriminate]. destruct (resolve labels v) as [j|] eqn:F2; [|discriminate].
    injection H as <-. destruct (resolve_L _ _ _ F1) as [A1 B1]. destruct (resolve_L _ _ _ F2) as [A2 B2].
    cbn [map_eop eop_ok]. rewrite A1, A2. split; [reflexivity|]. apply andb_true_iff. split; apply Nat.ltb_lt; assumption.
  - destruct (resolve labels u) as [i|] eqn:F1; [|discriminate]. destruct (resolve labels v) as [j|] eqn:F2; [|discriminate].
    injection H as <-. destruct (resolve_L _ _ _ F1) as [A1 B1]. destruct (resolve_L _ _ _ F2) as [A2 B2].
    cbn [map_eop eop_ok]. rewrite A1, A2. split; [reflexivity|]. apply andb_true_iff. split; apply Nat.ltb_lt; assumption.
  - destruct (resolve labels v) as [i|] eqn:F; [|discriminate]. injection H as <-. destruct (resolve_L _ _ _ F) as [A B].
    cbn [map_eop eop_ok]. rewrite A. split; [reflexivity|apply Nat.ltb_lt; exact B].
  - injection H as <-. split; reflexivity.
  - injection H as <-. split; reflexivity.
  - injection H as <-. split; reflexivity.
Qed.

Lemma resolve_eop_labels_ok : forall labels o,
  eop_labels_ok labels o = match resolve_eop labels o with Some _ => true | None => false end.
Proof.
  intros labels o. destruct o; cbn [eop_labels_ok resolve_eop]; rewrite ?resolve_memb;
    repeat match goal with |- context [resolve labels ?x] => destruct (resolve labels x) end; reflexivity.
Qed.

Lemma lab_edit : forall n labels vt vtl o o' e P, ExprInv n e -> NoDup labels -> length labels = n ->
  resolve_eop labels o = Some o' -> (forall v, (v < n)%nat -> vtl (Lfun labels v) = vt v) ->
  Rel labels e P -> ExprInv n (apply_eop vt o' e) /\ Rel labels (apply_eop vt o' e) (spec_eop vtl o P).
Proof.
  intros n labels vt vtl o o' e P I ND Hlen Hr Hvt R. destruct (resolve_eop_spec labels o o' Hr) as [Hm OK]. rewrite Hlen in OK.
  split; [apply eop_inv; assumption|]. unfold Rel.
  eapply peq_trans; [apply peq_relabel; apply (eop_sim n vt o' e I OK)|].
  rewrite (relabel_spec_eop n labels vt vtl o' (abs_expr e) ND Hlen (abs_below n e I) OK Hvt), Hm.
  apply peq_spec_eop. exact R.
Qed.

(* ---------- add_constraint: the model's labels are resolved to a mapping ---------- *)
Lemma resolve_all_spec : forall labels labs mapping, resolve_all labels labs = Some mapping ->
  labs = map (Lfun labels) mapping /\ Forall (fun v => (v < length labels)%nat) mapping.
Proof.
  intros labels labs. induction labs as [|l r IH]; intros mapping H; cbn [resolve_all] in H.
  - injection H as <-. split; [reflexivity|constructor].
  - destruct (resolve labels l) as [v|] eqn:F; [|discriminate]. destruct (resolve_all labels r) as [vs|]; [|discriminate].
    injection H as <-. destruct (IH vs eq_refl) as [A B]. destruct (resolve_L _ _ _ F) as [C D].
    cbn [map]. rewrite C, <- A. split; [reflexivity|constructor; assumption].
Qed.

Lemma resolve_all_memb : forall labels labs,
  forallb (fun l => memb l labels) labs = match resolve_all labels labs with Some _ => true | None => false end.
Proof.
  intros labels labs. induction labs as [|l r IH]; [reflexivity|]. cbn [forallb resolve_all]. rewrite IH, resolve_memb.
  destruct (resolve labels l); [|reflexivity]. destruct (resolve_all labels r); reflexivity.
Qed.

Lemma nodupb_map_L : forall labels mapping, NoDup labels -> Forall (fun v => (v < length labels)%nat) mapping ->
  nodupb (map (Lfun labels) mapping) = nodupb mapping.
Proof.
  intros labels mapping ND H. induction H as [|v r Hv Hr IH]; [reflexivity|]. cbn [map nodupb]. rewrite IH. f_equal. f_equal.
  clear IH. induction Hr as [|w ws Hw Hws IH']; [reflexivity|]. cbn [map existsb]. rewrite IH'.
  rewrite (L_eqb labels v w ND Hv Hw). reflexivity.
Qed.

Lemma guards_move : forall n labels lin quad labs mapping, NoDup labels -> length labels = n ->
  resolve_all labels labs = Some mapping -> mapping_ok n lin quad mapping = labs_ok labels lin quad labs.
Proof.
  intros n labels lin quad labs mapping ND Hlen H. destruct (resolve_all_spec _ _ _ H) as [A B].
  unfold mapping_ok, labs_ok. rewrite resolve_all_memb, H, A, (nodupb_map_L labels mapping ND B), map_length.
  assert (F : forallb (fun u => (u <? n)%nat) mapping = true).
  { apply forallb_forall. intros u Hu. rewrite Forall_forall in B. apply Nat.ltb_lt. rewrite <- Hlen. apply B. exact Hu. }
  rewrite F. cbn [andb]. rewrite andb_true_r. reflexivity.
Qed.

Lemma nth_map_L : forall labels mapping a, (a < length mapping)%nat ->
  nth a (map (Lfun labels) mapping) 0%nat = Lfun labels (nth a mapping 0%nat).
Proof.
  intros labels mapping a H. rewrite (nth_indep (map (Lfun labels) mapping) 0%nat (Lfun labels 0%nat)) by (rewrite map_length; exact H).
  apply map_nth.
Qed.

Lemma relabel_move : forall labels lin quad off mapping,
  Forall (fun t : lqterm => (fst (fst t) < length mapping)%nat /\ (snd (fst t) < length mapping)%nat) quad ->
  relabel (Lfun labels) (spec_from_move lin quad off mapping) = spec_from_move lin quad off (map (Lfun labels) mapping).
Proof.
  intros labels lin quad off mapping QD. unfold spec_from_move, relabel. cbn [p_off p_lin p_quad]. f_equal.
  - rewrite combine_map_l. reflexivity.
  - rewrite map_map. apply map_ext_in. intros [[a b] w] Hin. rewrite Forall_forall in QD. destruct (QD _ Hin) as [Ha Hb].
    cbn [fst snd] in *. rewrite !nth_map_L by assumption. reflexivity.
Qed.

Lemma relabel_fold : forall {X} (f : nat -> nat) (g g' : poly -> X -> poly) xs,
  (forall p x, In x xs -> relabel f (g p x) = g' (relabel f p) x) ->
  forall p, relabel f (fold_left g xs p) = fold_left g' xs (relabel f p).
Proof.
  intros X f g g' xs. induction xs as [|x r IH]; intros H p; [reflexivity|]. cbn [fold_left].
  rewrite IH by (intros p' y Hy; apply H; right; exact Hy). rewrite H by (left; reflexivity). reflexivity.
Qed.

Lemma relabel_add_quadratic : forall n labels vt vtl u v b p, NoDup labels -> length labels = n ->
  (u < n)%nat -> (v < n)%nat -> (forall w, (w < n)%nat -> vtl (Lfun labels w) = vt w) ->
  relabel (Lfun labels) (spec_add_quadratic vt u v b p)
  = spec_add_quadratic vtl (Lfun labels u) (Lfun labels v) b (relabel (Lfun labels) p).
Proof.
  intros n labels vt vtl u v b p ND Hlen Hu Hv Hvt. unfold spec_add_quadratic, add_quadratic.
  rewrite (L_eqb labels u v ND) by (rewrite Hlen; assumption). rewrite (Hvt u Hu).
  destruct (u =? v)%nat; [destruct (vt u)|]; reflexivity.
Qed.

Lemma relabel_copy : forall n labels vt vtl lin quad off mapping, NoDup labels -> length labels = n ->
  mapping_ok n lin quad mapping = true -> (forall w, (w < n)%nat -> vtl (Lfun labels w) = vt w) ->
  relabel (Lfun labels) (spec_from_copy vt lin quad off mapping) = spec_from_copy vtl lin quad off (map (Lfun labels) mapping).
Proof.
  intros n labels vt vtl lin quad off mapping ND Hlen OK Hvt. destruct (mapping_ok_spec _ _ _ _ OK) as [NDm [LT [LEN QD]]].
  assert (In_lt : forall i, (i < length mapping)%nat -> (nth i mapping 0 < n)%nat).
  { intros i Hi. rewrite Forall_forall in LT. apply LT. apply nth_In. exact Hi. }
  unfold spec_from_copy. cbv zeta.
  set (L := Lfun labels).
  set (g1 := fun (p : poly) (ib : nat * Qc) => add_linear (nth (fst ib) mapping 0%nat) (snd ib) p).
  set (g1' := fun (p : poly) (ib : nat * Qc) => add_linear (nth (fst ib) (map L mapping) 0%nat) (snd ib) p).
  set (g2 := fun (p : poly) (t : lqterm) => spec_add_quadratic vt (nth (fst (fst t)) mapping 0%nat) (nth (snd (fst t)) mapping 0%nat) (snd t) p).
  set (g2' := fun (p : poly) (t : lqterm) => spec_add_quadratic vtl (nth (fst (fst t)) (map L mapping) 0%nat) (nth (snd (fst t)) (map L mapping) 0%nat) (snd t) p).
  transitivity (add_offset off (relabel L (fold_left g2 quad (fold_left g1 (combine (seq 0 (length lin)) lin) pzero)))); [reflexivity|].
  f_equal.
  rewrite (relabel_fold L g2 g2' quad).
  - f_equal. rewrite (relabel_fold L g1 g1' (combine (seq 0 (length lin)) lin)); [reflexivity|].
    intros p [i b] Hin. apply in_combine_l in Hin. apply in_seq in Hin. unfold g1, g1', L. cbn [fst snd].
    rewrite nth_map_L by lia. reflexivity.
  - intros p [[a b] w] Hin. rewrite Forall_forall in QD. destruct (QD _ Hin) as [Ha Hb]. unfold g2, g2', L. cbn [fst snd] in *.
    rewrite !nth_map_L by assumption. apply (relabel_add_quadratic n); auto.
Qed.

(* ---------- the labelled state ---------- *)
Definition RL (labels : list nat) (k : mcon) (P : poly) : Prop := Rel labels (mc_e k) P.

Definition LState (q : lcqm) (sq : slab) : Prop :=
  let labels := l_labels q in let m := l_q q in
  NoDup labels /\ length labels = length (m_info m) /\ sl_vars sq = combine labels (m_info m)
  /\ CqmInv m /\ Rel labels (m_obj m) (sl_obj sq) /\ Forall2 (RL labels) (m_cons m) (sl_cons sq).

Lemma map_fst_combine : forall {A B} (l1 : list A) (l2 : list B), length l1 = length l2 -> map fst (combine l1 l2) = l1.
Proof.
  intros A B l1. induction l1 as [|a r IH]; intros [|b s] H; cbn [length combine map fst] in *; try discriminate; [reflexivity|].
  f_equal. apply IH. injection H as H. exact H.
Qed.

Lemma sl_labels_eq : forall q sq, LState q sq -> sl_labels sq = l_labels q.
Proof. intros q sq [_ [Hlen [Hv _]]]. unfold sl_labels. rewrite Hv. apply map_fst_combine. exact Hlen. Qed.

Lemma vt_lab_L : forall labels info v, NoDup labels -> length labels = length info -> (v < length info)%nat ->
  vt_lab (combine labels info) (Lfun labels v) = vt_info info v.
Proof.
  induction labels as [|a r IH]; intros info v ND Hlen Hv; destruct info as [|i info']; cbn [length] in *; try lia.
  inversion ND as [|? ? Hn ND']; subst. unfold vt_lab, vt_info, Lfun in *. cbn [combine find fst snd].
  destruct v as [|v']; cbn [nth nth_error].
  - rewrite Nat.eqb_refl. reflexivity.
  - destruct (Nat.eqb_spec a (nth v' r 0%nat)) as [E|_].
    + exfalso. apply Hn. rewrite E. apply nth_In. lia.
    + apply IH; [exact ND'|lia|lia].
Qed.

(* any index-level step preserves the invariant *)
Lemma mstep_inv : forall m o, CqmInv m -> CqmInv (mstep m o).
Proof.
  intros m o I.
  assert (St : State m (mkS (m_info m) (abs_expr (m_obj m)) (map (fun k => abs_expr (mc_e k)) (m_cons m)))).
  { apply State_iff. split; [exact I|]. split; [reflexivity|]. split; [apply peq_refl|].
    cbn [s_cons]. induction (m_cons m) as [|k r IH]; constructor; [apply peq_refl|exact IH]. }
  exact (proj1 (proj1 (State_iff _ _) (step_state _ _ o St))).
Qed.

Lemma Forall2_RL_map : forall labels labels' f g l1 l2,
  Forall2 (fun k P => ExprInv (length labels) (mc_e k) /\ RL labels k P) l1 l2 ->
  (forall e P, ExprInv (length labels) e -> Rel labels e P -> Rel labels' (f e) (g P)) ->
  Forall2 (RL labels') (map (fun k => mc_set_e k (f (mc_e k))) l1) (map g l2).
Proof.
  intros labels labels' f g l1 l2 H Hf. induction H as [|k P r1 r2 [Ik Rk] Hr IH]; cbn [map]; constructor; [|exact IH].
  unfold RL. cbn [mc_e mc_set_e]. apply Hf; assumption.
Qed.

Lemma with_inv : forall labels n l1 l2, Forall (fun k => ExprInv n (mc_e k)) l1 -> Forall2 (RL labels) l1 l2 ->
  Forall2 (fun k P => ExprInv n (mc_e k) /\ RL labels k P) l1 l2.
Proof.
  intros labels n l1 l2 H1 H2. induction H2 as [|a b r1 r2 Hab Hr IH]; [constructor|].
  inversion H1; subst. constructor; [split; assumption|apply IH; assumption].
Qed.

Lemma combine_remove_nth : forall {A B} (l1 : list A) (l2 : list B) i,
  remove_nth i (combine l1 l2) = combine (remove_nth i l1) (remove_nth i l2).
Proof.
  intros A B l1. induction l1 as [|x r IH]; intros l2 i; [destruct i; reflexivity|].
  destruct l2 as [|y s]; [destruct i; cbn [remove_nth combine]; [destruct r; reflexivity|destruct (remove_nth i r); reflexivity]|].
  destruct i; cbn [remove_nth combine]; [reflexivity|]. f_equal. apply IH.
Qed.

Lemma filter_del_label : forall labels (info : list minfo) v, NoDup labels -> length labels = length info -> (v < length labels)%nat ->
  filter (fun x : nat * minfo => negb (fst x =? Lfun labels v)%nat) (combine labels info)
  = combine (remove_nth v labels) (remove_nth v info).
Proof.
  intros labels info v ND Hlen Hv. rewrite <- combine_remove_nth.
  revert info v Hlen Hv. induction labels as [|a r IH]; intros info v Hlen Hv; cbn [length] in Hv; [lia|].
  destruct info as [|i info']; [discriminate|]. inversion ND as [|? ? Hn ND']; subst. cbn [length] in Hlen.
  unfold Lfun in *. destruct v as [|v']; cbn [combine filter fst nth remove_nth].
  - rewrite Nat.eqb_refl. cbn [negb]. apply filter_all. intros [l x] Hin. apply in_combine_l in Hin. cbn [fst].
    apply negb_true_iff. apply Nat.eqb_neq. intros ->. contradiction.
  - destruct (Nat.eqb_spec a (nth v' r 0%nat)) as [E|_].
    + exfalso. apply Hn. rewrite E. apply nth_In. lia.
    + cbn [negb]. f_equal. apply IH; [exact ND'|lia|lia].
Qed.

Lemma nodupb_NoDup : forall l, nodupb l = true -> NoDup l.
Proof.
  induction l as [|a r IH]; intros H; [constructor|]. cbn [nodupb] in H. apply andb_true_iff in H. destruct H as [Ha Hr].
  constructor; [|apply IH; exact Hr]. intros Hin. apply negb_true_iff in Ha.
  assert (existsb (Nat.eqb a) r = true) by (apply existsb_eqb_In; exact Hin). congruence.
Qed.

Lemma set_info_combine : forall labels (info : list minfo) v i, NoDup labels -> length labels = length info -> (v < length labels)%nat ->
  map (fun x : nat * minfo => if (fst x =? Lfun labels v)%nat then (Lfun labels v, i) else x) (combine labels info)
  = combine labels (upd_nth v (fun _ => i) info).
Proof.
  induction labels as [|a r IH]; intros info v i ND Hlen Hv; cbn [length] in Hv; [lia|].
  destruct info as [|j info']; [discriminate|]. inversion ND as [|? ? Hn ND']; subst. cbn [length] in Hlen.
  unfold Lfun in *. destruct v as [|v']; cbn [combine map fst nth upd_nth].
  - rewrite Nat.eqb_refl. f_equal. rewrite <- (map_id (combine r info')) at 2. apply map_ext_in.
    intros [l x] Hin. apply in_combine_l in Hin. cbn [fst]. destruct (Nat.eqb_spec l a) as [->|_]; [contradiction|reflexivity].
  - destruct (Nat.eqb_spec a (nth v' r 0%nat)) as [E|_].
    + exfalso. apply Hn. rewrite E. apply nth_In. lia.
    + f_equal. apply IH; [exact ND'|lia|lia].
Qed.

Lemma Forall2_RL_weaken : forall labels labels' n l1 l2,
  Forall (fun k => ExprInv n (mc_e k)) l1 -> Forall2 (RL labels) l1 l2 ->
  (forall e P, ExprInv n e -> Rel labels e P -> Rel labels' e P) -> Forall2 (RL labels') l1 l2.
Proof.
  intros labels labels' n l1 l2 H1 H2 Hf. induction H2 as [|a b r1 r2 Hab Hr IH]; [constructor|].
  inversion H1; subst. constructor; [apply Hf; assumption|apply IH; assumption].
Qed.

Theorem lstep_state : forall q sq o, LState q sq -> LState (lstep q o) (lsstep sq o).
Proof.
  intros q sq o St. pose proof (sl_labels_eq q sq St) as SL.
  destruct St as [ND [Hlen [Hv [Inv [Ro Rc]]]]]. destruct q as [labels m]. cbn [l_labels l_q] in *.
  pose proof Inv as [Io Ic]. set (n := length (m_info m)) in *.
  assert (HVT : forall w, (w < n)%nat -> vt_lab (sl_vars sq) (Lfun labels w) = vt_info (m_info m) w).
  { intros w Hw. rewrite Hv. apply vt_lab_L; assumption. }
  pose proof (Forall2_len _ _ _ Rc) as LC.
  unfold lstep, lsstep. cbn [l_labels l_q]. rewrite SL.
  destruct o.
  - (* add_variable *)
    destruct (memb l labels) eqn:M; [exact (conj ND (conj Hlen (conj Hv (conj Inv (conj Ro Rc)))))|].
    assert (Em : mstep m (MAddVariable i) = mkM (m_info m ++ [i]) (m_obj m) (m_cons m)) by reflexivity.
    unfold LState. cbn [l_labels l_q sl_vars sl_obj sl_cons]. split; [|split; [|split; [|split; [|split]]]].
    + apply (Permutation.Permutation_NoDup (l := l :: labels)); [apply Permutation.Permutation_cons_append|].
      constructor; [|exact ND]. intros Hin. assert (memb l labels = true) by (apply existsb_eqb_In; exact Hin). congruence.
    + rewrite Em. cbn [m_info]. rewrite !app_length. cbn [length]. lia.
    + rewrite Em. cbn [m_info]. rewrite Hv. symmetry. apply combine_app_one. exact Hlen.
    + apply mstep_inv. exact Inv.
    + rewrite Em. cbn [m_obj]. apply (lab_add_variable n); assumption.
    + rewrite Em. cbn [m_cons]. apply (Forall2_RL_weaken labels _ n); [exact Ic|exact Rc|].
      intros e P Ie Re. apply (lab_add_variable n); assumption.
  - (* vartype / bounds *)
    rewrite resolve_memb. destruct (resolve labels l) as [v|] eqn:F; [|exact (conj ND (conj Hlen (conj Hv (conj Inv (conj Ro Rc)))))].
    destruct (resolve_L _ _ _ F) as [LV Hvl].
    assert (Em : mstep m (MSetInfo v i) = mkM (upd_nth v (fun _ => i) (m_info m)) (m_obj m) (m_cons m)).
    { unfold mstep. cbn [mop_ok]. assert (G : (v <? length (m_info m))%nat = true) by (apply Nat.ltb_lt; lia). rewrite G. reflexivity. }
    unfold LState. cbn [l_labels l_q sl_vars sl_obj sl_cons]. rewrite Em. cbn [m_info m_obj m_cons].
    split; [exact ND|]. split; [rewrite upd_nth_length; exact Hlen|]. split.
    + rewrite Hv, <- LV. apply set_info_combine; assumption.
    + split; [rewrite <- Em; apply mstep_inv; exact Inv|]. split; assumption.
  - (* remove_variable *)
    rewrite resolve_memb. destruct (resolve labels l) as [v|] eqn:F; [|exact (conj ND (conj Hlen (conj Hv (conj Inv (conj Ro Rc)))))].
    destruct (resolve_L _ _ _ F) as [LV Hvl]. assert (Hvn : (v < n)%nat) by lia.
    assert (Em : mstep m (MRemoveVariable v) = cqm_remove_variable v m).
    { unfold mstep. cbn [mop_ok]. assert (G : (v <? length (m_info m))%nat = true) by (apply Nat.ltb_lt; exact Hvn). rewrite G. reflexivity. }
    unfold LState. cbn [l_labels l_q sl_vars sl_obj sl_cons].
    split; [apply NoDup_remove_nth; exact ND|]. split; [|split; [|split; [apply mstep_inv; exact Inv|]]]; rewrite Em; unfold cqm_remove_variable; cbn [m_info m_obj m_cons].
    + rewrite !remove_nth_length by lia. lia.
    + rewrite Hv, <- LV. apply filter_del_label; assumption.
    + split.
      * rewrite <- LV. apply (lab_reindex n); assumption.
      * rewrite <- LV. apply (Forall2_RL_map labels); [apply with_inv; [rewrite Hlen; exact Ic|exact Rc]|].
        intros e P Ie Re. rewrite Hlen in Ie. apply (lab_reindex n); assumption.
  - (* fix_variable *)
    rewrite resolve_memb. destruct (resolve labels l) as [v|] eqn:F; [|exact (conj ND (conj Hlen (conj Hv (conj Inv (conj Ro Rc)))))].
    destruct (resolve_L _ _ _ F) as [LV Hvl]. assert (Hvn : (v < n)%nat) by lia.
    assert (Em : mstep m (MFixVariable v a) = cqm_fix_variable v a m).
    { unfold mstep. cbn [mop_ok]. assert (G : (v <? length (m_info m))%nat = true) by (apply Nat.ltb_lt; exact Hvn). rewrite G. reflexivity. }
    unfold LState. cbn [l_labels l_q sl_vars sl_obj sl_cons].
    split; [apply NoDup_remove_nth; exact ND|]. split; [|split; [|split; [apply mstep_inv; exact Inv|]]]; rewrite Em;
      unfold cqm_fix_variable, cqm_remove_variable, cqm_substitute; cbn [m_info m_obj m_cons].
    + rewrite !remove_nth_length by lia. lia.
    + rewrite Hv, <- LV. apply filter_del_label; assumption.
    + split.
      * rewrite <- LV. apply (lab_fix n); assumption.
      * rewrite <- LV, map_map.
        change (map (fun k => mc_set_e (mc_set_e k (m_substitute v 0 a (mc_e k))) (m_reindex v (mc_e (mc_set_e k (m_substitute v 0 a (mc_e k)))))) (m_cons m))
          with (map (fun k => mc_set_e k (m_fix v a (mc_e k))) (m_cons m)).
        apply (Forall2_RL_map labels); [apply with_inv; [rewrite Hlen; exact Ic|exact Rc]|].
        intros e P Ie Re. rewrite Hlen in Ie. apply (lab_fix n); assumption.
  - (* substitute_variable *)
    rewrite resolve_memb. destruct (resolve labels l) as [v|] eqn:F; [|exact (conj ND (conj Hlen (conj Hv (conj Inv (conj Ro Rc)))))].
    destruct (resolve_L _ _ _ F) as [LV Hvl]. assert (Hvn : (v < n)%nat) by lia.
    assert (Em : mstep m (MSubstitute v m0 c) = cqm_substitute v m0 c m).
    { unfold mstep. cbn [mop_ok]. assert (G : (v <? length (m_info m))%nat = true) by (apply Nat.ltb_lt; exact Hvn). rewrite G. reflexivity. }
    unfold LState. cbn [l_labels l_q sl_vars sl_obj sl_cons].
    split; [exact ND|]. split; [|split; [|split; [apply mstep_inv; exact Inv|]]]; rewrite Em; unfold cqm_substitute; cbn [m_info m_obj m_cons].
    + exact Hlen.
    + exact Hv.
    + split.
      * rewrite <- LV. apply (lab_substitute n); assumption.
      * rewrite <- LV. apply (Forall2_RL_map labels); [apply with_inv; [rewrite Hlen; exact Ic|exact Rc]|].
        intros e P Ie Re. rewrite Hlen in Ie. apply (lab_substitute n); assumption.
  - (* relabel_variables *)
    destruct (relabel_ok mp labels && nodupb (map fst mp)) eqn:G;
      [|exact (conj ND (conj Hlen (conj Hv (conj Inv (conj Ro Rc)))))].
    apply andb_true_iff in G. destruct G as [G1 G2].
    pose proof (relabel_ok_nodup mp labels ND (nodupb_NoDup _ G2) G1) as G.
    unfold LState. cbn [l_labels l_q sl_vars sl_obj sl_cons].
    split; [exact G|]. split; [rewrite map_length; exact Hlen|]. split.
    + rewrite Hv, combine_map_l. reflexivity.
    + split; [exact Inv|]. split.
      * apply (lab_relabel n); assumption.
      * clear - Ic Rc Hlen. induction Rc as [|k P r1 r2 Hk Hr IH]; cbn [map]; [constructor|].
        inversion Ic; subst. constructor; [apply (lab_relabel (length (m_info m))); assumption|apply IH; assumption].
  - (* edit through a view *)
    rewrite resolve_eop_labels_ok. destruct (resolve_eop labels o) as [o'|] eqn:F.
    2:{ destruct t; exact (conj ND (conj Hlen (conj Hv (conj Inv (conj Ro Rc))))). }
    destruct (resolve_eop_spec labels o o' F) as [Hm OK]. rewrite Hlen in OK. fold n in OK.
    destruct t as [|c].
    + assert (Em : mstep m (MEdit EObj o') = cqm_edit_obj (apply_eop (vt_info (m_info m)) o') m).
      { unfold mstep. cbn [mop_ok]. fold n. rewrite OK. reflexivity. }
      destruct (lab_edit n labels (vt_info (m_info m)) (vt_lab (sl_vars sq)) o o' (m_obj m) (sl_obj sq) Io ND Hlen F HVT Ro) as [_ R'].
      unfold LState. cbn [l_labels l_q sl_vars sl_obj sl_cons].
      split; [exact ND|]. split; [|split; [|split; [apply mstep_inv; exact Inv|]]]; rewrite Em; unfold cqm_edit_obj; cbn [m_info m_obj m_cons]; try assumption.
      split; assumption.
    + cbn [andb]. rewrite <- LC. destruct (c <? length (m_cons m))%nat eqn:Hc.
      * assert (Em : mstep m (MEdit (ECon c) o') = cqm_edit_con c (apply_eop (vt_info (m_info m)) o') m).
        { unfold mstep. cbn [mop_ok]. fold n. rewrite Hc, OK. reflexivity. }
        unfold LState. cbn [l_labels l_q sl_vars sl_obj sl_cons].
        split; [exact ND|]. split; [|split; [|split; [apply mstep_inv; exact Inv|]]]; rewrite Em; unfold cqm_edit_con; cbn [m_info m_obj m_cons]; try assumption.
        split; [exact Ro|].
        pose proof (with_inv labels n _ _ Ic Rc) as W.
        apply (Forall2_upd_nth _ (fun k => mc_set_e k (apply_eop (vt_info (m_info m)) o' (mc_e k))) (spec_eop (vt_lab (sl_vars sq)) o) _ _ c) in W.
        -- eapply Forall2_weaken; [|exact W]. intros k P [_ H]. exact H.
        -- intros k P [Ik Rk]. unfold RL. cbn [mc_e mc_set_e].
           exact (lab_edit n labels (vt_info (m_info m)) (vt_lab (sl_vars sq)) o o' (mc_e k) P Ik ND Hlen F HVT Rk).
      * assert (Em : mstep m (MEdit (ECon c) o') = m).
        { unfold mstep. cbn [mop_ok]. fold n. rewrite Hc. reflexivity. }
        rewrite Em. exact (conj ND (conj Hlen (conj Hv (conj Inv (conj Ro Rc))))).
  - (* add_constraint, move *)
    destruct (resolve_all labels labs) as [mapping|] eqn:F.
    2:{ unfold labs_ok. rewrite resolve_all_memb, F. cbn [andb]. exact (conj ND (conj Hlen (conj Hv (conj Inv (conj Ro Rc))))). }
    rewrite <- (guards_move n labels lin quad labs mapping ND Hlen F).
    destruct (resolve_all_spec _ _ _ F) as [HL _].
    destruct (mapping_ok n lin quad mapping) eqn:OK.
    + assert (Em : mstep m (MAddConstraintMove lin quad off mapping sense rhs)
                   = mkM (m_info m) (m_obj m) (m_cons m ++ [new_con (expr_from_move lin quad off mapping) sense rhs])).
      { unfold mstep. cbn [mop_ok]. fold n. rewrite OK. reflexivity. }
      unfold LState. cbn [l_labels l_q sl_vars sl_obj sl_cons].
      split; [exact ND|]. split; [|split; [|split; [apply mstep_inv; exact Inv|]]]; rewrite Em; cbn [m_info m_obj m_cons]; try assumption.
      split; [exact Ro|]. apply Forall2_app; [exact Rc|]. constructor; [|constructor].
      unfold RL, new_con, Rel. cbn [mc_e]. destruct (move_step n lin quad off mapping OK) as [_ Ea].
      destruct (mapping_ok_spec _ _ _ _ OK) as [_ [_ [_ QD]]].
      rewrite Ea, (relabel_move labels lin quad off mapping QD), HL. apply peq_refl.
    + assert (Em : mstep m (MAddConstraintMove lin quad off mapping sense rhs) = m).
      { unfold mstep. cbn [mop_ok]. fold n. rewrite OK. reflexivity. }
      rewrite Em. exact (conj ND (conj Hlen (conj Hv (conj Inv (conj Ro Rc))))).
  - (* add_constraint, copy *)
    destruct (resolve_all labels labs) as [mapping|] eqn:F.
    2:{ unfold labs_ok. rewrite resolve_all_memb, F. cbn [andb]. exact (conj ND (conj Hlen (conj Hv (conj Inv (conj Ro Rc))))). }
    rewrite <- (guards_move n labels lin quad labs mapping ND Hlen F).
    destruct (resolve_all_spec _ _ _ F) as [HL _].
    destruct (mapping_ok n lin quad mapping) eqn:OK.
    + assert (Em : mstep m (MAddConstraintCopy lin quad off mapping sense rhs)
                   = mkM (m_info m) (m_obj m) (m_cons m ++ [new_con (expr_from_copy (vt_info (m_info m)) lin quad off mapping) sense rhs])).
      { unfold mstep. cbn [mop_ok]. fold n. rewrite OK. reflexivity. }
      unfold LState. cbn [l_labels l_q sl_vars sl_obj sl_cons].
      split; [exact ND|]. split; [|split; [|split; [apply mstep_inv; exact Inv|]]]; rewrite Em; cbn [m_info m_obj m_cons]; try assumption.
      split; [exact Ro|]. apply Forall2_app; [exact Rc|]. constructor; [|constructor].
      unfold RL, new_con, Rel. cbn [mc_e]. destruct (copy_step n (vt_info (m_info m)) lin quad off mapping OK) as [_ Sa].
      eapply peq_trans; [apply peq_relabel; exact Sa|].
      rewrite (relabel_copy n labels (vt_info (m_info m)) (vt_lab (sl_vars sq)) lin quad off mapping ND Hlen OK HVT), HL. apply peq_refl.
    + assert (Em : mstep m (MAddConstraintCopy lin quad off mapping sense rhs) = m).
      { unfold mstep. cbn [mop_ok]. fold n. rewrite OK. reflexivity. }
      rewrite Em. exact (conj ND (conj Hlen (conj Hv (conj Inv (conj Ro Rc))))).
  - (* remove_constraint *)
    assert (Em : mstep m (MRemoveConstraint c) = mkM (m_info m) (m_obj m) (remove_nth c (m_cons m))) by reflexivity.
    unfold LState. cbn [l_labels l_q sl_vars sl_obj sl_cons].
    split; [exact ND|]. split; [|split; [|split; [apply mstep_inv; exact Inv|]]]; rewrite Em; cbn [m_info m_obj m_cons]; try assumption.
    split; [exact Ro|]. apply Forall2_remove_nth. exact Rc.
  - (* weight / penalty / mark *)
    assert (Em : mstep m (MSetAttrs c w pen mark)
                 = mkM (m_info m) (m_obj m) (upd_nth c (fun k => mkMC (mc_e k) (mc_sense k) (mc_rhs k) w pen mark) (m_cons m))) by reflexivity.
    unfold LState. cbn [l_labels l_q sl_vars sl_obj sl_cons].
    split; [exact ND|]. split; [|split; [|split; [apply mstep_inv; exact Inv|]]]; rewrite Em; cbn [m_info m_obj m_cons]; try assumption.
    split; [exact Ro|]. apply Forall2_upd_nth_l; [exact Rc|]. intros k P H. exact H.
Qed.

(* for EVERY labelled history *)
Theorem labelled_history_state : forall ops, LState (lrun ops l_empty) (lsrun ops sl_empty).
Proof.
  intros ops. unfold lrun, lsrun.
  assert (G : forall q sq, LState q sq -> LState (fold_left lstep ops q) (fold_left lsstep ops sq)).
  { induction ops as [|o r IH]; intros q sq St; [exact St|]. cbn [fold_left]. apply IH. apply lstep_state. exact St. }
  apply G. unfold LState, l_empty, sl_empty, m_empty. cbn [l_labels l_q m_info m_obj m_cons sl_vars sl_obj sl_cons length combine].
  split; [constructor|]. split; [reflexivity|]. split; [reflexivity|].
  split; [split; [apply empty_inv|constructor]|]. split; [|constructor]. intros s. reflexivity.
Qed.

(* read through the labels, every expression has the coefficients of the plain polynomial *)
Theorem labelled_history_coefficients : forall ops n,
  let q := lrun ops l_empty in let sq := lsrun ops sl_empty in
  NoDup (l_labels q)
  /\ sl_vars sq = combine (l_labels q) (m_info (l_q q))
  /\ poly_coeff_eqb n (relabel (Lfun (l_labels q)) (abs_expr (m_obj (l_q q)))) (sl_obj sq) = true
  /\ Forall2 (fun k P => poly_coeff_eqb n (relabel (Lfun (l_labels q)) (abs_expr (mc_e k))) P = true)
             (m_cons (l_q q)) (sl_cons sq).
Proof.
  intros ops n q sq. destruct (labelled_history_state ops) as [ND [_ [Hv [_ [Ro Rc]]]]]. fold q sq in ND, Hv, Ro, Rc.
  split; [exact ND|]. split; [exact Hv|]. split; [apply coeff_eq_complete; exact Ro|].
  eapply Forall2_weaken; [|exact Rc]. intros k P H. apply coeff_eq_complete. exact H.
Qed.
