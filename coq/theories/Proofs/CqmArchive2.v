(* Whole CQM serialization-version-2.0 archives: reader model applied to the writer model's members. *)
From Coq Require Import List NArith ZArith Arith Bool Lia String.
From Dimod Require Import Base.Util Gen.Gen_Codec Model.Codec Model.CodecEq Model.CqmFile Model.CqmFile2 Proofs.CodecBase
  Proofs.CodecFrame Proofs.CodecBqm Proofs.CodecBqmTop Proofs.CodecLabel Proofs.CodecJson Proofs.CodecBqmFull Proofs.CodecQm
  Proofs.CodecExpr Proofs.CqmFileFacts Proofs.CqmArchive.
Import ListNotations.
Open Scope nat_scope.
Notation length := List.length (only parsing).

Record Con2WF (c : c2con) : Prop := {
  c2w_label : WFl (c2_label c);
  c2w_lhs : ExprWF (c2_lhs c);
  c2w_rhs : length (c2_rhs c) = 8;
  c2w_weight : forall w p, c2_soft c = Some (w, p) -> length w = 8 }.

Record Cqm2WF (m : c2model) : Prop := {
  m2w_vinfo : Forall (vinfo_ok 8) (c2_vinfo m);
  m2w_fit : (N.of_nat (length (List.concat (map enc_vinfo (c2_vinfo m))) + ALIGN) < 256 ^ N.of_nat NLEN_VTYP)%N;
  m2w_labels : forall l, c2_labels m = Some l -> LabelsWF l;
  m2w_obj : ExprWF (c2_obj m);
  m2w_cons : forall c, In c (c2_cons m) -> Con2WF c;
  m2w_nodup : NoDup (map c2_label (c2_cons m)) }.

(* ------------------------------------------------------------ one constraint's members *)

Lemma zfind2_other_dir : forall c d l, In l LEAVES -> c2_dir c <> d -> zfind (member_name d l) (con2_members c) = None.
Proof.
  intros c d l Hl Nd. unfold con2_members.
  assert (X : forall l', In l' LEAVES -> bytes_eqb (member_name (c2_dir c) l') (member_name d l) = false).
  { intros l' Hl'. apply bytes_eqb_neq. intros E.
    destruct (member_name_inj _ _ _ _ (leaves_noslash l' Hl') (leaves_noslash l Hl) E) as [E1 _]. now apply Nd. }
  rewrite !zfind_app. cbn [zfind]. rewrite !X by (cbn; tauto).
  destruct (c2_discrete c); cbn [zfind]; rewrite ?X by (cbn; tauto);
    (destruct (c2_soft c) as [[w p]|]; cbn [zfind]; rewrite ?X by (cbn; tauto); reflexivity).
Qed.

Lemma zfind2_self : forall c,
  let d := c2_dir c in
  zfind (member_name d "lhs") (con2_members c) = Some (expr_encode (c2_lhs c))
  /\ zfind (member_name d "rhs") (con2_members c) = Some (c2_rhs c)
  /\ zfind (member_name d "sense") (con2_members c) = Some (c2_sense c)
  /\ zfind (member_name d "discrete") (con2_members c) = (if c2_discrete c then Some [1%N] else None)
  /\ zfind (member_name d "weight") (con2_members c) = option_map fst (c2_soft c)
  /\ zfind (member_name d "penalty") (con2_members c) = option_map snd (c2_soft c).
Proof.
  intros c d. unfold con2_members. fold d.
  assert (N : forall l l', In l LEAVES -> In l' LEAVES -> s2b l <> s2b l' ->
              bytes_eqb (member_name d l) (member_name d l') = false) by (intros; now apply name_neq).
  repeat split; rewrite !zfind_app; cbn [zfind]; rewrite ?bytes_eqb_refl; try reflexivity;
    rewrite ?N by (try (cbn; tauto); vm_compute; discriminate); rewrite ?bytes_eqb_refl; try reflexivity.
  - destruct (c2_discrete c); cbn [zfind]; rewrite ?bytes_eqb_refl; [reflexivity|].
    destruct (c2_soft c) as [[w p]|]; cbn [zfind]; rewrite ?N by (try (cbn; tauto); vm_compute; discriminate); reflexivity.
  - destruct (c2_discrete c); cbn [zfind]; rewrite ?N by (try (cbn; tauto); vm_compute; discriminate);
      (destruct (c2_soft c) as [[w p]|]; cbn [zfind option_map fst]; rewrite ?bytes_eqb_refl; reflexivity).
  - destruct (c2_discrete c); cbn [zfind]; rewrite ?N by (try (cbn; tauto); vm_compute; discriminate);
      (destruct (c2_soft c) as [[w p]|]; cbn [zfind option_map snd]; rewrite ?N by (try (cbn; tauto); vm_compute; discriminate);
       rewrite ?bytes_eqb_refl; reflexivity).
Qed.

Lemma fold_con2_members : forall c acc, fold_left dstep (con2_members c) acc = add_distinct acc (c2_dir c).
Proof.
  intros c acc. unfold con2_members. set (d := c2_dir c).
  assert (Nd : d <> []) by apply pr_label_nonempty.
  rewrite !fold_left_app. cbn [fold_left]. unfold dstep. cbn [fst].
  rewrite !(constraint_dir_name d) by (try exact Nd; cbn; tauto).
  rewrite !add_distinct_idem.
  destruct (c2_discrete c); cbn [fold_left fst]; rewrite ?(constraint_dir_name d) by (try exact Nd; cbn; tauto);
    rewrite ?add_distinct_idem;
    (destruct (c2_soft c) as [[w p]|]; cbn [fold_left fst]; rewrite ?(constraint_dir_name d) by (try exact Nd; cbn; tauto);
     now rewrite ?add_distinct_idem).
Qed.

Lemma fold_concat2 : forall (cs : list c2con) acc,
  fold_left dstep (List.concat (map con2_members cs)) acc = fold_left (fun a c => add_distinct a (c2_dir c)) cs acc.
Proof.
  induction cs as [|c cs IH]; intros acc; [reflexivity|]. cbn [map List.concat fold_left].
  rewrite fold_left_app, fold_con2_members. apply IH.
Qed.

Lemma fold_add_distinct2 : forall (cs : list c2con) acc, NoDup (acc ++ map c2_dir cs) ->
  fold_left (fun a c => add_distinct a (c2_dir c)) cs acc = acc ++ map c2_dir cs.
Proof.
  induction cs as [|c cs IH]; intros acc ND; [now rewrite app_nil_r|]. cbn [fold_left map].
  cbn [map] in ND. unfold add_distinct. rewrite existsb_bytes_false.
  - rewrite IH; rewrite <- app_assoc; [reflexivity|exact ND].
  - intros I. apply NoDup_remove_2 in ND. apply ND. apply in_or_app. now left.
Qed.

Lemma zfind2_absent : forall (cs : list c2con) d l, In l LEAVES -> ~ In d (map c2_dir cs) ->
  zfind (member_name d l) (List.concat (map con2_members cs)) = None.
Proof.
  induction cs as [|c cs IH]; intros d l Hl Hn; [reflexivity|]. cbn [map List.concat]. rewrite zfind_app.
  rewrite zfind2_other_dir; [|exact Hl|].
  - apply IH; [exact Hl|]. intros I. apply Hn. now right.
  - intros E. apply Hn. left. exact E.
Qed.

Lemma zfind2_in_cons : forall (cs : list c2con) c l, In l LEAVES -> In c cs -> NoDup (map c2_dir cs) ->
  zfind (member_name (c2_dir c) l) (List.concat (map con2_members cs)) = zfind (member_name (c2_dir c) l) (con2_members c).
Proof.
  induction cs as [|c0 cs IH]; intros c l Hl Hin ND; [destruct Hin|]. cbn [map List.concat]. rewrite zfind_app.
  cbn [map] in ND. inversion ND as [|a b Hn Hd]; subst. destruct Hin as [E|Hin].
  - subst c0. destruct (zfind (member_name (c2_dir c) l) (con2_members c)) eqn:Z; [reflexivity|].
    now apply zfind2_absent.
  - rewrite zfind2_other_dir; [now apply IH|exact Hl|].
    intros E. apply Hn. rewrite E. now apply in_map.
Qed.

(* ------------------------------------------------------------ the whole archive *)

Lemma top_not_constraint : forall d l,
  bytes_eqb VARINFO_NAME (member_name d l) = false /\ bytes_eqb LABELS_NAME (member_name d l) = false
  /\ bytes_eqb OBJECTIVE_NAME (member_name d l) = false.
Proof. intros d l. repeat split; reflexivity. Qed.

Definition labels_members (m : c2model) : archive :=
  match c2_labels m with Some l => [(LABELS_NAME, pr_labels l)] | None => [] end.

Lemma archive_shape : forall m, cqm2_archive m =
  (VARINFO_NAME, section MAGIC_VTYP NLEN_VTYP (List.concat (map enc_vinfo (c2_vinfo m))))
  :: labels_members m ++ (OBJECTIVE_NAME, expr_encode (c2_obj m)) :: List.concat (map con2_members (c2_cons m)).
Proof. reflexivity. Qed.

Lemma zfind2_archive : forall m c l, In l LEAVES -> In c (c2_cons m) -> NoDup (map c2_dir (c2_cons m)) ->
  zfind (member_name (c2_dir c) l) (cqm2_archive m) = zfind (member_name (c2_dir c) l) (con2_members c).
Proof.
  intros m c l Hl Hin ND. rewrite archive_shape. destruct (top_not_constraint (c2_dir c) l) as [T1 [T2 T3]].
  cbn [zfind]. rewrite T1. rewrite zfind_app.
  replace (zfind (member_name (c2_dir c) l) (labels_members m)) with (@None bytes).
  - cbn [zfind]. rewrite T3. now apply zfind2_in_cons.
  - unfold labels_members. destruct (c2_labels m); cbn [zfind]; [now rewrite T2|reflexivity].
Qed.

Lemma read2_constraint_archive : forall m c, In c (c2_cons m) -> NoDup (map c2_dir (c2_cons m)) -> Con2WF c ->
  read2_constraint (cqm2_archive m) (c2_dir c) = Ok c.
Proof.
  intros m c Hin ND [Wl We Wr Ww]. unfold read2_constraint.
  destruct (zfind2_self c) as [Z1 [Z2 [Z3 [Z4 [Z5 Z6]]]]].
  rewrite !(zfind2_archive m c) by (try assumption; cbn; tauto).
  rewrite Z1, Z2, Z3, Z4, Z5, Z6. unfold c2_dir at 1. rewrite (dir_label_pr _ Wl).
  rewrite Wr. cbn [Nat.ltb Nat.leb]. rewrite (expr_decode_encode _ We). rewrite (firstn_exact _ 8 Wr).
  destruct c as [lab lhs rhs sense disc soft]. cbn [c2_label c2_lhs c2_rhs c2_sense c2_discrete c2_soft] in *.
  f_equal. f_equal.
  - destruct disc; reflexivity.
  - destruct soft as [[w p]|]; cbn [option_map fst snd]; [|reflexivity]. now rewrite (firstn_exact w 8 (Ww w p eq_refl)).
Qed.

Lemma read2_constraints_archive : forall m sub, (forall c, In c sub -> In c (c2_cons m)) -> NoDup (map c2_dir (c2_cons m)) ->
  (forall c, In c (c2_cons m) -> Con2WF c) ->
  read2_constraints (cqm2_archive m) (map c2_dir sub) = Ok sub.
Proof.
  intros m sub. induction sub as [|c sub IH]; intros Hs ND W; [reflexivity|]. cbn [map read2_constraints].
  rewrite (read2_constraint_archive m c); [|apply Hs; now left|exact ND|apply W; apply Hs; now left].
  rewrite IH; [reflexivity| |exact ND|exact W]. intros c' Hc'. apply Hs. now right.
Qed.

Lemma constraint_dirs_dstep : forall z, constraint_dirs z = fold_left dstep z [].
Proof. reflexivity. Qed.

Lemma constraint_dirs_archive2 : forall m, NoDup (map c2_dir (c2_cons m)) ->
  constraint_dirs (cqm2_archive m) = map c2_dir (c2_cons m).
Proof.
  intros m ND. rewrite constraint_dirs_dstep, archive_shape.
  cbn [fold_left].
  replace (dstep [] (VARINFO_NAME, section MAGIC_VTYP NLEN_VTYP (List.concat (map enc_vinfo (c2_vinfo m))))) with (@nil bytes) by reflexivity.
  rewrite fold_left_app.
  replace (fold_left dstep (labels_members m) []) with (@nil bytes)
    by (unfold labels_members; destruct (c2_labels m); reflexivity).
  cbn [fold_left].
  replace (dstep [] (OBJECTIVE_NAME, expr_encode (c2_obj m))) with (@nil bytes) by reflexivity.
  rewrite fold_concat2. now rewrite (fold_add_distinct2 (c2_cons m) [] ND).
Qed.

(* to_file's members read back by from_file: variables (vartypes, bounds, labels, order), objective, every constraint *)
Theorem cqm2_read_archive : forall m, Cqm2WF m -> cqm2_read (length (c2_vinfo m)) (cqm2_archive m) = Ok m.
Proof.
  intros m [Wv Wf Wl Wo Wc NDl].
  assert (ND : NoDup (map c2_dir (c2_cons m))).
  { revert Wc NDl. generalize (c2_cons m). induction l as [|c cs IH]; intros Wc NDl; [constructor|]. cbn [map] in *.
    inversion NDl as [|a b Hn Hd]; subst. constructor.
    - intros I. apply Hn. apply in_map_iff in I. destruct I as [c' [E I]]. apply in_map_iff. exists c'. split; [|exact I].
      unfold c2_dir in E. apply pr_label_inj in E; [exact E| |]; apply c2w_label; apply Wc; [now right|now left].
    - apply IH; [|exact Hd]. intros c' Hc'. apply Wc. now right. }
  unfold cqm2_read.
  assert (Zv : zfind VARINFO_NAME (cqm2_archive m) = Some (section MAGIC_VTYP NLEN_VTYP (List.concat (map enc_vinfo (c2_vinfo m))))).
  { rewrite archive_shape. cbn [zfind]. now rewrite bytes_eqb_refl. }
  assert (Zo : zfind OBJECTIVE_NAME (cqm2_archive m) = Some (expr_encode (c2_obj m))).
  { rewrite archive_shape. cbn [zfind]. replace (bytes_eqb VARINFO_NAME OBJECTIVE_NAME) with false by reflexivity.
    rewrite zfind_app. unfold labels_members. destruct (c2_labels m); cbn [zfind].
    - replace (bytes_eqb LABELS_NAME OBJECTIVE_NAME) with false by reflexivity. now rewrite bytes_eqb_refl.
    - now rewrite bytes_eqb_refl. }
  assert (Zl : zfind LABELS_NAME (cqm2_archive m) = option_map pr_labels (c2_labels m)).
  { rewrite archive_shape. cbn [zfind]. replace (bytes_eqb VARINFO_NAME LABELS_NAME) with false by reflexivity.
    rewrite zfind_app. unfold labels_members. destruct (c2_labels m) as [l|]; cbn [zfind option_map].
    - now rewrite bytes_eqb_refl.
    - replace (bytes_eqb OBJECTIVE_NAME LABELS_NAME) with false by reflexivity.
      clear -ND. induction (c2_cons m) as [|c cs IH]; [reflexivity|]. cbn [map List.concat]. rewrite zfind_app.
      replace (zfind LABELS_NAME (con2_members c)) with (@None bytes).
      + apply IH. cbn [map] in ND. now inversion ND.
      + unfold con2_members. rewrite !zfind_app. cbn [zfind].
        destruct (c2_discrete c); destruct (c2_soft c) as [[w p]|]; reflexivity. }
  rewrite Zv, Zo.
  assert (Rv : run (dec_tsection MAGIC_VTYP NLEN_VTYP (pd_chunks (length (c2_vinfo m)) 17))
                   (section MAGIC_VTYP NLEN_VTYP (List.concat (map enc_vinfo (c2_vinfo m)))) = Ok (map enc_vinfo (c2_vinfo m))).
  { unfold run.
    assert (Hp : forall j, pd_chunks (length (c2_vinfo m)) 17 (List.concat (map enc_vinfo (c2_vinfo m)) ++ spaces j)
                           = Some (map enc_vinfo (c2_vinfo m))).
    { intros j. pose proof (pd_chunks_ok 17 (map enc_vinfo (c2_vinfo m)) j (Forall_enc_vinfo 8 _ Wv)) as Q.
      rewrite map_length in Q. exact Q. }
    pose proof (tsection_rt MAGIC_VTYP NLEN_VTYP (pd_chunks (length (c2_vinfo m)) 17) (List.concat (map enc_vinfo (c2_vinfo m)))
                  (map enc_vinfo (c2_vinfo m)) Wf Hp []) as T.
    rewrite app_nil_r in T. now rewrite T. }
  rewrite Rv. rewrite (expr_decode_encode _ Wo). rewrite (constraint_dirs_archive2 m ND).
  rewrite (read2_constraints_archive m (c2_cons m) (fun c H => H) ND Wc).
  rewrite Zl. rewrite (map_dec_enc_vinfo 8 _ Wv).
  destruct m as [vi labs obj cons]. cbn [c2_labels c2_vinfo c2_obj c2_cons option_map] in *.
  destruct labs as [l|]; cbn [option_map]; [|reflexivity].
  pose proof (label_roundtrip l 0 (Wl l eq_refl)) as R. cbn [spaces repeat] in R. rewrite app_nil_r in R. now rewrite R.
Qed.
