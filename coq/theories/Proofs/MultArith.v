(* C17: multiplication_circuit(n, m) for ALL n, m >= 2 - an assignment of the wires that satisfies
   every gate has product bits encoding a * b.  Induction over the rows of the adder array:
   with R_i the (m+1)-bit value produced by row i,  R_i = a_i * B + (R_{i-1} - p_{i-1}) / 2, hence
   sum_{k<i} p_k 2^k + 2^i R_i = B * sum_{k<=i} a_k 2^k. *)
From Coq Require Import List ZArith QArith Qcanon Bool Arith Lia.
From Dimod Require Import Base.Util Model.Poly Model.Comb Gen.Gen_Gates Model.Gates Model.MultCircuit
  Proofs.GatesFacts Proofs.MultFacts.
Import ListNotations.
Open Scope Z_scope.

Definition zb (b : bool) : Z := if b then 1 else 0.

Fixpoint pow2 (k : nat) : Z := match k with O => 1 | S j => 2 * pow2 j end.
(* sum_{j<m} f j * 2^j *)
Fixpoint zs (m : nat) (f : nat -> Z) : Z := match m with O => 0 | S k => zs k f + f k * pow2 k end.

Lemma zs_ext m f g : (forall j, (j < m)%nat -> f j = g j) -> zs m f = zs m g.
Proof. induction m as [|k IH]; intros H; cbn [zs]; [reflexivity|]. rewrite IH, (H k) by (intros; try apply H; lia). reflexivity. Qed.

Lemma zs_plus m f g : zs m (fun j => f j + g j) = zs m f + zs m g.
Proof. induction m as [|k IH]; cbn [zs]; [reflexivity|]. rewrite IH. ring. Qed.

Lemma zs_scale m c f : zs m (fun j => c * f j) = c * zs m f.
Proof. induction m as [|k IH]; cbn [zs]; [ring|]. rewrite IH. ring. Qed.

(* low bit and the rest *)
Lemma zs_shift m f : zs (S m) f = f O + 2 * zs m (fun j => f (S j)).
Proof.
  induction m as [|k IH]; [cbn; ring|].
  change (zs (S (S k)) f) with (zs (S k) f + f (S k) * pow2 (S k)). rewrite IH.
  cbn [zs pow2]. ring.
Qed.

Lemma zs_split k l f : zs (k + l) f = zs k f + pow2 k * zs l (fun j => f (k + j)%nat).
Proof.
  induction l as [|l IH]; [rewrite Nat.add_0_r; cbn [zs]; ring|].
  rewrite Nat.add_succ_r. cbn [zs]. rewrite IH.
  assert (E : pow2 (k + l) = pow2 k * pow2 l) by (clear; induction k as [|k IH]; cbn [pow2 plus]; [ring|rewrite IH; ring]).
  rewrite E. ring.
Qed.

(* ripple carry: sum_j 2^j (S_j + 2 C_j - C_{j-1}) = sum_j 2^j S_j + 2^m C_{m-1} *)
Lemma zs_ripple m (Sv Cf : nat -> Z) :
  zs m (fun j => Sv j + 2 * Cf j - (if (0 <? j)%nat then Cf (j - 1)%nat else 0))
  = zs m Sv + pow2 m * (if (0 <? m)%nat then Cf (m - 1)%nat else 0).
Proof.
  induction m as [|k IH]; [cbn; ring|]. cbn [zs]. rewrite IH.
  replace (S k - 1)%nat with k by lia.
  destruct k as [|k']; [cbn; ring|].
  replace (0 <? S (S k'))%nat with true by reflexivity. replace (0 <? S k')%nat with true by reflexivity.
  replace (S k' - 1)%nat with k' by lia. cbn [pow2]. ring.
Qed.

Lemma bits_val_app l b : bits_val (l ++ [b]) = bits_val l + zb b * pow2 (length l).
Proof. induction l as [|x l IH]; cbn [app bits_val length pow2]; [destruct b; cbn; ring|]. rewrite IH. destruct x; ring. Qed.

Lemma bits_val_zs (f : nat -> bool) m : bits_val (map f (seq 0 m)) = zs m (fun j => zb (f j)).
Proof.
  induction m as [|k IH]; [reflexivity|]. rewrite seq_S, map_app. cbn [map plus].
  rewrite bits_val_app, IH, map_length, seq_length. reflexivity.
Qed.

(* ---------- the gate equations ---------- *)
Section Circuit.
Variables (n m : nat) (a : wassign).
Hypothesis Hm : (2 <= m)%nat.
Hypothesis Hsat : all_sat (circuit n m) a = true.

Definition z (w : wire) : Z := zb (a w).

Lemma sat_in g i j : (i < n)%nat -> (j < m)%nat -> In g (gate_ij n m i j) -> inst_sat a g = true.
Proof.
  intros Hi Hj Hg. unfold all_sat in Hsat. rewrite forallb_forall in Hsat. apply Hsat.
  unfold circuit. apply in_flat_map. exists i. split; [apply in_seq; lia|].
  apply in_flat_map. exists j. split; [apply in_seq; lia|exact Hg].
Qed.

Lemma and_eq i j : (i < n)%nat -> (j < m)%nat -> z (AND_ i j) = z (WA i) * z (WB j).
Proof.
  intros Hi Hj. assert (H := sat_in (IAnd (WA i) (WB j) (AND_ i j)) i j Hi Hj).
  unfold gate_ij in H. specialize (H (or_introl eq_refl)). cbn [inst_sat and_ok] in H.
  apply eqb_prop in H. unfold z. rewrite H. destruct (a (WA i)), (a (WB j)); reflexivity.
Qed.

Definition Xv (i j : nat) : Z :=
  if (j <? m - 1)%nat then (if (1 <? i)%nat then z (SUM_ n (i - 1) (j + 1)) else z (AND_ 0 (j + 1)))
  else (if (1 <? i)%nat then z (CARRY_ n m (i - 1) j) else 0).
Definition Cv (i j : nat) : Z := if (0 <? j)%nat then z (CARRY_ n m i (j - 1)) else 0.

Lemma half_eq x y s c : halfadder_ok [x; y; s; c] = true -> zb x + zb y = zb s + 2 * zb c.
Proof. destruct x, y, s, c; cbn; intros H; try discriminate H; reflexivity. Qed.
Lemma full_eq x y w s c : fulladder_ok [x; y; w; s; c] = true -> zb x + zb y + zb w = zb s + 2 * zb c.
Proof. destruct x, y, w, s, c; cbn; intros H; try discriminate H; reflexivity. Qed.

Lemma adder_eq i j : (1 <= i)%nat -> (i < n)%nat -> (j < m)%nat ->
  z (AND_ i j) + Xv i j + Cv i j = z (SUM_ n i j) + 2 * z (CARRY_ n m i j).
Proof.
  intros Hi1 Hi Hj. pose proof (sat_in) as S. specialize (fun g => S g i j Hi Hj).
  unfold gate_ij in S. unfold Xv, Cv.
  assert (E0 : (0 <? i)%nat = true) by (apply Nat.ltb_lt; lia). rewrite E0 in S.
  destruct (j <? m - 1)%nat eqn:E1, (1 <? i)%nat eqn:E2, (0 <? j)%nat eqn:E3; cbn [app] in S;
    try (apply Nat.ltb_ge in E1; apply Nat.ltb_ge in E3; lia).
  - specialize (S _ (or_intror (or_introl eq_refl))). cbn [inst_sat] in S. apply full_eq in S. unfold z. lia.
  - specialize (S _ (or_intror (or_introl eq_refl))). cbn [inst_sat] in S. apply half_eq in S. unfold z. lia.
  - specialize (S _ (or_intror (or_introl eq_refl))). cbn [inst_sat] in S. apply full_eq in S. unfold z. lia.
  - specialize (S _ (or_intror (or_introl eq_refl))). cbn [inst_sat] in S. apply half_eq in S. unfold z. lia.
  - specialize (S _ (or_intror (or_introl eq_refl))). cbn [inst_sat] in S. apply full_eq in S. unfold z. lia.
  - specialize (S _ (or_intror (or_introl eq_refl))). cbn [inst_sat] in S. apply half_eq in S. unfold z. lia.
Qed.
End Circuit.

(* ---------- rows ---------- *)
Section Rows.
Variables (n m : nat) (a : wassign).
Hypothesis Hm : (2 <= m)%nat.
Hypothesis Hsat : all_sat (circuit n m) a = true.

Notation zz := (z a).
Definition Bv : Z := zs m (fun j => zz (WB j)).
Definition pbit (k : nat) : Z := zz (WP k).
Definition Rv (i : nat) : Z :=
  match i with
  | O => zs m (fun j => zz (AND_ 0 j))
  | S _ => zs m (fun j => zz (SUM_ n i j)) + pow2 m * zz (CARRY_ n m i (m - 1))
  end.

Lemma row_sum i : (1 <= i)%nat -> (i < n)%nat -> Rv i = zz (WA i) * Bv + zs m (Xv n m a i).
Proof.
  intros Hi1 Hi. destruct i as [|i']; [lia|]. cbn [Rv].
  pose proof (zs_ripple m (fun j => zz (SUM_ n (S i') j)) (fun j => zz (CARRY_ n m (S i') j))) as Hr.
  assert (E : (0 <? m)%nat = true) by (apply Nat.ltb_lt; lia). rewrite E in Hr. rewrite <- Hr.
  unfold Bv. rewrite <- zs_scale, <- zs_plus. apply zs_ext. intros j Hj.
  pose proof (adder_eq n m a Hm Hsat (S i') j Hi1 Hi Hj) as Ha.
  rewrite (and_eq n m a Hm Hsat (S i') j Hi Hj) in Ha. unfold Cv in Ha.
  destruct (0 <? j)%nat; lia.
Qed.

Lemma upper i : (1 <= i)%nat -> (i < n)%nat -> 2 * zs m (Xv n m a i) + pbit (i - 1) = Rv (i - 1).
Proof.
  intros Hi1 Hi. assert (Em : m = S (m - 1)) by lia.
  assert (HX : zs m (Xv n m a i)
               = zs (m - 1) (fun j => if (1 <? i)%nat then zz (SUM_ n (i - 1) (S j)) else zz (AND_ 0 (S j)))
                 + (if (1 <? i)%nat then zz (CARRY_ n m (i - 1) (m - 1)) else 0) * pow2 (m - 1)).
  { rewrite Em at 1. cbn [zs]. f_equal.
    - apply zs_ext. intros j Hj. unfold Xv.
      destruct (Nat.ltb_spec j (m - 1)); [|lia]. rewrite Nat.add_1_r. reflexivity.
    - unfold Xv. rewrite Nat.ltb_irrefl. reflexivity. }
  rewrite HX. clear HX.
  destruct i as [|[|i'']]; [lia| |].
  - (* i = 1 : the upper inputs are the AND gates of row 0 *)
    cbn [Nat.sub Rv]. replace (1 <? 1)%nat with false by reflexivity.
    replace (zs m (fun j => zz (AND_ 0 j))) with (zs (S (m - 1)) (fun j => zz (AND_ 0 j))) by (rewrite <- Em; reflexivity).
    rewrite zs_shift. unfold pbit. change (AND_ 0 0) with (WP 0). ring.
  - (* i > 1 : sums and last carry of the previous row *)
    replace (1 <? S (S i''))%nat with true by reflexivity.
    replace (S (S i'') - 1)%nat with (S i'') by lia. cbn [Rv].
    replace (zs m (fun j => zz (SUM_ n (S i'') j))) with (zs (S (m - 1)) (fun j => zz (SUM_ n (S i'') j)))
      by (rewrite <- Em; reflexivity).
    replace (pow2 m) with (pow2 (S (m - 1))) by (rewrite <- Em; reflexivity).
    rewrite zs_shift. unfold pbit.
    assert (E0 : SUM_ n (S i'') 0 = WP (S i'')) by reflexivity. rewrite E0. cbn [pow2]. ring.
Qed.

Definition Av (k : nat) : Z := zs k (fun i => zz (WA i)).

Lemma rows_invariant i : (i < n)%nat -> zs i pbit + pow2 i * Rv i = Bv * Av (S i).
Proof.
  induction i as [|i IH]; intros Hi.
  - cbn [zs pow2 Rv Av]. rewrite (zs_ext m (fun j => zz (AND_ 0 j)) (fun j => zz (WA 0) * zz (WB j)))
      by (intros j Hj; apply (and_eq n m a Hm Hsat 0 j Hi Hj)).
    rewrite zs_scale. unfold Bv. ring.
  - assert (Hi' : (i < n)%nat) by lia. specialize (IH Hi').
    pose proof (row_sum (S i) ltac:(lia) Hi) as Hr.
    pose proof (upper (S i) ltac:(lia) Hi) as Hu. replace (S i - 1)%nat with i in Hu by lia.
    unfold Av in *. cbn [zs pow2] in *. rewrite Hr.
    (* 2 * pow2 i * (a * B + U) with 2 U = R i - p i *)
    nia.
Qed.

Theorem mult_arith_all (Hn : (2 <= n)%nat) :
  bits_val (prod_bits n m a) = bits_val (a_bits n a) * bits_val (b_bits m a).
Proof.
  unfold prod_bits, a_bits, b_bits. rewrite !bits_val_zs.
  destruct n as [|n'] eqn:En; [lia|]. rewrite <- En in *.
  assert (Hlt : (n' < n)%nat) by lia.
  pose proof (rows_invariant n' Hlt) as Hinv. unfold Av in Hinv. rewrite <- En in Hinv.
  fold (z a). change (fun j : nat => zb (a (WP j))) with pbit.
  change (fun j : nat => zb (a (WA j))) with (fun i : nat => zz (WA i)).
  change (zs m (fun j : nat => zb (a (WB j)))) with Bv.
  rewrite (Z.mul_comm (zs n (fun i => zz (WA i))) Bv), <- Hinv.
  replace (n + m)%nat with (n' + S m)%nat by lia. rewrite zs_split. f_equal. f_equal.
  destruct n' as [|n'']; [lia|]. cbn [Rv zs].
  f_equal.
  - apply zs_ext. intros j Hj. unfold pbit. f_equal. f_equal. unfold SUM_.
    destruct (Nat.eqb_spec j 0) as [->|Hj0]; [rewrite Nat.add_0_r; reflexivity|].
    destruct (Nat.eqb_spec (S n'') (n - 1)); [reflexivity|lia].
  - rewrite Z.mul_comm. f_equal. unfold pbit. f_equal. f_equal. unfold CARRY_.
    destruct (Nat.eqb_spec (S n'' + (m - 1)) (n + m - 2)); [f_equal; lia|lia].
Qed.
End Rows.
