(* C04: ties of the edit-history model to tables generated from the source, and
   the one place where the two variable-order disciplines differ. *)
From Coq Require Import List ZArith QArith Qcanon Bool Arith Lia.
From Dimod Require Import Base.Util Model.Poly Model.View Model.Hist Gen.Gen_QmLimits Gen.Gen_RelabelRules
  Proofs.PolyFacts Proofs.HistFacts Proofs.HistWf Proofs.HistWf2.
Import ListNotations.
Open Scope Qc_scope.

(* the defaults / admissible ranges of QM.add_variable, set_lower_bound, set_upper_bound used by
   the model are those of include/dimod/vartypes.h (generated table) *)
Lemma Qc_eq_by_eqb (a b : Qc) : Qc_eqb a b = true -> a = b.
Proof. unfold Qc_eqb. intros H. apply Qc_is_canon. apply Qeq_bool_iff. exact H. Qed.

Theorem limits_from_source vt :
  dflt_lb vt = gen_dflt_lb vt /\ dflt_ub vt = gen_dflt_ub vt /\ vt_min vt = gen_vt_min vt /\ vt_max vt = gen_vt_max vt.
Proof. destruct vt; repeat split; apply Qc_eq_by_eqb; vm_compute; reflexivity. Qed.

(* ---------- array order vs dict order ---------- *)
(* the object-dtype back-end differs from the array back-ends in one rule only: relabel_variables
   re-inserts the relabelled variables at the end.  From the same state both rules give the same
   outcome, the same polynomial, the same kind and the same set of variable records. *)
Definition py_op (o : op) : op :=
  match o with
  | ORelabel m => ORelabelPy m
  | o => o
  end.

Lemma In_moved T vs i :
  In i (filter (fun i => negb (mem_label (v_lab i) T)) vs ++ flat_map (fun v => filter (fun i => (v_lab i =? v)%nat) vs) T)
  <-> In i vs.
Proof. apply (moved_in T vs i). Qed.

Theorem backends_same_step s h o :
  snd (step s (h, py_op o)) = snd (step s (h, o))
  /\ st_poly (fst (step s (h, py_op o))) = st_poly (fst (step s (h, o)))
  /\ st_kind (fst (step s (h, py_op o))) = st_kind (fst (step s (h, o)))
  /\ forall i, In i (st_vars (fst (step s (h, py_op o)))) <-> In i (st_vars (fst (step s (h, o)))).
Proof.
  destruct o; cbn [py_op]; try (repeat split; intros H; exact H).
  cbn [step]. unfold m_relabel_py, m_relabel. destruct (relabel_ok m s); [|repeat split; intros H; exact H].
  cbn [ok fst snd]. split; [reflexivity|]. split; [reflexivity|]. split; [reflexivity|].
  intros i. unfold move_to_end, with_vars; cbn [st_vars]. apply In_moved.
Qed.

(* both disciplines keep every history well formed (wf_reachable covers ORelabelPy and ORelabelIntsPy),
   and on a state where they are applied to the same variable list they agree up to order *)

(* ---------- the error conditions of relabel_variables and resize (generated from the source) ---------- *)
Lemma negb_existsb_map {A B : Type} (f : B -> bool) (g : A -> B) (l : list A) :
  negb (existsb f (map g l)) = forallb (fun t => negb (f (g t))) l.
Proof. induction l as [|a l IH]; [reflexivity|]. cbn [map existsb forallb]. rewrite negb_orb, IH. reflexivity. Qed.

Theorem relabel_rule_from_source m s : relabel_ok m s = negb (gen_relabel_raises m s).
Proof.
  unfold relabel_ok, gen_relabel_raises, gen_relabel_dup, gen_relabel_clash.
  rewrite negb_orb, negb_involutive, negb_existsb_map. reflexivity.
Qed.

Theorem relabel_raises_iff m s h :
  snd (step s (h, ORelabel m)) = (if gen_relabel_raises m s then Raised BValue else Ok).
Proof.
  cbn [step]. unfold m_relabel. rewrite relabel_rule_from_source. destruct (gen_relabel_raises m s); reflexivity.
Qed.

Theorem resize_raises_iff n fresh s h :
  is_bqm s = true ->
  snd (step s (h, OResize n fresh)) = (if gen_resize_raises n then Raised BValue else Ok).
Proof.
  intros Hb. cbn [step]. rewrite Hb. unfold m_resize, gen_resize_raises. destruct (n <? 0)%Z; [reflexivity|].
  destruct (Z.to_nat n <=? num_variables s)%nat; reflexivity.
Qed.
