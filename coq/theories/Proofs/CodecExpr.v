(* Expression members (objective / constraint lhs) of a CQM zip. *)
From Coq Require Import List NArith ZArith Arith Bool Lia String.
From Dimod Require Import Gen.Gen_Codec Model.Codec Proofs.CodecBase Proofs.CodecFrame Proofs.CodecBqm
  Proofs.CodecBqmTop Proofs.CodecLabel Proofs.CodecJson Proofs.CodecQm.
Import ListNotations.
Open Scope nat_scope.
Notation length := List.length (only parsing).

(* class names: printable ASCII without quote and backslash *)
Definition NameWF (t : bytes) : Prop :=
  Forall (fun c => (32 <= c)%N /\ (c < 127)%N /\ N.eqb c 34 = false /\ N.eqb c 92 = false) t.

Lemma name_wfs : forall t, NameWF t -> WFs t.
Proof. intros t H. induction H as [|c t [H1 [H2 _]] Ht IH]; constructor; auto. Qed.

Lemma esc_id : forall t, NameWF t -> esc t = t.
Proof.
  intros t H. induction H as [|c t [_ [_ [H3 H4]]] Ht IH]; [reflexivity|]. cbn [esc]. rewrite H3, H4. cbn [orb].
  now rewrite IH.
Qed.

Lemma p_name_rt : forall t, NameWF t -> rt p_name (t ++ [34%N]) t.
Proof.
  intros t W rest. unfold p_name. rewrite <- app_assoc. cbn [List.app].
  rewrite <- (esc_id t W) at 1. now rewrite (p_str_rt t [] rest (name_wfs t W)).
Qed.

Lemma p_name_strict : forall t, NameWF t -> strict p_name (t ++ [34%N]).
Proof.
  intros t W k Hk. rewrite app_length in Hk. cbn [length] in Hk. unfold p_name.
  rewrite firstn_app. replace (k - length t) with 0 by lia. cbn [firstn]. rewrite app_nil_r.
  rewrite <- (esc_id t W). now rewrite p_str_prefix.
Qed.

Definition expr_json_parts (f : exprfile) : bytes :=
  L "{""dtype"": """ ++ js_dtype (ef_dtype f)
  ++ L """, ""itype"": ""int32"", ""shape"": [" ++ (dec_N (N.of_nat (length (ef_idx f))) ++ [44%N]) ++ L " "
  ++ (dec_N (N.of_nat (length (ef_quad f))) ++ [93%N])
  ++ L ", ""type"": """ ++ (ef_type f ++ [34%N]) ++ L "}" ++ [].

Lemma expr_json_eq : forall f, expr_json f = expr_json_parts f.
Proof. intros f. unfold expr_json, expr_json_parts. rewrite <- !app_assoc. rewrite app_nil_r. reflexivity. Qed.

Definition expr_hdr (f : exprfile) : dtype * N * N * bytes :=
  (ef_dtype f, N.of_nat (length (ef_idx f)), N.of_nat (length (ef_quad f)), ef_type f).

Lemma p_expr_json_rt : forall f, NameWF (ef_type f) -> rt p_expr_json (expr_json f) (expr_hdr f).
Proof.
  intros f W. rewrite expr_json_eq. unfold expr_json_parts, p_expr_json, expr_hdr.
  apply rt_lit_bind.
  apply (rt_bind _ _ _ _ (ef_dtype f)); [apply p_dtype_rt|].
  apply rt_lit_bind.
  apply (rt_bind _ _ _ _ (N.of_nat (length (ef_idx f)))); [apply p_N_until_rt; reflexivity|].
  apply rt_lit_bind.
  apply (rt_bind _ _ _ _ (N.of_nat (length (ef_quad f)))); [apply p_N_until_rt; reflexivity|].
  apply rt_lit_bind.
  apply (rt_bind _ _ _ _ (ef_type f)); [now apply p_name_rt|].
  apply rt_lit_bind. apply rt_ret_nil.
Qed.

Lemma p_expr_json_strict : forall f, NameWF (ef_type f) -> strict p_expr_json (expr_json f).
Proof.
  intros f W. rewrite expr_json_eq. unfold expr_json_parts, p_expr_json.
  apply strict_lit_bind.
  apply (strict_bind _ _ _ _ (ef_dtype f)); [apply p_dtype_rt|apply p_dtype_strict|].
  apply strict_lit_bind.
  apply (strict_bind _ _ _ _ (N.of_nat (length (ef_idx f)))); [apply p_N_until_rt; reflexivity|apply p_N_until_strict|].
  apply strict_lit_bind.
  apply (strict_bind _ _ _ _ (N.of_nat (length (ef_quad f)))); [apply p_N_until_rt; reflexivity|apply p_N_until_strict|].
  apply strict_lit_bind.
  apply (strict_bind _ _ _ _ (ef_type f)); [now apply p_name_rt|now apply p_name_strict|].
  apply strict_lit_bind. apply strict_nil.
Qed.

(* quadratic records *)
Definition q_ok (w : nat) (e : N * (N * bytes)) : Prop :=
  (fst e < 256 ^ N.of_nat IDX_BYTES)%N /\ (fst (snd e) < 256 ^ N.of_nat IDX_BYTES)%N /\ length (snd (snd e)) = w.

Lemma enc_q_length : forall w e, q_ok w e -> length (enc_q e) = IDX_BYTES + IDX_BYTES + w.
Proof. intros w [u [v b]] [_ [_ H]]. unfold enc_q. cbn [fst snd] in *. rewrite !app_length, !le_enc_length, H. lia. Qed.

Lemma dec_enc_q : forall w e, q_ok w e -> dec_q (enc_q e) = e.
Proof.
  intros w [u [v b]] [H1 [H2 H3]]. unfold dec_q, enc_q. cbn [fst snd] in *.
  rewrite (firstn_app_len IDX_BYTES _ _ (le_enc_length IDX_BYTES u)).
  rewrite (skipn_app_len IDX_BYTES _ _ (le_enc_length IDX_BYTES u)).
  rewrite (firstn_app_len IDX_BYTES _ _ (le_enc_length IDX_BYTES v)).
  rewrite !le_decode_encode by assumption.
  replace (IDX_BYTES + IDX_BYTES) with (length (le_enc IDX_BYTES u ++ le_enc IDX_BYTES v))
    by (rewrite app_length, !le_enc_length; reflexivity).
  rewrite app_assoc, skipn_app_l. reflexivity.
Qed.

Lemma map_dec_enc_q : forall w qs, Forall (q_ok w) qs -> map dec_q (map enc_q qs) = qs.
Proof. intros w qs H. induction H as [|e qs He Hq IH]; cbn [map]; [reflexivity|]. now rewrite (dec_enc_q w e He), IH. Qed.

Lemma Forall_enc_q : forall w qs, Forall (q_ok w) qs -> Forall (fun c => length c = IDX_BYTES + IDX_BYTES + w) (map enc_q qs).
Proof. intros w qs H. induction H; cbn [map]; constructor; auto. now apply enc_q_length. Qed.

Lemma map_le_dec_enc : forall idx, Forall (fun x => (x < 256 ^ N.of_nat IDX_BYTES)%N) idx ->
  map le_dec (map (le_enc IDX_BYTES) idx) = idx.
Proof. intros idx H. induction H as [|x idx Hx Hi IH]; cbn [map]; [reflexivity|]. now rewrite le_decode_encode, IH. Qed.

Lemma Forall_le_enc : forall idx, Forall (fun c => length c = IDX_BYTES) (map (le_enc IDX_BYTES) idx).
Proof. induction idx; cbn [map]; constructor; auto using le_enc_length. Qed.

Lemma expr_eta : forall f, mkExprFile (ef_dtype f) (ef_type f) (ef_idx f) (ef_off f) (ef_lin f) (ef_quad f) = f.
Proof. intros []. reflexivity. Qed.

Record ExprWF (f : exprfile) : Prop := {
  ew_name : NameWF (ef_type f);
  ew_off : length (ef_off f) = dwidth (ef_dtype f);
  ew_lin : Forall (fun b => length b = dwidth (ef_dtype f)) (ef_lin f);
  ew_llen : length (ef_lin f) = length (ef_idx f);
  ew_idx : Forall (fun x => (x < 256 ^ N.of_nat IDX_BYTES)%N) (ef_idx f);
  ew_quad : Forall (q_ok (dwidth (ef_dtype f))) (ef_quad f);
  ew_fit_json : (N.of_nat (length (expr_json f) + 1 + ALIGN) < 256 ^ N.of_nat HEADER_LEN_BYTES)%N;
  ew_fit_idx : fits32 (length (List.concat (map (le_enc IDX_BYTES) (ef_idx f))));
  ew_fit_lin : fits32 (length (List.concat (ef_lin f)));
  ew_fit_quad : (N.of_nat (length (List.concat (map enc_q (ef_quad f))) + ALIGN) < 256 ^ N.of_nat NLEN_QUAD)%N
}.

Theorem expr_goodp : forall f, ExprWF f -> goodp expr_decode (expr_encode f) f.
Proof.
  intros f W. destruct W as [Wn Ho Hl Hll Hi Hq Fj Fi Fl Fq].
  destruct magic_pos as [_ [M2 [M3 [_ [_ [M6 M7]]]]]].
  unfold expr_encode, expr_decode.
  apply (goodp_bind _ _ _ _ (CQM_WRITE_VERSION, expr_hdr f)).
  { apply goodp_header; [exact Fj| |].
    - intros ws Hws. unfold json_doc. rewrite (p_expr_json_rt f Wn ws). now rewrite Hws.
    - intros k Hk. unfold json_doc. now rewrite (p_expr_json_strict f Wn k Hk). }
  cbv beta. cbn [fst snd]. unfold expr_hdr. cbv iota. cbv zeta. rewrite !Nat2N.id.
  set (w := dwidth (ef_dtype f)) in *.
  apply (goodp_bind _ _ _ _ (map (le_enc IDX_BYTES) (ef_idx f))).
  { apply goodp_tsection; [exact M6|exact Fi| |].
    - intros j. rewrite <- (map_length (le_enc IDX_BYTES) (ef_idx f)). apply pd_chunks_ok. apply Forall_le_enc.
    - intros k Hk. rewrite <- (map_length (le_enc IDX_BYTES) (ef_idx f)). apply pd_chunks_strict; [apply Forall_le_enc|exact Hk]. }
  apply (goodp_bind _ _ _ _ (ef_off f)).
  { apply goodp_tsection; [exact M2| | |].
    - unfold fits32 in *. rewrite Ho. destruct (ef_dtype f); vm_compute; reflexivity.
    - intros j. now apply pd_take_ok.
    - intros k Hk. now apply pd_take_strict. }
  apply (goodp_bind _ _ _ _ (ef_lin f)).
  { rewrite <- Hll. apply goodp_tsection; [exact M3|exact Fl| |].
    - intros j. now apply pd_chunks_ok.
    - intros k Hk. now apply pd_chunks_strict. }
  cbv beta. rewrite (map_le_dec_enc (ef_idx f) Hi).
  pose proof (goodp_bind_ret (dec_tsection MAGIC_QUAD NLEN_QUAD (pd_chunks (length (ef_quad f)) (IDX_BYTES + IDX_BYTES + w)))
                (fun q => mkExprFile (ef_dtype f) (ef_type f) (ef_idx f) (ef_off f) (ef_lin f) (map dec_q q))
                (section MAGIC_QUAD NLEN_QUAD (List.concat (map enc_q (ef_quad f)))) (map enc_q (ef_quad f))) as G.
  cbv beta in G. rewrite (map_dec_enc_q w (ef_quad f) Hq), expr_eta in G. apply G.
  apply goodp_tsection; [exact M7|exact Fq| |].
  - intros j. rewrite <- (map_length enc_q (ef_quad f)). apply pd_chunks_ok. now apply Forall_enc_q.
  - intros k Hk. rewrite <- (map_length enc_q (ef_quad f)). apply pd_chunks_strict; [now apply Forall_enc_q|exact Hk].
Qed.

Theorem expr_decode_encode : forall f, ExprWF f -> run expr_decode (expr_encode f) = Ok f.
Proof.
  intros f W. destruct (goodp_safe _ _ _ (expr_goodp f W)) as [R _]. specialize (R []). rewrite app_nil_r in R.
  unfold run. now rewrite R.
Qed.

Theorem expr_prefix_safe : forall f k, ExprWF f -> k < length (expr_encode f) ->
  run expr_decode (firstn k (expr_encode f)) = Err \/ run expr_decode (firstn k (expr_encode f)) = Ok f.
Proof.
  intros f k W Hk. destruct (goodp_safe _ _ _ (expr_goodp f W)) as [_ P].
  unfold run. destruct (P k Hk) as [E|E]; rewrite E; [now left|now right].
Qed.
