(* C06: the existing-label branch of cyqm add_variable as read from the source (Gen/Gen_AddVar.v, run by
   Model/Ops.v gen_addvar_existing) rejects exactly the conflicting re-declarations; with both bounds
   given - the way QuadraticModel.__mul__ calls it - it is the rule `mul_err` of Model/Sym.v, so the
   translated product of two linear QMs is the specified product. *)
From Coq Require Import List ZArith QArith Qcanon Bool Arith Lia.
From Dimod Require Import Base.Util Model.Poly Model.Sym Model.OpsLang Gen.Gen_Ops Gen.Gen_AddVar Model.Ops
  Proofs.PolyFacts Proofs.SymFacts Proofs.OpsFacts.
Import ListNotations.
Open Scope Qc_scope.

Lemma Qc_eqb_sym a b : Qc_eqb a b = Qc_eqb b a.
Proof.
  destruct (Qc_eqb a b) eqn:E1, (Qc_eqb b a) eqn:E2; try reflexivity.
  - apply Qc_eqb_eq in E1. subst. rewrite Qc_eqb_refl in E2. discriminate.
  - apply Qc_eqb_eq in E2. subst. rewrite Qc_eqb_refl in E1. discriminate.
Qed.

Lemma Qc_eqb_neq a b : a <> b -> Qc_eqb a b = false.
Proof. intros H. destruct (Qc_eqb a b) eqn:E; [apply Qc_eqb_eq in E; contradiction|reflexivity]. Qed.

(* ---------- the specification of a re-declaration ---------- *)
(* a bound that is passed must be the existing one *)
Definition bound_agrees (given : option Qc) (have : Qc) : Prop := forall q, given = Some q -> q = have.

Definition bounded_vt (vt : vartype) : Prop := vt = INTEGER \/ vt = REAL.

(* add_variable(vt, label, lower_bound=lb, upper_bound=ub) on a label the model holds as `have` is
   compatible when the vartype is the same and - for INTEGER / REAL - every bound passed is the existing one *)
Definition redecl_ok (have : vinfo) (vt : vartype) (lb ub : option Qc) : Prop :=
  vi_vt have = vt /\ (bounded_vt vt -> bound_agrees lb (vi_lb have) /\ bound_agrees ub (vi_ub have)).

Lemma bound_agrees_dec_some q have : bound_agrees (Some q) have <-> q = have.
Proof. unfold bound_agrees. split; [intros H; apply H; reflexivity|intros -> q' E; inversion E; reflexivity]. Qed.

Lemma bound_agrees_none have : bound_agrees None have.
Proof. intros q E. discriminate. Qed.

Lemma agrees_b_spec given have : agrees_b given have = true <-> bound_agrees given have.
Proof.
  destruct given as [q|]; cbn [agrees_b].
  - rewrite bound_agrees_dec_some. split; [apply Qc_eqb_eq|intros ->; apply Qc_eqb_refl].
  - split; [intros _; apply bound_agrees_none|reflexivity].
Qed.

Lemma run_gen_checks have lb ub :
  run_av_checks gen_addvar_checks have lb ub =
  if agrees_b lb (vi_lb have) then (if agrees_b ub (vi_ub have) then None else Some EValueError) else Some EValueError.
Proof.
  unfold gen_addvar_checks. cbn [run_av_checks av_arg av_have err_of].
  destruct lb as [l|], ub as [u|]; cbn [av_applies agrees_b]; reflexivity.
Qed.

(* accepted exactly when compatible *)
Lemma gen_addvar_existing_accepts have vt lb ub :
  gen_addvar_existing have vt lb ub = None <-> redecl_ok have vt lb ub.
Proof.
  unfold gen_addvar_existing, redecl_ok, gen_addvar_vt_exn, gen_addvar_bounds_skip, bounded_vt.
  rewrite run_gen_checks.
  destruct (vartype_eqb (vi_vt have) vt) eqn:EV; cbn [negb].
  - apply vartype_eqb_eq in EV. subst vt.
    assert (B : (if agrees_b lb (vi_lb have) then (if agrees_b ub (vi_ub have) then None else Some EValueError)
                 else Some EValueError) = None <->
                bound_agrees lb (vi_lb have) /\ bound_agrees ub (vi_ub have)).
    { rewrite <- !agrees_b_spec. destruct (agrees_b lb (vi_lb have)), (agrees_b ub (vi_ub have));
        split; try (intros [? ?]); try discriminate; auto. }
    destruct (vi_vt have) eqn:K; cbn [existsb vartype_eqb orb].
    + split; [intros _; split; [reflexivity|intros [H|H]; discriminate]|reflexivity].
    + split; [intros _; split; [reflexivity|intros [H|H]; discriminate]|reflexivity].
    + rewrite B. split; [intros H; split; [reflexivity|intros _; exact H]|intros [_ H]; apply H; left; reflexivity].
    + rewrite B. split; [intros H; split; [reflexivity|intros _; exact H]|intros [_ H]; apply H; right; reflexivity].
  - split; [discriminate|]. intros [H _]. subst vt. rewrite vartype_eqb_refl in EV. discriminate.
Qed.

Lemma redecl_ok_b_spec have vt lb ub : redecl_ok_b have vt lb ub = true <-> redecl_ok have vt lb ub.
Proof.
  unfold redecl_ok_b, redecl_ok, bounded_vt. rewrite andb_true_iff. split.
  - intros [V B]. apply vartype_eqb_eq in V. split; [exact V|]. intros K.
    destruct vt; try (destruct K; discriminate); apply andb_prop in B; destruct B as [B1 B2];
      split; apply agrees_b_spec; assumption.
  - intros [V B]. subst vt. split; [apply vartype_eqb_refl|].
    destruct (vi_vt have); try reflexivity.
    + destruct (B (or_introl eq_refl)) as [B1 B2]. apply agrees_b_spec in B1, B2. rewrite B1, B2. reflexivity.
    + destruct (B (or_intror eq_refl)) as [B1 B2]. apply agrees_b_spec in B1, B2. rewrite B1, B2. reflexivity.
Qed.

(* the kind of rejection: a different vartype is a TypeError, a different bound a ValueError *)
Lemma gen_addvar_existing_kind have vt lb ub e :
  gen_addvar_existing have vt lb ub = Some e ->
  (vi_vt have <> vt /\ e = ETypeError) \/ (vi_vt have = vt /\ bounded_vt vt /\ e = EValueError).
Proof.
  unfold gen_addvar_existing, gen_addvar_vt_exn, gen_addvar_bounds_skip, bounded_vt. rewrite run_gen_checks.
  destruct (vartype_eqb (vi_vt have) vt) eqn:EV; cbn [negb err_of].
  - apply vartype_eqb_eq in EV. subst vt. intros H. right. split; [reflexivity|].
    destruct (vi_vt have); cbn [existsb vartype_eqb orb] in H; try discriminate;
      (split; [auto|]); destruct (agrees_b lb (vi_lb have)), (agrees_b ub (vi_ub have)); congruence.
  - intros H. left. split; [|congruence]. intros K. subst vt. rewrite vartype_eqb_refl in EV. discriminate.
Qed.

(* ---------- the way QM.__mul__ calls it: both bounds explicit ---------- *)
Lemma gen_mul_err_eq have new : gen_mul_err have new = mul_err have new.
Proof.
  unfold gen_mul_err, gen_addvar_existing, gen_addvar_vt_exn, gen_addvar_bounds_skip, gen_addvar_checks, mul_err.
  destruct (vartype_eqb (vi_vt have) (vi_vt new)); cbn [negb err_of]; [|reflexivity].
  destruct (vi_vt new); cbn [existsb vartype_eqb orb]; try reflexivity;
    cbn [run_av_checks av_arg av_have av_applies err_of];
    rewrite (Qc_eqb_sym (vi_lb new)), (Qc_eqb_sym (vi_ub new));
    destruct (Qc_eqb (vi_lb have) (vi_lb new)), (Qc_eqb (vi_ub have) (vi_ub new)); reflexivity.
Qed.

Lemma merge_gen_mul a b : merge gen_mul_err a b = merge mul_err a b.
Proof. apply merge_ext. apply gen_mul_err_eq. Qed.

(* a re-declaration with both bounds explicit that clashes is rejected *)
Lemma gen_mul_err_clash have new : clash have new -> exists e, gen_mul_err have new = Some e.
Proof. rewrite gen_mul_err_eq. apply mul_err_clash. Qed.

(* ---------- the translated product of two linear QMs is the specified product ---------- *)
Lemma qm_table_expected v : is_unexpected (qm_table v) = false.
Proof. destruct v; reflexivity. Qed.

Lemma product_qm_correct x y :
  m_cls x = CQm -> m_cls y = CQm -> is_linear x = true -> is_linear y = true ->
  product_qm qm_table x y = m_mul x y.
Proof.
  intros Cx Cy Lx Ly. unfold product_qm, m_mul, needs_promo, mul_order. rewrite Cx, Cy, Lx, Ly. cbn [andb negb].
  rewrite merge_gen_mul. destruct (merge mul_err (m_tab x) (m_tab y)) as [t|e]; [|reflexivity].
  destruct (real_interaction t (m_poly x) (m_poly y)); [reflexivity|].
  rewrite (unexpected_none qm_table (tvt t) _ _ qm_table_expected), pmul_linear_qm_table. reflexivity.
Qed.
