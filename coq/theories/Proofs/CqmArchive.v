(* Whole CQM serialization-version-1.x archives: the reader model applied to what the writer model produces gives back
   the model - for any number of variables and constraints, QM and BQM members, labels with '/', soft constraints. *)
From Coq Require Import List NArith ZArith Arith Bool Lia String.
From Dimod Require Import Base.Util Gen.Gen_Codec Model.Codec Model.CodecEq Model.CqmFile Proofs.CodecBase Proofs.CodecFrame
  Proofs.CodecBqm Proofs.CodecBqmTop Proofs.CodecLabel Proofs.CodecJson Proofs.CodecBqmFull Proofs.CodecQm Proofs.CodecExpr
  Proofs.CqmFileFacts.
Import ListNotations.
Open Scope nat_scope.
Notation length := List.length (only parsing).

(* ------------------------------------------------------------ the tolerant QM header parser on the writer's text *)

Definition QM_TYPE : bytes := L "QuadraticModel".

Definition qm_json_parts_any (h : qmhdr) : bytes :=
  L "{""dtype"": """ ++ js_dtype (q_dtype h)
  ++ L """, ""itype"": ""int32"", ""shape"": [" ++ (dec_N (q_n h) ++ [44%N]) ++ L " "
  ++ (dec_N (q_m h) ++ [93%N])
  ++ L ", ""type"": """ ++ (QM_TYPE ++ [34%N]) ++ L ", ""variables"": " ++ js_bool (q_vars h) ++ L "}" ++ [].

Lemma qm_json_eq_any : forall h, qm_json h = qm_json_parts_any h.
Proof. intros h. unfold qm_json, qm_json_parts_any. rewrite <- !app_assoc. rewrite app_nil_r. reflexivity. Qed.

Lemma qm_type_wf : NameWF QM_TYPE.
Proof. unfold NameWF, QM_TYPE. repeat constructor; cbn; try lia; reflexivity. Qed.

Lemma p_qm_json_any_rt : forall h, rt p_qm_json_any (qm_json h) h.
Proof.
  intros h. rewrite qm_json_eq_any. unfold qm_json_parts_any, p_qm_json_any. destruct h as [d n m v]. cbn [q_dtype q_n q_m q_vars].
  apply rt_lit_bind.
  apply (rt_bind _ _ _ _ d); [apply p_dtype_rt|].
  apply rt_lit_bind.
  apply (rt_bind _ _ _ _ n); [apply p_N_until_rt; reflexivity|].
  apply rt_lit_bind.
  apply (rt_bind _ _ _ _ m); [apply p_N_until_rt; reflexivity|].
  apply rt_lit_bind.
  apply (rt_bind _ _ _ _ QM_TYPE); [apply p_name_rt; exact qm_type_wf|].
  apply rt_lit_bind.
  apply (rt_bind _ _ _ _ v); [apply p_bool_rt|].
  apply rt_lit_bind. apply rt_ret_nil.
Qed.

Lemma p_qm_json_any_strict : forall h, strict p_qm_json_any (qm_json h).
Proof.
  intros h. rewrite qm_json_eq_any. unfold qm_json_parts_any, p_qm_json_any. destruct h as [d n m v]. cbn [q_dtype q_n q_m q_vars].
  apply strict_lit_bind.
  apply (strict_bind _ _ _ _ d); [apply p_dtype_rt|apply p_dtype_strict|].
  apply strict_lit_bind.
  apply (strict_bind _ _ _ _ n); [apply p_N_until_rt; reflexivity|apply p_N_until_strict|].
  apply strict_lit_bind.
  apply (strict_bind _ _ _ _ m); [apply p_N_until_rt; reflexivity|apply p_N_until_strict|].
  apply strict_lit_bind.
  apply (strict_bind _ _ _ _ QM_TYPE); [apply p_name_rt; exact qm_type_wf|apply p_name_strict; exact qm_type_wf|].
  apply strict_lit_bind.
  apply (strict_bind _ _ _ _ v); [apply p_bool_rt|apply p_bool_strict|].
  apply strict_lit_bind. apply strict_nil.
Qed.

Theorem qm_decode_any_encode : forall f, QmWF f -> run qm_decode_any (qm_encode f) = Ok f.
Proof.
  intros f W.
  assert (G : goodp qm_decode_any (qm_encode f) f).
  { unfold qm_decode_any. apply qm_goodp_with; [exact W| |].
    - intros ws Hws. unfold json_doc. rewrite (p_qm_json_any_rt (qm_hdr f) ws). now rewrite Hws.
    - intros k Hk. unfold json_doc. now rewrite (p_qm_json_any_strict (qm_hdr f) k Hk). }
  destruct (goodp_safe _ _ _ G) as [R _]. specialize (R []). rewrite app_nil_r in R. unfold run. now rewrite R.
Qed.

(* ------------------------------------------------------------ members: fileview.load dispatch + decode *)

Definition MemberWF (m : wmember) : Prop := match m with WQm f => QmWF f | WBqm f => BqmWFL f end.

Lemma qm_encode_prefix : forall f, exists r, qm_encode f = QM_PREFIX ++ r.
Proof. intros f. unfold qm_encode, header. rewrite <- !app_assoc. eexists. reflexivity. Qed.

Lemma bqm_encode_prefix : forall f, exists r, bqm_encode f = BQM_PREFIX ++ r.
Proof. intros f. unfold bqm_encode, header. rewrite <- !app_assoc. eexists. reflexivity. Qed.

Theorem member_decode_encode : forall m, MemberWF m -> member_decode (member_encode m) = Ok (member_nexpr m).
Proof.
  intros [f|f] W; cbn [MemberWF member_encode member_nexpr] in *; unfold member_decode.
  - destruct (qm_encode_prefix f) as [r E]. rewrite E at 1. rewrite starts_with_app.
    now rewrite (qm_decode_any_encode f W).
  - destruct (bqm_encode_prefix f) as [r E].
    replace (starts_with QM_PREFIX (bqm_encode f)) with false by (rewrite E; reflexivity).
    rewrite E at 1. rewrite starts_with_app. now rewrite (bqm_decode_encode_full f W).
Qed.

(* ------------------------------------------------------------ member names *)

Lemma bytes_eqb_neq : forall a b, a <> b -> bytes_eqb a b = false.
Proof. intros a b N. destruct (bytes_eqb a b) eqn:E; [|reflexivity]. exfalso. apply N. now apply bytes_eqb_eq. Qed.

Definition noslash (leaf : bytes) : Prop := forallb (fun c => negb (N.eqb c SLASH)) leaf = true.

Lemma member_name_inj : forall d d' l l', noslash (s2b l) -> noslash (s2b l') ->
  member_name d l = member_name d' l' -> d = d' /\ s2b l = s2b l'.
Proof.
  intros d d' l l' Hl Hl' E. unfold member_name in E. apply app_inv_head in E.
  apply (f_equal split_last_slash) in E. cbn [app] in E.
  rewrite (split_last_slash_app d (s2b l) Hl), (split_last_slash_app d' (s2b l') Hl') in E.
  inversion E. now split.
Qed.

Lemma dir_label_pr : forall l, WFl l -> dir_label (pr_label l) = Some l.
Proof.
  intros l W. unfold dir_label. pose proof (label_spec l (S (length (pr_label l))) [] W I) as H.
  rewrite app_nil_r in H. rewrite H.
  replace (depth l <=? S (length (pr_label l))) with true; [reflexivity|].
  symmetry. apply Nat.leb_le. pose proof (depth_le_length l). lia.
Qed.

Lemma pr_label_inj : forall a b, WFl a -> WFl b -> pr_label a = pr_label b -> a = b.
Proof.
  intros a b Wa Wb E. pose proof (dir_label_pr a Wa) as Ha. rewrite E, (dir_label_pr b Wb) in Ha. now inversion Ha.
Qed.

Lemma pr_label_nonempty : forall l, pr_label l <> [].
Proof. intros l. destruct (pr_label_head l) as [b [t [E _]]]. rewrite E. discriminate. Qed.

(* ------------------------------------------------------------ looking members up *)

Lemma zfind_app : forall n a b, zfind n (a ++ b) = match zfind n a with Some x => Some x | None => zfind n b end.
Proof.
  intros n a b. induction a as [|[n' x] a IH]; [reflexivity|]. cbn [app zfind]. destruct (bytes_eqb n' n); [reflexivity|exact IH].
Qed.

Definition LEAVES : list string := ["lhs"; "rhs"; "sense"; "discrete"; "weight"; "penalty"]%string.

Lemma leaves_noslash : forall l, In l LEAVES -> noslash (s2b l).
Proof. intros l H. cbn in H. repeat (destruct H as [H|H]; [subst l; reflexivity|]). destruct H. Qed.

Lemma zfind_other_dir : forall c d l, In l LEAVES -> wc_dir c <> d -> zfind (member_name d l) (con_members c) = None.
Proof.
  intros c d l Hl Nd. unfold con_members.
  assert (X : forall l', In l' LEAVES -> bytes_eqb (member_name (wc_dir c) l') (member_name d l) = false).
  { intros l' Hl'. apply bytes_eqb_neq. intros E.
    destruct (member_name_inj _ _ _ _ (leaves_noslash l' Hl') (leaves_noslash l Hl) E) as [E1 _]. now apply Nd. }
  rewrite zfind_app. cbn [zfind].
  rewrite !X by (cbn; tauto).
  destruct (wc_soft c) as [[w p]|]; cbn [zfind]; [|reflexivity].
  rewrite !X by (cbn; tauto). reflexivity.
Qed.

Lemma name_neq : forall d l l', In l LEAVES -> In l' LEAVES -> s2b l <> s2b l' ->
  bytes_eqb (member_name d l) (member_name d l') = false.
Proof.
  intros d l l' Hl Hl' N. apply bytes_eqb_neq. intros E.
  destruct (member_name_inj _ _ _ _ (leaves_noslash l Hl) (leaves_noslash l' Hl') E) as [_ E2]. now apply N.
Qed.

Ltac leafneq := apply name_neq; [cbn; tauto|cbn; tauto|vm_compute; discriminate].

Lemma zfind_self : forall c,
  let d := wc_dir c in
  zfind (member_name d "lhs") (con_members c) = Some (member_encode (wc_lhs c))
  /\ zfind (member_name d "rhs") (con_members c) = Some (wc_rhs c)
  /\ zfind (member_name d "sense") (con_members c) = Some (wc_sense c)
  /\ zfind (member_name d "discrete") (con_members c) = Some [if wc_discrete c then 1%N else 0%N]
  /\ zfind (member_name d "weight") (con_members c) = option_map fst (wc_soft c)
  /\ zfind (member_name d "penalty") (con_members c) = option_map snd (wc_soft c).
Proof.
  intros c d. unfold con_members. fold d.
  repeat split; rewrite zfind_app; cbn [zfind]; rewrite ?bytes_eqb_refl; try reflexivity.
  - replace (bytes_eqb (member_name d "lhs") (member_name d "rhs")) with false by (symmetry; leafneq).
    rewrite ?bytes_eqb_refl; reflexivity.
  - replace (bytes_eqb (member_name d "lhs") (member_name d "sense")) with false by (symmetry; leafneq).
    replace (bytes_eqb (member_name d "rhs") (member_name d "sense")) with false by (symmetry; leafneq).
    rewrite ?bytes_eqb_refl; reflexivity.
  - replace (bytes_eqb (member_name d "lhs") (member_name d "discrete")) with false by (symmetry; leafneq).
    replace (bytes_eqb (member_name d "rhs") (member_name d "discrete")) with false by (symmetry; leafneq).
    replace (bytes_eqb (member_name d "sense") (member_name d "discrete")) with false by (symmetry; leafneq).
    rewrite ?bytes_eqb_refl; reflexivity.
  - replace (bytes_eqb (member_name d "lhs") (member_name d "weight")) with false by (symmetry; leafneq).
    replace (bytes_eqb (member_name d "rhs") (member_name d "weight")) with false by (symmetry; leafneq).
    replace (bytes_eqb (member_name d "sense") (member_name d "weight")) with false by (symmetry; leafneq).
    replace (bytes_eqb (member_name d "discrete") (member_name d "weight")) with false by (symmetry; leafneq).
    destruct (wc_soft c) as [[w p]|]; cbn [zfind option_map fst]; rewrite ?bytes_eqb_refl; reflexivity.
  - replace (bytes_eqb (member_name d "lhs") (member_name d "penalty")) with false by (symmetry; leafneq).
    replace (bytes_eqb (member_name d "rhs") (member_name d "penalty")) with false by (symmetry; leafneq).
    replace (bytes_eqb (member_name d "sense") (member_name d "penalty")) with false by (symmetry; leafneq).
    replace (bytes_eqb (member_name d "discrete") (member_name d "penalty")) with false by (symmetry; leafneq).
    destruct (wc_soft c) as [[w p]|]; cbn [zfind option_map snd]; [|reflexivity].
    replace (bytes_eqb (member_name d "weight") (member_name d "penalty")) with false by (symmetry; leafneq).
    rewrite ?bytes_eqb_refl; reflexivity.
Qed.

(* ------------------------------------------------------------ the constraint directories of a written archive *)

Definition dstep (acc : list bytes) (e : bytes * bytes) : list bytes :=
  match constraint_dir (fst e) with Some d => add_distinct acc d | None => acc end.

Lemma add_distinct_idem : forall acc d, add_distinct (add_distinct acc d) d = add_distinct acc d.
Proof.
  intros acc d. unfold add_distinct at 2. destruct (existsb (bytes_eqb d) acc) eqn:E.
  - unfold add_distinct. now rewrite E.
  - unfold add_distinct. rewrite existsb_app, E. cbn. now rewrite bytes_eqb_refl.
Qed.

Lemma constraint_dir_name : forall d l, d <> [] -> In l LEAVES -> constraint_dir (member_name d l) = Some d.
Proof. intros d l Nd Hl. unfold member_name. apply constraint_dir_member; [exact Nd|exact (leaves_noslash l Hl)]. Qed.

Lemma fold_con_members : forall c acc, fold_left dstep (con_members c) acc = add_distinct acc (wc_dir c).
Proof.
  intros c acc. unfold con_members. set (d := wc_dir c).
  assert (Nd : d <> []) by apply pr_label_nonempty.
  rewrite fold_left_app. cbn [fold_left]. unfold dstep. cbn [fst].
  rewrite !(constraint_dir_name d) by (try exact Nd; cbn; tauto).
  rewrite !add_distinct_idem.
  destruct (wc_soft c) as [[w p]|]; cbn [fold_left fst]; [|reflexivity].
  rewrite !(constraint_dir_name d) by (try exact Nd; cbn; tauto).
  now rewrite !add_distinct_idem.
Qed.

Lemma fold_concat : forall (cs : list wcon) acc,
  fold_left dstep (List.concat (map con_members cs)) acc = fold_left (fun a c => add_distinct a (wc_dir c)) cs acc.
Proof.
  induction cs as [|c cs IH]; intros acc; [reflexivity|]. cbn [map List.concat fold_left].
  rewrite fold_left_app, fold_con_members. apply IH.
Qed.

Lemma existsb_bytes_false : forall d acc, ~ In d acc -> existsb (bytes_eqb d) acc = false.
Proof.
  intros d acc H. destruct (existsb (bytes_eqb d) acc) eqn:E; [|reflexivity]. exfalso. apply H.
  apply existsb_exists in E. destruct E as [x [I Ex]]. apply bytes_eqb_eq in Ex. now subst.
Qed.

Lemma fold_add_distinct : forall (cs : list wcon) acc, NoDup (acc ++ map wc_dir cs) ->
  fold_left (fun a c => add_distinct a (wc_dir c)) cs acc = acc ++ map wc_dir cs.
Proof.
  induction cs as [|c cs IH]; intros acc ND; [now rewrite app_nil_r|]. cbn [fold_left map].
  cbn [map] in ND. unfold add_distinct. rewrite existsb_bytes_false.
  - rewrite IH; rewrite <- app_assoc; [reflexivity|exact ND].
  - intros I. apply NoDup_remove_2 in ND. apply ND. apply in_or_app. now left.
Qed.

Theorem constraint_dirs_archive : forall obj cons, NoDup (map wc_dir cons) ->
  constraint_dirs (legacy_archive obj cons) = map wc_dir cons.
Proof.
  intros obj cons ND. unfold constraint_dirs, legacy_archive. cbn [fold_left].
  change (fold_left _ (List.concat (map con_members cons)) ?a) with (fold_left dstep (List.concat (map con_members cons)) a).
  replace (match constraint_dir (fst (s2b "objective", member_encode obj)) with Some d => add_distinct [] d | None => [] end)
    with (@nil bytes) by reflexivity.
  rewrite fold_concat. now rewrite (fold_add_distinct cons [] ND).
Qed.

(* ------------------------------------------------------------ reading a written archive *)

Record ConWF (c : wcon) : Prop := {
  cw_label : WFl (wc_label c);
  cw_lhs : MemberWF (wc_lhs c);
  cw_rhs : length (wc_rhs c) = 8;
  cw_weight : forall w p, wc_soft c = Some (w, p) -> length w = 8 }.

Lemma objective_not_constraint : forall d l, bytes_eqb (s2b "objective") (member_name d l) = false.
Proof. intros d l. reflexivity. Qed.

Lemma zfind_absent : forall (cs : list wcon) d l, In l LEAVES -> ~ In d (map wc_dir cs) ->
  zfind (member_name d l) (List.concat (map con_members cs)) = None.
Proof.
  induction cs as [|c cs IH]; intros d l Hl Hn; [reflexivity|]. cbn [map List.concat]. rewrite zfind_app.
  rewrite zfind_other_dir; [|exact Hl|].
  - apply IH; [exact Hl|]. intros I. apply Hn. now right.
  - intros E. apply Hn. left. exact E.
Qed.

(* a member of constraint c is found in the archive, whatever else the archive holds *)
Lemma zfind_in_cons : forall (cs : list wcon) c l, In l LEAVES -> In c cs -> NoDup (map wc_dir cs) ->
  zfind (member_name (wc_dir c) l) (List.concat (map con_members cs)) = zfind (member_name (wc_dir c) l) (con_members c).
Proof.
  induction cs as [|c0 cs IH]; intros c l Hl Hin ND; [destruct Hin|]. cbn [map List.concat]. rewrite zfind_app.
  cbn [map] in ND. inversion ND as [|a b Hn Hd]; subst. destruct Hin as [E|Hin].
  - subst c0. destruct (zfind (member_name (wc_dir c) l) (con_members c)) eqn:Z; [reflexivity|].
    now apply zfind_absent.
  - rewrite zfind_other_dir; [now apply IH|exact Hl|].
    intros E. apply Hn. rewrite E. now apply in_map.
Qed.

Lemma zfind_archive : forall obj cs c l, In l LEAVES -> In c cs -> NoDup (map wc_dir cs) ->
  zfind (member_name (wc_dir c) l) (legacy_archive obj cs) = zfind (member_name (wc_dir c) l) (con_members c).
Proof.
  intros obj cs c l Hl Hin ND. unfold legacy_archive. cbn [zfind]. rewrite objective_not_constraint.
  now apply zfind_in_cons.
Qed.

Lemma firstn_exact : forall (b : bytes) n, length b = n -> firstn n b = b.
Proof. intros b n E. subst n. apply firstn_all. Qed.

Lemma read_constraint_archive : forall obj cs c, In c cs -> NoDup (map wc_dir cs) -> ConWF c ->
  read_constraint (legacy_archive obj cs) (wc_dir c) = Ok (lcon_of c).
Proof.
  intros obj cs c Hin ND [Wl Wm Wr Ww]. unfold read_constraint.
  destruct (zfind_self c) as [Z1 [Z2 [Z3 [Z4 [Z5 Z6]]]]].
  rewrite !(zfind_archive obj cs c) by (try assumption; cbn; tauto).
  rewrite Z1, Z2, Z3, Z4, Z5, Z6. unfold wc_dir at 1. rewrite (dir_label_pr _ Wl).
  rewrite (member_decode_encode _ Wm). rewrite Wr. cbn [Nat.ltb Nat.leb].
  rewrite (firstn_exact _ 8 Wr). unfold lcon_of. f_equal. f_equal.
  - destruct (wc_discrete c); reflexivity.
  - destruct (wc_soft c) as [[w p]|] eqn:S; cbn [option_map fst snd]; [|reflexivity].
    now rewrite (firstn_exact w 8 (Ww w p eq_refl)).
Qed.

Lemma read_constraints_archive : forall obj cs sub, (forall c, In c sub -> In c cs) -> NoDup (map wc_dir cs) ->
  (forall c, In c cs -> ConWF c) ->
  read_constraints (legacy_archive obj cs) (map wc_dir sub) = Ok (map lcon_of sub).
Proof.
  intros obj cs sub. induction sub as [|c sub IH]; intros Hs ND W; [reflexivity|]. cbn [map read_constraints].
  rewrite (read_constraint_archive obj cs c); [|apply Hs; now left|exact ND|apply W; apply Hs; now left].
  rewrite IH; [reflexivity| |exact ND|exact W]. intros c' Hc'. apply Hs. now right.
Qed.

(* whole archives: dimod 0.10.6 .. 0.12.3's writer followed by today's reader of those versions *)
Theorem legacy_read_archive : forall obj cons,
  MemberWF obj -> (forall c, In c cons -> ConWF c) -> NoDup (map wc_label cons) ->
  legacy_read (legacy_archive obj cons) = Ok (lmodel_of obj cons).
Proof.
  intros obj cons Wo Wc NDl.
  assert (ND : NoDup (map wc_dir cons)).
  { clear Wo. induction cons as [|c cs IH]; [constructor|]. cbn [map] in *. inversion NDl as [|a b Hn Hd]; subst. constructor.
    - intros I. apply Hn. apply in_map_iff in I. destruct I as [c' [E I]]. apply in_map_iff. exists c'. split; [|exact I].
      unfold wc_dir in E. apply pr_label_inj in E; [exact E| |]; apply cw_label; apply Wc; [now right|now left].
    - apply IH; [|exact Hd]. intros c' Hc'. apply Wc. now right. }
  unfold legacy_read. unfold legacy_archive at 1. cbn [zfind]. rewrite bytes_eqb_refl.
  rewrite (member_decode_encode obj Wo). rewrite (constraint_dirs_archive obj cons ND).
  rewrite (read_constraints_archive obj cons cons (fun c H => H) ND Wc).
  unfold lmodel_of. rewrite map_map. reflexivity.
Qed.

(* ... hence, with the objective listing every variable, the loaded variables are the saved ones in the saved order *)
Corollary legacy_read_archive_vars : forall obj cons,
  MemberWF obj -> (forall c, In c cons -> ConWF c) -> NoDup (map wc_label cons) ->
  NoDup (map fst (nx_vars (member_nexpr obj))) ->
  (forall c, In c cons -> incl (map fst (nx_vars (member_nexpr (wc_lhs c)))) (map fst (nx_vars (member_nexpr obj)))) ->
  exists m, legacy_read (legacy_archive obj cons) = Ok m /\ lm_vars m = nx_vars (member_nexpr obj).
Proof.
  intros obj cons Wo Wc NDl NDv Hincl. exists (lmodel_of obj cons). split; [now apply legacy_read_archive|].
  unfold lmodel_of. cbn [lm_vars]. apply legacy_vars_objective; [exact NDv|].
  intros e He. apply in_map_iff in He. destruct He as [c [E Hc]]. subst e. now apply Hincl.
Qed.
