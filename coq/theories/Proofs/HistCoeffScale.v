(* C04: scale with ignored sets / through a handle under coefficient equivalence.
   The loop over `pairs s` lists every interaction once, in an orientation that depends on the variable order. *)
From Coq Require Import List ZArith QArith Qcanon Bool Arith Lia Permutation.
From Dimod Require Import Base.Util Model.Poly Model.View Model.Hist Proofs.PolyFacts Proofs.ViewFacts Proofs.CoeffSound
  Proofs.HistFacts Proofs.HistWf Proofs.HistWf2 Proofs.HistAtomic Proofs.HistAtomicQM Proofs.HistQmAtomic Proofs.HistQmPres
  Proofs.HistLoops Proofs.HistContract Proofs.HistViewStep Proofs.HistViewStep2 Proofs.HistBqmReach Proofs.HistGenTie
  Proofs.HistBackends Proofs.HistCoeffEq.
Import ListNotations.
Open Scope Qc_scope.

(* ---------- orientation invariance of set_quadratic ---------- *)
Lemma delta_same a x x' O L Q H : delta a x O L Q H -> delta a x' O L Q H -> ceq x x'.
Proof.
  intros (K & V & Of & Lf & Qf & Hf) (K' & V' & Of' & Lf' & Qf' & Hf').
  split; [congruence|]. split; [rewrite V, V'; reflexivity|]. split; [fold (off x); fold (off x'); congruence|].
  split; [intros w; rewrite Lf, Lf'; reflexivity|]. split; [intros u v; rewrite Qf, Qf'; reflexivity|intros u v; rewrite Hf, Hf'; reflexivity].
Qed.

Theorem set_quadratic_orientation h u w c a :
  B a -> u <> w -> has_var a u = true -> has_var a w = true ->
  snd (h_set_quadratic h u w c a) = Ok /\ snd (h_set_quadratic h w u c a) = Ok
  /\ ceq (fst (h_set_quadratic h u w c a)) (fst (h_set_quadratic h w u c a)).
Proof.
  intros Ba E Hu Hw. assert (E' : w <> u) by congruence.
  destruct (sp_h_set_quadratic h u w c a Ba E Hu Hw) as [O1 D1].
  destruct (sp_h_set_quadratic h w u c a Ba E' Hw Hu) as [O2 D2].
  split; [exact O1|]. split; [exact O2|]. apply sdelta_swap in D2.
  assert (Q : quad a w u = quad a u w) by (unfold quad; apply HistFacts.quad_coeff_sym). rewrite Q in D2.
  exact (delta_same _ _ _ _ _ _ _ D1 D2).
Qed.

(* ---------- permutations up to flipping elements ---------- *)
Definition flip (t : label * label) : label * label := (snd t, fst t).

Inductive PermF : list (label * label) -> list (label * label) -> Prop :=
| pf_nil : PermF [] []
| pf_skip t l l' : PermF l l' -> PermF (t :: l) (t :: l')
| pf_flip t l l' : PermF l l' -> PermF (t :: l) (flip t :: l')
| pf_swap x y l : PermF (y :: x :: l) (x :: y :: l)
| pf_trans l l' l'' : PermF l l' -> PermF l' l'' -> PermF l l''.

Lemma PermF_refl l : PermF l l.
Proof. induction l; [constructor|apply pf_skip; assumption]. Qed.

Lemma Perm_PermF l l' : Permutation l l' -> PermF l l'.
Proof. intros H. induction H; [constructor|apply pf_skip; assumption|apply pf_swap|eapply pf_trans; eassumption]. Qed.

Lemma PermF_app_l l m m' : PermF m m' -> PermF (l ++ m) (l ++ m').
Proof. intros H. induction l; [exact H|cbn [app]; apply pf_skip; assumption]. Qed.

Lemma PermF_app_r m l l' : PermF l l' -> PermF (l ++ m) (l' ++ m).
Proof.
  intros H. induction H; cbn [app].
  - apply PermF_refl.
  - apply pf_skip; assumption.
  - apply pf_flip; assumption.
  - apply pf_swap.
  - eapply pf_trans; eassumption.
Qed.

Lemma PermF_app l l' m m' : PermF l l' -> PermF m m' -> PermF (l ++ m) (l' ++ m').
Proof. intros H1 H2. eapply pf_trans; [apply PermF_app_r; exact H1|apply PermF_app_l; exact H2]. Qed.

(* ---------- pairs_in under a permutation of the variable list ---------- *)
Definition selfp (q : list qterm) (v : label) : list (label * label) := if has_pair q v v then [(v, v)] else [].
Definition nbp (q : list qterm) (v : label) (l : list label) : list (label * label) := map (fun w => (w, v)) (filter (has_pair q v) l).

Lemma pairs_in_cons q v l : pairs_in q (v :: l) = pairs_in q l ++ selfp q v ++ nbp q v l.
Proof. reflexivity. Qed.

Lemma perm5 {A : Type} (a1 a2 a3 c a5 : list A) : Permutation (a1 ++ a2 ++ a3 ++ c ++ a5) (a3 ++ a5 ++ a1 ++ c ++ a2).
Proof.
  rewrite (app_assoc a1 a2). eapply perm_trans; [apply Permutation_app_comm|]. rewrite <- !app_assoc.
  apply Permutation_app_head. rewrite (app_assoc a5 a1 a2), (app_assoc a5 a1 (c ++ a2)). apply Permutation_app_swap_app.
Qed.

Theorem pairs_in_perm q vs vs' : Permutation vs vs' -> PermF (pairs_in q vs) (pairs_in q vs').
Proof.
  intros H. induction H as [|x l l' Hp IH|x y l|l l' l'' Hp1 IH1 Hp2 IH2].
  - constructor.
  - rewrite !pairs_in_cons. apply PermF_app; [exact IH|]. apply PermF_app_l. apply Perm_PermF. unfold nbp.
    apply Permutation_map, filter_perm, Hp.
  - rewrite !pairs_in_cons. rewrite <- !app_assoc. apply PermF_app_l.
    unfold nbp at 2 4. cbn [filter]. rewrite (HistFacts.has_pair_sym q x y).
    destruct (has_pair q y x); cbn [map].
    + fold (nbp q y l). fold (nbp q x l).
      eapply pf_trans; [apply Perm_PermF; apply (perm5 (selfp q x) (nbp q x l) (selfp q y) [(x, y)] (nbp q y l))|].
      apply PermF_app_l, PermF_app_l, PermF_app_l. cbn [app]. apply (pf_flip (x, y)). apply PermF_refl.
    + fold (nbp q y l). fold (nbp q x l).
      apply Perm_PermF. exact (perm5 (selfp q x) (nbp q x l) (selfp q y) [] (nbp q y l)).
  - eapply pf_trans; eassumption.
Qed.

Lemma pairs_in_ext q q' vs : (forall u v, has_pair q u v = has_pair q' u v) -> pairs_in q vs = pairs_in q' vs.
Proof.
  intros H. induction vs as [|v l IH]; [reflexivity|]. cbn [pairs_in]. rewrite IH, (H v v).
  rewrite (filter_ext' (has_pair q v) (has_pair q' v) l (H v)). reflexivity.
Qed.

Theorem pairs_permF s s' : R s s' -> PermF (pairs s) (pairs s').
Proof.
  intros H. unfold pairs. rewrite (pairs_in_ext _ (p_quad (st_poly s')) (labels s) (fun u v => ceq_hasq' s s' u v (R_ceq s s' H))).
  apply pairs_in_perm, R_perm_labels, H.
Qed.

(* ---------- every unordered interaction is listed exactly once ---------- *)
Definition np (t : label * label) : label * label := (Nat.min (fst t) (snd t), Nat.max (fst t) (snd t)).

Lemma np_flip t : np (flip t) = np t.
Proof. unfold np, flip. cbn [fst snd]. rewrite Nat.min_comm, Nat.max_comm. reflexivity. Qed.

Lemma PermF_np l l' : PermF l l' -> Permutation (map np l) (map np l').
Proof.
  intros H. induction H; cbn [map].
  - constructor.
  - constructor; assumption.
  - rewrite np_flip. constructor; assumption.
  - apply perm_swap.
  - eapply perm_trans; eassumption.
Qed.

Lemma np_neq_same_pair x y : np x <> np y -> same_pair (fst x) (snd x) (fst y) (snd y) = false.
Proof.
  intros H. destruct (same_pair (fst x) (snd x) (fst y) (snd y)) eqn:E; [|reflexivity]. exfalso. apply H.
  unfold same_pair in E. apply orb_true_iff in E. destruct E as [E|E]; apply andb_true_iff in E; destruct E as [E1 E2];
    apply Nat.eqb_eq in E1; apply Nat.eqb_eq in E2; unfold np; rewrite E1, E2; [reflexivity|].
  rewrite Nat.min_comm, Nat.max_comm. reflexivity.
Qed.

Lemma pairs_in_labels q vs t : In t (pairs_in q vs) -> In (fst t) vs /\ In (snd t) vs.
Proof.
  induction vs as [|v l IH]; intros H; [destruct H|]. rewrite pairs_in_cons in H. apply in_app_or in H. destruct H as [H|H].
  - destruct (IH H). split; right; assumption.
  - apply in_app_or in H. destruct H as [H|H].
    + unfold selfp in H. destruct (has_pair q v v); [|destruct H]. destruct H as [H|[]]. subst t. split; left; reflexivity.
    + unfold nbp in H. apply in_map_iff in H. destruct H as [w [E Hw]]. subst t. apply filter_In in Hw. cbn [fst snd].
      split; [right; apply Hw|left; reflexivity].
Qed.

Lemma NoDup_app' {A : Type} (l1 l2 : list A) : NoDup l1 -> NoDup l2 -> (forall x, In x l1 -> ~ In x l2) -> NoDup (l1 ++ l2).
Proof.
  induction l1 as [|a l1 IH]; intros N1 N2 D; [exact N2|]. inversion N1 as [|x xs Na N1']; subst. cbn [app]. constructor.
  - intros Hin. apply in_app_or in Hin. destruct Hin as [Hin|Hin]; [contradiction|]. apply (D a); [left; reflexivity|exact Hin].
  - apply IH; [exact N1'|exact N2|]. intros x Hx. apply D. right. exact Hx.
Qed.

Theorem pairs_in_once q vs :
  NoDup vs -> (forall v, In v vs -> has_pair q v v = false) -> NoDup (map np (pairs_in q vs)).
Proof.
  induction vs as [|v l IH]; intros N Hs; [constructor|]. inversion N as [|x xs Nv Nl]; subst.
  rewrite pairs_in_cons. unfold selfp. rewrite (Hs v (or_introl eq_refl)). cbn [app]. rewrite map_app.
  apply NoDup_app'.
  - apply IH; [exact Nl|]. intros w Hw. apply Hs. right. exact Hw.
  - unfold nbp. rewrite map_map. apply FinFun.Injective_map_NoDup; [|apply NoDup_filter'; exact Nl].
    intros a b E. unfold np in E. cbn [fst snd] in E. injection E as E1 E2. lia.
  - intros x Hx Hx'. apply in_map_iff in Hx. destruct Hx as [t [Et Ht]]. apply pairs_in_labels in Ht. destruct Ht as [T1 T2].
    unfold nbp in Hx'. rewrite map_map in Hx'. apply in_map_iff in Hx'. destruct Hx' as [w [Ew _]]. subst x.
    unfold np in Ew. cbn [fst snd] in Ew. injection Ew as E1 E2.
    assert (v = fst t \/ v = snd t) as [E|E] by lia; subst v; contradiction.
Qed.

(* ---------- the flip-aware permutation lemma ---------- *)
Section PermFlip.
  Context (f : label * label -> state -> res) (P : label * label -> Prop) (Rel : state -> state -> Prop).
  Hypothesis Rel_sym : forall a b, Rel a b -> Rel b a.
  Hypothesis Rel_trans : forall a b c, Rel a b -> Rel b c -> Rel a c.
  Hypothesis P_flip : forall t, P t -> P (flip t).
  Hypothesis cong : forall x a a', P x -> Rel a a' -> snd (f x a) = Ok /\ snd (f x a') = Ok /\ Rel (fst (f x a)) (fst (f x a')).
  Hypothesis flipc : forall x a, P x -> Rel a a -> Rel (fst (f x a)) (fst (f (flip x) a)).
  Hypothesis comm : forall x y a, P x -> P y -> np x <> np y -> Rel a a -> Rel (fst (f x (fst (f y a)))) (fst (f y (fst (f x a)))).

  Lemma PermF_Forall l l' : PermF l l' -> Forall P l -> Forall P l'.
  Proof.
    intros H. induction H; intros F.
    - constructor.
    - inversion F; subst. constructor; auto.
    - inversion F; subst. constructor; auto.
    - inversion F as [|? ? Py F']; subst. inversion F' as [|? ? Px F'']; subst. constructor; [exact Px|constructor; assumption].
    - auto.
  Qed.

  Lemma seqm_permF l l' :
    PermF l l' -> Forall P l -> NoDup (map np l) -> forall s s', Rel s s' -> okRel Rel (seqm f l s) (seqm f l' s').
  Proof.
    intros Hp. induction Hp as [|x l l' Hp IH|x l l' Hp IH|x y l|l l' l'' Hp1 IH1 Hp2 IH2]; intros F N s s' H.
    - split; [reflexivity|split; [reflexivity|exact H]].
    - inversion F as [|x0 l0 Px Fl]; subst. cbn [map] in N. inversion N as [|x0 l0 N1 N2]; subst.
      destruct (cong x s s' Px H) as (O & O' & H1).
      cbn [seqm]. rewrite (bind_ok' _ _ O), (bind_ok' _ _ O'). apply IH; assumption.
    - inversion F as [|x0 l0 Px Fl]; subst. cbn [map] in N. inversion N as [|x0 l0 N1 N2]; subst.
      assert (H' : Rel s' s') by (apply (Rel_trans _ s); [apply Rel_sym|]; exact H).
      destruct (cong x s s' Px H) as (O & O' & H1).
      destruct (cong (flip x) s' s' (P_flip x Px) H') as (Of & _ & _).
      cbn [seqm]. rewrite (bind_ok' _ _ O), (bind_ok' _ _ Of). apply IH; [exact Fl|exact N2|].
      apply (Rel_trans _ _ _ H1). apply flipc; assumption.
    - inversion F as [|x0 l0 Py Fl]; subst. inversion Fl as [|x0 l0 Px Fl']; subst.
      cbn [map] in N. inversion N as [|x0 l0 N1 N2]; subst.
      assert (Hk : np x <> np y) by (intros E; apply N1; left; exact E).
      assert (H' : Rel s' s') by (apply (Rel_trans _ s); [apply Rel_sym|]; exact H).
      destruct (cong y s s' Py H) as (Oy & Oy' & Ry).
      destruct (cong x _ _ Px Ry) as (Oxy & Oxy' & Rxy).
      destruct (cong x s' s' Px H') as (Ox & _ & Rx).
      destruct (cong y _ _ Py Rx) as (Oyx & _ & Ryx).
      cbn [seqm]. rewrite (bind_ok' (f y s) _ Oy), (bind_ok' (f x (fst (f y s))) _ Oxy),
        (bind_ok' (f x s') _ Ox), (bind_ok' (f y (fst (f x s'))) _ Oyx).
      apply (seqm_cong_P f P Rel cong); [exact Fl'|]. apply (Rel_trans _ _ _ Rxy). apply comm; assumption.
    - assert (F' : Forall P l') by (apply (PermF_Forall _ _ Hp1 F)).
      assert (N' : NoDup (map np l')) by (apply (Permutation_NoDup (PermF_np _ _ Hp1)); exact N).
      assert (H' : Rel s' s') by (apply (Rel_trans _ s); [apply Rel_sym|]; exact H).
      destruct (IH1 F N s s' H) as (O1 & O1' & R1). destruct (IH2 F' N' s' s' H') as (O2 & O2' & R2).
      split; [exact O1|]. split; [exact O2'|]. exact (Rel_trans _ _ _ R1 R2).
  Qed.
End PermFlip.

(* ---------- loops over interaction pairs with additive steps ---------- *)
Section LoopF.
  Context (f : label * label -> state -> res) (P : label * label -> Prop) (s0 : state).
  Context (DO : label * label -> state -> Qc) (DL : label * label -> state -> label -> Qc)
          (DQ : label * label -> state -> label -> label -> Qc) (DH : label * label -> state -> label -> label -> bool).
  Hypothesis P_flip : forall t, P t -> P (flip t).
  Hypothesis congR : forall x a a', P x -> R a a' -> Rr (f x a) (f x a').
  Hypothesis spec : forall x a, P x -> B a -> ge s0 a ->
    snd (f x a) = Ok /\ delta a (fst (f x a)) (DO x a) (DL x a) (DQ x a) (DH x a).
  Hypothesis flipR : forall x a, P x -> B a -> ge s0 a -> ceq (fst (f x a)) (fst (f (flip x) a)).
  Hypothesis frame : forall x y a, P x -> P y -> np x <> np y -> B a -> ge s0 a ->
    DO x (fst (f y a)) = DO x a /\ (forall w, DL x (fst (f y a)) w = DL x a w)
    /\ (forall u v, DQ x (fst (f y a)) u v = DQ x a u v) /\ (forall u v, DH x (fst (f y a)) u v = DH x a u v).

  Lemma loop_permF l l' s s' :
    PermF l l' -> Forall P l -> NoDup (map np l) -> R s s' -> ge s0 s -> ge s0 s' ->
    Rr (seqm f l s) (seqm f l' s').
  Proof.
    intros Hp F N H G G'.
    assert (X : okRel (RelG s0) (seqm f l s) (seqm f l' s')).
    { apply (seqm_permF f P (RelG s0)); try assumption.
      - intros a b (Hr & Ga & Gb). split; [apply R_sym; exact Hr|]. split; assumption.
      - intros a b c (Hr & Ga & _) (Hr' & _ & Gc). split; [exact (R_trans _ _ _ Hr Hr')|]. split; assumption.
      - intros x a a' Px (Hr & Ga & Ga'). destruct (R_B a a' Hr) as [Ba Ba'].
        destruct (spec x a Px Ba Ga) as [O D]. destruct (spec x a' Px Ba' Ga') as [O' D'].
        split; [exact O|]. split; [exact O'|]. split; [apply (congR x a a' Px Hr)|].
        split; [exact (delta_ge _ _ _ _ _ _ _ D Ga)|exact (delta_ge _ _ _ _ _ _ _ D' Ga')].
      - intros x a Px (Hr & Ga & _). destruct (R_B a a Hr) as [Ba _].
        destruct (spec x a Px Ba Ga) as [O D]. destruct (spec (flip x) a (P_flip x Px) Ba Ga) as [O' D'].
        destruct (congR x a a Px Hr) as [_ (W1 & _ & _)]. destruct (congR (flip x) a a (P_flip x Px) Hr) as [_ (W2 & _ & _)].
        split; [split; [exact W1|split; [exact W2|apply flipR; assumption]]|].
        split; [exact (delta_ge _ _ _ _ _ _ _ D Ga)|exact (delta_ge _ _ _ _ _ _ _ D' Ga)].
      - intros x y a Px Py Hk (Hr & Ga & _). destruct (R_B a a Hr) as [Ba _].
        destruct (spec y a Py Ba Ga) as [Oy Dy]. destruct (spec x a Px Ba Ga) as [Ox Dx].
        destruct (congR y a a Py Hr) as [_ Ry]. destruct (congR x a a Px Hr) as [_ Rx].
        pose proof (delta_ge _ _ _ _ _ _ _ Dy Ga) as Gy. pose proof (delta_ge _ _ _ _ _ _ _ Dx Ga) as Gx.
        destruct (R_B _ _ Ry) as [By _]. destruct (R_B _ _ Rx) as [Bx _].
        destruct (spec x _ Px By Gy) as [Oxy Dxy]. destruct (spec y _ Py Bx Gx) as [Oyx Dyx].
        destruct (congR x _ _ Px Ry) as [_ (Wxy & _ & _)]. destruct (congR y _ _ Py Rx) as [_ (Wyx & _ & _)].
        destruct (frame x y a Px Py Hk Ba Ga) as (F1 & F2 & F3 & F4).
        assert (Hk' : np y <> np x) by (intros E; apply Hk; symmetry; exact E).
        destruct (frame y x a Py Px Hk' Ba Ga) as (F1' & F2' & F3' & F4').
        split; [|split; [exact (delta_ge _ _ _ _ _ _ _ Dxy Gy)|exact (delta_ge _ _ _ _ _ _ _ Dyx Gx)]].
        split; [exact Wxy|]. split; [exact Wyx|].
        apply (delta_comm a (fst (f y a)) _ (fst (f x a)) _ (DO x a) (DL x a) (DQ x a) (DH x a) (DO y a) (DL y a) (DQ y a) (DH y a)).
        + exact Dy.
        + apply (delta_ext _ _ _ _ _ _ _ _ _ _ Dxy); assumption.
        + exact Dx.
        + apply (delta_ext _ _ _ _ _ _ _ _ _ _ Dyx); assumption.
      - split; [exact H|]. split; assumption. }
    destruct X as (O & O' & (Hr & _)). split; [congruence|exact Hr].
  Qed.
End LoopF.

Lemma sd_zero a u v : sdelta a a u v 0 0 0 0 false.
Proof.
  unfold sdelta, delta, shL, shQ, shH. split; [reflexivity|]. split; [reflexivity|]. split; [ring|]. split; [|split].
  - intros w. destruct (w =? u)%nat, (w =? v)%nat; ring.
  - intros x y. destruct (same_pair x y u v); ring.
  - intros x y. reflexivity.
Qed.

Lemma vsc_zero od : vsc od 0 = 0.
Proof. destruct od as [[|]|]; unfold vsc; ring. Qed.

Lemma get_quadratic_val h u w a :
  has_var a u = true -> has_var a w = true -> opt0 (h_get_quadratic h u w a) = vsc (vdir_of h a) (quad a u w).
Proof.
  intros Hu Hw. unfold h_get_quadratic. rewrite Hu, Hw. cbn [andb]. destruct (hasq a u w) eqn:Hq; cbn [opt0].
  - unfold vscale, vsc. destruct (vdir_of h a) as [[|]|]; reflexivity.
  - unfold quad. rewrite (quad_coeff_no_pair _ u w Hq), vsc_zero. reflexivity.
Qed.

Lemma mem_pair_flip u w ii : mem_pair u w ii = mem_pair w u ii.
Proof. unfold mem_pair. induction ii as [|t l IH]; [reflexivity|]. cbn [existsb]. rewrite IH, (HistFacts.same_pair_sym u w). reflexivity. Qed.

Definition fq (h : handle) (k : Qc) (ii : list (label * label)) (t : label * label) (s : state) : res :=
  if mem_pair (fst t) (snd t) ii then ok s
  else h_set_quadratic h (fst t) (snd t) (k * opt0 (h_get_quadratic h (fst t) (snd t) s)) s.

Definition wrapq (ii : list (label * label)) (t : label * label) (x : Qc) : Qc := if mem_pair (fst t) (snd t) ii then 0 else x.

Lemma sp_fq h k ii t a :
  B a -> fst t <> snd t -> has_var a (fst t) = true -> has_var a (snd t) = true ->
  snd (fq h k ii t a) = Ok /\
  sdelta a (fst (fq h k ii t a)) (fst t) (snd t)
    (wrapq ii t (SQO h (vdir_of h a) (quad a (fst t) (snd t)) (k * vsc (vdir_of h a) (quad a (fst t) (snd t)))))
    (wrapq ii t (SQU h (vdir_of h a) (quad a (fst t) (snd t)) (k * vsc (vdir_of h a) (quad a (fst t) (snd t)))))
    (wrapq ii t (SQU h (vdir_of h a) (quad a (fst t) (snd t)) (k * vsc (vdir_of h a) (quad a (fst t) (snd t)))))
    (wrapq ii t (SQQ h (vdir_of h a) (quad a (fst t) (snd t)) (k * vsc (vdir_of h a) (quad a (fst t) (snd t)))))
    (negb (mem_pair (fst t) (snd t) ii)).
Proof.
  intros Ba E Hu Hw. unfold fq, wrapq. destruct (mem_pair (fst t) (snd t) ii).
  - split; [reflexivity|]. apply sd_zero.
  - rewrite (get_quadratic_val h _ _ a Hu Hw). apply sp_h_set_quadratic; assumption.
Qed.

Lemma Rr_loop_scale_quad h k ii s s' :
  R s s' -> Rr (seqm (fq h k ii) (pairs s) s) (seqm (fq h k ii) (pairs s') s').
Proof.
  intros H. pose proof H as ((Bs & Ws) & _ & C).
  apply (loop_permF (fq h k ii) (fun t => fst t <> snd t /\ has_var s (fst t) = true /\ has_var s (snd t) = true) s
           (fun t a => wrapq ii t (SQO h (vdir_of h a) (quad a (fst t) (snd t)) (k * vsc (vdir_of h a) (quad a (fst t) (snd t)))))
           (fun t a => shL (fst t) (snd t)
                         (wrapq ii t (SQU h (vdir_of h a) (quad a (fst t) (snd t)) (k * vsc (vdir_of h a) (quad a (fst t) (snd t)))))
                         (wrapq ii t (SQU h (vdir_of h a) (quad a (fst t) (snd t)) (k * vsc (vdir_of h a) (quad a (fst t) (snd t))))))
           (fun t a => shQ (fst t) (snd t)
                         (wrapq ii t (SQQ h (vdir_of h a) (quad a (fst t) (snd t)) (k * vsc (vdir_of h a) (quad a (fst t) (snd t))))))
           (fun t a => shH (fst t) (snd t) (negb (mem_pair (fst t) (snd t) ii)))).
  - intros t (E & Hu & Hw). unfold flip; cbn [fst snd]. split; [congruence|]. split; assumption.
  - intros t a a' _ Ha. unfold fq. destruct (mem_pair (fst t) (snd t) ii); [apply Rr_ok; exact Ha|].
    rewrite (ceq_get_quadratic h _ _ a a' (R_ceq a a' Ha)). apply Rr_h_set_quadratic. exact Ha.
  - intros t a (E & Hu & Hw) Ba Ga. apply (sp_fq h k ii t a Ba E (Ga _ Hu) (Ga _ Hw)).
  - intros t a (E & Hu & Hw) Ba Ga. unfold fq, flip; cbn [fst snd]. rewrite (mem_pair_flip (snd t) (fst t) ii).
    destruct (mem_pair (fst t) (snd t) ii); [apply ceq_refl|].
    rewrite (get_quadratic_val h _ _ a (Ga _ Hu) (Ga _ Hw)), (get_quadratic_val h _ _ a (Ga _ Hw) (Ga _ Hu)).
    assert (Q : quad a (snd t) (fst t) = quad a (fst t) (snd t)) by (unfold quad; apply HistFacts.quad_coeff_sym). rewrite Q.
    apply (set_quadratic_orientation h (fst t) (snd t) _ a Ba E (Ga _ Hu) (Ga _ Hw)).
  - intros x y a (Ex & Hxu & Hxw) (Ey & Hyu & Hyw) Hk Ba Ga.
    destruct (sp_fq h k ii y a Ba Ey (Ga _ Hyu) (Ga _ Hyw)) as [_ Dy].
    assert (V : vdir_of h (fst (fq h k ii y a)) = vdir_of h a) by (apply (delta_vdir h _ _ _ _ _ _ Dy)).
    assert (Q : quad (fst (fq h k ii y a)) (fst x) (snd x) = quad a (fst x) (snd x)).
    { destruct Dy as (_ & _ & _ & _ & Q & _). rewrite Q. unfold shQ. rewrite (np_neq_same_pair x y Hk). ring. }
    rewrite V, Q. repeat split; reflexivity.
  - apply pairs_permF. exact H.
  - apply Forall_forall. intros t Ht. split; [apply (pairs_distinct s t Bs Ws Ht)|].
    unfold pairs in Ht. apply pairs_in_labels in Ht. destruct Ht as [T1 T2]. split; apply has_var_In; assumption.
  - unfold pairs. apply pairs_in_once; [apply Ws|]. intros v _. apply (bqm_no_self s v Bs Ws).
  - exact H.
  - apply ge_refl.
  - apply ge_ceq. exact C.
Qed.

(* ---------- the loop over the variables ---------- *)
Definition gl (od : option vdir) (l n : Qc) : Qc :=
  match od with None => l | Some BinOverSpin => two * l - two * n | Some SpinOverBin => l * half + n * quarter end.

Lemma get_linear_val h x a : has_var a x = true -> opt0 (h_get_linear h x a) = gl (vdir_of h a) (lin a x) (nbh_sum a x).
Proof. intros Hx. unfold h_get_linear. rewrite Hx. cbn [opt0]. unfold gl. destruct (vdir_of h a) as [[|]|]; reflexivity. Qed.

Lemma sdelta_nbh_sum a a1 u v O U V z : sdelta a a1 u v O U V 0 false -> nbh_sum a1 z = nbh_sum a z.
Proof.
  intros (_ & Vr & _ & _ & Q & H). unfold nbh_sum, nbh, labels. rewrite Vr. f_equal. rewrite !map_map. cbn [snd].
  rewrite (filter_ext' (hasq a1 z) (hasq a z)) by (intros w; rewrite H; unfold shH; reflexivity).
  apply map_ext. intros w. rewrite Q. unfold shQ. destruct (same_pair z w u v); ring.
Qed.

Lemma sd_set_linear a x c : sdelta a (with_poly a (set_linear x c (st_poly a))) x x 0 (c - lin a x) 0 0 false.
Proof.
  unfold sdelta, delta, off, lin, quad, hasq, shL, shQ, shH. cbn [with_poly st_kind st_vars st_poly].
  split; [reflexivity|]. split; [reflexivity|]. split; [cbn [set_linear p_off]; ring|]. split; [|split].
  - intros w. rewrite lin_coeff_set_linear. destruct (Nat.eqb_spec w x); [subst; ring|ring].
  - intros u v. cbn [set_linear p_quad]. destruct (same_pair u v x x); ring.
  - intros u v. reflexivity.
Qed.

Definition SLd (od : option vdir) (l n c : Qc) : Qc := c - gl od (l + (kkl od 0 + 0)) n.
Definition SLO (od : option vdir) (l n c : Qc) : Qc := match od with None => 0 | Some _ => kko od 0 + kko od (SLd od l n c) end.
Definition SLU (od : option vdir) (l n c : Qc) : Qc := match od with None => c - l | Some _ => kkl od 0 + kkl od (SLd od l n c) end.

Lemma sp_h_set_linear h x c a :
  B a -> has_var a x = true ->
  snd (h_set_linear h x c a) = Ok /\
  sdelta a (fst (h_set_linear h x c a)) x x (SLO (vdir_of h a) (lin a x) (nbh_sum a x) c) (SLU (vdir_of h a) (lin a x) (nbh_sum a x) c) 0 0 false.
Proof.
  intros Ba Hx. unfold h_set_linear. destruct (vdir_of h a) as [d|] eqn:D.
  - destruct (sp_h_add_linear_u h x x 0 a Ba Hx) as [O1 D1]. rewrite D in D1. rewrite (bind_ok' _ _ O1).
    set (a1 := fst (h_add_linear h x 0 a)) in *.
    pose proof (sdelta_B _ _ _ _ _ _ _ _ _ D1 Ba) as B1.
    assert (Hx1 : has_var a1 x = true) by (rewrite (delta_has _ _ _ _ _ _ x D1); exact Hx).
    assert (V1 : vdir_of h a1 = Some d) by (rewrite (delta_vdir h _ _ _ _ _ _ D1); exact D).
    assert (L1 : lin a1 x = lin a x + (kkl (Some d) 0 + 0)).
    { destruct D1 as (_ & _ & _ & L & _). rewrite L. unfold shL. rewrite Nat.eqb_refl. reflexivity. }
    rewrite (get_linear_val h x a1 Hx1), V1, L1, (sdelta_nbh_sum _ _ _ _ _ _ _ x D1).
    fold (SLd (Some d) (lin a x) (nbh_sum a x) c).
    destruct (sp_h_add_linear_u h x x (SLd (Some d) (lin a x) (nbh_sum a x) c) a1 B1 Hx1) as [O2 D2]. rewrite V1 in D2.
    split; [exact O2|]. unfold SLO, SLU.
    eapply sdelta_ext; [exact (sdelta_comp _ _ _ _ _ _ _ _ _ _ _ _ _ _ _ D1 D2)| | | | |]; try ring; reflexivity.
  - destruct (B_kind a Ba) as [vt K]. rewrite (d_set_linear_bqm x c a Ba), (ensure_has x a Hx). split; [reflexivity|].
    cbn [ok fst SLO SLU]. apply sd_set_linear.
Qed.

Definition fl (h : handle) (k : Qc) (iv : list label) (x : label) (s : state) : res :=
  if mem_label x iv then ok s else h_set_linear h x (k * opt0 (h_get_linear h x s)) s.
Definition wrapl (iv : list label) (x : label) (y : Qc) : Qc := if mem_label x iv then 0 else y.

Lemma sp_fl h k iv x a :
  B a -> has_var a x = true ->
  snd (fl h k iv x a) = Ok /\
  sdelta a (fst (fl h k iv x a)) x x
    (wrapl iv x (SLO (vdir_of h a) (lin a x) (nbh_sum a x) (k * gl (vdir_of h a) (lin a x) (nbh_sum a x))))
    (wrapl iv x (SLU (vdir_of h a) (lin a x) (nbh_sum a x) (k * gl (vdir_of h a) (lin a x) (nbh_sum a x)))) 0 0 false.
Proof.
  intros Ba Hx. unfold fl, wrapl. destruct (mem_label x iv).
  - split; [reflexivity|]. apply sd_zero.
  - rewrite (get_linear_val h x a Hx). apply sp_h_set_linear; assumption.
Qed.

Lemma Rr_loop_scale_lin h k iv s s' :
  R s s' -> Rr (seqm (fl h k iv) (labels s) s) (seqm (fl h k iv) (labels s') s').
Proof.
  intros H. pose proof H as ((Bs & Ws) & _ & C).
  refine (proj1 (loop_perm (fl h k iv) (fun x => x) (fun x => has_var s x = true) s
           (fun x a => wrapl iv x (SLO (vdir_of h a) (lin a x) (nbh_sum a x) (k * gl (vdir_of h a) (lin a x) (nbh_sum a x))))
           (fun x a => shL x x (wrapl iv x (SLU (vdir_of h a) (lin a x) (nbh_sum a x) (k * gl (vdir_of h a) (lin a x) (nbh_sum a x)))) 0)
           (fun x a => shQ x x 0) (fun x a => shH x x false) _ _ _ (labels s) (labels s') s s' _ _ _ H _ _)).
  - intros x a a' _ Ha. unfold fl. destruct (mem_label x iv); [apply Rr_ok; exact Ha|].
    rewrite (R_get_linear h x a a' Ha). apply Rr_h_set_linear. exact Ha.
  - intros x a Hx Ba Ga. apply (sp_fl h k iv x a Ba (Ga _ Hx)).
  - intros x y a Hx Hy Hk Ba Ga. destruct (sp_fl h k iv y a Ba (Ga _ Hy)) as [_ Dy].
    assert (V : vdir_of h (fst (fl h k iv y a)) = vdir_of h a) by (apply (delta_vdir h _ _ _ _ _ _ Dy)).
    assert (N : nbh_sum (fst (fl h k iv y a)) x = nbh_sum a x) by (apply (sdelta_nbh_sum _ _ _ _ _ _ _ x Dy)).
    assert (L : lin (fst (fl h k iv y a)) x = lin a x).
    { destruct Dy as (_ & _ & _ & L & _). rewrite L. unfold shL. destruct (Nat.eqb_spec x y); [contradiction|]. ring. }
    rewrite V, N, L. repeat split; reflexivity.
  - apply R_perm_labels. exact H.
  - apply Forall_forall. intros x Hx. apply has_var_In. exact Hx.
  - rewrite map_id. apply Ws.
  - apply ge_refl.
  - apply ge_ceq. exact C.
Qed.

(* ---------- scale, every argument combination, every handle ---------- *)
Definition scale_loops (h : handle) (k : Qc) (iv : list label) (ii : list (label * label)) (io : bool) (s : state) : res :=
  seqm (fl h k iv) (labels s) s >>= (fun s => seqm (fq h k ii) (pairs s) s)
  >>= fun s => if io then ok s else h_set_offset h (h_get_offset h s * k) s.

Lemma Rr_scale_loops h k iv ii io s s' : R s s' -> Rr (scale_loops h k iv ii io s) (scale_loops h k iv ii io s').
Proof.
  intros H. unfold scale_loops. apply Rr_bind; [apply Rr_bind|].
  - apply Rr_loop_scale_lin. exact H.
  - intros a a' Ha. apply Rr_loop_scale_quad. exact Ha.
  - intros a a' Ha. destruct io; [apply Rr_ok; exact Ha|]. rewrite (ceq_get_offset h a a' (R_ceq a a' Ha)). apply Rr_h_set_offset. exact Ha.
Qed.

Theorem Rr_m_scale h k iv ii io s s' : R s s' -> Rr (m_scale h k iv ii io s) (m_scale h k iv ii io s').
Proof.
  intros H.
  assert (G : forall a, m_scale h k iv ii io a = scale_loops h k iv ii io a \/ (h = Direct /\ iv = [] /\ ii = [] /\ io = false)).
  { intros a. destruct h; [|left; reflexivity]. destruct iv; [|left; reflexivity]. destruct ii; [|left; reflexivity].
    destruct io; [left; reflexivity|right; repeat split]. }
  destruct (G s) as [E|(-> & -> & -> & ->)].
  - destruct (G s') as [E'|(-> & -> & -> & ->)]; [rewrite E, E'; apply Rr_scale_loops; exact H|].
    exact (Rr_plain_scale k s s' H).
  - exact (Rr_plain_scale k s s' H).
Qed.

(* ---------- the covered calls, scale in every form included ---------- *)
Definition ceq_ok_all (ho : handle * op) : bool :=
  match ho with
  | (_, OScale _ _ _ _) => true
  | _ => ceq_ok ho
  end.

Theorem ceq_step_all s s' ho : ceq_ok_all ho = true -> R s s' -> Rr (step s ho) (step s' ho).
Proof.
  destruct ho as [h o]. intros Hc H. destruct o; try (apply ceq_step; [exact Hc|exact H]).
  cbn [step]. apply Rr_m_scale. exact H.
Qed.

Theorem ceq_step_all_py s s' ho : ceq_ok_all ho = true -> R s s' -> Rr (step s ho) (step s' (fst ho, py_op (snd ho))).
Proof.
  intros Hc H. pose proof (ceq_step_all s s' ho Hc H) as X. apply (Rr_trans _ _ _ X). destruct ho as [h o]. cbn [fst snd].
  destruct o; try exact (Rr_self _ _ X). cbn [py_op]. apply Rr_relabel_py. destruct H as (_ & W' & _). exact W'.
Qed.

Theorem ceq_histories_all l : forall s s',
  forallb ceq_ok_all l = true -> R s s' -> outcomes s l = outcomes s' l /\ R (run s l) (run s' l).
Proof.
  induction l as [|ho l IH]; intros s s' Hl H; [split; [reflexivity|exact H]|].
  cbn [forallb] in Hl. apply andb_true_iff in Hl. destruct Hl as [Ho Hl].
  destruct (ceq_step_all s s' ho Ho H) as [E1 E2].
  cbn [outcomes]. unfold run. cbn [fold_left]. destruct (IH _ _ Hl E2) as [I1 I2].
  split; [rewrite E1; f_equal; exact I1|exact I2].
Qed.

Theorem ceq_histories_all_py l : forall s s',
  forallb ceq_ok_all l = true -> R s s' -> outcomes s l = outcomes s' (py_hist l) /\ R (run s l) (run s' (py_hist l)).
Proof.
  induction l as [|ho l IH]; intros s s' Hl H; [split; [reflexivity|exact H]|].
  cbn [forallb] in Hl. apply andb_true_iff in Hl. destruct Hl as [Ho Hl].
  destruct (ceq_step_all_py s s' ho Ho H) as [E1 E2].
  cbn [outcomes py_hist map]. unfold run. cbn [fold_left]. destruct (IH _ _ Hl E2) as [I1 I2].
  split; [rewrite E1; f_equal; exact I1|exact I2].
Qed.

Corollary ceq_histories_all_energy l s s' :
  forallb ceq_ok_all l = true -> B s -> wf s -> B s' -> wf s' -> ceq s s' ->
  outcomes s l = outcomes s' l /\ ceq (run s l) (run s' l)
  /\ forall y, energy (st_poly (run s l)) y = energy (st_poly (run s' l)) y.
Proof.
  intros Hl Bs Ws Bs' Ws' C. destruct (ceq_histories_all l s s' Hl) as [E (_ & _ & C')]; [split; [split; assumption|split; [split; assumption|exact C]]|].
  split; [exact E|]. split; [exact C'|apply ceq_energy; exact C'].
Qed.

(* ceq_ok_all leaves out exactly the positional calls (and the dict-rule relabel ops, which are the right-hand images) *)
Theorem ceq_ok_all_excludes ho :
  ceq_ok_all ho = false ->
  match snd ho with
  | ORemoveVariable None | OResize _ _ | ORelabelInts _ | ORelabelPy _ | ORelabelIntsPy _ => True
  | _ => False
  end.
Proof.
  destruct ho as [h o]. destruct h, o; cbn [ceq_ok_all ceq_ok snd]; try discriminate; try (intros _; exact I);
    match goal with v : option nat |- _ => destruct v end; try discriminate; intros _; exact I.
Qed.

(* non-vacuity: scale with ignored sets through a translating view, from differently ordered states *)
Definition ex_shist : list (handle * op) :=
  [(Via BINARY, OScale (qc 1 2) [1%nat] [(2%nat, 0%nat)] false); (Direct, OScale (qc 2 1) [] [(0%nat, 1%nat)] true);
   (Via SPIN, OFlip 2%nat)].

Example ex_scale_history :
  forallb ceq_ok_all ex_shist = true /\ outcomes ex_ca ex_shist = [Ok; Ok; Ok]
  /\ ceqb 6 (run ex_ca ex_shist) (run ex_cb ex_shist) = true
  /\ st_poly (run ex_ca ex_shist) <> st_poly (run ex_cb ex_shist)
  /\ pairs ex_ca <> pairs ex_cb.
Proof. vm_compute. repeat split; try reflexivity; intros E; inversion E. Qed.
