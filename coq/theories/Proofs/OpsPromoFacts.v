(* C06: the translated multiplication on the dispatch paths that promote through QuadraticModel.from_bqm /
   BinaryQuadraticModel.__rmul__ (BQM x QM, QM x BQM, BQMs of different vartypes), and ** of a BQM. *)
From Coq Require Import List ZArith QArith Qcanon Bool Arith Lia.
From Dimod Require Import Base.Util Model.Poly Model.Sym Model.OpsLang Gen.Gen_Ops Gen.Gen_AddVar Model.Ops
  Proofs.PolyFacts Proofs.SymFacts Proofs.OpsFacts Proofs.AddVarFacts Proofs.OpsDivFacts Proofs.OpsMulFacts.
Import ListNotations.
Open Scope Qc_scope.

Local Opaque merge padd psub pneg scale add_offset pmul_linear pmul_linear_tab unexpected_pair real_interaction
  Qcplus Qcmult Qcopp Qcinv Qcminus Qcdiv qc qpow qis0 pzero gen_upd_err upd_err mul_err gen_mul_err.

(* ---------- ** of a BQM: only 2, only linear, then BinaryQuadraticModel.__mul__(self, self) ---------- *)
Theorem g_pow_bqm_correct v t p n :
  bqm_terms_ok v t p -> g_pow (VMdl (mkM (CBqm v) t p)) n = v_pow (VMdl (mkM (CBqm v) t p)) n.
Proof.
  intros T. unfold g_pow, FUEL, v_pow, m_pow. rewrite disp_S. cbn -[disp m_mul is_linear Nat.eqb].
  destruct (n =? 2)%nat; cbn -[disp m_mul is_linear]; [|reflexivity].
  rewrite !is_linear_mk.
  destruct (p_quad p) eqn:Q; cbn -[disp m_mul]; [|reflexivity].
  rewrite (disp_mul_bqm_bqm _ v t p t p T). cbn [v_mul]. destruct (m_mul _ _); reflexivity.
Qed.

(* ---------- model *= model: both __imul__ accept numbers only, Python falls back to __mul__ ---------- *)
Lemma disp_imul_mdl_mdl f x y :
  disp (S (S f)) (RIBin OMul (VMdl x) (VMdl y)) = disp (S (S f)) (RBin OMul (VMdl x) (VMdl y)).
Proof.
  rewrite disp_S. destruct x as [[vx|] tx px], y as [cy ty py]; cbn -[disp binop_with]; reflexivity.
Qed.

(* ---------- a BQM times a QM: qm = QuadraticModel.from_bqm(self); qm *= other ---------- *)
Lemma disp_mul_bqm_qm f v tx px ty py :
  disp (S (S (S f))) (RBin OMul (VMdl (mkM (CBqm v) tx px)) (VMdl (mkM CQm ty py))) =
  v_mul (VMdl (mkM (CBqm v) tx px)) (VMdl (mkM CQm ty py)).
Proof.
  rewrite disp_S. cbn -[disp m_mul v_mul to_qm].
  unfold on_slot. cbn -[disp m_mul v_mul to_qm].
  change (to_qm (mkM (CBqm v) tx px)) with (mkM CQm tx px).
  rewrite disp_imul_qm_qm.
  cbn [v_mul]. rewrite m_mul_bqm_qm. destruct (m_mul _ _); reflexivity.
Qed.

(* ---------- a QM times a BQM: QuadraticModel.__mul__ declines, BinaryQuadraticModel.__rmul__ runs
   qm = QuadraticModel.from_bqm(self); qm *= other  (so the BQM's variables are registered first) ---------- *)
Lemma m_mul_qm_bqm v tx px ty py :
  m_mul (mkM CQm tx px) (mkM (CBqm v) ty py) = m_mul (mkM CQm ty py) (mkM CQm tx px).
Proof.
  unfold m_mul. rewrite !is_linear_mk. cbn [needs_promo mul_order m_cls m_tab m_poly].
  rewrite (andb_comm (match p_quad px with [] => true | _ => false end)). reflexivity.
Qed.

Lemma disp_mul_qm_bqm f v tx px ty py :
  disp (S (S (S f))) (RBin OMul (VMdl (mkM CQm tx px)) (VMdl (mkM (CBqm v) ty py))) =
  v_mul (VMdl (mkM CQm tx px)) (VMdl (mkM (CBqm v) ty py)).
Proof.
  rewrite disp_S. cbn -[disp m_mul v_mul to_qm].
  unfold on_slot. cbn -[disp m_mul v_mul to_qm].
  change (to_qm (mkM (CBqm v) ty py)) with (mkM CQm ty py).
  rewrite disp_imul_qm_qm.
  cbn [v_mul]. rewrite m_mul_qm_bqm. destruct (m_mul _ _); reflexivity.
Qed.

(* ---------- two BQMs, any vartypes ---------- *)
(* the double loop of BinaryQuadraticModel.__mul__ whenever no promotion is called for: equal vartypes, or a
   right operand without variables *)
Lemma product_bqm_correct_nopromo v v' tx px ty py :
  bqm_terms_ok v tx px -> p_quad px = [] -> p_quad py = [] ->
  needs_promo (mkM (CBqm v) tx px) (mkM (CBqm v') ty py) = false ->
  product_bqm bqm_table (mkM (CBqm v) tx px) (mkM (CBqm v') ty py) = m_mul (mkM (CBqm v) tx px) (mkM (CBqm v') ty py).
Proof.
  intros T Qx Qy NP. unfold product_bqm, m_mul. rewrite NP. rewrite !is_linear_mk, Qx, Qy.
  cbn [m_cls m_tab m_poly andb negb].
  rewrite merge_gen. destruct (merge upd_err tx ty) as [t|e] eqn:E; [|reflexivity].
  rewrite (unexpected_none bqm_table (fun _ => v) _ _ bqm_table_expected).
  rewrite (pmul_linear_bqm_table v t tx px py T (merge_left _ _ _ _ E)). reflexivity.
Qed.

Lemma m_mul_bqm_bqm_promo v v' tx px ty py :
  needs_promo (mkM (CBqm v) tx px) (mkM (CBqm v') ty py) = true ->
  m_mul (mkM (CBqm v) tx px) (mkM (CBqm v') ty py) = m_mul (mkM CQm ty py) (mkM CQm tx px).
Proof.
  intros NP. unfold m_mul. rewrite NP. rewrite !is_linear_mk. cbn [needs_promo mul_order m_cls m_tab m_poly].
  rewrite (andb_comm (match p_quad px with [] => true | _ => false end)). reflexivity.
Qed.

Lemma disp_mul_bqm_bqm_any f v v' tx px ty py :
  bqm_terms_ok v tx px ->
  disp (S (S (S (S f)))) (RBin OMul (VMdl (mkM (CBqm v) tx px)) (VMdl (mkM (CBqm v') ty py))) =
  v_mul (VMdl (mkM (CBqm v) tx px)) (VMdl (mkM (CBqm v') ty py)).
Proof.
  intros T.
  pose proof (product_bqm_correct_nopromo v v' tx px ty py T) as PB.
  pose proof (m_mul_bqm_bqm_promo v v' tx px ty py) as PR.
  pose proof (mul_nonlinear_rejected (mkM (CBqm v) tx px) (mkM (CBqm v') ty py)) as NL.
  rewrite !is_linear_mk in NL.
  unfold needs_promo in PB, PR. cbn [m_cls m_tab] in PB, PR.
  rewrite disp_S. cbn -[disp product_bqm m_mul is_linear vartype_eqb tab_empty to_qm]. rewrite !is_linear_mk.
  cbn [v_mul].
  destruct (p_quad px) eqn:Qx; destruct (p_quad py) eqn:Qy; cbn -[disp product_bqm m_mul vartype_eqb tab_empty to_qm];
    try (rewrite NL by (auto; fail); reflexivity).
  destruct (negb (tab_empty ty) && negb (vartype_eqb v v')) eqn:G; cbn -[disp product_bqm m_mul to_qm].
  - change (to_qm (mkM (CBqm v) tx px)) with (mkM CQm tx px).
    rewrite disp_mul_qm_bqm. cbn [v_mul]. rewrite m_mul_qm_bqm. rewrite (PR eq_refl). clear PB PR NL.
    destruct (m_mul (mkM CQm ty py) (mkM CQm tx px)); reflexivity.
  - change (product_bqm _ ?a ?b) with (product_bqm bqm_table a b). rewrite PB by reflexivity.
    destruct (m_mul _ _); reflexivity.
Qed.

(* ---------- every pair of operand kinds ---------- *)
(* a BQM whose linear terms range over its own variables, of its own vartype - true of every real BQM *)
Definition bqm_wf (a : val) : Prop :=
  match a with
  | VMdl m => match m_cls m with CBqm v => bqm_terms_ok v (m_tab m) (m_poly m) | CQm => True end
  | _ => True
  end.

Theorem g_mul_correct a b : bqm_wf a -> requiv (g_op OMul a b) (v_mul a b).
Proof.
  destruct a as [x|[ca ta pa]|ma], b as [y|[cb tb pb]|mb]; cbn [bqm_wf m_cls m_tab m_poly]; intros H.
  - rewrite g_mul_num_num. apply requiv_refl.
  - rewrite g_mul_num_mdl. apply requiv_refl.
  - vm_compute. reflexivity.
  - rewrite g_mul_mdl_num. apply requiv_refl.
  - unfold g_op, FUEL. destruct ca as [va|], cb as [vb|].
    + rewrite disp_mul_bqm_bqm_any by exact H. apply requiv_refl.
    + rewrite disp_mul_bqm_qm. apply requiv_refl.
    + rewrite disp_mul_qm_bqm. apply requiv_refl.
    + rewrite disp_mul_qm_qm. apply requiv_refl.
  - destruct ca as [va|]; vm_compute; reflexivity.
  - vm_compute. reflexivity.
  - destruct cb as [vb|]; vm_compute; reflexivity.
  - vm_compute. reflexivity.
Qed.

(* in place: __imul__ of either class accepts numbers only; for anything else Python falls back to __mul__ / __rmul__ *)
Lemma g_imul_num_mdl c t p k : g_iop OMul (VNum k) (VMdl (mkM c t p)) = v_mul (VNum k) (VMdl (mkM c t p)).
Proof. destruct c as [[| | |]|]; reflexivity. Qed.

Theorem g_imul_correct a b : bqm_wf a -> requiv (g_iop OMul a b) (v_mul a b).
Proof.
  destruct a as [x|[ca ta pa]|ma], b as [y|[cb tb pb]|mb]; cbn [bqm_wf m_cls m_tab m_poly]; intros H.
  - vm_compute. reflexivity.
  - rewrite g_imul_num_mdl. apply requiv_refl.
  - vm_compute. reflexivity.
  - rewrite g_imul_mdl_num. apply requiv_refl.
  - unfold g_iop, FUEL. rewrite disp_imul_mdl_mdl. destruct ca as [va|], cb as [vb|].
    + rewrite disp_mul_bqm_bqm_any by exact H. apply requiv_refl.
    + rewrite disp_mul_bqm_qm. apply requiv_refl.
    + rewrite disp_mul_qm_bqm. apply requiv_refl.
    + rewrite disp_mul_qm_qm. apply requiv_refl.
  - destruct ca as [va|]; vm_compute; reflexivity.
  - vm_compute. reflexivity.
  - destruct cb as [vb|]; vm_compute; reflexivity.
  - vm_compute. reflexivity.
Qed.

(* hence: whatever the translated * or *= returns has, on every sample that respects the domains of the
   result's variables, the product of the operands' energies, and keeps the vartype of every operand variable *)
Theorem g_mul_spec a b v : bqm_wf a -> (g_op OMul a b = Ok v \/ g_iop OMul a b = Ok v) -> op_spec a b v Qcmult.
Proof.
  intros Wa [H|H].
  - pose proof (g_mul_correct a b Wa) as R. rewrite H in R. destruct (v_mul a b) as [w|] eqn:E; [|contradiction].
    eapply veq_spec; [exact R|apply v_mul_ok; exact E].
  - pose proof (g_imul_correct a b Wa) as R. rewrite H in R. destruct (v_mul a b) as [w|] eqn:E; [|contradiction].
    eapply veq_spec; [exact R|apply v_mul_ok; exact E].
Qed.

(* ** for every operand kind *)
Theorem g_pow_correct a n : bqm_wf a -> g_pow a n = v_pow a n.
Proof.
  destruct a as [x|[[va|] ta pa]|ma]; cbn [bqm_wf m_cls m_tab m_poly]; intros H.
  - reflexivity.
  - apply g_pow_bqm_correct. exact H.
  - apply g_pow_qm_correct.
  - reflexivity.
Qed.

Theorem g_pow_spec a n v : bqm_wf a -> g_pow a n = Ok v ->
  sub_vt (val_tab a) (val_tab v) /\
  forall s, respects (tvt (val_tab v)) s -> val_energy v s = qpow (val_energy a s) n.
Proof. intros Wa H. rewrite g_pow_correct in H by exact Wa. apply v_pow_ok. exact H. Qed.

(* a model is only ever squared, and only when linear; the square of a linear model has the squared energy *)
Theorem g_pow_model_square m n v : bqm_wf (VMdl m) -> g_pow (VMdl m) n = Ok v ->
  n = 2%nat /\ is_linear m = true /\
  forall s, respects (tvt (val_tab v)) s -> val_energy v s = energy (m_poly m) s * energy (m_poly m) s.
Proof.
  intros Wa H. rewrite g_pow_correct in H by exact Wa. cbn [v_pow] in H. unfold lift in H.
  destruct (m_pow m n) as [m'|] eqn:E; [|discriminate H]. inversion H; subst; clear H.
  destruct (pow_only_two _ _ _ E) as [-> L]. split; [reflexivity|]. split; [exact L|].
  intros s Hr. cbn [val_energy val_tab] in *. apply (pow2_linear_energy m m' s E Hr).
Qed.

(* the three promoting paths at the fuel of g_op *)
Theorem g_mul_bqm_qm_correct v tx px ty py :
  g_op OMul (VMdl (mkM (CBqm v) tx px)) (VMdl (mkM CQm ty py)) = v_mul (VMdl (mkM (CBqm v) tx px)) (VMdl (mkM CQm ty py)).
Proof. unfold g_op, FUEL. apply disp_mul_bqm_qm. Qed.

Theorem g_mul_qm_bqm_correct v tx px ty py :
  g_op OMul (VMdl (mkM CQm tx px)) (VMdl (mkM (CBqm v) ty py)) = v_mul (VMdl (mkM CQm tx px)) (VMdl (mkM (CBqm v) ty py)).
Proof. unfold g_op, FUEL. apply disp_mul_qm_bqm. Qed.

Theorem g_mul_bqm_bqm_any_correct v v' tx px ty py :
  bqm_terms_ok v tx px ->
  g_op OMul (VMdl (mkM (CBqm v) tx px)) (VMdl (mkM (CBqm v') ty py)) =
  v_mul (VMdl (mkM (CBqm v) tx px)) (VMdl (mkM (CBqm v') ty py)).
Proof. intros T. unfold g_op, FUEL. apply disp_mul_bqm_bqm_any. exact T. Qed.

(* the hypothesis is satisfiable: a single Binary / Spin variable is such a BQM *)
Lemma var_mdl_bqm_wf k l lb ub : bqm_wf (VMdl (var_mdl k l lb ub)).
Proof.
  unfold bqm_wf, var_mdl. destruct k; cbn [m_cls m_tab m_poly]; try exact I.
  - split; [left; reflexivity|]. intros x [<-|[]]. eexists. cbn [lookup fst]. rewrite Nat.eqb_refl. split; reflexivity.
  - split; [right; reflexivity|]. intros x [<-|[]]. eexists. cbn [lookup fst]. rewrite Nat.eqb_refl. split; reflexivity.
Qed.
