(* Facts about the index-level expression model (Model/Expr.v): the hash map
   indices_ stays the inverse of variables_, and re-indexing after the removal
   of a model variable is "delete that variable's terms, shift the indices
   above it down by one" on the polynomial the expression stands for. *)
From Coq Require Import List ZArith QArith Qcanon Bool Arith Lia Permutation.
From Dimod Require Import Base.Util Model.Poly Model.Expr.
Import ListNotations.
Local Open Scope nat_scope.

(* ---------- the hash map ---------- *)
Lemma find_erase : forall k k' m,
  idx_find k (idx_erase k' m) = if (k =? k')%nat then None else idx_find k m.
Proof.
  intros k k' m. induction m as [|[a x] r IH]; cbn [idx_erase idx_find].
  - destruct (k =? k')%nat; reflexivity.
  - destruct (k' =? a)%nat eqn:E1.
    + rewrite IH. destruct (k =? k')%nat eqn:E2; [reflexivity|].
      apply Nat.eqb_eq in E1. subst a. rewrite E2. reflexivity.
    + cbn [idx_find]. destruct (k =? a)%nat eqn:E3.
      * destruct (k =? k')%nat eqn:E2; [|reflexivity].
        apply Nat.eqb_eq in E2. apply Nat.eqb_eq in E3. subst. rewrite Nat.eqb_refl in E1. discriminate.
      * exact IH.
Qed.

Lemma find_set : forall k k' x m,
  idx_find k (idx_set k' x m) = if (k =? k')%nat then Some x else idx_find k m.
Proof.
  intros k k' x m. unfold idx_set. cbn [idx_find].
  destruct (k =? k')%nat eqn:E; [reflexivity|]. rewrite find_erase, E. reflexivity.
Qed.

(* ---------- index_of ---------- *)
Lemma index_of_None : forall k l, index_of k l = None <-> ~ In k l.
Proof.
  intros k l. induction l as [|a r IH]; cbn [index_of In]; [tauto|].
  destruct (k =? a)%nat eqn:E.
  - apply Nat.eqb_eq in E. split; [discriminate|]. intros H. exfalso. apply H. left. congruence.
  - apply Nat.eqb_neq in E. destruct (index_of k r) eqn:F; cbn [option_map].
    + split; [discriminate|]. intros H. exfalso.
      destruct (in_dec Nat.eq_dec k r) as [i|ni]; [apply H; right; exact i|].
      apply (proj2 IH) in ni. discriminate.
    + split; [|reflexivity]. intros _ [H|H]; [congruence|]. exact (proj1 IH eq_refl H).
Qed.

Lemma index_of_nth : forall k l i, index_of k l = Some i -> nth_error l i = Some k.
Proof.
  intros k l. induction l as [|a r IH]; intros i; cbn [index_of]; [discriminate|].
  destruct (k =? a)%nat eqn:E.
  - intros [= <-]. apply Nat.eqb_eq in E. subst. reflexivity.
  - destruct (index_of k r) eqn:F; cbn [option_map]; [|discriminate].
    intros [= <-]. cbn [nth_error]. apply IH. reflexivity.
Qed.

Lemma nth_index_of : forall l i k, NoDup l -> nth_error l i = Some k -> index_of k l = Some i.
Proof.
  induction l as [|a r IH]; intros i k ND H.
  - destruct i; discriminate.
  - inversion ND as [|? ? Hn ND']; subst. destruct i as [|j]; cbn [nth_error] in H; cbn [index_of].
    + injection H as ->. rewrite Nat.eqb_refl. reflexivity.
    + destruct (k =? a)%nat eqn:E.
      * apply Nat.eqb_eq in E. subst. exfalso. apply Hn. eapply nth_error_In. exact H.
      * rewrite (IH j k ND' H). reflexivity.
Qed.

Lemma index_of_lt : forall k l i, index_of k l = Some i -> i < length l.
Proof.
  intros k l i H. apply index_of_nth in H. apply nth_error_Some. congruence.
Qed.

Lemma index_of_app_fresh : forall k v l,
  index_of k (l ++ [v]) =
  match index_of k l with
  | Some i => Some i
  | None => if (k =? v)%nat then Some (length l) else None
  end.
Proof.
  intros k v l. induction l as [|a r IH]; cbn [app index_of length].
  - destruct (k =? v)%nat; reflexivity.
  - destruct (k =? a)%nat; [reflexivity|]. rewrite IH.
    destruct (index_of k r); cbn [option_map]; [reflexivity|].
    destruct (k =? v)%nat; reflexivity.
Qed.

(* ---------- remove_nth, shift ---------- *)
Lemma remove_nth_length : forall {A} (l : list A) i, i < length l -> length (remove_nth i l) = pred (length l).
Proof.
  intros A l. induction l as [|a r IH]; intros i H; cbn [length] in *; [lia|].
  destruct i as [|j]; cbn [remove_nth length]; [reflexivity|].
  rewrite IH by lia. destruct r; cbn [length] in *; lia.
Qed.

Lemma nth_remove_nth : forall {A} (l : list A) i a d, a <> i ->
  nth (shift i a) (remove_nth i l) d = nth a l d.
Proof.
  intros A l. induction l as [|x r IH]; intros i a d Hne.
  - destruct i; cbn [remove_nth]; destruct (shift _ a), a; reflexivity.
  - destruct i as [|j]; cbn [remove_nth].
    + destruct a as [|a']; [congruence|]. unfold shift. cbn. reflexivity.
    + destruct a as [|a'].
      * unfold shift. cbn. reflexivity.
      * assert (Hs : shift (S j) (S a') = S (shift j a')).
        { unfold shift. destruct (Nat.ltb_spec j a'); destruct (Nat.ltb_spec (S j) (S a')); lia. }
        rewrite Hs. cbn [nth]. apply IH. congruence.
Qed.

Lemma nth_map_shift : forall v l k, nth k (map (shift v) l) 0%nat = shift v (nth k l 0%nat).
Proof. intros v l k. exact (map_nth (shift v) l 0%nat k). Qed.

Lemma In_remove_nth : forall {A} (l : list A) i x, In x (remove_nth i l) -> In x l.
Proof.
  intros A l. induction l as [|a r IH]; intros i x H; [destruct i; exact H|].
  destruct i as [|j]; cbn [remove_nth] in H; [right; exact H|].
  destruct H as [H|H]; [left; exact H|right; eapply IH; exact H].
Qed.

Lemma NoDup_remove_nth : forall {A} (l : list A) i, NoDup l -> NoDup (remove_nth i l).
Proof.
  intros A l. induction l as [|a r IH]; intros i ND; [destruct i; exact ND|].
  inversion ND as [|? ? Hn ND']; subst. destruct i as [|j]; cbn [remove_nth]; [exact ND'|].
  constructor; [|apply IH; exact ND']. intros H. apply Hn. eapply In_remove_nth. exact H.
Qed.

Lemma remove_nth_notin : forall (l : list nat) i v, NoDup l -> nth_error l i = Some v -> ~ In v (remove_nth i l).
Proof.
  induction l as [|a r IH]; intros i v ND H; [destruct i; discriminate|].
  inversion ND as [|? ? Hn ND']; subst. destruct i as [|j]; cbn [remove_nth nth_error] in *.
  - injection H as ->. exact Hn.
  - intros [E|E].
    + subst. apply Hn. eapply nth_error_In. exact H.
    + exact (IH j v ND' H E).
Qed.

Lemma shift_inj : forall v a b, a <> v -> b <> v -> shift v a = shift v b -> a = b.
Proof.
  intros v a b Ha Hb. unfold shift.
  destruct (Nat.ltb_spec v a); destruct (Nat.ltb_spec v b); lia.
Qed.

Lemma NoDup_map_shift : forall v l, NoDup l -> ~ In v l -> NoDup (map (shift v) l).
Proof.
  intros v l. induction l as [|a r IH]; intros ND Hn; cbn [map]; [constructor|].
  inversion ND as [|? ? Ha ND']; subst. constructor.
  - intros H. apply in_map_iff in H. destruct H as [b [Hb Hin]].
    apply shift_inj in Hb.
    + subst. exact (Ha Hin).
    + intros ->. apply Hn. right. exact Hin.
    + intros ->. apply Hn. left. reflexivity.
  - apply IH; [exact ND'|]. intros H. apply Hn. right. exact H.
Qed.

Lemma shift_lt : forall v u n, u < n -> u <> v -> v < n -> shift v u < pred n.
Proof.
  intros v u n Hu Hne Hv. unfold shift. destruct (Nat.ltb_spec v u); lia.
Qed.

(* ---------- well-formed expressions ---------- *)
Definition IdxInv (vars : list nat) (idx : imap) : Prop := forall k, idx_find k idx = index_of k vars.

Record ExprInv (n : nat) (e : mexpr) : Prop := mkInv {
  inv_nodup : NoDup (e_vars e);
  inv_lt : Forall (fun u => u < n) (e_vars e);
  inv_len : length (e_lin e) = length (e_vars e);
  inv_quad : Forall (fun t => fst (fst t) < length (e_vars e) /\ snd (fst t) < length (e_vars e)) (e_quad e);
  inv_idx : IdxInv (e_vars e) (e_idx e) }.

Lemma empty_inv : forall n, ExprInv n e_empty.
Proof. intros n. constructor; cbn; try constructor; try reflexivity. Qed.

(* ---------- enforce_variable ---------- *)
Lemma enforce_present : forall n e v i, ExprInv n e -> index_of v (e_vars e) = Some i -> enforce v e = (e, i).
Proof. intros n e v i I H. unfold enforce. rewrite (inv_idx _ _ I v), H. reflexivity. Qed.

Lemma enforce_absent : forall n e v, ExprInv n e -> ~ In v (e_vars e) ->
  enforce v e = (mkE (e_vars e ++ [v]) (idx_set v (length (e_vars e)) (e_idx e)) (e_lin e ++ [0%Qc]) (e_quad e) (e_off e),
                 length (e_vars e)).
Proof.
  intros n e v I H. unfold enforce. rewrite (inv_idx _ _ I v).
  apply index_of_None in H. rewrite H. reflexivity.
Qed.

Lemma enforce_inv : forall n e v, ExprInv n e -> v < n -> ExprInv n (fst (enforce v e)).
Proof.
  intros n e v I Hv. destruct (index_of v (e_vars e)) as [i|] eqn:F.
  - rewrite (enforce_present n e v i I F). exact I.
  - assert (Hn : ~ In v (e_vars e)) by (apply index_of_None; exact F).
    rewrite (enforce_absent n e v I Hn). cbn [fst]. destruct I as [ND LT LEN QD IDX].
    constructor; cbn [e_vars e_idx e_lin e_quad].
    + apply (Permutation_NoDup (l := v :: e_vars e)).
      * apply Permutation_cons_append.
      * constructor; assumption.
    + apply Forall_app. split; [exact LT|]. constructor; [exact Hv|constructor].
    + rewrite !app_length. cbn. lia.
    + eapply Forall_impl; [|exact QD]. intros t [H1 H2]. rewrite app_length. cbn. lia.
    + intros k. rewrite find_set, index_of_app_fresh, <- (IDX k).
      destruct (k =? v)%nat eqn:E.
      * apply Nat.eqb_eq in E. subst k. rewrite (IDX v), F. reflexivity.
      * destruct (idx_find k (e_idx e)); reflexivity.
Qed.

Lemma enforce_index : forall n e v, ExprInv n e -> v < n ->
  nth_error (e_vars (fst (enforce v e))) (snd (enforce v e)) = Some v.
Proof.
  intros n e v I Hv. destruct (index_of v (e_vars e)) as [i|] eqn:F.
  - rewrite (enforce_present n e v i I F). cbn [fst snd]. apply index_of_nth. exact F.
  - assert (Hn : ~ In v (e_vars e)) by (apply index_of_None; exact F).
    rewrite (enforce_absent n e v I Hn). cbn [fst snd e_vars].
    rewrite nth_error_app2 by lia. rewrite Nat.sub_diag. reflexivity.
Qed.

(* the polynomial the expression stands for gains exactly a zero term for v, at the end *)
Lemma nth_app_lt : forall (l : list nat) x i, i < length l -> nth i (l ++ [x]) 0%nat = nth i l 0%nat.
Proof. intros l x i H. apply app_nth1. exact H. Qed.

Lemma combine_app_one : forall {A B} (l1 : list A) (l2 : list B) a b, length l1 = length l2 ->
  combine (l1 ++ [a]) (l2 ++ [b]) = combine l1 l2 ++ [(a, b)].
Proof.
  intros A B l1. induction l1 as [|x r IH]; intros l2 a b H; destruct l2 as [|y s]; cbn in *; try discriminate; [reflexivity|].
  f_equal. apply IH. lia.
Qed.

Lemma enforce_abs_fresh : forall n e v, ExprInv n e -> ~ In v (e_vars e) ->
  abs_expr (fst (enforce v e)) =
  mkPoly (p_off (abs_expr e)) (p_lin (abs_expr e) ++ [(v, 0%Qc)]) (p_quad (abs_expr e)).
Proof.
  intros n e v I Hn. rewrite (enforce_absent n e v I Hn). cbn [fst]. destruct I as [ND LT LEN QD IDX].
  unfold abs_expr. cbn [e_vars e_lin e_quad e_off p_off p_lin p_quad]. f_equal.
  - apply combine_app_one. symmetry. exact LEN.
  - apply map_ext_in. intros t Ht. rewrite Forall_forall in QD. destruct (QD t Ht) as [H1 H2].
    rewrite !nth_app_lt by assumption. reflexivity.
Qed.

Lemma enforce_abs_present : forall n e v, ExprInv n e -> In v (e_vars e) -> fst (enforce v e) = e.
Proof.
  intros n e v I Hin. destruct (index_of v (e_vars e)) as [i|] eqn:F.
  - rewrite (enforce_present n e v i I F). reflexivity.
  - apply index_of_None in F. contradiction.
Qed.

(* ---------- the polynomial after removing a local index ---------- *)
Lemma filter_combine_notin : forall (vars : list nat) (lin : list Qc) v, ~ In v vars ->
  filter (fun t : lterm => negb (fst t =? v)%nat) (combine vars lin) = combine vars lin.
Proof.
  induction vars as [|a r IH]; intros lin v Hn; [reflexivity|].
  destruct lin as [|b s]; [reflexivity|]. cbn [combine filter fst].
  assert (E : (a =? v)%nat = false) by (apply Nat.eqb_neq; intros ->; apply Hn; left; reflexivity).
  rewrite E. cbn [negb]. f_equal. apply IH. intros H. apply Hn. right. exact H.
Qed.

Lemma filter_combine_remove_nth : forall (vars : list nat) (lin : list Qc) i v,
  NoDup vars -> nth_error vars i = Some v ->
  filter (fun t : lterm => negb (fst t =? v)%nat) (combine vars lin) = combine (remove_nth i vars) (remove_nth i lin).
Proof.
  induction vars as [|a r IH]; intros lin i v ND H; [destruct i; discriminate|].
  inversion ND as [|? ? Hn ND']; subst.
  destruct lin as [|b s].
  - cbn [combine filter]. destruct i; cbn [remove_nth]; [destruct r; reflexivity|]. destruct (remove_nth i r); reflexivity.
  - destruct i as [|j]; cbn [nth_error] in H; cbn [combine filter fst remove_nth].
    + injection H as ->. rewrite Nat.eqb_refl. cbn [negb]. apply filter_combine_notin. exact Hn.
    + assert (E : (a =? v)%nat = false).
      { apply Nat.eqb_neq. intros ->. apply Hn. eapply nth_error_In. exact H. }
      rewrite E. cbn [negb combine]. f_equal. apply IH; assumption.
Qed.

Lemma combine_map_l : forall {A B C} (f : A -> C) (l1 : list A) (l2 : list B),
  combine (map f l1) l2 = map (fun t => (f (fst t), snd t)) (combine l1 l2).
Proof.
  intros A B C f l1. induction l1 as [|a r IH]; intros l2; [reflexivity|].
  destruct l2 as [|b s]; [reflexivity|]. cbn. f_equal. apply IH.
Qed.

Definition to_model (vars : list nat) (t : lqterm) : qterm :=
  (nth (fst (fst t)) vars 0%nat, nth (snd (fst t)) vars 0%nat, snd t).

Lemma nth_eq_iff : forall (vars : list nat) i v a, NoDup vars -> nth_error vars i = Some v -> a < length vars ->
  (nth a vars 0%nat =? v)%nat = (a =? i)%nat.
Proof.
  intros vars i v a ND Hi Ha. destruct (a =? i)%nat eqn:E.
  - apply Nat.eqb_eq in E. subst a. apply Nat.eqb_eq. apply nth_error_nth. exact Hi.
  - apply Nat.eqb_neq. intros Hv. apply Nat.eqb_neq in E. apply E.
    assert (Ha' : nth_error vars a = Some v).
    { rewrite (nth_error_nth' vars 0%nat Ha). congruence. }
    pose proof (nth_index_of vars a v ND Ha') as P1. pose proof (nth_index_of vars i v ND Hi) as P2. congruence.
Qed.

Lemma mentions_to_model : forall vars i v (t : lqterm), NoDup vars -> nth_error vars i = Some v ->
  fst (fst t) < length vars -> snd (fst t) < length vars ->
  mentions v (to_model vars t) = lmentions i t.
Proof.
  intros vars i v [[a b] w] ND Hi Ha Hb. cbn [fst snd] in Ha, Hb.
  unfold mentions, lmentions, to_model. cbn [fst snd].
  rewrite (nth_eq_iff vars i v a ND Hi Ha), (nth_eq_iff vars i v b ND Hi Hb). reflexivity.
Qed.

Lemma quad_remove_present : forall vars quad i v,
  NoDup vars -> nth_error vars i = Some v ->
  Forall (fun t : lqterm => fst (fst t) < length vars /\ snd (fst t) < length vars) quad ->
  map (to_model (map (shift v) (remove_nth i vars))) (base_remove_quad i quad) =
  map (fun t : qterm => (shift v (fst (fst t)), shift v (snd (fst t)), snd t))
      (filter (fun t => negb (mentions v t)) (map (to_model vars) quad)).
Proof.
  intros vars quad i v ND Hi. induction quad as [|t r IH]; intros QD; [reflexivity|].
  inversion QD as [|? ? [Ha Hb] QD']; subst.
  unfold base_remove_quad in *. cbn [map filter].
  rewrite (mentions_to_model vars i v t ND Hi Ha Hb).
  destruct (lmentions i t) eqn:E; cbn [negb].
  - apply IH. exact QD'.
  - cbn [map]. f_equal; [|apply IH; exact QD'].
    destruct t as [[a b] w]. unfold lmentions in E. cbn [fst snd] in *.
    apply orb_false_iff in E. destruct E as [E1 E2]. apply Nat.eqb_neq in E1. apply Nat.eqb_neq in E2.
    unfold to_model. cbn [fst snd]. rewrite !nth_map_shift, !nth_remove_nth by assumption. reflexivity.
Qed.

Lemma quad_remove_absent : forall vars quad v,
  ~ In v vars ->
  Forall (fun t : lqterm => fst (fst t) < length vars /\ snd (fst t) < length vars) quad ->
  map (to_model (map (shift v) vars)) quad =
  map (fun t : qterm => (shift v (fst (fst t)), shift v (snd (fst t)), snd t))
      (filter (fun t => negb (mentions v t)) (map (to_model vars) quad)).
Proof.
  intros vars quad v Hn. induction quad as [|t r IH]; intros QD; [reflexivity|].
  inversion QD as [|? ? [Ha Hb] QD']; subst. destruct t as [[a b] w]. cbn [fst snd] in Ha, Hb.
  cbn [map filter].
  assert (E : mentions v (to_model vars (a, b, w)) = false).
  { unfold mentions, to_model. cbn [fst snd]. apply orb_false_iff. split; apply Nat.eqb_neq; intros E;
      apply Hn; rewrite <- E; apply nth_In; assumption. }
  rewrite E. cbn [negb map]. f_equal; [|apply IH; exact QD'].
  unfold to_model. cbn [fst snd]. rewrite !nth_map_shift. reflexivity.
Qed.

(* ---------- reindex_variables ---------- *)
(* the state after the first block of reindex_variables (v erased if present) *)
Definition pre_reindex (v : nat) (e : mexpr) : nat * mexpr :=
  match idx_find v (e_idx e) with
  | Some i => (i, mkE (remove_nth i (e_vars e)) (idx_erase v (e_idx e))
                      (base_remove_lin i (e_lin e)) (base_remove_quad i (e_quad e)) (e_off e))
  | None => (length (e_vars e), e)
  end.

Lemma reindex_fields : forall v e,
  e_vars (m_reindex v e) = map (shift v) (e_vars (snd (pre_reindex v e)))
  /\ e_lin (m_reindex v e) = e_lin (snd (pre_reindex v e))
  /\ e_quad (m_reindex v e) = e_quad (snd (pre_reindex v e))
  /\ e_off (m_reindex v e) = e_off (snd (pre_reindex v e)).
Proof.
  intros v e. unfold m_reindex, pre_reindex. destruct (idx_find v (e_idx e)); cbn; auto.
Qed.

Theorem reindex_abs : forall n e v, ExprInv n e ->
  abs_expr (m_reindex v e) = relabel (shift v) (remove_variable v (abs_expr e)).
Proof.
  intros n e v [ND LT LEN QD IDX]. destruct (reindex_fields v e) as [Hv [Hl [Hq Ho]]].
  unfold abs_expr at 1. rewrite Hv, Hl, Hq, Ho. clear Hv Hl Hq Ho.
  unfold pre_reindex. rewrite (IDX v). destruct (index_of v (e_vars e)) as [i|] eqn:F; cbn [snd e_vars e_lin e_quad e_off].
  - apply index_of_nth in F.
    unfold relabel, remove_variable, abs_expr. cbn [p_off p_lin p_quad]. f_equal.
    + rewrite combine_map_l. f_equal. symmetry. unfold base_remove_lin.
      apply filter_combine_remove_nth; assumption.
    + exact (quad_remove_present (e_vars e) (e_quad e) i v ND F QD).
  - apply index_of_None in F.
    unfold relabel, remove_variable, abs_expr. cbn [p_off p_lin p_quad]. f_equal.
    + rewrite combine_map_l. f_equal. symmetry. apply filter_combine_notin. exact F.
    + exact (quad_remove_absent (e_vars e) (e_quad e) v F QD).
Qed.

(* ---------- reindex_variables keeps indices_ the inverse of variables_ ---------- *)
Definition unshift (v k : nat) : nat := if (k <? v)%nat then k else S k.
Definition posfix (i j : nat) : nat := if (j <? i)%nat then j else pred j.

Lemma index_of_map_shift : forall v l k, ~ In v l ->
  index_of k (map (shift v) l) = index_of (unshift v k) l.
Proof.
  intros v l k. induction l as [|a r IH]; intros Hn; [reflexivity|]. cbn [map index_of].
  assert (Ha : a <> v) by (intros ->; apply Hn; left; reflexivity).
  assert (E : (k =? shift v a)%nat = (unshift v k =? a)%nat).
  { unfold shift, unshift. destruct (Nat.ltb_spec v a); destruct (Nat.ltb_spec k v);
      destruct (Nat.eqb_spec k (pred a)); destruct (Nat.eqb_spec k a);
      destruct (Nat.eqb_spec (S k) a); try reflexivity; lia. }
  rewrite E, IH; [reflexivity|]. intros H. apply Hn. right. exact H.
Qed.

Lemma index_of_remove_nth : forall l i v k, NoDup l -> nth_error l i = Some v -> k <> v ->
  index_of k (remove_nth i l) = option_map (posfix i) (index_of k l).
Proof.
  induction l as [|a r IH]; intros i v k ND Hi Hk; [destruct i; discriminate|].
  inversion ND as [|? ? Hn ND']; subst. destruct i as [|i']; cbn [nth_error remove_nth] in *.
  - injection Hi as ->. cbn [index_of]. assert (E : (k =? v)%nat = false) by (apply Nat.eqb_neq; exact Hk).
    rewrite E. destruct (index_of k r); reflexivity.
  - cbn [index_of]. destruct (k =? a)%nat eqn:E; [reflexivity|].
    rewrite (IH i' v k ND' Hi Hk). destruct (index_of k r) as [j|] eqn:F; cbn [option_map]; [|reflexivity].
    f_equal. unfold posfix.
    assert (Hj : j <> i').
    { intros ->. apply index_of_nth in F. congruence. }
    destruct (Nat.ltb_spec j i'); destruct (Nat.ltb_spec (S j) (S i')); lia.
Qed.

Lemma fold_erase_find : forall v l m k,
  idx_find k (fold_left (fun m u => if (v <? u)%nat then idx_erase u m else m) l m) =
  if (v <? k)%nat && existsb (Nat.eqb k) l then None else idx_find k m.
Proof.
  intros v l. induction l as [|u r IH]; intros m k; cbn [fold_left existsb].
  - rewrite andb_false_r. reflexivity.
  - rewrite IH. destruct (Nat.eqb_spec k u) as [->|Hne]; cbn [orb].
    + destruct (v <? u)%nat eqn:E; cbn [andb].
      * rewrite find_erase, Nat.eqb_refl. destruct (existsb (Nat.eqb u) r); reflexivity.
      * reflexivity.
    + destruct (v <? u)%nat eqn:E; [|reflexivity].
      rewrite find_erase. apply Nat.eqb_neq in Hne. rewrite Hne. reflexivity.
Qed.

Lemma fold_set_find : forall (c : nat -> nat -> bool) l a m k, NoDup l ->
  idx_find k (fold_left (fun m iu => if c (fst iu) (snd iu) then idx_set (snd iu) (fst iu) m else m)
                        (combine (seq a (length l)) l) m) =
  match index_of k l with
  | Some j => if c (a + j) k then Some (a + j) else idx_find k m
  | None => idx_find k m
  end.
Proof.
  intros c l. induction l as [|u r IH]; intros a m k ND; [reflexivity|].
  inversion ND as [|? ? Hn ND']; subst. cbn [length seq combine fold_left fst snd index_of].
  rewrite (IH (S a) _ k ND'). destruct (Nat.eqb_spec k u) as [->|Hne].
  - assert (F : index_of u r = None) by (apply index_of_None; exact Hn). rewrite F.
    rewrite Nat.add_0_r. destruct (c a u); [|reflexivity]. rewrite find_set, Nat.eqb_refl. reflexivity.
  - assert (G : idx_find k (if c a u then idx_set u a m else m) = idx_find k m).
    { destruct (c a u); [|reflexivity]. rewrite find_set. apply Nat.eqb_neq in Hne. rewrite Hne. reflexivity. }
    rewrite G. destruct (index_of k r) as [j|]; cbn [option_map]; [|reflexivity].
    replace (S a + j) with (a + S j) by lia. reflexivity.
Qed.

Lemma existsb_eqb_In : forall k l, existsb (Nat.eqb k) l = true <-> In k l.
Proof.
  intros k l. rewrite existsb_exists. split.
  - intros [x [Hin E]]. apply Nat.eqb_eq in E. subst. exact Hin.
  - intros H. exists k. split; [exact H|apply Nat.eqb_refl].
Qed.

Theorem reindex_inv : forall n e v, ExprInv n e -> v < n -> ExprInv (pred n) (m_reindex v e).
Proof.
  intros n e v [ND LT LEN QD IDX] Hv.
  (* facts about the state after the first block *)
  set (p := pre_reindex v e).
  assert (P : exists start vars1 idx1 lin1 quad1,
            p = (start, mkE vars1 idx1 lin1 quad1 (e_off e))
            /\ NoDup vars1 /\ ~ In v vars1 /\ Forall (fun u => u < n) vars1
            /\ length lin1 = length vars1
            /\ Forall (fun t : lqterm => fst (fst t) < length vars1 /\ snd (fst t) < length vars1) quad1
            /\ (forall k, idx_find k idx1 = if (k =? v)%nat then None else index_of k (e_vars e))
            /\ (forall k, k <> v -> index_of k vars1 = option_map (posfix start) (index_of k (e_vars e)))
            /\ start <= length vars1).
  { unfold p, pre_reindex. rewrite (IDX v). destruct (index_of v (e_vars e)) as [i|] eqn:F.
    - pose proof (index_of_nth _ _ _ F) as Hi. pose proof (index_of_lt _ _ _ F) as Hlt.
      exists i, (remove_nth i (e_vars e)), (idx_erase v (e_idx e)), (base_remove_lin i (e_lin e)), (base_remove_quad i (e_quad e)).
      split; [reflexivity|]. repeat split.
      + apply NoDup_remove_nth. exact ND.
      + apply remove_nth_notin; assumption.
      + rewrite Forall_forall in *. intros x Hx. apply LT. eapply In_remove_nth. exact Hx.
      + unfold base_remove_lin. rewrite !remove_nth_length by lia. congruence.
      + unfold base_remove_quad. rewrite Forall_forall in *. intros t Ht.
        apply in_map_iff in Ht. destruct Ht as [[[a b] w] [<- Hin]]. apply filter_In in Hin.
        destruct Hin as [Hin Hm]. destruct (QD _ Hin) as [Ha Hb]. cbn [fst snd] in *.
        unfold lmentions in Hm. cbn [fst snd] in Hm. apply negb_true_iff in Hm. apply orb_false_iff in Hm.
        destruct Hm as [E1 E2]. apply Nat.eqb_neq in E1. apply Nat.eqb_neq in E2.
        rewrite remove_nth_length by lia. unfold shift.
        destruct (Nat.ltb_spec i a); destruct (Nat.ltb_spec i b); lia.
      + intros k. rewrite find_erase, (IDX k). reflexivity.
      + intros k Hk. apply (index_of_remove_nth (e_vars e) i v k); assumption.
      + rewrite remove_nth_length by lia. lia.
    - apply index_of_None in F.
      exists (length (e_vars e)), (e_vars e), (e_idx e), (e_lin e), (e_quad e).
      split; [destruct e; reflexivity|]. repeat split; try assumption.
      + intros k. rewrite (IDX k). destruct (Nat.eqb_spec k v) as [->|]; [|reflexivity].
        apply index_of_None. exact F.
      + intros k _. destruct (index_of k (e_vars e)) as [j|] eqn:G; [|reflexivity]. cbn [option_map].
        apply index_of_lt in G. unfold posfix. destruct (Nat.ltb_spec j (length (e_vars e))); [reflexivity|lia].
      + lia. }
  destruct P as [start [vars1 [idx1 [lin1 [quad1 [Hp [ND1 [Hn1 [LT1 [LEN1 [QD1 [IDX1 [POS Hst]]]]]]]]]]]]].
  assert (Hm : m_reindex v e =
               mkE (map (shift v) vars1)
                   (fold_left (fun m iu => if (start <=? fst iu)%nat || (v <=? snd iu)%nat then idx_set (snd iu) (fst iu) m else m)
                              (combine (seq 0 (length (map (shift v) vars1))) (map (shift v) vars1))
                              (fold_left (fun m u => if (v <? u)%nat then idx_erase u m else m) vars1 idx1))
                   lin1 quad1 (e_off e)).
  { unfold m_reindex. fold (pre_reindex v e). fold p. rewrite Hp. reflexivity. }
  rewrite Hm. clear Hm.
  assert (ND2 : NoDup (map (shift v) vars1)) by (apply NoDup_map_shift; assumption).
  constructor; cbn [e_vars e_idx e_lin e_quad].
  - exact ND2.
  - rewrite Forall_forall in *. intros x Hx. apply in_map_iff in Hx. destruct Hx as [u [<- Hu]].
    apply shift_lt; [apply LT1; exact Hu| intros ->; exact (Hn1 Hu) | exact Hv].
  - rewrite map_length. exact LEN1.
  - rewrite map_length. exact QD1.
  - intros k.
    pose proof (fold_set_find (fun i u => (start <=? i)%nat || (v <=? u)%nat) (map (shift v) vars1) 0
                  (fold_left (fun m u => if (v <? u)%nat then idx_erase u m else m) vars1 idx1) k ND2) as Hf.
    cbn beta in Hf. rewrite Hf. clear Hf. cbn [plus].
    rewrite (index_of_map_shift v vars1 k Hn1).
    rewrite fold_erase_find, IDX1.
    destruct (index_of (unshift v k) vars1) as [j|] eqn:F.
    + destruct ((start <=? j)%nat || (v <=? k)%nat) eqn:C; [reflexivity|].
      apply orb_false_iff in C. destruct C as [C1 C2]. apply Nat.leb_gt in C1. apply Nat.leb_gt in C2.
      assert (U : unshift v k = k) by (unfold unshift; destruct (Nat.ltb_spec k v); [reflexivity|lia]).
      rewrite U in F.
      assert (E1 : (v <? k)%nat = false) by (apply Nat.ltb_ge; lia). rewrite E1. cbn [andb].
      assert (E2 : (k =? v)%nat = false) by (apply Nat.eqb_neq; lia). rewrite E2.
      rewrite (POS k) in F by lia.
      destruct (index_of k (e_vars e)) as [j0|] eqn:G; cbn [option_map] in F; [|discriminate].
      injection F as F. f_equal. unfold posfix in F. destruct (Nat.ltb_spec j0 start); [exact F|].
      (* j0 >= start: then pred j0 = j < start forces j0 = start, the position of v itself *)
      exfalso. assert (j0 = start) by lia. subst j0.
      unfold p, pre_reindex in Hp. rewrite (IDX v) in Hp.
      destruct (index_of v (e_vars e)) as [i|] eqn:Fv.
      * injection Hp as Hs _. subst i. apply index_of_nth in G. apply index_of_nth in Fv. assert (k = v) by congruence. lia.
      * injection Hp as Hs _. apply index_of_lt in G. lia.
    + destruct (Nat.eqb_spec k v) as [->|Hkv].
      * rewrite Nat.ltb_irrefl. reflexivity.
      * destruct (Nat.ltb_spec v k) as [Hlt|Hge]; cbn [andb].
        -- destruct (existsb (Nat.eqb k) vars1) eqn:X; [reflexivity|].
           assert (Hnk : ~ In k vars1).
           { intros H. apply existsb_eqb_In in H. congruence. }
           apply index_of_None in Hnk. rewrite (POS k Hkv) in Hnk.
           destruct (index_of k (e_vars e)); [discriminate|reflexivity].
        -- assert (U : unshift v k = k) by (unfold unshift; destruct (Nat.ltb_spec k v); [reflexivity|lia]).
           rewrite U, (POS k Hkv) in F. destruct (index_of k (e_vars e)); [discriminate|reflexivity].
Qed.

(* ---------- "no expression gains, loses or swaps a term of another variable" ---------- *)
From Dimod Require Import Proofs.PolyFacts.
Local Open Scope nat_scope.

Lemma eqb_shift : forall v a u, a <> v -> u <> v -> (shift v a =? shift v u)%nat = (a =? u)%nat.
Proof.
  intros v a u Ha Hu. destruct (Nat.eqb_spec a u) as [->|Hne]; [apply Nat.eqb_refl|].
  apply Nat.eqb_neq. intros E. apply Hne. exact (shift_inj v a u Ha Hu E).
Qed.

Lemma lin_coeff_relabel_shift : forall v (l : list lterm) u,
  (forall t, In t l -> fst t <> v) -> u <> v ->
  lin_coeff (map (fun t : lterm => (shift v (fst t), snd t)) l) (shift v u) = lin_coeff l u.
Proof.
  intros v l u Hl Hu. unfold lin_coeff. induction l as [|t r IH]; [reflexivity|].
  cbn [map filter fst]. rewrite (eqb_shift v (fst t) u (Hl t (or_introl eq_refl)) Hu).
  destruct (fst t =? u)%nat; cbn [map qsum snd]; rewrite IH; try reflexivity;
    intros t' Ht'; apply Hl; right; exact Ht'.
Qed.

Lemma same_pair_shift : forall v x y a b, x <> v -> y <> v -> a <> v -> b <> v ->
  same_pair (shift v x) (shift v y) (shift v a) (shift v b) = same_pair x y a b.
Proof.
  intros v x y a b Hx Hy Ha Hb. unfold same_pair.
  rewrite (eqb_shift v x a Hx Ha), (eqb_shift v y b Hy Hb), (eqb_shift v x b Hx Hb), (eqb_shift v y a Hy Ha).
  reflexivity.
Qed.

Lemma quad_coeff_relabel_shift : forall v (l : list qterm) x y,
  (forall t, In t l -> fst (fst t) <> v /\ snd (fst t) <> v) -> x <> v -> y <> v ->
  quad_coeff (map (fun t : qterm => (shift v (fst (fst t)), shift v (snd (fst t)), snd t)) l) (shift v x) (shift v y)
  = quad_coeff l x y.
Proof.
  intros v l x y Hl Hx Hy. unfold quad_coeff. induction l as [|t r IH]; [reflexivity|].
  cbn [map filter fst snd]. destruct (Hl t (or_introl eq_refl)) as [Ha Hb].
  rewrite (same_pair_shift v x y _ _ Hx Hy Ha Hb).
  destruct (same_pair x y (fst (fst t)) (snd (fst t))); cbn [map qsum snd]; rewrite IH; try reflexivity;
    intros t' Ht'; apply Hl; right; exact Ht'.
Qed.

Theorem reindex_keeps_other_linear : forall n e v u, ExprInv n e -> u <> v ->
  lin_coeff (p_lin (abs_expr (m_reindex v e))) (shift v u) = lin_coeff (p_lin (abs_expr e)) u.
Proof.
  intros n e v u I Hu. rewrite (reindex_abs n e v I). unfold relabel. cbn [p_lin].
  rewrite lin_coeff_relabel_shift; [|apply remove_variable_no_mention_lin|exact Hu].
  unfold remove_variable. cbn [p_lin]. apply lin_coeff_remove_other. exact Hu.
Qed.

Theorem reindex_keeps_other_quadratic : forall n e v x y, ExprInv n e -> x <> v -> y <> v ->
  quad_coeff (p_quad (abs_expr (m_reindex v e))) (shift v x) (shift v y) = quad_coeff (p_quad (abs_expr e)) x y.
Proof.
  intros n e v x y I Hx Hy. rewrite (reindex_abs n e v I). unfold relabel. cbn [p_quad].
  rewrite quad_coeff_relabel_shift; [|apply remove_variable_no_mention_quad|exact Hx|exact Hy].
  unfold remove_variable. cbn [p_quad]. apply quad_coeff_remove_other; assumption.
Qed.

Theorem reindex_offset : forall n e v, ExprInv n e -> p_off (abs_expr (m_reindex v e)) = p_off (abs_expr e).
Proof. intros n e v I. rewrite (reindex_abs n e v I). reflexivity. Qed.

(* the removed variable is gone: nothing in the result refers to an index it does not have *)
Theorem reindex_forgets : forall n e v, ExprInv n e -> v < n ->
  Forall (fun u => u < pred n) (e_vars (m_reindex v e)).
Proof. intros n e v I Hv. exact (inv_lt _ _ (reindex_inv n e v I Hv)). Qed.

(* ---------- the constrained model ---------- *)
Definition CqmInv (q : mcqm) : Prop :=
  ExprInv (length (m_info q)) (m_obj q) /\ Forall (fun k => ExprInv (length (m_info q)) (mc_e k)) (m_cons q).

Lemma nth_error_remove_nth : forall {A} (l : list A) v u, u <> v ->
  nth_error (remove_nth v l) (shift v u) = nth_error l u.
Proof.
  intros A l. induction l as [|x r IH]; intros v u Hne.
  - destruct v; cbn [remove_nth]; destruct (shift _ u), u; reflexivity.
  - destruct v as [|j]; cbn [remove_nth].
    + destruct u as [|u']; [congruence|]. reflexivity.
    + destruct u as [|u']; [reflexivity|].
      assert (Hs : shift (S j) (S u') = S (shift j u')).
      { unfold shift. destruct (Nat.ltb_spec j u'); destruct (Nat.ltb_spec (S j) (S u')); lia. }
      rewrite Hs. cbn [nth_error]. apply IH. congruence.
Qed.

Theorem remove_then_reindex_all : forall q v, CqmInv q -> v < length (m_info q) ->
  let q' := cqm_remove_variable v q in
  CqmInv q'
  /\ abs_expr (m_obj q') = relabel (shift v) (remove_variable v (abs_expr (m_obj q)))
  /\ map (fun k => abs_expr (mc_e k)) (m_cons q')
     = map (fun k => relabel (shift v) (remove_variable v (abs_expr (mc_e k)))) (m_cons q)
  /\ map (fun k => (mc_sense k, mc_rhs k, mc_weight k, mc_pen k, mc_mark k)) (m_cons q')
     = map (fun k => (mc_sense k, mc_rhs k, mc_weight k, mc_pen k, mc_mark k)) (m_cons q)
  /\ (forall u, u <> v -> nth_error (m_info q') (shift v u) = nth_error (m_info q) u).
Proof.
  intros q v [Io Ic] Hv q'. unfold q', cqm_remove_variable. cbn [m_info m_obj m_cons].
  assert (Hl : length (remove_nth v (m_info q)) = pred (length (m_info q))) by (apply remove_nth_length; exact Hv).
  split; [|split; [|split; [|split]]].
  - split; cbn [m_info m_obj m_cons]; rewrite Hl.
    + apply reindex_inv; assumption.
    + rewrite Forall_forall in *. intros k Hk. apply in_map_iff in Hk. destruct Hk as [k0 [<- Hk0]].
      cbn [mc_e mc_set_e]. apply reindex_inv; [apply Ic; exact Hk0|exact Hv].
  - eapply reindex_abs. exact Io.
  - rewrite map_map. apply map_ext_in. intros k Hk. cbn [mc_e mc_set_e].
    rewrite Forall_forall in Ic. eapply reindex_abs. apply Ic. exact Hk.
  - rewrite map_map. apply map_ext. intros k. reflexivity.
  - intros u Hu. apply nth_error_remove_nth. exact Hu.
Qed.

(* edits through one constraint's view leave everything else alone *)
Lemma nth_error_upd_nth_other : forall {A} (f : A -> A) (l : list A) c c', c' <> c ->
  nth_error (upd_nth c f l) c' = nth_error l c'.
Proof.
  intros A f l. induction l as [|x r IH]; intros c c' Hne; [destruct c; reflexivity|].
  destruct c as [|c0]; destruct c' as [|c1]; cbn [upd_nth nth_error]; try reflexivity; try congruence.
  apply IH. congruence.
Qed.

Lemma nth_error_upd_nth_same : forall {A} (f : A -> A) (l : list A) c,
  nth_error (upd_nth c f l) c = option_map f (nth_error l c).
Proof.
  intros A f l. induction l as [|x r IH]; intros c; [destruct c; reflexivity|].
  destruct c as [|c0]; cbn [upd_nth nth_error option_map]; [reflexivity|apply IH].
Qed.

Theorem edit_con_frame : forall q c f,
  let q' := cqm_edit_con c f q in
  m_info q' = m_info q /\ m_obj q' = m_obj q
  /\ (forall c', c' <> c -> nth_error (m_cons q') c' = nth_error (m_cons q) c')
  /\ nth_error (m_cons q') c = option_map (fun k => mc_set_e k (f (mc_e k))) (nth_error (m_cons q) c).
Proof.
  intros q c f q'. unfold q', cqm_edit_con. cbn [m_info m_obj m_cons].
  split; [reflexivity|]. split; [reflexivity|]. split.
  - intros c' Hne. apply nth_error_upd_nth_other. exact Hne.
  - apply nth_error_upd_nth_same.
Qed.

Theorem edit_obj_frame : forall q f,
  m_info (cqm_edit_obj f q) = m_info q /\ m_cons (cqm_edit_obj f q) = m_cons q.
Proof. intros q f. split; reflexivity. Qed.

(* the moved-in constraint: variables_ is the mapping, indices_ its inverse *)
Lemma rebuild_idx_inv : forall vars, NoDup vars -> IdxInv vars (rebuild_idx vars).
Proof.
  intros vars ND k. unfold rebuild_idx.
  pose proof (fold_set_find (fun _ _ => true) vars 0 [] k ND) as Hf. cbn beta iota in Hf.
  rewrite Hf. cbn [idx_find plus]. destruct (index_of k vars); reflexivity.
Qed.

Theorem move_inv : forall n lin quad off mapping,
  NoDup mapping -> Forall (fun u => u < n) mapping -> length lin = length mapping ->
  Forall (fun t : lqterm => fst (fst t) < length mapping /\ snd (fst t) < length mapping) quad ->
  ExprInv n (expr_from_move lin quad off mapping).
Proof.
  intros n lin quad off mapping ND LT LEN QD. unfold expr_from_move, m_relabel.
  constructor; cbn [e_vars e_idx e_lin e_quad]; try assumption. apply rebuild_idx_inv. exact ND.
Qed.

(* after the move the source is the empty model (QuadraticModelBase move + clear()) *)
Definition move_source (lin : list Qc) (quad : list lqterm) (off : Qc) (mapping : list nat) : mexpr * mexpr :=
  (expr_from_move lin quad off mapping, e_empty).

Theorem move_then_clear_leaves_empty_source : forall lin quad off mapping,
  snd (move_source lin quad off mapping) = e_empty
  /\ abs_expr (fst (move_source lin quad off mapping))
     = mkPoly off (combine mapping lin) (map (to_model mapping) quad).
Proof. intros. split; reflexivity. Qed.
