From Coq Require Import List ZArith QArith Qcanon Bool Arith Lia.
From Dimod Require Import Base.Util Model.Poly Model.Samples Proofs.PolyFacts.
Import ListNotations.
Open Scope Qc_scope.

Lemma idx_of_lt v ls : In v ls -> (idx_of v ls < length ls)%nat.
Proof.
  induction ls as [|x r IH]; cbn [idx_of In length]; [tauto|].
  intros [->|H]; [rewrite Nat.eqb_refl; lia|].
  destruct (x =? v)%nat; [lia|]. specialize (IH H). lia.
Qed.

Lemma nth_idx_of v ls d : In v ls -> nth (idx_of v ls) ls d = v.
Proof.
  induction ls as [|x r IH]; cbn [idx_of In]; [tauto|].
  destruct (Nat.eqb_spec x v) as [->|Hne]; [reflexivity|].
  intros [H|H]; [contradiction|]. cbn [nth]. apply IH; assumption.
Qed.

(* C01/C14: the re-ordered row gives every label of the first row's order the
   value the original row gave it - for ANY permutation of the key order *)
Theorem reindex_row_value first ls row v :
  In v first -> row_value first (reindex_row first ls row) v = row_value ls row v.
Proof.
  intros Hin. unfold row_value, reindex_row.
  set (f := fun v0 : nat => nth (idx_of v0 ls) row 0).
  rewrite (nth_indep (map f first) 0 (f 0%nat)) by (rewrite map_length; apply idx_of_lt; assumption).
  rewrite map_nth. rewrite nth_idx_of by assumption. reflexivity.
Qed.

Definition mentions_only (p : poly) (vars : list label) : Prop :=
  (forall t, In t (p_lin p) -> In (fst t) vars) /\
  (forall t, In t (p_quad p) -> In (fst (fst t)) vars /\ In (snd (fst t)) vars).

(* the energy depends only on the values of the model's own variables: extra
   columns and the order of columns are irrelevant *)
Theorem energy_depends_on_vars p vars s s' :
  mentions_only p vars -> (forall v, In v vars -> s v = s' v) -> energy p s = energy p s'.
Proof.
  intros [HL HQ] Hs. unfold energy. f_equal; [f_equal|].
  - unfold lin_energy. f_equal. apply map_ext_in. intros t Ht. unfold lterm_val.
    rewrite (Hs _ (HL _ Ht)). reflexivity.
  - unfold quad_energy. f_equal. apply map_ext_in. intros t Ht. unfold qterm_val.
    destruct (HQ _ Ht) as [H1 H2]. rewrite (Hs _ H1), (Hs _ H2). reflexivity.
Qed.

Corollary energy_reindexed_row p first ls row :
  mentions_only p first ->
  energy p (row_sample first (reindex_row first ls row)) = energy p (row_sample ls row).
Proof.
  intros Hm. apply (energy_depends_on_vars p first); [assumption|].
  intros v Hv. unfold row_sample. apply reindex_row_value. assumption.
Qed.

Lemma forallb_false_ex {A} (f : A -> bool) l :
  forallb f l = false -> exists x, In x l /\ f x = false.
Proof.
  induction l as [|x r IH]; cbn [forallb]; [discriminate|].
  destruct (f x) eqn:E; cbn [andb].
  - intros H. destruct (IH H) as [y [Hy Fy]]. exists y. split; [right; assumption|assumption].
  - intros _. exists x. split; [left; reflexivity|assumption].
Qed.

Lemma covers_spec ls vars : covers ls vars = true <-> forall v, In v vars -> In v ls.
Proof.
  unfold covers. rewrite forallb_forall. split; intros H v Hv.
  - apply H in Hv. apply existsb_exists in Hv. destruct Hv as [x [Hx E]].
    apply Nat.eqb_eq in E. subst. assumption.
  - apply existsb_exists. exists v. split; [auto|apply Nat.eqb_refl].
Qed.

(* a sample that omits a model variable is rejected, and only such a sample *)
Theorem energies_rejects_iff p vars ls rows :
  energies p vars ls rows = None <-> exists v, In v vars /\ ~ In v ls.
Proof.
  unfold energies. destruct (covers ls vars) eqn:E.
  - split; [discriminate|]. intros [v [Hv Hn]]. apply covers_spec with (v := v) in E; tauto.
  - split; [|reflexivity]. intros _.
    unfold covers in E. apply forallb_false_ex in E. destruct E as [v [Hv Hf]].
    exists v. split; [assumption|]. intros Hin.
    assert (existsb (Nat.eqb v) ls = true) as Ht; [|congruence].
    apply existsb_exists. exists v. split; [assumption|apply Nat.eqb_refl].
Qed.

Theorem energies_value p vars ls rows es :
  energies p vars ls rows = Some es -> es = map (fun row => energy p (row_sample ls row)) rows.
Proof. unfold energies. destruct (covers ls vars); [intros H; inversion H; reflexivity|discriminate]. Qed.

(* a variable-free expression evaluates to its offset *)
Theorem energy_constant c s : energy (mkPoly c [] []) s = c.
Proof. unfold energy, lin_energy, quad_energy; cbn [p_off p_lin p_quad map qsum]. ring. Qed.

(* DQM: a case outside [0, num_cases) for some variable is rejected *)
Theorem dqm_rejects_bad_case p stride ncases row v n c :
  In (v, n) ncases -> find (fun vc => (fst vc =? v)%nat) row = Some (v, c) ->
  (c < 0 \/ Z.of_nat n <= c)%Z -> dqm_energy p stride ncases row = None.
Proof.
  intros Hin Hf Hc. unfold dqm_energy.
  assert (dqm_case_ok ncases row = false) as ->; [|reflexivity].
  apply not_true_iff_false. intros H. unfold dqm_case_ok in H. rewrite forallb_forall in H.
  specialize (H _ Hin). cbn [fst snd] in H. rewrite Hf in H. cbn [snd] in H.
  apply andb_prop in H. destruct H as [H1 H2].
  apply Z.leb_le in H1. apply Z.ltb_lt in H2. lia.
Qed.

Theorem dqm_energy_value p stride ncases row e :
  dqm_energy p stride ncases row = Some e -> e = energy p (dqm_sample stride row).
Proof. unfold dqm_energy. destruct (dqm_case_ok ncases row); [intros H; inversion H; reflexivity|discriminate]. Qed.
