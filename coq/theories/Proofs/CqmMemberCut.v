(* C10 for the members of a version-1.x CQM archive: a member (a whole QM or BQM file) cut at any byte offset is
   rejected by fileview.load's dispatch + decoder, or decodes to the same expression (only padding lost). *)
From Coq Require Import List NArith ZArith Arith Bool Lia String.
From Dimod Require Import Base.Util Gen.Gen_Codec Model.Codec Model.CodecEq Model.CqmFile Proofs.CodecBase Proofs.CodecFrame
  Proofs.CodecBqm Proofs.CodecBqmTop Proofs.CodecLabel Proofs.CodecJson Proofs.CodecBqmFull Proofs.CodecQm Proofs.CodecExpr
  Proofs.CqmFileFacts Proofs.CqmArchive.
Import ListNotations.
Open Scope nat_scope.
Notation length := List.length (only parsing).

Theorem qm_decode_any_prefix_safe : forall f k, QmWF f -> k < length (qm_encode f) ->
  run qm_decode_any (firstn k (qm_encode f)) = Err \/ run qm_decode_any (firstn k (qm_encode f)) = Ok f.
Proof.
  intros f k W Hk.
  assert (G : goodp qm_decode_any (qm_encode f) f).
  { unfold qm_decode_any. apply qm_goodp_with; [exact W| |].
    - intros ws Hws. unfold json_doc. rewrite (p_qm_json_any_rt (qm_hdr f) ws). now rewrite Hws.
    - intros j Hj. unfold json_doc. now rewrite (p_qm_json_any_strict (qm_hdr f) j Hj). }
  destruct (goodp_safe _ _ _ G) as [_ P]. unfold run. destruct (P k Hk) as [E|E]; rewrite E; [now left|now right].
Qed.

(* a cut BQM file never dispatches to the QM loader *)
Lemma bqm_prefix_not_qm : forall k r, starts_with QM_PREFIX (firstn k (BQM_PREFIX ++ r)) = false.
Proof. intros k r. do 8 (destruct k as [|k]; [reflexivity|]). reflexivity. Qed.

Theorem member_decode_prefix_safe : forall m k, MemberWF m -> k < length (member_encode m) ->
  member_decode (firstn k (member_encode m)) = Err \/ member_decode (firstn k (member_encode m)) = Ok (member_nexpr m).
Proof.
  intros [f|f] k W Hk; cbn [MemberWF member_encode member_nexpr] in *; unfold member_decode.
  - destruct (starts_with QM_PREFIX (firstn k (qm_encode f))).
    + destruct (qm_decode_any_prefix_safe f k W Hk) as [E|E]; rewrite E; [now left|now right].
    + destruct (starts_with BQM_PREFIX (firstn k (qm_encode f))) eqn:B; [|now left].
      (* a cut QM file never looks like a BQM file *)
      exfalso. destruct (qm_encode_prefix f) as [r E]. rewrite E in B.
      assert (X : forall j, starts_with BQM_PREFIX (firstn j (QM_PREFIX ++ r)) = false).
      { intros j. do 8 (destruct j as [|j]; [reflexivity|]). reflexivity. }
      rewrite X in B. discriminate.
  - assert (Q : starts_with QM_PREFIX (firstn k (bqm_encode f)) = false).
    { destruct (bqm_encode_prefix f) as [r E]. rewrite E. apply bqm_prefix_not_qm. }
    rewrite !Q.
    destruct (starts_with BQM_PREFIX (firstn k (bqm_encode f))); [|now left].
    destruct (bqm_decode_prefix_safe_full f k W Hk) as [X|X]; rewrite X; [now left|now right].
Qed.
