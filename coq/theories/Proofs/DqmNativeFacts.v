(* Facts about Model/DqmNative.v (the native state of cyDiscreteQuadraticModel).

   PROVED (no axioms, no admits; every main theorem prints "Closed under the global context"):
   1. lb_has_In, In_lb_ins, lb_ins_sorted            lower_bound search / insert on sorted vectors
   2. AdjWf, adj_wf_b_iff                            readable form of adj_wf_b
   3. track_length, track_frame, track_links, track_wf, and the Example
      track_wrong_bound_breaks (inserting u into adj[v] at lower_bound(adj[v], v) breaks adj_wf_b
      after track_bad 0 1; track_bad 2 0 on three variables, the real track does not)
   4. DInv_iff (readable form DInvP of dinv_b, all eight conjuncts) and
      dstep_preserves_DInv : the WHOLE invariant, conjunct (d) "every case interaction joins two
      different variables that list each other" included, is preserved by DAddVar, DSetLinCase,
      DSetLin, DSetQuadCase, DSetQuadMap, DSetQuadDense, DSetOffset, DCopy (simple_op).
      Nothing here is partial: no _partial theorem was needed.
   5. fix_walk_spec / fix_walk_union / fix_walk_sorted (the merge walk with the fuel used by
      fix_adjacency computes the sorted union), fix_adjacency_length, fix_adjacency_rows,
      fix_adjacency_wf.
   6. (extra) dstep_eqcon_preserves_DInv : DEqCon preserves the whole invariant;
      dstep_preserves_DInv_all_but_round_trip; DInv_empty; DInv_reachable (every history of
      accepted operations without DRoundTrip, from d_empty, satisfies DInv).

   NOT PROVED: DRoundTrip (_from_numpy_vectors(to_numpy_vectors)) is not covered. *)
From Coq Require Import List ZArith QArith Qcanon Bool Arith Lia Sorted.
From Dimod Require Import Base.Util Model.Poly Model.Adj Model.AdjMore Model.DqmNative Proofs.AdjNb Proofs.AdjInv.
Import ListNotations.
Local Open Scope nat_scope.

(* ================= 1. lower bound search and insert ================= *)
Lemma sorted_nat_iff l : sorted_nat l = true <-> StronglySorted lt l.
Proof.
  induction l as [|x r IH].
  - split; [constructor|reflexivity].
  - destruct r as [|y r'].
    + split; [intros _; constructor; constructor|reflexivity].
    + change (sorted_nat (x :: y :: r')) with ((x <? y) && sorted_nat (y :: r')).
      rewrite andb_true_iff, Nat.ltb_lt, IH. split.
      * intros [Hxy HS]. constructor; [exact HS|].
        constructor; [exact Hxy|]. apply StronglySorted_inv in HS. destruct HS as [_ HF].
        eapply Forall_impl; [|exact HF]. intros a Ha. lia.
      * intros HS. apply StronglySorted_inv in HS. destruct HS as [HS HF].
        split; [|exact HS]. inversion HF; assumption.
Qed.

Lemma sorted_cons x r :
  sorted_nat (x :: r) = true <-> sorted_nat r = true /\ (forall y, In y r -> x < y).
Proof.
  rewrite !sorted_nat_iff. split.
  - intros HS. apply StronglySorted_inv in HS. destruct HS as [HS HF].
    split; [exact HS|]. apply Forall_forall. exact HF.
  - intros [HS HF]. constructor; [exact HS|]. apply Forall_forall. exact HF.
Qed.

Theorem lb_has_In : forall x l, sorted_nat l = true -> (lb_has x l = true <-> In x l).
Proof.
  intros x l. induction l as [|y r IH]; intros HS.
  - cbn [lb_has In]. split; [discriminate|tauto].
  - apply sorted_cons in HS. destruct HS as [HS HA]. cbn [lb_has In].
    destruct (Nat.ltb_spec y x) as [L|L].
    + rewrite (IH HS). split; [tauto|]. intros [E|H]; [lia|exact H].
    + rewrite Nat.eqb_eq. split; [tauto|]. intros [E|H]; [exact E|]. apply HA in H. lia.
Qed.

Theorem In_lb_ins : forall x y l, In y (lb_ins x l) <-> y = x \/ In y l.
Proof.
  intros x y l. induction l as [|z r IH]; cbn [lb_ins].
  - cbn [In]. split; intros [H|H]; auto; contradiction.
  - destruct (z <? x); cbn [In].
    + rewrite IH. tauto.
    + split; [intros [H|H]; auto|intros [H|H]; auto].
Qed.

Theorem lb_ins_sorted : forall x l,
  sorted_nat l = true -> lb_has x l = false -> sorted_nat (lb_ins x l) = true.
Proof.
  intros x l. induction l as [|y r IH]; intros HS HN.
  - reflexivity.
  - cbn [lb_has] in HN. cbn [lb_ins]. pose proof HS as HS0.
    apply sorted_cons in HS. destruct HS as [HS HA].
    destruct (Nat.ltb_spec y x) as [L|L].
    + apply sorted_cons. split; [apply IH; assumption|]. intros z Hz.
      apply In_lb_ins in Hz. destruct Hz as [->|Hz]; [exact L|apply HA, Hz].
    + apply Nat.eqb_neq in HN. apply sorted_cons. split; [exact HS0|].
      intros z [<-|Hz]; [lia|]. apply HA in Hz. lia.
Qed.

Lemma lb_has_false_In x l : sorted_nat l = true -> (lb_has x l = false <-> ~ In x l).
Proof.
  intros HS. rewrite <- (lb_has_In x l HS). destruct (lb_has x l); split; congruence.
Qed.

(* ================= 2. the adjacency invariant, readable ================= *)
Definition AdjWf (a : list (list nat)) : Prop :=
  forall u, u < length a ->
    sorted_nat (nth u a []) = true /\
    forall v, In v (nth u a []) -> v < length a /\ v <> u /\ In u (nth v a []).

Lemma forallb_combine_seq {A} (f : nat * A -> bool) (l : list A) (d : A) : forall s,
  forallb f (combine (seq s (length l)) l) = true <->
  forall i, i < length l -> f (s + i, nth i l d) = true.
Proof.
  induction l as [|x r IH]; intros s.
  - cbn [length seq combine forallb]. split; [intros _ i Hi; lia|reflexivity].
  - cbn [length seq combine forallb]. rewrite andb_true_iff, IH. split.
    + intros [H0 H1] i Hi. destruct i as [|i].
      * rewrite Nat.add_0_r. exact H0.
      * cbn [nth]. replace (s + S i) with (S s + i) by lia. apply H1. lia.
    + intros H. split.
      * specialize (H 0 (Nat.lt_0_succ _)). rewrite Nat.add_0_r in H. exact H.
      * intros i Hi. specialize (H (S i)). cbn [nth] in H.
        replace (s + S i) with (S s + i) in H by lia. apply H. lia.
Qed.

Theorem adj_wf_b_iff : forall a, adj_wf_b a = true <-> AdjWf a.
Proof.
  intros a. unfold adj_wf_b. rewrite (forallb_combine_seq _ a [] 0). unfold AdjWf. split.
  - intros H u Hu. pose proof (H u Hu) as Hu'. cbn [fst snd Nat.add] in Hu'.
    apply andb_true_iff in Hu'. destruct Hu' as [HS HF]. split; [exact HS|].
    intros v Hv. rewrite forallb_forall in HF. specialize (HF v Hv).
    rewrite !andb_true_iff, Nat.ltb_lt, negb_true_iff, Nat.eqb_neq in HF.
    destruct HF as [[Hlt Hne] Hhas]. split; [exact Hlt|]. split; [exact Hne|].
    specialize (H v Hlt). cbn [fst snd Nat.add] in H. apply andb_true_iff in H.
    apply (lb_has_In u _ (proj1 H)). exact Hhas.
  - intros H u Hu. cbn [fst snd Nat.add]. destruct (H u Hu) as [HS HF].
    apply andb_true_iff. split; [exact HS|]. apply forallb_forall. intros v Hv.
    destruct (HF v Hv) as [Hlt [Hne Hin]].
    rewrite !andb_true_iff, Nat.ltb_lt, negb_true_iff, Nat.eqb_neq.
    split; [split; assumption|]. apply lb_has_In; [apply (H v Hlt)|exact Hin].
Qed.

Lemma AdjWf_sorted a u : AdjWf a -> sorted_nat (nth u a []) = true.
Proof.
  intros HW. destruct (Nat.lt_ge_cases u (length a)) as [L|L]; [apply (HW u L)|].
  rewrite nth_overflow by exact L. reflexivity.
Qed.

Lemma AdjWf_In a u v : AdjWf a -> In v (nth u a []) -> u < length a /\ v < length a /\ v <> u /\ In u (nth v a []).
Proof.
  intros HW Hin. destruct (Nat.lt_ge_cases u (length a)) as [L|L].
  - split; [exact L|]. apply (HW u L), Hin.
  - rewrite nth_overflow in Hin by exact L. contradiction.
Qed.

(* ================= 3. track ================= *)
Theorem track_length : forall u v a, length (track u v a) = length a.
Proof.
  intros u v a. unfold track. destruct (lb_has v (nth u a [])); [reflexivity|].
  rewrite !upd_nth_length. reflexivity.
Qed.

Lemma nth_track u v (a : list (list nat)) w :
  u <> v -> u < length a -> v < length a ->
  nth w (track u v a) [] =
  if lb_has v (nth u a []) then nth w a []
  else if w =? v then lb_ins u (nth v a [])
       else if w =? u then lb_ins v (nth u a []) else nth w a [].
Proof.
  intros Hne Hu Hv. unfold track. destruct (lb_has v (nth u a [])); [reflexivity|].
  destruct (Nat.eqb_spec w v) as [->|Nv].
  - rewrite nth_upd_nth_same by (rewrite upd_nth_length; exact Hv).
    rewrite nth_upd_nth_other by congruence. reflexivity.
  - rewrite nth_upd_nth_other by exact Nv. destruct (Nat.eqb_spec w u) as [->|Nu].
    + apply nth_upd_nth_same. exact Hu.
    + apply nth_upd_nth_other. exact Nu.
Qed.

Theorem track_frame : forall u v a w x,
  AdjWf a -> u < length a -> v < length a -> u <> v ->
  (In x (nth w (track u v a) []) <-> In x (nth w a []) \/ (w = u /\ x = v) \/ (w = v /\ x = u)).
Proof.
  intros u v a w x HW Hu Hv Hne. rewrite nth_track by assumption.
  destruct (lb_has v (nth u a [])) eqn:E.
  - apply (lb_has_In v _ (AdjWf_sorted a u HW)) in E.
    pose proof (AdjWf_In a u v HW E) as [_ [_ [_ E2]]].
    split; [tauto|]. intros [H|[[-> ->]|[-> ->]]]; assumption.
  - destruct (Nat.eqb_spec w v) as [->|Nv].
    + rewrite In_lb_ins. split.
      * intros [->|H]; [right; right; split; reflexivity|left; exact H].
      * intros [H|[[E1 E2]|[_ E2]]]; [right; exact H|congruence|left; exact E2].
    + destruct (Nat.eqb_spec w u) as [->|Nu].
      * rewrite In_lb_ins. split.
        -- intros [->|H]; [right; left; split; reflexivity|left; exact H].
        -- intros [H|[[_ E2]|[E1 _]]]; [right; exact H|left; exact E2|congruence].
      * split; [tauto|]. intros [H|[[E1 _]|[E1 _]]]; [exact H|congruence|congruence].
Qed.

Theorem track_links : forall u v a,
  AdjWf a -> u < length a -> v < length a -> u <> v ->
  In v (nth u (track u v a) []) /\ In u (nth v (track u v a) []).
Proof.
  intros u v a HW Hu Hv Hne. split; apply track_frame; try assumption.
  - right. left. split; reflexivity.
  - right. right. split; reflexivity.
Qed.

Theorem track_wf : forall u v a,
  AdjWf a -> u < length a -> v < length a -> u <> v -> AdjWf (track u v a).
Proof.
  intros u v a HW Hu Hv Hne w Hw. rewrite track_length in Hw. split.
  - rewrite nth_track by assumption. destruct (lb_has v (nth u a [])) eqn:E.
    + apply AdjWf_sorted, HW.
    + destruct (w =? v).
      * apply lb_ins_sorted; [apply AdjWf_sorted, HW|].
        apply lb_has_false_In; [apply AdjWf_sorted, HW|]. intros Hin.
        apply (AdjWf_In a v u HW) in Hin. destruct Hin as [_ [_ [_ Hin]]].
        apply (lb_has_In v _ (AdjWf_sorted a u HW)) in Hin. congruence.
      * destruct (w =? u); [|apply AdjWf_sorted, HW].
        apply lb_ins_sorted; [apply AdjWf_sorted, HW|exact E].
  - intros x Hx. rewrite track_length. rewrite track_frame in Hx by assumption.
    rewrite (track_frame u v a x w) by assumption.
    destruct Hx as [Hx|[[-> ->]|[-> ->]]].
    + destruct (AdjWf_In a w x HW Hx) as [_ [H1 [H2 H3]]]. tauto.
    + split; [exact Hv|]. split; [congruence|]. right. right. split; reflexivity.
    + split; [exact Hu|]. split; [congruence|]. right. left. split; reflexivity.
Qed.

(* the wrong bound: u inserted into adj[v] at lower_bound(adj[v], v) instead of lower_bound(adj[v], u) *)
Fixpoint lb_ins_at (key x : nat) (l : list nat) : list nat :=
  match l with
  | [] => [x]
  | y :: r => if y <? key then y :: lb_ins_at key x r else x :: l
  end.

Definition track_bad (u v : nat) (a : list (list nat)) : list (list nat) :=
  if lb_has v (nth u a []) then a
  else upd_nth v (lb_ins_at v u) (upd_nth u (lb_ins v) a).

Example track_wrong_bound_breaks :
  adj_wf_b (track_bad 2 0 (track_bad 0 1 [[]; []; []])) = false
  /\ track_bad 2 0 (track_bad 0 1 [[]; []; []]) = [[2; 1]; [0]; [0]]
  /\ adj_wf_b (track 2 0 (track 0 1 [[]; []; []])) = true.
Proof. vm_compute. repeat split; reflexivity. Qed.

(* ================= 4. the whole invariant ================= *)
Lemma starts_ok_eq l : starts_ok l = sorted_nat l.
Proof. reflexivity. Qed.

Lemma SS_nth_lt l : StronglySorted lt l ->
  forall i j, i < j -> j < length l -> nth i l 0 < nth j l 0.
Proof.
  induction 1 as [|a l HS IH HF]; intros i j Hij Hj.
  - cbn [length] in Hj. lia.
  - destruct j as [|j]; [lia|]. cbn [length] in Hj. destruct i as [|i]; cbn [nth].
    + rewrite Forall_forall in HF. apply HF. apply nth_In. lia.
    + apply IH; lia.
Qed.

Lemma last_nth_nat (l : list nat) : last l 0 = nth (length l - 1) l 0.
Proof.
  induction l as [|x r IH]; [reflexivity|].
  destruct r as [|y r']; [reflexivity|].
  change (last (x :: y :: r') 0) with (last (y :: r') 0). rewrite IH.
  cbn [length]. replace (S (S (length r')) - 1) with (S (length r')) by lia.
  replace (S (length r') - 1) with (length r') by lia. reflexivity.
Qed.

Lemma var_of_from_spec r : forall e0 k u ci,
  starts_ok (e0 :: r) = true -> u < length r ->
  nth u (e0 :: r) 0 <= ci -> ci < nth (S u) (e0 :: r) 0 -> var_of_from r k ci = k + u.
Proof.
  induction r as [|e1 r' IH]; intros e0 k u ci HS Hu Hlo Hhi.
  - cbn [length] in Hu. lia.
  - cbn [var_of_from]. rewrite starts_ok_eq in HS. apply sorted_cons in HS.
    destruct HS as [HS HA]. destruct u as [|u'].
    + cbn [nth] in Hlo, Hhi. destruct (Nat.leb_spec e1 ci); lia.
    + change (nth (S u') (e0 :: e1 :: r') 0) with (nth u' (e1 :: r') 0) in Hlo.
      change (nth (S (S u')) (e0 :: e1 :: r') 0) with (nth (S u') (e1 :: r') 0) in Hhi.
      cbn [length] in Hu.
      assert (He1 : e1 <= nth u' (e1 :: r') 0).
      { destruct u' as [|u'']; [cbn [nth]; lia|].
        pose proof (SS_nth_lt _ (proj1 (sorted_nat_iff _) HS) 0 (S u'')) as HL.
        cbn [length] in HL. specialize (HL ltac:(lia) ltac:(lia)). cbn [nth] in HL |- *. lia. }
      destruct (Nat.leb_spec e1 ci); [|lia].
      rewrite (IH e1 (S k) u' ci); [lia|rewrite starts_ok_eq; exact HS|lia|exact Hlo|exact Hhi].
Qed.

Lemma var_of_from_snoc r x ci : forall k, ci < x -> var_of_from (r ++ [x]) k ci = var_of_from r k ci.
Proof.
  induction r as [|e r IH]; intros k Hx.
  - cbn [app var_of_from]. destruct (Nat.leb_spec x ci); [lia|reflexivity].
  - cbn [app var_of_from]. destruct (e <=? ci); [apply IH, Hx|reflexivity].
Qed.

Definition vof (st : list nat) (ci : nat) : nat := var_of_from (tl st) 0 ci.

Definition ConnR (b : qm) (st : list nat) (ad : list (list nat)) : Prop :=
  forall ci w, ci < nvars b -> In w (map fst (nb b ci)) ->
    vof st ci <> vof st w /\ lb_has (vof st w) (nth (vof st ci) ad []) = true.

Definition DInvR (b : qm) (st : list nat) (ad : list (list nat)) : Prop :=
  Inv b /\
  forallb (vartype_eqb BINARY) (vts b) = true /\
  length st = S (length ad) /\
  hd 1 st = 0 /\
  starts_ok st = true /\
  last st 0 = nvars b /\
  AdjWf ad /\
  ConnR b st ad.

(* readable form of DInv, on the record *)
Definition Conn (d : dqm) : Prop :=
  forall ci w, ci < nvars (d_b d) -> In w (map fst (nb (d_b d) ci)) ->
    var_of d ci <> var_of d w /\ lb_has (var_of d w) (d_nb d (var_of d ci)) = true.

Definition DInvP (d : dqm) : Prop :=
  Inv (d_b d) /\
  forallb (vartype_eqb BINARY) (vts (d_b d)) = true /\
  length (d_st d) = S (d_nvars d) /\
  hd 1 (d_st d) = 0 /\
  starts_ok (d_st d) = true /\
  last (d_st d) 0 = nvars (d_b d) /\
  AdjWf (d_adj d) /\
  Conn d.

Lemma DInvP_R b st ad : DInvP (mkD b st ad) <-> DInvR b st ad.
Proof. reflexivity. Qed.

Theorem DInv_iff : forall d, DInv d <-> DInvP d.
Proof.
  intros d. unfold DInv, dinv_b, DInvP.
  rewrite !andb_true_iff, !Nat.eqb_eq, adj_wf_b_iff. unfold Inv.
  assert (HC : forallb (fun ci => forallb (fun e => let u := var_of d ci in let v := var_of d (fst e) in
                                          negb (u =? v) && lb_has v (d_nb d u)) (nb (d_b d) ci))
                       (seq 0 (nvars (d_b d))) = true <-> Conn d).
  { rewrite forallb_seq0. unfold Conn. split.
    - intros H ci w Hci Hw. specialize (H ci Hci). rewrite forallb_forall in H.
      apply in_map_iff in Hw. destruct Hw as [e [<- He]]. specialize (H e He). cbv zeta in H.
      rewrite andb_true_iff, negb_true_iff, Nat.eqb_neq in H. exact H.
    - intros H ci Hci. apply forallb_forall. intros e He. cbv zeta.
      rewrite andb_true_iff, negb_true_iff, Nat.eqb_neq. apply H; [exact Hci|].
      apply in_map. exact He. }
  rewrite HC. tauto.
Qed.

Lemma DInv_R b st ad : DInv (mkD b st ad) <-> DInvR b st ad.
Proof. rewrite DInv_iff. apply DInvP_R. Qed.

(* ---------- arithmetic of the case starts ---------- *)
Lemma st_facts st n N :
  length st = S n -> starts_ok st = true -> last st 0 = N ->
  forall u c, u < n -> c < nth (S u) st 0 - nth u st 0 ->
    nth u st 0 + c < N /\ vof st (nth u st 0 + c) = u.
Proof.
  intros HL HS HN u c Hu Hc. split.
  - rewrite <- HN, last_nth_nat, HL. replace (S n - 1) with n by lia.
    destruct (Nat.eq_dec (S u) n) as [E|E]; [rewrite <- E; lia|].
    rewrite starts_ok_eq in HS. apply sorted_nat_iff in HS.
    pose proof (SS_nth_lt st HS (S u) n ltac:(lia) ltac:(lia)). lia.
  - unfold vof. destruct st as [|e0 r]; [discriminate|]. cbn [tl]. cbn [length] in HL.
    rewrite (var_of_from_spec r e0 0 u); [reflexivity|exact HS|lia|lia|lia].
Qed.

(* ---------- b changes, adjacency of the BQM does not ---------- *)
Lemma DInvR_same_adj b b' st ad :
  DInvR b st ad -> length (lin b') = length (lin b) -> adj b' = adj b -> vts b' = vts b ->
  DInvR b' st ad.
Proof.
  intros [H1 [H2 [H3 [H4 [H5 [H6 [H7 H8]]]]]]] El Ea Ev.
  unfold DInvR. split; [|split; [|split; [|split; [|split; [|split; [|split]]]]]]; try assumption.
  - apply Inv_InvG. apply Inv_InvG in H1. revert H1. apply InvG_same; assumption.
  - rewrite Ev. exact H2.
  - unfold nvars. rewrite El. exact H6.
  - intros ci w Hci Hw. unfold nvars in Hci. rewrite El in Hci. unfold nb in Hw. rewrite Ea in Hw.
    apply H8; assumption.
Qed.

Lemma fold_set_linear_shape {A} (g : A -> nat) (h : A -> Qc) (l : list A) : forall m,
  let m1 := fold_left (fun acc x => set_linear (g x) (h x) acc) l m in
  length (lin m1) = length (lin m) /\ adj m1 = adj m /\ vts m1 = vts m.
Proof.
  induction l as [|e l IH]; intros m; cbn [fold_left]; [auto|].
  destruct (IH (set_linear (g e) (h e) m)) as [I1 [I2 I3]].
  cbn [set_linear lin adj vts] in *. rewrite upd_nth_length in I1. auto.
Qed.

(* ---------- set_quadratic on two different cases ---------- *)
Lemma Inv_adj_length m : Inv m -> length (adj m) = nvars m.
Proof. intros H. apply Inv_iff in H. apply H. Qed.

Lemma bsetq_step cu cv x m :
  Inv m -> cu < nvars m -> cv < nvars m -> cu <> cv ->
  let m' := bset_quadratic cu cv x m in
  Inv m' /\ vts m' = vts m /\ nvars m' = nvars m /\
  (forall ci w, In w (map fst (nb m' ci)) ->
     In w (map fst (nb m ci)) \/ (ci = cu /\ w = cv) \/ (ci = cv /\ w = cu)).
Proof.
  intros HI Hu Hv Hne.
  assert (E : set_quadratic cu cv x m
              = Some (mkQM (lin m) (upsert_both (fun _ => x) cu cv (adj m)) (off m) (vts m))).
  { unfold set_quadratic. destruct (Nat.eqb_spec cu cv); [contradiction|reflexivity]. }
  unfold bset_quadratic. rewrite E. cbv zeta.
  split; [exact (Inv_set_quadratic cu cv x m _ HI Hu Hv E)|]. split; [reflexivity|]. split; [reflexivity|].
  intros ci w. unfold nb. cbn [adj].
  rewrite nth_upsert_both by (rewrite ?Inv_adj_length by exact HI; assumption).
  destruct (Nat.eqb_spec ci cv) as [->|Nv].
  - rewrite nb_upsert_keys. intros [->|H]; [right; right; split; reflexivity|left; exact H].
  - destruct (Nat.eqb_spec ci cu) as [->|Nu].
    + rewrite nb_upsert_keys. intros [->|H]; [right; left; split; reflexivity|left; exact H].
    + intros H. left. exact H.
Qed.

Definition items_ok (ncu ncv : nat) (l : list (nat * nat * Qc)) : Prop :=
  forall t, In t l -> fst (fst t) < ncu /\ snd (fst t) < ncv.

Lemma set_items_inv b st ad u v l :
  DInvR b st ad -> u < length ad -> v < length ad -> u <> v ->
  items_ok (nth (S u) st 0 - nth u st 0) (nth (S v) st 0 - nth v st 0) l ->
  forall m,
    (Inv m /\ vts m = vts b /\ nvars m = nvars b /\
     (forall ci w, In w (map fst (nb m ci)) ->
        In w (map fst (nb b ci)) \/ (vof st ci = u /\ vof st w = v) \/ (vof st ci = v /\ vof st w = u))) ->
    let m' := fold_left (fun acc t => bset_quadratic (nth u st 0 + fst (fst t)) (nth v st 0 + snd (fst t)) (snd t) acc) l m in
    Inv m' /\ vts m' = vts b /\ nvars m' = nvars b /\
    (forall ci w, In w (map fst (nb m' ci)) ->
        In w (map fst (nb b ci)) \/ (vof st ci = u /\ vof st w = v) \/ (vof st ci = v /\ vof st w = u)).
Proof.
  intros [H1 [H2 [H3 [H4 [H5 [H6 [H7 H8]]]]]]] Hu Hv Hne.
  pose proof (st_facts st (length ad) (nvars b) H3 H5 H6) as SF.
  induction l as [|t l IH]; intros Hok m HP; cbn [fold_left]; [exact HP|].
  apply IH; [intros t' Ht'; apply Hok; right; exact Ht'|].
  destruct HP as [P1 [P2 [P3 P4]]].
  destruct (Hok t (or_introl eq_refl)) as [Hi Hj].
  destruct (SF u _ Hu Hi) as [Lu Vu]. destruct (SF v _ Hv Hj) as [Lv Vv].
  assert (Hcne : nth u st 0 + fst (fst t) <> nth v st 0 + snd (fst t)).
  { intros E. rewrite E in Vu. congruence. }
  rewrite <- P3 in Lu, Lv.
  destruct (bsetq_step _ _ (snd t) m P1 Lu Lv Hcne) as [Q1 [Q2 [Q3 Q4]]].
  split; [exact Q1|]. split; [congruence|]. split; [congruence|].
  intros ci w Hw. apply Q4 in Hw. destruct Hw as [Hw|[[-> ->]|[-> ->]]].
  - apply P4, Hw.
  - right. left. split; assumption.
  - right. right. split; assumption.
Qed.

Lemma DInvR_set_items b st ad u v l :
  DInvR b st ad -> u < length ad -> v < length ad -> u <> v ->
  items_ok (nth (S u) st 0 - nth u st 0) (nth (S v) st 0 - nth v st 0) l ->
  DInvR (fold_left (fun acc t => bset_quadratic (nth u st 0 + fst (fst t)) (nth v st 0 + snd (fst t)) (snd t) acc) l b)
        st (track u v ad).
Proof.
  intros HD Hu Hv Hne Hok.
  assert (HP0 : Inv b /\ vts b = vts b /\ nvars b = nvars b /\
     (forall ci w, In w (map fst (nb b ci)) ->
        In w (map fst (nb b ci)) \/ (vof st ci = u /\ vof st w = v) \/ (vof st ci = v /\ vof st w = u))).
  { split; [apply HD|]. split; [reflexivity|]. split; [reflexivity|]. intros ci w H. left. exact H. }
  pose proof (set_items_inv b st ad u v l HD Hu Hv Hne Hok b HP0) as HP. cbv zeta in HP.
  set (m' := fold_left _ l b) in *.
  destruct HP as [Q1 [Q2 [Q3 Q4]]].
  destruct HD as [H1 [H2 [H3 [H4 [H5 [H6 [H7 H8]]]]]]].
  pose proof (track_wf u v ad H7 Hu Hv Hne) as HW'.
  split; [exact Q1|]. split; [rewrite Q2; exact H2|]. split; [rewrite track_length; exact H3|].
  split; [exact H4|]. split; [exact H5|]. split; [congruence|]. split; [exact HW'|].
  intros ci w Hci Hw. rewrite Q3 in Hci. apply Q4 in Hw. destruct Hw as [Hw|[[E1 E2]|[E1 E2]]].
  - destruct (H8 ci w Hci Hw) as [Hn Hh]. split; [exact Hn|].
    apply (lb_has_In _ _ (AdjWf_sorted _ _ HW')). apply track_frame; try assumption.
    left. apply (lb_has_In _ _ (AdjWf_sorted _ _ H7)). exact Hh.
  - rewrite E1, E2. split; [exact Hne|].
    apply (lb_has_In _ _ (AdjWf_sorted _ _ HW')). apply track_links; assumption.
  - rewrite E1, E2. split; [congruence|].
    apply (lb_has_In _ _ (AdjWf_sorted _ _ HW')). apply track_links; assumption.
Qed.

(* ---------- add_variable ---------- *)
Lemma add_vars_shape (l : list nat) : forall m,
  Inv m -> forallb (vartype_eqb BINARY) (vts m) = true ->
  let m' := fold_left (fun acc _ => add_variable BINARY acc) l m in
  Inv m' /\ forallb (vartype_eqb BINARY) (vts m') = true /\
  nvars m' = nvars m + length l /\ adj m' = adj m ++ repeat [] (length l).
Proof.
  induction l as [|x l IH]; intros m HI HB; cbn [fold_left length repeat].
  - rewrite app_nil_r, Nat.add_0_r. auto.
  - destruct (IH (add_variable BINARY m)) as [I1 [I2 [I3 I4]]].
    + apply Inv_add_variable, HI.
    + cbn [add_variable vts]. rewrite forallb_app, HB. reflexivity.
    + split; [exact I1|]. split; [exact I2|]. split.
      * rewrite I3. unfold nvars. cbn [add_variable lin]. rewrite app_length. cbn [length]. lia.
      * rewrite I4. cbn [add_variable adj]. rewrite <- app_assoc. reflexivity.
Qed.

Lemma sorted_snoc st x :
  sorted_nat st = true -> st <> [] -> last st 0 < x -> sorted_nat (st ++ [x]) = true.
Proof.
  induction st as [|a r IH]; intros HS Hne HL; [congruence|].
  destruct r as [|c r'].
  - cbn [last] in HL. cbn [app sorted_nat]. rewrite andb_true_r. apply Nat.ltb_lt. exact HL.
  - change (sorted_nat (a :: c :: r')) with ((a <? c) && sorted_nat (c :: r')) in HS.
    apply andb_true_iff in HS. destruct HS as [Hac HS].
    change ((a :: c :: r') ++ [x]) with (a :: c :: (r' ++ [x])).
    change (sorted_nat (a :: c :: r' ++ [x])) with ((a <? c) && sorted_nat ((c :: r') ++ [x])).
    rewrite Hac. cbn [andb]. apply IH; [exact HS|discriminate|exact HL].
Qed.

Lemma AdjWf_snoc ad : AdjWf ad -> AdjWf (ad ++ [[]]).
Proof.
  intros HW u Hu. rewrite app_length in *. cbn [length] in *.
  destruct (Nat.lt_ge_cases u (length ad)) as [L|L].
  - rewrite app_nth1 by exact L. destruct (HW u L) as [HS HF]. split; [exact HS|].
    intros v Hv. destruct (HF v Hv) as [F1 [F2 F3]]. split; [lia|]. split; [exact F2|].
    rewrite app_nth1 by exact F1. exact F3.
  - replace u with (length ad) by lia. rewrite nth_middle. split; [reflexivity|]. intros v [].
Qed.

Lemma DInvR_add_var b st ad k :
  DInvR b st ad -> 0 < k ->
  let b' := fold_left (fun acc _ => add_variable BINARY acc) (seq 0 k) b in
  DInvR b' (st ++ [nvars b']) (ad ++ [[]]).
Proof.
  intros [H1 [H2 [H3 [H4 [H5 [H6 [H7 H8]]]]]]] Hk. cbv zeta.
  destruct (add_vars_shape (seq 0 k) b H1 H2) as [I1 [I2 [I3 I4]]]. cbv zeta in I1, I2, I3, I4.
  set (b' := fold_left _ (seq 0 k) b) in *. rewrite seq_length in I3, I4.
  assert (Hst : st <> []) by (destruct st; [discriminate|discriminate]).
  split; [exact I1|]. split; [exact I2|].
  split; [rewrite !app_length; cbn [length]; lia|].
  split; [destruct st; [congruence|exact H4]|].
  split; [rewrite starts_ok_eq in *; apply sorted_snoc; [exact H5|exact Hst|lia]|].
  split; [apply last_last|]. split; [apply AdjWf_snoc, H7|].
  intros ci w Hci Hw. unfold nb in Hw. rewrite I4, nth_app_repeat in Hw.
  destruct (Nat.lt_ge_cases ci (nvars b)) as [L|L].
  - assert (Hwlt : w < nvars b).
    { apply in_map_iff in Hw. destruct Hw as [[w' bb] [<- He]]. cbn [fst].
      apply Inv_iff in H1. destruct H1 as [_ [_ [_ [HR _]]]]. eapply HR; eassumption. }
    assert (Hv : forall c, c < nvars b -> vof (st ++ [nvars b']) c = vof st c).
    { intros c Hc. unfold vof. destruct st as [|e0 r]; [congruence|]. cbn [app tl].
      apply var_of_from_snoc. lia. }
    rewrite !Hv by assumption. change [[]] with (repeat (@nil nat) 1). rewrite nth_app_repeat.
    apply H8; assumption.
  - rewrite nth_overflow in Hw by (rewrite Inv_adj_length by exact H1; exact L). contradiction.
Qed.

(* ---------- the operations ---------- *)
Definition simple_op (o : dop) : bool :=
  match o with
  | DEqCon _ _ _ | DRoundTrip => false
  | _ => true
  end.

Lemma dense_items_ok d u v dd : items_ok (d_ncases d u) (d_ncases d v) (dense_items d u v dd).
Proof.
  intros t Ht. unfold dense_items in Ht. apply filter_In in Ht. destruct Ht as [Ht _].
  apply in_flat_map in Ht. destruct Ht as [i [Hi Ht]]. apply in_map_iff in Ht.
  destruct Ht as [j [<- Hj]]. cbn [fst snd]. apply in_seq in Hi. apply in_seq in Hj. lia.
Qed.

Theorem dstep_preserves_DInv : forall d o,
  simple_op o = true -> DInv d -> dop_ok d o = true -> DInv (dstep d o).
Proof.
  intros [b st ad] o Hs HD Hok. pose proof HD as HD0. rewrite DInv_R in HD.
  destruct o as [k|v c x|v bs|u cu v cv x|u v l|u v dd|terms lagr const|x| |]; try discriminate Hs;
    unfold dop_ok, d_nvars, d_ncases, d_start in Hok; cbn [d_b d_st d_adj] in Hok.
  - (* DAddVar *)
    apply Nat.ltb_lt in Hok. unfold dstep. cbn [d_b d_st d_adj]. rewrite DInv_R.
    apply (DInvR_add_var b st ad k HD Hok).
  - (* DSetLinCase *)
    unfold dstep, with_b. cbn [d_b d_st d_adj]. rewrite DInv_R.
    apply (DInvR_same_adj b _ st ad HD); [apply upd_nth_length|reflexivity|reflexivity].
  - (* DSetLin *)
    unfold dstep, with_b. cbn [d_b d_st d_adj]. rewrite DInv_R.
    destruct (fold_set_linear_shape (fun cb : nat * Qc => cs (mkD b st ad) v (fst cb)) (fun cb => snd cb)
                (combine (seq 0 (length bs)) bs) b) as [I1 [I2 I3]].
    apply (DInvR_same_adj b _ st ad HD); assumption.
  - (* DSetQuadCase *)
    rewrite !andb_true_iff, !Nat.ltb_lt, negb_true_iff, Nat.eqb_neq in Hok.
    destruct Hok as [[[[Hu Hv] Hne] Hcu] Hcv].
    unfold dstep. cbn [d_b d_st d_adj]. rewrite DInv_R.
    apply (DInvR_set_items b st ad u v [(cu, cv, x)] HD Hu Hv Hne).
    intros t [<-|[]]. cbn [fst snd]. split; assumption.
  - (* DSetQuadMap *)
    rewrite !andb_true_iff, !Nat.ltb_lt, negb_true_iff, Nat.eqb_neq in Hok.
    destruct Hok as [[[Hu Hv] Hne] Hl].
    unfold dstep. cbn [d_b d_st d_adj]. rewrite DInv_R.
    apply (DInvR_set_items b st ad u v l HD Hu Hv Hne).
    intros t Ht. rewrite forallb_forall in Hl. specialize (Hl t Ht).
    rewrite andb_true_iff, !Nat.ltb_lt in Hl. exact Hl.
  - (* DSetQuadDense *)
    rewrite !andb_true_iff, !Nat.ltb_lt, negb_true_iff, Nat.eqb_neq in Hok.
    destruct Hok as [[[Hu Hv] Hne] _].
    unfold dstep. cbn [d_b d_st d_adj]. rewrite DInv_R.
    apply (DInvR_set_items b st ad u v (dense_items (mkD b st ad) u v dd) HD Hu Hv Hne).
    apply (dense_items_ok (mkD b st ad) u v dd).
  - (* DSetOffset *)
    unfold dstep, with_b. cbn [d_b d_st d_adj]. rewrite DInv_R.
    apply (DInvR_same_adj b _ st ad HD); reflexivity.
  - (* DCopy *)
    exact HD0.
Qed.

(* ================= 5. the "fix the adjacency" walk ================= *)
Lemma fix_walk_spec f v : forall vars adj,
  sorted_nat vars = true -> sorted_nat adj = true -> length vars + length adj <= f ->
  sorted_nat (fix_walk f v vars adj) = true /\
  forall y, In y (fix_walk f v vars adj) <-> In y adj \/ (In y vars /\ y <> v).
Proof.
  induction f as [|f IH]; intros vars adj HSv HSa HL.
  - destruct vars; [|cbn [length] in HL; lia]. cbn [fix_walk]. split; [exact HSa|].
    intros y. cbn [In]. tauto.
  - cbn [fix_walk]. destruct vars as [|x vr].
    + split; [exact HSa|]. intros y. cbn [In]. tauto.
    + pose proof HSv as HSv0. apply sorted_cons in HSv. destruct HSv as [HSvr HAv].
      cbn [length] in HL. destruct (Nat.eqb_spec x v) as [->|Nx].
      * destruct (IH vr adj HSvr HSa ltac:(lia)) as [I1 I2]. split; [exact I1|].
        intros y. rewrite I2. cbn [In]. split.
        -- intros [H|[H1 H2]]; [left; exact H|right; split; [right; exact H1|exact H2]].
        -- intros [H|[[H1|H1] H2]]; [left; exact H|congruence|right; split; assumption].
      * destruct adj as [|n ar].
        -- destruct (IH vr [] HSvr eq_refl ltac:(cbn [length]; lia)) as [I1 I2]. split.
           ++ apply sorted_cons. split; [exact I1|]. intros y Hy. apply I2 in Hy.
              destruct Hy as [[]|[Hy _]]. apply HAv, Hy.
           ++ intros y. cbn [In]. rewrite I2. cbn [In]. split.
              ** intros [<-|[[]|[H1 H2]]]; right; split; auto.
              ** intros [[]|[[H1|H1] H2]]; [left; exact H1|right; right; split; assumption].
        -- pose proof HSa as HSa0. apply sorted_cons in HSa. destruct HSa as [HSar HAa].
           cbn [length] in HL. destruct (Nat.ltb_spec x n) as [Lxn|Lxn].
           ++ destruct (IH vr (n :: ar) HSvr HSa0 ltac:(cbn [length]; lia)) as [I1 I2]. split.
              ** apply sorted_cons. split; [exact I1|]. intros y Hy. apply I2 in Hy.
                 destruct Hy as [[<-|Hy]|[Hy _]]; [exact Lxn|apply HAa in Hy; lia|apply HAv, Hy].
              ** intros y. change (In y (x :: fix_walk f v vr (n :: ar))) with (x = y \/ In y (fix_walk f v vr (n :: ar))).
                 rewrite I2. cbn [In]. split.
                 --- intros [<-|[H|[H1 H2]]]; [right; split; auto|left; exact H|right; split; auto].
                 --- intros [H|[[H1|H1] H2]]; [right; left; exact H|left; exact H1|right; right; split; assumption].
           ++ destruct (Nat.ltb_spec n x) as [Lnx|Lnx].
              ** destruct (IH (x :: vr) ar HSv0 HSar ltac:(cbn [length]; lia)) as [I1 I2]. split.
                 --- apply sorted_cons. split; [exact I1|]. intros y Hy. apply I2 in Hy.
                     destruct Hy as [Hy|[[<-|Hy] _]]; [apply HAa, Hy|exact Lnx|apply HAv in Hy; lia].
                 --- intros y. change (In y (n :: fix_walk f v (x :: vr) ar)) with (n = y \/ In y (fix_walk f v (x :: vr) ar)).
                     rewrite I2. cbn [In]. tauto.
              ** assert (n = x) by lia. subst n.
                 destruct (IH vr ar HSvr HSar ltac:(lia)) as [I1 I2]. split.
                 --- apply sorted_cons. split; [exact I1|]. intros y Hy. apply I2 in Hy.
                     destruct Hy as [Hy|[Hy _]]; [apply HAa, Hy|apply HAv, Hy].
                 --- intros y. change (In y (x :: fix_walk f v vr ar)) with (x = y \/ In y (fix_walk f v vr ar)).
                     rewrite I2. cbn [In]. split.
                     +++ intros [H|[H|[H1 H2]]]; [left; left; exact H|left; right; exact H|right; split; auto].
                     +++ intros [[H|H]|[[H1|H1] H2]]; [left; exact H|right; left; exact H|left; exact H1|right; right; split; assumption].
Qed.

(* the statement asked for, with the fuel of fix_adjacency *)
Theorem fix_walk_union : forall v vars adj x,
  sorted_nat vars = true -> sorted_nat adj = true ->
  (In x (fix_walk (S (length vars + length adj)) v vars adj) <-> In x adj \/ (In x vars /\ x <> v)).
Proof. intros v vars adj x HSv HSa. apply fix_walk_spec; [assumption|assumption|lia]. Qed.

Theorem fix_walk_sorted : forall v vars adj,
  sorted_nat vars = true -> sorted_nat adj = true ->
  sorted_nat (fix_walk (S (length vars + length adj)) v vars adj) = true.
Proof. intros v vars adj HSv HSa. apply fix_walk_spec; [assumption|assumption|lia]. Qed.

Lemma sorted_nat_NoDup l : sorted_nat l = true -> NoDup l.
Proof.
  induction l as [|x r IH]; intros HS; [constructor|].
  apply sorted_cons in HS. destruct HS as [HS HA]. constructor; [|apply IH, HS].
  intros Hin. apply HA in Hin. lia.
Qed.

Section FixFold.
  Variable F : nat -> list nat -> list nat.

  Lemma fix_fold_length (l : list nat) : forall acc : list (list nat),
    length (fold_left (fun acc v => upd_nth v (F v) acc) l acc) = length acc.
  Proof.
    induction l as [|v l IH]; intros acc; cbn [fold_left]; [reflexivity|].
    rewrite IH. apply upd_nth_length.
  Qed.

  Lemma fix_fold_nth_out (l : list nat) i : ~ In i l -> forall acc : list (list nat),
    nth i (fold_left (fun acc v => upd_nth v (F v) acc) l acc) [] = nth i acc [].
  Proof.
    induction l as [|v l IH]; intros Hni acc; cbn [fold_left]; [reflexivity|].
    rewrite IH by (intros H; apply Hni; right; exact H).
    apply nth_upd_nth_other. intros ->. apply Hni. left. reflexivity.
  Qed.

  Lemma fix_fold_nth_in (l : list nat) i : NoDup l -> In i l -> forall acc : list (list nat),
    i < length acc ->
    nth i (fold_left (fun acc v => upd_nth v (F v) acc) l acc) [] = F i (nth i acc []).
  Proof.
    induction l as [|v l IH]; intros HN Hin acc Hi; [contradiction|]. cbn [fold_left].
    inversion HN as [|v' l' Hnv HN']. subst v' l'. destruct (Nat.eq_dec i v) as [->|Niv].
    - rewrite fix_fold_nth_out by exact Hnv. apply nth_upd_nth_same. exact Hi.
    - destruct Hin as [E|Hin]; [congruence|].
      rewrite IH by (try assumption; rewrite upd_nth_length; exact Hi).
      rewrite nth_upd_nth_other by exact Niv. reflexivity.
  Qed.
End FixFold.

Theorem fix_adjacency_length : forall vars a, length (fix_adjacency vars a) = length a.
Proof. intros vars a. unfold fix_adjacency. apply fix_fold_length. Qed.

Theorem fix_adjacency_rows : forall vars a w x,
  AdjWf a -> sorted_nat vars = true -> (forall y, In y vars -> y < length a) ->
  sorted_nat (nth w (fix_adjacency vars a) []) = true /\
  (In x (nth w (fix_adjacency vars a) []) <-> In x (nth w a []) \/ (In w vars /\ In x vars /\ x <> w)).
Proof.
  intros vars a w x HW HS Hlt. unfold fix_adjacency.
  destruct (in_dec Nat.eq_dec w vars) as [Hin|Hni].
  - rewrite (fix_fold_nth_in (fun v adj => fix_walk (S (length vars + length adj)) v vars adj) vars w
               (sorted_nat_NoDup _ HS) Hin a (Hlt w Hin)).
    split; [apply fix_walk_sorted; [exact HS|apply AdjWf_sorted, HW]|].
    rewrite fix_walk_union by (try exact HS; apply AdjWf_sorted, HW). tauto.
  - rewrite (fix_fold_nth_out (fun v adj => fix_walk (S (length vars + length adj)) v vars adj) vars w Hni a).
    split; [apply AdjWf_sorted, HW|]. tauto.
Qed.

Theorem fix_adjacency_wf : forall vars a,
  AdjWf a -> sorted_nat vars = true -> (forall x, In x vars -> x < length a) ->
  AdjWf (fix_adjacency vars a).
Proof.
  intros vars a HW HS Hlt w Hw. rewrite fix_adjacency_length in *.
  split; [apply (fix_adjacency_rows vars a w 0 HW HS Hlt)|].
  intros x Hx. apply (fix_adjacency_rows vars a w x HW HS Hlt) in Hx.
  rewrite (proj2 (fix_adjacency_rows vars a x w HW HS Hlt)).
  destruct Hx as [Hx|[H1 [H2 H3]]].
  - destruct (AdjWf_In a w x HW Hx) as [_ [F1 [F2 F3]]]. tauto.
  - split; [apply Hlt, H2|]. split; [exact H3|]. right. split; [exact H2|]. split; [exact H1|congruence].
Qed.

(* ================= 6. add_linear_equality_constraint (DEqCon) ================= *)
Lemma upsert_both_keys f u v (a : list nbh) ci w :
  u <> v -> u < length a -> v < length a ->
  In w (map fst (nth ci (upsert_both f u v a) [])) ->
  In w (map fst (nth ci a [])) \/ (ci = u /\ w = v) \/ (ci = v /\ w = u).
Proof.
  intros Hne Hu Hv. rewrite nth_upsert_both by assumption.
  destruct (Nat.eqb_spec ci v) as [->|Nv].
  - rewrite nb_upsert_keys. intros [->|H]; [right; right; split; reflexivity|left; exact H].
  - destruct (Nat.eqb_spec ci u) as [->|Nu].
    + rewrite nb_upsert_keys. intros [->|H]; [right; left; split; reflexivity|left; exact H].
    + intros H. left. exact H.
Qed.

Lemma In_ins_term t l x : In x (ins_term t l) <-> x = t \/ In x l.
Proof.
  induction l as [|y r IH]; cbn [ins_term].
  - cbn [In]. split; intros [H|H]; auto; contradiction.
  - destruct (t_case t <? t_case y); cbn [In].
    + split; [intros [H|H]; auto|intros [H|H]; auto].
    + rewrite IH. tauto.
Qed.

Lemma In_sort_terms l x : In x (sort_terms l) <-> In x l.
Proof.
  unfold sort_terms.
  assert (G : forall acc, In x (fold_left (fun acc t => ins_term t acc) l acc) <-> In x l \/ In x acc).
  { induction l as [|t l IH]; intros acc; cbn [fold_left].
    - cbn [In]. tauto.
    - rewrite IH, In_ins_term. cbn [In]. split.
      + intros [H|[H|H]]; auto.
      + intros [[H|H]|H]; auto. }
  rewrite G. cbn [In]. tauto.
Qed.

Lemma sum_dups_src : forall l cur t, In t (sum_dups cur l) ->
  exists t', In t' (cur :: l) /\ t_var t = t_var t' /\ t_case t = t_case t'.
Proof.
  induction l as [|s r IH]; intros cur t Hin; cbn [sum_dups] in Hin.
  - destruct Hin as [<-|[]]. exists cur. split; [left; reflexivity|auto].
  - destruct (t_case cur =? t_case s).
    + apply IH in Hin. destruct Hin as [t' [[<-|Hin] [E1 E2]]].
      * exists cur. split; [left; reflexivity|]. split; [exact E1|exact E2].
      * exists t'. split; [right; right; exact Hin|auto].
    + destruct Hin as [<-|Hin].
      * exists cur. split; [left; reflexivity|auto].
      * apply IH in Hin. destruct Hin as [t' [[<-|Hin] [E1 E2]]].
        -- exists s. split; [right; left; reflexivity|auto].
        -- exists t'. split; [right; right; exact Hin|auto].
Qed.

Lemma merge_dups_src l t : In t (merge_dups l) ->
  exists t', In t' l /\ t_var t = t_var t' /\ t_case t = t_case t'.
Proof. unfold merge_dups. destruct l as [|c r]; [intros []|apply sum_dups_src]. Qed.

Lemma In_ins_uniq x y l : In y (ins_uniq x l) <-> y = x \/ In y l.
Proof.
  induction l as [|z r IH]; cbn [ins_uniq].
  - cbn [In]. split; intros [H|H]; auto; contradiction.
  - destruct (x <? z); cbn [In].
    + split; [intros [H|H]; auto|intros [H|H]; auto].
    + destruct (Nat.eqb_spec x z) as [->|Nz]; cbn [In].
      * split; [auto|]. intros [->|H]; [left; reflexivity|exact H].
      * rewrite IH. tauto.
Qed.

Lemma ins_uniq_sorted x l : sorted_nat l = true -> sorted_nat (ins_uniq x l) = true.
Proof.
  induction l as [|z r IH]; intros HS; [reflexivity|]. cbn [ins_uniq].
  pose proof HS as HS0. apply sorted_cons in HS. destruct HS as [HS HA].
  destruct (Nat.ltb_spec x z) as [L|L].
  - apply sorted_cons. split; [exact HS0|]. intros y [<-|Hy]; [exact L|]. apply HA in Hy. lia.
  - destruct (Nat.eqb_spec x z) as [E|Nz]; [exact HS0|].
    apply sorted_cons. split; [apply IH, HS|]. intros y Hy. apply In_ins_uniq in Hy.
    destruct Hy as [->|Hy]; [lia|apply HA, Hy].
Qed.

Lemma term_vars_spec terms :
  sorted_nat (term_vars terms) = true /\
  forall x, In x (term_vars terms) <-> exists t, In t terms /\ t_var t = x.
Proof.
  unfold term_vars.
  assert (G : forall acc, sorted_nat acc = true ->
     sorted_nat (fold_left (fun acc t => ins_uniq (t_var t) acc) terms acc) = true /\
     forall x, In x (fold_left (fun acc t => ins_uniq (t_var t) acc) terms acc)
               <-> (exists t, In t terms /\ t_var t = x) \/ In x acc).
  { induction terms as [|t l IH]; intros acc HS; cbn [fold_left].
    - split; [exact HS|]. intros x. split; [auto|]. intros [[t [[] _]]|H]. exact H.
    - destruct (IH (ins_uniq (t_var t) acc) (ins_uniq_sorted _ _ HS)) as [I1 I2].
      split; [exact I1|]. intros x. rewrite I2, In_ins_uniq. split.
      + intros [[s [Hs E]]|[E|H]].
        * left. exists s. split; [right; exact Hs|exact E].
        * left. exists t. split; [left; reflexivity|congruence].
        * right. exact H.
      + intros [[s [[<-|Hs] E]]|H].
        * right. left. congruence.
        * left. exists s. split; assumption.
        * right. right. exact H. }
  destruct (G [] eq_refl) as [G1 G2]. split; [exact G1|]. intros x. rewrite G2. cbn [In]. tauto.
Qed.

Section EqCon.
  Variables (b : qm) (st : list nat) (n : nat).
  Variable P : nat -> Prop.

  Definition TOk (t : lterm3) : Prop :=
    t_var t < n /\ t_case t < nvars b /\ vof st (t_case t) = t_var t /\ P (t_var t).

  Definition QInv (m : qm) : Prop :=
    Inv m /\ vts m = vts b /\ nvars m = nvars b /\
    (forall ci w, In w (map fst (nb m ci)) ->
       In w (map fst (nb b ci)) \/ (vof st ci <> vof st w /\ P (vof st ci) /\ P (vof st w))).

  Lemma QInv_same_adj m m' :
    QInv m -> length (lin m') = length (lin m) -> adj m' = adj m -> vts m' = vts m -> QInv m'.
  Proof.
    intros [Q1 [Q2 [Q3 Q4]]] El Ea Ev. split; [|split; [|split]].
    - apply Inv_InvG. apply Inv_InvG in Q1. revert Q1. apply InvG_same; assumption.
    - congruence.
    - unfold nvars in *. congruence.
    - intros ci w. unfold nb. rewrite Ea. apply Q4.
  Qed.

  Lemma QInv_add_quadratic t s x m :
    TOk t -> TOk s -> t_var t <> t_var s -> QInv m ->
    QInv (add_quadratic (t_case t) (t_case s) x m).
  Proof.
    intros [T1 [T2 [T3 T4]]] [S1 [S2 [S3 S4]]] Hne [Q1 [Q2 [Q3 Q4]]].
    assert (Hcne : t_case t <> t_case s) by (intros E; rewrite E in T3; congruence).
    split; [|split; [|split]].
    - apply Inv_add_quadratic; [exact Q1|rewrite Q3; exact T2|rewrite Q3; exact S2].
    - unfold add_quadratic. destruct (Nat.eqb_spec (t_case t) (t_case s)); [contradiction|exact Q2].
    - unfold add_quadratic. destruct (Nat.eqb_spec (t_case t) (t_case s)); [contradiction|exact Q3].
    - intros ci w. unfold add_quadratic.
      destruct (Nat.eqb_spec (t_case t) (t_case s)); [contradiction|]. unfold nb at 1. cbn [adj].
      intros Hw. apply upsert_both_keys in Hw;
        [|exact Hcne|rewrite Inv_adj_length by exact Q1; rewrite Q3; exact T2
         |rewrite Inv_adj_length by exact Q1; rewrite Q3; exact S2].
      destruct Hw as [Hw|[[-> ->]|[-> ->]]].
      + apply Q4, Hw.
      + right. rewrite T3, S3. auto.
      + right. rewrite T3, S3. auto.
  Qed.

  Lemma eq_loops_inv lagr const : forall terms m,
    (forall t, In t terms -> TOk t) -> QInv m -> QInv (eq_loops lagr const terms m).
  Proof.
    induction terms as [|t rest IH]; intros m Hok HQ; cbn [eq_loops]; [exact HQ|].
    apply IH; [intros s Hs; apply Hok; right; exact Hs|].
    assert (Ht : TOk t) by (apply Hok; left; reflexivity).
    assert (Hrest : forall s, In s rest -> TOk s) by (intros s Hs; apply Hok; right; exact Hs).
    match goal with |- QInv (fold_left _ rest ?m1) =>
      assert (H1 : QInv m1) by (apply (QInv_same_adj m); [exact HQ|apply upd_nth_length|reflexivity|reflexivity]);
      generalize dependent m1 end.
    clear IH Hok. induction rest as [|s r IHr]; intros m1 H1; cbn [fold_left]; [exact H1|].
    apply IHr; [intros s' Hs'; apply Hrest; right; exact Hs'|].
    destruct (Nat.eqb_spec (t_var t) (t_var s)) as [E|Ne]; [exact H1|].
    apply QInv_add_quadratic; [exact Ht|apply Hrest; left; reflexivity|exact Ne|exact H1].
  Qed.
End EqCon.

Lemma DInvR_eq_con b st ad terms lagr const :
  DInvR b st ad ->
  (forall t, In t terms -> t_var t < length ad /\ t_case t < nth (S (t_var t)) st 0 - nth (t_var t) st 0) ->
  let g := map (fun t => (t_var t, nth (t_var t) st 0 + t_case t, t_bias t)) terms in
  let ts := merge_dups (sort_terms g) in
  DInvR (eq_loops lagr const ts (Adj.add_offset (lagr * const * const)%Qc b)) st
        (fix_adjacency (term_vars ts) ad).
Proof.
  intros HD Hok g ts.
  pose proof HD as [H1 [H2 [H3 [H4 [H5 [H6 [H7 H8]]]]]]].
  pose proof (st_facts st (length ad) (nvars b) H3 H5 H6) as SF.
  destruct (term_vars_spec ts) as [TS TI].
  set (P := fun x => In x (term_vars ts)).
  assert (Hts : forall t, In t ts -> TOk b st (length ad) P t).
  { intros t Ht. assert (HP : P (t_var t)) by (apply TI; exists t; auto).
    apply merge_dups_src in Ht. destruct Ht as [t' [Ht' [E1 E2]]].
    apply (proj1 (In_sort_terms g t')) in Ht'. apply in_map_iff in Ht'. destruct Ht' as [t0 [<- Ht0]].
    destruct (Hok t0 Ht0) as [K1 K2]. destruct (SF _ _ K1 K2) as [K3 K4].
    unfold TOk. rewrite E1, E2 in *. unfold t_var at 1 3 4, t_case at 1 2. cbn [fst snd].
    split; [exact K1|]. split; [exact K3|]. split; [exact K4|]. exact HP. }
  assert (HQ0 : QInv b st P (Adj.add_offset (lagr * const * const)%Qc b)).
  { split; [apply Inv_add_offset, H1|]. split; [reflexivity|]. split; [reflexivity|].
    intros ci w H. left. exact H. }
  pose proof (eq_loops_inv b st (length ad) P lagr const ts _ Hts HQ0) as [Q1 [Q2 [Q3 Q4]]].
  assert (Hlt : forall x, In x (term_vars ts) -> x < length ad).
  { intros x Hx. apply TI in Hx. destruct Hx as [t [Ht <-]]. apply (Hts t Ht). }
  pose proof (fix_adjacency_wf (term_vars ts) ad H7 TS Hlt) as HW'.
  split; [exact Q1|]. split; [rewrite Q2; exact H2|].
  split; [rewrite fix_adjacency_length; exact H3|].
  split; [exact H4|]. split; [exact H5|]. split; [congruence|]. split; [exact HW'|].
  intros ci w Hci Hw. rewrite Q3 in Hci. apply Q4 in Hw. destruct Hw as [Hw|[Hn [P1 P2]]].
  - destruct (H8 ci w Hci Hw) as [Hn Hh]. split; [exact Hn|].
    apply (lb_has_In _ _ (AdjWf_sorted _ _ HW')).
    apply (fix_adjacency_rows (term_vars ts) ad _ _ H7 TS Hlt). left.
    apply (lb_has_In _ _ (AdjWf_sorted _ _ H7)). exact Hh.
  - split; [exact Hn|]. apply (lb_has_In _ _ (AdjWf_sorted _ _ HW')).
    apply (fix_adjacency_rows (term_vars ts) ad _ _ H7 TS Hlt). right.
    split; [exact P1|]. split; [exact P2|congruence].
Qed.

Theorem dstep_eqcon_preserves_DInv : forall d terms lagr const,
  DInv d -> dop_ok d (DEqCon terms lagr const) = true -> DInv (dstep d (DEqCon terms lagr const)).
Proof.
  intros [b st ad] terms lagr const HD Hok. rewrite DInv_R in HD.
  unfold dop_ok, d_nvars, d_ncases, d_start in Hok. cbn [d_b d_st d_adj] in Hok.
  unfold dstep. cbn [d_b d_st d_adj]. rewrite DInv_R.
  apply (DInvR_eq_con b st ad terms lagr const HD).
  intros t Ht. rewrite forallb_forall in Hok. specialize (Hok t Ht).
  rewrite andb_true_iff, !Nat.ltb_lt in Hok. exact Hok.
Qed.

(* every operation except the numpy round trip *)
Definition no_round_trip (o : dop) : bool := match o with DRoundTrip => false | _ => true end.

Theorem dstep_preserves_DInv_all_but_round_trip : forall d o,
  no_round_trip o = true -> DInv d -> dop_ok d o = true -> DInv (dstep d o).
Proof.
  intros d o Hs HD Hok. destruct o; try discriminate Hs;
    try (apply dstep_preserves_DInv; [reflexivity|exact HD|exact Hok]).
  apply dstep_eqcon_preserves_DInv; assumption.
Qed.

Theorem DInv_empty : DInv d_empty.
Proof. vm_compute. reflexivity. Qed.

(* a history: every operation is checked against the state it is applied to *)
Fixpoint run (d : dqm) (ops : list dop) : option dqm :=
  match ops with
  | [] => Some d
  | o :: r => if no_round_trip o && dop_ok d o then run (dstep d o) r else None
  end.

Theorem DInv_reachable : forall ops d, run d_empty ops = Some d -> DInv d.
Proof.
  intros ops. assert (G : forall d0 d, DInv d0 -> run d0 ops = Some d -> DInv d).
  { induction ops as [|o r IH]; intros d0 d H0 HR; cbn [run] in HR.
    - injection HR as <-. exact H0.
    - destruct (no_round_trip o) eqn:E1; [|discriminate]. destruct (dop_ok d0 o) eqn:E2; [|discriminate].
      cbn [andb] in HR. apply (IH (dstep d0 o)); [|exact HR].
      apply dstep_preserves_DInv_all_but_round_trip; assumption. }
  intros d. apply G, DInv_empty.
Qed.

Print Assumptions lb_has_In.
Print Assumptions In_lb_ins.
Print Assumptions lb_ins_sorted.
Print Assumptions adj_wf_b_iff.
Print Assumptions track_wf.
Print Assumptions track_links.
Print Assumptions track_frame.
Print Assumptions track_length.
Print Assumptions track_wrong_bound_breaks.
Print Assumptions DInv_iff.
Print Assumptions dstep_preserves_DInv.
Print Assumptions fix_walk_union.
Print Assumptions fix_walk_sorted.
Print Assumptions fix_adjacency_wf.
Print Assumptions dstep_eqcon_preserves_DInv.
Print Assumptions dstep_preserves_DInv_all_but_round_trip.
Print Assumptions DInv_reachable.
