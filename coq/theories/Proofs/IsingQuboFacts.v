(* C02 for dimod/utilities.py ising_to_qubo / qubo_to_ising and the BQM wrappers:
   the conversions between the Ising and the QUBO form never change an energy. *)
From Coq Require Import List ZArith QArith Qcanon Bool Arith Lia.
From Dimod Require Import Base.Util Model.Poly Model.IsingQubo Proofs.PolyFacts.
Import ListNotations.
Open Scope Qc_scope.

(* ---------- numerals ---------- *)
Lemma two_neq0 : two <> 0.
Proof. unfold two. intro H. discriminate H. Qed.

Lemma four_quarter : four * quarter = 1.
Proof. unfold four, quarter, half, two. field. intro H. discriminate H. Qed.

Lemma half_plus_half : half + half = 1.
Proof. unfold half, two. field. intro H. discriminate H. Qed.

Lemma quarter_two : quarter * two = half.
Proof. unfold quarter, half, two. field. intro H. discriminate H. Qed.

Lemma qceqb_eq a b : Qc_eqb a b = true <-> a = b.
Proof. unfold Qc_eqb. rewrite Qeq_bool_iff. split; [apply Qc_is_canon|intros ->; reflexivity]. Qed.

Lemma pkey_eqb_spec a b : reflect (a = b) (pkey_eqb a b).
Proof.
  destruct a as [a1 a2], b as [b1 b2]. unfold pkey_eqb; cbn [fst snd].
  destruct (Nat.eqb_spec a1 b1); destruct (Nat.eqb_spec a2 b2); cbn [andb]; constructor; congruence.
Qed.

(* ---------- dict primitives ---------- *)
Lemma qd_energy_nil s : qd_energy [] s = 0.
Proof. reflexivity. Qed.

Lemma qd_energy_cons e q s : qd_energy (e :: q) s = snd e * s (fst (fst e)) * s (snd (fst e)) + qd_energy q s.
Proof. reflexivity. Qed.

Lemma hd_energy_nil s : hd_energy [] s = 0.
Proof. reflexivity. Qed.

Lemma hd_energy_cons e h s : hd_energy (e :: h) s = snd e * s (fst e) + hd_energy h s.
Proof. reflexivity. Qed.

Lemma qget_qset q k b k' : qget (qset q k b) k' = if pkey_eqb k k' then Some b else qget q k'.
Proof.
  induction q as [|[k0 b0] r IH]; cbn [qset qget].
  - destruct (pkey_eqb k k'); reflexivity.
  - destruct (pkey_eqb_spec k0 k) as [->|Hne]; cbn [qget].
    + destruct (pkey_eqb k k'); reflexivity.
    + rewrite IH. destruct (pkey_eqb_spec k0 k') as [->|Hne']; [|reflexivity].
      destruct (pkey_eqb_spec k k') as [->|]; [contradiction|reflexivity].
Qed.

Lemma qget_qset_other q k b k' : k <> k' -> qget (qset q k b) k' = qget q k'.
Proof. intros H. rewrite qget_qset. destruct (pkey_eqb_spec k k'); [contradiction|reflexivity]. Qed.

(* d[k] = b changes the energy by (b - old value) x_k1 x_k2; no uniqueness needed:
   get and set both act on the first occurrence *)
Lemma qd_energy_qset q k b s :
  qd_energy (qset q k b) s = qd_energy q s + (b - qget0 q k) * s (fst k) * s (snd k).
Proof.
  unfold qget0. induction q as [|[k0 b0] r IH]; cbn [qset qget].
  - rewrite qd_energy_cons, qd_energy_nil. cbn [fst snd]. ring.
  - destruct (pkey_eqb_spec k0 k) as [->|Hne].
    + rewrite !qd_energy_cons. cbn [fst snd]. ring.
    + rewrite !qd_energy_cons, IH. cbn [fst snd]. ring.
Qed.

Lemma qset_app_absent q k d x : qget q k = None -> qset (q ++ [(k, d)]) k x = qset q k x.
Proof.
  induction q as [|[k0 b0] r IH]; cbn [qget qset app]; intros H.
  - destruct (pkey_eqb_spec k k); [reflexivity|congruence].
  - destruct (pkey_eqb k0 k); [discriminate|]. rewrite IH by assumption. reflexivity.
Qed.

Lemma qsetdefault_then_set q k x :
  qset (fst (qsetdefault q k 0)) k x = qset q k x /\ snd (qsetdefault q k 0) = qget0 q k.
Proof.
  unfold qsetdefault, qget0. destruct (qget q k) eqn:E; cbn [fst snd]; split; try reflexivity.
  apply qset_app_absent. assumption.
Qed.

(* the loop body without the setdefault indirection *)
Lemma i2q_step_eq q e :
  i2q_step q e =
  if Qc_eqb (snd e) 0 then q else
    let u := fst (fst e) in let v := snd (fst e) in
    let q1 := qset q (u, v) (four * snd e) in
    let q3 := qset q1 (u, u) (qget0 q1 (u, u) - two * snd e) in
    qset q3 (v, v) (qget0 q3 (v, v) - two * snd e).
Proof.
  unfold i2q_step. destruct (Qc_eqb (snd e) 0); [reflexivity|]. cbv zeta.
  set (u := fst (fst e)). set (v := snd (fst e)). set (q1 := qset q (u, v) (four * snd e)).
  destruct (qsetdefault q1 (u, u) 0) as [q2 du] eqn:E1.
  destruct (qsetdefault_then_set q1 (u, u) (du - two * snd e)) as [Ha Hb]. rewrite E1 in Ha, Hb.
  cbn [fst snd] in Ha, Hb. rewrite Ha, Hb.
  set (q3 := qset q1 (u, u) (qget0 q1 (u, u) - two * snd e)).
  destruct (qsetdefault q3 (v, v) 0) as [q4 dv] eqn:E2.
  destruct (qsetdefault_then_set q3 (v, v) (dv - two * snd e)) as [Hc Hd]. rewrite E2 in Hc, Hd.
  cbn [fst snd] in Hc, Hd. rewrite Hc, Hd. reflexivity.
Qed.

(* what one coupling adds to the QUBO energy *)
Definition i2q_term (x : sample) (e : pkey * Qc) : Qc :=
  snd e * (four * x (fst (fst e)) * x (snd (fst e))
           - two * x (fst (fst e)) * x (fst (fst e)) - two * x (snd (fst e)) * x (snd (fst e))).

Lemma i2q_step_energy q e x :
  qget q (fst e) = None ->
  qd_energy (i2q_step q e) x = qd_energy q x + i2q_term x e.
Proof.
  intros Hfresh. rewrite i2q_step_eq. unfold i2q_term.
  destruct (Qc_eqb (snd e) 0) eqn:Ez.
  - apply qceqb_eq in Ez. rewrite Ez. ring.
  - cbv zeta. rewrite !qd_energy_qset. cbn [fst snd].
    assert (H0 : qget0 q (fst (fst e), snd (fst e)) = 0).
    { unfold qget0. destruct e as [[u v] b]. cbn [fst snd] in *. rewrite Hfresh. reflexivity. }
    rewrite H0. ring.
Qed.

Lemma i2q_step_qget_other q e k :
  k <> fst e -> fst k <> snd k -> qget (i2q_step q e) k = qget q k.
Proof.
  intros Hk Hoff. rewrite i2q_step_eq. destruct (Qc_eqb _ _); [reflexivity|]. cbv zeta.
  rewrite !qget_qset_other; try reflexivity.
  - destruct e as [[u v] b]. cbn [fst snd] in *. intro H. apply Hk. symmetry. exact H.
  - intro H. subst k. cbn [fst snd] in Hoff. apply Hoff. reflexivity.
  - intro H. subst k. cbn [fst snd] in Hoff. apply Hoff. reflexivity.
Qed.

Definition no_self_key (J : qdict) : Prop := forall u v b, In ((u, v), b) J -> u <> v.

Lemma i2q_loop_energy J : forall q x,
  NoDup (map fst J) -> no_self_key J ->
  (forall k, In k (map fst J) -> qget q k = None) ->
  qd_energy (fold_left i2q_step J q) x = qd_energy q x + qsum (map (i2q_term x) J).
Proof.
  induction J as [|e J IH]; intros q x Hnd Hns Hfresh; cbn [fold_left map qsum]; [ring|].
  inversion Hnd as [|? ? Hni Hnd']; subst.
  rewrite IH.
  - rewrite i2q_step_energy by (apply Hfresh; left; reflexivity). ring.
  - assumption.
  - intros u v b Hin. apply (Hns u v b). right. assumption.
  - intros k Hk. rewrite i2q_step_qget_other.
    + apply Hfresh. right. assumption.
    + intro H. subst k. contradiction.
    + apply in_map_iff in Hk. destruct Hk as [[[u v] b] [Hk Hin]]. subst k. cbn [fst snd].
      apply (Hns u v b). right. assumption.
Qed.

(* the dict comprehension *)
Lemma set_diag_loop_energy (f : Qc -> Qc) (l : hdict) : forall q x,
  NoDup (map fst l) ->
  (forall v, In v (map fst l) -> qget q (v, v) = None) ->
  qd_energy (fold_left (fun q e => qset q (fst e, fst e) (f (snd e))) l q) x =
  qd_energy q x + qsum (map (fun e => f (snd e) * x (fst e) * x (fst e)) l).
Proof.
  induction l as [|e l IH]; intros q x Hnd Hfresh; cbn [fold_left map qsum]; [ring|].
  inversion Hnd as [|? ? Hni Hnd']; subst.
  rewrite IH.
  - rewrite qd_energy_qset. unfold qget0. rewrite Hfresh by (left; reflexivity). cbn [fst snd]. ring.
  - assumption.
  - intros v Hv. rewrite qget_qset_other.
    + apply Hfresh. right. assumption.
    + intro H. inversion H. subst v. contradiction.
Qed.

Lemma set_diag_loop_qget_off (f : Qc -> Qc) (l : hdict) : forall q k,
  fst k <> snd k ->
  qget (fold_left (fun q e => qset q (fst e, fst e) (f (snd e))) l q) k = qget q k.
Proof.
  induction l as [|e l IH]; intros q k Hoff; cbn [fold_left]; [reflexivity|].
  rewrite IH by assumption. apply qget_qset_other. intro H. subst k. apply Hoff. reflexivity.
Qed.

Definition binary_valued (x : sample) : Prop := forall v, x v * x v = x v.
Definition spin_valued (s : sample) : Prop := forall v, s v * s v = 1.

Lemma h_sum_binary (x : sample) (h : hdict) :
  binary_valued x ->
  qsum (map (fun e => two * snd e * x (fst e) * x (fst e)) h) - qsum (map snd h) =
  hd_energy h (fun v => two * x v - 1).
Proof.
  intros Hb. induction h as [|e h IH]; cbn [map qsum]; [rewrite hd_energy_nil; ring|].
  rewrite hd_energy_cons, <- IH.
  replace (two * snd e * x (fst e) * x (fst e)) with (two * snd e * (x (fst e) * x (fst e))) by ring.
  rewrite Hb. ring.
Qed.

Lemma J_sum_binary (x : sample) (J : qdict) :
  binary_valued x ->
  qsum (map (i2q_term x) J) + qsum (map snd J) = qd_energy J (fun v => two * x v - 1).
Proof.
  intros Hb. induction J as [|e J IH]; cbn [map qsum]; [rewrite qd_energy_nil; ring|].
  rewrite qd_energy_cons, <- IH. unfold i2q_term.
  replace (two * x (fst (fst e)) * x (fst (fst e))) with (two * (x (fst (fst e)) * x (fst (fst e)))) by ring.
  replace (two * x (snd (fst e)) * x (snd (fst e))) with (two * (x (snd (fst e)) * x (snd (fst e)))) by ring.
  rewrite !Hb. unfold four. ring.
Qed.

(* ===== ising_to_qubo preserves the energy (J without self keys) ===== *)
Theorem ising_to_qubo_energy h J off x :
  NoDup (map fst h) -> NoDup (map fst J) -> no_self_key J -> binary_valued x ->
  qubo_energy (fst (ising_to_qubo h J off)) (snd (ising_to_qubo h J off)) x =
  ising_energy h J off (fun v => two * x v - 1).
Proof.
  intros Hh HJ Hns Hb. unfold ising_to_qubo, qubo_energy, ising_energy. cbn [fst snd].
  rewrite i2q_loop_energy; try assumption.
  - unfold i2q_init. rewrite (set_diag_loop_energy (fun b => two * b)).
    + rewrite qd_energy_nil. rewrite <- (h_sum_binary x h Hb), <- (J_sum_binary x J Hb). ring.
    + assumption.
    + intros v _. reflexivity.
  - intros k Hk. unfold i2q_init. rewrite (set_diag_loop_qget_off (fun b => two * b)); [reflexivity|].
    apply in_map_iff in Hk. destruct Hk as [[[u v] b] [Hk Hin]]. subst k. cbn [fst snd].
    apply (Hns u v b). assumption.
Qed.

(* ===== a self key in J: the diagonal entry is overwritten =====
   dimod.ising_to_qubo({0: 1.0, 1: 0.5}, {(0, 0): 3.0, (0, 1): 2.0}, 0.0)
     == ({(0, 0): -4.0, (1, 1): -3.0, (0, 1): 8.0}, 3.5)
   `q[(u, v)] = 4. * bias` replaces the entry 2 h_u when u == v; at x = (1, 0), i.e. s = (1, -1),
   the QUBO energy is -0.5 while the Ising energy is 1.5. *)
Example ising_to_qubo_self_key_output :
  ising_to_qubo_matches selfkey_h selfkey_J 0
    [((0%nat, 0%nat), - four); ((1%nat, 1%nat), - (two + 1)); ((0%nat, 1%nat), four * two)]
    (two + 1 + half) = true.
Proof. vm_compute. reflexivity. Qed.

Lemma selfkey_x_binary : binary_valued selfkey_x.
Proof. intros v. unfold selfkey_x. destruct (v =? 0)%nat; ring. Qed.

Theorem ising_to_qubo_self_key_refuted :
  exists h J off x,
    NoDup (map fst h) /\ NoDup (map fst J) /\ binary_valued x /\
    qubo_energy (fst (ising_to_qubo h J off)) (snd (ising_to_qubo h J off)) x <>
    ising_energy h J off (fun v => two * x v - 1).
Proof.
  exists selfkey_h, selfkey_J, 0, selfkey_x. split; [|split; [|split]].
  - cbn [selfkey_h map fst]. repeat constructor; cbn [In]; intuition discriminate.
  - cbn [selfkey_J map fst]. repeat constructor; cbn [In]; intuition discriminate.
  - exact selfkey_x_binary.
  - intro H. apply qceqb_eq in H.
    assert (F : Qc_eqb (qubo_energy (fst (ising_to_qubo selfkey_h selfkey_J 0))
                          (snd (ising_to_qubo selfkey_h selfkey_J 0)) selfkey_x)
                       (ising_energy selfkey_h selfkey_J 0 (fun v => two * selfkey_x v - 1)) = false)
      by (vm_compute; reflexivity).
    rewrite F in H. discriminate H.
Qed.

(* the two energies of the instance, as numbers *)
Example self_key_energies :
  Qc_eqb (qubo_energy (fst (ising_to_qubo selfkey_h selfkey_J 0))
            (snd (ising_to_qubo selfkey_h selfkey_J 0)) selfkey_x) (- half) = true /\
  Qc_eqb (ising_energy selfkey_h selfkey_J 0 (fun v => two * selfkey_x v - 1)) (1 + half) = true.
Proof. split; vm_compute; reflexivity. Qed.

(* ---------- qubo_to_ising ---------- *)
Lemma hget_hset h v b v' : hget (hset h v b) v' = if (v =? v')%nat then Some b else hget h v'.
Proof.
  induction h as [|[v0 b0] r IH]; cbn [hset hget].
  - destruct (v =? v')%nat; reflexivity.
  - destruct (Nat.eqb_spec v0 v) as [->|Hne]; cbn [hget].
    + destruct (v =? v')%nat; reflexivity.
    + rewrite IH. destruct (Nat.eqb_spec v0 v') as [->|Hne']; [|reflexivity].
      destruct (Nat.eqb_spec v v') as [->|]; [contradiction|reflexivity].
Qed.

Lemma hd_energy_hset h v b s : hd_energy (hset h v b) s = hd_energy h s + (b - hget0 h v) * s v.
Proof.
  unfold hget0. induction h as [|[v0 b0] r IH]; cbn [hset hget].
  - rewrite hd_energy_cons, hd_energy_nil. cbn [fst snd]. ring.
  - destruct (Nat.eqb_spec v0 v) as [->|Hne].
    + rewrite !hd_energy_cons. cbn [fst snd]. ring.
    + rewrite !hd_energy_cons, IH. cbn [fst snd]. ring.
Qed.

Lemma hd_energy_hadd h v b s : hd_energy (hadd h v b) s = hd_energy h s + b * s v.
Proof.
  unfold hadd. destruct (hget h v) eqn:E; rewrite hd_energy_hset; unfold hget0; rewrite E; ring.
Qed.

Definition st_energy (st : q2i_state) (s : sample) : Qc :=
  hd_energy (st_h st) s + qd_energy (st_J st) s + (half * st_lo st + quarter * st_qo st).

Definition q2i_term (s : sample) (e : pkey * Qc) : Qc :=
  if (fst (fst e) =? snd (fst e))%nat then half * snd e * (s (fst (fst e)) + 1)
  else quarter * snd e *
       (s (fst (fst e)) * s (snd (fst e)) + s (fst (fst e)) + s (snd (fst e)) + 1).

Lemma q2i_step_energy st e s :
  qget (st_J st) (fst e) = None ->
  st_energy (q2i_step st e) s = st_energy st s + q2i_term s e.
Proof.
  intros Hfresh. unfold q2i_step, q2i_term, st_energy.
  destruct (fst (fst e) =? snd (fst e))%nat; cbn [st_h st_J st_lo st_qo].
  - rewrite hd_energy_hadd. ring.
  - rewrite !hd_energy_hadd. destruct (Qc_eqb (snd e) 0) eqn:Ez.
    + apply qceqb_eq in Ez. rewrite Ez. ring.
    + rewrite qd_energy_qset. cbn [fst snd].
      assert (H0 : qget0 (st_J st) (fst (fst e), snd (fst e)) = 0).
      { unfold qget0. destruct e as [[u v] b]. cbn [fst snd] in *. rewrite Hfresh. reflexivity. }
      rewrite H0. ring.
Qed.

Lemma q2i_step_qget_other st e k :
  k <> fst e -> qget (st_J (q2i_step st e)) k = qget (st_J st) k.
Proof.
  intros Hk. unfold q2i_step. destruct (_ =? _)%nat; cbn [st_J]; [reflexivity|].
  destruct (Qc_eqb _ _); [reflexivity|]. apply qget_qset_other.
  destruct e as [[u v] b]. cbn [fst snd] in *. intro H. apply Hk. symmetry. exact H.
Qed.

Lemma q2i_loop_energy Q : forall st s,
  NoDup (map fst Q) ->
  (forall k, In k (map fst Q) -> qget (st_J st) k = None) ->
  st_energy (fold_left q2i_step Q st) s = st_energy st s + qsum (map (q2i_term s) Q).
Proof.
  induction Q as [|e Q IH]; intros st s Hnd Hfresh; cbn [fold_left map qsum]; [ring|].
  inversion Hnd as [|? ? Hni Hnd']; subst.
  rewrite IH.
  - rewrite q2i_step_energy by (apply Hfresh; left; reflexivity). ring.
  - assumption.
  - intros k Hk. rewrite q2i_step_qget_other.
    + apply Hfresh. right. assumption.
    + intro H. subst k. contradiction.
Qed.

Lemma q2i_term_spin s e :
  spin_valued s -> q2i_term s e = pterm_val (fun v => (s v + 1) * half) e.
Proof.
  intros Hs. unfold q2i_term, pterm_val.
  destruct (Nat.eqb_spec (fst (fst e)) (snd (fst e))) as [E|E].
  - rewrite <- E.
    transitivity (snd e * (half * half) * (s (fst (fst e)) * s (fst (fst e)) + two * s (fst (fst e)) + 1));
      [|unfold two; ring].
    rewrite Hs. unfold half, two. field. intro H. discriminate H.
  - unfold quarter. ring.
Qed.

(* ===== qubo_to_ising preserves the energy ===== *)
Theorem qubo_to_ising_energy Q off s :
  NoDup (map fst Q) -> spin_valued s ->
  ising_energy (fst (fst (qubo_to_ising Q off))) (snd (fst (qubo_to_ising Q off)))
               (snd (qubo_to_ising Q off)) s =
  qubo_energy Q off (fun v => (s v + 1) * half).
Proof.
  intros Hnd Hs. unfold qubo_to_ising, ising_energy, qubo_energy. cbn [fst snd].
  pose proof (q2i_loop_energy Q (mkQ2I [] [] 0 0) s Hnd (fun k _ => eq_refl)) as H.
  fold (q2i_loop Q) in H. unfold st_energy in H. cbn [st_h st_J st_lo st_qo] in H.
  rewrite hd_energy_nil, qd_energy_nil in H.
  assert (HT : qsum (map (q2i_term s) Q) = qd_energy Q (fun v => (s v + 1) * half)).
  { unfold qd_energy. f_equal. apply map_ext. intros e. apply q2i_term_spin. assumption. }
  rewrite <- HT.
  transitivity (off + (hd_energy (st_h (q2i_loop Q)) s + qd_energy (st_J (q2i_loop Q)) s +
                       (half * st_lo (q2i_loop Q) + quarter * st_qo (q2i_loop Q)))); [ring|].
  rewrite H. ring.
Qed.

(* ---------- keys stay unique ---------- *)
Lemma qset_keys_in q k b k' : In k' (map fst (qset q k b)) <-> k' = k \/ In k' (map fst q).
Proof.
  induction q as [|[k0 b0] r IH]; cbn [qset map fst In].
  - intuition.
  - destruct (pkey_eqb_spec k0 k) as [->|Hne]; cbn [map fst In].
    + intuition.
    + rewrite IH. intuition.
Qed.

Lemma qset_nodup q k b : NoDup (map fst q) -> NoDup (map fst (qset q k b)).
Proof.
  induction q as [|[k0 b0] r IH]; cbn [qset map fst]; intros H.
  - constructor; [intros []|constructor].
  - inversion H as [|? ? Hni Hnd]; subst.
    destruct (pkey_eqb_spec k0 k) as [->|Hne]; cbn [map fst].
    + constructor; assumption.
    + constructor; [|apply IH; assumption].
      rewrite qset_keys_in. intros [E|E]; [apply Hne; assumption|contradiction].
Qed.

Lemma i2q_step_nodup q e : NoDup (map fst q) -> NoDup (map fst (i2q_step q e)).
Proof.
  intros H. rewrite i2q_step_eq. destruct (Qc_eqb _ _); [assumption|]. cbv zeta.
  repeat apply qset_nodup. assumption.
Qed.

Lemma ising_to_qubo_nodup h J off : NoDup (map fst (fst (ising_to_qubo h J off))).
Proof.
  unfold ising_to_qubo. cbn [fst].
  assert (H0 : NoDup (map fst (i2q_init h))).
  { unfold i2q_init.
    assert (Hn : NoDup (map fst (@nil (pkey * Qc)))) by constructor.
    revert Hn. generalize (@nil (pkey * Qc)).
    induction h as [|e h IH]; intros q Hq; cbn [fold_left]; [exact Hq|].
    apply IH. apply qset_nodup. exact Hq. }
  revert H0. generalize (i2q_init h).
  induction J as [|e J IH]; intros q Hq; cbn [fold_left]; [exact Hq|].
  apply IH. apply i2q_step_nodup. exact Hq.
Qed.

Lemma spin_gives_binary s : spin_valued s -> binary_valued (fun v => (s v + 1) * half).
Proof.
  intros Hs v. cbv beta.
  transitivity (half * half * (s v * s v + two * s v + 1)); [unfold two; ring|].
  rewrite Hs. unfold half, two. field. intro H. discriminate H.
Qed.

Lemma binary_gives_spin x : binary_valued x -> spin_valued (fun v => two * x v - 1).
Proof.
  intros Hb v. cbv beta.
  transitivity (two * two * (x v * x v) - two * two * x v + 1); [unfold two; ring|]. rewrite Hb. ring.
Qed.

Lemma spin_back (s : sample) v : two * ((s v + 1) * half) - 1 = s v.
Proof. transitivity ((s v + 1) * (two * half) - 1); [ring|]. rewrite two_half. ring. Qed.

Lemma binary_back (x : sample) v : (two * x v - 1 + 1) * half = x v.
Proof. transitivity (x v * (two * half)); [ring|]. rewrite two_half. ring. Qed.

Lemma hd_energy_ext h s s' : (forall v, s v = s' v) -> hd_energy h s = hd_energy h s'.
Proof. intros H. unfold hd_energy. f_equal. apply map_ext. intros e. unfold hterm_val. rewrite H. reflexivity. Qed.

Lemma qd_energy_ext q s s' : (forall v, s v = s' v) -> qd_energy q s = qd_energy q s'.
Proof. intros H. unfold qd_energy. f_equal. apply map_ext. intros e. unfold pterm_val. rewrite !H. reflexivity. Qed.

(* ===== there and back: Ising -> QUBO -> Ising gives the same energy at every spin sample ===== *)
Theorem ising_qubo_roundtrip_energy h J off s :
  NoDup (map fst h) -> NoDup (map fst J) -> no_self_key J -> spin_valued s ->
  let r := ising_to_qubo h J off in
  let r' := qubo_to_ising (fst r) (snd r) in
  ising_energy (fst (fst r')) (snd (fst r')) (snd r') s = ising_energy h J off s.
Proof.
  intros Hh HJ Hns Hs. cbv zeta.
  rewrite qubo_to_ising_energy by (try apply ising_to_qubo_nodup; assumption).
  rewrite ising_to_qubo_energy by (try apply spin_gives_binary; assumption).
  unfold ising_energy. f_equal; [f_equal|].
  - apply hd_energy_ext. intros v. apply spin_back.
  - apply qd_energy_ext. intros v. apply spin_back.
Qed.

(* ===== QUBO -> Ising -> QUBO at every binary sample ===== *)
Lemma hset_keys_in h v b v' : In v' (map fst (hset h v b)) <-> v' = v \/ In v' (map fst h).
Proof.
  induction h as [|[v0 b0] r IH]; cbn [hset map fst In].
  - intuition.
  - destruct (Nat.eqb_spec v0 v) as [->|Hne]; cbn [map fst In].
    + intuition.
    + rewrite IH. intuition.
Qed.

Lemma hset_nodup h v b : NoDup (map fst h) -> NoDup (map fst (hset h v b)).
Proof.
  induction h as [|[v0 b0] r IH]; cbn [hset map fst]; intros H.
  - constructor; [intros []|constructor].
  - inversion H as [|? ? Hni Hnd]; subst.
    destruct (Nat.eqb_spec v0 v) as [->|Hne]; cbn [map fst].
    + constructor; assumption.
    + constructor; [|apply IH; assumption].
      rewrite hset_keys_in. intros [E|E]; [apply Hne; assumption|contradiction].
Qed.

Lemma hadd_nodup h v b : NoDup (map fst h) -> NoDup (map fst (hadd h v b)).
Proof. intros H. unfold hadd. destruct (hget h v); apply hset_nodup; assumption. Qed.

Lemma qset_in q k b e : In e (qset q k b) -> e = (k, b) \/ In e q.
Proof.
  induction q as [|[k0 b0] r IH]; cbn [qset In].
  - intuition.
  - destruct (pkey_eqb_spec k0 k) as [->|Hne]; cbn [In]; intuition.
Qed.

Definition q2i_inv (st : q2i_state) : Prop :=
  NoDup (map fst (st_h st)) /\ NoDup (map fst (st_J st)) /\ no_self_key (st_J st).

Lemma q2i_step_inv st e : q2i_inv st -> q2i_inv (q2i_step st e).
Proof.
  intros [Hh [HJ Hns]]. unfold q2i_step, q2i_inv.
  destruct (Nat.eqb_spec (fst (fst e)) (snd (fst e))) as [E|E]; cbn [st_h st_J].
  - split; [apply hadd_nodup; assumption|split; assumption].
  - split; [repeat apply hadd_nodup; assumption|].
    destruct (Qc_eqb _ _); [split; assumption|]. split; [apply qset_nodup; assumption|].
    intros u v b Hin. apply qset_in in Hin. destruct Hin as [Hin|Hin].
    + inversion Hin; subst. exact E.
    + apply (Hns u v b). assumption.
Qed.

Lemma qubo_to_ising_inv Q : q2i_inv (q2i_loop Q).
Proof.
  unfold q2i_loop.
  assert (H0 : q2i_inv (mkQ2I [] [] 0 0)).
  { unfold q2i_inv; cbn [st_h st_J map]. split; [constructor|split; [constructor|]]. intros u v b []. }
  revert H0. generalize (mkQ2I [] [] 0 0).
  induction Q as [|e Q IH]; intros st Hst; cbn [fold_left]; [exact Hst|].
  apply IH. apply q2i_step_inv. exact Hst.
Qed.

Theorem qubo_ising_roundtrip_energy Q off x :
  NoDup (map fst Q) -> binary_valued x ->
  let r := qubo_to_ising Q off in
  let r' := ising_to_qubo (fst (fst r)) (snd (fst r)) (snd r) in
  qubo_energy (fst r') (snd r') x = qubo_energy Q off x.
Proof.
  intros HQ Hb. cbv zeta.
  destruct (qubo_to_ising_inv Q) as [Hh [HJ Hns]].
  rewrite ising_to_qubo_energy; try assumption.
  rewrite qubo_to_ising_energy by (try apply binary_gives_spin; assumption).
  unfold qubo_energy. f_equal. apply qd_energy_ext. intros v. apply binary_back.
Qed.

(* ---------- BinaryQuadraticModel.to_qubo / to_ising / from_qubo / from_ising ---------- *)
Definition no_self_loop (p : poly) : Prop := forall t, In t (p_quad p) -> fst (fst t) <> snd (fst t).

Lemma qd_energy_of_quad (l : list qterm) s :
  qd_energy (map (fun t : qterm => (fst t, snd t)) l) s = quad_energy l s.
Proof.
  unfold qd_energy, quad_energy. rewrite map_map. f_equal.
Qed.

Theorem to_qubo_energy p x :
  no_self_loop p -> NoDup (map fst (p_lin p)) -> binary_valued x ->
  qubo_energy (fst (to_qubo_of_poly p)) (snd (to_qubo_of_poly p)) x = energy p x.
Proof.
  intros Hns Hnd Hb. unfold to_qubo_of_poly, qubo_energy, energy. cbn [fst snd].
  pose proof (set_diag_loop_energy (fun b => b) (p_lin p)
                (map (fun t : qterm => (fst t, snd t)) (p_quad p)) x Hnd) as H.
  cbv beta in H. rewrite H; clear H.
  - rewrite qd_energy_of_quad.
    assert (HL : qsum (map (fun e : label * Qc => snd e * x (fst e) * x (fst e)) (p_lin p)) =
                 lin_energy (p_lin p) x).
    { unfold lin_energy. f_equal. apply map_ext. intros e. unfold lterm_val.
      rewrite <- Qcmult_assoc, Hb. reflexivity. }
    rewrite HL. ring.
  - intros v _. unfold no_self_loop in Hns. revert Hns. clear.
    induction (p_quad p) as [|t l IH]; intros Hns; [reflexivity|].
    cbn [map qget fst snd]. destruct (pkey_eqb_spec (fst t) (v, v)) as [E|E].
    + exfalso. apply (Hns t); [left; reflexivity|]. rewrite E. reflexivity.
    + apply IH. intros t' Ht'. apply Hns. right. assumption.
Qed.

Theorem to_ising_energy p s :
  ising_energy (fst (fst (to_ising_of_poly p))) (snd (fst (to_ising_of_poly p)))
               (snd (to_ising_of_poly p)) s = energy p s.
Proof.
  unfold to_ising_of_poly, ising_energy, energy. cbn [fst snd]. rewrite qd_energy_of_quad. reflexivity.
Qed.

Lemma init_quadratic_energy vt Q : forall p s,
  respects (fun _ => vt) s ->
  energy (init_quadratic vt Q p) s = energy p s + qd_energy Q s.
Proof.
  unfold init_quadratic. induction Q as [|e Q IH]; intros p s Hr; cbn [fold_left].
  - rewrite qd_energy_nil. ring.
  - rewrite IH by assumption. rewrite energy_add_quadratic by assumption. rewrite qd_energy_cons. ring.
Qed.

Lemma init_linear_energy h : forall p s,
  energy (init_linear h p) s = energy p s + hd_energy h s.
Proof.
  unfold init_linear. induction h as [|e h IH]; intros p s; cbn [fold_left].
  - rewrite hd_energy_nil. ring.
  - rewrite IH, energy_add_linear, hd_energy_cons. ring.
Qed.

Lemma energy_const_poly off s : energy (mkPoly off [] []) s = off.
Proof. unfold energy, lin_energy, quad_energy. cbn [p_off p_lin p_quad map qsum]. ring. Qed.

(* from_qubo: a diagonal key folds into the linear bias; right on binary samples *)
Theorem from_qubo_energy Q off x :
  binary_valued x -> energy (from_qubo Q off) x = qubo_energy Q off x.
Proof.
  intros Hb. unfold from_qubo, qubo_energy.
  rewrite init_linear_energy, init_quadratic_energy, energy_const_poly, hd_energy_nil; [ring|].
  intros v. apply Hb.
Qed.

(* from_ising: a self key of J folds into the offset; right on spin samples *)
Theorem from_ising_energy h J off s :
  spin_valued s -> energy (from_ising h J off) s = ising_energy h J off s.
Proof.
  intros Hs. unfold from_ising, ising_energy.
  rewrite init_linear_energy, init_quadratic_energy, energy_const_poly; [ring|].
  intros v. apply Hs.
Qed.

Print Assumptions ising_to_qubo_energy.
Print Assumptions qubo_to_ising_energy.
Print Assumptions ising_to_qubo_self_key_refuted.
Print Assumptions ising_qubo_roundtrip_energy.
Print Assumptions qubo_ising_roundtrip_energy.
Print Assumptions to_qubo_energy.
Print Assumptions from_qubo_energy.
Print Assumptions from_ising_energy.

(* ---------- coefficient level: any linear functional of the dict ---------- *)
Definition qd_lin (w : nat * nat -> Qc) (q : qdict) : Qc := qsum (map (fun e => snd e * w (fst e)) q).

Lemma qd_lin_qset w q k b : qd_lin w (qset q k b) = qd_lin w q + (b - qget0 q k) * w k.
Proof.
  unfold qget0, qd_lin. induction q as [|[k0 b0] r IH]; cbn [qset qget map qsum fst snd].
  - ring.
  - destruct (pkey_eqb_spec k0 k) as [->|Hne]; cbn [map qsum fst snd]; [ring|rewrite IH; ring].
Qed.

Definition i2q_wterm (w : nat * nat -> Qc) (e : (nat * nat) * Qc) : Qc :=
  snd e * (four * w (fst (fst e), snd (fst e)) - two * w (fst (fst e), fst (fst e))
           - two * w (snd (fst e), snd (fst e))).

Lemma i2q_step_lin w q e :
  qget q (fst e) = None -> qd_lin w (i2q_step q e) = qd_lin w q + i2q_wterm w e.
Proof.
  intros Hfresh. rewrite i2q_step_eq. unfold i2q_wterm.
  destruct (Qc_eqb (snd e) 0) eqn:Ez.
  - apply qceqb_eq in Ez. rewrite Ez. ring.
  - cbv zeta. rewrite !qd_lin_qset.
    assert (H0 : qget0 q (fst (fst e), snd (fst e)) = 0).
    { unfold qget0. destruct e as [[u v] b]. cbn [fst snd] in *. rewrite Hfresh. reflexivity. }
    rewrite H0. ring.
Qed.

Lemma i2q_loop_lin w J : forall q,
  NoDup (map fst J) -> no_self_key J ->
  (forall k, In k (map fst J) -> qget q k = None) ->
  qd_lin w (fold_left i2q_step J q) = qd_lin w q + qsum (map (i2q_wterm w) J).
Proof.
  induction J as [|e J IH]; intros q Hnd Hns Hfresh; cbn [fold_left map qsum]; [ring|].
  inversion Hnd as [|? ? Hni Hnd']; subst.
  rewrite IH.
  - rewrite i2q_step_lin by (apply Hfresh; left; reflexivity). ring.
  - assumption.
  - intros u v b Hin. apply (Hns u v b). right. assumption.
  - intros k Hk. rewrite i2q_step_qget_other.
    + apply Hfresh. right. assumption.
    + intro H. subst k. contradiction.
    + apply in_map_iff in Hk. destruct Hk as [[[u v] b] [Hk Hin]]. subst k. cbn [fst snd].
      apply (Hns u v b). right. assumption.
Qed.

Lemma set_diag_loop_lin w (f : Qc -> Qc) (l : hdict) : forall q,
  NoDup (map fst l) ->
  (forall v, In v (map fst l) -> qget q (v, v) = None) ->
  qd_lin w (fold_left (fun q e => qset q (fst e, fst e) (f (snd e))) l q) =
  qd_lin w q + qsum (map (fun e => f (snd e) * w (fst e, fst e)) l).
Proof.
  induction l as [|e l IH]; intros q Hnd Hfresh; cbn [fold_left map qsum]; [ring|].
  inversion Hnd as [|? ? Hni Hnd']; subst.
  rewrite IH.
  - rewrite qd_lin_qset. unfold qget0. rewrite Hfresh by (left; reflexivity). ring.
  - assumption.
  - intros v Hv. rewrite qget_qset_other.
    + apply Hfresh. right. assumption.
    + intro H. inversion H. subst v. contradiction.
Qed.

Lemma ising_to_qubo_lin w h J off :
  NoDup (map fst h) -> NoDup (map fst J) -> no_self_key J ->
  qd_lin w (fst (ising_to_qubo h J off)) =
  qsum (map (fun e => two * snd e * w (fst e, fst e)) h) + qsum (map (i2q_wterm w) J).
Proof.
  intros Hh HJ Hns. unfold ising_to_qubo. cbn [fst].
  rewrite i2q_loop_lin; try assumption.
  - unfold i2q_init. rewrite (set_diag_loop_lin w (fun b => two * b)); try assumption.
    + unfold qd_lin at 1. cbn [map qsum]. ring.
    + intros v _. reflexivity.
  - intros k Hk. unfold i2q_init. rewrite (set_diag_loop_qget_off (fun b => two * b)); [reflexivity|].
    apply in_map_iff in Hk. destruct Hk as [[[u v] b] [Hk Hin]]. subst k. cbn [fst snd].
    apply (Hns u v b). assumption.
Qed.

(* ---------- what qubo_to_ising reads off a dict ---------- *)
Lemma hget0_hadd h u c v : hget0 (hadd h u c) v = hget0 h v + (if (u =? v)%nat then c else 0).
Proof.
  unfold hadd, hget0. destruct (hget h u) eqn:E; rewrite hget_hset;
    destruct (Nat.eqb_spec u v) as [->|Hne]; rewrite ?E; ring.
Qed.

Definition ind (b : bool) : Qc := if b then 1 else 0.

Definition wh (v : label) (k : nat * nat) : Qc :=
  if (fst k =? snd k)%nat then half * ind (fst k =? v)%nat
  else quarter * (ind (fst k =? v)%nat + ind (snd k =? v)%nat).
Definition wlo (k : nat * nat) : Qc := ind (fst k =? snd k)%nat.
Definition wqo (k : nat * nat) : Qc := ind (negb (fst k =? snd k)%nat).

Lemma q2i_step_h v st e : hget0 (st_h (q2i_step st e)) v = hget0 (st_h st) v + snd e * wh v (fst e).
Proof.
  unfold q2i_step, wh, ind. destruct (fst (fst e) =? snd (fst e))%nat; cbn [st_h]; rewrite ?hget0_hadd;
    destruct (fst (fst e) =? v)%nat; destruct (snd (fst e) =? v)%nat; ring.
Qed.

Lemma q2i_step_lo st e : st_lo (q2i_step st e) = st_lo st + snd e * wlo (fst e).
Proof. unfold q2i_step, wlo, ind. destruct (fst (fst e) =? snd (fst e))%nat; cbn [st_lo]; ring. Qed.

Lemma q2i_step_qo st e : st_qo (q2i_step st e) = st_qo st + snd e * wqo (fst e).
Proof. unfold q2i_step, wqo, ind. destruct (fst (fst e) =? snd (fst e))%nat; cbn [st_qo negb]; ring. Qed.

Lemma q2i_loop_reads v Q : forall st,
  hget0 (st_h (fold_left q2i_step Q st)) v = hget0 (st_h st) v + qd_lin (wh v) Q /\
  st_lo (fold_left q2i_step Q st) = st_lo st + qd_lin wlo Q /\
  st_qo (fold_left q2i_step Q st) = st_qo st + qd_lin wqo Q.
Proof.
  unfold qd_lin. induction Q as [|e Q IH]; intros st; cbn [fold_left map qsum].
  - repeat split; ring.
  - destruct (IH (q2i_step st e)) as [A [B C]]. rewrite A, B, C, q2i_step_h, q2i_step_lo, q2i_step_qo.
    repeat split; ring.
Qed.

Lemma nat_eqb_sym a b : (a =? b)%nat = (b =? a)%nat.
Proof. destruct (Nat.eqb_spec a b), (Nat.eqb_spec b a); congruence. Qed.

Lemma hget0_sum h v : NoDup (map fst h) -> hget0 h v = qsum (map (fun e => snd e * ind (fst e =? v)%nat) h).
Proof.
  unfold hget0, ind. induction h as [|[u b] r IH]; intros Hnd; cbn [hget map qsum fst snd]; [reflexivity|].
  inversion Hnd as [|? ? Hni Hnd']; subst.
  destruct (Nat.eqb_spec u v) as [->|Hne].
  - assert (Hz : qsum (map (fun e : nat * Qc => snd e * (if (fst e =? v)%nat then 1 else 0)) r) = 0).
    { clear IH Hnd Hnd'. induction r as [|[u' b'] r IH]; cbn [map qsum fst snd]; [reflexivity|].
      cbn [map fst In] in Hni. destruct (Nat.eqb_spec u' v) as [->|Hne']; [exfalso; apply Hni; left; reflexivity|].
      rewrite IH; [ring|]. intro H. apply Hni. right. assumption. }
    rewrite Hz. ring.
  - rewrite <- IH by assumption. ring.
Qed.

Lemma sum_h_wlo (h : hdict) :
  qsum (map (fun e : nat * Qc => two * snd e * wlo (fst e, fst e)) h) = two * qsum (map snd h).
Proof.
  induction h as [|e h' IH]; cbn [map qsum]; [ring|]. rewrite IH.
  unfold wlo, ind. cbn [fst snd]. rewrite Nat.eqb_refl. ring.
Qed.

Lemma sum_h_wqo (h : hdict) :
  qsum (map (fun e : nat * Qc => two * snd e * wqo (fst e, fst e)) h) = 0.
Proof.
  induction h as [|e h' IH]; cbn [map qsum]; [ring|]. rewrite IH.
  unfold wqo, ind. cbn [fst snd]. rewrite Nat.eqb_refl. cbn [negb]. ring.
Qed.

Lemma sum_J_wlo (J : qdict) : no_self_key J -> qsum (map (i2q_wterm wlo) J) = - (four * qsum (map snd J)).
Proof.
  intros Hns. induction J as [|[[a b] c] J' IH]; cbn [map qsum]; [ring|].
  rewrite IH by (intros u v x Hin; apply (Hns u v x); right; assumption).
  unfold i2q_wterm, wlo, ind. cbn [fst snd]. rewrite !Nat.eqb_refl.
  destruct (Nat.eqb_spec a b) as [E|E]; [exfalso; apply (Hns a b c); [left; reflexivity|exact E]|].
  unfold four, two. ring.
Qed.

Lemma sum_J_wqo (J : qdict) : no_self_key J -> qsum (map (i2q_wterm wqo) J) = four * qsum (map snd J).
Proof.
  intros Hns. induction J as [|[[a b] c] J' IH]; cbn [map qsum]; [ring|].
  rewrite IH by (intros u v x Hin; apply (Hns u v x); right; assumption).
  unfold i2q_wterm, wqo, ind. cbn [fst snd]. rewrite !Nat.eqb_refl.
  destruct (Nat.eqb_spec a b) as [E|E]; [exfalso; apply (Hns a b c); [left; reflexivity|exact E]|].
  cbn [negb]. ring.
Qed.

(* ===== Ising -> QUBO -> Ising restores every linear bias and the offset ===== *)
Theorem ising_qubo_roundtrip_linear_offset h J off :
  NoDup (map fst h) -> NoDup (map fst J) -> no_self_key J ->
  let r := ising_to_qubo h J off in
  let r' := qubo_to_ising (fst r) (snd r) in
  (forall v, hget0 (fst (fst r')) v = hget0 h v) /\ snd r' = off.
Proof.
  intros Hh HJ Hns. cbv zeta. unfold qubo_to_ising. cbn [fst snd]. unfold q2i_loop.
  assert (HJsum : forall (g : nat * nat * Qc -> Qc), (forall e, In e J -> g e = 0) -> qsum (map g J) = 0).
  { intros g Hg. clear HJ Hns. induction J as [|e J' IH]; cbn [map qsum]; [reflexivity|].
    rewrite (Hg e) by (left; reflexivity). rewrite IH; [ring|]. intros e' He'. apply Hg. right. assumption. }
  split.
  - intros v. destruct (q2i_loop_reads v (fst (ising_to_qubo h J off)) (mkQ2I [] [] 0 0)) as [A _].
    rewrite A. cbn [st_h]. rewrite ising_to_qubo_lin by assumption. rewrite (hget0_sum h v Hh).
    assert (E1 : qsum (map (fun e : nat * Qc => two * snd e * wh v (fst e, fst e)) h) =
                 qsum (map (fun e => snd e * ind (fst e =? v)%nat) h)).
    { f_equal. apply map_ext. intros e. unfold wh. cbn [fst snd]. rewrite Nat.eqb_refl.
      transitivity ((two * half) * snd e * ind (fst e =? v)%nat); [ring|]. rewrite two_half. ring. }
    rewrite E1. rewrite HJsum; [unfold hget0; cbn [hget]; ring|].
    intros [[a b] c] Hin. unfold i2q_wterm, wh. cbn [fst snd]. rewrite !Nat.eqb_refl.
    destruct (Nat.eqb_spec a b) as [E|E]; [exfalso; apply (Hns a b c Hin E)|].
    transitivity (c * ((four * quarter) * (ind (a =? v)%nat + ind (b =? v)%nat)
                       - (two * half) * ind (a =? v)%nat - (two * half) * ind (b =? v)%nat)); [ring|].
    rewrite four_quarter, two_half. ring.
  - destruct (q2i_loop_reads 0%nat (fst (ising_to_qubo h J off)) (mkQ2I [] [] 0 0)) as [_ [B C]].
    rewrite B, C. cbn [st_lo st_qo]. rewrite !ising_to_qubo_lin by assumption.
    rewrite sum_h_wlo, sum_h_wqo, sum_J_wlo, sum_J_wqo by assumption.
    change (snd (ising_to_qubo h J off)) with (off + (qsum (map snd J) - qsum (map snd h))).
    transitivity (off + (qsum (map snd J) - qsum (map snd h))
                  + ((half * two) * qsum (map snd h) - (half * two) * (two * qsum (map snd J))
                     + (quarter * four) * qsum (map snd J))); [unfold four; ring|].
    rewrite (Qcmult_comm half two), (Qcmult_comm quarter four), two_half, four_quarter. unfold two. ring.
Qed.

(* ---------- the couplings ---------- *)
Lemma qget_absent (q : qdict) k : ~ In k (map fst q) -> qget q k = None.
Proof.
  induction q as [|[k0 b0] r IH]; cbn [qget map fst In]; intros H; [reflexivity|].
  destruct (pkey_eqb_spec k0 k) as [->|Hne]; [exfalso; apply H; left; reflexivity|].
  apply IH. intro Hin. apply H. right. assumption.
Qed.

Lemma i2q_loop_reads_off J : forall q k,
  fst k <> snd k -> NoDup (map fst J) -> no_self_key J ->
  (forall k', In k' (map fst J) -> qget q k' = None) ->
  qget0 (fold_left i2q_step J q) k = match qget J k with Some b => four * b | None => qget0 q k end.
Proof.
  induction J as [|[k0 b0] J IH]; intros q k Hoff Hnd Hns Hfresh; cbn [fold_left qget]; [reflexivity|].
  inversion Hnd as [|? ? Hni Hnd']; subst. cbn [fst] in Hni.
  assert (Hns' : no_self_key J) by (intros u v b Hin; apply (Hns u v b); right; assumption).
  assert (Hfresh' : forall k', In k' (map fst J) -> qget (i2q_step q (k0, b0)) k' = None).
  { intros k' Hk'. rewrite i2q_step_qget_other.
    - apply Hfresh. right. assumption.
    - cbn [fst]. intro H. subst k'. contradiction.
    - apply in_map_iff in Hk'. destruct Hk' as [[[u v] b] [Hk' Hin]]. subst k'. cbn [fst snd].
      apply (Hns' u v b). assumption. }
  rewrite IH by assumption.
  destruct (pkey_eqb_spec k0 k) as [->|Hne].
  - rewrite (qget_absent J k Hni). unfold qget0. rewrite i2q_step_eq. cbn [fst snd].
    destruct (Qc_eqb b0 0) eqn:Ez.
    + apply qceqb_eq in Ez. subst b0. rewrite (Hfresh k) by (left; reflexivity). ring.
    + cbv zeta.
      assert (Hd : forall a : nat, (a, a) <> k) by (intros a H; subst k; cbn [fst snd] in Hoff; apply Hoff; reflexivity).
      rewrite (qget_qset_other _ _ _ _ (Hd _)), (qget_qset_other _ _ _ _ (Hd _)), qget_qset.
      destruct k as [a b]. cbn [fst snd].
      destruct (pkey_eqb_spec (a, b) (a, b)) as [_|N]; [reflexivity|exfalso; apply N; reflexivity].
  - destruct (qget J k); [reflexivity|]. unfold qget0. rewrite i2q_step_qget_other; [reflexivity| |assumption].
    cbn [fst]. intro H. apply Hne. symmetry. exact H.
Qed.

Lemma q2i_loop_reads_J Q : forall st k,
  NoDup (map fst Q) ->
  (forall k', In k' (map fst Q) -> qget (st_J st) k' = None) ->
  qget0 (st_J (fold_left q2i_step Q st)) k =
  if (fst k =? snd k)%nat then qget0 (st_J st) k
  else match qget Q k with Some c => quarter * c | None => qget0 (st_J st) k end.
Proof.
  induction Q as [|[k0 c0] Q IH]; intros st k Hnd Hfresh; cbn [fold_left qget].
  - destruct (fst k =? snd k)%nat; reflexivity.
  - inversion Hnd as [|? ? Hni Hnd']; subst. cbn [fst] in Hni.
    assert (Hfresh' : forall k', In k' (map fst Q) -> qget (st_J (q2i_step st (k0, c0))) k' = None).
    { intros k' Hk'. rewrite q2i_step_qget_other.
      - apply Hfresh. right. assumption.
      - cbn [fst]. intro H. subst k'. contradiction. }
    rewrite IH by assumption.
    destruct (Nat.eqb_spec (fst k) (snd k)) as [Ed|Ed].
    + unfold qget0, q2i_step. cbn [fst snd]. destruct (Nat.eqb_spec (fst k0) (snd k0)) as [E0|E0]; cbn [st_J]; [reflexivity|].
      destruct (Qc_eqb c0 0); [reflexivity|]. rewrite qget_qset_other; [reflexivity|].
      intro H. apply E0. rewrite <- H in Ed. destruct k0; cbn [fst snd] in *. exact Ed.
    + destruct (pkey_eqb_spec k0 k) as [->|Hne].
      * rewrite (qget_absent Q k Hni). unfold qget0, q2i_step. cbn [fst snd].
        destruct (Nat.eqb_spec (fst k) (snd k)) as [E0|_]; [contradiction|]. cbn [st_J].
        destruct (Qc_eqb c0 0) eqn:Ez.
        -- apply qceqb_eq in Ez. subst c0. rewrite (Hfresh k) by (left; reflexivity). ring.
        -- rewrite qget_qset. destruct k as [a b]. cbn [fst snd].
           destruct (pkey_eqb_spec (a, b) (a, b)) as [_|N]; [reflexivity|exfalso; apply N; reflexivity].
      * destruct (qget Q k); [reflexivity|]. unfold qget0. rewrite q2i_step_qget_other; [reflexivity|].
        cbn [fst]. intro H. apply Hne. symmetry. exact H.
Qed.

(* ===== Ising -> QUBO -> Ising restores every coefficient =====
   (as functions of the key: a zero coupling of J is dropped, an endpoint of a coupling
   that has no entry in h gets an explicit zero bias) *)
Theorem ising_qubo_roundtrip h J off :
  NoDup (map fst h) -> NoDup (map fst J) -> no_self_key J ->
  let r := ising_to_qubo h J off in
  let r' := qubo_to_ising (fst r) (snd r) in
  (forall v, hget0 (fst (fst r')) v = hget0 h v) /\
  (forall k, qget0 (snd (fst r')) k = qget0 J k) /\
  snd r' = off.
Proof.
  intros Hh HJ Hns. destruct (ising_qubo_roundtrip_linear_offset h J off Hh HJ Hns) as [A B].
  cbv zeta. split; [exact A|split; [|exact B]].
  intros k. unfold qubo_to_ising. cbn [fst snd]. unfold q2i_loop.
  rewrite q2i_loop_reads_J; [|apply ising_to_qubo_nodup|intros k' _; reflexivity].
  cbn [st_J]. destruct (Nat.eqb_spec (fst k) (snd k)) as [Ed|Ed].
  - unfold qget0. cbn [qget]. rewrite qget_absent; [reflexivity|].
    intro Hin. apply in_map_iff in Hin. destruct Hin as [[[u v] b] [Hk Hin]]. subst k. cbn [fst snd] in Ed.
    apply (Hns u v b Hin Ed).
  - assert (HQ : qget0 (fst (ising_to_qubo h J off)) k = four * qget0 J k).
    { unfold ising_to_qubo. cbn [fst]. rewrite i2q_loop_reads_off; try assumption.
      - unfold qget0 at 2. destruct (qget J k); [reflexivity|].
        unfold qget0, i2q_init. rewrite (set_diag_loop_qget_off (fun b => two * b)) by assumption.
        cbn [qget]. ring.
      - intros k' Hk'. unfold i2q_init. rewrite (set_diag_loop_qget_off (fun b => two * b)); [reflexivity|].
        apply in_map_iff in Hk'. destruct Hk' as [[[u v] b] [Hk' Hin]]. subst k'. cbn [fst snd].
        apply (Hns u v b). assumption. }
    unfold qget0 in HQ at 1. unfold qget0 at 1.
    destruct (qget (fst (ising_to_qubo h J off)) k) as [c|].
    + rewrite HQ. transitivity ((four * quarter) * qget0 J k); [ring|]. rewrite four_quarter. ring.
    + cbn [qget]. transitivity ((four * quarter) * qget0 J k); [|rewrite four_quarter; ring].
      rewrite <- Qcmult_assoc, (Qcmult_comm quarter), Qcmult_assoc, <- HQ. ring.
Qed.

Print Assumptions ising_qubo_roundtrip_linear_offset.
Print Assumptions ising_qubo_roundtrip.
