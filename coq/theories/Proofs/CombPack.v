(* 1-bit sample packing: unpack (pack bits) = bits [C11]. *)
From Coq Require Import List ZArith NArith Bool Arith Lia.
From Dimod Require Import Model.Comb.
Import ListNotations.

(* ------------------------------------------------------------------ *)
(* chunks *)

Lemma chunks_nil {A} k fuel : @chunks A k fuel [] = [].
Proof. destruct fuel; reflexivity. Qed.

Lemma chunks_spec {A} k m : 0 < k -> forall fuel (l : list A),
  length l = m * k -> m <= fuel ->
  concat (chunks k fuel l) = l /\
  Forall (fun c => length c = k) (chunks k fuel l) /\
  length (chunks k fuel l) = m.
Proof.
  intros Hk. induction m as [|m IH]; intros fuel l Hl Hf.
  - destruct l; [|discriminate]. rewrite chunks_nil. repeat split. constructor.
  - destruct fuel as [|f]; [lia|].
    destruct l as [|a l']; [cbn [length] in Hl; lia|].
    remember (a :: l') as l eqn:El.
    assert (Hc : chunks k (S f) l = firstn k l :: chunks k f (skipn k l)) by (subst l; reflexivity).
    rewrite Hc. clear Hc El a l'.
    assert (Hs : length (skipn k l) = m * k) by (rewrite skipn_length; lia).
    destruct (IH f (skipn k l) Hs ltac:(lia)) as [H1 [H2 H3]].
    cbn [concat length]. rewrite H1, H3, firstn_skipn. repeat split.
    constructor; [|exact H2]. rewrite firstn_length. lia.
Qed.

Lemma chunks_flat_map_id {A} k fuel (l : list A) :
  0 < k -> length l <= fuel -> (exists m, length l = m * k) ->
  flat_map id (chunks k fuel l) = l.
Proof.
  intros Hk Hf [m Hm]. rewrite flat_map_concat_map, map_id.
  apply (chunks_spec k m Hk fuel l Hm). nia.
Qed.

Lemma Forall_concat_inv {A} (P : A -> Prop) cs :
  Forall P (concat cs) -> Forall (Forall P) cs.
Proof.
  induction cs as [|c cs IH]; cbn [concat]; intros H; constructor.
  - apply Forall_app in H. apply H.
  - apply IH. apply Forall_app in H. apply H.
Qed.

(* ------------------------------------------------------------------ *)
(* padding *)

Lemma pad_len_spec n : n + pad_len n = ((n + 31) / 32) * 32.
Proof.
  unfold pad_len.
  pose proof (Nat.div_mod (n + 31) 32 ltac:(discriminate)) as H.
  pose proof (Nat.mod_upper_bound (n + 31) 32 ltac:(discriminate)) as H2.
  lia.
Qed.

(* ------------------------------------------------------------------ *)
(* bytes *)

Lemma byte_roundtrip c : length c = 8 -> rev (unpackbits_be (packbits_be (rev c))) = c.
Proof.
  intros H.
  do 8 (destruct c as [|? c]; [discriminate|]). destruct c; [|discriminate].
  repeat match goal with b : bool |- _ => destruct b end; vm_compute; reflexivity.
Qed.

Lemma packbits_be_bound l : (packbits_be l < 2 ^ N.of_nat (length l))%N.
Proof.
  induction l as [|b l IH]; cbn [packbits_be length].
  - cbn. lia.
  - rewrite Nat2N.inj_succ, N.pow_succ_r'. destruct b; cbn [N.b2n]; lia.
Qed.

Lemma packbits_byte_bound c : length c = 8 -> (packbits_be (rev c) < 256)%N.
Proof.
  intros H. pose proof (packbits_be_bound (rev c)) as Hb.
  rewrite rev_length, H in Hb. exact Hb.
Qed.

Lemma word_roundtrip bs :
  length bs = 4 -> Forall (fun b => (b < 256)%N) bs -> word_bytes (le_word bs) = bs.
Proof.
  intros H HF.
  do 4 (destruct bs as [|? bs]; [discriminate|]). destruct bs; [|discriminate].
  repeat match goal with H : Forall _ (_ :: _) |- _ => inversion H; subst; clear H end.
  unfold word_bytes. cbn [seq map le_word].
  change (256 ^ N.of_nat 0)%N with 1%N.
  change (256 ^ N.of_nat 1)%N with 256%N.
  change (256 ^ N.of_nat 2)%N with (256 * 256)%N.
  change (256 ^ N.of_nat 3)%N with (256 * (256 * 256))%N.
  rewrite N.div_1_r, N.mul_0_r, N.add_0_r.
  repeat f_equal.
  - rewrite N.mul_comm, N.mod_add by discriminate. apply N.mod_small; assumption.
  - rewrite (N.mul_comm 256), N.div_add by discriminate. rewrite (N.div_small n) by assumption.
    rewrite N.add_0_l, N.mul_comm, N.mod_add by discriminate. apply N.mod_small; assumption.
  - rewrite <- N.div_div by discriminate.
    rewrite (N.mul_comm 256), N.div_add by discriminate. rewrite (N.div_small n) by assumption.
    rewrite N.add_0_l.
    rewrite (N.mul_comm 256), N.div_add by discriminate. rewrite (N.div_small n0) by assumption.
    rewrite N.add_0_l, N.mul_comm, N.mod_add by discriminate. apply N.mod_small; assumption.
  - rewrite <- N.div_div by discriminate. rewrite <- N.div_div by discriminate.
    rewrite (N.mul_comm 256), N.div_add by discriminate. rewrite (N.div_small n) by assumption.
    rewrite N.add_0_l.
    rewrite (N.mul_comm 256), N.div_add by discriminate. rewrite (N.div_small n0) by assumption.
    rewrite N.add_0_l.
    rewrite (N.mul_comm 256), N.div_add by discriminate. rewrite (N.div_small n1) by assumption.
    rewrite N.add_0_l. apply N.mod_small; assumption.
Qed.

(* ------------------------------------------------------------------ *)
(* reassembly *)

Definition unbyte (b : N) : list bool := rev (unpackbits_be b).
Definition unword (w : N) : list bool := flat_map unbyte (word_bytes w).

Lemma unpack_words cs :
  Forall (fun c => length c = 4) cs -> Forall (Forall (fun b => (b < 256)%N)) cs ->
  flat_map unword (map le_word cs) = flat_map unbyte (concat cs).
Proof.
  induction cs as [|c cs IH]; intros H1 H2; [reflexivity|].
  inversion H1; subst. inversion H2; subst.
  cbn [map flat_map concat]. rewrite flat_map_app, IH by assumption.
  unfold unword at 1. rewrite word_roundtrip by assumption. reflexivity.
Qed.

Lemma unpack_bytes cs :
  Forall (fun c => length c = 8) cs ->
  flat_map unbyte (map (fun byte => packbits_be (rev byte)) cs) = concat cs.
Proof.
  induction cs as [|c cs IH]; intros H; [reflexivity|].
  inversion H; subst. cbn [map flat_map concat]. rewrite IH by assumption.
  unfold unbyte at 1. rewrite byte_roundtrip by assumption. reflexivity.
Qed.

Theorem unpack_pack_row bits : unpack_row (pack_row bits) (length bits) = bits.
Proof.
  unfold unpack_row, pack_row. cbv zeta.
  set (padded := bits ++ repeat false (pad_len (length bits))).
  set (q := (length bits + 31) / 32).
  assert (Hp : length padded = (4 * q) * 8).
  { unfold padded. rewrite app_length, repeat_length, pad_len_spec. fold q. lia. }
  destruct (chunks_spec 8 (4 * q) ltac:(lia) (length padded) padded Hp ltac:(lia)) as [C1 [C2 C3]].
  set (c8 := chunks 8 (length padded) padded) in *.
  set (bytes := map (fun byte => packbits_be (rev byte)) c8).
  assert (Hb : length bytes = q * 4) by (unfold bytes; rewrite map_length, C3; lia).
  destruct (chunks_spec 4 q ltac:(lia) (length bytes) bytes Hb ltac:(lia)) as [D1 [D2 D3]].
  set (c4 := chunks 4 (length bytes) bytes) in *.
  change (firstn (length bits) (flat_map unword (map le_word c4)) = bits).
  rewrite unpack_words.
  - rewrite D1. unfold bytes. rewrite unpack_bytes by exact C2. rewrite C1.
    unfold padded. rewrite firstn_app, Nat.sub_diag, firstn_all. cbn [firstn]. apply app_nil_r.
  - exact D2.
  - apply Forall_concat_inv. rewrite D1. unfold bytes.
    apply Forall_forall. intros b Hin. apply in_map_iff in Hin. destruct Hin as [c [<- Hc]].
    apply packbits_byte_bound. rewrite Forall_forall in C2. apply C2. exact Hc.
Qed.

(* the packed word is the little-endian value of its 32 bits *)
Lemma length_pack_row bits : length (pack_row bits) = (length bits + 31) / 32.
Proof.
  unfold pack_row. cbv zeta.
  set (padded := bits ++ repeat false (pad_len (length bits))).
  set (q := (length bits + 31) / 32).
  assert (Hp : length padded = (4 * q) * 8).
  { unfold padded. rewrite app_length, repeat_length, pad_len_spec. fold q. lia. }
  destruct (chunks_spec 8 (4 * q) ltac:(lia) (length padded) padded Hp ltac:(lia)) as [C1 [C2 C3]].
  set (c8 := chunks 8 (length padded) padded) in *.
  set (bytes := map (fun byte => packbits_be (rev byte)) c8).
  assert (Hb : length bytes = q * 4) by (unfold bytes; rewrite map_length, C3; lia).
  destruct (chunks_spec 4 q ltac:(lia) (length bytes) bytes Hb ltac:(lia)) as [D1 [D2 D3]].
  rewrite map_length. exact D3.
Qed.

(* ------------------------------------------------------------------ *)
(* the value of each packed word: bit i of word j is sample bit 32 j + i *)

Lemma packbits_be_snoc l b : (packbits_be (l ++ [b]) = 2 * packbits_be l + N.b2n b)%N.
Proof.
  induction l as [|a l IH]; cbn [app packbits_be length].
  - cbn. lia.
  - rewrite IH, app_length. cbn [length]. rewrite Nat.add_1_r, Nat2N.inj_succ, N.pow_succ_r'.
    destruct a; cbn [N.b2n]; lia.
Qed.

Lemma packbits_be_rev c : packbits_be (rev c) = bits_value c.
Proof.
  induction c as [|b c IH]; cbn [rev bits_value]; [reflexivity|].
  rewrite packbits_be_snoc, IH. lia.
Qed.

Lemma bits_value_app a b :
  (bits_value (a ++ b) = bits_value a + 2 ^ N.of_nat (length a) * bits_value b)%N.
Proof.
  induction a as [|x a IH]; cbn [app bits_value length].
  - change (2 ^ N.of_nat 0)%N with 1%N. lia.
  - rewrite IH, Nat2N.inj_succ, N.pow_succ_r'. lia.
Qed.

Lemma chunks_app {A} k (c l : list A) fuel :
  0 < k -> length c = k -> chunks k (S fuel) (c ++ l) = c :: chunks k fuel l.
Proof.
  intros Hk Hc. destruct c as [|a c]; [cbn [length] in Hc; lia|].
  cbn [chunks app]. change (a :: c ++ l) with ((a :: c) ++ l).
  rewrite firstn_app, skipn_app, Hc, Nat.sub_diag, <- Hc, firstn_all, skipn_all.
  cbn [firstn skipn app]. rewrite app_nil_r. reflexivity.
Qed.

Lemma word_value c0 c1 c2 c3 :
  length c0 = 8 -> length c1 = 8 -> length c2 = 8 -> length c3 = 8 ->
  le_word (map (fun byte => packbits_be (rev byte)) [c0; c1; c2; c3]) =
  bits_value (c0 ++ c1 ++ c2 ++ c3).
Proof.
  intros H0 H1 H2 H3. cbn [map le_word]. rewrite !packbits_be_rev, !bits_value_app, H0, H1, H2.
  change (2 ^ N.of_nat 8)%N with 256%N. lia.
Qed.

Lemma split_8 {A} (l : list A) n : length l = 8 + n ->
  exists c r, l = c ++ r /\ length c = 8 /\ length r = n.
Proof.
  intros H. exists (firstn 8 l), (skipn 8 l). rewrite firstn_skipn, firstn_length, skipn_length. split; [reflexivity|lia].
Qed.

Lemma pack_words_value q : forall f8 f4 f32 l,
  length l = q * 32 -> 4 * q <= f8 -> q <= f4 -> q <= f32 ->
  map le_word (chunks 4 f4 (map (fun byte => packbits_be (rev byte)) (chunks 8 f8 l))) =
  map bits_value (chunks 32 f32 l).
Proof.
  induction q as [|q IH]; intros f8 f4 f32 l Hl H8 H4 H32.
  - destruct l; [|discriminate]. rewrite !chunks_nil. cbn [map]. rewrite chunks_nil. reflexivity.
  - destruct (split_8 l (24 + q * 32) ltac:(lia)) as [c0 [l0 [-> [L0 R0]]]].
    destruct (split_8 l0 (16 + q * 32) ltac:(lia)) as [c1 [l1 [-> [L1 R1]]]].
    destruct (split_8 l1 (8 + q * 32) ltac:(lia)) as [c2 [l2 [-> [L2 R2]]]].
    destruct (split_8 l2 (q * 32) ltac:(lia)) as [c3 [l3 [-> [L3 R3]]]].
    destruct f8 as [|[|[|[|f8]]]]; try lia.
    destruct f4 as [|f4]; [lia|]. destruct f32 as [|f32]; [lia|].
    rewrite !(chunks_app 8) by (assumption || lia). cbn [map].
    change (?a :: ?b :: ?c :: ?d :: ?r) with ([a; b; c; d] ++ r).
    rewrite (chunks_app 4) by (reflexivity || lia).
    replace (c0 ++ c1 ++ c2 ++ c3 ++ l3) with ((c0 ++ c1 ++ c2 ++ c3) ++ l3) by (rewrite <- !app_assoc; reflexivity).
    rewrite (chunks_app 32) by (rewrite ?app_length; lia).
    cbn [map]. rewrite (IH f8 f4 f32 l3) by lia.
    f_equal. apply word_value; assumption.
Qed.

Theorem pack_row_value bits :
  let padded := bits ++ repeat false (pad_len (length bits)) in
  pack_row bits = map bits_value (chunks 32 (length padded) padded).
Proof.
  cbv zeta. unfold pack_row. cbv zeta.
  set (padded := bits ++ repeat false (pad_len (length bits))).
  set (q := (length bits + 31) / 32).
  assert (Hp : length padded = q * 32).
  { unfold padded. rewrite app_length, repeat_length, pad_len_spec. reflexivity. }
  destruct (chunks_spec 8 (4 * q) ltac:(lia) (length padded) padded ltac:(lia) ltac:(lia)) as [_ [_ C3]].
  apply (pack_words_value q); try lia.
  rewrite map_length, C3. lia.
Qed.
