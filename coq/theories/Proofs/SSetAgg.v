(* The code shape of SampleSet.aggregate (np.unique + argsort un-sorting + accumulation,
   Model/SSet.v: aggregate_np) equals the specification aggregate_rows. *)
From Coq Require Import List ZArith QArith Qcanon Bool Arith Lia Permutation Sorting.Sorted.
From Dimod Require Import Base.Util Model.Poly Model.Samples Model.SSet Proofs.SamplesFacts Proofs.SSetFacts.
Import ListNotations.
Open Scope Qc_scope.

(* ---------- generic list facts ---------- *)
Lemma idx_of_nth_nodup (l : list nat) : forall k d, NoDup l -> (k < length l)%nat -> idx_of (nth k l d) l = k.
Proof.
  induction l as [|x r IH]; intros k d ND Hk; [cbn in Hk; lia|].
  inversion ND as [|? ? Hx Hr]; subst. destruct k as [|k]; cbn [nth idx_of].
  - rewrite Nat.eqb_refl. reflexivity.
  - destruct (Nat.eqb_spec x (nth k r d)) as [E|_].
    + exfalso. apply Hx. rewrite E. apply nth_In. cbn in Hk. lia.
    + f_equal. apply IH; [assumption|cbn in Hk; lia].
Qed.

Lemma map_fst_combine {A B} (a : list A) : forall (b : list B), length a = length b -> map fst (combine a b) = a.
Proof. induction a as [|x r IH]; intros [|y s] H; cbn in *; try lia; [reflexivity|]. f_equal. apply IH. lia. Qed.

Lemma map_snd_combine {A B} (a : list A) : forall (b : list B), length a = length b -> map snd (combine a b) = b.
Proof. induction a as [|x r IH]; intros [|y s] H; cbn in *; try lia; [reflexivity|]. f_equal. apply IH. lia. Qed.

Lemma combine_seq_nth (l : list nat) : forall off p,
  In p (combine (seq off (length l)) l) -> (off <= fst p)%nat /\ nth (fst p - off) l 0%nat = snd p.
Proof.
  induction l as [|x r IH]; intros off p H; [destruct H|].
  cbn [length seq combine In] in H. destruct H as [<-|H].
  - cbn [fst snd]. rewrite Nat.sub_diag. split; [lia|reflexivity].
  - apply IH in H. destruct H as [H1 H2]. split; [lia|].
    replace (fst p - off)%nat with (S (fst p - S off)) by lia. exact H2.
Qed.

Lemma insert_by_perm {A} (k : A -> nat) x l : Permutation (insert_by k x l) (x :: l).
Proof.
  induction l as [|y r IH]; cbn [insert_by]; [apply Permutation_refl|].
  destruct (k x <? k y)%nat; [apply Permutation_refl|].
  apply Permutation_trans with (y :: x :: r); [apply perm_skip; assumption|apply perm_swap].
Qed.

Lemma sort_by_perm {A} (k : A -> nat) l : Permutation (sort_by k l) l.
Proof.
  induction l as [|x r IH]; cbn [sort_by]; [apply Permutation_refl|].
  apply Permutation_trans with (x :: sort_by k r); [apply insert_by_perm|apply perm_skip; assumption].
Qed.

Lemma insert_by_sorted {A} (k : A -> nat) x l :
  StronglySorted (fun a b => (k a <= k b)%nat) l -> StronglySorted (fun a b => (k a <= k b)%nat) (insert_by k x l).
Proof.
  induction l as [|y r IH]; intros HS; cbn [insert_by]; [repeat constructor|].
  inversion HS as [|? ? HSr HF]; subst.
  destruct (k x <? k y)%nat eqn:E.
  - apply Nat.ltb_lt in E. constructor; [assumption|]. constructor; [lia|].
    rewrite Forall_forall in *. intros z Hz. specialize (HF z Hz). lia.
  - apply Nat.ltb_ge in E. constructor; [apply IH; assumption|].
    rewrite Forall_forall in *. intros z Hz.
    apply (Permutation_in _ (insert_by_perm k x r)) in Hz. destruct Hz as [<-|Hz]; [assumption|auto].
Qed.

Lemma sort_by_sorted {A} (k : A -> nat) l : StronglySorted (fun a b => (k a <= k b)%nat) (sort_by k l).
Proof. induction l as [|x r IH]; cbn [sort_by]; [constructor|apply insert_by_sorted; assumption]. Qed.

Lemma sorted_perm_unique_nat (l1 : list nat) : forall l2,
  StronglySorted le l1 -> StronglySorted le l2 -> Permutation l1 l2 -> l1 = l2.
Proof.
  induction l1 as [|a r1 IH]; intros l2 S1 S2 P.
  - apply Permutation_nil in P. subst. reflexivity.
  - destruct l2 as [|b r2]; [apply Permutation_sym, Permutation_nil in P; discriminate|].
    inversion S1 as [|? ? S1r F1]; subst. inversion S2 as [|? ? S2r F2]; subst.
    rewrite Forall_forall in F1, F2.
    assert (a = b) as ->.
    { assert (In a (b :: r2)) as Ha by (apply (Permutation_in _ P); left; reflexivity).
      assert (In b (a :: r1)) as Hb by (apply (Permutation_in _ (Permutation_sym P)); left; reflexivity).
      destruct Ha as [->|Ha]; [reflexivity|]. destruct Hb as [->|Hb]; [reflexivity|].
      specialize (F1 _ Hb). specialize (F2 _ Ha). lia. }
    f_equal. apply IH; [assumption|assumption|]. apply Permutation_cons_inv in P. assumption.
Qed.

(* argsort: indices[argsort(indices)] is the sorted list, and argsort is a permutation of the positions *)
Lemma argsort_sorts (ix : list nat) :
  let order := argsort_nat ix in
  Permutation order (seq 0 (length ix))
  /\ Permutation (map (fun k => nth k ix 0%nat) order) ix
  /\ StronglySorted le (map (fun k => nth k ix 0%nat) order).
Proof.
  cbn zeta. unfold argsort_nat.
  set (P := combine (seq 0 (length ix)) ix). set (S := sort_by snd P).
  assert (Permutation S P) as PS by apply sort_by_perm.
  assert (length (seq 0 (length ix)) = length ix) as HL by apply seq_length.
  assert (map (fun k => nth k ix 0%nat) (map fst S) = map snd S) as E.
  { rewrite map_map. apply map_ext_in. intros p Hp. apply (Permutation_in _ PS) in Hp.
    apply combine_seq_nth in Hp. destruct Hp as [_ Hp]. rewrite Nat.sub_0_r in Hp. exact Hp. }
  split; [|split].
  - apply Permutation_trans with (map fst P); [apply Permutation_map; assumption|].
    unfold P. rewrite map_fst_combine by assumption. apply Permutation_refl.
  - rewrite E. apply Permutation_trans with (map snd P); [apply Permutation_map; assumption|].
    unfold P. rewrite map_snd_combine by assumption. apply Permutation_refl.
  - rewrite E. pose proof (sort_by_sorted (@snd nat nat) P) as HS. fold S in HS.
    clear -HS. induction HS as [|a l HS IH HF]; cbn [map]; constructor; [assumption|].
    rewrite Forall_forall in *. intros z Hz. apply in_map_iff in Hz. destruct Hz as [q [<- Hq]]. auto.
Qed.

(* ---------- first occurrences ---------- *)
Lemma first_index_app_notin p l v :
  ~ In v (map vals p) -> first_index (p ++ l) v = (length p + first_index l v)%nat.
Proof.
  induction p as [|a r IH]; intros H; cbn [app first_index length]; [reflexivity|].
  cbn [map In] in H. destruct (qlist_eqb (vals a) v) eqn:E.
  - apply qlist_eqb_eq in E. tauto.
  - rewrite IH by tauto. reflexivity.
Qed.

Lemma first_index_spec l v : In v (map vals l) ->
  (first_index l v < length l)%nat /\ vals (nth (first_index l v) l rowz) = v.
Proof.
  induction l as [|a r IH]; intros H; [destruct H|]. cbn [first_index].
  destruct (qlist_eqb (vals a) v) eqn:E.
  - apply qlist_eqb_eq in E. cbn [nth length]. split; [lia|assumption].
  - cbn [map In] in H. destruct H as [H|H]; [subst; rewrite qlist_eqb_refl in E; discriminate|].
    destruct (IH H) as [H1 H2]. cbn [nth length]. split; [lia|assumption].
Qed.

Lemma first_index_inj l v w :
  In v (map vals l) -> In w (map vals l) -> first_index l v = first_index l w -> v = w.
Proof.
  intros Hv Hw E. destruct (first_index_spec l v Hv) as [_ <-]. destruct (first_index_spec l w Hw) as [_ <-].
  rewrite E. reflexivity.
Qed.

Lemma distinct_firsts_bounds l : forall i seen x,
  In x (distinct_firsts l i seen) -> (i <= x < i + length l)%nat.
Proof.
  induction l as [|r rest IH]; intros i seen x H; [destruct H|]. cbn [distinct_firsts length] in *.
  destruct (existsb (qlist_eqb (vals r)) seen).
  - apply IH in H. lia.
  - destruct H as [<-|H]; [lia|]. apply IH in H. lia.
Qed.

Lemma distinct_firsts_sorted l : forall i seen, StronglySorted lt (distinct_firsts l i seen).
Proof.
  induction l as [|r rest IH]; intros i seen; cbn [distinct_firsts]; [constructor|].
  destruct (existsb (qlist_eqb (vals r)) seen); [apply IH|].
  constructor; [apply IH|]. apply Forall_forall. intros x Hx. apply distinct_firsts_bounds in Hx. lia.
Qed.

Lemma sorted_lt_le l : StronglySorted lt l -> StronglySorted le l.
Proof.
  induction 1 as [|a l HS IH HF]; constructor; [assumption|].
  rewrite Forall_forall in *. intros x Hx. specialize (HF x Hx). lia.
Qed.

Lemma sorted_lt_nodup l : StronglySorted lt l -> NoDup l.
Proof.
  induction 1 as [|a l HS IH HF]; constructor; [|assumption].
  rewrite Forall_forall in HF. intros Hin. specialize (HF a Hin). lia.
Qed.

(* the rows at the first-occurrence indices are `firsts` *)
Lemma firsts_as_indices l : forall p seen,
  map (fun i => nth i (p ++ l) rowz) (distinct_firsts l (length p) seen) = firsts l seen.
Proof.
  induction l as [|r rest IH]; intros p seen; cbn [distinct_firsts firsts]; [reflexivity|].
  fold (memv (vals r) seen).
  assert (length (p ++ [r]) = S (length p)) as HL by (rewrite app_length; cbn; lia).
  assert ((p ++ [r]) ++ rest = p ++ r :: rest) as HA by (rewrite <- app_assoc; reflexivity).
  destruct (memv (vals r) seen).
  - rewrite <- HL, <- HA. apply IH.
  - cbn [map]. rewrite nth_middle. f_equal. rewrite <- HL, <- HA. apply IH.
Qed.

(* each first-occurrence index is the first index of its own row's value *)
Lemma distinct_firsts_first_index l : forall p seen,
  (forall v, In v seen <-> In v (map vals p)) ->
  map (fun i => first_index (p ++ l) (vals (nth i (p ++ l) rowz))) (distinct_firsts l (length p) seen)
  = distinct_firsts l (length p) seen.
Proof.
  induction l as [|r rest IH]; intros p seen Hs; cbn [distinct_firsts]; [reflexivity|].
  fold (memv (vals r) seen).
  assert (length (p ++ [r]) = S (length p)) as HL by (rewrite app_length; cbn; lia).
  assert ((p ++ [r]) ++ rest = p ++ r :: rest) as HA by (rewrite <- app_assoc; reflexivity).
  destruct (memv (vals r) seen) eqn:E.
  - rewrite <- HL, <- HA. apply IH. intros v. rewrite Hs, map_app, in_app_iff. cbn [map In].
    apply memv_In, Hs in E. split; [tauto|]. intros [H|[<-|[]]]; assumption.
  - cbn [map]. f_equal.
    + rewrite nth_middle. rewrite first_index_app_notin.
      * cbn [first_index]. rewrite qlist_eqb_refl. lia.
      * intros Hin. apply Hs, memv_In in Hin. congruence.
    + rewrite <- HL, <- HA. apply IH. intros v. rewrite map_app, in_app_iff. cbn [map In]. rewrite Hs. tauto.
Qed.

Definition V (l : list row) : list (list Qc) := map vals (firsts l []).
Definition Fi (l : list row) : list nat := distinct_firsts l 0 [].

Lemma firsts_eq l : firsts l [] = map (fun i => nth i l rowz) (Fi l).
Proof. symmetry. apply (firsts_as_indices l [] []). Qed.

Lemma Fi_eq l : map (first_index l) (V l) = Fi l.
Proof.
  unfold V. rewrite firsts_eq, !map_map.
  apply (distinct_firsts_first_index l [] []). intros v. cbn. tauto.
Qed.

Lemma firsts_cover l : forall seen r, In r l -> In (vals r) seen \/ In (vals r) (map vals (firsts l seen)).
Proof.
  induction l as [|a rest IH]; intros seen r H; [destruct H|]. cbn [firsts].
  destruct (memv (vals a) seen) eqn:E.
  - destruct H as [<-|H]; [left; apply memv_In; assumption|apply IH; assumption].
  - cbn [map In]. destruct H as [<-|H]; [right; left; reflexivity|].
    destruct (IH (vals a :: seen) r H) as [[<-|H1]|H1]; [right; left; reflexivity|left; assumption|right; right; assumption].
Qed.

Lemma firsts_sub l : forall seen r, In r (firsts l seen) -> In r l.
Proof.
  induction l as [|a rest IH]; intros seen r H; [destruct H|]. cbn [firsts] in H.
  destruct (memv (vals a) seen); [right; apply (IH _ _ H)|].
  destruct H as [<-|H]; [left; reflexivity|right; apply (IH _ _ H)].
Qed.

Lemma V_set l v : In v (V l) <-> In v (map vals l).
Proof.
  unfold V. split.
  - intros H. apply in_map_iff in H. destruct H as [r [<- Hr]]. apply in_map. apply (firsts_sub _ _ _ Hr).
  - intros H. apply in_map_iff in H. destruct H as [r [<- Hr]].
    destruct (firsts_cover l [] r Hr) as [[]|H]; assumption.
Qed.

Lemma V_nodup l : NoDup (V l).
Proof. apply (firsts_vals_nodup l []). Qed.

(* ---------- idx_val ---------- *)
Lemma idx_val_spec v u : In v u -> (idx_val v u < length u)%nat /\ nth (idx_val v u) u [] = v.
Proof.
  induction u as [|w r IH]; intros H; [destruct H|]. cbn [idx_val].
  destruct (qlist_eqb w v) eqn:E.
  - apply qlist_eqb_eq in E. cbn [nth length]. split; [lia|assumption].
  - destruct H as [H|H]; [subst; rewrite qlist_eqb_refl in E; discriminate|].
    destruct (IH H) as [H1 H2]. cbn [nth length]. split; [lia|assumption].
Qed.

Lemma idx_of_map_inj (f : list Qc -> nat) u v :
  In v u -> (forall w, In w u -> f w = f v -> w = v) -> idx_of (f v) (map f u) = idx_val v u.
Proof.
  induction u as [|w r IH]; intros H Hinj; [destruct H|]. cbn [map idx_of idx_val].
  destruct (qlist_eqb w v) eqn:E.
  - apply qlist_eqb_eq in E. subst. rewrite Nat.eqb_refl. reflexivity.
  - destruct (Nat.eqb_spec (f w) (f v)) as [Ef|_].
    + apply Hinj in Ef; [|left; reflexivity]. subst. rewrite qlist_eqb_refl in E. discriminate.
    + f_equal. apply IH.
      * destruct H as [H|H]; [subst; rewrite qlist_eqb_refl in E; discriminate|assumption].
      * intros x Hx. apply Hinj. right. assumption.
Qed.

(* ---------- accumulation at the position of the row's value ---------- *)
Definition add_at_val (r : row) (rec : list row) : list row := add_at (idx_val (vals r) (map vals rec)) (oc r) rec.

Lemma add_at_vals n k rec : map vals (add_at n k rec) = map vals rec.
Proof.
  revert n. induction rec as [|a r IH]; intros n; [destruct n; reflexivity|].
  destruct n as [|n]; cbn [add_at map]; [reflexivity|]. rewrite IH. reflexivity.
Qed.

Lemma add_at_app n k a b : (n < length a)%nat -> add_at n k (a ++ b) = add_at n k a ++ b.
Proof.
  revert n. induction a as [|x r IH]; intros n H; [cbn in H; lia|].
  destruct n as [|n]; cbn [app add_at]; [reflexivity|]. rewrite IH by (cbn in H; lia). reflexivity.
Qed.

Lemma add_at_middle k a x b : add_at (length a) k (a ++ x :: b) = a ++ set_oc x (oc x + k)%Z :: b.
Proof. induction a as [|y r IH]; cbn [length app add_at]; [reflexivity|]. rewrite IH. reflexivity. Qed.

Lemma idx_val_app_in v a b : In v a -> idx_val v (a ++ b) = idx_val v a.
Proof.
  induction a as [|w r IH]; intros H; [destruct H|]. cbn [app idx_val].
  destruct (qlist_eqb w v) eqn:E; [reflexivity|].
  destruct H as [H|H]; [subst; rewrite qlist_eqb_refl in E; discriminate|]. rewrite IH by assumption. reflexivity.
Qed.

Lemma idx_val_app_notin v a b : ~ In v a -> idx_val v (a ++ v :: b) = length a.
Proof.
  induction a as [|w r IH]; intros H; cbn [app idx_val length].
  - rewrite qlist_eqb_refl. reflexivity.
  - destruct (qlist_eqb w v) eqn:E; [apply qlist_eqb_eq in E; subst; exfalso; apply H; left; reflexivity|].
    rewrite IH; [reflexivity|]. intros Hin. apply H. right. assumption.
Qed.

Lemma agg_insert_mem r acc : memv (vals r) (map vals acc) = true -> agg_insert r acc = add_at_val r acc.
Proof.
  unfold add_at_val. induction acc as [|a rest IH]; intros H; [discriminate|].
  cbn [agg_insert map idx_val]. cbn [map memv existsb] in H.
  destruct (qlist_eqb (vals a) (vals r)) eqn:E; [reflexivity|].
  rewrite (qlist_eqb_sym (vals r) (vals a)), E in H. cbn [orb] in H.
  cbn [add_at]. f_equal. apply IH. exact H.
Qed.

Lemma agg_insert_notmem r acc : memv (vals r) (map vals acc) = false -> agg_insert r acc = acc ++ [r].
Proof.
  induction acc as [|a rest IH]; intros H; [reflexivity|].
  cbn [agg_insert]. cbn [map memv existsb] in H. apply orb_false_iff in H. destruct H as [H1 H2].
  rewrite (qlist_eqb_sym (vals r) (vals a)) in H1. rewrite H1. cbn [app]. f_equal. apply IH. exact H2.
Qed.

Lemma unstrip r : set_oc (strip r) (oc (strip r) + oc r)%Z = r.
Proof. destruct r. unfold strip, set_oc. cbn. reflexivity. Qed.

Definition accum (l rec : list row) : list row := fold_left (fun rec r => add_at_val r rec) l rec.

(* the specification as "records of the first occurrences with zeroed counts, then accumulate" *)
Lemma agg_as_accum l : forall acc,
  agg acc l = accum l (acc ++ map strip (firsts l (map vals acc))).
Proof.
  induction l as [|r rest IH]; intros acc.
  - cbn [firsts map]. rewrite app_nil_r. reflexivity.
  - unfold agg, accum. cbn [fold_left firsts]. fold (agg (agg_insert r acc) rest).
    destruct (memv (vals r) (map vals acc)) eqn:E.
    + rewrite agg_insert_mem by assumption. rewrite IH. unfold accum. f_equal.
      unfold add_at_val at 3. rewrite map_app, idx_val_app_in by (apply memv_In; assumption).
      rewrite add_at_app.
      * unfold add_at_val. rewrite add_at_vals. reflexivity.
      * rewrite <- (map_length vals acc). apply idx_val_spec. apply memv_In. assumption.
    + rewrite agg_insert_notmem by assumption. rewrite IH. unfold accum. f_equal.
      cbn [map]. unfold add_at_val. rewrite !map_app. cbn [map].
      change (vals (strip r)) with (vals r).
      rewrite idx_val_app_notin by (intros Hin; apply memv_In in Hin; congruence).
      rewrite map_length, add_at_middle, unstrip. rewrite <- app_assoc. cbn [app]. do 3 f_equal.
      apply firsts_ext. intros x. rewrite in_app_iff. cbn [In]. tauto.
Qed.

Theorem aggregate_rows_as_accum l : aggregate_rows l = accum l (map strip (firsts l [])).
Proof. unfold aggregate_rows. change (fold_left _ l []) with (agg [] l). rewrite agg_as_accum. reflexivity. Qed.

(* the index-driven loop of the code equals accumulation by value as long as the indices are the
   positions of the values *)
Lemma index_loop_eq_accum Vfix : forall l rec,
  map vals rec = Vfix ->
  fold_left (fun rec (p : nat * row) => add_at (fst p) (oc (snd p)) rec)
            (combine (map (fun r => idx_val (vals r) Vfix) l) l) rec
  = accum l rec.
Proof.
  induction l as [|r rest IH]; intros rec H; [reflexivity|].
  cbn [map combine fold_left]. unfold accum. cbn [fold_left fst snd].
  unfold add_at_val at 2. rewrite H. apply IH. rewrite add_at_vals. assumption.
Qed.

(* ---------- the un-sorting ---------- *)
Theorem unsort_accumulate_eq U l :
  NoDup U -> (forall v, In v U <-> In v (map vals l)) -> unsort_accumulate U l = aggregate_rows l.
Proof.
  intros NU HU. unfold unsort_accumulate.
  set (indices := map (first_index l) U).
  set (order := argsort_nat indices).
  destruct (argsort_sorts indices) as (Po & Pi & Si). fold order in Po, Pi, Si.
  assert (Permutation U (V l)) as PU.
  { apply NoDup_Permutation; [assumption|apply V_nodup|]. intros v. rewrite HU, V_set. reflexivity. }
  assert (Permutation indices (Fi l)) as PF.
  { rewrite <- Fi_eq. apply Permutation_map. assumption. }
  assert (map (fun k => nth k indices 0%nat) order = Fi l) as Eind.
  { apply sorted_perm_unique_nat; [assumption|apply sorted_lt_le, distinct_firsts_sorted|].
    apply Permutation_trans with indices; assumption. }
  rewrite Eind.
  assert (length order = length U) as Lo.
  { rewrite (Permutation_length Po), seq_length. unfold indices. apply map_length. }
  assert (length (Fi l) = length U) as LF.
  { rewrite <- Eind, map_length. assumption. }
  (* the zeroed records of the first occurrences *)
  assert (map (fun i => set_oc (nth i l rowz) 0%Z) (Fi l) = map strip (firsts l [])) as Erec.
  { rewrite firsts_eq, map_map. reflexivity. }
  rewrite Erec.
  (* the un-sorted inverse is the position among the first-seen values *)
  assert (map (fun c => nth c (map (fun j => idx_of j order) (seq 0 (length order))) 0%nat)
              (map (fun r => idx_val (vals r) U) l)
          = map (fun r => idx_val (vals r) (V l)) l) as Einv.
  { rewrite map_map. apply map_ext_in. intros r Hr.
    assert (In (vals r) U) as HrU by (apply HU, in_map; assumption).
    destruct (idx_val_spec _ _ HrU) as [Hc Hn]. set (c := idx_val (vals r) U) in *.
    set (f := fun j => idx_of j order).
    rewrite (nth_indep _ 0%nat (f 0%nat)) by (rewrite map_length, seq_length; lia).
    rewrite map_nth, seq_nth by lia. cbn [Nat.add]. unfold f.
    assert (In c order) as Hco by (apply (Permutation_in _ (Permutation_sym Po)), in_seq; unfold indices; rewrite map_length; lia).
    set (k := idx_of c order).
    assert (k < length order)%nat as Hk by (apply idx_of_lt; assumption).
    assert (nth k order 0%nat = c) as Hkc by (apply nth_idx_of; assumption).
    assert (nth k (Fi l) 0%nat = first_index l (vals r)) as HkF.
    { rewrite <- Eind. set (g := fun k0 => nth k0 indices 0%nat).
      rewrite (nth_indep _ 0%nat (g 0%nat)) by (rewrite map_length; assumption).
      rewrite map_nth, Hkc. unfold g, indices.
      rewrite (nth_indep _ 0%nat (first_index l [])) by (rewrite map_length; assumption).
      rewrite map_nth, Hn. reflexivity. }
    assert (k = idx_of (first_index l (vals r)) (Fi l)) as ->.
    { rewrite <- HkF. symmetry. apply idx_of_nth_nodup; [apply sorted_lt_nodup, distinct_firsts_sorted|lia]. }
    rewrite <- Fi_eq. apply idx_of_map_inj.
    - apply V_set, in_map. assumption.
    - intros w Hw E. apply (first_index_inj l); [apply V_set; assumption|apply in_map; assumption|assumption]. }
  rewrite Einv.
  rewrite index_loop_eq_accum by (rewrite map_vals_strip; reflexivity).
  symmetry. apply aggregate_rows_as_accum.
Qed.

(* ---------- np.unique: contract of the mirrored definition ---------- *)
Lemma lex_insert_in v u x : In x (lex_insert v u) <-> x = v \/ In x u.
Proof.
  induction u as [|w r IH]; cbn [lex_insert In]; [intuition|].
  destruct (qlist_eqb w v) eqn:E.
  - apply qlist_eqb_eq in E. subst. cbn [In]. intuition.
  - destruct (lex_lt v w); cbn [In]; [intuition|]. rewrite IH. intuition.
Qed.

Lemma qlt_iff x y : qlt x y = true <-> (x < y)%Qc.
Proof.
  unfold qlt. rewrite negb_true_iff. split.
  - intros H. apply Qcnot_le_lt. intros Hle. apply qle_iff in Hle. unfold qle in Hle. congruence.
  - intros H. apply not_true_iff_false. intros Hle. apply (Qclt_not_le _ _ H). apply qle_iff. exact Hle.
Qed.

Lemma lex_lt_cons x a y b :
  lex_lt (x :: a) (y :: b) = true <-> (x < y)%Qc \/ (x = y /\ lex_lt a b = true).
Proof.
  cbn [lex_lt]. destruct (Qc_eqb x y) eqn:E.
  - apply Qc_eqb_eq in E. subst. split; [intros H; right; auto|].
    intros [H|[_ H]]; [exfalso; apply (Qclt_not_le _ _ H), Qcle_refl|assumption].
  - rewrite qlt_iff. split; [intros H; left; assumption|].
    intros [H|[H _]]; [assumption|]. subst. assert (Qc_eqb y y = true) by (apply Qc_eqb_eq; reflexivity). congruence.
Qed.

Lemma lex_lt_irrefl a : lex_lt a a = false.
Proof.
  induction a as [|x a IH]; [reflexivity|]. apply not_true_iff_false. intros H.
  apply lex_lt_cons in H. destruct H as [H|[_ H]]; [apply (Qclt_not_le _ _ H), Qcle_refl|congruence].
Qed.

Lemma lex_lt_trans a : forall b c, lex_lt a b = true -> lex_lt b c = true -> lex_lt a c = true.
Proof.
  induction a as [|x a IH]; intros [|y b] [|z c] H1 H2; try discriminate; try reflexivity.
  apply lex_lt_cons in H1. apply lex_lt_cons in H2. apply lex_lt_cons.
  destruct H1 as [H1|[-> H1]], H2 as [H2|[-> H2]].
  - left. apply Qclt_trans with y; assumption.
  - left. assumption.
  - left. assumption.
  - right. split; [reflexivity|]. apply (IH b c); assumption.
Qed.

Lemma lex_lt_total a : forall b, lex_lt a b = false -> qlist_eqb b a = false -> lex_lt b a = true.
Proof.
  induction a as [|x a IH]; intros [|y b] H E; try discriminate; try reflexivity.
  apply lex_lt_cons.
  destruct (Qc_eqb x y) eqn:Exy.
    + apply Qc_eqb_eq in Exy. subst. right. split; [reflexivity|]. apply IH.
      * cbn [lex_lt] in H. assert (Qc_eqb y y = true) as Ey by (apply Qc_eqb_eq; reflexivity). rewrite Ey in H. assumption.
      * unfold qlist_eqb in *. cbn [list_eqb] in E.
        assert (Qc_eqb y y = true) as Ey by (apply Qc_eqb_eq; reflexivity). rewrite Ey in E. assumption.
    + left. cbn [lex_lt] in H. rewrite Exy in H.
      destruct (Qclt_le_dec y x) as [Hlt|Hle]; [assumption|].
      exfalso. destruct (Qcle_lt_or_eq _ _ Hle) as [Hlt|Heq].
      * apply qlt_iff in Hlt. congruence.
      * subst. assert (Qc_eqb y y = true) as Ey by (apply Qc_eqb_eq; reflexivity). congruence.
Qed.

Definition lex_sorted (u : list (list Qc)) : Prop := StronglySorted (fun a b => lex_lt a b = true) u.

Lemma lex_insert_sorted v u : lex_sorted u -> lex_sorted (lex_insert v u).
Proof.
  unfold lex_sorted. induction u as [|w r IH]; intros HS; cbn [lex_insert]; [repeat constructor|].
  inversion HS as [|? ? HSr HF]; subst. rewrite Forall_forall in HF.
  destruct (qlist_eqb w v) eqn:E; [assumption|].
  destruct (lex_lt v w) eqn:L.
  - constructor; [assumption|]. apply Forall_forall. intros x [<-|Hx]; [assumption|].
    apply lex_lt_trans with w; [assumption|apply HF; assumption].
  - constructor; [apply IH; assumption|]. apply Forall_forall. intros x Hx. apply lex_insert_in in Hx.
    destruct Hx as [->|Hx]; [apply lex_lt_total; assumption|apply HF; assumption].
Qed.

Lemma lex_sorted_nodup u : lex_sorted u -> NoDup u.
Proof.
  induction 1 as [|a l HS IH HF]; constructor; [|assumption].
  rewrite Forall_forall in HF. intros Hin. specialize (HF a Hin). rewrite lex_lt_irrefl in HF. discriminate.
Qed.

(* np.unique's first output: strictly increasing in lexicographic order (hence distinct), and it
   contains exactly the values of the input rows *)
Theorem np_unique_rows_sorted l : lex_sorted (np_unique_rows l).
Proof.
  induction l as [|r rest IH]; cbn [np_unique_rows fold_right]; [constructor|].
  apply lex_insert_sorted. exact IH.
Qed.

Theorem np_unique_rows_set l v : In v (np_unique_rows l) <-> In v (map vals l).
Proof.
  induction l as [|r rest IH]; cbn [np_unique_rows fold_right map In]; [reflexivity|].
  fold (np_unique_rows rest). rewrite lex_insert_in, IH. intuition.
Qed.

(* return_index / return_inverse: indices[k] is the first position holding uniq[k], and
   uniq[inverse[i]] is row i *)
Lemma first_index_minimal l v : forall j, (j < first_index l v)%nat -> vals (nth j l rowz) <> v.
Proof.
  induction l as [|a r IH]; intros j Hj; [cbn in Hj; lia|]. cbn [first_index] in Hj.
  destruct (qlist_eqb (vals a) v) eqn:E; [lia|].
  destruct j as [|j]; cbn [nth]; [intros Hc; subst; rewrite qlist_eqb_refl in E; discriminate|].
  apply IH. lia.
Qed.

Theorem np_unique_contract l :
  let '(u, indices, inverse) := np_unique l in
  lex_sorted u /\ (forall v, In v u <-> In v (map vals l))
  /\ (forall k, (k < length u)%nat ->
        (nth k indices 0 < length l)%nat /\ vals (nth (nth k indices 0%nat) l rowz) = nth k u []
        /\ forall j, (j < nth k indices 0)%nat -> vals (nth j l rowz) <> nth k u [])
  /\ length inverse = length l
  /\ (forall i, (i < length l)%nat -> nth (nth i inverse 0%nat) u [] = vals (nth i l rowz)).
Proof.
  unfold np_unique. set (u := np_unique_rows l).
  split; [apply np_unique_rows_sorted|]. split; [apply np_unique_rows_set|]. split; [|split].
  - intros k Hk.
    rewrite (nth_indep _ 0%nat (first_index l [])) by (rewrite map_length; assumption).
    rewrite map_nth.
    assert (In (nth k u []) (map vals l)) as Hin by (apply np_unique_rows_set, nth_In; assumption).
    destruct (first_index_spec l _ Hin) as [H1 H2]. split; [assumption|]. split; [assumption|].
    intros j Hj. apply first_index_minimal. exact Hj.
  - apply map_length.
  - intros i Hi.
    rewrite (nth_indep _ 0%nat ((fun r => idx_val (vals r) u) rowz)) by (rewrite map_length; assumption).
    rewrite (map_nth (fun r => idx_val (vals r) u)).
    apply idx_val_spec. apply np_unique_rows_set, in_map, nth_In. assumption.
Qed.

(* the code shape of SampleSet.aggregate equals the specification: aggregate_multiset,
   aggregate_nodup and aggregate_first_seen hold of it *)
Theorem aggregate_np_eq_aggregate_rows l : aggregate_np l = aggregate_rows l.
Proof.
  unfold aggregate_np. apply unsort_accumulate_eq.
  - apply lex_sorted_nodup, np_unique_rows_sorted.
  - apply np_unique_rows_set.
Qed.

(* ... for ANY order in which np.unique might enumerate the distinct rows *)
Theorem aggregate_independent_of_unique_order U l :
  Permutation U (np_unique_rows l) -> unsort_accumulate U l = aggregate_rows l.
Proof.
  intros P. apply unsort_accumulate_eq.
  - apply (Permutation_NoDup (Permutation_sym P)), lex_sorted_nodup, np_unique_rows_sorted.
  - intros v. rewrite <- np_unique_rows_set. split; apply Permutation_in; [assumption|apply Permutation_sym; assumption].
Qed.

(* the three aggregate properties, for the code shape *)
Corollary aggregate_np_multiset l v : weight (aggregate_np l) v = weight l v.
Proof. rewrite aggregate_np_eq_aggregate_rows. apply aggregate_multiset. Qed.
Corollary aggregate_np_nodup l : NoDup (map vals (aggregate_np l)).
Proof. rewrite aggregate_np_eq_aggregate_rows. apply aggregate_nodup. Qed.
Corollary aggregate_np_first_seen l : map strip (aggregate_np l) = map strip (firsts l []).
Proof. rewrite aggregate_np_eq_aggregate_rows. apply aggregate_first_seen. Qed.
