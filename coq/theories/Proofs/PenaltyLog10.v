(* C16: the values the DQM log10 slack encoding reaches, for every U >= 1 *)
From Coq Require Import List ZArith Bool Arith Lia.
From Dimod Require Import Model.Comb Model.Penalty Proofs.CombFacts Proofs.PenaltySlack.
Import ListNotations.
Open Scope Z_scope.

Lemma pow10_pos (j : nat) : 0 < 10 ^ Z.of_nat j.
Proof. apply Z.pow_pos_nonneg; lia. Qed.

Lemma pow10_S (j : nat) : 10 ^ Z.of_nat (S j) = 10 * 10 ^ Z.of_nat j.
Proof. rewrite Nat2Z.inj_succ, Z.pow_succ_r by lia. reflexivity. Qed.

Lemma pow10_mono (i j : nat) : (i <= j)%nat -> 10 ^ Z.of_nat i <= 10 ^ Z.of_nat j.
Proof. intros H. apply Z.pow_le_mono_r; lia. Qed.

(* ---------- number of decimal digits ---------- *)

Lemma ndigits_zero fuel U : U < 1 -> ndigits fuel U = O.
Proof. intros H. destruct fuel; cbn [ndigits]; [reflexivity|]. destruct (Z.ltb_spec U 1); [reflexivity|lia]. Qed.

Lemma ndigits_spec fuel : forall U, 1 <= U -> U < 10 ^ Z.of_nat fuel ->
  exists n, ndigits fuel U = S n /\ 10 ^ Z.of_nat n <= U < 10 ^ Z.of_nat (S n).
Proof.
  induction fuel as [|f IH]; intros U H1 Hf.
  - cbn in Hf. lia.
  - cbn [ndigits]. destruct (Z.ltb_spec U 1) as [|_]; [lia|].
    destruct (Z.lt_ge_cases U 10) as [Hs|Hb].
    + exists O. rewrite ndigits_zero by (apply Z.div_lt_upper_bound; lia). split; [reflexivity|]. cbn. lia.
    + assert (Hq1 : 1 <= U / 10) by (apply Z.div_le_lower_bound; lia).
      assert (Hq2 : U / 10 < 10 ^ Z.of_nat f).
      { apply Z.div_lt_upper_bound; [lia|]. rewrite pow10_S in Hf. exact Hf. }
      destruct (IH (U / 10) Hq1 Hq2) as [n [Hn [Hlo Hhi]]].
      exists (S n). rewrite Hn. split; [reflexivity|].
      rewrite !pow10_S in *. pose proof (Z.div_mod U 10 ltac:(lia)) as Hdm.
      pose proof (Z.mod_pos_bound U 10 ltac:(lia)) as Hm. lia.
Qed.

Lemma ndigits_U U : 1 <= U ->
  exists n, ndigits (Z.to_nat U) U = S n /\ 10 ^ Z.of_nat n <= U < 10 ^ Z.of_nat (S n).
Proof.
  intros H. apply ndigits_spec; [exact H|]. rewrite Z2Nat.id by lia. apply Z.pow_gt_lin_r; lia.
Qed.

(* ---------- one digit ---------- *)

Lemma digit_values_In U j v :
  In v (log10_digit_values U j) <->
  exists k, 0 <= k <= 9 /\ v = k * 10 ^ Z.of_nat j /\
            (k = 0 \/ k * 10 ^ Z.of_nat j < Z.min (U + 1) (10 ^ Z.of_nat (S j))).
Proof.
  unfold log10_digit_values. cbn [In]. rewrite filter_In, in_map_iff. split.
  - intros [H|[[k [Hk Hin]] Hlt]].
    + exists 0. split; [lia|]. split; [lia|left; reflexivity].
    + apply in_seq in Hin. apply Z.ltb_lt in Hlt. exists (Z.of_nat k). split; [lia|]. split; [lia|].
      right. rewrite Hk. exact Hlt.
  - intros [k [Hk [Hv [H0|Hlt]]]].
    + left. subst. lia.
    + destruct (Z.eq_dec k 0) as [->|Hne]; [left; lia|]. right. split.
      * exists (Z.to_nat k). split; [rewrite Z2Nat.id by lia; lia|]. apply in_seq. lia.
      * apply Z.ltb_lt. rewrite Hv. exact Hlt.
Qed.

(* a digit below the leading one takes 0..9 *)
Lemma digit_values_full U j v : 10 ^ Z.of_nat (S j) <= U ->
  (In v (log10_digit_values U j) <-> exists k, 0 <= k <= 9 /\ v = k * 10 ^ Z.of_nat j).
Proof.
  intros Hle. rewrite digit_values_In. pose proof (pow10_pos j) as Hp. rewrite pow10_S in *. split.
  - intros [k [Hk [Hv _]]]. exists k. split; assumption.
  - intros [k [Hk Hv]]. exists k. split; [exact Hk|]. split; [exact Hv|]. right.
    rewrite Z.min_r by lia. nia.
Qed.

(* the leading digit takes 0..U / 10^j *)
Lemma digit_values_lead U j v : 10 ^ Z.of_nat j <= U < 10 ^ Z.of_nat (S j) ->
  (In v (log10_digit_values U j) <-> exists k, 0 <= k <= U / 10 ^ Z.of_nat j /\ v = k * 10 ^ Z.of_nat j).
Proof.
  intros [Hlo Hhi]. rewrite digit_values_In. pose proof (pow10_pos j) as Hp. rewrite pow10_S in *.
  set (p := 10 ^ Z.of_nat j) in *.
  assert (Hd9 : U / p <= 9) by (apply Z.lt_succ_r; apply Z.div_lt_upper_bound; lia).
  assert (Hd1 : 1 <= U / p) by (apply Z.div_le_lower_bound; lia).
  rewrite Z.min_l by lia. split.
  - intros [k [Hk [Hv [H0|Hlt]]]]; exists k; (split; [|exact Hv]).
    + lia.
    + split; [lia|]. apply Z.div_le_lower_bound; [lia|]. lia.
  - intros [k [Hk Hv]]. exists k. split; [lia|]. split; [exact Hv|]. right.
    assert (k * p <= U); [|lia].
    pose proof (Z.mul_div_le U p Hp). nia.
Qed.

(* ---------- sums ---------- *)

Lemma choice_sums_app (a b : list (list Z)) t :
  In t (choice_sums (a ++ b)) <-> exists x y, In x (choice_sums a) /\ In y (choice_sums b) /\ t = x + y.
Proof.
  revert t. induction a as [|d a IH]; intros t; cbn [app].
  - cbn [choice_sums In]. split.
    + intros H. exists 0, t. split; [left; reflexivity|]. split; [exact H|lia].
    + intros [x [y [[Hx|[]] [Hy Ht]]]]. subst. exact Hy.
  - rewrite !choice_sums_cons. split.
    + intros [x [y [Hx [Hy Ht]]]]. apply IH in Hy. destruct Hy as [x' [y' [Hx' [Hy' Hy]]]].
      exists (x + x'), y'. split; [|split; [exact Hy'|lia]].
      apply choice_sums_cons. exists x, x'. split; [exact Hx|]. split; [exact Hx'|reflexivity].
    + intros [x [y [Hx [Hy Ht]]]]. apply choice_sums_cons in Hx. destruct Hx as [x1 [x2 [H1 [H2 Hx]]]].
      exists x1, (x2 + y). split; [exact H1|]. split; [|lia]. apply IH. exists x2, y. split; [exact H2|]. split; [exact Hy|reflexivity].
Qed.

Lemma digit_combine p K t : 0 < p -> 0 <= K ->
  (exists x k, 0 <= x < p /\ 0 <= k <= K /\ t = x + k * p) <-> 0 <= t < (K + 1) * p.
Proof.
  intros Hp HK. split.
  - intros [x [k [Hx [Hk Ht]]]]. nia.
  - intros Ht. exists (t mod p), (t / p).
    pose proof (Z.mod_pos_bound t p Hp) as Hm. pose proof (Z.div_mod t p ltac:(lia)) as Hdm.
    split; [exact Hm|]. split; [|lia]. split.
    + apply Z.div_pos; lia.
    + apply Z.lt_succ_r. apply Z.div_lt_upper_bound; lia.
Qed.

(* the digits below position m (all full) reach exactly 0 .. 10^m - 1 *)
Lemma lower_digits U m : 10 ^ Z.of_nat m <= U -> forall t,
  In t (choice_sums (map (log10_digit_values U) (seq 0 m))) <-> 0 <= t < 10 ^ Z.of_nat m.
Proof.
  induction m as [|m IH]; intros Hle t.
  - cbn [seq map choice_sums In]. cbn. lia.
  - rewrite seq_S, map_app, choice_sums_app. cbn [map plus].
    assert (Hle' : 10 ^ Z.of_nat m <= U) by (pose proof (pow10_mono m (S m) ltac:(lia)); lia).
    pose proof (pow10_pos m) as Hp.
    rewrite pow10_S. replace (10 * 10 ^ Z.of_nat m) with ((9 + 1) * 10 ^ Z.of_nat m) by lia.
    rewrite <- (digit_combine (10 ^ Z.of_nat m) 9 t Hp ltac:(lia)). split.
    + intros [x [y [Hx [Hy Ht]]]]. apply (IH Hle') in Hx.
      rewrite choice_sums_cons in Hy. destruct Hy as [v [z [Hv [[Hz|[]] Hy]]]]. subst z.
      apply (digit_values_full U m v Hle) in Hv. destruct Hv as [k [Hk Hv]].
      exists x, k. split; [exact Hx|]. split; [exact Hk|]. lia.
    + intros [x [k [Hx [Hk Ht]]]]. exists x, (k * 10 ^ Z.of_nat m). split; [apply (IH Hle'); exact Hx|].
      split; [|exact Ht]. rewrite choice_sums_cons. exists (k * 10 ^ Z.of_nat m), 0.
      split; [apply (digit_values_full U m _ Hle); exists k; split; [exact Hk|reflexivity]|].
      split; [left; reflexivity|lia].
Qed.

(* the largest value the encoding reaches: (leading digit + 1) * 10^(digits - 1) - 1 *)
Definition log10_top (U : Z) : Z :=
  let p := 10 ^ Z.of_nat (pred (ndigits (Z.to_nat U) U)) in (U / p + 1) * p - 1.

Theorem dqm_log10_reach U : 1 <= U ->
  forall t, In t (choice_sums (dqm_log10_values U)) <-> 0 <= t <= log10_top U.
Proof.
  intros H1 t. unfold dqm_log10_values, log10_top.
  destruct (ndigits_U U H1) as [n [Hn [Hlo Hhi]]]. rewrite Hn. cbn [pred].
  rewrite seq_S, map_app, choice_sums_app. cbn [map plus].
  pose proof (pow10_pos n) as Hp. set (p := 10 ^ Z.of_nat n) in *.
  assert (Hd0 : 0 <= U / p) by (apply Z.div_pos; lia).
  assert (Hiff : 0 <= t <= (U / p + 1) * p - 1 <-> 0 <= t < (U / p + 1) * p) by lia.
  rewrite Hiff. rewrite <- (digit_combine p (U / p) t Hp Hd0). split.
  - intros [x [y [Hx [Hy Ht]]]]. apply (lower_digits U n Hlo) in Hx.
    rewrite choice_sums_cons in Hy. destruct Hy as [v [z [Hv [[Hz|[]] Hy]]]]. subst z.
    apply (digit_values_lead U n v (conj Hlo Hhi)) in Hv. destruct Hv as [k [Hk Hv]].
    exists x, k. split; [exact Hx|]. split; [exact Hk|]. fold p in Hv. lia.
  - intros [x [k [Hx [Hk Ht]]]]. exists x, (k * p). split; [apply (lower_digits U n Hlo); exact Hx|].
    split; [|exact Ht]. rewrite choice_sums_cons. exists (k * p), 0.
    split; [apply (digit_values_lead U n _ (conj Hlo Hhi)); exists k; split; [exact Hk|reflexivity]|].
    split; [left; reflexivity|lia].
Qed.

(* never less than U: nothing in 0..U is missed *)
Lemma log10_top_ge U : 1 <= U -> U <= log10_top U.
Proof.
  intros H1. unfold log10_top. destruct (ndigits_U U H1) as [n [Hn [Hlo Hhi]]]. rewrite Hn. cbn [pred].
  pose proof (pow10_pos n) as Hp. set (p := 10 ^ Z.of_nat n) in *.
  pose proof (Z.div_mod U p ltac:(lia)) as Hdm. pose proof (Z.mod_pos_bound U p Hp) as Hm. nia.
Qed.

Theorem dqm_log10_covers U : 1 <= U -> forall t, 0 <= t <= U -> In t (choice_sums (dqm_log10_values U)).
Proof. intros H1 t Ht. apply dqm_log10_reach; [exact H1|]. pose proof (log10_top_ge U H1). lia. Qed.

(* exact (hence the gap holds) precisely when every digit below the leading one of U is 9 *)
Lemma log10_top_eq_iff U : 1 <= U ->
  (log10_top U = U <-> (U + 1) mod 10 ^ Z.of_nat (pred (ndigits (Z.to_nat U) U)) = 0).
Proof.
  intros H1. unfold log10_top. destruct (ndigits_U U H1) as [n [Hn [Hlo Hhi]]]. rewrite Hn. cbn [pred].
  pose proof (pow10_pos n) as Hp. set (p := 10 ^ Z.of_nat n) in *.
  pose proof (Z.div_mod U p ltac:(lia)) as Hdm. pose proof (Z.mod_pos_bound U p Hp) as Hm.
  split.
  - intros He. assert (Hu : U + 1 = (U / p + 1) * p) by lia. rewrite Hu. apply Z.mod_mul. lia.
  - intros Hz. apply Z.mod_divide in Hz; [|lia]. destruct Hz as [q Hq].
    assert (Hq' : q = U / p + 1) by nia. subst q. lia.
Qed.

Theorem dqm_log10_gap_when_exact U A ubc : 1 <= U -> log10_top U = U ->
  ((ubc - U <= A <= ubc) -> exists sl, In sl (choice_sums (dqm_slack_values Log10 U)) /\ pen_val A sl ubc = 0) /\
  (~ (ubc - U <= A <= ubc) -> forall sl, In sl (choice_sums (dqm_slack_values Log10 U)) -> 1 <= pen_val A sl ubc) /\
  (forall sl, 0 <= pen_val A sl ubc).
Proof.
  intros H1 He. apply exact_cover_gap. intros t. cbn [dqm_slack_values]. rewrite dqm_log10_reach by exact H1.
  rewrite He. reflexivity.
Qed.

(* and whenever it is not exact, some violating sum below lb_c has zero penalty *)
Theorem dqm_log10_overcover_breaks_gap U ubc : 1 <= U -> U < log10_top U ->
  exists A sl, ~ (ubc - U <= A <= ubc) /\ In sl (choice_sums (dqm_slack_values Log10 U)) /\ pen_val A sl ubc = 0.
Proof.
  intros H1 Hlt. exists (ubc - log10_top U), (log10_top U). split; [lia|]. split.
  - cbn [dqm_slack_values]. apply dqm_log10_reach; [exact H1|]. lia.
  - unfold pen_val. nia.
Qed.
