(* C17: combinations(n, k, strength) - the coefficient rule TRANSLATED from the source
   (Gen/Gen_Combinations.v) gives strength * (sum x - k)^2 on every 0/1 assignment, all n and k *)
From Coq Require Import List ZArith Bool Arith Lia.
From Dimod Require Import Model.Comb Proofs.CombFacts Gen.Gen_Combinations.
Import ListNotations.
Open Scope Z_scope.

(* every variable carries comb_lbias, every pair comb_qbias, the offset is comb_offset *)
Definition comb_rule_energy (s k : Z) (x : list bool) : Z :=
  comb_lbias s k * count_true x + comb_qbias s k * pairs_true x + comb_offset s k.

Theorem comb_rule_square s k x :
  comb_rule_energy s k x = s * ((count_true x - k) * (count_true x - k)).
Proof.
  unfold comb_rule_energy, comb_lbias, comb_qbias, comb_offset.
  pose proof (pairs_true_spec x) as H. rewrite Z.pow_2_r. nia.
Qed.

Theorem comb_rule_model s k x : comb_rule_energy s k x = s * combinations_energy k x.
Proof.
  rewrite comb_rule_square. destruct (combinations_energy_facts k x) as [H _]. rewrite H. reflexivity.
Qed.
