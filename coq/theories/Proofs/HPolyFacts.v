From Coq Require Import List ZArith QArith Qcanon Bool Arith Lia.
From Dimod Require Import Base.Util Model.Poly Model.HPoly Proofs.PolyFacts.
Import ListNotations.
Open Scope Qc_scope.

Lemma fix_vars_in_val fs vs s :
  let '(rest, k) := fix_vars_in fs vs in
  k * qprod (map s rest) = qprod (map (override fs s) vs).
Proof.
  induction vs as [|v vs IH]; cbn [fix_vars_in map qprod].
  - ring.
  - destruct (fix_vars_in fs vs) as [rest k]. unfold override at 1.
    destruct (lookup fs v) as [a|]; cbn [map qprod]; rewrite <- IH; ring.
Qed.

Lemma hfix_mono_val fs t s : mono_val s (hfix_mono fs t) = mono_val (override fs s) t.
Proof.
  unfold hfix_mono, mono_val. pose proof (fix_vars_in_val fs (fst t) s) as H.
  destruct (fix_vars_in fs (fst t)) as [rest k]. cbn [fst snd]. rewrite <- H. ring.
Qed.

(* C03 (polynomial path): fixing = evaluating at the extended assignment *)
Theorem hfix_energy fs p s : henergy (hfix fs p) s = henergy p (override fs s).
Proof.
  unfold henergy, hfix. rewrite map_map. f_equal. apply map_ext. intros t. apply hfix_mono_val.
Qed.

Lemma fix_vars_in_rest fs vs v :
  In v (fst (fix_vars_in fs vs)) -> lookup fs v = None.
Proof.
  induction vs as [|w vs IH]; cbn [fix_vars_in]; [cbn; tauto|].
  destruct (fix_vars_in fs vs) as [rest k]. destruct (lookup fs w) eqn:E; cbn [fst] in *.
  - exact IH.
  - intros [<-|H]; [exact E|auto].
Qed.

(* no fixed variable survives in the fixed polynomial *)
Theorem hfix_removes fs p t v :
  In t (hfix fs p) -> In v (fst t) -> lookup fs v = None.
Proof.
  unfold hfix. rewrite in_map_iff. intros [t0 [<- _]]. unfold hfix_mono.
  pose proof (fix_vars_in_rest fs (fst t0) v) as H.
  destruct (fix_vars_in fs (fst t0)) as [rest k]. exact H.
Qed.

Lemma qsum_map_scale {A} (f : A -> Qc) k l : qsum (map (fun x => k * f x) l) = k * qsum (map f l).
Proof. induction l as [|x l IH]; cbn [map qsum]; [ring|rewrite IH; ring]. Qed.

Lemma expand_affine_val m c vs s :
  qsum (map (mono_val s) (expand_affine m c vs)) = qprod (map (fun v => m * s v + c) vs).
Proof.
  induction vs as [|v vs IH]; cbn [expand_affine map qprod qsum].
  - unfold mono_val; cbn [fst snd map qprod]. ring.
  - rewrite map_app, qsum_app, !map_map. rewrite <- IH.
    transitivity ((m * s v) * qsum (map (mono_val s) (expand_affine m c vs)) + c * qsum (map (mono_val s) (expand_affine m c vs))); [|ring].
    rewrite <- !qsum_map_scale.
    f_equal; f_equal; apply map_ext; intros t; unfold mono_val; cbn [fst snd map qprod]; ring.
Qed.

Lemma qsum_flat_map {A} (f : A -> list Qc) l : qsum (flat_map f l) = qsum (map (fun x => qsum (f x)) l).
Proof. induction l as [|x l IH]; cbn [flat_map map qsum]; [reflexivity|]. rewrite qsum_app, IH. reflexivity. Qed.

(* C02 (polynomial path): the powerset expansion is the affine substitution *)
Theorem hsubst_all_energy m c p s :
  henergy (hsubst_all m c p) s = henergy p (fun v => m * s v + c).
Proof.
  unfold henergy, hsubst_all. induction p as [|t p IH]; cbn [flat_map map qsum]; [reflexivity|].
  rewrite map_app, qsum_app, IH. f_equal.
  unfold hsubst_all_mono. rewrite map_map. unfold mono_val at 2. rewrite <- expand_affine_val.
  rewrite <- qsum_map_scale. f_equal. apply map_ext. intros u. unfold mono_val; cbn [fst snd]. ring.
Qed.

Corollary h_spin_to_binary_energy p x :
  henergy (h_spin_to_binary p) x = henergy p (fun v => two * x v - 1).
Proof. unfold h_spin_to_binary. rewrite hsubst_all_energy. f_equal. Qed.

Corollary h_binary_to_spin_energy p s :
  henergy (h_binary_to_spin p) s = henergy p (fun v => (s v + 1) * half).
Proof.
  unfold h_binary_to_spin. rewrite hsubst_all_energy. unfold henergy. f_equal. apply map_ext.
  intros t. unfold mono_val. f_equal. f_equal. apply map_ext. intros v. ring.
Qed.
