(* C12 - proofs about Model/LP.v *)
From Coq Require Import List ZArith NArith QArith Qcanon Bool Arith Lia.
From Dimod Require Import Base.Util Model.Poly Model.LP Proofs.PolyFacts.
Import ListNotations.
Open Scope Qc_scope.

(* ------------------------------------------------------------------ *)
(* terms *)

Lemma Qc_eqb_true a b : Qc_eqb a b = true -> a = b.
Proof. unfold Qc_eqb. intros H. apply Qc_is_canon. apply Qeq_bool_iff. exact H. Qed.

Lemma lin_energy_filter_nonzero l s :
  lin_energy (filter nonzero_term l) s = lin_energy l s.
Proof.
  induction l as [|t l IH]; [reflexivity|].
  cbn [filter]. unfold nonzero_term at 1.
  destruct (Qc_eqb (snd t) 0) eqn:E; cbn [negb].
  - apply Qc_eqb_true in E. rewrite lin_energy_cons, IH, E. ring.
  - rewrite !lin_energy_cons, IH. reflexivity.
Qed.

Lemma half_two : half * two = 1.
Proof. rewrite Qcmult_comm. apply two_half. Qed.

Lemma quad_double_half (q : list qterm) s :
  quad_energy (map (fun t => (fst t, half * snd t)) (map (fun t => (fst t, two * snd t)) q)) s
  = quad_energy q s.
Proof.
  rewrite quad_energy_scale, quad_energy_scale.
  rewrite Qcmult_assoc, half_two. ring.
Qed.

Theorem objective_roundtrip p s :
  energy (read_objective (write_objective p)) s = energy p s.
Proof.
  unfold read_objective, write_objective, energy. cbn [p_off p_lin p_quad lo_lin lo_quad2 lo_const].
  rewrite lin_energy_filter_nonzero, quad_double_half. reflexivity.
Qed.

(* coefficient level: what is written is exactly twice the quadratic bias, and reading halves it *)
Theorem objective_quad_coeffs p :
  map snd (lo_quad2 (write_objective p)) = map (fun t => two * snd t) (p_quad p) /\
  p_quad (read_objective (write_objective p)) = p_quad p.
Proof.
  split.
  - unfold write_objective. cbn [lo_quad2]. rewrite map_map. reflexivity.
  - unfold read_objective, write_objective. cbn [p_quad lo_quad2]. rewrite map_map.
    rewrite <- (map_id (p_quad p)) at 2. apply map_ext. intros [uv b]. cbn [fst snd]. f_equal.
    rewrite Qcmult_assoc, half_two. ring.
Qed.

Theorem constraint_roundtrip c s :
  let c' := read_constraint (write_constraint c) in
  c_sense c' = c_sense c /\
  energy (c_lhs c') s - c_rhs c' = energy (c_lhs c) s - c_rhs c /\
  p_off (c_lhs c') = 0 /\ c_rhs c' = c_rhs c - p_off (c_lhs c).
Proof.
  cbn zeta. unfold read_constraint, write_constraint.
  cbn [c_sense c_lhs c_rhs lc_sense lc_lin lc_quad lc_rhs]. repeat split.
  unfold energy. cbn [p_off p_lin p_quad]. rewrite lin_energy_filter_nonzero. ring.
Qed.

Lemma Qcle_shift a b k : a <= b <-> a + k <= b + k.
Proof.
  split; intros H.
  - apply Qcplus_le_compat; [exact H | apply Qcle_refl].
  - assert (E : forall x, x = (x + k) + - k) by (intros; ring).
    rewrite (E a), (E b). apply Qcplus_le_compat; [exact H | apply Qcle_refl].
Qed.

Theorem constraint_holds_iff c s :
  holds (read_constraint (write_constraint c)) s <-> holds c s.
Proof.
  destruct (constraint_roundtrip c s) as [Hs [He [_ Hr]]]. cbn zeta in *.
  set (c' := read_constraint (write_constraint c)) in *.
  unfold holds. rewrite Hs.
  assert (E1 : energy (c_lhs c') s = energy (c_lhs c) s - p_off (c_lhs c)).
  { assert (X : energy (c_lhs c') s = (energy (c_lhs c') s - c_rhs c') + c_rhs c') by ring.
    rewrite X, He, Hr. ring. }
  rewrite E1, Hr.
  assert (E2 : energy (c_lhs c) s = (energy (c_lhs c) s - p_off (c_lhs c)) + p_off (c_lhs c)) by ring.
  assert (E3 : c_rhs c = (c_rhs c - p_off (c_lhs c)) + p_off (c_lhs c)) by ring.
  destruct (c_sense c).
  - rewrite E2 at 2. rewrite E3 at 2. apply Qcle_shift.
  - rewrite E2 at 2. rewrite E3 at 2. apply Qcle_shift.
  - split; intros H.
    + rewrite E2, H. ring.
    + rewrite H. reflexivity.
Qed.

Theorem objective_max_negates o s :
  energy (read_objective_max o) s = - energy (read_objective o) s.
Proof. unfold read_objective_max. rewrite energy_scale. ring. Qed.

(* ------------------------------------------------------------------ *)
(* text *)

Lemma tok_blank_split a : forall cur c b, is_blank c = true ->
  tok cur (a ++ c :: b) = tok cur a ++ tok [] b.
Proof.
  induction a as [|x a IH]; intros cur c b Hc.
  - cbn [app tok]. rewrite Hc. destruct cur; reflexivity.
  - cbn [app tok]. destruct (is_blank x).
    + destruct cur; rewrite IH by exact Hc; reflexivity.
    + apply IH. exact Hc.
Qed.

Lemma tokens_app_starts a b : starts_blank b -> tokens (a ++ b) = tokens a ++ tokens b.
Proof.
  intros [c [r [E Hc]]]. subst b. unfold tokens.
  rewrite tok_blank_split by exact Hc. cbn [tok]. rewrite Hc. reflexivity.
Qed.

Lemma tokens_app_ends a b : ends_blank a -> tokens (a ++ b) = tokens a ++ tokens b.
Proof.
  intros [r [c [E Hc]]]. subst a. unfold tokens. rewrite <- app_assoc. cbn [app].
  rewrite tok_blank_split by exact Hc.
  rewrite (tok_blank_split r [] c [] Hc). cbn [tok]. rewrite app_nil_r. reflexivity.
Qed.

Lemma tokens_break : tokens [NL; SP] = [].
Proof. reflexivity. Qed.

Lemma break_ends_blank : ends_blank [NL; SP].
Proof. exists [NL], SP. split; reflexivity. Qed.

Lemma piece_tokens p : tokens (piece_text p) = tokens (snd p).
Proof.
  destruct p as [[|] s]; unfold piece_text; cbn [fst snd]; [|reflexivity].
  rewrite tokens_app_ends by apply break_ends_blank. reflexivity.
Qed.

Lemma piece_starts p : starts_blank (snd p) -> starts_blank (piece_text p).
Proof.
  destruct p as [[|] s]; unfold piece_text; cbn [fst snd]; intros H; [|exact H].
  exists NL, (SP :: s). split; reflexivity.
Qed.

Lemma piece_ends p : ends_blank (snd p) -> ends_blank (piece_text p).
Proof.
  intros [r [c [E Hc]]]. unfold piece_text. rewrite E.
  exists ((if fst p then [NL; SP] else []) ++ r), c. split; [rewrite app_assoc; reflexivity | exact Hc].
Qed.

Lemma wrap_pieces_snd ws : forall ll, map snd (wrap_pieces ll ws) = ws.
Proof. induction ws as [|s r IH]; intros ll; [reflexivity|]. cbn [wrap_pieces map snd]. rewrite IH. reflexivity. Qed.

(* the text after the first piece is empty or begins with a blank whenever the next write does,
   or a break was inserted *)
Lemma wrap_from_head ll b r :
  starts_blank b -> starts_blank (wrap_from ll (b :: r)).
Proof.
  intros H. unfold wrap_from. cbn [wrap_pieces flat_map].
  set (p := (Nat.ltb (TARGET - 1) (ll + first_line_len b), b)).
  destruct (piece_starts p H) as [c [t [E Hc]]].
  exists c, (t ++ flat_map piece_text
     (wrap_pieces (match after_last_nl b with
                   | Some k => k
                   | None => ((if Nat.ltb (TARGET - 1) (ll + first_line_len b) then 1 else ll) + length b)%nat
                   end) r)).
  split; [|exact Hc]. rewrite E. reflexivity.
Qed.

Theorem wrap_from_preserves_tokens ws : forall ll,
  sealed ws -> tokens (wrap_from ll ws) = flat_map tokens ws.
Proof.
  induction ws as [|a r IH]; intros ll Hs; [reflexivity|].
  destruct Hs as [Ha [Hadj Hr]].
  unfold wrap_from. cbn [wrap_pieces flat_map].
  set (brk := Nat.ltb (TARGET - 1) (ll + first_line_len a)).
  set (ll' := match after_last_nl a with
              | Some k => k
              | None => ((if brk then 1 else ll) + length a)%nat
              end).
  fold (wrap_from ll' r).
  destruct r as [|b r'].
  - unfold wrap_from. cbn [wrap_pieces flat_map]. rewrite !app_nil_r. apply (piece_tokens (brk, a)).
  - destruct Hadj as [He | Hb].
    + rewrite tokens_app_ends by (apply piece_ends; exact He).
      rewrite (piece_tokens (brk, a)), (IH ll' Hr). reflexivity.
    + rewrite tokens_app_starts by (apply wrap_from_head; exact Hb).
      rewrite (piece_tokens (brk, a)), (IH ll' Hr). reflexivity.
Qed.

Theorem wrap_preserves_tokens ws :
  sealed ws -> tokens (wrap ws) = flat_map tokens ws.
Proof. apply wrap_from_preserves_tokens. Qed.

(* the file receives the writes themselves, in order; the only insertion is the break NL SP
   in front of a write, so every line the wrapper starts begins with a blank *)
Theorem wrap_structure ws :
  map snd (wrap_pieces 0%nat ws) = ws /\
  wrap ws = flat_map (fun p : bool * text => (if fst p then [NL; SP] else []) ++ snd p) (wrap_pieces 0%nat ws).
Proof. split; [apply wrap_pieces_snd | reflexivity]. Qed.

Lemma starts_blankb_spec s : starts_blankb s = true <-> starts_blank s.
Proof.
  split.
  - destruct s as [|c r]; cbn [starts_blankb]; [discriminate|]. intros H. exists c, r. split; [reflexivity | exact H].
  - intros [c [r [E H]]]. subst s. exact H.
Qed.

Lemma ends_blankb_spec s : ends_blankb s = true <-> ends_blank s.
Proof.
  unfold ends_blankb. rewrite starts_blankb_spec. split.
  - intros [c [r [E H]]]. exists (rev r), c. split; [|exact H].
    rewrite <- (rev_involutive s), E. reflexivity.
  - intros [r [c [E H]]]. exists c, (rev r). split; [|exact H].
    rewrite E, rev_app_distr. reflexivity.
Qed.

Theorem sealedb_sound ws : sealedb ws = true -> sealed ws.
Proof.
  induction ws as [|a r IH]; [constructor|].
  cbn [sealedb sealed]. intros H.
  apply andb_true_iff in H. destruct H as [H H3]. apply andb_true_iff in H. destruct H as [H1 H2].
  split; [|split].
  - destruct a; [discriminate | discriminate].
  - destruct r as [|b r']; [exact I|].
    apply orb_true_iff in H2. destruct H2 as [H2 | H2].
    + left. apply ends_blankb_spec. exact H2.
    + right. apply starts_blankb_spec. exact H2.
  - apply IH. exact H3.
Qed.

(* ------------------------------------------------------------------ *)
(* labels *)

Theorem validate_label_spec l : validate_label l = true <-> lp_name l.
Proof.
  split.
  - destruct l as [s|]; [|discriminate]. destruct s as [|c r]; [discriminate|].
    cbn [validate_label]. intros H.
    apply andb_true_iff in H. destruct H as [H H3]. apply andb_true_iff in H. destruct H as [H1 H2].
    exists c, r. repeat split.
    + apply Nat.leb_le. exact H1.
    + apply Forall_forall. intros x Hx. exact (proj1 (forallb_forall _ _) H2 x Hx).
    + apply negb_true_iff. exact H3.
  - intros [c [r [E [H1 [H2 H3]]]]]. subst l. cbn [validate_label].
    apply andb_true_iff. split; [apply andb_true_iff; split|].
    + apply Nat.leb_le. exact H1.
    + apply forallb_forall. intros x Hx. exact (proj1 (Forall_forall _ _) H2 x Hx).
    + rewrite H3. reflexivity.
Qed.

Theorem dump_ok_spec m : dump_ok m = true <-> expressible m.
Proof.
  unfold dump_ok, expressible. rewrite !andb_true_iff, Nat.eqb_eq, !forallb_forall, !Forall_forall.
  split.
  - intros [[H1 H2] H3]. split; [exact H1|]. split.
    + intros l Hl. apply validate_label_spec. apply H2. exact Hl.
    + intros v Hv. specialize (H3 v Hv). apply andb_true_iff in H3. destruct H3 as [Ha Hb].
      split; [apply validate_label_spec; exact Ha|].
      intros E. rewrite E in Hb. discriminate.
  - intros [H1 [H2 H3]]. split; [split; [exact H1|]|].
    + intros l Hl. apply validate_label_spec. apply H2. exact Hl.
    + intros v Hv. destruct (H3 v Hv) as [Ha Hb]. apply andb_true_iff. split.
      * apply validate_label_spec. exact Ha.
      * destruct (snd v); try reflexivity. contradiction Hb. reflexivity.
Qed.

(* dump raises exactly when the model is not expressible *)
Theorem refused_iff_inexpressible m : dump_ok m = false <-> ~ expressible m.
Proof.
  rewrite <- dump_ok_spec. destruct (dump_ok m); split; intros H; try reflexivity; try discriminate.
  contradiction H. reflexivity.
Qed.

(* the three refusal causes named in the property *)
Theorem refusal_causes m :
  (sh_soft m <> 0%nat -> dump_ok m = false) /\
  (forall v, In v (sh_vars m) -> snd v = SPIN -> dump_ok m = false) /\
  (forall l, In l (sh_cons m) \/ In l (map fst (sh_vars m)) -> ~ lp_name l -> dump_ok m = false).
Proof.
  repeat split.
  - intros H. apply refused_iff_inexpressible. intros [E _]. contradiction.
  - intros v Hv Hs. apply refused_iff_inexpressible. intros [_ [_ E]].
    destruct (proj1 (Forall_forall _ _) E v Hv) as [_ X]. contradiction.
  - intros l [Hl | Hl] Hn; apply refused_iff_inexpressible; intros [_ [E1 E2]].
    + apply Hn. exact (proj1 (Forall_forall _ _) E1 l Hl).
    + apply in_map_iff in Hl. destruct Hl as [v [Ev Hv]]. subst l.
      apply Hn. exact (proj1 (proj1 (Forall_forall _ _) E2 v Hv)).
Qed.
