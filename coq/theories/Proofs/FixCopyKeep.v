(* C03, copying path: the re-indexing that fix_variables_expr induces on LOCAL indices is strictly
   monotone, which is the hypothesis under which Proofs/FixCopyBack.v shows that every
   add_quadratic_back it issues meets its ordering precondition.

   The linear phase visits the source's local variables in order and enforces the surviving ones in
   the destination, so the local index in dst of the surviving src local variable i is its RANK among
   the survivors (FixCopyFacts.fix_copy_lin_phase_vars: e_vars dst = new indices of the survivors in
   source order). *)
From Coq Require Import List ZArith QArith Qcanon Bool Arith Lia.
From Dimod Require Import Base.Util Model.Poly Model.Expr Model.FixCopy Proofs.FixCopyFacts Proofs.FixCopyBack.
From Dimod Require Model.Adj Proofs.AdjInv.
Import ListNotations.

Definition survives (vars : list nat) (o2n : list (option nat)) (i : nat) : bool :=
  (i <? length vars)%nat && match o2n_get o2n (nth i vars 0%nat) with Some _ => true | None => false end.

Definition rank (surv : nat -> bool) (i : nat) : nat := length (filter surv (seq 0 i)).

(* local index in dst of src local variable i (None: fixed, or not a local variable) *)
Definition local_keep (vars : list nat) (o2n : list (option nat)) (i : nat) : option nat :=
  if survives vars o2n i then Some (rank (survives vars o2n) i) else None.

Lemma rank_lt surv a b : (a < b)%nat -> surv a = true -> (rank surv a < rank surv b)%nat.
Proof.
  intros Hab Ha. unfold rank.
  replace b with (a + (1 + (b - a - 1)))%nat by lia.
  rewrite seq_app, filter_app, app_length. cbn [plus]. rewrite (seq_app 1 _ (0 + a)). cbn [seq].
  rewrite filter_app, app_length. cbn [filter]. rewrite Nat.add_0_l, Ha. cbn [length]. lia.
Qed.

Theorem local_keep_mono vars o2n : mono_keep (local_keep vars o2n).
Proof.
  intros a b ka kb Hab Ha Hb. unfold local_keep in *.
  destruct (survives vars o2n a) eqn:Sa; [|discriminate].
  destruct (survives vars o2n b) eqn:Sb; [|discriminate].
  inversion Ha; inversion Hb; subst. apply rank_lt; assumption.
Qed.

Lemma rank_le_total surv a N : (a <= N)%nat -> (rank surv a <= rank surv N)%nat.
Proof.
  intros H. unfold rank. replace N with (a + (N - a))%nat by lia.
  rewrite seq_app, filter_app, app_length. lia.
Qed.

(* the number of survivors is the number of variables of the rebuilt expression *)
Lemma new_vars_of_length o2n : forall (vars : list nat) (lin : list Qc) (a0 : nat) (pre : list nat),
  length lin = length vars ->
  length (new_vars_of o2n (combine vars lin))
  = length (filter (fun i => match o2n_get o2n (nth i (pre ++ vars) 0%nat) with Some _ => true | None => false end)
                   (seq (length pre) (length vars))).
Proof.
  induction vars as [|v vars IH]; intros lin a0 pre Hl; [destruct lin; reflexivity|].
  destruct lin as [|b lin]; [discriminate|]. cbn [combine new_vars_of flat_map length seq filter fst].
  rewrite app_length. rewrite app_nth2 by lia. rewrite Nat.sub_diag. cbn [nth].
  fold (new_vars_of o2n (combine vars lin)).
  specialize (IH lin a0 (pre ++ [v])). rewrite app_length in IH. cbn [length] in IH.
  rewrite <- app_assoc in IH. cbn [app] in IH. rewrite Nat.add_1_r in IH.
  rewrite IH by (cbn [length] in Hl; lia).
  destruct (o2n_get o2n v); reflexivity.
Qed.

Theorem local_keep_bound vars lin o2n a ka :
  length lin = length vars -> local_keep vars o2n a = Some ka ->
  (ka < length (new_vars_of o2n (combine vars lin)))%nat.
Proof.
  intros Hl H. unfold local_keep in H. destruct (survives vars o2n a) eqn:Sa; [|discriminate].
  inversion H; subst ka. clear H.
  rewrite (new_vars_of_length o2n vars lin 0%nat [] Hl). cbn [app length].
  assert (La : (a < length vars)%nat).
  { unfold survives in Sa. apply andb_true_iff in Sa. destruct Sa as [Sa _]. apply Nat.ltb_lt in Sa. exact Sa. }
  apply Nat.lt_le_trans with (rank (survives vars o2n) (S a)).
  - apply rank_lt; [lia|exact Sa].
  - pose proof (rank_le_total (survives vars o2n) (S a) (length vars) La) as H. unfold rank in H.
    eapply Nat.le_trans; [exact H|]. apply Nat.eq_le_incl. f_equal.
    apply filter_ext_in. intros i Hi. apply in_seq in Hi. unfold survives.
    destruct (Nat.ltb_spec i (length vars)); [reflexivity|lia].
Qed.

(* the destination's variable list holds, at position rank(i), the new model index of src local i:
   so enforce_variable(old_to_new[variables()[i]]) returns exactly local_keep i *)
Definition is_some {A} (o : option A) : bool := match o with Some _ => true | None => false end.

Lemma filter_map_length {A B} (f : B -> bool) (g : A -> B) l :
  length (filter f (map g l)) = length (filter (fun x => f (g x)) l).
Proof. induction l as [|x l IH]; [reflexivity|]. cbn [map filter]. destruct (f (g x)); cbn [length]; rewrite IH; reflexivity. Qed.

Lemma new_vars_of_nth o2n : forall (vars : list nat) (lin : list Qc),
  length lin = length vars -> forall i k, (i < length vars)%nat ->
  o2n_get o2n (nth i vars 0%nat) = Some k ->
  nth (length (filter (fun j => is_some (o2n_get o2n (nth j vars 0%nat))) (seq 0 i)))
      (new_vars_of o2n (combine vars lin)) 0%nat = k.
Proof.
  induction vars as [|v vars IH]; intros lin Hl i k Hi Hk; [cbn [length] in Hi; lia|].
  destruct lin as [|b lin]; [discriminate|]. cbn [combine new_vars_of flat_map fst].
  fold (new_vars_of o2n (combine vars lin)).
  destruct i as [|i].
  - cbn [seq filter length nth] in *. rewrite Hk. reflexivity.
  - cbn [nth] in Hk.
    assert (E : nth (length (filter (fun x => is_some (o2n_get o2n (nth (S x) (v :: vars) 0%nat))) (seq 0 i)))
                    (new_vars_of o2n (combine vars lin)) 0%nat = k).
    { cbn [nth]. apply IH; [cbn [length] in Hl; lia|cbn [length] in Hi; lia|exact Hk]. }
    change (seq 0 (S i)) with (0%nat :: seq 1 i). cbn [filter]. rewrite <- seq_shift.
    change (nth 0 (v :: vars) 0%nat) with v.
    destruct (o2n_get o2n v); cbn [is_some length app nth]; rewrite filter_map_length; exact E.
Qed.

Theorem local_keep_is_dst_index vars lin o2n i k :
  length lin = length vars -> (i < length vars)%nat -> o2n_get o2n (nth i vars 0%nat) = Some k ->
  exists r, local_keep vars o2n i = Some r /\ nth r (new_vars_of o2n (combine vars lin)) 0%nat = k.
Proof.
  intros Hl Hi Hk. exists (rank (survives vars o2n) i). split.
  - unfold local_keep, survives. destruct (Nat.ltb_spec i (length vars)); [|lia]. rewrite Hk. reflexivity.
  - rewrite <- (new_vars_of_nth o2n vars lin Hl i k Hi Hk). f_equal. unfold rank. f_equal.
    apply filter_ext_in. intros j Hj. apply in_seq in Hj. unfold survives.
    destruct (Nat.ltb_spec j (length vars)); [|lia]. cbn [andb]. unfold is_some. reflexivity.
Qed.

(* hence: for ANY source expression base satisfying the adjacency invariant and any choice of fixed
   variables, the quadratic phase of fix_variables_expr issues only add_quadratic_back calls whose
   ordering precondition holds, the rebuilt base satisfies the invariant, and add_quadratic_back acts
   as add_quadratic *)
Theorem fix_copy_back_calls_ok vars lin o2n (src dst : Adj.qm) :
  Adj.Inv src -> Adj.Inv dst -> (forall x, Adj.nb dst x = []) ->
  length lin = length vars ->
  Adj.nvars dst = length (new_vars_of o2n (combine vars lin)) ->
  calls_ok (back_calls (local_keep vars o2n) src) dst
  /\ rebuild (local_keep vars o2n) src dst = rebuild_add (local_keep vars o2n) src dst
  /\ Adj.Inv (rebuild (local_keep vars o2n) src dst).
Proof.
  intros HI HD HE Hl Hn. apply fix_copy_back_pre_holds; try assumption.
  - apply local_keep_mono.
  - intros a ka Hk. rewrite Hn. eapply local_keep_bound; eassumption.
Qed.

Print Assumptions local_keep_mono.
Print Assumptions local_keep_is_dst_index.
Print Assumptions fix_copy_back_calls_ok.
