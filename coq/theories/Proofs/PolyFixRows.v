(* C03, PolyFixedVariableComposite rows: a row that carries the fixed values evaluates the fixed polynomial and
   the original polynomial to the same number (so the two energy conjuncts of ChkC03.pcheck are one fact), and
   pcheck's verdict is exactly the property: every returned energy is the original polynomial's at the row. *)
From Coq Require Import List ZArith QArith Qcanon Bool Arith.
From Dimod Require Import Base.Util Model.Poly Model.HPoly Proofs.HPolyFacts Proofs.HPolyPyFacts.
From Dimod Require Model.Samples Model.ChkC03.
Import ListNotations.
Open Scope Qc_scope.

Lemma pf_Qc_eqb_eq a b : Qc_eqb a b = true -> a = b.
Proof. unfold Qc_eqb. rewrite Qeq_bool_iff. apply Qc_is_canon. Qed.

Lemma pf_qlist_eqb_eq (a b : list Qc) : list_eqb Qc_eqb a b = true -> a = b.
Proof.
  revert b. induction a as [|x a IH]; intros [|y b] H; cbn [list_eqb] in H; try discriminate; [reflexivity|].
  apply andb_true_iff in H. destruct H as [Hx Hr]. apply pf_Qc_eqb_eq in Hx. subst. f_equal. apply IH. exact Hr.
Qed.

Lemma lookup_some_in fs v a : lookup fs v = Some a -> In (v, a) fs.
Proof.
  unfold lookup. destruct (find (fun f => (fst f =? v)%nat) fs) as [f|] eqn:E; [|discriminate].
  intros H. inversion H; subst. apply find_some in E. destruct E as [Hin Heq].
  apply Nat.eqb_eq in Heq. destruct f as [l x]. cbn [fst snd] in *. subst. exact Hin.
Qed.

Lemma override_consistent fs (s : sample) :
  (forall f, In f fs -> s (fst f) = snd f) -> forall v, override fs s v = s v.
Proof.
  intros H v. unfold override. destruct (lookup fs v) as [a|] eqn:E; [|reflexivity].
  apply lookup_some_in in E. specialize (H _ E). cbn [fst snd] in H. symmetry. exact H.
Qed.

(* fixing and then evaluating at an assignment that already carries the fixed values = evaluating the original *)
Theorem hfix_energy_at_consistent fs p (s : sample) :
  (forall f, In f fs -> s (fst f) = snd f) -> henergy (hfix fs p) s = henergy p s.
Proof.
  intros H. rewrite hfix_energy. apply henergy_ext. apply override_consistent. exact H.
Qed.

(* what a passing pcheck establishes about the rows the composite returned *)
Theorem pcheck_sound c :
  ChkC03.pcheck c = true ->
  map (fun row => henergy (ChkC03.pc_poly c) (Samples.row_sample (ChkC03.pc_ls c) row)) (ChkC03.pc_rows c)
    = ChkC03.pc_en c
  /\ forall row, In row (ChkC03.pc_rows c) ->
       forall f, In f (ChkC03.pc_fixes c) -> Samples.row_sample (ChkC03.pc_ls c) row (fst f) = snd f.
Proof.
  unfold ChkC03.pcheck. intros H.
  apply andb_true_iff in H. destruct H as [H H3]. apply andb_true_iff in H. destruct H as [H1 _].
  split.
  - apply pf_qlist_eqb_eq. exact H1.
  - intros row Hrow f Hf. rewrite forallb_forall in H3. specialize (H3 _ Hrow).
    apply andb_true_iff in H3. destruct H3 as [_ H3]. rewrite forallb_forall in H3. specialize (H3 _ Hf).
    apply andb_true_iff in H3. destruct H3 as [_ H3]. apply pf_Qc_eqb_eq in H3. exact H3.
Qed.
Print Assumptions pcheck_sound.
