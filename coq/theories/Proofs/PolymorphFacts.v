(* C15: make_quadratic_cqm (feasible = consistent, objective = polynomial) and the row bookkeeping of
   HigherOrderComposite (polymorph_response) *)
From Coq Require Import List ZArith QArith Qcanon Bool Arith Lia.
From Dimod Require Import Base.Util Model.Poly Model.HPoly Model.Reduce Proofs.PolyFacts Proofs.HPolyFacts
  Proofs.ReduceFacts.
Import ListNotations.
Open Scope Qc_scope.

(* ---------- make_quadratic_cqm ---------- *)
Lemma product_constraint_energy u v p (a : sample) :
  energy (product_constraint_poly (u, v, p)) a = a u * a v - a p.
Proof.
  unfold energy, product_constraint_poly, lin_energy, quad_energy, lterm_val, qterm_val.
  cbn [p_off p_lin p_quad map qsum fst snd]. ring.
Qed.

Theorem cqm_feasible_iff_consistent cons (a : sample) :
  cqm_feasibleb cons a = true <-> consistent cons a.
Proof.
  unfold cqm_feasibleb, consistent. rewrite forallb_forall. split.
  - intros H u v p Hin. specialize (H _ Hin). rewrite product_constraint_energy in H.
    assert (H0 : a u * a v - a p = 0) by (apply Qc_is_canon; apply Qeq_bool_eq; exact H).
    replace (a p) with (a u * a v - (a u * a v - a p)) by ring. rewrite H0. ring.
  - intros H [[u v] p] Hin. rewrite product_constraint_energy, (H u v p Hin).
    replace (a u * a v - a u * a v) with 0 by ring. unfold Qc_eqb. apply Qeq_bool_iff. reflexivity.
Qed.

(* on every feasible assignment of the CQM its objective is the polynomial's energy *)
Theorem make_quadratic_cqm_exact poly cons (a : sample) :
  terms_nodup poly = true -> valid_cons (hvars poly) cons = true ->
  all_degree_le2 (reduce_with cons poly) = true ->
  cqm_feasibleb cons a = true ->
  energy (poly_of_hpoly (reduce_with cons poly)) a = henergy poly a.
Proof.
  intros Hnd Hv Hd Hf. rewrite (poly_of_hpoly_energy _ a Hd).
  apply (reduce_energy_on_consistent poly cons a Hnd Hv). apply cqm_feasible_iff_consistent. exact Hf.
Qed.

(* ---------- polymorph_response ---------- *)
Theorem polymorph_rows_spec poly cons discard vc vo rows :
  forall out, In out (polymorph_rows poly cons discard vc vo rows) ->
    exists r, In r rows /\
      fst (fst out) = map (row_sample vc r) vo /\
      snd (fst out) = henergy poly (row_sample vc r) /\
      (discard = false -> snd out = consistentb cons (row_sample vc r)) /\
      (discard = true -> snd out = true /\ consistentb cons (row_sample vc r) = true).
Proof.
  intros out Hin. unfold polymorph_rows in Hin. apply in_map_iff in Hin. destruct Hin as [r [<- Hr]].
  exists r. destruct discard.
  - apply filter_In in Hr. destruct Hr as [Hr Hs]. cbn [fst snd]. repeat split; try assumption; try discriminate.
  - cbn [fst snd]. repeat split; try assumption; try discriminate.
Qed.

(* nothing is dropped without discard_unsatisfied; with it exactly the inconsistent rows are dropped *)
Theorem polymorph_rows_length poly cons vc vo rows :
  length (polymorph_rows poly cons false vc vo rows) = length rows /\
  length (polymorph_rows poly cons true vc vo rows)
  = length (filter (fun r => consistentb cons (row_sample vc r)) rows).
Proof. unfold polymorph_rows. rewrite !map_length. split; reflexivity. Qed.

(* dropping the penalty columns does not change the polynomial's energy of a row *)
Theorem restricted_row_energy poly vc r vo :
  NoDup vo -> (forall x, In x (hvars poly) -> In x vo) -> length (map (row_sample vc r) vo) = length vo ->
  henergy poly (row_sample vo (map (row_sample vc r) vo)) = henergy poly (row_sample vc r).
Proof.
  intros Hnd Hin _. apply henergy_ext. intros x Hx. specialize (Hin x Hx).
  unfold row_sample at 1. unfold sample_of_list.
  induction vo as [|y vo IH]; [destruct Hin|]. inversion Hnd as [|? ? Hy Hnd']; subst.
  cbn [map combine find fst]. destruct (Nat.eqb_spec y x) as [->|Hne]; [reflexivity|].
  destruct Hin as [->|Hin]; [contradiction|]. apply IH; assumption.
Qed.
