(* C17: multiplication_circuit(n, m), all n, m >= 2 - every input pair has an assignment of the
   internal wires and product bits that satisfies every gate (so energy 0 is attained).
   The assignment is defined semantically: row i of the adder array is a ripple-carry addition of
   a_i * b and the shifted previous row; the naming functions of the generator are shown to pick
   exactly those values. *)
From Coq Require Import List ZArith Bool Arith Lia.
From Dimod Require Import Base.Util Model.Poly Model.Comb Gen.Gen_Gates Model.Gates Model.MultCircuit
  Proofs.GatesFacts Proofs.MultFacts.
Import ListNotations.

Definition maj (x y c : bool) : bool := (x && y) || (x && c) || (y && c).
Definition xor3 (x y c : bool) : bool := xorb (xorb x y) c.

(* ripple-carry addition of the bit functions f and U *)
Fixpoint rcarry (f U : nat -> bool) (j : nat) : bool :=
  match j with
  | O => maj (f O) (U O) false
  | S j' => maj (f (S j')) (U (S j')) (rcarry f U j')
  end.
Definition rcin (f U : nat -> bool) (j : nat) : bool := match j with O => false | S j' => rcarry f U j' end.
Definition rsum (f U : nat -> bool) (j : nat) : bool := xor3 (f j) (U j) (rcin f U j).

Section Attain.
Variables (n m : nat) (abits bbits : list bool).
Hypothesis Hn : (2 <= n)%nat.
Hypothesis Hm : (2 <= m)%nat.

Definition ab (i : nat) : bool := nth i abits false.
Definition bb (j : nat) : bool := nth j bbits false.
Definition andv (i j : nat) : bool := ab i && bb j.

(* (sums, carries) of row i *)
Fixpoint row (i : nat) : (nat -> bool) * (nat -> bool) :=
  match i with
  | O => (andv 0, fun _ => false)
  | S i' =>
      let '(s', c') := row i' in
      let U := fun j => if (j <? m - 1)%nat then s' (j + 1)%nat else c' (m - 1)%nat in
      (rsum (andv (S i')) U, rcarry (andv (S i')) U)
  end.
Definition rowS (i j : nat) : bool := fst (row i) j.
Definition rowC (i j : nat) : bool := snd (row i) j.
Definition upperU (i j : nat) : bool := if (j <? m - 1)%nat then rowS i (j + 1) else rowC i (m - 1).

Lemma rowS_S i j : rowS (S i) j = rsum (andv (S i)) (upperU i) j.
Proof. unfold rowS, upperU, rowS, rowC. cbn [row]. destruct (row i) as [s' c']. reflexivity. Qed.
Lemma rowC_S i j : rowC (S i) j = rcarry (andv (S i)) (upperU i) j.
Proof. unfold rowC, upperU, rowS, rowC. cbn [row]. destruct (row i) as [s' c']. reflexivity. Qed.
Lemma rowS_0 j : rowS 0 j = andv 0 j. Proof. reflexivity. Qed.
Lemma rowC_0 j : rowC 0 j = false. Proof. reflexivity. Qed.

Definition val : wassign := fun w =>
  match w with
  | WA i => ab i
  | WB j => bb j
  | WAnd i j => andv i j
  | WSum i j => rowS i j
  | WCarry i j => rowC i j
  | WP k => if (k <? n)%nat then rowS k 0
            else if (k <? n + m - 1)%nat then rowS (n - 1) (k - (n - 1)) else rowC (n - 1) (m - 1)
  end.

(* the generator's names denote these values *)
Lemma val_AND i j : (i < n)%nat -> val (AND_ i j) = andv i j.
Proof.
  intros Hi. unfold AND_. destruct i as [|i']; [destruct j as [|j']|]; cbn [val]; try reflexivity.
  destruct (Nat.ltb_spec 0 n); [reflexivity|lia].
Qed.

Lemma val_SUM i j : (i < n)%nat -> (j < m)%nat -> val (SUM_ n i j) = rowS i j.
Proof.
  intros Hi Hj. unfold SUM_. destruct (Nat.eqb_spec j 0) as [->|Hj0].
  - cbn [val]. destruct (Nat.ltb_spec i n); [reflexivity|lia].
  - destruct (Nat.eqb_spec i (n - 1)) as [->|Hi1]; [|reflexivity].
    cbn [val]. destruct (Nat.ltb_spec (n - 1 + j) n); [lia|].
    destruct (Nat.ltb_spec (n - 1 + j) (n + m - 1)); [|lia].
    replace (n - 1 + j - (n - 1))%nat with j by lia. reflexivity.
Qed.

Lemma val_CARRY i j : (i < n)%nat -> (j < m)%nat -> val (CARRY_ n m i j) = rowC i j.
Proof.
  intros Hi Hj. unfold CARRY_. destruct (Nat.eqb_spec (i + j) (n + m - 2)) as [E|E]; [|reflexivity].
  assert (i = n - 1)%nat by lia. assert (j = m - 1)%nat by lia. subst i j.
  cbn [val]. destruct (Nat.ltb_spec (n + m - 1) n); [lia|].
  destruct (Nat.ltb_spec (n + m - 1) (n + m - 1)); [lia|reflexivity].
Qed.

Lemma full_ok x y c : fulladder_ok [x; y; c; xor3 x y c; maj x y c] = true.
Proof. destruct x, y, c; reflexivity. Qed.
Lemma half_ok x y : halfadder_ok [x; y; xor3 x y false; maj x y false] = true.
Proof. destruct x, y; reflexivity. Qed.
Lemma half_ok' x c : halfadder_ok [x; c; xor3 x false c; maj x false c] = true.
Proof. destruct x, c; reflexivity. Qed.

Lemma gate_sat i j : (i < n)%nat -> (j < m)%nat -> forallb (inst_sat val) (gate_ij n m i j) = true.
Proof.
  intros Hi Hj. unfold gate_ij.
  assert (Hand : inst_sat val (IAnd (WA i) (WB j) (AND_ i j)) = true).
  { cbn [inst_sat and_ok]. rewrite (val_AND i j Hi). cbn [val]. unfold andv. apply eqb_reflx. }
  destruct (Nat.ltb_spec 0 i) as [Hi0|Hi0]; [|cbn [forallb]; rewrite Hand; reflexivity].
  destruct i as [|i']; [lia|].
  assert (Hs : val (SUM_ n (S i') j) = rsum (andv (S i')) (upperU i') j)
    by (rewrite (val_SUM (S i') j Hi Hj); apply rowS_S).
  assert (Hc : val (CARRY_ n m (S i') j) = rcarry (andv (S i')) (upperU i') j)
    by (rewrite (val_CARRY (S i') j Hi Hj); apply rowC_S).
  assert (Ha : val (AND_ (S i') j) = andv (S i') j) by (apply val_AND; exact Hi).
  replace (S i' - 1)%nat with i' by lia.
  destruct (Nat.ltb_spec j (m - 1)) as [Hjm|Hjm], (Nat.ltb_spec 1 (S i')) as [Hi1|Hi1],
           (Nat.ltb_spec 0 j) as [Hj0|Hj0]; cbn [app forallb]; rewrite Hand; cbn [andb inst_sat];
    rewrite ?andb_true_r; try lia.
  - (* full adder: and, SUM(i-1, j+1), CARRY(i, j-1) *)
    rewrite Ha, Hs, Hc, (val_SUM i' (j + 1)) by lia. rewrite (val_CARRY (S i') (j - 1)) by lia.
    rewrite rowC_S. destruct j as [|j']; [lia|]. replace (S j' - 1)%nat with j' by lia.
    unfold rsum. cbn [rcin rcarry]. unfold upperU at 2 4. destruct (Nat.ltb_spec (S j') (m - 1)); [|lia].
    apply full_ok.
  - (* half adder: and, SUM(i-1, 1) *)
    assert (j = 0)%nat by lia. subst j.
    rewrite Ha, Hs, Hc, (val_SUM i' (0 + 1)) by lia.
    unfold rsum. cbn [rcin rcarry]. unfold upperU. destruct (Nat.ltb_spec 0 (m - 1)); [|lia]. apply half_ok.
  - (* i = 1: full adder: and, AND(0, j+1), CARRY(1, j-1) *)
    assert (i' = 0)%nat by lia. subst i'.
    rewrite Ha, Hs, Hc, (val_AND 0 (j + 1)) by lia. rewrite (val_CARRY 1 (j - 1)) by lia.
    rewrite rowC_S. destruct j as [|j']; [lia|]. replace (S j' - 1)%nat with j' by lia.
    unfold rsum. cbn [rcin rcarry]. unfold upperU at 2 4. destruct (Nat.ltb_spec (S j') (m - 1)); [|lia].
    rewrite rowS_0. apply full_ok.
  - (* i = 1, j = 0: half adder: and, AND(0, 1) *)
    assert (i' = 0)%nat by lia. assert (j = 0)%nat by lia. subst i' j.
    rewrite Ha, Hs, Hc, (val_AND 0 (0 + 1)) by lia.
    unfold rsum. cbn [rcin rcarry]. unfold upperU. destruct (Nat.ltb_spec 0 (m - 1)); [|lia].
    rewrite rowS_0. apply half_ok.
  - (* last column, i > 1: full adder: and, CARRY(i-1, m-1), CARRY(i, j-1) *)
    assert (j = m - 1)%nat by lia. subst j.
    rewrite Ha, Hs, Hc, (val_CARRY i' (m - 1)) by lia. rewrite (val_CARRY (S i') (m - 1 - 1)) by lia.
    rewrite rowC_S. destruct (m - 1)%nat as [|j'] eqn:Em1; [lia|]. replace (S j' - 1)%nat with j' by lia.
    unfold rsum. cbn [rcin rcarry]. unfold upperU at 2 4. rewrite Em1. rewrite Nat.ltb_irrefl.
    apply full_ok.
  - (* last column, i = 1: half adder: and, CARRY(1, j-1) *)
    assert (i' = 0)%nat by lia. assert (j = m - 1)%nat by lia. subst i' j.
    rewrite Ha, Hs, Hc. rewrite (val_CARRY 1 (m - 1 - 1)) by lia.
    rewrite rowC_S. destruct (m - 1)%nat as [|j'] eqn:Em1; [lia|]. replace (S j' - 1)%nat with j' by lia.
    unfold rsum. cbn [rcin rcarry]. unfold upperU at 2 4. rewrite Em1. rewrite Nat.ltb_irrefl.
    rewrite rowC_0. apply half_ok'.
Qed.

Theorem val_all_sat : all_sat (circuit n m) val = true.
Proof.
  unfold all_sat, circuit. rewrite forallb_forall. intros g Hg.
  apply in_flat_map in Hg. destruct Hg as [i [Hi Hg]]. apply in_flat_map in Hg. destruct Hg as [j [Hj Hg]].
  apply in_seq in Hi. apply in_seq in Hj.
  pose proof (gate_sat i j ltac:(lia) ltac:(lia)) as H. rewrite forallb_forall in H. apply H. exact Hg.
Qed.
End Attain.
