(* C07: PolyScaleComposite on the code-shaped model (normalize's loop with four running
   extrema, the inv_scalar formula and the un-scaling generated from the source):
   - the scalar recovered as poly[v] / original[v] is the factor that was applied
   - the reported energies are the original polynomial's
   - after normalize every non-ignored bias lies within its range
   and the truncation theorems that do not depend on how ties are ordered. *)
From Coq Require Import List ZArith QArith Qcanon Bool Arith Lia Permutation.
From Dimod Require Import Base.Util Model.Poly Model.HPoly Model.Samples Gen.Gen_PolyScale Model.Solve
  Proofs.PolyFacts Proofs.HPolyFacts Proofs.SamplesFacts Proofs.SolveEnum Proofs.SolveComp.
Import ListNotations.
Open Scope Qc_scope.

(* ------------------------------------------------------------------ *)
(* order facts on Qc *)

Lemma Qle_bool_le (a b : Qc) : Qle_bool a b = true <-> a <= b.
Proof. apply Qc_leb_le. Qed.

Lemma Qle_bool_false (a b : Qc) : Qle_bool a b = false -> b <= a.
Proof. apply Qc_leb_false. Qed.

Lemma gmax_ge_l a b : a <= gmax a b.
Proof. unfold gmax. destruct (Qle_bool a b) eqn:E; [apply Qle_bool_le; exact E|apply Qcle_refl]. Qed.
Lemma gmax_ge_r a b : b <= gmax a b.
Proof. unfold gmax. destruct (Qle_bool a b) eqn:E; [apply Qcle_refl|apply Qle_bool_false; exact E]. Qed.
Lemma gmin_le_l a b : gmin a b <= a.
Proof. unfold gmin. destruct (Qle_bool a b) eqn:E; [apply Qcle_refl|apply Qle_bool_false; exact E]. Qed.
Lemma gmin_le_r a b : gmin a b <= b.
Proof. unfold gmin. destruct (Qle_bool a b) eqn:E; [apply Qle_bool_le; exact E|apply Qcle_refl]. Qed.

Lemma Qcinv_pos c : 0 < c -> 0 < / c.
Proof.
  intros Hc. apply Qcnot_le_lt. intros Hle.
  assert (Hne : c <> 0) by (intros E; rewrite E in Hc; apply (Qclt_not_eq 0 0 Hc); reflexivity).
  pose proof (Qcmult_le_compat_r (/ c) 0 c Hle (Qclt_le_weak _ _ Hc)) as H.
  rewrite Qcmult_0_l, Qcmult_comm, Qcmult_inv_r in H by exact Hne.
  apply (Qcle_not_lt _ _ H). reflexivity.
Qed.

Lemma div_mul_cancel a c : c <> 0 -> a / c * c = a.
Proof. intros Hc. unfold Qcdiv. rewrite <- Qcmult_assoc, (Qcmult_comm (/ c)), Qcmult_inv_r by exact Hc. apply Qcmult_1_r. Qed.

Lemma pos_ne c : 0 < c -> c <> 0.
Proof. intros Hc E. rewrite E in Hc. apply (Qclt_not_eq 0 0 Hc). reflexivity. Qed.
Lemma neg_ne c : c < 0 -> c <> 0.
Proof. intros Hc E. rewrite E in Hc. apply (Qclt_not_eq 0 0 Hc). reflexivity. Qed.

Lemma le_div_pos a c d : 0 < c -> a / c <= d -> a <= d * c.
Proof.
  intros Hc H. rewrite <- (div_mul_cancel a c (pos_ne c Hc)).
  apply Qcmult_le_compat_r; [exact H|apply Qclt_le_weak; exact Hc].
Qed.

Lemma neg_opp_pos c : c < 0 -> 0 < - c.
Proof. intros H. apply Qclt_minus_iff in H. rewrite Qcplus_0_l in H. exact H. Qed.

Lemma le_div_neg a c d : c < 0 -> a / c <= d -> d * c <= a.
Proof.
  intros Hc H.
  pose proof (Qcmult_le_compat_r _ _ (- c) H (Qclt_le_weak _ _ (neg_opp_pos c Hc))) as H1.
  assert (E1 : a / c * - c = - a).
  { transitivity (- (a / c * c)); [ring|]. rewrite div_mul_cancel by (apply neg_ne; exact Hc). reflexivity. }
  assert (E2 : d * - c = - (d * c)) by ring.
  rewrite E1, E2 in H1. apply Qcopp_le_compat in H1. rewrite !Qcopp_involutive in H1. exact H1.
Qed.

Lemma div_nonneg a c : 0 <= a -> 0 < c -> 0 <= a / c.
Proof.
  intros Ha Hc. unfold Qcdiv. rewrite <- (Qcmult_0_l (/ c)).
  apply Qcmult_le_compat_r; [exact Ha|apply Qclt_le_weak; apply Qcinv_pos; exact Hc].
Qed.

Lemma scale_le_upper inv b r : 0 < inv -> b <= inv * r -> 1 / inv * b <= r.
Proof.
  intros Hi H.
  pose proof (Qcmult_le_compat_r _ _ (/ inv) H (Qclt_le_weak _ _ (Qcinv_pos inv Hi))) as H1.
  assert (E : inv * r * / inv = r).
  { transitivity (r * (inv * / inv)); [ring|]. rewrite Qcmult_inv_r by (apply pos_ne; exact Hi). ring. }
  rewrite E in H1. unfold Qcdiv. rewrite Qcmult_1_l, Qcmult_comm. exact H1.
Qed.

Lemma scale_ge_lower inv b r : 0 < inv -> inv * r <= b -> r <= 1 / inv * b.
Proof.
  intros Hi H.
  pose proof (Qcmult_le_compat_r _ _ (/ inv) H (Qclt_le_weak _ _ (Qcinv_pos inv Hi))) as H1.
  assert (E : inv * r * / inv = r).
  { transitivity (r * (inv * / inv)); [ring|]. rewrite Qcmult_inv_r by (apply pos_ne; exact Hi). ring. }
  rewrite E in H1. unfold Qcdiv. rewrite Qcmult_1_l, Qcmult_comm. exact H1.
Qed.

(* ------------------------------------------------------------------ *)
(* normalize's loop: the running extrema bracket 0 and every processed bias *)

Definition ext_le (a b : ext) : Prop :=
  e_lmin b <= e_lmin a /\ e_lmax a <= e_lmax b /\ e_pmin b <= e_pmin a /\ e_pmax a <= e_pmax b.

Definition covers_term (ign : list (list label)) (a : ext) (t : mono) : Prop :=
  ignored ign t = false ->
  (length (fst t) = 1%nat -> e_lmin a <= snd t /\ snd t <= e_lmax a) /\
  ((1 < length (fst t))%nat -> e_pmin a <= snd t /\ snd t <= e_pmax a).

Lemma ext_le_refl a : ext_le a a.
Proof. repeat split; apply Qcle_refl. Qed.

Lemma ext_le_trans a b c : ext_le a b -> ext_le b c -> ext_le a c.
Proof.
  intros [H1 [H2 [H3 H4]]] [G1 [G2 [G3 G4]]]. repeat split; eapply Qcle_trans; eassumption.
Qed.

Lemma covers_mono ign a b t : ext_le a b -> covers_term ign a t -> covers_term ign b t.
Proof.
  intros [H1 [H2 [H3 H4]]] Hc Hi. destruct (Hc Hi) as [Hl Hp]. split; intros Hlen.
  - destruct (Hl Hlen). split; eapply Qcle_trans; eassumption.
  - destruct (Hp Hlen). split; eapply Qcle_trans; eassumption.
Qed.

Lemma gen_is_linear_spec n : gen_is_linear n = true <-> n = 1%nat.
Proof. unfold gen_is_linear. apply Nat.eqb_eq. Qed.
Lemma gen_is_higher_spec n : gen_is_higher n = true <-> (1 < n)%nat.
Proof. unfold gen_is_higher. apply Nat.ltb_lt. Qed.

Lemma norm_step_le ign a t : ext_le a (norm_step ign a t).
Proof.
  unfold norm_step. destruct (ignored ign t); [apply ext_le_refl|].
  destruct (gen_is_linear _); [|destruct (gen_is_higher _); [|apply ext_le_refl]];
    unfold ext_le, gen_upd_lmin, gen_upd_lmax, gen_upd_pmin, gen_upd_pmax; cbn [e_lmin e_lmax e_pmin e_pmax];
    repeat split; try apply Qcle_refl; try apply gmin_le_r; try apply gmax_ge_r.
Qed.

Lemma norm_step_covers ign a t : covers_term ign (norm_step ign a t) t.
Proof.
  intros Hi. unfold norm_step. rewrite Hi. split; intros Hlen.
  - rewrite (proj2 (gen_is_linear_spec _) Hlen). cbn [e_lmin e_lmax].
    unfold gen_upd_lmin, gen_upd_lmax. split; [apply gmin_le_l|apply gmax_ge_l].
  - destruct (gen_is_linear (length (fst t))) eqn:El.
    + apply gen_is_linear_spec in El. lia.
    + rewrite (proj2 (gen_is_higher_spec _) Hlen). cbn [e_pmin e_pmax].
      unfold gen_upd_pmin, gen_upd_pmax. split; [apply gmin_le_l|apply gmax_ge_l].
Qed.

Lemma norm_fold ign p : forall a,
  ext_le a (fold_left (norm_step ign) p a) /\
  forall t, In t p -> covers_term ign (fold_left (norm_step ign) p a) t.
Proof.
  induction p as [|u p IH]; intros a; cbn [fold_left].
  - split; [apply ext_le_refl|intros t []].
  - destruct (IH (norm_step ign a u)) as [Hle Hcov]. split.
    + eapply ext_le_trans; [apply norm_step_le|exact Hle].
    + intros t [<-|Ht]; [|apply Hcov; exact Ht].
      eapply covers_mono; [exact Hle|apply norm_step_covers].
Qed.

(* BinaryPolynomial.normalize: the factor is positive and brings every non-ignored linear bias
   into lin_range and every non-ignored higher-order bias into poly_range *)
Theorem normalize_within_range lr pr ign p k :
  fst lr < 0 -> 0 < snd lr -> fst pr < 0 -> 0 < snd pr ->
  normalize_scalar lr pr ign p = Some k ->
  0 < k /\
  forall t, In t p -> ignored ign t = false ->
    (length (fst t) = 1%nat -> fst lr <= k * snd t /\ k * snd t <= snd lr) /\
    ((1 < length (fst t))%nat -> fst pr <= k * snd t /\ k * snd t <= snd pr).
Proof.
  intros Hl0 Hl1 Hp0 Hp1. unfold normalize_scalar.
  destruct (norm_fold ign p (mkExt gen_init_linear gen_init_linear gen_init_higher gen_init_higher)) as [Hle Hcov].
  fold (norm_loop ign p) in Hle, Hcov. set (a := norm_loop ign p) in *.
  destruct Hle as [Hlmin [Hlmax [Hpmin Hpmax]]]. cbn [e_lmin e_lmax e_pmin e_pmax] in Hlmin, Hlmax, Hpmin, Hpmax.
  unfold gen_init_linear, gen_init_higher in *.
  set (inv := gen_inv_scalar (e_lmin a) (e_lmax a) (e_pmin a) (e_pmax a) lr pr).
  assert (Q1 : e_lmin a / fst lr <= inv).
  { unfold inv, gen_inv_scalar. eapply Qcle_trans; [|apply gmax_ge_l]. eapply Qcle_trans; [|apply gmax_ge_l]. apply gmax_ge_l. }
  assert (Q2 : e_lmax a / snd lr <= inv).
  { unfold inv, gen_inv_scalar. eapply Qcle_trans; [|apply gmax_ge_l]. eapply Qcle_trans; [|apply gmax_ge_l]. apply gmax_ge_r. }
  assert (Q3 : e_pmin a / fst pr <= inv).
  { unfold inv, gen_inv_scalar. eapply Qcle_trans; [|apply gmax_ge_l]. apply gmax_ge_r. }
  assert (Q4 : e_pmax a / snd pr <= inv).
  { unfold inv, gen_inv_scalar. apply gmax_ge_r. }
  destruct (Qc_eqb inv 0) eqn:E; [discriminate|]. intros Hk. inversion Hk as [Hk']. clear Hk.
  apply Qc_eqb_false in E.
  assert (Hinv : 0 < inv).
  { assert (H0 : 0 <= inv) by (eapply Qcle_trans; [apply (div_nonneg _ _ Hlmax Hl1)|exact Q2]).
    destruct (Qcle_lt_or_eq _ _ H0) as [H|H]; [exact H|]. exfalso. apply E. symmetry. exact H. }
  unfold gen_scale_factor. split.
  - unfold Qcdiv. rewrite Qcmult_1_l. apply Qcinv_pos. exact Hinv.
  - intros t Ht Hi. destruct (Hcov t Ht Hi) as [Hlin Hpol]. split; intros Hlen.
    + destruct (Hlin Hlen) as [Hlo Hhi]. split.
      * apply scale_ge_lower; [exact Hinv|]. eapply Qcle_trans; [apply (le_div_neg _ _ _ Hl0 Q1)|exact Hlo].
      * apply scale_le_upper; [exact Hinv|]. eapply Qcle_trans; [exact Hhi|apply (le_div_pos _ _ _ Hl1 Q2)].
    + destruct (Hpol Hlen) as [Hlo Hhi]. split.
      * apply scale_ge_lower; [exact Hinv|]. eapply Qcle_trans; [apply (le_div_neg _ _ _ Hp0 Q3)|exact Hlo].
      * apply scale_le_upper; [exact Hinv|]. eapply Qcle_trans; [exact Hhi|apply (le_div_pos _ _ _ Hp1 Q4)].
Qed.

Lemma div_nonpos_neg a c : a <= 0 -> c < 0 -> 0 <= a / c.
Proof.
  intros Ha Hc. apply Qcnot_lt_le. intros Hx.
  pose proof (Qcmult_lt_compat_r _ _ (- c) (neg_opp_pos c Hc) Hx) as H.
  assert (E : a / c * - c = - a).
  { transitivity (- (a / c * c)); [ring|]. rewrite div_mul_cancel by (apply neg_ne; exact Hc). reflexivity. }
  rewrite E, Qcmult_0_l in H.
  apply Qcopp_le_compat in Ha. apply (Qcle_not_lt _ _ Ha).
  assert (E0 : - 0 = 0) by ring. rewrite E0. exact H.
Qed.

(* improper ranges (lo >= 0 or hi <= 0, but no zero bound - a zero bound is a ZeroDivisionError in
   the implementation): as soon as ONE bound lies on its proper side the factor is positive, and every
   bound that lies on its proper side is respected; nothing is promised for the others *)
Theorem normalize_one_sided lr pr ign p k :
  (fst lr < 0 \/ 0 < snd lr \/ fst pr < 0 \/ 0 < snd pr) ->
  normalize_scalar lr pr ign p = Some k ->
  0 < k /\
  forall t, In t p -> ignored ign t = false ->
    (length (fst t) = 1%nat ->
       (fst lr < 0 -> fst lr <= k * snd t) /\ (0 < snd lr -> k * snd t <= snd lr)) /\
    ((1 < length (fst t))%nat ->
       (fst pr < 0 -> fst pr <= k * snd t) /\ (0 < snd pr -> k * snd t <= snd pr)).
Proof.
  intros Hside. unfold normalize_scalar.
  destruct (norm_fold ign p (mkExt gen_init_linear gen_init_linear gen_init_higher gen_init_higher)) as [Hle Hcov].
  fold (norm_loop ign p) in Hle, Hcov. set (a := norm_loop ign p) in *.
  destruct Hle as [Hlmin [Hlmax [Hpmin Hpmax]]]. cbn [e_lmin e_lmax e_pmin e_pmax] in Hlmin, Hlmax, Hpmin, Hpmax.
  unfold gen_init_linear, gen_init_higher in *.
  set (inv := gen_inv_scalar (e_lmin a) (e_lmax a) (e_pmin a) (e_pmax a) lr pr).
  assert (Q1 : e_lmin a / fst lr <= inv).
  { unfold inv, gen_inv_scalar. eapply Qcle_trans; [|apply gmax_ge_l]. eapply Qcle_trans; [|apply gmax_ge_l]. apply gmax_ge_l. }
  assert (Q2 : e_lmax a / snd lr <= inv).
  { unfold inv, gen_inv_scalar. eapply Qcle_trans; [|apply gmax_ge_l]. eapply Qcle_trans; [|apply gmax_ge_l]. apply gmax_ge_r. }
  assert (Q3 : e_pmin a / fst pr <= inv).
  { unfold inv, gen_inv_scalar. eapply Qcle_trans; [|apply gmax_ge_l]. apply gmax_ge_r. }
  assert (Q4 : e_pmax a / snd pr <= inv).
  { unfold inv, gen_inv_scalar. apply gmax_ge_r. }
  destruct (Qc_eqb inv 0) eqn:E; [discriminate|]. intros Hk. inversion Hk as [Hk']. clear Hk.
  apply Qc_eqb_false in E.
  assert (Hinv : 0 < inv).
  { assert (H0 : 0 <= inv).
    { destruct Hside as [H|[H|[H|H]]].
      - eapply Qcle_trans; [apply (div_nonpos_neg _ _ Hlmin H)|exact Q1].
      - eapply Qcle_trans; [apply (div_nonneg _ _ Hlmax H)|exact Q2].
      - eapply Qcle_trans; [apply (div_nonpos_neg _ _ Hpmin H)|exact Q3].
      - eapply Qcle_trans; [apply (div_nonneg _ _ Hpmax H)|exact Q4]. }
    destruct (Qcle_lt_or_eq _ _ H0) as [H|H]; [exact H|]. exfalso. apply E. symmetry. exact H. }
  unfold gen_scale_factor. split.
  - unfold Qcdiv. rewrite Qcmult_1_l. apply Qcinv_pos. exact Hinv.
  - intros t Ht Hi. destruct (Hcov t Ht Hi) as [Hlin Hpol]. split; intros Hlen.
    + destruct (Hlin Hlen) as [Hlo Hhi]. split; intros Hb.
      * apply scale_ge_lower; [exact Hinv|]. eapply Qcle_trans; [apply (le_div_neg _ _ _ Hb Q1)|exact Hlo].
      * apply scale_le_upper; [exact Hinv|]. eapply Qcle_trans; [exact Hhi|apply (le_div_pos _ _ _ Hb Q2)].
    + destruct (Hpol Hlen) as [Hlo Hhi]. split; intros Hb.
      * apply scale_ge_lower; [exact Hinv|]. eapply Qcle_trans; [apply (le_div_neg _ _ _ Hb Q3)|exact Hlo].
      * apply scale_le_upper; [exact Hinv|]. eapply Qcle_trans; [exact Hhi|apply (le_div_pos _ _ _ Hb Q4)].
Qed.

(* REFUTED for improper ranges: a range on one side of zero cannot be met by a positive factor
   (bias -4 with range (1, 2) ends at -1), and an inverted range (1, -1) makes the factor NEGATIVE:
   the polynomial handed to the child is the negated one.  The reported energies are still the
   submitted polynomial's (polyscale_honest needs only k <> 0). *)
Definition improper_example : hpoly :=
  [([0%nat], qc 2 1); ([1%nat], qc (-4) 1); ([0%nat; 1%nat; 2%nat], qc 8 1); ([0%nat; 1%nat], qc (-1) 1)].

Theorem normalize_improper_range_refuted :
  (exists k, normalize_scalar (qc 1 1, qc 2 1) (qc 1 1, qc 2 1) [] improper_example = Some k /\
             exists t, In t improper_example /\ length (fst t) = 1%nat /\ k * snd t < qc 1 1) /\
  (exists k, normalize_scalar (qc 1 1, qc (-1) 1) (qc 1 1, qc (-1) 1) [] improper_example = Some k /\ k < 0).
Proof.
  split.
  - exists (qc 1 4). split; [vm_compute; reflexivity|].
    exists ([1%nat], qc (-4) 1). split; [right; left; reflexivity|]. split; [reflexivity|]. vm_compute. reflexivity.
  - exists (qc (-1) 1). split; [vm_compute; reflexivity|]. vm_compute. reflexivity.
Qed.

(* a number r as range means (-|r|, |r|): a proper range whenever r <> 0 *)
Lemma gabs_pos r : r <> 0 -> 0 < gabs r.
Proof.
  intros Hr. unfold gabs. destruct (Qle_bool 0 r) eqn:E.
  - apply (proj1 (Qle_bool_le 0 r)) in E. destruct (Qcle_lt_or_eq _ _ E) as [H|H]; [exact H|]. exfalso. apply Hr. symmetry. exact H.
  - apply (Qle_bool_false 0 r) in E. apply neg_opp_pos. destruct (Qcle_lt_or_eq _ _ E) as [H|H]; [exact H|]. contradiction.
Qed.

Theorem parse_range_number_proper r :
  r <> 0 -> fst (parse_range (RNum r)) < 0 /\ 0 < snd (parse_range (RNum r)).
Proof.
  intros Hr. cbn [parse_range]. unfold gen_parse_range. cbn [fst snd]. pose proof (gabs_pos r Hr) as H. split; [|exact H].
  apply Qclt_minus_iff. rewrite Qcplus_0_l, Qcopp_involutive. exact H.
Qed.

(* ------------------------------------------------------------------ *)
(* the scalar recovered from the biases *)

Lemma term_eqb_refl a : term_eqb a a = true.
Proof.
  unfold term_eqb, nats_eqb. induction (sort_nats a) as [|x l IH]; cbn [list_eqb]; [reflexivity|].
  rewrite Nat.eqb_refl, IH. reflexivity.
Qed.

(* poly[v] after scale(): the bias of that very term, scaled *)
Lemma hlookup_map_dict (g : mono -> mono) p t :
  (forall u, fst (g u) = fst u) -> dictlike_b p = true -> In t p ->
  hlookup (map g p) (fst t) = snd (g t).
Proof.
  intros Hg. unfold hlookup. induction p as [|u p IH]; cbn [dictlike_b map find In]; [tauto|].
  intros Hd [<-|Ht]; apply andb_true_iff in Hd; destruct Hd as [Hnot Hd].
  - rewrite Hg, term_eqb_refl. reflexivity.
  - rewrite Hg. destruct (term_eqb (fst u) (fst t)) eqn:E.
    + exfalso. apply negb_true_iff in Hnot. apply not_true_iff_false in Hnot. apply Hnot.
      apply existsb_exists. exists t. split; [exact Ht|exact E].
    + apply IH; assumption.
Qed.

Lemma hscale_fst k ign u : fst ((fun t => if ignored ign t then t else (fst t, k * snd t)) u) = fst u.
Proof. cbn beta. destruct (ignored ign u); reflexivity. Qed.

Theorem ratio_scalar_recovers k ign p :
  dictlike_b p = true ->
  ratio_scalar ign p (hscale k ign p) =
  match find (fun t => negb (Qc_eqb (snd t) 0) && negb (ignored ign t)) p with
  | Some _ => k
  | None => 1
  end.
Proof.
  intros Hd. unfold ratio_scalar, gen_no_term_scalar, gen_ratio_scalar.
  match goal with |- context [find ?f p] => destruct (find f p) as [t|] eqn:Ef end; [|reflexivity].
  apply find_some in Ef. destruct Ef as [Ht Hp]. apply andb_true_iff in Hp. destruct Hp as [Hnz Hni].
  apply negb_true_iff in Hnz, Hni. apply Qc_eqb_false in Hnz.
  unfold hscale. rewrite (hlookup_map_dict _ p t (hscale_fst k ign) Hd Ht). rewrite Hni. cbn [snd].
  unfold Qcdiv. rewrite <- Qcmult_assoc, Qcmult_inv_r by exact Hnz. apply Qcmult_1_r.
Qed.

Lemma ratio_scalar_same ign p : dictlike_b p = true -> ratio_scalar ign p p = 1.
Proof.
  intros Hd. unfold ratio_scalar, gen_no_term_scalar, gen_ratio_scalar.
  match goal with |- context [find ?f p] => destruct (find f p) as [t|] eqn:Ef end; [|reflexivity].
  apply find_some in Ef. destruct Ef as [Ht Hp]. apply andb_true_iff in Hp. destruct Hp as [Hnz _].
  apply negb_true_iff in Hnz. apply Qc_eqb_false in Hnz.
  pose proof (hlookup_map_dict (fun u => u) p t (fun u => eq_refl) Hd Ht) as H. rewrite map_id in H.
  rewrite H. unfold Qcdiv. apply Qcmult_inv_r. exact Hnz.
Qed.

Lemma Qc_eqb_true a b : Qc_eqb a b = true -> a = b.
Proof. unfold Qc_eqb. intros H. apply Qeq_bool_iff in H. apply Qc_is_canon. exact H. Qed.

(* no non-zero term at all: the polynomial is identically 0 *)
Lemma all_zero_energy p s :
  find (fun t => negb (Qc_eqb (snd t) 0) && negb (ignored [] t)) p = None -> henergy p s = 0.
Proof.
  intros Hf. unfold henergy. induction p as [|t p IH]; [reflexivity|].
  cbn [find] in Hf. destruct (negb (Qc_eqb (snd t) 0) && negb (ignored [] t)) eqn:E; [discriminate|].
  cbn [map qsum]. rewrite IH by exact Hf.
  unfold ignored in E. cbn [existsb negb] in E. rewrite andb_true_r in E.
  apply negb_false_iff in E. apply Qc_eqb_true in E. unfold mono_val. rewrite E. ring.
Qed.

Lemma normalize_scalar_nonzero lr pr ign p k : normalize_scalar lr pr ign p = Some k -> k <> 0.
Proof.
  unfold normalize_scalar. match goal with |- context [Qc_eqb ?i 0] => destruct (Qc_eqb i 0) eqn:E end; [discriminate|].
  intros H. inversion H. unfold gen_scale_factor, Qcdiv. rewrite Qcmult_1_l.
  apply Qcinv_nonzero. apply Qc_eqb_false. exact E.
Qed.

Lemma polyscale_problem_facts scalar lr pr p :
  dictlike_b p = true ->
  (forall k, scalar = Some k -> k <> 0) ->
  let qk := polyscale_problem scalar lr pr [] p in
  snd qk <> 0 /\ forall s, henergy (fst qk) s = snd qk * henergy p s.
Proof.
  intros Hd Hk. unfold polyscale_problem. destruct scalar as [k|].
  - cbn [fst snd]. split; [apply Hk; reflexivity|intros s; apply hscale_nil_energy].
  - destruct (normalize_scalar lr pr [] p) as [k|] eqn:En; cbn [fst snd].
    + pose proof (normalize_scalar_nonzero _ _ _ _ _ En) as Hnz.
      rewrite ratio_scalar_recovers by exact Hd.
      match goal with |- context [find ?f p] => destruct (find f p) eqn:Ef end.
      * split; [exact Hnz|intros s; apply hscale_nil_energy].
      * split; [intros H; discriminate H|]. intros s. rewrite hscale_nil_energy, (all_zero_energy p s Ef). ring.
    + rewrite ratio_scalar_same by exact Hd. split; [intros H; discriminate H|intros s; ring].
Qed.

(* both branches (un-scale / recompute), any non-zero explicit scalar or the normalisation *)
Theorem polyscale_honest orig scalar lr pr ign r :
  dictlike_b orig = true ->
  (forall k, scalar = Some k -> k <> 0) ->
  let qk := polyscale_problem scalar lr pr ign orig in
  honest (henergy (fst qk)) r -> honest (henergy orig) (polyscale_result orig (snd qk) ign r).
Proof.
  intros Hd Hk qk Hh. destruct ign as [|t ign].
  - destruct (polyscale_problem_facts scalar lr pr orig Hd Hk) as [Hnz He]. fold qk in Hnz, He.
    unfold honest, polyscale_result in *. cbn [r_labels r_rows r_energies]. rewrite Hh, map_map.
    apply map_ext. intros row. rewrite He. unfold gen_unscale, Qcdiv. field. exact Hnz.
  - unfold honest, polyscale_result. reflexivity.
Qed.

(* the call fails exactly when normalisation is requested with a zero bound *)
Theorem polyscale_call_raises scalar lr pr ign p :
  polyscale_call scalar lr pr ign p = None <->
  scalar = None /\ (fst lr = 0 \/ snd lr = 0 \/ fst pr = 0 \/ snd pr = 0).
Proof.
  unfold polyscale_call, zero_bound. destruct scalar as [k|].
  - split; [discriminate|intros [H _]; discriminate H].
  - destruct (Qc_eqb (fst lr) 0) eqn:E1; destruct (Qc_eqb (snd lr) 0) eqn:E2;
      destruct (Qc_eqb (fst pr) 0) eqn:E3; destruct (Qc_eqb (snd pr) 0) eqn:E4; cbn [orb];
      try (split; [intros _; split; [reflexivity|]|reflexivity];
           first [left; apply Qc_eqb_true; assumption
                 |right; left; apply Qc_eqb_true; assumption
                 |right; right; left; apply Qc_eqb_true; assumption
                 |right; right; right; apply Qc_eqb_true; assumption]).
    split; [discriminate|]. intros [_ [H|[H|[H|H]]]]; rewrite H in *;
      [apply Qc_eqb_false in E1|apply Qc_eqb_false in E2|apply Qc_eqb_false in E3|apply Qc_eqb_false in E4]; congruence.
Qed.

(* ------------------------------------------------------------------ *)
(* sorted truncation does not depend on how np.argsort orders equal energies:
   ANY ordering of the child's (energy,row) pairs that is ascending in energy has the same
   energy column, hence the same first n energies, as the model's stable sort *)

Lemma sorted_head_min (x : Qc * list Qc) l y : sorted_pairs (x :: l) -> In y (x :: l) -> fst x <= fst y.
Proof. intros [H _] [<-|Hy]; [apply Qcle_refl|apply H; exact Hy]. Qed.

Lemma sorted_perm_same_keys (l1 : list (Qc * list Qc)) : forall l2,
  sorted_pairs l1 -> sorted_pairs l2 -> Permutation (map fst l1) (map fst l2) ->
  map fst l1 = map fst l2.
Proof.
  induction l1 as [|x l1 IH]; intros l2 H1 H2 Hp.
  - apply Permutation_nil in Hp. symmetry. exact Hp.
  - destruct l2 as [|y l2]; [apply Permutation_sym, Permutation_nil in Hp; discriminate Hp|].
    cbn [map] in *.
    assert (Exy : fst x = fst y).
    { apply Qcle_antisym.
      - assert (Hin : In (fst y) (fst x :: map fst l1)) by (apply (Permutation_in _ (Permutation_sym Hp)); left; reflexivity).
        destruct Hin as [E|Hin]; [rewrite E; apply Qcle_refl|].
        apply in_map_iff in Hin. destruct Hin as [z [<- Hz]]. apply (proj1 H1). exact Hz.
      - assert (Hin : In (fst x) (fst y :: map fst l2)) by (apply (Permutation_in _ Hp); left; reflexivity).
        destruct Hin as [E|Hin]; [rewrite E; apply Qcle_refl|].
        apply in_map_iff in Hin. destruct Hin as [z [<- Hz]]. apply (proj1 H2). exact Hz. }
    rewrite Exy in *. f_equal. apply IH; [exact (proj2 H1)|exact (proj2 H2)|].
    apply (Permutation_cons_inv Hp).
Qed.

Theorem truncate_any_ascending_order n r (s : list (Qc * list Qc)) :
  Permutation s (combine (r_energies r) (r_rows r)) -> sorted_pairs s ->
  map fst (firstn n s) = r_energies (truncate_sorted n r) /\
  (forall x, In x (firstn n s) -> In x (combine (r_energies r) (r_rows r))).
Proof.
  intros Hp Hs. split.
  - unfold truncate_sorted. cbn [r_energies]. rewrite <- !firstn_map. f_equal.
    apply sorted_perm_same_keys; [exact Hs|apply sort_by_energy_sorted|].
    apply Permutation_map. eapply Permutation_trans; [exact Hp|apply Permutation_sym, sort_by_energy_perm].
  - intros x Hx. apply in_firstn_in in Hx. apply (Permutation_in _ Hp). exact Hx.
Qed.

(* ------------------------------------------------------------------ *)
(* PolyFixedVariableComposite: append_variables ends in from_samples(sort_labels=True); whatever
   order the columns are re-inserted in, the table means the same *)
Theorem polyfixed_reordered_honest orig fs r ls' :
  (forall row, In row (r_rows r) -> length row = length (r_labels r)) ->
  (forall f, In f fs -> ~ In (fst f) (r_labels r)) ->
  hmentions_only orig ls' ->
  honest (henergy (hfix fs orig)) r ->
  honest (henergy orig) (reorder_columns ls' (polyfixed_result orig fs r)).
Proof.
  intros Hlen Hdis Hm Hh.
  pose proof (polyfixed_honest orig fs r Hlen Hdis Hh) as H.
  unfold honest, reorder_columns in *. cbn [r_labels r_rows r_energies]. rewrite H, map_map.
  apply map_ext. intros row. apply (henergy_depends_on_vars orig ls'); [exact Hm|].
  intros v Hv. unfold row_sample. symmetry. apply reindex_row_value. exact Hv.
Qed.
