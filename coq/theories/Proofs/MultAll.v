(* C17: multiplication_circuit(n, m) for all n, m >= 2 - assembled statement *)
From Coq Require Import List ZArith Bool Arith Lia.
From Dimod Require Import Base.Util Model.Poly Model.Comb Gen.Gen_Gates Model.Gates Model.MultCircuit
  Proofs.GatesFacts Proofs.MultFacts Proofs.MultArith Proofs.MultAttain.
Import ListNotations.

Lemma map_nth_seq (l : list bool) : map (fun i => nth i l false) (seq 0 (length l)) = l.
Proof.
  induction l as [|x l IH]; [reflexivity|]. cbn [length seq map nth]. f_equal.
  rewrite <- seq_shift, map_map. exact IH.
Qed.

Theorem multiplication_circuit_all n m :
  (2 <= n)%nat -> (2 <= m)%nat ->
  (forall a : wassign, (0 <= circuit_energy (circuit n m) a)%Z) /\
  (forall a : wassign, circuit_energy (circuit n m) a = 0%Z ->
     bits_val (prod_bits n m a) = (bits_val (a_bits n a) * bits_val (b_bits m a))%Z) /\
  (forall a : wassign,
     bits_val (prod_bits n m a) <> (bits_val (a_bits n a) * bits_val (b_bits m a))%Z ->
     (1 <= circuit_energy (circuit n m) a)%Z) /\
  (forall abits bbits, length abits = n -> length bbits = m ->
     exists a : wassign, a_bits n a = abits /\ b_bits m a = bbits /\ circuit_energy (circuit n m) a = 0%Z).
Proof.
  intros Hn Hm. split; [intros a; apply circuit_energy_nonneg|]. split; [|split].
  - intros a He. apply (mult_arith_all n m a Hm); [|exact Hn].
    apply (circuit_energy_gap (circuit n m) a). exact He.
  - intros a Hne. destruct (all_sat (circuit n m) a) eqn:Es.
    + exfalso. apply Hne. apply (mult_arith_all n m a Hm Es Hn).
    + apply (circuit_energy_gap (circuit n m) a). exact Es.
  - intros abits bbits Ha Hb. exists (val n m abits bbits). split; [|split].
    + unfold a_bits. cbn [val]. unfold ab. rewrite <- Ha. apply map_nth_seq.
    + unfold b_bits. cbn [val]. unfold bb. rewrite <- Hb. apply map_nth_seq.
    + apply (circuit_energy_gap (circuit n m)). apply val_all_sat; assumption.
Qed.
