(* C20 - reads of cyDiscreteQuadraticModel that binary-search or walk adj_: get_quadratic finds exactly the recorded
   pairs, in both directions, and lists exactly the stored case interactions between the two variables. *)
From Coq Require Import List ZArith QArith Qcanon Bool Arith Lia Sorted.
From Dimod Require Import Base.Util Model.Poly Model.Adj Model.AdjMore Model.DqmNative
  Proofs.AdjNb Proofs.AdjInv Proofs.DqmNativeFacts.
Import ListNotations.
Local Open Scope nat_scope.

Lemma DInv_adjwf d : DInv d -> AdjWf (d_adj d).
Proof. intros H. apply DInv_iff in H. destruct H as [_ [_ [_ [_ [_ [_ [H _]]]]]]]. exact H. Qed.

Theorem get_quadratic_none_iff d u v :
  DInv d -> u < d_nvars d -> (get_quadratic d u v = None <-> ~ In v (d_nb d u)).
Proof.
  intros HD Hu. pose proof (DInv_adjwf d HD u Hu) as [HS _]. unfold get_quadratic.
  destruct (lb_has v (d_nb d u)) eqn:E.
  - split; [discriminate|]. intros N. exfalso. apply N. apply (lb_has_In v _ HS). exact E.
  - split; [|reflexivity]. intros _ HIn. apply (lb_has_In v _ HS) in HIn. unfold d_nb in E. congruence.
Qed.

Theorem get_quadratic_presence_symmetric d u v :
  DInv d -> u < d_nvars d -> v < d_nvars d -> (get_quadratic d u v = None <-> get_quadratic d v u = None).
Proof.
  intros HD Hu Hv. rewrite (get_quadratic_none_iff d u v HD Hu), (get_quadratic_none_iff d v u HD Hv).
  pose proof (DInv_adjwf d HD) as W. split; intros N HIn; apply N.
  - destruct (W v Hv) as [_ G]. apply (G u HIn).
  - destruct (W u Hu) as [_ G]. apply (G v HIn).
Qed.

(* neighborhood(ci, lo) walked while index < hi = the entries with lo <= index < hi, for a sorted neighbourhood *)
Lemma span_from_In lo hi n e : ksorted n -> (In e (span_from lo hi n) <-> In e n /\ lo <= fst e /\ fst e < hi).
Proof.
  intros HS. induction n as [|[w x] r IH].
  - cbn [span_from]. split; [intros []|intros [[] _]].
  - apply ksorted_cons in HS. destruct HS as [HL HS']. specialize (IH HS').
    cbn [span_from]. destruct (Nat.ltb_spec w lo) as [L|L].
    + rewrite IH. split.
      * intros [A B]. split; [right; exact A|exact B].
      * intros [[A|A] B]; [subst e; cbn [fst] in B; lia|split; assumption].
    + (* from here on: take while < hi; everything in r is > w *)
      assert (T : forall l, ksorted l -> (forall e', In e' l -> lo <= fst e') ->
                  (In e ((fix take (n : nbh) : nbh := match n with [] => [] | (w, b) :: r => if w <? hi then (w, b) :: take r else [] end) l)
                   <-> In e l /\ fst e < hi)).
      { clear. induction l as [|[w x] r IH]; intros HS Hlo.
        - split; [intros []|intros [[] _]].
        - apply ksorted_cons in HS. destruct HS as [HL HS']. destruct (Nat.ltb_spec w hi) as [L|L].
          + cbn [In]. rewrite IH; [|exact HS'|intros e' He'; apply Hlo; right; exact He'].
            split.
            * intros [<-|[A B]]; [split; [left; reflexivity|exact L]|split; [right; exact A|exact B]].
            * intros [[<-|A] B]; [left; reflexivity|right; split; assumption].
          + split; [intros []|]. intros [[<-|A] B]; [cbn [fst] in B; lia|].
            pose proof (HL e A) as G. lia. }
      rewrite (T ((w, x) :: r)).
      * split; [intros [A B]; split; [exact A|split; [|exact B]]|intros [A [_ B]]; split; assumption].
        destruct A as [<-|A]; [exact L|]. pose proof (HL e A). lia.
      * apply ksorted_cons. split; assumption.
      * intros e' [<-|He']; [exact L|]. pose proof (HL e' He'). cbn [fst]. lia.
Qed.

Theorem get_quadratic_lists_stored d u v l cu cv x :
  DInv d -> u < d_nvars d -> v < d_nvars d -> cu < d_ncases d u -> cv < d_ncases d v ->
  get_quadratic d u v = Some l ->
  (In (cu, cv, x) l <-> nb_get (cs d v cv) (nb (d_b d) (cs d u cu)) = Some x).
Proof.
  intros HD Hu Hv Hcu Hcv HG. unfold get_quadratic in HG. destruct (lb_has v (d_nb d u)); [|discriminate].
  injection HG as <-. pose proof HD as HP. apply DInv_iff in HP. destruct HP as [HI [_ [H3 [_ [H5 [H6 _]]]]]].
  destruct (st_facts (d_st d) (d_nvars d) (nvars (d_b d)) H3 H5 H6 u cu Hu Hcu) as [Bu _].
  assert (IP : InvP (d_b d)) by (apply inv_b_iff; exact HI). destruct IP as [_ [_ [P3 _]]].
  assert (KS : ksorted (nb (d_b d) (cs d u cu))) by (apply P3; exact Bu).
  rewrite in_flat_map. split.
  - intros [cu' [Hc He]]. apply in_seq in Hc. apply in_map_iff in He. destruct He as [[w y] [E He]].
    cbn [fst snd] in E. injection E as E1 E2 E3. subst cu' y.
    apply span_from_In in He; [|exact KS]. destruct He as [A [B C]]. cbn [fst] in B, C.
    apply nb_get_In; [exact KS|]. unfold cs, d_start in *. replace (nth v (d_st d) 0 + cv) with w by lia. exact A.
  - intros G. apply nb_get_In in G; [|exact KS]. exists cu. split; [apply in_seq; lia|].
    apply in_map_iff. exists (cs d v cv, x). split.
    + cbn [fst snd]. unfold cs. f_equal. f_equal. lia.
    + apply span_from_In; [exact KS|]. split; [exact G|]. cbn [fst]. unfold cs, d_ncases, d_start in *. lia.
Qed.


(* ---------- energies: the `if v > u: break` walk visits exactly the recorded neighbours below u ---------- *)
Lemma below_or_eq_filter u l : sorted_nat l = true -> ~ In u l -> below_or_eq u l = filter (fun v => v <? u) l.
Proof.
  induction l as [|v r IH]; intros HS HN; [reflexivity|].
  apply sorted_cons in HS. destruct HS as [HS HA]. cbn [below_or_eq filter].
  destruct (Nat.ltb_spec u v) as [L|L].
  - destruct (Nat.ltb_spec v u) as [L'|_]; [lia|].
    symmetry. clear IH. induction r as [|w r' IHr]; [reflexivity|]. cbn [filter].
    assert (v < w) by (apply HA; left; reflexivity).
    destruct (Nat.ltb_spec w u) as [L'|_]; [lia|]. apply IHr.
    + apply sorted_cons in HS. destruct HS as [HS' _]. exact HS'.
    + intros x Hx. apply HA. right. exact Hx.
    + intros [E|Hx]; [apply HN; left; exact E|apply HN; right; right; exact Hx].
  - assert (v <> u) by (intros E; apply HN; left; exact E).
    destruct (Nat.ltb_spec v u) as [_|L']; [|lia]. f_equal. apply IH; [exact HS|]. intros Hx. apply HN. right. exact Hx.
Qed.

Local Open Scope Qc_scope.

Lemma fold_sum {A} (f : A -> Qc) l : forall a, fold_left (fun e x => e + f x) l a = a + qsum (map f l).
Proof.
  induction l as [|x r IH]; intros a; cbn [fold_left map qsum]; [ring|]. rewrite IH. ring.
Qed.

Lemma fold_sum2 {A} (g : Qc -> A -> Qc) (f : A -> Qc) l :
  (forall e x, g e x = e + f x) -> forall a, fold_left g l a = a + qsum (map f l).
Proof.
  intros H. induction l as [|x r IH]; intros a; cbn [fold_left map qsum]; [ring|]. rewrite IH, H. ring.
Qed.

Theorem d_energy_is_sum d s :
  DInv d ->
  d_energy d s =
  off (d_b d)
  + qsum (map (fun u => linear (d_b d) (cs d u (nth u s 0%nat))
                        + qsum (map (fun v => quadratic (d_b d) (cs d u (nth u s 0%nat)) (cs d v (nth v s 0%nat)))
                                    (filter (fun v => (v <? u)%nat) (d_nb d u))))
              (seq 0 (d_nvars d))).
Proof.
  intros HD. pose proof (DInv_adjwf d HD) as W. unfold d_energy.
  assert (G : forall l a, (forall u, In u l -> (u < d_nvars d)%nat) ->
    fold_left (fun e u =>
               let cu := cs d u (nth u s 0%nat) in
               fold_left (fun e' v => e' + quadratic (d_b d) cu (cs d v (nth v s 0%nat)))
                         (below_or_eq u (d_nb d u)) (e + linear (d_b d) cu)) l a
    = a + qsum (map (fun u => linear (d_b d) (cs d u (nth u s 0%nat))
                        + qsum (map (fun v => quadratic (d_b d) (cs d u (nth u s 0%nat)) (cs d v (nth v s 0%nat)))
                                    (filter (fun v => (v <? u)%nat) (d_nb d u)))) l)).
  { induction l as [|u r IH]; intros a Hl; cbn [fold_left map qsum]; [ring|].
    rewrite IH by (intros x Hx; apply Hl; right; exact Hx). cbv zeta. rewrite fold_sum.
    destruct (W u (Hl u (or_introl eq_refl))) as [HS HR].
    rewrite (below_or_eq_filter u (d_nb d u) HS).
    - ring.
    - intros HIn. destruct (HR u HIn) as [_ [N _]]. apply N. reflexivity. }
  apply G. intros u Hu. apply in_seq in Hu. lia.
Qed.

Print Assumptions get_quadratic_none_iff.
Print Assumptions get_quadratic_presence_symmetric.
Print Assumptions get_quadratic_lists_stored.
Print Assumptions d_energy_is_sum.
