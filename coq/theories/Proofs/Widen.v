(* IEEE-754 binary32 -> binary64 widening on the fields (sign, biased exponent, fraction): the value is preserved. *)
From Coq Require Import List NArith ZArith QArith Qpower Lia.
From Dimod Require Import Model.Codec Model.CqmFile.
Import ListNotations.
Open Scope Q_scope.

Definition two : Q := 2 # 1.

(* value of a finite number with `mbits` fraction bits and exponent bias `bias`; None: infinity / NaN *)
Definition fval (bias : Z) (mbits : N) (emax : N) (f : N * N * N) : option Q :=
  match f with
  | (s, e, m) =>
      if N.eqb e emax then None else
      let mag := if N.eqb e 0 then inject_Z (Z.of_N m) * two ^ (1 - bias - Z.of_N mbits)
                 else inject_Z (Z.of_N (2 ^ mbits + m)) * two ^ (Z.of_N e - bias - Z.of_N mbits) in
      Some (if N.eqb s 0 then mag else - mag)
  end.

Definition val32 := fval 127 23 255.
Definition val64 := fval 1023 52 2047.

Definition oeq (a b : option Q) : Prop :=
  match a, b with Some x, Some y => x == y | None, None => True | _, _ => False end.

Lemma two_neq : ~ two == 0.
Proof. unfold two. intro H. discriminate. Qed.

Lemma inject_pow : forall k, (0 <= k)%Z -> inject_Z (2 ^ k) == two ^ k.
Proof. intros k Hk. rewrite (Zpower_Qpower 2 k Hk). reflexivity. Qed.

(* a * 2^k scaled by 2^(z-k) is a scaled by 2^z *)
Lemma scale : forall a k z, (0 <= k)%Z -> inject_Z (a * 2 ^ k) * two ^ (z - k) == inject_Z a * two ^ z.
Proof.
  intros a k z Hk. rewrite inject_Z_mult, (inject_pow k Hk).
  rewrite <- Qmult_assoc. rewrite <- (Qpower_plus two k (z - k) two_neq).
  replace (k + (z - k))%Z with z by lia. reflexivity.
Qed.

Lemma shiftl_Z : forall a k, Z.of_N (N.shiftl a k) = (Z.of_N a * 2 ^ Z.of_N k)%Z.
Proof. intros a k. rewrite N.shiftl_mul_pow2, N2Z.inj_mul, N2Z.inj_pow. reflexivity. Qed.

Theorem widen_value : forall s e m, (m < 2 ^ 23)%N -> (e < 255)%N ->
  oeq (val64 (widen_fields (s, e, m))) (val32 (s, e, m)).
Proof.
  intros s e m Hm He. unfold widen_fields, val32, val64.
  destruct (N.eqb e 0) eqn:E0.
  - apply N.eqb_eq in E0. subst e. destruct (N.eqb m 0) eqn:M0.
    + apply N.eqb_eq in M0. subst m. unfold fval. cbn [N.eqb]. unfold oeq.
      destruct (N.eqb s 0); cbn; reflexivity.
    + apply N.eqb_neq in M0. set (p := N.log2 m).
      assert (Hp : (2 ^ p <= m < 2 ^ N.succ p)%N) by (apply N.log2_spec; lia).
      assert (Hp22 : (p <= 22)%N).
      { destruct (N.le_gt_cases p 22) as [L|G]; [exact L|]. exfalso.
        assert ((2 ^ 23 <= 2 ^ p)%N) by (apply N.pow_le_mono_r; lia). lia. }
      unfold fval. replace (N.eqb (p + 874) 2047) with false by (symmetry; apply N.eqb_neq; lia).
      replace (N.eqb (p + 874) 0) with false by (symmetry; apply N.eqb_neq; lia).
      cbn [N.eqb]. unfold oeq.
      assert (V : inject_Z (Z.of_N (2 ^ 52 + N.shiftl (m - N.shiftl 1 p) (52 - p))) * two ^ (Z.of_N (p + 874) - 1023 - Z.of_N 52)
                  == inject_Z (Z.of_N m) * two ^ (1 - 127 - Z.of_N 23)).
      { assert (I : Z.of_N (2 ^ 52 + N.shiftl (m - N.shiftl 1 p) (52 - p)) = (Z.of_N m * 2 ^ (52 - Z.of_N p))%Z).
        { rewrite N2Z.inj_add, shiftl_Z, N2Z.inj_sub by (rewrite N.shiftl_1_l; apply Hp).
          rewrite N.shiftl_1_l, !N2Z.inj_pow, N2Z.inj_sub by lia.
          change (Z.of_N 2) with 2%Z. change (Z.of_N 52) with 52%Z.
          replace (2 ^ 52)%Z with (2 ^ Z.of_N p * 2 ^ (52 - Z.of_N p))%Z by (rewrite <- Z.pow_add_r by lia; f_equal; lia).
          ring. }
        rewrite I. rewrite <- (scale (Z.of_N m) (52 - Z.of_N p) (1 - 127 - Z.of_N 23)) by lia.
        replace (Z.of_N (p + 874) - 1023 - Z.of_N 52)%Z with (1 - 127 - Z.of_N 23 - (52 - Z.of_N p))%Z by lia.
        reflexivity. }
      destruct (N.eqb s 0); [exact V|now rewrite V].
  - pose proof (proj1 (N.eqb_neq _ _) E0) as E0'.
    replace (N.eqb e 255) with false by (symmetry; apply N.eqb_neq; lia).
    unfold fval. rewrite E0.
    replace (N.eqb (e + 896) 2047) with false by (symmetry; apply N.eqb_neq; lia).
    replace (N.eqb (e + 896) 0) with false by (symmetry; apply N.eqb_neq; lia).
    replace (N.eqb e 255) with false by (symmetry; apply N.eqb_neq; lia). unfold oeq.
    assert (V : inject_Z (Z.of_N (2 ^ 52 + N.shiftl m 29)) * two ^ (Z.of_N (e + 896) - 1023 - Z.of_N 52)
                == inject_Z (Z.of_N (2 ^ 23 + m)) * two ^ (Z.of_N e - 127 - Z.of_N 23)).
    { assert (I : Z.of_N (2 ^ 52 + N.shiftl m 29) = (Z.of_N (2 ^ 23 + m) * 2 ^ 29)%Z).
      { rewrite !N2Z.inj_add, shiftl_Z. change (Z.of_N (2 ^ 52)) with (2 ^ 23 * 2 ^ 29)%Z.
        change (Z.of_N (2 ^ 23)) with (2 ^ 23)%Z. change (Z.of_N 29) with 29%Z. ring. }
      rewrite I. rewrite <- (scale (Z.of_N (2 ^ 23 + m)) 29 (Z.of_N e - 127 - Z.of_N 23)) by lia.
      replace (Z.of_N (e + 896) - 1023 - Z.of_N 52)%Z with (Z.of_N e - 127 - Z.of_N 23 - 29)%Z by lia.
      reflexivity. }
    destruct (N.eqb s 0); [exact V|now rewrite V].
Qed.

(* infinities stay infinities, NaNs stay NaNs (payload shifted), and the result fields are in range *)
Theorem widen_special : forall s m, (m < 2 ^ 23)%N ->
  let '(s', e', m') := widen_fields (s, 255%N, m) in s' = s /\ e' = 2047%N /\ (m' = 0%N <-> m = 0%N) /\ (m' < 2 ^ 52)%N.
Proof.
  intros s m Hm. cbn [widen_fields N.eqb]. repeat split.
  - intros H. rewrite N.shiftl_mul_pow2 in H. apply N.eq_mul_0 in H. destruct H as [H|H]; [exact H|discriminate].
  - intros H. subst m. reflexivity.
  - rewrite N.shiftl_mul_pow2. change (2 ^ 52)%N with (2 ^ 23 * 2 ^ 29)%N. apply N.mul_lt_mono_pos_r; [reflexivity|exact Hm].
Qed.
