(* C20 - the VALUES produced by the two fixing paths of the cq.* stream (Model/ChkC20Cqm.v):
   Expression::fix_variable (m_fix_variable: the variable leaves this expression only, nothing is shifted) and the
   copying ConstrainedQuadraticModel::fix_variables path (fix_expr).  Fixing = evaluating at the assignment:
   the energy of the fixed expression at any sample is the energy of the source at the sample with the fixed values
   put in.  The copying path is identified with the C03 mirror Model/FixCopy.fix_variables_expr (its statement
   Proofs/FixCopyFacts.fix_copy_expr_energy is re-used); the single-expression path is proved here. *)
From Coq Require Import List ZArith QArith Qcanon Bool Arith Lia.
From Dimod Require Import Base.Util Model.Poly Model.Expr Model.ExprOps Model.FixCopy Model.ChkC20Cqm
  Proofs.PolyFacts Proofs.ExprFacts Proofs.ExprViewFacts Proofs.ExprSim Proofs.FixCopyFacts Proofs.ChkC20CqmFacts.
Import ListNotations.
Open Scope Qc_scope.

(* ---------- energies only look at the variables of the expression ---------- *)
Lemma energy_abs_ext_on n e s1 s2 :
  ExprInv n e -> (forall w, In w (e_vars e) -> s1 w = s2 w) -> energy (abs_expr e) s1 = energy (abs_expr e) s2.
Proof.
  intros [ND LT LEN QD IDX] H. unfold energy, abs_expr. cbn [p_off p_lin p_quad]. f_equal; [f_equal|].
  - unfold lin_energy. f_equal. apply map_ext_in. intros t Ht. unfold lterm_val. rewrite (H (fst t)); [reflexivity|].
    destruct t as [u b]. apply in_combine_l in Ht. exact Ht.
  - unfold quad_energy. f_equal. rewrite !map_map. apply map_ext_in. intros t Ht. unfold qterm_val. cbn [fst snd].
    rewrite Forall_forall in QD. destruct (QD t Ht) as [A B].
    rewrite (H (nth (fst (fst t)) (e_vars e) 0%nat)) by (apply nth_In; exact A).
    rewrite (H (nth (snd (fst t)) (e_vars e) 0%nat)) by (apply nth_In; exact B). reflexivity.
Qed.

(* ================= 1. the copying path ================= *)
Lemma fold_left_ext_in {A B} (f g : A -> B -> A) l : forall a,
  (forall x y, In y l -> f x y = g x y) -> fold_left f l a = fold_left g l a.
Proof.
  induction l as [|y l IH]; intros a H; [reflexivity|]. cbn [fold_left]. rewrite (H a y (or_introl eq_refl)).
  apply IH. intros x y' Hy. apply H. right. exact Hy.
Qed.

Lemma fold_left_map_r {A B C} (F : A -> C -> A) (g : B -> C) l : forall a,
  fold_left F (map g l) a = fold_left (fun d x => F d (g x)) l a.
Proof. induction l as [|x l IH]; intros a; [reflexivity|]. cbn [map fold_left]. apply IH. Qed.

Lemma comb_idx (vars : list nat) : forall (lin : list Qc) k (f : nat -> Qc),
  length lin = length vars -> (forall i, (i < length lin)%nat -> f (k + i)%nat = nth i lin 0) ->
  map (fun iv => (snd iv, f (fst iv))) (combine (seq k (length vars)) vars) = combine vars lin.
Proof.
  induction vars as [|v vars IH]; intros lin k f HL Hf; [reflexivity|].
  destruct lin as [|b lin]; [discriminate|]. cbn [length seq combine map fst snd]. f_equal.
  - f_equal. specialize (Hf 0%nat). rewrite Nat.add_0_r in Hf. apply Hf. cbn [length]. lia.
  - apply IH; [cbn [length] in HL; lia|]. intros i Hi. replace (S k + i)%nat with (k + S i)%nat by lia.
    rewrite Hf by (cbn [length]; lia). reflexivity.
Qed.

Definition asg_list (n : nat) (a : nat -> Qc) : list Qc := map a (seq 0 n).

Lemma asg_get_list n a v : (v < n)%nat -> asg_get (asg_list n a) v = a v.
Proof.
  intros H. unfold asg_get, asg_list. rewrite (nth_indep _ 0 (a 0%nat)) by (rewrite map_length, seq_length; exact H).
  rewrite map_nth, seq_nth by exact H. reflexivity.
Qed.

(* the C20 model of the copying path IS the C03 mirror of fix_variables_expr *)
Theorem fix_expr_is_fix_variables_expr n vt' o2n a e :
  ExprInv n e -> fix_expr vt' o2n a e = fix_variables_expr vt' e o2n (asg_list n a).
Proof.
  intros [ND LT LEN QD IDX]. unfold fix_expr, fix_variables_expr. cbv zeta.
  rewrite Forall_forall in LT, QD.
  assert (E1 : fold_left (fun d iv =>
                         match nth (snd iv) o2n None with
                         | None => m_add_offset (nth (fst iv) (e_lin e) 0 * a (snd iv)) d
                         | Some nv => m_add_linear nv (nth (fst iv) (e_lin e) 0) d
                         end)
                      (combine (seq 0 (length (e_vars e))) (e_vars e)) (m_add_offset (e_off e) e_empty)
               = fold_left (fve_lin_step o2n (asg_list n a)) (combine (e_vars e) (e_lin e)) (m_add_offset (e_off e) e_empty)).
  { rewrite <- (comb_idx (e_vars e) (e_lin e) 0%nat (fun i => nth i (e_lin e) 0) LEN) by (intros i _; reflexivity).
    rewrite fold_left_map_r. apply fold_left_ext_in. intros d [i v] Hin. apply in_combine_r in Hin.
    unfold fve_lin_step, o2n_get. cbn [fst snd]. destruct (nth v o2n None); [reflexivity|].
    rewrite asg_get_list by (apply LT; exact Hin). reflexivity. }
  rewrite E1. apply fold_left_ext_in. intros d t Ht. destruct (QD t Ht) as [A B].
  unfold fve_quad_step, o2n_get.
  rewrite !asg_get_list by (apply LT, nth_In; assumption). reflexivity.
Qed.

Theorem fix_expr_energy n n' vt' o2n a e s' :
  ExprInv n e -> O2nOk n' o2n -> FoldCond vt' s' (e_vars e) o2n (e_quad e) ->
  energy (abs_expr (fix_expr vt' o2n a e)) s'
  = energy (abs_expr e) (fun old => match nth old o2n None with None => a old | Some k => s' k end).
Proof.
  intros I HO FC. rewrite (fix_expr_is_fix_variables_expr n vt' o2n a e I).
  rewrite (fix_copy_expr_energy n' vt' e o2n (asg_list n a) s' HO FC).
  apply (energy_abs_ext_on n e _ _ I). intros w Hw. unfold lift_sample, o2n_get.
  destruct (nth w o2n None); [reflexivity|]. apply asg_get_list.
  destruct I as [_ LT _ _ _]. rewrite Forall_forall in LT. apply LT, Hw.
Qed.

(* with samples that respect the vartypes of the new model no side condition is left *)
Theorem fix_expr_energy_respects n n' vt' o2n a e s' :
  ExprInv n e -> O2nOk n' o2n -> respects vt' s' ->
  energy (abs_expr (fix_expr vt' o2n a e)) s'
  = energy (abs_expr e) (fun old => match nth old o2n None with None => a old | Some k => s' k end).
Proof. intros I HO R. apply (fix_expr_energy n n'); [exact I|exact HO|apply respects_FoldCond; exact R]. Qed.

(* ================= 2. Expression::fix_variable ================= *)
Definition fix_step (i : nat) (a : Qc) (l : list Qc) (t : lqterm) : list Qc :=
  let x := fst (fst t) in let y := snd (fst t) in let w := snd t in
  if ((x =? i) && (y =? i))%nat then Expr.upd_nth i (fun z => z + w * a) l
  else if (x =? i)%nat then Expr.upd_nth y (fun z => z + w * a) l
  else if (y =? i)%nat then Expr.upd_nth x (fun z => z + w * a) l
  else l.

Lemma fix_step_length i a l t : length (fix_step i a l t) = length l.
Proof.
  unfold fix_step. cbv zeta. destruct ((fst (fst t) =? i) && (snd (fst t) =? i))%nat; [apply upd_nth_length|].
  destruct (fst (fst t) =? i)%nat; [apply upd_nth_length|].
  destruct (snd (fst t) =? i)%nat; [apply upd_nth_length|reflexivity].
Qed.

Lemma QuadE_cons vars t q s :
  QuadE vars (t :: q) s
  = snd t * s (nth (fst (fst t)) vars 0%nat) * s (nth (snd (fst t)) vars 0%nat) + QuadE vars q s.
Proof. reflexivity. Qed.

Lemma upd_at s v x : upd s v x v = x.
Proof. unfold upd. rewrite Nat.eqb_refl. reflexivity. Qed.

Lemma upd_other s v x w : w <> v -> upd s v x w = s w.
Proof. intros H. unfold upd. destruct (Nat.eqb_spec w v); [contradiction|reflexivity]. Qed.

Lemma fix_fold_energy vars i v a s (ND : NoDup vars) (Hi : nth_error vars i = Some v) : forall q l,
  length l = length vars ->
  Forall (fun t => (fst (fst t) < length vars)%nat /\ (snd (fst t) < length vars)%nat) q ->
  a * nth i (fold_left (fix_step i a) q l) 0 + LinE vars (fold_left (fix_step i a) q l) (upd s v 0)
  + QuadE vars q (upd s v 0)
  = a * nth i l 0 + LinE vars l (upd s v 0) + QuadE vars q (upd s v a).
Proof.
  assert (Hil : (i < length vars)%nat) by (apply nth_error_Some; congruence).
  assert (Ev : nth i vars 0%nat = v) by (apply nth_error_nth; exact Hi).
  assert (NE : forall j, (j < length vars)%nat -> j <> i -> nth j vars 0%nat <> v).
  { intros j Hj Hne E. pose proof (nth_eq_iff vars i v j ND Hi Hj) as G. rewrite E, Nat.eqb_refl in G.
    symmetry in G. apply Nat.eqb_eq in G. contradiction. }
  induction q as [|t q IH]; intros l HL HQ; [reflexivity|].
  apply Forall_cons_iff in HQ. destruct HQ as [[Hx Hy] HQ]. cbn [fold_left].
  rewrite !QuadE_cons.
  pose proof (IH (fix_step i a l t) ltac:(rewrite fix_step_length; exact HL) HQ) as G.
  set (F := fold_left (fix_step i a) q (fix_step i a l t)) in *.
  transitivity (snd t * upd s v 0 (nth (fst (fst t)) vars 0%nat) * upd s v 0 (nth (snd (fst t)) vars 0%nat)
                + (a * nth i F 0 + LinE vars F (upd s v 0) + QuadE vars q (upd s v 0))); [ring|].
  rewrite G. clear G F IH.
  assert (S : snd t * upd s v 0 (nth (fst (fst t)) vars 0%nat) * upd s v 0 (nth (snd (fst t)) vars 0%nat)
              + a * nth i (fix_step i a l t) 0 + LinE vars (fix_step i a l t) (upd s v 0)
              = a * nth i l 0 + LinE vars l (upd s v 0)
                + snd t * upd s v a (nth (fst (fst t)) vars 0%nat) * upd s v a (nth (snd (fst t)) vars 0%nat)).
  { unfold fix_step. cbv zeta.
    destruct (Nat.eqb_spec (fst (fst t)) i) as [Ex|Nx]; destruct (Nat.eqb_spec (snd (fst t)) i) as [Ey|Ny]; cbn [andb].
    - rewrite Ex, Ey, Ev, !upd_at. rewrite LinE_upd_nth by lia. rewrite nth_upd_nth_same by lia. rewrite Ev, upd_at. ring.
    - rewrite Ex, Ev, !upd_at. rewrite LinE_upd_nth by lia.
      rewrite nth_upd_nth_other by congruence.
      rewrite !upd_other by (apply NE; assumption). ring.
    - rewrite Ey, Ev, !upd_at. rewrite LinE_upd_nth by lia.
      rewrite nth_upd_nth_other by congruence.
      rewrite !upd_other by (apply NE; assumption). ring.
    - rewrite !upd_other by (apply NE; assumption). ring. }
  transitivity ((snd t * upd s v 0 (nth (fst (fst t)) vars 0%nat) * upd s v 0 (nth (snd (fst t)) vars 0%nat)
                 + a * nth i (fix_step i a l t) 0 + LinE vars (fix_step i a l t) (upd s v 0))
                + QuadE vars q (upd s v a)); [ring|].
  rewrite S. ring.
Qed.

Theorem fix_variable_energy n e v a s :
  ExprInv n e -> energy (abs_expr (m_fix_variable v a e)) s = energy (abs_expr e) (upd s v a).
Proof.
  intros I. pose proof I as [ND LT LEN QD IDX]. unfold m_fix_variable.
  destruct (idx_find v (e_idx e)) as [i|] eqn:F.
  - rewrite (IDX v) in F. apply index_of_nth in F.
    change (fold_left _ (e_quad e) (e_lin e)) with (fold_left (fix_step i a) (e_quad e) (e_lin e)).
    set (L := fold_left (fix_step i a) (e_quad e) (e_lin e)).
    assert (HLl : length L = length (e_vars e)).
    { unfold L. clear - LEN. revert LEN. generalize (e_lin e). induction (e_quad e) as [|t q IH]; intros l H; [exact H|].
      cbn [fold_left]. apply IH. rewrite fix_step_length. exact H. }
    set (e1 := mkE (e_vars e) (e_idx e) L (e_quad e) (e_off e + a * nth i L 0)).
    assert (I1 : ExprInv n e1) by (constructor; cbn [e1 e_vars e_idx e_lin e_quad]; assumption).
    rewrite (remove_variable_abs n e1 v I1), energy_remove_variable_zero, !energy_abs.
    cbn [e1 e_off e_vars e_lin e_quad].
    pose proof (fix_fold_energy (e_vars e) i v a s ND F (e_quad e) (e_lin e) LEN QD) as G. fold L in G.
    rewrite (LinE_upd_sample (e_vars e) (e_lin e) i v a s ND LEN F).
    rewrite (LinE_upd_sample (e_vars e) (e_lin e) i v 0 s ND LEN F) in G.
    transitivity (e_off e + (a * nth i L 0 + LinE (e_vars e) L (upd s v 0) + QuadE (e_vars e) (e_quad e) (upd s v 0))); [ring|].
    rewrite G. ring.
  - rewrite (IDX v) in F. apply index_of_None in F. apply (energy_abs_ext_on n e _ _ I). intros w Hw.
    symmetry. apply upd_other. intros E. subst w. contradiction.
Qed.

(* the value no longer depends on the sample at v *)
Theorem fix_variable_energy_indep n e v a s x :
  ExprInv n e -> energy (abs_expr (m_fix_variable v a e)) (upd s v x) = energy (abs_expr (m_fix_variable v a e)) s.
Proof.
  intros I. rewrite !(fix_variable_energy n e v a _ I). apply energy_ext. intros w. unfold upd.
  destruct (w =? v)%nat; reflexivity.
Qed.

Print Assumptions fix_expr_is_fix_variables_expr.
Print Assumptions fix_expr_energy.
Print Assumptions fix_variable_energy.

(* ================= 3. the whole model through the copying path ================= *)
Theorem cqm_fix_variables_energy vs asg q s' :
  let n := length (m_info q) in
  let q' := cqm_fix_variables vs asg q in
  let lift := fun old => match nth old (old_to_new n vs) None with None => asg_of vs asg old | Some k => s' k end in
  respects (vt_info (m_info q')) s' ->
  ExprInv n (m_obj q) -> cons_ok n (m_cons q) ->
  energy (abs_expr (m_obj q')) s' = energy (abs_expr (m_obj q)) lift
  /\ map (fun k => energy (abs_expr (mc_e k)) s') (m_cons q')
     = map (fun k => energy (abs_expr (mc_e k)) lift) (m_cons q).
Proof.
  cbv zeta. intros R Io Ic.
  assert (HO : O2nOk (count_free (length (m_info q)) vs) (old_to_new (length (m_info q)) vs)).
  { intros v k Hk. apply (old_to_new_bound _ _ v k Hk). }
  unfold cqm_fix_variables in *. cbn [m_info m_obj m_cons] in *. split.
  - apply (fix_expr_energy_respects (length (m_info q)) _ _ _ _ _ _ Io HO R).
  - rewrite map_map. apply map_ext_in. intros k Hk. cbn [mc_e mc_set_e].
    unfold cons_ok in Ic. rewrite Forall_forall in Ic.
    apply (fix_expr_energy_respects (length (m_info q)) _ _ _ _ _ _ (Ic k Hk) HO R).
Qed.

Print Assumptions cqm_fix_variables_energy.

(* ================= 4. the index-level op MFixVariable of ExprOps.mstep (the in-place path) ================= *)
Theorem mstep_fix_variable_energy q v a s :
  (v < length (m_info q))%nat ->
  ExprInv (length (m_info q)) (m_obj q) -> cons_ok (length (m_info q)) (m_cons q) ->
  let q' := mstep q (MFixVariable v a) in
  let lift := upd (fun u => s (shift v u)) v a in
  energy (abs_expr (m_obj q')) s = energy (abs_expr (m_obj q)) lift
  /\ map (fun k => energy (abs_expr (mc_e k)) s) (m_cons q')
     = map (fun k => energy (abs_expr (mc_e k)) lift) (m_cons q).
Proof.
  intros Hv Io Ic. cbv zeta. unfold mstep. cbn [mop_ok]. apply Nat.ltb_lt in Hv. rewrite Hv. cbn [negb].
  unfold cqm_fix_variable, cqm_remove_variable, cqm_substitute. cbn [m_info m_obj m_cons]. split.
  - apply (fix_energy _ _ v a s Io).
  - rewrite !map_map. apply map_ext_in. intros k Hk. cbn [mc_e mc_set_e].
    unfold cons_ok in Ic. rewrite Forall_forall in Ic. apply (fix_energy _ _ v a s (Ic k Hk)).
Qed.

Print Assumptions mstep_fix_variable_energy.
